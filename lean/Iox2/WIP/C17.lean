/-
C17 — orderly shutdown in any order leaves nothing behind.
Theorems about `Iox2.Shutdown` (the publish-subscribe world plus the node handle and the service
handle as droppable objects, and the function `resources` = what exists in the file system /
shared-memory namespace, validated against the real ipc service after every drop of every
permutation of drop orders).
-/
import Iox2.Model.Shutdown
namespace Iox2.Shutdown.C17
open Iox2.PubSub Iox2.Shutdown

/-! ### vocabulary (part of the statements: do not change) -/

/-- the operations that drop an object -/
def IsDrop : SOp → Prop
  | .dnode | .dsvc => True
  | .ps (.dpub _) | .ps (.dsub _) | .ps (.dloan _ _) | .ps (.dsample _ _) => True
  | _ => False

def count (k : String) (r : List (String × Nat)) : Nat :=
  match r.find? (·.1 = k) with
  | some e => e.2
  | none => 0

/-! ### theorems -/

/-- no drop panics, whatever else is still alive -/
theorem drop_never_panics (cfg : Cfg) (ipc : Bool) (s : SWorld) (h : Reach cfg ipc s) (hp : s.w.panicked = false)
    (op : SOp) (hd : IsDrop op) : (step s op).1.w.panicked = false := by
  sorry

/-- once every object is dropped — in whatever order, with whatever happened in between — nothing of
what the application created remains, except possibly the node's (empty) directory -/
theorem all_dropped_nothing_left_partial (cfg : Cfg) (hc : cfg.Sane) (ipc : Bool) (s : SWorld) (h : Reach cfg ipc s)
    (hp : s.w.panicked = false) (hall : AllDropped s) :
    resources s = (if s.ipc && s.nodeDirLeft then [("nodedir", 1)] else []) := by
  sorry

/-- … and the directory is left only when the object that released the last reference to the node was a
port-side object (port, loan or sample): if the node handle or the service handle is dropped last, nothing
at all remains -/
theorem node_dir_left_only_by_port (cfg : Cfg) (ipc : Bool) (s : SWorld) (h : Reach cfg ipc s) (op : SOp)
    (hn : s.nodeDirLeft = false) (hl : (step s op).1.nodeDirLeft = true) :
    (∃ o, op = .ps o) ∧ nodeCore s = true ∧ nodeCore (step s op).1 = false ∧ s.node = false ∧ s.svc = false := by
  sorry

/-- FALSE AS A FULL STATEMENT (finding D22): "nothing remains" — concrete history after which every
object is dropped and the node's directory is still there -/
theorem all_dropped_nothing_left_refuted :
    ∃ (cfg : Cfg) (ops : List SOp), cfg.Sane ∧
      let s := run (SWorld.init cfg true) ops
      AllDropped s ∧ s.w.panicked = false ∧ resources s ≠ [] := by
  sorry

/-- objects that are still alive keep what they need: while a publisher port (or one of its loans)
exists, its data segment, its port tag, the service's files and the node's files all exist — even
after the node handle and the service handle were dropped -/
theorem live_publisher_keeps_resources (cfg : Cfg) (hc : cfg.Sane) (s : SWorld) (h : Reach cfg true s)
    (hp : s.w.panicked = false) (p : Nat) (P : Pub) (hP : getP s.w p = some P) (hl : P.alive = true ∨ P.loans ≠ []) :
    let r := resources s
    1 ≤ count "data" r ∧ 1 ≤ count "port_tag" r ∧ count "service" r = 1 ∧ count "dynamic" r = 1 ∧
    count "service_tag" r = 1 ∧ count "node_monitor" r = 1 ∧ count "details" r = 1 ∧ count "nodedir" r = 1 := by
  sorry

theorem live_subscriber_keeps_resources (cfg : Cfg) (hc : cfg.Sane) (s : SWorld) (h : Reach cfg true s)
    (hp : s.w.panicked = false) (sb : Nat) (S : Sub) (hS : getS s.w sb = some S) (hl : S.alive = true ∨ S.held ≠ []) :
    let r := resources s
    1 ≤ count "port_tag" r ∧ count "service" r = 1 ∧ count "dynamic" r = 1 ∧
    count "service_tag" r = 1 ∧ count "node_monitor" r = 1 ∧ count "details" r = 1 ∧ count "nodedir" r = 1 := by
  sorry

/-- resource accounting is exact: one port tag per port core, one data segment per publisher core, one
connection object per connection that still has a side attached; and a connection never outlives both
of its ports -/
theorem connections_have_a_port (cfg : Cfg) (hc : cfg.Sane) (ipc : Bool) (s : SWorld) (h : Reach cfg ipc s)
    (hp : s.w.panicked = false) (cn : Conn) (hcn : cn ∈ s.w.conns) :
    (∃ P, getP s.w cn.pid = some P ∧ P.ex = true) ∨ (∃ S, getS s.w cn.sid = some S ∧ S.ex = true) := by
  sorry

/-- the publish-subscribe part of a shutdown history is a publish-subscribe history: every theorem of
C01 / C02 / C08 applies to the survivors -/
theorem reach_pubsub (cfg : Cfg) (ipc : Bool) (s : SWorld) (h : Reach cfg ipc s) : PubSub.Reach cfg s.w := by
  sorry

/-- non-vacuity: a history in which the node handle and the service handle are dropped first and a
publisher still loans and sends afterwards -/
example : ∃ (cfg : Cfg) (s : SWorld) (P : Pub), cfg.Sane ∧ Reach cfg true s ∧ s.node = false ∧ s.svc = false ∧
    getP s.w 0 = some P ∧ P.alive = true ∧ P.seq = 1 := by
  sorry

end Iox2.Shutdown.C17
