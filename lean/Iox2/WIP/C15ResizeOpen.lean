/-
C15, resize part — statements that are NOT proved (comment only; nothing here is used by the check).

1. Absolute alignment.  `Iox2.C15Resize.live_chunk_safe` states the alignment of `start + offset`
   relative to the page boundary the payload base refers to.  For an arbitrary page-aligned mapping
   address `M` one would like
     theorem live_chunk_aligned_abs (hr : Reach s) (hpg : Pow2 s.cfg.pageSize) (hM : M % s.cfg.pageSize = 0)
         (hc : c ∈ s.chunks) (hl : c.live = true) :
         ∃ g, getSeg s.segs c.seg = some g ∧ (M + g.pool.p.start + c.off) % c.align = 0
   It needs the additional invariant `∀ g ∈ s.segs, g.balign ≤ s.cfg.pageSize` (true: `mkSeg` refuses
   larger alignments, see `mkSeg_ok`).  The harness checks the absolute addresses of the owner's and the
   view's mapping directly.

2. Geometry of a segment never changes:
     theorem segment_geometry_stable (hr : Reach s) (hok : OpOk s op)
         (h : getSeg s.segs id = some g) (h' : getSeg (step s op).1.segs id = some g') : g'.pool.p = g.pool.p

3. `grow` errors: like `alloc_error_spec` (chunks, bytes, views unchanged; the error is one of
   `align`, `shrink`, `oom`); note that a `grow` whose new segment has no bucket (finding 2 of
   notes/C15-resize-design.md) fails AFTER the new segment became current.

4. Exact characterisation of `oom` for the growing strategies:
     alloc fails ↔ static-full ∨ ids used up ∨ alignment above the page size ∨ (lost bucket ∧ one chunk)
   (`alloc_succeeds_partial` is the direction that matters for users.)
-/
