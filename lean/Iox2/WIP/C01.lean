/-
C01 — publish-subscribe delivery: ordered, at most once, byte-identical, loss only as documented.
Theorems about the L1 publish-subscribe model `Iox2.PubSub` for every reachable state.  The ghost
fields of the model (`Pub.seq`, `Pub.sent`, `Pub.chunkSeq`, `Conn.g*`, `Sub.ghostRecv`) number
the samples of a publisher by send order; they are written but never read by the transitions.
-/
import Iox2.Model.PubSub
namespace Iox2.PubSub.C01
open Iox2.PubSub

/-! ### vocabulary (definitions are part of the statements: do not change) -/

/-- send numbers waiting in the subscriber's buffer of this connection, oldest first -/
def pending (cn : Conn) : List Nat := cn.sub.map (·.2)

/-- `l` is an interleaving of `a` and `b` (both keep their order, every element of `l` comes from
exactly one of them) -/
inductive Interleave : List Nat → List Nat → List Nat → Prop
  | nil : Interleave [] [] []
  | left {x a b l} : Interleave a b l → Interleave (x :: a) b (x :: l)
  | right {x a b l} : Interleave a b l → Interleave a (x :: b) (x :: l)

/-! ### theorems -/

/-- Order, at most once, FIFO: what was pushed into a connection is strictly increasing in send
order; it splits into a consumed prefix — an interleaving of what the subscriber received and what
overflow evicted — and the still pending suffix.  Hence the received samples are in send order,
none twice, none that was not sent to this connection, and what remains in the buffer is always
the newest part of what was delivered. -/
theorem connection_fifo (cfg : Cfg) (hc : cfg.Sane) (w : World) (h : Reach cfg w)
    (cn : Conn) (hcn : cn ∈ w.conns) :
    cn.gDelivered.Pairwise (· < ·) ∧
    ∃ consumed, Interleave cn.gReceived cn.gEvicted consumed ∧ cn.gDelivered = consumed ++ pending cn := by
  sorry

/-- Loss only as documented (1): eviction happens only with safe overflow, skipping only without;
the buffer never holds more than its capacity; and a subscriber that has not received yet finds
exactly the newest `min(delivered, buffer size)` samples in its buffer. -/
theorem loss_kinds (cfg : Cfg) (hc : cfg.Sane) (w : World) (h : Reach cfg w)
    (cn : Conn) (hcn : cn ∈ w.conns) :
    (cfg.overflow = false → cn.gEvicted = []) ∧ (cfg.overflow = true → cn.gSkipped = []) ∧
    (pending cn).length ≤ cn.cap ∧
    (cn.gReceived = [] →
      pending cn = cn.gDelivered.drop (cn.gDelivered.length - min cn.gDelivered.length cn.cap)) := by
  sorry

/-- … one push: the oldest entry is evicted only from a full buffer under safe overflow and is
handed back to the sender; a push is refused (`full`) only without safe overflow on a full buffer,
and then the connection is unchanged apart from the ghost log. -/
theorem trySend_cases (cn : Conn) (ov : Bool) (ch q : Nat) :
    (∀ old, (cn.trySend ov ch q).2 = .ok (some old) →
        ov = true ∧ cn.cap ≤ cn.sub.length ∧ (cn.sub.head?.map (·.1)) = some old ∧
        pending (cn.trySend ov ch q).1 = (pending cn).tail ++ [q]) ∧
    ((cn.trySend ov ch q).2 = .ok none → pending (cn.trySend ov ch q).1 = pending cn ++ [q]) ∧
    ((cn.trySend ov ch q).2 = .full →
        ov = false ∧ cn.cap ≤ cn.sub.length ∧ (cn.trySend ov ch q).1 = { cn with gSkipped := cn.gSkipped ++ [q] }) := by
  sorry

/-- Loss only as documented (2): while the publisher is connected to the subscriber, every sample
it sent since the connection was made is either delivered into the connection or was skipped
because the buffer was full (no safe overflow; the send call did not count this subscriber);
nothing else is lost.  `gFirst` is the publisher's send number when it connected. -/
theorem nothing_lost_silently (cfg : Cfg) (hc : cfg.Sane) (w : World) (h : Reach cfg w)
    (p : Nat) (P : Pub) (hp : getP w p = some P) (hex : P.ex = true)
    (slot s : Nat) (hs : P.conns[slot]? = some (some s)) (cn : Conn) (hcn : getC w p s = some cn) :
    ∀ q, cn.gFirst ≤ q → q < P.seq → q ∈ cn.gDelivered ∨ q ∈ cn.gSkipped := by
  sorry

/-- History: on connecting, the newest `min(history request, buffer size)` samples of the
publisher's history are delivered first, oldest first. -/
theorem history_first (cfg : Cfg) (hc : cfg.Sane) (w : World) (h : Reach cfg w)
    (cn : Conn) (hcn : cn ∈ w.conns) (hs : cn.sAtt = true) :
    cn.gHist <+: cn.gDelivered ∧ (∀ q ∈ cn.gHist, q < cn.gFirst) ∧
    (∀ q ∈ cn.gDelivered, q < cn.gFirst → q ∈ cn.gHist) ∧ cn.gHist.length ≤ cn.cap := by
  sorry

/-- Byte-identical: every sample waiting in the buffer of a live subscriber still carries the
payload that was written for that send number (nothing overwrote the chunk), so `receive`
returns exactly what was written. -/
theorem pending_payload_intact (cfg : Cfg) (hc : cfg.Sane) (w : World) (h : Reach cfg w)
    (s : Nat) (S : Sub) (hs : getS w s = some S) (hl : S.alive = true)
    (cn : Conn) (hcn : cn ∈ w.conns) (hsid : cn.sid = s) (ch q : Nat) (hq : (ch, q) ∈ cn.sub) :
    ∃ P, getP w cn.pid = some P ∧ P.payload.getD ch 0 = P.sent.getD q 0 ∧ q < P.seq := by
  sorry

/-- What `receive` reports is the head of the connection's buffer with its payload:
the observable result of `recv` is `some:<publisher>:<payload written for that send number>`. -/
theorem recv_returns_written (cfg : Cfg) (hc : cfg.Sane) (w : World) (h : Reach cfg w)
    (hnp : w.panicked = false) (s : Nat) (S' : Sub) (hd : Held)
    (hs : getS (step w (.recv s)).1 s = some S') (S : Sub) (hs0 : getS w s = some S)
    (hnew : S'.held = S.held ++ [hd]) :
    ∃ P, getP w hd.pid = some P ∧ hd.tag = P.sent.getD hd.seq 0 ∧
      (step w (.recv s)).2 = s!"some:{hd.pid}:{hd.tag}" := by
  sorry

/-- The subscriber's own receive log, restricted to one publisher, is the connection's receive log
(so per publisher/subscriber pair the order theorems above speak about what the application saw). -/
theorem subscriber_log_is_connection_log (cfg : Cfg) (hc : cfg.Sane) (w : World) (h : Reach cfg w)
    (s : Nat) (S : Sub) (hs : getS w s = some S) (p : Nat) :
    (S.ghostRecv.filter (·.1 = p)).map (·.2) =
      (match (w.conns.find? fun c => c.pid = p ∧ c.sid = s) with
       | some cn => cn.gReceived
       | none => (S.ghostRecv.filter (·.1 = p)).map (·.2)) ∧
    ((S.ghostRecv.filter (·.1 = p)).map (·.2)).Pairwise (· < ·) := by
  sorry

/-- non-vacuity: a reachable state with overflow evictions, received samples and pending samples
on one connection -/
example : ∃ (cfg : Cfg) (w : World) (cn : Conn), cfg.Sane ∧ Reach cfg w ∧ cn ∈ w.conns ∧
    cn.gEvicted ≠ [] ∧ cn.gReceived ≠ [] ∧ cn.sub ≠ [] := by
  sorry

end Iox2.PubSub.C01
