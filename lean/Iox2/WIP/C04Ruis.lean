/-
C04 (shared-memory level) — a process killed at ANY atomic step of an index-set operation:
survivors keep exclusive ownership, recovery returns exactly the dead owner's indices, and the set
stays fully usable.  Theorems about `RUIS.sys.withCrash` (Iox2/Base/Crash.lean): every thread
carries a fuse, so `Reachable` quantifies over every crash point of every thread, in the middle of
`acquire`, `release`, `recover` … (the C09 theorems only allow deaths between operations).
-/
import Iox2.Base.Crash
import Iox2.Props.C09Ruis
namespace Iox2.RUIS.Crash
open Iox2.Sched Iox2.RUIS Iox2.C09.RuisP

/-! ### vocabulary (part of the statements: do not change) -/

def csys : Sys RSh (CTh Th) := sys.withCrash fun s t => { s with deadOwners := t.owner :: s.deadOwners }

/-- initial configuration: owners, programs and one fuse per thread (`none` = the process never dies) -/
def cinit (cap : Nat) (owners : List Nat) (progs : List (List Cmd)) (fuses : List (Option Nat)) : Cfg RSh (CTh Th) :=
  let c := initCfg cap owners progs
  { sh := c.sh, th := (c.th.zip fuses).map fun (t, f) => { inner := t, fuse := f } }

/-- the thread is alive: neither crashed nor retired by its own `die` command -/
def Live (t : CTh Th) : Prop := t.dead = false ∧ t.inner.dead = false

/-- programs do not use the cooperative `die` command (death comes from the fuse only) -/
def NoDieCmd (progs : List (List Cmd)) : Prop := ∀ p ∈ progs, Cmd.die ∉ p

variable {cap : Nat} {owners : List Nat} {progs : List (List Cmd)} {fuses : List (Option Nat)}

/-! ### theorems -/

/-- survivors keep exclusive ownership whatever dies wherever -/
theorem crash_exclusive (ho : OwnersOk owners) (hl : fuses.length = owners.length) (c : Cfg RSh (CTh Th))
    (h : Reachable csys (cinit cap owners progs fuses) c)
    (i j : Nat) (ti tj : CTh Th) (hi : c.th[i]? = some ti) (hj : c.th[j]? = some tj)
    (hli : Live ti) (hlj : Live tj) (n : Nat) (hni : n ∈ ti.inner.held) (hnj : n ∈ tj.inner.held) :
    i = j ∧ n < cap := by
  sorry

/-- what a live thread holds is really its own: the cell carries its owner id (so recovery of a
dead owner can never take it away) -/
theorem crash_held_valid (ho : OwnersOk owners) (hl : fuses.length = owners.length) (c : Cfg RSh (CTh Th))
    (h : Reachable csys (cinit cap owners progs fuses) c)
    (i : Nat) (t : CTh Th) (hi : c.th[i]? = some t) (hlv : Live t) (n : Nat) (hn : n ∈ t.inner.held) :
    c.sh.cells[n]? = some t.inner.owner := by
  sorry

/-- recovery only ever acts for owners that are dead, and only on cells that carry the dead owner's id:
a `recoveredLog` entry `(d, n)` names a dead owner `d` -/
theorem crash_recover_exact (ho : OwnersOk owners) (hl : fuses.length = owners.length) (c : Cfg RSh (CTh Th))
    (h : Reachable csys (cinit cap owners progs fuses) c)
    (i : Nat) (t : CTh Th) (hi : c.th[i]? = some t) (d n : Nat) (hlog : (d, n) ∈ t.inner.recoveredLog) :
    d ∈ c.sh.deadOwners ∧ n < cap ∧ ∀ (j : Nat) (tj : CTh Th), c.th[j]? = some tj → Live tj → tj.inner.owner ≠ d := by
  sorry

/-- recovery is complete: when a recovery for the dead owner `d` has scanned all cells (`rcFinal`),
no cell carries `d` any more — wherever `d` died (in the middle of an acquire, a release, or of its own
recovery of somebody else) -/
theorem crash_recover_complete (ho : OwnersOk owners) (hl : fuses.length = owners.length) (c : Cfg RSh (CTh Th))
    (h : Reachable csys (cinit cap owners progs fuses) c)
    (i : Nat) (t : CTh Th) (hi : c.th[i]? = some t) (hlv : Live t) (d : Nat) (hpc : t.inner.pc = some (.rcFinal d)) :
    ∀ n : Nat, c.sh.cells[n]? ≠ some d := by
  sorry

/-- nothing is lost: every occupied cell belongs to a live thread that holds it or is in the middle of an
operation on it, or to a dead owner (and is therefore recoverable).  Hence once every dead owner has
been recovered and the survivors have released what they hold, every index is acquirable again. -/
theorem crash_no_orphan (ho : OwnersOk owners) (hl : fuses.length = owners.length) (hnd : NoDieCmd progs)
    (c : Cfg RSh (CTh Th)) (h : Reachable csys (cinit cap owners progs fuses) c)
    (n : Nat) (o : Nat) (hc : c.sh.cells[n]? = some o) (ho' : o ≠ EMPTY) :
    o ∈ c.sh.deadOwners ∨
    ∃ (j : Nat) (tj : CTh Th), c.th[j]? = some tj ∧ Live tj ∧ tj.inner.owner = o ∧ (n ∈ tj.inner.held ∨ tj.inner.pc ≠ none) := by
  sorry

/-- the lock is final and the generation counter never decreases, also under crashes -/
theorem crash_gen_monotone (c c' : Cfg RSh (CTh Th)) (i : Nat) (evs : List Ev)
    (h : Reachable csys (cinit cap owners progs fuses) c) (hs : csys.stepAt c i = some (c', evs)) :
    c.sh.gen ≤ c'.sh.gen ∧ (c.sh.gen = LOCKG → c'.sh.gen = LOCKG) := by
  sorry

/-- a dead thread never steps again and its death is recorded -/
theorem crash_dead_is_final (c : Cfg RSh (CTh Th)) (h : Reachable csys (cinit cap owners progs fuses) c)
    (i : Nat) (t : CTh Th) (hi : c.th[i]? = some t) (hd : t.dead = true) :
    csys.stepAt c i = none ∧ t.inner.owner ∈ c.sh.deadOwners := by
  sorry

/-- non-vacuity: a thread dies in the middle of an `acquire` (cell already claimed, generation not yet
bumped), another thread recovers it and then acquires the same index -/
example : ∃ (c : Cfg RSh (CTh Th)) (t0 t1 : CTh Th),
    Reachable csys (cinit 1 [100, 101] [[.acquire], [.recover 100 .default, .acquire]] [some 4, none]) c ∧
    c.th[0]? = some t0 ∧ t0.dead = true ∧ t0.inner.pc ≠ none ∧ c.th[1]? = some t1 ∧ 0 ∈ t1.inner.held := by
  sorry

end Iox2.RUIS.Crash
