/-
C06 — open items (nothing in here is claimed; no theorem of Iox2/Props/C06*.lean depends on this file).

1. Dead-node cleanup racing with creation (notes/lifecycle-protocol.md §D.B "Race"): a cleaner working on a dead node D that
   holds a service tag for the same service hash runs `__internal_remove_node_from_service` while a live creator C is between
   `static:unlock` and `dynamic:finalize`; the cleaner sees "no / uninitialised dynamic config", takes the service for corrupted and
   removes C's static config (and unlinks C's half-built dynamic config).  To state it, `Iox2.ServiceLifeConc` needs a third
   role `cleaner` with the steps  read static (zero timeout) → open dynamic → [absent / not final] remove dynamic by name, remove static,
   remove tag.  Expected: `at_most_one_creator_succeeds` survives, `creator_success_complete` and `opener_sees_complete_service` become
   false (refutation + replay with a killed process holding a tag would be needed).  Not modelled, not replayed.

2. Removal racing with creation / opening (drop of the last user while another node opens: `IsMarkedForDestruction`, or re-creation under
   an opener that has read the old static config).  Covered only by the multi-process stress run (support), not by a theorem: the
   step-level system has no `drop` role.

3. The link between the L1 model (Iox2/Model/ServiceLife.lean) and the step-level model (Iox2/Model/ServiceLifeConc.lean) is by
   construction only (same order of checks); a refinement theorem "every complete sequentialised run of the step-level system is a
   history of the L1 model" is not stated.
-/
