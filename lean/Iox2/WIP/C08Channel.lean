/-
C08 (and C03 "a release never fails for lack of queue space") at the level where it is decided:
one channel of a zero-copy connection with sender and receiver calls interleaving freely
(`Iox2.Channel`).  The sender port reclaims until the completion queue is empty and then sends —
not atomically.  The completion queue must therefore hold buffer + max borrowed + 1 entries:
enough (theorem) and not one less (counter-theorem).
-/
import Iox2.Model.Channel
namespace Iox2.Channel.C08
open Iox2.Channel

/-- with the code's completion queue size, no release is ever refused, whatever the receiver does and
however its calls interleave with the sender's, as long as the sender follows the port protocol
(sends only after a reclaim found the completion queue empty) -/
theorem release_never_refused (b r : Nat) (ov : Bool) (ops : List Op) :
    let s := run (St.init b r ov) ops
    s.disciplined = true → s.releaseFailed = false := by
  sorry

/-- the counting argument behind it -/
theorem in_flight_bound (b r : Nat) (ov : Bool) (ops : List Op) :
    let s := run (St.init b r ov) ops
    s.disciplined = true →
      s.sub.length + s.borrowed.length + s.comp.length ≤ b + r + (if s.drained then 0 else 1) ∧
      s.sub.length ≤ max b 1 ∧ s.borrowed.length ≤ r ∧ (s.sub ++ s.borrowed ++ s.comp).Nodup := by
  sorry

/-- the bound is tight: the completion queue really fills up to buffer + max borrowed + 1 -/
theorem completion_queue_fills_completely :
    ∃ (b r : Nat) (ov : Bool) (ops : List Op), 1 ≤ b ∧ 1 ≤ r ∧
      let s := run (St.init b r ov) ops
      s.disciplined = true ∧ s.comp.length = b + r + 1 := by
  sorry

/-- … so a completion queue with one entry less (buffer + max borrowed) refuses a release in a history
that respects every limit and the port protocol -/
theorem one_entry_less_is_not_enough :
    ∃ (b r : Nat) (ov : Bool) (ops : List Op), 1 ≤ b ∧ 1 ≤ r ∧
      let s := run { St.init b r ov with compCap := b + r } ops
      s.disciplined = true ∧ s.releaseFailed = true := by
  sorry

/-- an undisciplined sender (sending without reclaiming) can overrun any finite completion queue:
the protocol hypothesis is necessary -/
theorem undisciplined_sender_overruns :
    ∃ (b r : Nat) (ov : Bool) (ops : List Op), (run (St.init b r ov) ops).releaseFailed = true := by
  sorry

end Iox2.Channel.C08
