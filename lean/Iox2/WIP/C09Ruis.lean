/-
C09 / RobustUniqueIndexSet (model Iox2/Model/RobustIndexSet.lean) — statements to be proved.
DO NOT change the model or weaken a statement; if a statement is false, report the counterexample.

Setting: ANY number of threads with pairwise different owner ids, ANY programs (acquire, release
of an index the thread holds with or without lock-if-last, borrowed_indices, recover on behalf
of an owner that has died, die), ANY capacity, all interleavings (`Reachable`).
-/
import Iox2.Model.RobustIndexSet

namespace Iox2.C09.RuisP
open Iox2.Sched Iox2.RUIS

/-- initial configuration; thread `i` has owner id `owners[i]`.  A thread whose program starts
with `die` is dead from the start (`settle`). -/
def initCfg (cap : Nat) (owners : List Nat) (progs : List (List Cmd)) : Cfg RSh Th :=
  ((owners.zip progs).map fun (o, p) => Th.init o p).foldl
    (fun (c : Cfg RSh Th) t => let (sh, t') := settle c.sh t; { sh := sh, th := c.th ++ [t'] })
    { sh := RSh.init cap, th := [] }

/-- owner ids are valid (not the EMPTY marker) and pairwise different -/
def OwnersOk (owners : List Nat) : Prop := owners.Nodup ∧ ∀ o ∈ owners, o ≠ EMPTY

variable (cap : Nat) (owners : List Nat) (progs : List (List Cmd))

/-- an index a live thread holds (returned by `acquire`, not yet released) is in bounds and its
cell carries the thread's owner id -/
theorem ruis_held_valid (ho : OwnersOk owners) (c : Cfg RSh Th) (h : Reachable sys (initCfg cap owners progs) c)
    (i : Nat) (t : Th) (hi : c.th[i]? = some t) (hl : t.dead = false) (n : Nat) (hn : n ∈ t.held) :
    n < cap ∧ c.sh.cells[n]? = some t.owner := by
  sorry

/-- **exclusive**: two live threads never hold the same index; one thread never holds an index twice -/
theorem ruis_exclusive (ho : OwnersOk owners) (c : Cfg RSh Th) (h : Reachable sys (initCfg cap owners progs) c)
    (i j : Nat) (ti tj : Th) (hi : c.th[i]? = some ti) (hj : c.th[j]? = some tj)
    (hli : ti.dead = false) (hlj : tj.dead = false) (n : Nat) (hni : n ∈ ti.held) (hnj : n ∈ tj.held) :
    i = j ∧ ti.held.Nodup := by
  sorry

/-- the generation counter never decreases and, once it is the lock indicator, stays so -/
theorem ruis_gen_monotone (c c' : Cfg RSh Th) (i : Nat) (evs : List Ev)
    (h : Reachable sys (initCfg cap owners progs) c) (hs : sys.stepAt c i = some (c', evs)) :
    c.sh.gen ≤ c'.sh.gen ∧ (c.sh.gen = LOCKG → c'.sh.gen = LOCKG) := by
  sorry

/-- **lock finality**: after the set is locked no acquire succeeds any more -/
theorem ruis_lock_final (ho : OwnersOk owners) (c c' : Cfg RSh Th) (i : Nat) (evs : List Ev)
    (h : Reachable sys (initCfg cap owners progs) c) (hs : sys.stepAt c i = some (c', evs))
    (hl : c.sh.gen = LOCKG) (n : Nat) : Ev.ret (showRes (.acquired n)) ∉ evs := by
  sorry

/-- **lock only when empty**: at the step that locks the set nobody holds an index returned by
`acquire` (threads whose cell CAS slipped in are told `IsLocked` by their pending increment) -/
theorem ruis_lock_only_if_no_holder (ho : OwnersOk owners) (c c' : Cfg RSh Th) (i : Nat) (evs : List Ev)
    (h : Reachable sys (initCfg cap owners progs) c) (hs : sys.stepAt c i = some (c', evs))
    (hu : c.sh.gen ≠ LOCKG) (hl : c'.sh.gen = LOCKG) :
    ∀ (j : Nat) (t : Th), c.th[j]? = some t → ∀ n ∈ t.held, c.sh.cells[n]? ≠ some t.owner := by
  sorry

/-- **acquire fails with OutOfIndices only if genuinely full**: at the validating CAS every cell
is taken, or was emptied by a release / recovery whose generation increment is still pending
(that operation has not returned yet) -/
theorem ruis_out_of_indices_only_if_full (ho : OwnersOk owners) (c c' : Cfg RSh Th) (i : Nat) (evs : List Ev)
    (h : Reachable sys (initCfg cap owners progs) c) (hs : sys.stepAt c i = some (c', evs))
    (hr : Ev.ret (showRes .errOut) ∈ evs) :
    ∀ n, n < cap → c.sh.cells[n]? ≠ some EMPTY ∨
      ∃ (j : Nat) (t : Th), c.th[j]? = some t ∧
        (∃ m, t.pc = some (.incLd (.rel n m)) ∨ ∃ g, t.pc = some (.incCas (.rel n m) g)) ∨
        (∃ m d, t.pc = some (.incLd (.recov n m d)) ∨ ∃ g, t.pc = some (.incCas (.recov n m d) g)) := by
  sorry

/-- **recovery is exact**: `recover_success` is only reported for the requested (dead) owner, for
a cell that owner really occupied, and never twice for the same cell -/
theorem ruis_recover_exact (ho : OwnersOk owners) (c : Cfg RSh Th) (h : Reachable sys (initCfg cap owners progs) c) :
    (∀ (j : Nat) (t : Th), c.th[j]? = some t → ∀ p ∈ t.recoveredLog, p.1 ∈ c.sh.deadOwners ∧ p.2 < cap) ∧
    ((c.th.map (·.recoveredLog)).flatten).Nodup := by
  sorry

/-- … and complete: when the scan of a recovery has reached its end, no cell carries the dead
owner's id any more -/
theorem ruis_recover_complete (ho : OwnersOk owners) (c : Cfg RSh Th) (h : Reachable sys (initCfg cap owners progs) c)
    (i : Nat) (t : Th) (hi : c.th[i]? = some t) (d : Nat) (hpc : t.pc = some (.rcFinal d)) :
    ∀ n : Nat, c.sh.cells[n]? ≠ some d := by
  sorry

/-- non-vacuity: three threads, capacity 2: out of indices, death of an owner, recovery with lock-if-last -/
example :
    let progs := [[Cmd.acquire, .die], [Cmd.acquire, .acquire, .release 0 .default, .recover 100 .lockIfLast], [Cmd.acquire]]
    let c := (sys.run (initCfg 2 [100, 101, 102] progs) (List.replicate 5 0 ++ List.replicate 40 1 ++ List.replicate 10 2)).1
    c.sh.gen = LOCKG ∧ (c.th.map (·.recoveredLog)) = [[], [(100, 0)], []] := by
  decide

end Iox2.C09.RuisP
