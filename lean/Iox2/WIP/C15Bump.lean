/-
C15 — the bump allocator under concurrency: every allocation that any thread ever obtained lies
inside the managed memory, is aligned as requested and overlaps no other allocation — for any number
of threads, any requests and EVERY interleaving of their atomic steps (`Iox2.BumpConc`).
-/
import Iox2.Model.BumpConc
namespace Iox2.BumpConc.C15
open Iox2.Sched Iox2.BumpConc

variable {start size : Nat} {progs : List (List (Nat × Nat))}

/-- requests with a power-of-two alignment ≥ 1 (what `Layout` guarantees) -/
def ReqOk (progs : List (List (Nat × Nat))) : Prop := ∀ p ∈ progs, ∀ r ∈ p, 1 ≤ r.2

/-- every allocation is inside the managed memory and has the requested alignment -/
theorem allocations_in_bounds_and_aligned (hr : ReqOk progs) (c : Cfg Sh Th)
    (h : Reachable sys (initCfg start size progs) c) (a : Nat × Nat × Nat) (ha : a ∈ c.sh.allocs) :
    a.1 + a.2.1 ≤ size ∧ (start + a.1) % a.2.2 = 0 ∧ 1 ≤ a.2.1 := by
  sorry

/-- no two allocations overlap, and the position is the end of the last one -/
theorem allocations_disjoint (hr : ReqOk progs) (c : Cfg Sh Th)
    (h : Reachable sys (initCfg start size progs) c) :
    c.sh.allocs.Pairwise (fun a b => a.1 + a.2.1 ≤ b.1) ∧
    (∀ a ∈ c.sh.allocs, a.1 + a.2.1 ≤ c.sh.pos) ∧ c.sh.pos ≤ size := by
  sorry

/-- the position never decreases -/
theorem position_monotone (c c' : Cfg Sh Th) (i : Nat) (evs : List Ev)
    (h : Reachable sys (initCfg start size progs) c) (hs : sys.stepAt c i = some (c', evs)) :
    c.sh.pos ≤ c'.sh.pos := by
  sorry

/-- a request is refused only when it really does not fit behind the position the thread last saw:
`OutOfMemory` is reported in a step whose (fresh) view `cur` of the position satisfies the bound check -/
theorem out_of_memory_only_if_it_does_not_fit (c c' : Cfg Sh Th) (i : Nat) (evs : List Ev)
    (h : Reachable sys (initCfg start size progs) c) (hs : sys.stepAt c i = some (c', evs))
    (hoom : Ev.ret "alloc err:OutOfMemory" ∈ evs) :
    ∃ sz al, nextFor c.sh c.sh.pos al + sz > size ∧ 1 ≤ sz := by
  sorry

/-- non-vacuity: two threads race, one loses its CAS and still gets a disjoint chunk -/
example : ∃ c : Cfg Sh Th, Reachable sys (initCfg 1 32 [[(8, 4)], [(12, 2)]]) c ∧ c.sh.allocs.length = 2 := by
  sorry

end Iox2.BumpConc.C15
