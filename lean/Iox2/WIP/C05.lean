/-
C05 — events: no lost wake-up, no phantom event (model Iox2/Model/EventProto.lean) —
statements to be proved.
DO NOT change the model or weaken a statement; if a statement is false, report the counterexample.

Setting: one listener thread (issuing `tryWait` / `blockingWait`) and ANY number of notifier
threads issuing `notify id` for arbitrary ids `< nids`, both event states (bit set / counting),
any trigger bound with either full-buffer policy, all interleavings (`Reachable`).
-/
import Iox2.Model.EventProto

namespace Iox2.C05
open Iox2.Sched Iox2.EventProto

def initCfg (counting : Bool) (nids bound : Nat) (fail : Bool) (progs : List (List Cmd)) : Cfg Sh Th :=
  { sh := Sh.init counting nids bound fail, th := progs.map Th.init }

def isWait : Cmd → Bool
  | .tryWait | .blockingWait => true
  | _ => false

/-- thread `l` is the listener, every other thread only notifies ids in range -/
def Roles (nids l : Nat) (progs : List (List Cmd)) : Prop :=
  l < progs.length ∧
  ∀ j p, progs[j]? = some p → ∀ c ∈ p, if j = l then isWait c = true else ∃ id, c = .notify id ∧ id < nids

/-- a notifier that has stored its id and has not yet posted the trigger (or learnt that it need not) -/
def beforeTrigger (t : Th) : Bool :=
  match t.pc with
  | .nCasIdlePending _ | .nTrigLoad _ | .nTrigCas _ _ => true
  | _ => false

/-- the listener is past its wait and its drain has not yet passed the storage unit of `id` -/
def willDrain (s : Sh) (t : Th) (id : Nat) : Bool :=
  let u := if s.counting then id else id / 8
  match t.pc with
  | .lStoreIdle | .lEmpty => true
  | .lDrainDist i _ | .lDrainSwap i _ => decide (i ≤ u)
  | _ => false

variable (counting : Bool) (nids bound : Nat) (fail : Bool) (l : Nat) (progs : List (List Cmd))

/-- **wake-up invariant**: whenever an id is active, something guarantees that the listener will
collect it without further notifications: a trigger signal is pending, the state is `NOTIFIED`,
a notifier is on its way to the trigger, or the listener is about to drain that id -/
theorem event_wakeup_invariant (hr : Roles nids l progs) (c : Cfg Sh Th)
    (h : Reachable sys (initCfg counting nids bound fail progs) c) (id : Nat) (hid : id < nids)
    (ha : c.sh.active id = true) :
    0 < c.sh.trigger ∨ c.sh.ns = NOTIFIED ∨ (∃ t ∈ c.th, beforeTrigger t = true) ∨
    (∃ t, c.th[l]? = some t ∧ willDrain c.sh t id = true) ∨
    (∃ t, c.th[l]? = some t ∧ (t.pc = .lCasNotifiedIdle true ∨ t.pc = .lCasNotifiedIdle false ∨ t.pc = .lWait false)) := by
  sorry

/-- **no lost wake-up**: a listener blocked in its wait (no trigger signal) while an id is active
is never left alone: some notifier is about to post the trigger -/
theorem event_no_lost_wakeup (hr : Roles nids l progs) (c : Cfg Sh Th)
    (h : Reachable sys (initCfg counting nids bound fail progs) c) (id : Nat) (hid : id < nids)
    (ha : c.sh.active id = true) (t : Th) (hl : c.th[l]? = some t) (hb : t.pc = .lWait true) (h0 : c.sh.trigger = 0) :
    (∃ u ∈ c.th, ∃ i, u.pc = .nTrigLoad i ∨ ∃ k, u.pc = .nTrigCas i k) ∨
    (c.sh.ns ≠ NOTIFIED ∧ ∃ u ∈ c.th, ∃ i, u.pc = .nCasIdlePending i) := by
  sorry

/-- the same for the state `NOTIFIED`: it never leaves a blocked listener without a signal on its way -/
theorem event_notified_implies_signal (hr : Roles nids l progs) (c : Cfg Sh Th)
    (h : Reachable sys (initCfg counting nids bound fail progs) c) (t : Th) (hl : c.th[l]? = some t)
    (hb : t.pc = .lWait true ∨ t.pc = .lWait false ∨ t.pc = .lCasNotifiedIdle true ∨ t.pc = .lCasNotifiedIdle false ∨ t.pc = .idle)
    (hn : c.sh.ns = NOTIFIED) :
    0 < c.sh.trigger ∨ ∃ u ∈ c.th, ∃ i, u.pc = .nTrigLoad i ∨ ∃ k, u.pc = .nTrigCas i k := by
  sorry

/-- **never dropped, counting set**: every activation is either already reported (with its count)
or still stored: activations = reported + stored -/
theorem event_counting_conservation (hr : Roles nids l progs) (hc : counting = true) (c : Cfg Sh Th)
    (h : Reachable sys (initCfg counting nids bound fail progs) c) (id : Nat) (hid : id < nids) :
    c.sh.activations.getD id 0 = c.sh.reported.getD id 0 + c.sh.counts.getD id 0 := by
  sorry

/-- **never dropped, bit set**: notifications of one id may be merged, but while the id is not
active every activation so far has been followed by a report of that id -/
theorem event_bitset_merged_not_dropped (hr : Roles nids l progs) (hc : counting = false) (c : Cfg Sh Th)
    (h : Reachable sys (initCfg counting nids bound fail progs) c) (id : Nat) (hid : id < nids)
    (hn : c.sh.active id = false) :
    c.sh.lastActivate.getD id 0 ≤ c.sh.lastReport.getD id 0 := by
  sorry

/-- **no phantom**: the listener never reports an id more often (counting set: with a larger total
count) than it was activated, and only ids in range -/
theorem event_no_phantom (hr : Roles nids l progs) (c : Cfg Sh Th)
    (h : Reachable sys (initCfg counting nids bound fail progs) c) (id : Nat) :
    c.sh.reported.getD id 0 ≤ c.sh.activations.getD id 0 ∧ c.sh.reports.getD id 0 ≤ c.sh.activations.getD id 0 ∧
    (nids ≤ id → c.sh.reports.getD id 0 = 0) := by
  sorry

/-- a completed `notify` has activated its id -/
theorem event_completed_le_activations (hr : Roles nids l progs) (c : Cfg Sh Th)
    (h : Reachable sys (initCfg counting nids bound fail progs) c) (id : Nat) :
    c.sh.completed.getD id 0 ≤ c.sh.activations.getD id 0 := by
  sorry

/-- non-vacuity: two notifiers and a listener on the bit set; the second notifier finds the state
`NOTIFIED` and skips the trigger, the listener still reports both ids -/
def exProgs : List (List Cmd) := [[Cmd.notify 0], [Cmd.notify 1], [Cmd.tryWait]]
def exFinal : Cfg Sh Th :=
  (sys.run (initCfg false 3 0 false exProgs) ([0, 0, 0, 0, 0, 0, 0] ++ [1, 1, 1, 1] ++ List.replicate 10 2)).1
example : exFinal.sh.reports = [1, 1, 0] ∧ exFinal.sh.completed = [1, 1, 0] ∧ exFinal.sh.trigger = 0 := by
  decide

end Iox2.C05
