/-
Interleaving semantics shared by all L2 (atomic-step) models.

A system is a shared state plus a list of thread-local states; one *step* is one atomic
operation (or one plain memory access) of one thread.  `Reachable` quantifies over all
schedules, all thread counts and all programs: there is no bound anywhere.
-/
namespace Iox2.Sched

/-- memory orderings as written in the source -/
inductive Ord where
  | rlx | acq | rel | acqrel | sc
deriving Repr, DecidableEq, Inhabited

def Ord.name : Ord → String
  | .rlx => "rlx" | .acq => "acq" | .rel => "rel" | .acqrel => "acqrel" | .sc => "sc"

/-- what one atomic step did — the unit of comparison with the instrumented implementation -/
inductive Ev where
  | load (var : String) (o : Ord) (v : Nat)
  | store (var : String) (o : Ord) (v : Nat)
  | cas (var : String) (os of : Ord) (found new : Nat) (ok : Bool)
  | rmw (kind var : String) (o : Ord) (old new : Nat)
  | cell (var : String)
  | fence (o : Ord)
  | ret (text : String)
deriving Repr, DecidableEq

def Ev.show (tid : Nat) : Ev → String
  | .load x o v => s!"T{tid} load {x} {o.name} v={v}"
  | .store x o v => s!"T{tid} store {x} {o.name} v={v}"
  | .cas x os of f n ok => s!"T{tid} cas {x} {os.name}/{of.name} found={f} new={n} ok={if ok then 1 else 0}"
  | .rmw k x o old new => s!"T{tid} {k} {x} {o.name} old={old} new={new}"
  | .cell x => s!"T{tid} cell {x}"
  | .fence o => s!"T{tid} fence {o.name}"
  | .ret t => s!"T{tid} ret {t}"

/-- a concurrent system: shared state `σ`, thread-local state `τ`, and the step of one thread.
`step` returns `none` when the thread has nothing left to do (or is not enabled). -/
structure Sys (σ τ : Type) where
  step : σ → τ → Option (σ × τ × List Ev)

structure Cfg (σ τ : Type) where
  sh : σ
  th : List τ

variable {σ τ : Type}

/-- thread `i` takes one step -/
def Sys.stepAt (S : Sys σ τ) (c : Cfg σ τ) (i : Nat) : Option (Cfg σ τ × List Ev) :=
  match c.th[i]? with
  | none => none
  | some t =>
    match S.step c.sh t with
    | none => none
    | some (sh', t', evs) => some ({ sh := sh', th := c.th.set i t' }, evs)

/-- every configuration reachable from `c₀` under any schedule -/
inductive Reachable (S : Sys σ τ) (c₀ : Cfg σ τ) : Cfg σ τ → Prop where
  | init : Reachable S c₀ c₀
  | step {c c' : Cfg σ τ} {i : Nat} {evs : List Ev} :
      Reachable S c₀ c → S.stepAt c i = some (c', evs) → Reachable S c₀ c'

/-- proof rule: an invariant that holds initially and is preserved by every step of every thread
holds in every reachable configuration -/
theorem Reachable.inv {S : Sys σ τ} {c₀ : Cfg σ τ} (Inv : Cfg σ τ → Prop)
    (h0 : Inv c₀)
    (hs : ∀ c c' i evs, Inv c → S.stepAt c i = some (c', evs) → Inv c') :
    ∀ c, Reachable S c₀ c → Inv c := by
  intro c hr
  induction hr with
  | init => exact h0
  | step _ hstep ih => exact hs _ _ _ _ ih hstep

/-- run a schedule (list of thread ids); stops at the first id that cannot step -/
def Sys.run (S : Sys σ τ) (c : Cfg σ τ) : List Nat → Cfg σ τ × List (Nat × Ev)
  | [] => (c, [])
  | i :: is =>
    match S.stepAt c i with
    | none => (c, [])
    | some (c', evs) =>
      let (c'', rest) := S.run c' is
      (c'', evs.map (fun e => (i, e)) ++ rest)

theorem Sys.run_reachable (S : Sys σ τ) (c₀ c : Cfg σ τ) (h : Reachable S c₀ c) (sched : List Nat) :
    Reachable S c₀ (S.run c sched).1 := by
  induction sched generalizing c with
  | nil => simpa [Sys.run] using h
  | cons i is ih =>
    simp only [Sys.run]
    split
    · exact h
    · rename_i c' evs hst
      exact ih c' (Reachable.step h hst)

end Iox2.Sched
