/-
Crash extension of an interleaving system: every thread models a process that may die at ANY
atomic step — in the middle of an operation — not only between operations.  A thread carries a
fuse: the number of visible steps (steps that emit an event) it still takes; with the fuse at 0 its
next step is its death.  A dead thread never steps again, whatever it was doing; `onDeath` records
the death in the shared state (ghost: the set of dead owners that recovery may act for).
`Reachable` over the wrapped system quantifies over all fuses, hence over every crash point.
-/
import Iox2.Base.Sched
namespace Iox2.Sched

structure CTh (τ : Type) where
  inner : τ
  fuse : Option Nat := none
  dead : Bool := false

variable {σ τ : Type}

def Sys.withCrash (S : Sys σ τ) (onDeath : σ → τ → σ) : Sys σ (CTh τ) :=
  { step := fun s t =>
      if t.dead then none else
      match t.fuse with
      | some 0 => some (onDeath s t.inner, { t with dead := true, fuse := none }, [.cell "died"])
      | fuse =>
        match S.step s t.inner with
        | none => none
        | some (s', t', evs) =>
          some (s', { t with inner := t', fuse := if evs.isEmpty then fuse else fuse.map (· - 1) }, evs) }

/-- a thread without a fuse behaves exactly like the inner thread -/
theorem withCrash_no_fuse (S : Sys σ τ) (onDeath : σ → τ → σ) (s : σ) (t : τ) :
    (S.withCrash onDeath).step s { inner := t } =
      (S.step s t).map fun r => (r.1, { inner := r.2.1 }, r.2.2) := by
  simp only [Sys.withCrash]
  cases h : S.step s t with
  | none => simp
  | some r => obtain ⟨s', t', evs⟩ := r; by_cases he : evs.isEmpty <;> simp [he]

end Iox2.Sched
