/-
C04 at service level — "Crash at any instant: survivor cleanup restores a clean, usable system", for a process killed inside
`create` of a publish-subscribe service (model Iox2/Model/ServiceCrash.lean, one step per system call, compared with strace of
the real calls and with SIGKILL at every system call by checklib/pC04svc.py).

The experiment (`creatorScenario fuseV fuseC`): the victim — a process with a living node — runs `create`; its fuse is the
number of steps it completes before it dies (`none`, or a fuse larger than the program: it finishes and lives on).  Survivor 1
runs Node::list + try_remove_stale_resources (with an own fuse: second crash inside the clean-up); survivor 2 runs a complete
clean-up; then a living node creates the same name again.

Steps of the creator, numbered from 0 (k = number of completed steps at the moment of death):
 0 access static · 1 creat stag · 2 fchmod stag init · 3 write stag · 4 fsync stag · 5 fchmod stag final · 6 mkdir services ·
 7 creat static · 8 fchmod static init · 9 write static · 10 fsync static · 11 fchmod static final · 12 creat dyn · 13 ftruncate dyn ·
 14 fstat dyn · 15 mmap dyn · 16 mem:init dyn · 17 mem:register node · 18 mem:version dyn · 19 fchmod dyn final      (20 = create returned)

The property's statement is FALSE at the crash points 2‥5 (service tag still carries its creation permission) and 8‥11 (static config
still locked); it is true at all others (`crash_anywhere_cleanup_restores_partial`, an equivalence).  Crash point 13 (dynamic config
created but not yet sized) was a third refuted window for survivors with uid 0 — every clean-up span for ever — until fix 150ae1b in
/repo (posix_shared_memory.rs open_impl: a zero-sized object honours the timeout); the model follows the repaired code, the scenario is a
regression replay in checklib/pC04svc.py.
-/
import Iox2.Proof.ServiceCrash
import Iox2.Proof.ServiceCrashSolo
namespace Iox2.C04Service
open Iox2.Sched Iox2.ServiceCrash

/-- number of steps of `create` in a fresh domain -/
def createLen : Nat := 20

/-- the crash point a fuse stands for: `none` = the victim is never killed -/
def crashPoint : Option Nat → Option Nat
  | none => none
  | some k => if k ≤ createLen then some k else none

/-- everything of the complete service and its living node -/
def allThere : Left := { static := .final, dyn := .final, tag := .final, node := true, dir := true }

/-- the complete table: what the survivors see, report and leave behind, and the result of the re-creation, by crash point -/
def expected : Option Nat → Outcome
  | none => ⟨some .ok, false, allThere, some .notDead, some .notDead, allThere, allThere, some .alreadyExists⟩
  | some k =>
    let nodeOnly : Left := { Left.none with node := true, dir := true }
    if k ≤ 1 then ⟨none, true, nodeOnly, some .ok, some .notDead, Left.none, Left.none, some .ok⟩
    else if k ≤ 5 then
      let l := { nodeOnly with tag := .init }
      ⟨none, true, l, some .internalError, some .internalError, l, l, some .ok⟩
    else if k ≤ 7 then ⟨none, true, { nodeOnly with tag := .final }, some .ok, some .notDead, Left.none, Left.none, some .ok⟩
    else if k ≤ 11 then
      let l := { Left.none with static := .locked }
      ⟨none, true, { nodeOnly with tag := .final, static := .locked }, some .ok, some .notDead, l, l, some .alreadyExists⟩
    else if k = 12 then ⟨none, true, { nodeOnly with tag := .final, static := .final }, some .ok, some .notDead, Left.none, Left.none, some .ok⟩
    else if k = 13 then
      ⟨none, true, { nodeOnly with tag := .final, static := .final, dyn := .created }, some .ok, some .notDead, Left.none, Left.none, some .ok⟩
    else if k ≤ 19 then
      ⟨none, true, { nodeOnly with tag := .final, static := .final, dyn := .sized }, some .ok, some .notDead, Left.none, Left.none, some .ok⟩
    else ⟨some .ok, true, allThere, some .ok, some .notDead, Left.none, Left.none, some .ok⟩

theorem creator_kill_table_bounded : ∀ k, k ≤ fuel → creatorScenario (some k) none = expected (crashPoint (some k)) := by
  decide +kernel

/-- THE TABLE, for every fuse of the victim (every crash point, and no crash) -/
theorem creator_kill_table (f : Option Nat) :
    creatorScenario f none = expected (crashPoint f) := by
  cases f with
  | none => decide
  | some k =>
    by_cases hk : k ≤ fuel
    · exact creator_kill_table_bounded k hk
    · have h1 : creatorScenario (some k) none = creatorScenario none none :=
        scenario_big_fuse _ _ k none false (by omega)
      have h2 : crashPoint (some k) = none := by
        have : ¬ k ≤ createLen := by simp only [fuel, createLen] at *; omega
        simp [crashPoint, this]
      rw [h1, h2]; decide

/-! ### the property -/

/-- the survivors' clean-up restored a clean, usable system: the clean-up succeeded, nothing of the dead creator is left
(static config, its dynamic config, its service tag, its node), and the name can be created again -/
def Restored (o : Outcome) : Prop :=
  o.clean1 = some .ok ∧ o.after = Left.none ∧ o.recreate = some .ok

instance (o : Outcome) : Decidable (Restored o) := by unfold Restored; infer_instance

/-
FALSE as stated (C04 at full strength):
  theorem crash_anywhere_cleanup_restores (f : Option Nat) :
      (creatorScenario f none).dead = true → Restored (creatorScenario f none)
-/

/-- refutation 1 (D26 at service level): killed between `open(O_CREAT|O_EXCL, 0600)` and `fchmod(0400)` of the SERVICE TAG; the tag is
invisible to the listing, `rmdir` of the node directory fails, the cleaner abandons: the dead node stays for ever (the name is usable) -/
theorem crash_in_service_tag_creation_not_restored :
    ∀ k, k ≤ 5 → 2 ≤ k →
      let o := creatorScenario (some k) none
      o.dead = true ∧ ¬ Restored o ∧ o.clean1 = some .internalError ∧ o.clean2 = some .internalError ∧
      o.after = { Left.none with tag := .init, node := true, dir := true } ∧ o.recreate = some .ok := by
  decide

/-- refutation 2: killed between `open(O_CREAT|O_EXCL, 0600)` and `fchmod(0400)` of the STATIC CONFIG; the clean-up treats the locked
file as a non-existing service (read_static_service_config ⇒ Ok(None)), removes only the tag and reports success; the locked static
config stays for ever and the name can never be created again -/
theorem crash_with_locked_static_config_not_restored :
    ∀ k, k ≤ 11 → 8 ≤ k →
      let o := creatorScenario (some k) none
      o.dead = true ∧ ¬ Restored o ∧ o.clean1 = some .ok ∧ o.after = { Left.none with static := .locked } ∧
      o.recreate = some .alreadyExists := by
  decide

/-- regression (fix 150ae1b): killed between `shm_open(O_CREAT|O_EXCL, 0200)` and `ftruncate` of the DYNAMIC CONFIG; the 0-byte object is
reported as InitializationNotYetFinalized at once (timeout 0), the half-created service is removed like every other not-yet-finalised one.
Before the fix `open_impl` retried without any time-out check and every clean-up of the dead node span for ever. -/
theorem crash_before_dynamic_config_sized_restored :
    let o := creatorScenario (some 13) none
    o.dead = true ∧ o.before.dyn = .created ∧ Restored o := by
  decide

/-- the crash points at which the unchanged code restores a clean, usable system -/
def cleanPoint (k : Nat) : Bool :=
  k ≤ 1 || (6 ≤ k && k ≤ 7) || 12 ≤ k

/-- C04 for service creation, strongest true form: for EVERY fuse, if the creator died, the system is restored if and only if the
crash point is a clean one; at the others exactly what `expected` says is left (`creator_kill_table`) -/
theorem crash_anywhere_cleanup_restores_partial (f : Option Nat) :
    (creatorScenario f none).dead = true →
      (Restored (creatorScenario f none) ↔ ∃ k, crashPoint f = some k ∧ cleanPoint k = true) := by
  rw [creator_kill_table]
  cases hf : crashPoint f with
  | none => intro h; simp [expected] at h
  | some k =>
    have hk : k ≤ createLen := by
      cases f with
      | none => simp [crashPoint] at hf
      | some j =>
        simp only [crashPoint] at hf
        split at hf
        · cases hf; assumption
        · cases hf
    intro _
    have : ∀ k, k ≤ createLen → (Restored (expected (some k)) ↔ cleanPoint k = true) := by decide
    rw [this k hk]
    simp

/-- no crash: the survivors leave the living creator's service alone, and the second `create` is refused -/
theorem no_crash_service_untouched (f : Option Nat) (h : crashPoint f = none) :
    let o := creatorScenario f none
    o.victim = some .ok ∧ o.dead = false ∧ o.clean1 = some .notDead ∧ o.after = allThere ∧ o.recreate = some .alreadyExists := by
  rw [creator_kill_table, h]; simp [expected]

/-! ### second crash: the first cleaner dies inside the clean-up -/

theorem second_crash_bounded : ∀ k, k ≤ createLen → ∀ j, j ≤ fuel →
    (creatorScenario (some k) (some j)).after = (creatorScenario (some k) none).after ∧
    (creatorScenario (some k) (some j)).recreate = (creatorScenario (some k) none).recreate := by
  decide +kernel

/-- wherever the first cleaner dies (any fuse), the next survivor's complete clean-up ends in the same state as an undisturbed
clean-up, and the re-creation has the same result: the service-level clean-up is restartable at every step.
(The node-level halves are atomic here; their crash points are C04Fs.cleaner_kill_table.) -/
theorem second_crash_same_result (k : Nat) (hk : k ≤ createLen) (fc : Option Nat) :
    (creatorScenario (some k) fc).after = (creatorScenario (some k) none).after ∧
    (creatorScenario (some k) fc).recreate = (creatorScenario (some k) none).recreate := by
  cases fc with
  | none => exact ⟨rfl, rfl⟩
  | some j =>
    by_cases hj : j ≤ fuel
    · exact second_crash_bounded k hk j hj
    · have : creatorScenario (some k) (some j) = creatorScenario (some k) none :=
        scenario_big_cleaner_fuse _ _ _ j false (by omega)
      rw [this]; exact ⟨rfl, rfl⟩

/-! ### the opener: a process killed inside `open` of a service that a living process holds -/

/-
Steps of the opener (k = number of completed steps at the moment of death):
 0‥6 dead-node scan of `open` (open / fstat / read static, open / fstat / mmap / fstat dyn) · 7 access static · 8 open static · 9 fstat static ·
 10 open static · 11 fstat static · 12 read static · 13 creat stag · 14 fchmod stag init · 15 write stag · 16 fsync stag · 17 fchmod stag final ·
 18 open dyn · 19 fstat dyn · 20 mmap dyn · 21 fstat dyn · 22 mem:register node      (23 = open returned)
The tag exists BEFORE the node id is registered: a crash between the two is recoverable (the tag-driven clean-up finds the service).
-/
def openLen : Nat := 23

def crashPointO : Option Nat → Option Nat
  | none => none
  | some k => if k ≤ openLen then some k else none

/-- the living holder's service and nothing of the victim -/
def heldOnly : Left := { Left.none with static := .final, held := .final }

def expectedO : Option Nat → Outcome
  | none =>
    let l := { heldOnly with tag := .final, node := true, dir := true, reg := true }
    ⟨some .ok, false, l, some .notDead, some .notDead, l, l, some .alreadyExists⟩
  | some k =>
    let base : Left := { heldOnly with node := true, dir := true }
    if k ≤ 13 then ⟨none, true, base, some .ok, some .notDead, heldOnly, Left.none, some .ok⟩
    else if k ≤ 17 then
      let l := { base with tag := .init }
      ⟨none, true, l, some .internalError, some .internalError, l, { Left.none with tag := .init, node := true, dir := true }, some .ok⟩
    else if k ≤ 22 then ⟨none, true, { base with tag := .final }, some .ok, some .notDead, heldOnly, Left.none, some .ok⟩
    else ⟨some .ok, true, { base with tag := .final, reg := true }, some .ok, some .notDead, heldOnly, Left.none, some .ok⟩

theorem opener_kill_table_bounded : ∀ k, k ≤ fuel → openerScenario (some k) none = expectedO (crashPointO (some k)) := by
  decide +kernel

/-- the table of the opener, for every fuse -/
theorem opener_kill_table (f : Option Nat) :
    openerScenario f none = expectedO (crashPointO f) := by
  cases f with
  | none => decide
  | some k =>
    by_cases hk : k ≤ fuel
    · exact opener_kill_table_bounded k hk
    · have h1 : openerScenario (some k) none = openerScenario none none :=
        scenario_big_fuse _ _ k none true (by omega)
      have h2 : crashPointO (some k) = none := by
        have : ¬ k ≤ openLen := by simp only [fuel, openLen] at *; omega
        simp [crashPointO, this]
      rw [h1, h2]; decide

/-- restored after the death of an opener: the clean-up succeeded; tag, node and registration of the victim are gone while the
holder's service is intact; once the holder has dropped it nothing is left and the name can be created again -/
def RestoredO (o : Outcome) : Prop :=
  o.clean1 = some .ok ∧ o.after = heldOnly ∧ o.afterDrop = Left.none ∧ o.recreate = some .ok

instance (o : Outcome) : Decidable (RestoredO o) := by unfold RestoredO; infer_instance

/-
FALSE as stated:
  theorem opener_crash_anywhere_cleanup_restores (f : Option Nat) :
      (openerScenario f none).dead = true → RestoredO (openerScenario f none)
-/

/-- refutation: killed inside create_service_tag of `open` — the same defect as crash_in_service_tag_creation_not_restored; the holder's
service is removed in an orderly way later, the dead node never -/
theorem opener_crash_in_service_tag_creation_not_restored :
    ∀ k, k ≤ 17 → 14 ≤ k →
      let o := openerScenario (some k) none
      o.dead = true ∧ ¬ RestoredO o ∧ o.clean1 = some .internalError ∧ o.clean2 = some .internalError ∧
      o.afterDrop = { Left.none with tag := .init, node := true, dir := true } ∧ o.recreate = some .ok := by
  decide

def cleanPointO (k : Nat) : Bool := k ≤ 13 || 18 ≤ k

/-- C04 for `open`, strongest true form: restored iff the crash point is outside the service-tag creation.  In particular the window
between the registration of the node id and the return of `open` (k = 23), and the window between the tag and the registration
(18‥22), are clean: this is what the order "tag first, registration second" buys (seeded fault C04-m1 swaps it). -/
theorem opener_crash_anywhere_cleanup_restores_partial (f : Option Nat) :
    (openerScenario f none).dead = true →
      (RestoredO (openerScenario f none) ↔ ∃ k, crashPointO f = some k ∧ cleanPointO k = true) := by
  rw [opener_kill_table]
  cases hf : crashPointO f with
  | none => intro h; simp [expectedO] at h
  | some k =>
    have hk : k ≤ openLen := by
      cases f with
      | none => simp [crashPointO] at hf
      | some j =>
        simp only [crashPointO] at hf
        split at hf
        · cases hf; assumption
        · cases hf
    intro _
    have : ∀ k, k ≤ openLen → (RestoredO (expectedO (some k)) ↔ cleanPointO k = true) := by decide
    rw [this k hk]
    simp

/-- a registered node id never outlives its tag-driven clean-up: whenever the victim died, after the survivors' clean-up its node
id is not registered in the holder's dynamic config (so the service disappears with its last living user) — also at the unclean
crash points (there the victim had not registered yet) -/
theorem dead_opener_never_stays_registered (f : Option Nat) :
    (openerScenario f none).dead = true → (openerScenario f none).after.reg = false ∧
      (openerScenario f none).afterDrop.static = .absent ∧ (openerScenario f none).recreate = some .ok := by
  rw [opener_kill_table]
  cases hf : crashPointO f with
  | none => intro h; simp [expectedO] at h
  | some k =>
    intro _
    simp only [expectedO]
    split
    · decide
    · split
      · decide
      · split <;> decide

/-! ### the survivor's clean-up in general: any state, not only the states of the table -/

/-- for EVERY shared state — any incarnation in the static config, any number of other registered nodes, any progress of the dynamic
config, whatever earlier cleaners did before they died — in which the victim's node is dead, listed and not being cleaned, its service
tag is not half-created and the static config is not locked (`Collectable`; an unsized dynamic config is no obstacle any more since
fix 150ae1b): a survivor's clean-up running alone reports success and removes the node, its directory and its tag; the victim is no
longer registered in the dynamic config (if that still exists); and if the dynamic config is missing, not finalised, or no other node is
registered, static and dynamic config are gone.  The two excluded conditions are exactly the two refuted crash windows. -/
theorem survivor_cleanup_general (sh : Shared) (pid : Nat) (h : Collectable sh) :
    let r := runSolo fuel sh (mkCleaner pid)
    r.2.cres = some .ok ∧ r.1.tag0 = .absent ∧ r.1.node.present = false ∧ r.1.node.dir = false ∧ r.1.node.lock = none ∧
    (sh.tag0 = .final → sh.static = .final → ((r.1.dyn sh.inc).st = .absent ∨ (r.1.dyn sh.inc).regV = false)) ∧
    (sh.tag0 = .final → sh.static = .final → ((sh.dyn sh.inc).st ≠ .final ∨ (sh.dyn sh.inc).versioned = false ∨ (sh.dyn sh.inc).others = 0) →
      r.1.static = .absent ∧ (r.1.dyn sh.inc).st = .absent) :=
  solo_cleanup_general sh pid h

/-- non-vacuity: the state a creator killed right after `create` leaves is collectable -/
example : Collectable (runC fuel {} { inner := mkCreator 0, fuse := some 20 }).1 := by
  constructor <;> decide

/-! ### non-vacuity -/

example : (creatorScenario (some 20) none).dead = true ∧ Restored (creatorScenario (some 20) none) := by decide
example : ∃ f, (creatorScenario f none).dead = true ∧ ¬ Restored (creatorScenario f none) := ⟨some 9, by decide⟩
example : cleanPoint 13 = true ∧ cleanPoint 9 = false ∧ cleanPoint 3 = false := by decide
example : (openerScenario (some 23) none).dead = true ∧ RestoredO (openerScenario (some 23) none) := by decide
example : (openerScenario (some 23) none).before.reg = true := by decide
example : traceSolo fuel {} (mkCreator 0) =
    ["access static", "creat stag", "fchmod stag init", "write stag", "fsync stag", "fchmod stag final", "mkdir services", "creat static",
     "fchmod static init", "write static", "fsync static", "fchmod static final", "creat dyn", "ftruncate dyn", "fstat dyn", "mmap dyn",
     "mem:init dyn", "mem:register node", "mem:version dyn", "fchmod dyn final"] := by decide

end Iox2.C04Service
