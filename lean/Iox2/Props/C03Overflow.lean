/-
C03 / SafelyOverflowingIndexQueue (model Iox2/Model/OverflowQueue.lean).

Setting: ANY number of threads, ANY programs, role ownership as enforced by the Rust API
(`nextCmd`), all interleavings at atomic-step granularity (`Reachable`), ALL capacities
(including 0, where every push evicts what it just published).
-/
import Iox2.Model.OverflowQueue

namespace Iox2.C03.OverflowP
open Iox2.Sched Iox2.OverflowQueue

def initCfg (cap : Nat) (progs : List (List Cmd)) : Cfg Sh Th :=
  { sh := Sh.init cap, th := progs.map Th.init }

/-- the abstract FIFO: everything published and not yet taken (popped or evicted), oldest first -/
def absq (s : Sh) : List Nat := s.log.drop s.rp

/-- values of the positions taken by the consumer (`b = true`) / by the producer (`b = false`) -/
def ownedBy (b : Bool) (s : Sh) : List Nat :=
  ((s.log.zip s.owner).filter (fun p => p.2 == b)).map (·.1)

/-- the value a producer has stolen (successful CAS) but not yet returned from `push` -/
def inflightEvicted (c : Cfg Sh Th) : List Nat :=
  c.th.filterMap fun t =>
    match t.pc with
    | .pushDist2 r => c.sh.log[r]?
    | .pushRead r => c.sh.log[r]?
    | _ => none


/-! ### generic list / arithmetic lemmas -/

theorem zip_append_left_of_le {α β : Type} (l l' : List α) (o : List β) (h : o.length ≤ l.length) :
    (l ++ l').zip o = l.zip o := by
  induction l generalizing o with
  | nil => cases o <;> simp_all
  | cons a l ih =>
    cases o with
    | nil => simp
    | cons b o =>
      simp only [List.length_cons, Nat.add_le_add_iff_right] at h
      simp [ih o h]

theorem zip_concat_right {α β : Type} (l : List α) (o : List β) (b : β) (x : α)
    (h : l[o.length]? = some x) : l.zip (o ++ [b]) = l.zip o ++ [(x, b)] := by
  induction l generalizing o with
  | nil => simp at h
  | cons a l ih =>
    cases o with
    | nil => simp at h; simp [h]
    | cons b' o =>
      simp only [List.length_cons, List.getElem?_cons_succ] at h
      simp [ih o h]

theorem map_fst_zip_sublist {α β : Type} (l : List α) (o : List β) :
    ((l.zip o).map (·.1)).Sublist l := by
  induction l generalizing o with
  | nil => simp
  | cons a l ih =>
    cases o with
    | nil => simp
    | cons b o => simpa using ih o

theorem zip_take_left {α β : Type} (l : List α) (o : List β) :
    l.zip o = (l.take o.length).zip o := by
  induction l generalizing o with
  | nil => simp
  | cons a l ih =>
    cases o with
    | nil => simp
    | cons b o => simpa using ih o

theorem getElem?_append_some {α : Type} {l l' : List α} {i : Nat} {x : α} (h : l[i]? = some x) :
    (l ++ l')[i]? = some x := by
  have : i < l.length := by
    rcases List.getElem?_eq_some_iff.1 h with ⟨h', _⟩; exact h'
  rw [List.getElem?_append_left this]; exact h

theorem mod_ne_of_lt_of_le {n i w : Nat} (h1 : i < w) (h2 : w ≤ i + n) :
    i % (n + 1) ≠ w % (n + 1) := by
  intro h
  have h3 := Nat.sub_mod_eq_zero_of_mod_eq h.symm
  rw [Nat.mod_eq_of_lt (by omega)] at h3
  omega

theorem filterMap_set_same {α β : Type} {f : α → Option β} {l : List α} {i : Nat} {t t' : α}
    (hi : l[i]? = some t) (h : f t' = f t) : (l.set i t').filterMap f = l.filterMap f := by
  induction l generalizing i with
  | nil => simp
  | cons a l ih =>
    cases i with
    | zero => simp at hi; subst hi; simp [List.filterMap_cons, h]
    | succ i => simp at hi; simp [List.filterMap_cons, ih hi]

theorem filterMap_eq_of_unique {α β : Type} {f : α → Option β} {l : List α} {i : Nat}
    (h : ∀ j t, j ≠ i → l[j]? = some t → f t = none) :
    l.filterMap f = (l[i]?.bind f).toList := by
  induction l generalizing i with
  | nil => simp
  | cons a l ih =>
    cases i with
    | zero =>
      have : l.filterMap f = [] := by
        rw [List.filterMap_eq_nil_iff]
        intro b hb
        rcases List.mem_iff_getElem?.1 hb with ⟨j, hj⟩
        exact h (j + 1) b (by omega) (by simpa using hj)
      cases hfa : f a <;> simp [hfa, this]
    | succ i =>
      have h0 : f a = none := h 0 a (by omega) (by simp)
      have := ih (i := i) (fun j t hj hjt => h (j + 1) t (by omega) (by simpa using hjt))
      simp [h0, this]

theorem filter_length_le_one_of_unique {α : Type} {p : α → Bool} {l : List α}
    (h : ∀ (j k : Nat) tj tk, l[j]? = some tj → l[k]? = some tk → p tj = true → p tk = true → j = k) :
    (l.filter p).length ≤ 1 := by
  induction l with
  | nil => simp
  | cons a l ih =>
    by_cases hpa : p a = true
    · have : l.filter p = [] := by
        rw [List.filter_eq_nil_iff]
        intro b hb hpb
        rcases List.mem_iff_getElem?.1 hb with ⟨j, hj⟩
        have := h 0 (j + 1) a b (by simp) (by simpa using hj) hpa hpb
        omega
      simp [hpa, this]
    · have := ih (fun j k tj tk hj hk => by
        intro h1 h2
        have := h (j + 1) (k + 1) tj tk (by simpa using hj) (by simpa using hk) h1 h2
        omega)
      simpa [List.filter_cons, hpa] using this

/-! ### the ghost accounting functions on raw lists -/

def ownedByL (b : Bool) (log : List Nat) (owner : List Bool) : List Nat :=
  ((log.zip owner).filter (fun p => p.2 == b)).map (·.1)

theorem ownedBy_eq (b : Bool) (s : Sh) : ownedBy b s = ownedByL b s.log s.owner := rfl

theorem ownedByL_log_append {b : Bool} {log l' : List Nat} {owner : List Bool}
    (h : owner.length ≤ log.length) : ownedByL b (log ++ l') owner = ownedByL b log owner := by
  simp [ownedByL, zip_append_left_of_le _ _ _ h]

theorem ownedByL_owner_concat {b b' : Bool} {log : List Nat} {owner : List Bool} {x : Nat}
    (h : log[owner.length]? = some x) :
    ownedByL b log (owner ++ [b']) =
      if b' = b then ownedByL b log owner ++ [x] else ownedByL b log owner := by
  simp only [ownedByL, zip_concat_right _ _ _ _ h, List.filter_append, List.map_append]
  by_cases hb : b' = b <;> simp [hb]

theorem ownedByL_sublist (b : Bool) (log : List Nat) (owner : List Bool) :
    (ownedByL b log owner).Sublist log :=
  (List.Sublist.map _ List.filter_sublist).trans (map_fst_zip_sublist log owner)

theorem ownedByL_perm (log : List Nat) (owner : List Bool) (h : owner.length ≤ log.length) :
    (ownedByL true log owner ++ ownedByL false log owner).Perm (log.take owner.length) := by
  have h1 : ((log.zip owner).map (·.1)) = log.take owner.length := by
    rw [zip_take_left]
    exact List.map_fst_zip (by simp [List.length_take]; omega)
  rw [← h1]
  simp only [ownedByL, ← List.map_append]
  apply List.Perm.map
  have := List.filter_append_perm (fun p : Nat × Bool => p.2 == true) (log.zip owner)
  refine List.Perm.trans ?_ this
  apply List.Perm.append (List.Perm.refl _)
  apply List.Perm.of_eq
  apply List.filter_congr
  intro p _
  cases p.2 <;> rfl

/-! ### the inductive invariant -/

/-- value stolen by a producer that has not yet returned it -/
def infl (log : List Nat) (t : Th) : Option Nat :=
  match t.pc with
  | .pushDist2 r => log[r]?
  | .pushRead r => log[r]?
  | _ => none

theorem inflightEvicted_eq (c : Cfg Sh Th) : inflightEvicted c = c.th.filterMap (infl c.sh.log) := rfl

/-- per-thread invariant: what a thread knows about the shared state at each program point -/
def TInv (cap : Nat) (s : Sh) (t : Th) : Prop :=
  match t.pc with
  | .idle => True
  | .pushLdW _ => t.holdsP = true
  | .pushLdR _ w => t.holdsP = true ∧ w = s.wp ∧ s.wp ≤ s.rp + cap
  | .pushDist _ w r => t.holdsP = true ∧ w = s.wp ∧ r ≤ s.rp ∧ w ≤ r + cap
  | .pushCell _ w r => t.holdsP = true ∧ w = s.wp ∧ r ≤ s.rp ∧ w ≤ r + cap
  | .pushStW v w r => t.holdsP = true ∧ w = s.wp ∧ r ≤ s.rp ∧ w ≤ r + cap ∧ s.data[w % (cap + 1)]? = some v
  | .pushCas w r => t.holdsP = true ∧ s.wp = w + 1 ∧ r ≤ s.rp ∧ w = r + cap
  | .pushDist2 r => t.holdsP = true ∧ r < s.rp ∧ s.owner[r]? = some false ∧ s.data[r % (cap + 1)]? = s.log[r]?
  | .pushRead r => t.holdsP = true ∧ r < s.rp ∧ s.owner[r]? = some false ∧ s.data[r % (cap + 1)]? = s.log[r]?
  | .popLdR => t.holdsC = true
  | .popLdW q => t.holdsC = true ∧ q ≤ s.rp
  | .popDist q => t.holdsC = true ∧ q ≤ s.rp ∧ (q = s.rp → q < s.wp)
  | .popCell q => t.holdsC = true ∧ q ≤ s.rp ∧ (q = s.rp → q < s.wp)
  | .popCas q x => t.holdsC = true ∧ q ≤ s.rp ∧ (q = s.rp → q < s.wp ∧ s.log[q]? = some x)
  | .popRecheck q => t.holdsC = true ∧ q ≤ s.rp
  | .posW1 _ => True
  | .posR1 _ _ => True
  | .posW2 _ _ _ => True
  | .posR2 _ _ _ => True
  | .acqP => t.holdsP = false
  | .relP => t.holdsP = true
  | .acqC => t.holdsC = false
  | .relC => t.holdsC = true

/-- invariant of the shared state alone -/
structure ShInv (cap : Nat) (s : Sh) : Prop where
  hcap : s.cap = cap
  hdata : s.data.length = cap + 1
  hlog : s.log.length = s.wp
  hown : s.owner.length = s.rp
  hrw : s.rp ≤ s.wp
  hwr : s.wp ≤ s.rp + cap + 1
  hslot : ∀ i, s.rp ≤ i → i < s.wp → s.data[i % (cap + 1)]? = s.log[i]?
  hpop : s.popped = ownedByL true s.log s.owner

/-- at most one thread has the flag `f` -/
def Uniq (f : Th → Bool) (th : List Th) : Prop :=
  ∀ (j k : Nat) tj tk, th[j]? = some tj → th[k]? = some tk → f tj = true → f tk = true → j = k

/-- no thread is between a publish on a full queue and its steal CAS -/
def NoCas (th : List Th) : Prop :=
  ∀ (j : Nat) t, th[j]? = some t → ∀ w r, t.pc ≠ .pushCas w r

structure Inv (cap : Nat) (c : Cfg Sh Th) : Prop where
  sh : ShInv cap c.sh
  th : ∀ (j : Nat) t, c.th[j]? = some t → TInv cap c.sh t
  uP : Uniq (·.holdsP) c.th
  uC : Uniq (·.holdsC) c.th
  fP : c.sh.hasProducer = true → ∀ (j : Nat) t, c.th[j]? = some t → t.holdsP = false
  fC : c.sh.hasConsumer = true → ∀ (j : Nat) t, c.th[j]? = some t → t.holdsC = false
  q : NoCas c.th → c.sh.wp ≤ c.sh.rp + cap
  ev : c.sh.evicted ++ c.th.filterMap (infl c.sh.log) = ownedByL false c.sh.log c.sh.owner

/-! #### thread-invariant transport lemmas -/

/-- `TInv` only looks at `wp`, `rp`, `data`, `log`, `owner` -/
theorem TInv.congr {cap : Nat} {s s' : Sh} {t : Th} (h : TInv cap s t)
    (h1 : s'.wp = s.wp) (h2 : s'.rp = s.rp) (h3 : s'.data = s.data) (h4 : s'.log = s.log)
    (h5 : s'.owner = s.owner) : TInv cap s' t := by
  obtain ⟨pc, todo, hP, hC⟩ := t
  cases pc <;> simp only [TInv, h1, h2, h3, h4, h5] at h ⊢ <;> first | exact h | trivial

/-- steps of the producer do not disturb threads that do not hold the producer role -/
theorem TInv.frameP {cap : Nat} {s s' : Sh} {t : Th} (h : TInv cap s t) (hp : t.holdsP = false)
    (h1 : s.rp ≤ s'.rp) (h2 : s.wp ≤ s'.wp)
    (h3 : ∀ (q : Nat) x, s.log[q]? = some x → s'.log[q]? = some x) : TInv cap s' t := by
  obtain ⟨pc, todo, hP, hC⟩ := t
  simp only at hp; subst hp
  cases pc <;> simp only [TInv] at h ⊢
  case pushLdW => simp at h
  case pushLdR => simp at h
  case pushDist => simp at h
  case pushCell => simp at h
  case pushStW => simp at h
  case pushCas => simp at h
  case pushDist2 => simp at h
  case pushRead => simp at h
  case relP => simp at h
  case popLdR => exact h
  case popLdW q => exact ⟨h.1, by omega⟩
  case popDist q => exact ⟨h.1, by omega, fun he => by have := h.2.2 (by omega); omega⟩
  case popCell q => exact ⟨h.1, by omega, fun he => by have := h.2.2 (by omega); omega⟩
  case popCas q x =>
    refine ⟨h.1, by omega, fun he => ?_⟩
    have := h.2.2 (by omega)
    exact ⟨by omega, h3 _ _ this.2⟩
  case popRecheck q => exact ⟨h.1, by omega⟩
  case acqC => exact h
  case relC => exact h

/-- steps of the consumer do not disturb threads that do not hold the consumer role -/
theorem TInv.frameC {cap : Nat} {s s' : Sh} {t : Th} (h : TInv cap s t) (hc : t.holdsC = false)
    (h1 : s.rp ≤ s'.rp) (h2 : s'.wp = s.wp) (h3 : s'.data = s.data) (h4 : s'.log = s.log)
    (h5 : ∀ (r : Nat), s.owner[r]? = some false → s'.owner[r]? = some false) : TInv cap s' t := by
  obtain ⟨pc, todo, hP, hC⟩ := t
  simp only at hc; subst hc
  cases pc <;> simp only [TInv, h2, h3, h4] at h ⊢
  case popLdR => simp at h
  case popLdW => simp at h
  case popDist => simp at h
  case popCell => simp at h
  case popCas => simp at h
  case popRecheck => simp at h
  case relC => simp at h
  case pushLdW => exact h
  case pushLdR v w => exact ⟨h.1, h.2.1, by omega⟩
  case pushDist v w r => exact ⟨h.1, h.2.1, by omega, h.2.2.2⟩
  case pushCell v w r => exact ⟨h.1, h.2.1, by omega, h.2.2.2⟩
  case pushStW v w r => exact ⟨h.1, h.2.1, by omega, h.2.2.2⟩
  case pushCas w r => exact ⟨h.1, h.2.1, by omega, h.2.2.2⟩
  case pushDist2 r => exact ⟨h.1, by omega, h5 _ h.2.2.1, h.2.2.2⟩
  case pushRead r => exact ⟨h.1, by omega, h5 _ h.2.2.1, h.2.2.2⟩
  case acqP => exact h
  case relP => exact h

theorem infl_none_of_not_holdsP {cap : Nat} {s : Sh} {t : Th} (h : TInv cap s t)
    (hp : t.holdsP = false) (log : List Nat) : infl log t = none := by
  obtain ⟨pc, todo, hP, hC⟩ := t
  simp only at hp; subst hp
  cases pc <;> simp only [TInv, infl] at h ⊢ <;> simp at h

/-! #### thread-list lemmas -/

theorem lt_of_getElem?_some {α : Type} {l : List α} {i : Nat} {x : α} (h : l[i]? = some x) :
    i < l.length := (List.getElem?_eq_some_iff.1 h).1

theorem set_getElem?_self' {th : List Th} {i : Nat} {t t' : Th} (hi : th[i]? = some t) :
    (th.set i t')[i]? = some t' := List.getElem?_set_self (lt_of_getElem?_some hi)

theorem set_getElem?_cases {th : List Th} {i j : Nat} {t t' tj : Th} (hi : th[i]? = some t)
    (hj : (th.set i t')[j]? = some tj) : (j = i ∧ tj = t') ∨ (j ≠ i ∧ th[j]? = some tj) := by
  by_cases hij : i = j
  · subst hij
    rw [set_getElem?_self' hi] at hj
    exact Or.inl ⟨rfl, (Option.some.inj hj).symm⟩
  · rw [List.getElem?_set_ne hij] at hj
    exact Or.inr ⟨fun h => hij h.symm, hj⟩

theorem Uniq.others {f : Th → Bool} {th : List Th} {i : Nat} {t : Th} (hu : Uniq f th)
    (hi : th[i]? = some t) (hf : f t = true) :
    ∀ (j : Nat) tj, j ≠ i → th[j]? = some tj → f tj = false := by
  intro j tj hne hj
  cases h : f tj
  · rfl
  · exact absurd (hu j i tj t hj hi h hf) hne

theorem Uniq.set_of_imp {f : Th → Bool} {th : List Th} {i : Nat} {t t' : Th} (hu : Uniq f th)
    (hi : th[i]? = some t) (h : f t' = true → f t = true) : Uniq f (th.set i t') := by
  intro j k tj tk hj hk hfj hfk
  rcases set_getElem?_cases hi hj with ⟨rfl, rfl⟩ | ⟨hj1, hj2⟩ <;>
    rcases set_getElem?_cases hi hk with ⟨rfl, rfl⟩ | ⟨hk1, hk2⟩
  · rfl
  · exact hu _ _ _ _ hi hk2 (h hfj) hfk
  · exact hu _ _ _ _ hj2 hi hfj (h hfk)
  · exact hu _ _ _ _ hj2 hk2 hfj hfk

theorem Uniq.set_of_all_false {f : Th → Bool} {th : List Th} {i : Nat} {t t' : Th}
    (hi : th[i]? = some t) (ha : ∀ (j : Nat) tj, th[j]? = some tj → f tj = false) :
    Uniq f (th.set i t') := by
  intro j k tj tk hj hk hfj hfk
  rcases set_getElem?_cases hi hj with ⟨rfl, rfl⟩ | ⟨hj1, hj2⟩ <;>
    rcases set_getElem?_cases hi hk with ⟨rfl, rfl⟩ | ⟨hk1, hk2⟩
  · rfl
  · simp [ha _ _ hk2] at hfk
  · simp [ha _ _ hj2] at hfj
  · simp [ha _ _ hk2] at hfk

theorem all_false_set {f : Th → Bool} {th : List Th} {i : Nat} {t t' : Th}
    (hi : th[i]? = some t)
    (ha : ∀ (j : Nat) tj, j ≠ i → th[j]? = some tj → f tj = false) (h : f t' = false) :
    ∀ (j : Nat) tj, (th.set i t')[j]? = some tj → f tj = false := by
  intro j tj hj
  rcases set_getElem?_cases hi hj with ⟨rfl, rfl⟩ | ⟨hj1, hj2⟩
  · exact h
  · exact ha _ _ hj1 hj2

theorem NoCas.of_set {th : List Th} {i : Nat} {t t' : Th} (hi : th[i]? = some t)
    (ht : ∀ w r, t.pc ≠ .pushCas w r) (h : NoCas (th.set i t')) : NoCas th := by
  intro j tj hj
  by_cases hij : i = j
  · subst hij; rw [hi] at hj; cases hj; exact ht
  · exact h j tj (by rw [List.getElem?_set_ne hij]; exact hj)

theorem not_noCas_set {th : List Th} {i : Nat} {t t' : Th} {w r : Nat} (hi : th[i]? = some t)
    (ht : t'.pc = .pushCas w r) : ¬ NoCas (th.set i t') :=
  fun h => h i t' (set_getElem?_self' hi) w r ht

/-! #### assembling the invariant after a step -/

theorem Inv.update {cap : Nat} {th : List Th} {i : Nat} {t t' : Th} {sh' : Sh}
    (hi : th[i]? = some t)
    (hS : ShInv cap sh') (hT : TInv cap sh' t')
    (hF : ∀ (j : Nat) tj, j ≠ i → th[j]? = some tj → TInv cap sh' tj)
    (huP : Uniq (·.holdsP) (th.set i t')) (huC : Uniq (·.holdsC) (th.set i t'))
    (hfP : sh'.hasProducer = true → ∀ (j : Nat) tj, (th.set i t')[j]? = some tj → tj.holdsP = false)
    (hfC : sh'.hasConsumer = true → ∀ (j : Nat) tj, (th.set i t')[j]? = some tj → tj.holdsC = false)
    (hQ : NoCas (th.set i t') → sh'.wp ≤ sh'.rp + cap)
    (hE : sh'.evicted ++ (th.set i t').filterMap (infl sh'.log) = ownedByL false sh'.log sh'.owner) :
    Inv cap ⟨sh', th.set i t'⟩ where
  sh := hS
  th := by
    intro j tj hj
    rcases set_getElem?_cases hi hj with ⟨rfl, rfl⟩ | ⟨hj1, hj2⟩
    · exact hT
    · exact hF _ _ hj1 hj2
  uP := huP
  uC := huC
  fP := hfP
  fC := hfC
  q := hQ
  ev := hE

/-- a step that leaves the role flags alone -/
theorem Inv.update_same {cap : Nat} {s : Sh} {th : List Th} {i : Nat} {t t' : Th} {sh' : Sh}
    (hI : Inv cap ⟨s, th⟩) (hi : th[i]? = some t)
    (hS : ShInv cap sh') (hT : TInv cap sh' t')
    (hF : ∀ (j : Nat) tj, j ≠ i → th[j]? = some tj → TInv cap sh' tj)
    (hP : t'.holdsP = t.holdsP) (hC : t'.holdsC = t.holdsC)
    (hsP : sh'.hasProducer = s.hasProducer) (hsC : sh'.hasConsumer = s.hasConsumer)
    (hQ : NoCas (th.set i t') → sh'.wp ≤ sh'.rp + cap)
    (hE : sh'.evicted ++ (th.set i t').filterMap (infl sh'.log) = ownedByL false sh'.log sh'.owner) :
    Inv cap ⟨sh', th.set i t'⟩ := by
  refine Inv.update hi hS hT hF ?_ ?_ ?_ ?_ hQ hE
  · exact hI.uP.set_of_imp hi (fun h => by simpa [hP] using h)
  · exact hI.uC.set_of_imp hi (fun h => by simpa [hC] using h)
  · intro h
    rw [hsP] at h
    exact all_false_set hi (fun j tj _ hj => hI.fP h j tj hj) (by rw [hP]; exact hI.fP h i t hi)
  · intro h
    rw [hsC] at h
    exact all_false_set hi (fun j tj _ hj => hI.fC h j tj hj) (by rw [hC]; exact hI.fC h i t hi)

/-- in-flight list when thread `i` holds the producer role: only thread `i` can contribute -/
theorem Inv.infl_set {cap : Nat} {s : Sh} {th : List Th} {i : Nat} {t : Th} (hI : Inv cap ⟨s, th⟩)
    (hi : th[i]? = some t) (hp : t.holdsP = true) (log : List Nat) (t' : Th) :
    (th.set i t').filterMap (infl log) = (infl log t').toList := by
  rw [filterMap_eq_of_unique (i := i), set_getElem?_self' hi]; rfl
  intro j tj hne hj
  rw [List.getElem?_set_ne (fun h => hne h.symm)] at hj
  exact infl_none_of_not_holdsP (hI.th j tj hj) (hI.uP.others hi hp j tj hne hj) log

theorem Inv.infl_cur {cap : Nat} {s : Sh} {th : List Th} {i : Nat} {t : Th} (hI : Inv cap ⟨s, th⟩)
    (hi : th[i]? = some t) (hp : t.holdsP = true) (log : List Nat) :
    th.filterMap (infl log) = (infl log t).toList := by
  rw [filterMap_eq_of_unique (i := i), hi]; rfl
  intro j tj hne hj
  exact infl_none_of_not_holdsP (hI.th j tj hj) (hI.uP.others hi hp j tj hne hj) log

/-- a step that changes nothing in the shared state and no role flag -/
theorem Inv.local {cap : Nat} {s : Sh} {th : List Th} {i : Nat} {t t' : Th}
    (hI : Inv cap ⟨s, th⟩) (hi : th[i]? = some t)
    (hP : t'.holdsP = t.holdsP) (hC : t'.holdsC = t.holdsC) (hT : TInv cap s t')
    (hq : (∀ w r, t.pc ≠ .pushCas w r) ∨ s.wp ≤ s.rp + cap)
    (hf : infl s.log t' = infl s.log t) : Inv cap ⟨s, th.set i t'⟩ := by
  refine hI.update_same hi hI.sh hT (fun j tj _ hj => hI.th j tj hj) hP hC rfl rfl ?_ ?_
  · intro hn
    rcases hq with hq | hq
    · exact hI.q (NoCas.of_set hi hq hn)
    · exact hq
  · rw [filterMap_set_same hi hf]; exact hI.ev

theorem TInv.cas_holdsP {cap : Nat} {s : Sh} {t : Th} {w r : Nat} (h : TInv cap s t)
    (hpc : t.pc = .pushCas w r) : t.holdsP = true := by
  obtain ⟨pc, todo, hP, hC⟩ := t
  simp only at hpc; subst hpc
  exact h.1

theorem ShInv.congr {cap : Nat} {s s' : Sh} (h : ShInv cap s) (h0 : s'.cap = s.cap)
    (h1 : s'.wp = s.wp) (h2 : s'.rp = s.rp) (h3 : s'.data = s.data) (h4 : s'.log = s.log)
    (h5 : s'.owner = s.owner) (h6 : s'.popped = s.popped) : ShInv cap s' := by
  constructor
  · rw [h0]; exact h.hcap
  · rw [h3]; exact h.hdata
  · rw [h4, h1]; exact h.hlog
  · rw [h5, h2]; exact h.hown
  · rw [h1, h2]; exact h.hrw
  · rw [h1, h2]; exact h.hwr
  · rw [h1, h2, h3, h4]; exact h.hslot
  · rw [h4, h5, h6]; exact h.hpop

local macro "step_inj " h:ident : tactic =>
  `(tactic| (simp only [Option.some.injEq, Prod.mk.injEq] at $h:ident; obtain ⟨h1, h2, h3⟩ := $h:ident; subst h1 h2 h3))

theorem Inv.preserved_stepPC {cap : Nat} {s : Sh} {th : List Th} {i : Nat} {t t' : Th} {sh' : Sh}
    {evs : List Ev} (hI : Inv cap ⟨s, th⟩) (hi : th[i]? = some t)
    (hs : stepPC s t = some (sh', t', evs)) : Inv cap ⟨sh', th.set i t'⟩ := by
  have hT := hI.th i t hi
  have hS := hI.sh
  have hQ := hI.q
  have hEv := hI.ev
  have hTh := hI.th
  obtain ⟨pc, todo, hP, hC⟩ := t
  dsimp only at hi hT hs hS hQ hEv hTh ⊢
  cases pc <;> simp only [stepPC] at hs
  case idle => cases hs
  case pushLdW v =>
    step_inj hs
    simp only [TInv] at hT
    have hn : NoCas th := by
      intro j tj hj w r hpc
      by_cases hji : j = i
      · subst hji; rw [hi] at hj; cases hj; cases hpc
      · have h1 := (hTh j tj hj).cas_holdsP hpc
        have h2 := hI.uP.others hi hT j tj hji hj
        simp [h1] at h2
    exact hI.local hi rfl rfl (show _ ∧ _ ∧ _ from ⟨hT, rfl, hQ hn⟩) (Or.inl (by simp)) rfl
  case pushLdR v w =>
    step_inj hs
    simp only [TInv] at hT
    exact hI.local hi rfl rfl (show _ ∧ _ ∧ _ ∧ _ from ⟨hT.1, hT.2.1, Nat.le_refl _, by omega⟩)
      (Or.inl (by simp)) rfl
  case pushDist v w r =>
    step_inj hs
    simp only [TInv] at hT
    exact hI.local hi rfl rfl (by simp only [TInv]; exact hT) (Or.inl (by simp)) rfl
  case pushCell v w r =>
    step_inj hs
    simp only [TInv] at hT
    obtain ⟨hp, hw, hr, hwr⟩ := hT
    have hsl : slot s w = w % (cap + 1) := by simp [slot, hS.hcap]
    rw [hsl]
    have hwlt : w % (cap + 1) < s.data.length := by rw [hS.hdata]; exact Nat.mod_lt _ (by omega)
    refine hI.update_same hi ?_ ?_ ?_ rfl rfl rfl rfl ?_ ?_
    · exact { hcap := hS.hcap, hdata := by simp [hS.hdata], hlog := hS.hlog, hown := hS.hown,
              hrw := hS.hrw, hwr := hS.hwr, hpop := hS.hpop,
              hslot := by
                intro j h1 h2
                simp only at h1 h2 ⊢
                rw [List.getElem?_set_ne (mod_ne_of_lt_of_le (by omega) (by omega)).symm]
                exact hS.hslot j h1 h2 }
    · simp only [TInv]; exact ⟨hp, hw, hr, hwr, List.getElem?_set_self hwlt⟩
    · intro j tj hne hj
      exact (hTh j tj hj).frameP (hI.uP.others hi hp j tj hne hj) (Nat.le_refl _) (Nat.le_refl _)
        (fun _ _ h => h)
    · intro hn; exact hQ (NoCas.of_set hi (by simp) hn)
    · rw [filterMap_set_same hi]
      · exact hEv
      · rfl
  case pushStW v w r =>
    simp only [TInv] at hT
    obtain ⟨hp, hw, hr, hwr, hd⟩ := hT
    have hrw := hS.hrw
    have hS' : ShInv cap { s with wp := w + 1, log := s.log ++ [v] } :=
      { hcap := hS.hcap, hdata := hS.hdata, hown := hS.hown
        hlog := by simp [hS.hlog, hw]
        hrw := by simp only; omega
        hwr := by simp only; omega
        hslot := by
          intro j h1 h2
          simp only at h1 h2 ⊢
          by_cases hj : j < w
          · rw [List.getElem?_append_left (by rw [hS.hlog]; omega)]; exact hS.hslot j h1 (by omega)
          · have : j = w := by omega
            subst this
            rw [hd, hw, ← hS.hlog, List.getElem?_concat_length]
        hpop := by
          simp only
          rw [ownedByL_log_append (by rw [hS.hown, hS.hlog]; omega)]; exact hS.hpop }
    have hF : ∀ (j : Nat) tj, j ≠ i → th[j]? = some tj →
        TInv cap { s with wp := w + 1, log := s.log ++ [v] } tj := fun j tj hne hj =>
      (hTh j tj hj).frameP (hI.uP.others hi hp j tj hne hj) (Nat.le_refl _) (by simp only; omega)
        (fun q x h => getElem?_append_some h)
    have hE : ∀ t' : Th, infl (s.log ++ [v]) t' = none →
        s.evicted ++ (th.set i t').filterMap (infl (s.log ++ [v])) =
          ownedByL false (s.log ++ [v]) s.owner := by
      intro t' ht'
      rw [hI.infl_set hi hp, ht', ownedByL_log_append (by rw [hS.hown, hS.hlog]; omega), ← hEv,
        hI.infl_cur hi hp]
      rfl
    split at hs <;> step_inj hs
    · rename_i hfull
      refine hI.update_same hi hS' ?_ hF rfl rfl rfl rfl ?_ (hE _ rfl)
      · rw [hS.hcap] at hfull; exact (show _ ∧ _ ∧ _ ∧ _ from ⟨hp, rfl, hr, hfull⟩)
      · intro hn; exact absurd hn (not_noCas_set hi rfl)
    · rename_i hfull
      refine hI.update_same hi hS' ?_ hF rfl rfl rfl rfl ?_ (hE _ rfl)
      · simp only [TInv]
      · intro _; rw [hS.hcap] at hfull; simp only; omega
  case pushCas w r =>
    simp only [TInv] at hT
    obtain ⟨hp, hw, hr, hwr⟩ := hT
    split at hs <;> step_inj hs
    · rename_i hrp
      subst hrp
      have hlt : s.rp < s.log.length := by rw [hS.hlog]; omega
      have hx : s.log[s.owner.length]? = some s.log[s.rp] := by
        rw [hS.hown]; exact List.getElem?_eq_getElem hlt
      have hin : th.filterMap (infl s.log) = [] := by rw [hI.infl_cur hi hp]; rfl
      refine hI.update_same hi ?_ ?_ ?_ rfl rfl rfl rfl ?_ ?_
      · exact { hcap := hS.hcap, hdata := hS.hdata, hlog := hS.hlog
                hown := by simp [hS.hown]
                hrw := by simp only; omega
                hwr := by simp only; omega
                hslot := fun j h1 h2 => hS.hslot j (by simp only at h1; omega) h2
                hpop := by
                  simp only
                  rw [ownedByL_owner_concat hx]; simp; exact hS.hpop }
      · simp only [TInv]
        refine ⟨hp, by omega, ?_, hS.hslot _ (Nat.le_refl _) (by omega)⟩
        rw [← hS.hown]; exact List.getElem?_concat_length
      · intro j tj hne hj
        exact (hTh j tj hj).frameP (hI.uP.others hi hp j tj hne hj) (by simp only; omega)
          (Nat.le_refl _) (fun _ _ h => h)
      · intro _; simp only; omega
      · simp only
        rw [hI.infl_set hi hp, ownedByL_owner_concat hx, ← hEv, hin]
        simp [infl, List.getElem?_eq_getElem hlt]
    · rename_i hrp
      exact hI.local hi rfl rfl (by simp only [TInv]) (Or.inr (by omega)) rfl
  case pushDist2 r =>
    step_inj hs
    simp only [TInv] at hT
    exact hI.local hi rfl rfl (by simp only [TInv]; exact hT) (Or.inl (by simp)) rfl
  case pushRead r =>
    step_inj hs
    simp only [TInv] at hT
    obtain ⟨hp, hr, hown, hd⟩ := hT
    have hlt : r < s.log.length := by rw [hS.hlog]; have := hS.hrw; omega
    have hval : s.data.getD (slot s r) 0 = s.log[r] := by
      simp [slot, hS.hcap, List.getD_eq_getElem?_getD, hd, List.getElem?_eq_getElem hlt]
    rw [hval]
    have hin : th.filterMap (infl s.log) = [s.log[r]] := by
      rw [hI.infl_cur hi hp]; simp [infl, List.getElem?_eq_getElem hlt]
    refine hI.update_same hi (hS.congr rfl rfl rfl rfl rfl rfl rfl) (by simp only [TInv])
      (fun j tj _ hj => (hTh j tj hj).congr rfl rfl rfl rfl rfl) rfl rfl rfl rfl ?_ ?_
    · intro hn; exact hQ (NoCas.of_set hi (by simp) hn)
    · simp only
      rw [hI.infl_set hi hp]
      have := hEv
      rw [hin] at this
      simpa [infl] using this
  case popLdR =>
    step_inj hs
    simp only [TInv] at hT
    exact hI.local hi rfl rfl (by simp only [TInv]; exact ⟨hT, Nat.le_refl _⟩) (Or.inl (by simp)) rfl
  case popLdW q =>
    simp only [TInv] at hT
    have := hS.hrw
    split at hs <;> step_inj hs
    · exact hI.local hi rfl rfl (by simp only [TInv]) (Or.inl (by simp)) rfl
    · exact hI.local hi rfl rfl (by simp only [TInv]; exact ⟨hT.1, hT.2, fun _ => by omega⟩)
        (Or.inl (by simp)) rfl
  case popDist q =>
    step_inj hs
    simp only [TInv] at hT
    exact hI.local hi rfl rfl (by simp only [TInv]; exact hT) (Or.inl (by simp)) rfl
  case popCell q =>
    step_inj hs
    simp only [TInv] at hT
    refine hI.local hi rfl rfl ?_ (Or.inl (by simp)) rfl
    simp only [TInv]
    refine ⟨hT.1, hT.2.1, fun he => ?_⟩
    have hlt := hT.2.2 he
    refine ⟨hlt, ?_⟩
    have hlt' : q < s.log.length := by rw [hS.hlog]; exact hlt
    have := hS.hslot q (by omega) hlt
    simp [slot, hS.hcap, List.getD_eq_getElem?_getD, this, List.getElem?_eq_getElem hlt']
  case popCas q x =>
    simp only [TInv] at hT
    obtain ⟨hc, hq, himp⟩ := hT
    split at hs <;> step_inj hs
    · rename_i hrp
      subst hrp
      obtain ⟨hlt, hx⟩ := himp rfl
      have hx' : s.log[s.owner.length]? = some x := by rw [hS.hown]; exact hx
      refine hI.update_same hi ?_ (by simp only [TInv]) ?_ rfl rfl rfl rfl ?_ ?_
      · exact { hcap := hS.hcap, hdata := hS.hdata, hlog := hS.hlog
                hown := by simp [hS.hown]
                hrw := by simp only; omega
                hwr := by simp only; have := hS.hwr; omega
                hslot := fun j h1 h2 => hS.hslot j (by simp only at h1; omega) h2
                hpop := by
                  simp only
                  rw [ownedByL_owner_concat hx']; simp [hS.hpop] }
      · intro j tj hne hj
        exact (hTh j tj hj).frameC (hI.uC.others hi hc j tj hne hj) (by simp only; omega) rfl rfl rfl
          (fun r h => getElem?_append_some h)
      · intro hn
        have := hQ (NoCas.of_set hi (by simp) hn)
        simp only at this ⊢; omega
      · simp only
        rw [filterMap_set_same hi, ownedByL_owner_concat hx']
        · simp; exact hEv
        · rfl
    · exact hI.local hi rfl rfl (by simp only [TInv]; exact ⟨hc, Nat.le_refl _⟩) (Or.inl (by simp)) rfl
  case popRecheck q =>
    simp only [TInv] at hT
    have := hS.hrw
    split at hs <;> step_inj hs
    · exact hI.local hi rfl rfl (by simp only [TInv]) (Or.inl (by simp)) rfl
    · exact hI.local hi rfl rfl (by simp only [TInv]; exact ⟨hT.1, hT.2, fun _ => by omega⟩)
        (Or.inl (by simp)) rfl
  case posW1 k =>
    step_inj hs
    exact hI.local hi rfl rfl (by simp only [TInv]) (Or.inl (by simp)) rfl
  case posR1 k w =>
    step_inj hs
    exact hI.local hi rfl rfl (by simp only [TInv]) (Or.inl (by simp)) rfl
  case posW2 k w r =>
    split at hs <;> step_inj hs <;>
      exact hI.local hi rfl rfl (by simp only [TInv]) (Or.inl (by simp)) rfl
  case posR2 k w r =>
    split at hs <;> step_inj hs <;>
      exact hI.local hi rfl rfl (by simp only [TInv]) (Or.inl (by simp)) rfl
  case acqP =>
    simp only [TInv] at hT
    split at hs <;> step_inj hs
    · rename_i hfree
      refine Inv.update hi (hS.congr rfl rfl rfl rfl rfl rfl rfl) (by simp only [TInv])
        (fun j tj _ hj => (hTh j tj hj).congr rfl rfl rfl rfl rfl) ?_ ?_ ?_ ?_ ?_ ?_
      · exact Uniq.set_of_all_false hi (hI.fP hfree)
      · exact hI.uC.set_of_imp hi (fun h => h)
      · intro h; simp at h
      · intro h
        exact all_false_set hi (fun j tj _ hj => hI.fC h j tj hj) (by have := hI.fC h i _ hi; exact this)
      · intro hn; exact hQ (NoCas.of_set hi (by simp) hn)
      · simp only; rw [filterMap_set_same hi]
        · exact hEv
        · rfl
    · exact hI.local hi rfl rfl (by simp only [TInv]) (Or.inl (by simp)) rfl
  case relP =>
    step_inj hs
    simp only [TInv] at hT
    refine Inv.update hi (hS.congr rfl rfl rfl rfl rfl rfl rfl) (by simp only [TInv])
      (fun j tj _ hj => (hTh j tj hj).congr rfl rfl rfl rfl rfl) ?_ ?_ ?_ ?_ ?_ ?_
    · exact hI.uP.set_of_imp hi (fun h => by simp at h)
    · exact hI.uC.set_of_imp hi (fun h => h)
    · intro _; exact all_false_set hi (hI.uP.others hi hT) rfl
    · intro h
      exact all_false_set hi (fun j tj _ hj => hI.fC h j tj hj) (by have := hI.fC h i _ hi; exact this)
    · intro hn; exact hQ (NoCas.of_set hi (by simp) hn)
    · simp only; rw [filterMap_set_same hi]
      · exact hEv
      · rfl
  case acqC =>
    simp only [TInv] at hT
    split at hs <;> step_inj hs
    · rename_i hfree
      refine Inv.update hi (hS.congr rfl rfl rfl rfl rfl rfl rfl) (by simp only [TInv])
        (fun j tj _ hj => (hTh j tj hj).congr rfl rfl rfl rfl rfl) ?_ ?_ ?_ ?_ ?_ ?_
      · exact hI.uP.set_of_imp hi (fun h => h)
      · exact Uniq.set_of_all_false hi (hI.fC hfree)
      · intro h
        exact all_false_set hi (fun j tj _ hj => hI.fP h j tj hj) (by have := hI.fP h i _ hi; exact this)
      · intro h; simp at h
      · intro hn; exact hQ (NoCas.of_set hi (by simp) hn)
      · simp only; rw [filterMap_set_same hi]
        · exact hEv
        · rfl
    · exact hI.local hi rfl rfl (by simp only [TInv]) (Or.inl (by simp)) rfl
  case relC =>
    step_inj hs
    simp only [TInv] at hT
    refine Inv.update hi (hS.congr rfl rfl rfl rfl rfl rfl rfl) (by simp only [TInv])
      (fun j tj _ hj => (hTh j tj hj).congr rfl rfl rfl rfl rfl) ?_ ?_ ?_ ?_ ?_ ?_
    · exact hI.uP.set_of_imp hi (fun h => h)
    · exact hI.uC.set_of_imp hi (fun h => by simp at h)
    · intro h
      exact all_false_set hi (fun j tj _ hj => hI.fP h j tj hj) (by have := hI.fP h i _ hi; exact this)
    · intro _; exact all_false_set hi (hI.uC.others hi hT) rfl
    · intro hn; exact hQ (NoCas.of_set hi (by simp) hn)
    · simp only; rw [filterMap_set_same hi]
      · exact hEv
      · rfl

/-! #### initial configuration, full steps, reachability -/

theorem Inv.init (cap : Nat) (progs : List (List Cmd)) : Inv cap (initCfg cap progs) := by
  have hth : ∀ (j : Nat) t, (progs.map Th.init)[j]? = some t → ∃ p, t = Th.init p := by
    intro j t h
    rw [List.getElem?_map] at h
    rcases Option.map_eq_some_iff.1 h with ⟨p, _, hp⟩
    exact ⟨p, hp.symm⟩
  have hnone : (progs.map Th.init).filterMap (infl []) = [] := by
    rw [List.filterMap_eq_nil_iff]
    intro t ht
    rcases List.mem_map.1 ht with ⟨p, _, rfl⟩
    rfl
  refine ⟨?_, ?_, ?_, ?_, ?_, ?_, ?_, ?_⟩
  · exact { hcap := rfl, hdata := by simp [initCfg, Sh.init], hlog := rfl, hown := rfl,
            hrw := Nat.le_refl _, hwr := Nat.zero_le _,
            hslot := fun j _ h2 => absurd h2 (Nat.not_lt_zero _), hpop := rfl }
  · intro j t h
    rcases hth j t h with ⟨p, rfl⟩
    trivial
  · intro j k tj tk hj _ hfj _
    rcases hth j tj hj with ⟨p, rfl⟩
    cases hfj
  · intro j k tj tk hj _ hfj _
    rcases hth j tj hj with ⟨p, rfl⟩
    cases hfj
  · intro _ j t h
    rcases hth j t h with ⟨p, rfl⟩
    rfl
  · intro _ j t h
    rcases hth j t h with ⟨p, rfl⟩
    rfl
  · intro _; exact Nat.zero_le _
  · show [] ++ (progs.map Th.init).filterMap (infl []) = ownedByL false [] []
    rw [hnone]; rfl

theorem nextCmd_enabled {hP hC : Bool} {l : List Cmd} {cmd : Cmd} {rest : List Cmd}
    (h : nextCmd hP hC l = some (cmd, rest)) : enabled hP hC cmd = true := by
  induction l with
  | nil => simp [nextCmd] at h
  | cons a l ih =>
    simp only [nextCmd] at h
    split at h
    · rename_i hen
      simp only [Option.some.injEq, Prod.mk.injEq] at h
      rw [← h.1]; exact hen
    · exact ih h

/-- a full step is a `stepPC` step, possibly after fetching the next enabled command -/
theorem step_cases {s : Sh} {t : Th} {r : Sh × Th × List Ev} (h : step s t = some r) :
    (t.pc ≠ .idle ∧ stepPC s t = some r) ∨
    (t.pc = .idle ∧ ∃ cmd rest, enabled t.holdsP t.holdsC cmd = true ∧
      stepPC s { t with pc := start cmd, todo := rest } = some r) := by
  unfold step at h
  split at h
  · rename_i hpc
    split at h
    · cases h
    · rename_i cmd rest hn
      exact Or.inr ⟨hpc, cmd, rest, nextCmd_enabled hn, h⟩
  · rename_i hpc
    exact Or.inl ⟨hpc, h⟩

/-- fetching a command keeps the invariant -/
theorem Inv.fetch {cap : Nat} {s : Sh} {th : List Th} {i : Nat} {t : Th} {cmd : Cmd}
    {rest : List Cmd} (hI : Inv cap ⟨s, th⟩) (hi : th[i]? = some t) (hpc : t.pc = .idle)
    (hen : enabled t.holdsP t.holdsC cmd = true) :
    Inv cap ⟨s, th.set i { t with pc := start cmd, todo := rest }⟩ := by
  obtain ⟨pc, todo, hP, hC⟩ := t
  simp only at hpc hen; subst hpc
  refine hI.local hi rfl rfl ?_ (Or.inl (by simp)) ?_
  · cases cmd <;> simp_all [start, TInv, enabled]
  · cases cmd <;> rfl

/-- the view of one scheduler step used by all step theorems -/
theorem stepAt_view {cap : Nat} {c c' : Cfg Sh Th} {i : Nat} {evs : List Ev} (hI : Inv cap c)
    (hs : sys.stepAt c i = some (c', evs)) :
    ∃ (t t0 t' : Th) (th0 : List Th) (sh' : Sh),
      c.th[i]? = some t ∧ Inv cap ⟨c.sh, th0⟩ ∧ th0[i]? = some t0 ∧
      stepPC c.sh t0 = some (sh', t', evs) ∧ c' = ⟨sh', th0.set i t'⟩ ∧
      (t0 = t ∨ (t.pc = .idle ∧ ∃ cmd, t0.pc = start cmd)) := by
  obtain ⟨s, th⟩ := c
  unfold Sys.stepAt at hs
  dsimp only at hs ⊢
  split at hs
  · cases hs
  · rename_i t hi
    split at hs
    · cases hs
    · rename_i sh' t' evs' hst
      simp only [Option.some.injEq, Prod.mk.injEq] at hs
      obtain ⟨rfl, rfl⟩ := hs
      rcases step_cases hst with ⟨_, h⟩ | ⟨hpc, cmd, rest, hen, h⟩
      · exact ⟨t, t, t', th, sh', hi, hI, hi, h, rfl, Or.inl rfl⟩
      · refine ⟨t, _, t', _, sh', hi, hI.fetch hi hpc hen, set_getElem?_self' hi, h, ?_,
          Or.inr ⟨hpc, cmd, rfl⟩⟩
        rw [List.set_set]

theorem Inv.preserved {cap : Nat} {c c' : Cfg Sh Th} {i : Nat} {evs : List Ev} (hI : Inv cap c)
    (hs : sys.stepAt c i = some (c', evs)) : Inv cap c' := by
  obtain ⟨t, t0, t', th0, sh', _, hI0, hi0, hst, rfl, _⟩ := stepAt_view hI hs
  exact hI0.preserved_stepPC hi0 hst

theorem inv_reachable {cap : Nat} {progs : List (List Cmd)} {c : Cfg Sh Th}
    (h : Reachable sys (initCfg cap progs) c) : Inv cap c :=
  Reachable.inv (Inv cap) (Inv.init cap progs) (fun _ _ _ _ hI hs => hI.preserved hs) c h

/-! #### strings in `ret` events -/

theorem natToString_inj {x y : Nat} (h : toString x = toString y) : x = y := by
  have h' : (Nat.repr x).toList = (Nat.repr y).toList := congrArg String.toList h
  simp only [Nat.repr, String.toList_ofList] at h'
  have := congrArg (fun l => Nat.ofDigitChars 10 l 0) h'
  simpa [Nat.ofDigitChars_ten_toDigits] using this

theorem toString_string (s : String) : toString s = s := rfl

/-- decide (non-)membership of a `ret` event in an explicit event list by comparing characters -/
local macro "ev_simp" " at " h:ident : tactic =>
  `(tactic| (simp only [List.mem_cons, List.not_mem_nil, List.mem_singleton, Ev.ret.injEq,
      reduceCtorEq, false_or, or_false, ← String.toList_inj, String.toList_append,
      toString_string] at $h:ident <;> simp at $h:ident))

/-! #### what a single `stepPC` step does -/

theorem stepPC_pop_none {cap : Nat} {s : Sh} {th : List Th} {i : Nat} {t t' : Th} {sh' : Sh}
    {evs : List Ev} (hI : Inv cap ⟨s, th⟩) (hi : th[i]? = some t)
    (hs : stepPC s t = some (sh', t', evs)) (hr : Ev.ret "pop none" ∈ evs) :
    absq s = [] ∧ sh' = s := by
  have hT := hI.th i t hi
  have hS := hI.sh
  obtain ⟨pc, todo, hP, hC⟩ := t
  dsimp only at hT hS
  cases pc <;> simp only [stepPC] at hs
  case idle => cases hs
  case popLdW q =>
    simp only [TInv] at hT
    split at hs <;> step_inj hs
    · refine ⟨?_, rfl⟩
      rw [absq, List.drop_eq_nil_iff, hS.hlog]; omega
    · ev_simp at hr
  case popRecheck q =>
    simp only [TInv] at hT
    split at hs <;> step_inj hs
    · refine ⟨?_, rfl⟩
      rw [absq, List.drop_eq_nil_iff, hS.hlog]; omega
    · ev_simp at hr
  case posR2 k w r =>
    split at hs <;> step_inj hs
    · unfold posResult at hr
      split at hr <;> ev_simp at hr
    · ev_simp at hr
  all_goals first
    | (step_inj hs; ev_simp at hr; done)
    | (split at hs <;> step_inj hs <;> ev_simp at hr; done)

theorem stepPC_push_some {cap : Nat} {s : Sh} {th : List Th} {i : Nat} {t t' : Th} {sh' : Sh}
    {evs : List Ev} {x : Nat} (hI : Inv cap ⟨s, th⟩) (hi : th[i]? = some t)
    (hs : stepPC s t = some (sh', t', evs)) (hr : Ev.ret s!"push some:{x}" ∈ evs) :
    ∃ r, t.pc = .pushRead r ∧ s.log[r]? = some x ∧ s.owner[r]? = some false := by
  have hT := hI.th i t hi
  have hS := hI.sh
  obtain ⟨pc, todo, hP, hC⟩ := t
  dsimp only at hT hS
  cases pc <;> simp only [stepPC] at hs
  case idle => cases hs
  case pushRead r =>
    step_inj hs
    simp only [TInv] at hT
    obtain ⟨hp, hr', hown, hd⟩ := hT
    have hlt : r < s.log.length := by rw [hS.hlog]; have := hS.hrw; omega
    have hval : s.data.getD (slot s r) 0 = s.log[r] := by
      simp [slot, hS.hcap, List.getD_eq_getElem?_getD, hd, List.getElem?_eq_getElem hlt]
    have hx : x = s.data.getD (slot s r) 0 := by
      simp at hr
      exact natToString_inj hr
    refine ⟨r, rfl, ?_, hown⟩
    rw [hx, hval]; exact List.getElem?_eq_getElem hlt
  case posR2 k w r =>
    split at hs <;> step_inj hs
    · unfold posResult at hr
      split at hr <;> ev_simp at hr
    · ev_simp at hr
  all_goals first
    | (step_inj hs; ev_simp at hr; done)
    | (split at hs <;> step_inj hs <;> ev_simp at hr; done)

theorem stepPC_refines {cap : Nat} {s : Sh} {th : List Th} {i : Nat} {t t' : Th} {sh' : Sh}
    {evs : List Ev} (hI : Inv cap ⟨s, th⟩) (hi : th[i]? = some t)
    (hs : stepPC s t = some (sh', t', evs)) :
    (absq sh' = absq s ∧ sh'.popped = s.popped ∧ sh'.owner = s.owner) ∨
    (∃ v, absq sh' = absq s ++ [v] ∧ sh'.popped = s.popped ∧ sh'.owner = s.owner ∧
          (absq s).length ≤ cap) ∨
    (∃ x : Nat, absq s = x :: absq sh' ∧ sh'.popped = s.popped ++ [x] ∧
          sh'.owner = s.owner ++ [true] ∧ Ev.ret s!"pop some:{x}" ∈ evs) ∨
    (∃ x : Nat, absq s = x :: absq sh' ∧ sh'.popped = s.popped ∧
          sh'.owner = s.owner ++ [false] ∧ (absq s).length = cap + 1) := by
  have hT := hI.th i t hi
  have hS := hI.sh
  obtain ⟨pc, todo, hP, hC⟩ := t
  dsimp only at hT hS
  cases pc <;> simp only [stepPC] at hs
  case idle => cases hs
  case pushStW v w r =>
    simp only [TInv] at hT
    obtain ⟨hp, hw, hr, hwr, hd⟩ := hT
    have hrw := hS.hrw
    have h1 : absq { s with wp := w + 1, log := s.log ++ [v] } = absq s ++ [v] := by
      simp only [absq]
      exact List.drop_append_of_le_length (by rw [hS.hlog]; omega)
    have h2 : (absq s).length ≤ cap := by
      simp only [absq, List.length_drop, hS.hlog]; omega
    split at hs <;> step_inj hs <;> exact Or.inr (Or.inl ⟨v, h1, rfl, rfl, h2⟩)
  case pushCas w r =>
    simp only [TInv] at hT
    obtain ⟨hp, hw, hr, hwr⟩ := hT
    split at hs <;> step_inj hs
    · rename_i hrp
      subst hrp
      have hlt : s.rp < s.log.length := by rw [hS.hlog]; omega
      refine Or.inr (Or.inr (Or.inr ⟨s.log[s.rp], ?_, rfl, rfl, ?_⟩))
      · simp only [absq]; exact List.drop_eq_getElem_cons hlt
      · simp only [absq, List.length_drop, hS.hlog]; omega
    · exact Or.inl ⟨rfl, rfl, rfl⟩
  case popCas q x =>
    simp only [TInv] at hT
    obtain ⟨hc, hq, himp⟩ := hT
    split at hs <;> step_inj hs
    · rename_i hrp
      subst hrp
      obtain ⟨hlt, hx⟩ := himp rfl
      have hlt' : s.rp < s.log.length := by rw [hS.hlog]; exact hlt
      have hx' : s.log[s.rp] = x := by
        rw [List.getElem?_eq_getElem hlt'] at hx; exact Option.some.inj hx
      refine Or.inr (Or.inr (Or.inl ⟨x, ?_, rfl, rfl, by simp⟩))
      simp only [absq]; rw [← hx']; exact List.drop_eq_getElem_cons hlt'
    · exact Or.inl ⟨rfl, rfl, rfl⟩
  all_goals first
    | (step_inj hs; exact Or.inl ⟨rfl, rfl, rfl⟩)
    | (split at hs <;> step_inj hs <;> exact Or.inl ⟨rfl, rfl, rfl⟩)

/-! ### the theorems -/

variable (cap : Nat) (progs : List (List Cmd))

theorem overflow_single_role (c : Cfg Sh Th) (h : Reachable sys (initCfg cap progs) c) :
    (c.th.filter (·.holdsP)).length ≤ 1 ∧ (c.th.filter (·.holdsC)).length ≤ 1 := by
  have hI := inv_reachable h
  exact ⟨filter_length_le_one_of_unique hI.uP, filter_length_le_one_of_unique hI.uC⟩

/-- bounds: at most `cap` elements, plus one only between a publish on a full queue and the steal -/
theorem overflow_bounds (c : Cfg Sh Th) (h : Reachable sys (initCfg cap progs) c) :
    c.sh.rp ≤ c.sh.wp ∧ c.sh.wp ≤ c.sh.rp + cap + 1 ∧ c.sh.log.length = c.sh.wp ∧
    c.sh.owner.length = c.sh.rp ∧ c.sh.cap = cap ∧ c.sh.data.length = cap + 1 := by
  have hS := (inv_reachable h).sh
  exact ⟨hS.hrw, hS.hwr, hS.hlog, hS.hown, hS.hcap, hS.hdata⟩

theorem overflow_len_le_cap_when_quiescent (c : Cfg Sh Th) (h : Reachable sys (initCfg cap progs) c)
    (hq : ∀ t ∈ c.th, ∀ w r, t.pc ≠ .pushCas w r) : (absq c.sh).length ≤ cap := by
  have hI := inv_reachable h
  have := hI.q (fun j t hj => hq t (List.mem_of_getElem? hj))
  simp only [absq, List.length_drop, hI.sh.hlog]
  omega

/-- live positions hold the value pushed there -/
theorem overflow_slots_intact (c : Cfg Sh Th) (h : Reachable sys (initCfg cap progs) c)
    (i : Nat) (hi1 : c.sh.rp ≤ i) (hi2 : i < c.sh.wp) :
    c.sh.data[i % (cap + 1)]? = c.sh.log[i]? :=
  (inv_reachable h).sh.hslot i hi1 hi2

/-- **exactly once**: every position below `read_position` was taken by exactly one party; what
`pop` returned are exactly the values of the consumer's positions (in order), what `push` returned
as evicted — plus the one a producer has stolen and not yet returned — are exactly the values of the
producer's positions.  Nothing is lost, duplicated or invented; a torn slot read never escapes. -/
theorem overflow_exactly_once (c : Cfg Sh Th) (h : Reachable sys (initCfg cap progs) c) :
    c.sh.popped = ownedBy true c.sh ∧
    c.sh.evicted ++ inflightEvicted c = ownedBy false c.sh := by
  have hI := inv_reachable h
  exact ⟨hI.sh.hpop, hI.ev⟩

/-- the consumer sees values in push order -/
theorem overflow_pop_order (c : Cfg Sh Th) (h : Reachable sys (initCfg cap progs) c) :
    c.sh.popped.Sublist c.sh.log ∧ c.sh.evicted.Sublist c.sh.log := by
  have hI := inv_reachable h
  refine ⟨?_, ?_⟩
  · rw [hI.sh.hpop]; exact ownedByL_sublist _ _ _
  · refine List.Sublist.trans (List.sublist_append_left _ (c.th.filterMap (infl c.sh.log))) ?_
    rw [hI.ev]; exact ownedByL_sublist _ _ _

/-- conservation as a multiset equation: pushed = popped ⊎ evicted ⊎ stolen-in-flight ⊎ still queued -/
theorem overflow_conservation (c : Cfg Sh Th) (h : Reachable sys (initCfg cap progs) c) :
    (c.sh.popped ++ c.sh.evicted ++ inflightEvicted c ++ absq c.sh).Perm c.sh.log := by
  have hI := inv_reachable h
  have hS := hI.sh
  have h1 : c.sh.popped ++ c.sh.evicted ++ inflightEvicted c =
      ownedByL true c.sh.log c.sh.owner ++ ownedByL false c.sh.log c.sh.owner := by
    rw [List.append_assoc, inflightEvicted_eq, hI.ev, ← hS.hpop]
  rw [h1]
  have h2 := ownedByL_perm c.sh.log c.sh.owner (by rw [hS.hown, hS.hlog]; exact hS.hrw)
  rw [hS.hown] at h2
  have h3 := List.Perm.append h2 (List.Perm.refl (absq c.sh))
  rw [absq, List.take_append_drop] at h3
  exact h3

/-- **linearizability (forward simulation to the atomic overflowing FIFO)**: every step is a
stutter, an enqueue (release store of `write_position`), or the removal of the FIFO's head — by
the consumer's successful CAS (value returned by `pop`) or by the producer's successful steal CAS -/
theorem overflow_step_refines (c c' : Cfg Sh Th) (i : Nat) (evs : List Ev)
    (h : Reachable sys (initCfg cap progs) c) (hs : sys.stepAt c i = some (c', evs)) :
    (absq c'.sh = absq c.sh ∧ c'.sh.popped = c.sh.popped ∧ c'.sh.owner = c.sh.owner) ∨
    (∃ v, absq c'.sh = absq c.sh ++ [v] ∧ c'.sh.popped = c.sh.popped ∧ c'.sh.owner = c.sh.owner ∧
          (absq c.sh).length ≤ cap) ∨
    (∃ x : Nat, absq c.sh = x :: absq c'.sh ∧ c'.sh.popped = c.sh.popped ++ [x] ∧
          c'.sh.owner = c.sh.owner ++ [true] ∧ Ev.ret s!"pop some:{x}" ∈ evs) ∨
    (∃ x : Nat, absq c.sh = x :: absq c'.sh ∧ c'.sh.popped = c.sh.popped ∧
          c'.sh.owner = c.sh.owner ++ [false] ∧ (absq c.sh).length = cap + 1) := by
  obtain ⟨t, t0, t', th0, sh', _, hI0, hi0, hst, rfl, _⟩ := stepAt_view (inv_reachable h) hs
  exact stepPC_refines hI0 hi0 hst

/-- the value `push` hands back is the one it stole -/
theorem overflow_evicted_value (c c' : Cfg Sh Th) (i : Nat) (evs : List Ev) (x : Nat)
    (h : Reachable sys (initCfg cap progs) c) (hs : sys.stepAt c i = some (c', evs))
    (hr : Ev.ret s!"push some:{x}" ∈ evs) :
    ∃ r, (c.th[i]?.map (·.pc)) = some (.pushRead r) ∧ c.sh.log[r]? = some x ∧ c.sh.owner[r]? = some false := by
  obtain ⟨t, t0, t', th0, sh', hi, hI0, hi0, hst, rfl, ht0⟩ := stepAt_view (inv_reachable h) hs
  obtain ⟨r, hpc, hl, ho⟩ := stepPC_push_some hI0 hi0 hst hr
  refine ⟨r, ?_, hl, ho⟩
  rcases ht0 with rfl | ⟨_, cmd, hc⟩
  · rw [hi]; simp [hpc]
  · rw [hpc] at hc
    cases cmd <;> simp [start] at hc

theorem overflow_pop_none_only_if_empty (c c' : Cfg Sh Th) (i : Nat) (evs : List Ev)
    (h : Reachable sys (initCfg cap progs) c) (hs : sys.stepAt c i = some (c', evs))
    (hr : Ev.ret "pop none" ∈ evs) : absq c.sh = [] ∧ c'.sh = c.sh := by
  obtain ⟨t, t0, t', th0, sh', _, hI0, hi0, hst, rfl, _⟩ := stepAt_view (inv_reachable h) hs
  exact stepPC_pop_none hI0 hi0 hst hr

/-- non-vacuity: capacity 1, the producer overflows twice while the consumer is inside `pop`
(the consumer's CAS loses twice against a steal, its third attempt wins) -/
example :
    let progs := [[Cmd.acquireProducer, .push 1, .push 2, .push 3], [Cmd.acquireConsumer, .pop, .pop]]
    let r := sys.run (initCfg 1 progs)
      ([0] ++ List.replicate 5 0 ++ [1, 1, 1, 1, 1] ++ List.replicate 8 0 ++ List.replicate 4 1 ++ List.replicate 8 0 ++ List.replicate 9 1)
    r.1.sh.log = [1, 2, 3] ∧ r.1.sh.popped = [3] ∧ r.1.sh.evicted = [1, 2] ∧ r.1.sh.owner = [false, false, true] := by
  decide


end Iox2.C03.OverflowP
