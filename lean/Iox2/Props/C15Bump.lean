/-
C15 — the bump allocator under concurrency: every allocation that any thread ever obtained lies
inside the managed memory, is aligned as requested and overlaps no other allocation — for any number
of threads, any requests and EVERY interleaving of their atomic steps (`Iox2.BumpConc`).
-/
import Iox2.Model.BumpConc
set_option linter.unusedVariables false
namespace Iox2.BumpConc.C15
open Iox2.Sched Iox2.BumpConc

variable {start size : Nat} {progs : List (List (Nat × Nat))}

/-- requests with a power-of-two alignment ≥ 1 (what `Layout` guarantees) -/
def ReqOk (progs : List (List (Nat × Nat))) : Prop := ∀ p ∈ progs, ∀ r ∈ p, 1 ≤ r.2

/-! ### arithmetic of `alignUp` -/

theorem alignUp_ge (v a : Nat) : v ≤ alignUp v a := by
  unfold alignUp
  split
  · exact Nat.le_refl _
  · rename_i h0
    split
    · exact Nat.le_refl _
    · have := Nat.mod_lt v (Nat.pos_of_ne_zero h0)
      omega

theorem alignUp_mod (v a : Nat) (ha : 1 ≤ a) : alignUp v a % a = 0 := by
  unfold alignUp
  split
  · omega
  · split
    · assumption
    · have h := Nat.div_add_mod v a
      have hlt := Nat.mod_lt v (show 0 < a by omega)
      have e : v + a - v % a = a * (v / a + 1) := by
        rw [Nat.mul_add, Nat.mul_one]; omega
      rw [e]; exact Nat.mul_mod_right _ _

theorem alignUp_lt (v a : Nat) (ha : 1 ≤ a) : alignUp v a < v + a := by
  unfold alignUp
  split
  · omega
  · split
    · omega
    · rename_i hm
      have : 0 < v % a := Nat.pos_of_ne_zero hm
      omega

theorem oom_ne (n : Nat) : "alloc err:OutOfMemory" ≠ s!"alloc ok:{n}" := by
  intro h
  have := congrArg String.toList h
  have e : (toString "alloc ok:" : String) = "alloc ok:" := rfl
  rw [String.toList_append, e] at this
  have e2 : ("alloc ok:" : String).toList = ['a', 'l', 'l', 'o', 'c', ' ', 'o', 'k', ':'] := by decide
  have e3 : ("alloc err:OutOfMemory" : String).toList =
      ['a', 'l', 'l', 'o', 'c', ' ', 'e', 'r', 'r', ':', 'O', 'u', 't', 'O', 'f', 'M', 'e', 'm', 'o', 'r', 'y'] := by
    decide
  rw [e2, e3] at this
  simp at this

/-! ### the shape of one step -/

abbrev oomEv : Ev := .ret "alloc err:OutOfMemory"

/-- where the request `(sz, al)` of a step that (re)reads the position comes from -/
def Src (s : Sh) (t : Th) (sz al : Nat) (t0 : Th) (pre : List Ev) : Prop :=
  (t.pc = .idle ∧ sz ≠ 0 ∧ ∃ rest, t.todo = (sz, al) :: rest ∧ t0 = { t with todo := rest } ∧
      pre = [.load "pos" .rlx s.pos]) ∨
  (t.pc = .ld sz al ∧ t0 = t ∧ pre = [.load "pos" .rlx s.pos]) ∨
  (∃ cur, t.pc = .cas sz al cur ∧ s.pos ≠ cur ∧ t0 = t ∧
      pre = [.cas "pos" .rlx .rlx s.pos (nextFor s cur al + sz) false])

inductive StepKind (s : Sh) (t : Th) : Sh → Th → List Ev → Prop
  | zero (al : Nat) (rest : List (Nat × Nat)) : t.pc = .idle → t.todo = (0, al) :: rest →
      StepKind s t s { t with todo := rest } [.ret "alloc err:SizeIsZero"]
  | oom (sz al : Nat) (t0 : Th) (pre : List Ev) : Src s t sz al t0 pre →
      nextFor s s.pos al + sz > s.size →
      StepKind s t s { t0 with pc := .idle } (pre ++ [oomEv])
  | fit (sz al : Nat) (t0 : Th) (pre : List Ev) : Src s t sz al t0 pre →
      ¬ nextFor s s.pos al + sz > s.size →
      StepKind s t s { t0 with pc := .cas sz al s.pos } pre
  | ok (sz al cur : Nat) : t.pc = .cas sz al cur → s.pos = cur →
      StepKind s t
        { s with pos := nextFor s cur al + sz, allocs := s.allocs ++ [(nextFor s cur al, sz, al)] }
        { t with pc := .idle }
        [.cas "pos" .rlx .rlx cur (nextFor s cur al + sz) true, .ret s!"alloc ok:{nextFor s cur al}"]

theorem afterPos_kind {s : Sh} {t t0 : Th} {sz al : Nat} {pre : List Ev} (hsrc : Src s t sz al t0 pre)
    {s' : Sh} {t' : Th} {evs : List Ev} (h : afterPos s t0 sz al s.pos pre = (s', t', evs)) :
    StepKind s t s' t' evs := by
  unfold afterPos at h
  split at h
  · rename_i hc
    cases h
    exact .oom sz al t0 pre hsrc hc
  · rename_i hc
    cases h
    exact .fit sz al t0 pre hsrc hc

theorem step_kind {s : Sh} {t : Th} {s' : Sh} {t' : Th} {evs : List Ev}
    (h : step s t = some (s', t', evs)) : StepKind s t s' t' evs := by
  obtain ⟨pc, todo⟩ := t
  cases pc with
  | idle =>
    cases todo with
    | nil => simp [step] at h
    | cons r rest =>
      obtain ⟨sz, al⟩ := r
      simp only [step] at h
      split at h
      · rename_i hz
        subst hz
        cases h
        exact .zero al rest rfl rfl
      · rename_i hz
        exact afterPos_kind (.inl ⟨rfl, hz, rest, rfl, rfl, rfl⟩) (Option.some.inj h)
  | ld sz al =>
    simp only [step] at h
    exact afterPos_kind (.inr (.inl ⟨rfl, rfl, rfl⟩)) (Option.some.inj h)
  | cas sz al cur =>
    simp only [step] at h
    split at h
    · rename_i hp
      cases h
      exact .ok sz al cur rfl hp
    · rename_i hp
      exact afterPos_kind (.inr (.inr ⟨cur, rfl, hp, rfl, rfl⟩)) (Option.some.inj h)

theorem stepAt_elim {c c' : Cfg Sh Th} {i : Nat} {evs : List Ev}
    (hs : sys.stepAt c i = some (c', evs)) :
    ∃ t sh' t', c.th[i]? = some t ∧ StepKind c.sh t sh' t' evs ∧
      c' = { sh := sh', th := c.th.set i t' } := by
  unfold Sys.stepAt at hs
  split at hs
  · cases hs
  · rename_i t ht
    split at hs
    · cases hs
    · rename_i sh' t' evs' hst
      cases hs
      exact ⟨t, sh', t', ht, step_kind hst, rfl⟩


/-! ### the invariant (needs nothing about the requests) -/

def ThOk (start size : Nat) (t : Th) : Prop :=
  match t.pc with
  | .idle => True
  | .ld sz _ => 1 ≤ sz
  | .cas sz al cur => 1 ≤ sz ∧ alignUp (start + cur) al - start + sz ≤ size

structure Inv (start size : Nat) (c : Cfg Sh Th) : Prop where
  hstart : c.sh.start = start
  hsize : c.sh.size = size
  hpos : c.sh.pos ≤ size
  hpw : c.sh.allocs.Pairwise (fun a b => a.1 + a.2.1 ≤ b.1)
  hend : ∀ a ∈ c.sh.allocs, a.1 + a.2.1 ≤ c.sh.pos
  hal : ∀ a ∈ c.sh.allocs, 1 ≤ a.2.1 ∧ (1 ≤ a.2.2 → (start + a.1) % a.2.2 = 0)
  hth : ∀ t ∈ c.th, ThOk start size t

theorem src_size {start size : Nat} {s : Sh} {t t0 : Th} {sz al : Nat} {pre : List Ev}
    (h : Src s t sz al t0 pre) (ht : ThOk start size t) : 1 ≤ sz := by
  rcases h with ⟨_, hz, _⟩ | ⟨hpc, _⟩ | ⟨cur, hpc, _⟩
  · omega
  · simp only [ThOk, hpc] at ht; exact ht
  · simp only [ThOk, hpc] at ht; exact ht.1

theorem inv_init (start size : Nat) (progs : List (List (Nat × Nat))) :
    Inv start size (initCfg start size progs) where
  hstart := rfl
  hsize := rfl
  hpos := Nat.zero_le _
  hpw := List.Pairwise.nil
  hend := by intro a ha; simp [initCfg] at ha
  hal := by intro a ha; simp [initCfg] at ha
  hth := by
    intro t ht
    simp only [initCfg, List.mem_map] at ht
    obtain ⟨p, _, rfl⟩ := ht
    simp [ThOk]

theorem inv_step {start size : Nat} {c c' : Cfg Sh Th} {i : Nat} {evs : List Ev}
    (hi : Inv start size c) (hs : sys.stepAt c i = some (c', evs)) : Inv start size c' := by
  obtain ⟨t, sh', t', hget, hk, rfl⟩ := stepAt_elim hs
  have htm : t ∈ c.th := List.mem_of_getElem? hget
  have htok := hi.hth t htm
  have hths : ∀ (t' : Th), ThOk start size t' → ∀ u ∈ c.th.set i t', ThOk start size u := by
    intro t' ht' u hu
    rcases List.mem_or_eq_of_mem_set hu with h | h
    · exact hi.hth u h
    · exact h ▸ ht'
  cases hk with
  | zero al rest hpc htodo =>
    exact { hi with hth := hths _ (by simp [ThOk, hpc]) }
  | oom sz al t0 pre hsrc hc =>
    exact { hi with hth := hths _ (by simp [ThOk]) }
  | fit sz al t0 pre hsrc hc =>
    refine { hi with hth := hths _ ?_ }
    have h1 := src_size hsrc htok
    have hst := hi.hstart
    have hsz := hi.hsize
    simp only [nextFor, hst, hsz] at hc
    simp only [ThOk]
    exact ⟨h1, by omega⟩
  | ok sz al cur hpc hp =>
    simp only [ThOk, hpc] at htok
    obtain ⟨h1, hb⟩ := htok
    have hst := hi.hstart
    have hge := alignUp_ge (start + cur) al
    have hnx : nextFor c.sh cur al = alignUp (start + cur) al - start := by
      simp only [nextFor, hst]
    refine
      { hstart := hi.hstart, hsize := hi.hsize, hpos := ?_, hpw := ?_, hend := ?_, hal := ?_,
        hth := hths _ (by simp [ThOk]) }
    · show nextFor c.sh cur al + sz ≤ size
      rw [hnx]; exact hb
    · show (c.sh.allocs ++ [(nextFor c.sh cur al, sz, al)]).Pairwise _
      rw [List.pairwise_append]
      refine ⟨hi.hpw, List.pairwise_singleton _ _, ?_⟩
      intro a ha b hb'
      simp only [List.mem_singleton] at hb'
      subst hb'
      have := hi.hend a ha
      show a.1 + a.2.1 ≤ nextFor c.sh cur al
      rw [hnx]; omega
    · intro a ha
      show a.1 + a.2.1 ≤ nextFor c.sh cur al + sz
      have ha' : a ∈ c.sh.allocs ++ [(nextFor c.sh cur al, sz, al)] := ha
      rw [List.mem_append, List.mem_singleton] at ha'
      rcases ha' with ha' | rfl
      · have := hi.hend a ha'
        rw [hnx]; omega
      · exact Nat.le_refl _
    · intro a ha
      have ha' : a ∈ c.sh.allocs ++ [(nextFor c.sh cur al, sz, al)] := ha
      rw [List.mem_append, List.mem_singleton] at ha'
      rcases ha' with ha' | rfl
      · exact hi.hal a ha'
      · refine ⟨h1, fun hal1 => ?_⟩
        show (start + nextFor c.sh cur al) % al = 0
        rw [hnx]
        have e : start + (alignUp (start + cur) al - start) = alignUp (start + cur) al := by omega
        rw [e]; exact alignUp_mod _ _ hal1

theorem inv_reachable {start size : Nat} {progs : List (List (Nat × Nat))} {c : Cfg Sh Th}
    (h : Reachable sys (initCfg start size progs) c) : Inv start size c :=
  Reachable.inv (Inv start size) (inv_init start size progs)
    (fun _ _ _ _ hi hs => inv_step hi hs) c h

/-! ### the alignments stay ≥ 1 (needs `ReqOk`) -/

def ThR (t : Th) : Prop :=
  (∀ r ∈ t.todo, 1 ≤ r.2) ∧
  match t.pc with
  | .idle => True
  | .ld _ al => 1 ≤ al
  | .cas _ al _ => 1 ≤ al

def InvR (c : Cfg Sh Th) : Prop := (∀ t ∈ c.th, ThR t) ∧ ∀ a ∈ c.sh.allocs, 1 ≤ a.2.2

theorem src_align {s : Sh} {t t0 : Th} {sz al : Nat} {pre : List Ev}
    (h : Src s t sz al t0 pre) (ht : ThR t) : 1 ≤ al ∧ ∀ r ∈ t0.todo, 1 ≤ r.2 := by
  rcases h with ⟨_, _, rest, htodo, rfl, _⟩ | ⟨hpc, rfl, _⟩ | ⟨cur, hpc, _, rfl, _⟩
  · have h1 := ht.1
    rw [htodo] at h1
    exact ⟨h1 (sz, al) (List.mem_cons_self), fun r hr => h1 r (List.mem_cons_of_mem _ hr)⟩
  · have h2 := ht.2
    simp only [hpc] at h2
    exact ⟨h2, ht.1⟩
  · have h2 := ht.2
    simp only [hpc] at h2
    exact ⟨h2, ht.1⟩

theorem invR_step {c c' : Cfg Sh Th} {i : Nat} {evs : List Ev}
    (hi : InvR c) (hs : sys.stepAt c i = some (c', evs)) : InvR c' := by
  obtain ⟨t, sh', t', hget, hk, rfl⟩ := stepAt_elim hs
  have htm : t ∈ c.th := List.mem_of_getElem? hget
  have htr := hi.1 t htm
  have hths : ∀ (t' : Th), ThR t' → ∀ u ∈ c.th.set i t', ThR u := by
    intro t' ht' u hu
    rcases List.mem_or_eq_of_mem_set hu with h | h
    · exact hi.1 u h
    · exact h ▸ ht'
  cases hk with
  | zero al rest hpc htodo =>
    refine ⟨hths _ ⟨?_, by simp [hpc]⟩, hi.2⟩
    intro r hr
    exact htr.1 r (by rw [htodo]; exact List.mem_cons_of_mem _ hr)
  | oom sz al t0 pre hsrc hc =>
    exact ⟨hths _ ⟨(src_align hsrc htr).2, trivial⟩, hi.2⟩
  | fit sz al t0 pre hsrc hc =>
    exact ⟨hths _ ⟨(src_align hsrc htr).2, (src_align hsrc htr).1⟩, hi.2⟩
  | ok sz al cur hpc hp =>
    have h2 := htr.2
    simp only [hpc] at h2
    refine ⟨hths _ ⟨htr.1, trivial⟩, ?_⟩
    intro a ha
    have ha' : a ∈ c.sh.allocs ++ [(nextFor c.sh cur al, sz, al)] := ha
    rw [List.mem_append, List.mem_singleton] at ha'
    rcases ha' with ha' | rfl
    · exact hi.2 a ha'
    · exact h2


theorem invR_init {start size : Nat} {progs : List (List (Nat × Nat))}
    (hr : ∀ p ∈ progs, ∀ r ∈ p, 1 ≤ r.2) : InvR (initCfg start size progs) := by
  refine ⟨?_, by intro a ha; simp [initCfg] at ha⟩
  intro t ht
  simp only [initCfg, List.mem_map] at ht
  obtain ⟨p, hp, rfl⟩ := ht
  exact ⟨hr p hp, trivial⟩

/-! ### the claims -/

/-- every allocation is inside the managed memory and has the requested alignment -/
theorem allocations_in_bounds_and_aligned (hr : ReqOk progs) (c : Cfg Sh Th)
    (h : Reachable sys (initCfg start size progs) c) (a : Nat × Nat × Nat) (ha : a ∈ c.sh.allocs) :
    a.1 + a.2.1 ≤ size ∧ (start + a.1) % a.2.2 = 0 ∧ 1 ≤ a.2.1 := by
  have hi := inv_reachable h
  have hR : InvR c :=
    Reachable.inv InvR (invR_init hr) (fun _ _ _ _ hi hs => invR_step hi hs) c h
  have h1 := hi.hend a ha
  have h2 := hi.hpos
  have h3 := hi.hal a ha
  exact ⟨by omega, h3.2 (hR.2 a ha), h3.1⟩

/-- no two allocations overlap, and the position is the end of the last one -/
theorem allocations_disjoint (hr : ReqOk progs) (c : Cfg Sh Th)
    (h : Reachable sys (initCfg start size progs) c) :
    c.sh.allocs.Pairwise (fun a b => a.1 + a.2.1 ≤ b.1) ∧
    (∀ a ∈ c.sh.allocs, a.1 + a.2.1 ≤ c.sh.pos) ∧ c.sh.pos ≤ size := by
  have hi := inv_reachable h
  exact ⟨hi.hpw, hi.hend, hi.hpos⟩

/-- the position never decreases -/
theorem position_monotone (c c' : Cfg Sh Th) (i : Nat) (evs : List Ev)
    (h : Reachable sys (initCfg start size progs) c) (hs : sys.stepAt c i = some (c', evs)) :
    c.sh.pos ≤ c'.sh.pos := by
  obtain ⟨t, sh', t', _, hk, rfl⟩ := stepAt_elim hs
  cases hk with
  | zero => exact Nat.le_refl _
  | oom => exact Nat.le_refl _
  | fit => exact Nat.le_refl _
  | ok sz al cur hpc hp =>
    show c.sh.pos ≤ nextFor c.sh cur al + sz
    have := alignUp_ge (c.sh.start + cur) al
    simp only [nextFor]
    omega

/-- stronger form of the next claim: the refused request `(sz, al)` is the one thread `i` is working on
(`Src`), and it fails the bound check against the position read in this very step -/
theorem out_of_memory_strong (c c' : Cfg Sh Th) (i : Nat) (evs : List Ev)
    (h : Reachable sys (initCfg start size progs) c) (hs : sys.stepAt c i = some (c', evs))
    (hoom : Ev.ret "alloc err:OutOfMemory" ∈ evs) :
    ∃ t sz al t0 pre, c.th[i]? = some t ∧ Src c.sh t sz al t0 pre ∧ evs = pre ++ [oomEv] ∧
      nextFor c.sh c.sh.pos al + sz > size ∧ 1 ≤ sz := by
  have hi := inv_reachable h
  obtain ⟨t, sh', t', hget, hk, rfl⟩ := stepAt_elim hs
  have htok := hi.hth t (List.mem_of_getElem? hget)
  have hpre : ∀ {sz al t0 pre}, Src c.sh t sz al t0 pre → Ev.ret "alloc err:OutOfMemory" ∉ pre := by
    intro sz al t0 pre hsrc
    rcases hsrc with ⟨_, _, _, _, _, rfl⟩ | ⟨_, _, rfl⟩ | ⟨_, _, _, _, rfl⟩ <;> simp
  cases hk with
  | zero al rest hpc htodo => simp at hoom
  | oom sz al t0 pre hsrc hc =>
    refine ⟨t, sz, al, t0, pre, hget, hsrc, rfl, ?_, src_size hsrc htok⟩
    rw [← hi.hsize]; exact hc
  | fit sz al t0 pre hsrc hc => exact absurd hoom (hpre hsrc)
  | ok sz al cur hpc hp =>
    simp only [List.mem_cons, List.not_mem_nil, or_false, Ev.ret.injEq] at hoom
    rcases hoom with hoom | hoom
    · cases hoom
    · exact absurd hoom (oom_ne _)

/-- a request is refused only when it really does not fit behind the position the thread last saw:
`OutOfMemory` is reported in a step whose (fresh) view `cur` of the position satisfies the bound check.
(As stated `sz`/`al` are not tied to the thread's request — see `out_of_memory_strong` for that.) -/
theorem out_of_memory_only_if_it_does_not_fit (c c' : Cfg Sh Th) (i : Nat) (evs : List Ev)
    (h : Reachable sys (initCfg start size progs) c) (hs : sys.stepAt c i = some (c', evs))
    (hoom : Ev.ret "alloc err:OutOfMemory" ∈ evs) :
    ∃ sz al, nextFor c.sh c.sh.pos al + sz > size ∧ 1 ≤ sz := by
  obtain ⟨_, sz, al, _, _, _, _, _, h1, h2⟩ := out_of_memory_strong c c' i evs h hs hoom
  exact ⟨sz, al, h1, h2⟩

/-- non-vacuity: two threads race, one loses its CAS and still gets a disjoint chunk -/
example : ∃ c : Cfg Sh Th, Reachable sys (initCfg 1 32 [[(8, 4)], [(12, 2)]]) c ∧ c.sh.allocs.length = 2 :=
  -- T0 load, T1 load, T0 CAS ok (offset 3), T1 CAS fails (found 11), T1 CAS ok (offset 11)
  ⟨_, Sys.run_reachable _ _ _ Reachable.init [0, 1, 0, 1, 1], by decide⟩



end Iox2.BumpConc.C15
