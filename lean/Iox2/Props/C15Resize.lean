/-
C15, resize part — the dynamically growing data segment
(`iceoryx2-cal/src/resizable_shared_memory/dynamic.rs`, model `Iox2.ResizeMem`).

All theorems quantify over ALL reachable states: every initial configuration (strategy, bucket
layout, number of chunks, payload base, page size, number of segment ids, number of views) and every
history of `alloc / write / dealloc / grow / view_register / view_read / view_unregister` that
respects the usage contract `OpOk` (alignments are powers of two; `grow` is applied to a chunk of
the current segment).  Where the natural statement is false in the model (and the model agrees
with the code on the differential run) the refutation is proved on a concrete history and the
strongest true variant carries the suffix `_partial`.

  (a) `live_chunk_safe`, `live_chunks_disjoint`
  (b) `other_ops_keep_live_chunk`, `live_chunk_stable`, `held_sample_survives_history` (with (c)),
      `view_reads_what_owner_wrote`
  (c) `view_registered_stays_mapped`, `view_second_sample_survives`, `view_keeps_mapping_while_owner_works`,
      `view_register_live_succeeds`, `view_unmaps_last_offset`,
      refuted: a retired segment without registered offsets is unmapped  (`view_retired_segment_may_stay_mapped`),
      `view_idle_mapping_is_current_partial`, `view_idle_mapping_unique_partial`
  (d) `alloc_error_spec`, `alloc_error_static_unchanged`, `alloc_error_no_ids_unchanged`, `view_register_error_spec`,
      refuted: a refused allocation changes nothing  (`alloc_error_may_change_state`) → `alloc_error_spec` is the `_partial`,
      refuted: an allocation of a growing segment with ids left succeeds  (`alloc_may_fail_although_growable`)
        → `alloc_succeeds_partial`
  (e) `freed_bucket_reusable`
  (f) refuted: (a) for histories that `grow` a chunk of an older segment  (`grow_of_old_segment_aliases`)
-/
import Iox2.Proof.ResizeMemFrame
import Iox2.Proof.ResizeMemGrowth

namespace Iox2.C15Resize
open Iox2.Alloc Iox2.ResizeMem

/-! ## reachable states -/
inductive Reach : St → Prop
  | init {cfg : Cfg} {size align chunks nviews : Nat} {s : St} :
      Pow2 align → create cfg size align chunks nviews = .ok s → Reach s
  | step {s : St} {op : Op} : Reach s → OpOk s op → Reach (step s op).1

/-- a history that respects the usage contract in every state it passes through -/
def HistOk : St → List Op → Prop
  | _, [] => True
  | s, op :: ops => OpOk s op ∧ HistOk (step s op).1 ops

theorem reach_inv {s : St} (h : Reach s) : Inv s := by
  induction h with
  | init hp hc => exact create_inv hp hc
  | step _ hok ih => exact step_inv ih _ hok

theorem reach_run {s : St} (h : Reach s) (ops : List Op) (hok : HistOk s ops) : Reach (run s ops) := by
  induction ops generalizing s with
  | nil => exact h
  | cons op ops ih => exact ih (Reach.step h hok.1) hok.2

/-! ## (a) every live allocation is inside its segment, aligned, large enough, and disjoint from every other -/

/-- **(a)** a live chunk lies in a bucket of an existing segment: the whole bucket is inside the payload
`[ptr, ptr + size)` of that segment, the bucket is at least as large as the request, and its address
(`start` = first bucket, the payload start aligned up) satisfies the requested alignment -/
theorem live_chunk_safe {s : St} (hr : Reach s) {c : Chunk} (hc : c ∈ s.chunks) (hl : c.live = true) :
    ∃ g, g ∈ s.segs ∧ g.id = c.seg ∧
      g.pool.p.ptr ≤ g.pool.p.start + c.off ∧
      g.pool.p.start + c.off + g.stride ≤ g.pool.p.ptr + g.pool.p.size ∧
      c.size ≤ g.stride ∧
      (g.pool.p.start + c.off) % c.align = 0 := by
  have hinv := (reach_inv hr).mem
  obtain ⟨g, hg, i, h1, h2, _, h4, h5, h6⟩ := hinv.chunks_ok c hc hl
  obtain ⟨hgm, hgid⟩ := getSeg_some hg
  have hgok := hinv.segs_ok g hgm
  have hb := Iox2.C15.pool_in_bounds g.pool.p hgok.wf i h2
  have ha := Iox2.C15.pool_aligned_request g.pool.p hgok.wf i c.align (Pow2.dvd_of_le h5 hgok.align_pow2 h6)
  have haddr : g.pool.p.start + c.off = g.pool.p.addr i := by rw [h1]; rfl
  refine ⟨g, hgm, hgid, ?_, ?_, h4, ?_⟩
  · rw [haddr]; exact hb.1
  · rw [haddr]; exact hb.2
  · rw [haddr]; exact ha

/-- **(a)** two different live chunks never overlap: they are in different segments or in different
buckets of the same segment -/
theorem live_chunks_disjoint {s : St} (hr : Reach s) {a b : Chunk} (ha : a ∈ s.chunks) (hb : b ∈ s.chunks)
    (hal : a.live = true) (hbl : b.live = true) (hne : a.label ≠ b.label) :
    a.seg ≠ b.seg ∨
    ∃ g, getSeg s.segs a.seg = some g ∧ a.size ≤ g.stride ∧ b.size ≤ g.stride ∧
      (a.off + g.stride ≤ b.off ∨ b.off + g.stride ≤ a.off) := by
  by_cases hseg : a.seg = b.seg
  · exact Or.inr (buckets_disjoint (reach_inv hr).mem ha hb hal hbl hne hseg)
  · exact Or.inl hseg

/-! ## (b) growth (and every other operation) never moves, releases or overwrites a live chunk -/

/-- **(b)** any operation that does not work on the chunk itself — in particular an `alloc` or `grow` of
another chunk that makes the segment grow — leaves the record `(segment, offset, size)` of a live chunk
as it is, keeps its segment alive on the owner's side, and does not change one byte of it -/
theorem other_ops_keep_live_chunk {s : St} (hr : Reach s) (op : Op) (hok : OpOk s op) {x : Chunk}
    (hx : x ∈ s.chunks) (hxl : x.live = true) (hne : op.target ≠ some x.label) :
    x ∈ (step s op).1.chunks ∧
    (∃ g, getSeg (step s op).1.segs x.seg = some g) ∧
    ∀ o, x.off ≤ o → o < x.off + x.size → (step s op).1.mem x.seg o = s.mem x.seg o := by
  have hinv := reach_inv hr
  have hx' := step_keeps_chunk hinv op hok hx hne
  refine ⟨hx', ?_, step_keeps_bytes hinv op hok hx hxl hne⟩
  obtain ⟨g, hg, _⟩ := (step_inv hinv op hok).mem.chunks_ok x hx' hxl
  exact ⟨g, hg⟩

/-- **(b)**, whole histories: as long as the chunk is not written, released or grown itself, nothing a
history does (any number of growths included) moves, releases or alters it -/
theorem live_chunk_stable {s : St} (hr : Reach s) (ops : List Op) (hok : HistOk s ops) {x : Chunk}
    (hx : x ∈ s.chunks) (hxl : x.live = true) (hne : ∀ op ∈ ops, op.target ≠ some x.label) :
    x ∈ (run s ops).chunks ∧
    (∃ g, getSeg (run s ops).segs x.seg = some g) ∧
    ∀ o, x.off ≤ o → o < x.off + x.size → (run s ops).mem x.seg o = s.mem x.seg o := by
  induction ops generalizing s with
  | nil =>
    obtain ⟨g, hg, _⟩ := (reach_inv hr).mem.chunks_ok x hx hxl
    exact ⟨hx, ⟨g, hg⟩, fun _ _ _ => rfl⟩
  | cons op ops ih =>
    obtain ⟨h1, _, h3⟩ := other_ops_keep_live_chunk hr op hok.1 hx hxl (hne op List.mem_cons_self)
    obtain ⟨k1, k2, k3⟩ := ih (Reach.step hr hok.1) hok.2 h1 (fun o ho => hne o (List.mem_cons_of_mem _ ho))
    exact ⟨k1, k2, fun o ho1 ho2 => (k3 o ho1 ho2).trans (h3 o ho1 ho2)⟩

/-! ## (c) the view side -/

/-- **(c)** a segment stays mapped in a view as long as one offset registered from it has not been
unregistered -/
theorem view_registered_stays_mapped {s : St} (hr : Reach s) {vw : View} (hv : vw ∈ s.views) {r : Reg}
    (hreg : r ∈ vw.regs) : ∃ x ∈ vw.segs, x.id = r.seg :=
  ((reach_inv hr).views vw hv).mapped r hreg

theorem find_reg_of_mem {regs : List Reg} (hnd : (regs.map (·.label)).Nodup) {r : Reg} (hr : r ∈ regs) :
    regs.find? (fun x => decide (x.label = r.label)) = some r := by
  induction regs with
  | nil => cases hr
  | cons x xs ih =>
    simp only [List.map_cons, List.nodup_cons] at hnd
    rw [List.find?_cons]
    rcases List.mem_cons.mp hr with rfl | hr'
    · simp
    · have hne : x.label ≠ r.label := by
        intro he
        exact hnd.1 (he ▸ List.mem_map.mpr ⟨r, hr', rfl⟩)
      simp only [hne, decide_false]
      exact ih hnd.2 hr'

/-- **(c)** the second of two samples stays valid when the first is released — also when both come from
the same, old segment: it is still registered, its segment is still mapped, and it still reads the
same byte -/
theorem view_second_sample_survives {s : St} (hr : Reach s) {v : Nat} {vw : View} (hv : s.views[v]? = some vw)
    {r1 r2 : Reg} (h1 : r1 ∈ vw.regs) (h2 : r2 ∈ vw.regs) (hne : r1.label ≠ r2.label) :
    ∃ vw', (step s (.vunreg v r1.label)).1.views[v]? = some vw' ∧ r2 ∈ vw'.regs ∧
      (∃ x ∈ vw'.segs, x.id = r2.seg) ∧
      (step (step s (.vunreg v r1.label)).1 (.vread v r2.label)).2 = .okByte (s.mem r2.seg r2.off) := by
  have hinv := reach_inv hr
  have hvw := hinv.views vw (List.mem_of_getElem? hv)
  have hr' : Reach (step s (.vunreg v r1.label)).1 := Reach.step hr trivial
  have hlt : v < s.views.length := by
    rcases Nat.lt_or_ge v s.views.length with h | h
    · exact h
    · rw [List.getElem?_eq_none h] at hv; cases hv
  -- the state after unregistering r1
  have hs' : (step s (.vunreg v r1.label)).1 =
      { s with views := s.views.set v ((vw.unregister r1.seg).delReg r1.label) } := by
    simp only [step, hv, find_reg_of_mem hvw.labels h1]
  rw [hs'] at hr' ⊢
  have hget : ({ s with views := s.views.set v ((vw.unregister r1.seg).delReg r1.label) } : St).views[v]? =
      some ((vw.unregister r1.seg).delReg r1.label) := by
    simp only [List.getElem?_set, hlt, if_true]
  have hmem2 : r2 ∈ ((vw.unregister r1.seg).delReg r1.label).regs := by
    simp only [View.delReg, View.unregister_regs]
    exact List.mem_filter.mpr ⟨h2, by simpa using fun h => hne h.symm⟩
  have hvw' := (reach_inv hr').views _ (List.mem_of_getElem? hget)
  refine ⟨_, hget, hmem2, hvw'.mapped r2 hmem2, ?_⟩
  simp only [step, hget, find_reg_of_mem hvw'.labels hmem2]

/-- **(c)** whatever the owner does (allocate, grow the segment any number of times, release other
chunks …) does not touch the mappings and registrations of any view -/
theorem view_keeps_mapping_while_owner_works {s : St} (hr : Reach s) (op : Op) (hok : OpOk s op)
    (ht : op.target ≠ none) : (step s op).1.views = s.views :=
  step_owner_keeps_views (reach_inv hr) op hok ht

/-- a registered offset stays registered (in the same view) under every operation except its own
`view_unregister` -/
theorem step_keeps_reg {s : St} (hr : Reach s) (op : Op) (hok : OpOk s op) {v : Nat} {vw : View}
    (hv : s.views[v]? = some vw) {r : Reg} (hreg : r ∈ vw.regs) (hop : op ≠ .vunreg v r.label) :
    ∃ vw', (step s op).1.views[v]? = some vw' ∧ r ∈ vw'.regs := by
  have hinv := reach_inv hr
  have hlt : v < s.views.length := by
    rcases Nat.lt_or_ge v s.views.length with h | h
    · exact h
    · rw [List.getElem?_eq_none h] at hv; cases hv
  by_cases ht : op.target ≠ none
  · rw [view_keeps_mapping_while_owner_works hr op hok ht]
    exact ⟨vw, hv, hreg⟩
  · cases op with
    | alloc l size align => simp [Op.target] at ht
    | write l b => simp [Op.target] at ht
    | dealloc l => simp [Op.target] at ht
    | grow l size align pl => simp [Op.target] at ht
    | segments => exact ⟨vw, hv, hreg⟩
    | vsegments v' =>
      simp only [step]
      cases hv' : s.views[v']? <;> exact ⟨vw, hv, hreg⟩
    | vread v' l =>
      simp only [step]
      cases hv' : s.views[v']? with
      | none => exact ⟨vw, hv, hreg⟩
      | some vw2 =>
        simp only
        cases hf : vw2.regs.find? (fun r => decide (r.label = l)) <;> exact ⟨vw, hv, hreg⟩
    | vreg v' l =>
      simp only [step]
      cases hv' : s.views[v']? with
      | none => exact ⟨vw, hv, hreg⟩
      | some vw2 =>
        simp only
        split
        · exact ⟨vw, hv, hreg⟩
        · cases hc : getChunk s.chunks l with
          | none => exact ⟨vw, hv, hreg⟩
          | some c =>
            simp only
            cases hrg : vw2.register (getSeg s.segs c.seg).isSome c.seg with
            | none => exact ⟨vw, hv, hreg⟩
            | some vw3 =>
              simp only
              by_cases hvv : v' = v
              · subst hvv
                rw [hv] at hv'
                have := (Option.some.inj hv').symm
                subst this
                refine ⟨vw3.addReg ⟨l, c.seg, c.off⟩, by simp only [List.getElem?_set, hlt, if_true], ?_⟩
                simp only [View.addReg, View.register_regs hrg]
                exact List.mem_cons_of_mem _ hreg
              · exact ⟨vw, by simp only [List.getElem?_set, hvv, if_false]; exact hv, hreg⟩
    | vunreg v' l =>
      simp only [step]
      cases hv' : s.views[v']? with
      | none => exact ⟨vw, hv, hreg⟩
      | some vw2 =>
        simp only
        cases hf : vw2.regs.find? (fun r => decide (r.label = l)) with
        | none => exact ⟨vw, hv, hreg⟩
        | some r2 =>
          simp only
          by_cases hvv : v' = v
          · subst hvv
            rw [hv] at hv'
            have := (Option.some.inj hv').symm
            subst this
            refine ⟨(vw2.unregister r2.seg).delReg l, by simp only [List.getElem?_set, hlt, if_true], ?_⟩
            simp only [View.delReg, View.unregister_regs]
            refine List.mem_filter.mpr ⟨hreg, ?_⟩
            have : r.label ≠ l := fun h => hop (by rw [h])
            simpa using this
          · exact ⟨vw, by simp only [List.getElem?_set, hvv, if_false]; exact hv, hreg⟩

/-- **(b)+(c), the subscriber's view of it**: a sample that a view holds (the offset of a live chunk,
registered) stays registered, mapped and readable with unchanged content through EVERY history —
any number of growths, releases of other chunks (old segments retiring), registrations and releases of
other samples — until the view unregisters it or the owner writes / releases / grows this very chunk -/
theorem held_sample_survives_history {s : St} (hr : Reach s) (ops : List Op) (hok : HistOk s ops)
    {x : Chunk} (hx : x ∈ s.chunks) (hxl : x.live = true) (hsz : 0 < x.size)
    {v : Nat} {vw : View} (hv : s.views[v]? = some vw) (hreg : (⟨x.label, x.seg, x.off⟩ : Reg) ∈ vw.regs)
    (hne : ∀ op ∈ ops, op.target ≠ some x.label ∧ op ≠ .vunreg v x.label) :
    (∃ vw', (run s ops).views[v]? = some vw' ∧ (∃ y ∈ vw'.segs, y.id = x.seg)) ∧
    (step (run s ops) (.vread v x.label)).2 = .okByte (s.mem x.seg x.off) := by
  induction ops generalizing s vw with
  | nil =>
    have hvw := (reach_inv hr).views vw (List.mem_of_getElem? hv)
    refine ⟨⟨vw, hv, hvw.mapped _ hreg⟩, ?_⟩
    have := find_reg_of_mem hvw.labels hreg
    simp only [run, step, hv, this]
  | cons op ops ih =>
    obtain ⟨h1, _, h3⟩ := other_ops_keep_live_chunk hr op hok.1 hx hxl (hne op List.mem_cons_self).1
    obtain ⟨vw', hv', hreg'⟩ := step_keeps_reg hr op hok.1 hv hreg (hne op List.mem_cons_self).2
    have := ih (Reach.step hr hok.1) hok.2 h1 hv' hreg' (fun o ho => hne o (List.mem_cons_of_mem _ ho))
    refine ⟨this.1, ?_⟩
    rw [show run s (op :: ops) = run (step s op).1 ops from rfl, this.2, h3 x.off (Nat.le_refl _) (by omega)]

/-- the bytes a view reads are the bytes the owner wrote -/
theorem view_reads_what_owner_wrote {s : St} (hr : Reach s) {l b : Nat} {c : Chunk}
    (hl : liveChunk s l = some c) (hnt : c.tainted = false) (hsz : 0 < c.size)
    {v : Nat} {vw : View} (hv : s.views[v]? = some vw) (hreg : (⟨l, c.seg, c.off⟩ : Reg) ∈ vw.regs) :
    (step (step s (.write l b)).1 (.vread v l)).2 = .okByte b := by
  have hvw := (reach_inv hr).views vw (List.mem_of_getElem? hv)
  have : vw.regs.find? (fun x => decide (x.label = l)) = some ⟨l, c.seg, c.off⟩ :=
    find_reg_of_mem hvw.labels hreg
  simp only [step, hl, hnt]
  simp [hv, this, fillMem, hsz]

/-- **(c)/(d)** registering the offset of a live chunk always succeeds (its segment can be opened) -/
theorem view_register_live_succeeds {s : St} (hr : Reach s) {v l : Nat} {vw : View} {c : Chunk}
    (hv : s.views[v]? = some vw) (hc : getChunk s.chunks l = some c) (hl : c.live = true)
    (hfresh : ∀ r ∈ vw.regs, r.label ≠ l) : (step s (.vreg v l)).2 = .ok := by
  have hinv := reach_inv hr
  obtain ⟨g, hg, _⟩ := hinv.mem.chunks_ok c (getChunk_some hc).1 hl
  have hany : vw.regs.any (fun r => decide (r.label = l)) = false := by
    rw [Bool.eq_false_iff]
    intro h
    simp only [List.any_eq_true, decide_eq_true_eq] at h
    obtain ⟨r, hr1, hr2⟩ := h
    exact hfresh r hr1 hr2
  simp only [step, hv, hany, hc, hg, Option.isSome_some]
  cases hreg : vw.register true c.seg with
  | none =>
    have := (View.register_eq_none_iff vw true c.seg).mp hreg
    cases this.1
  | some vw' => rfl

/-- **(c)** no leak of mappings, part 1: unregistering the last offset of a segment that is not the most
recently mapped one unmaps it -/
theorem view_unmaps_last_offset {s : St} (hr : Reach s) {vw : View} (hv : vw ∈ s.views) {r : Reg}
    (hreg : r ∈ vw.regs) (hlast : ∀ r' ∈ vw.regs, r'.seg = r.seg → r' = r) (hcur : vw.cur ≠ some r.seg) :
    ∀ x ∈ ((vw.unregister r.seg).delReg r.label).segs, x.id ≠ r.seg :=
  View.unregister_unmaps ((reach_inv hr).views vw hv) hreg hlast hcur

/- The natural statement "a segment that the owner has released and from which the view holds no
offset is not mapped in the view" is FALSE: the view keeps its most recently mapped segment
(`current_idx`) even when nothing is registered from it, until it maps another segment. -/
def mk (cfg : Cfg) (size align chunks : Nat) : St :=
  match create cfg size align chunks 2 with
  | .ok s => s
  | .error _ => { cfg := cfg, segs := [], cur := 0, chunks := [], views := [], mem := fun _ _ => 0 }

set_option maxRecDepth 100000 in
/-- refutation: after `alloc 0; view_register 0 0; view_unregister 0 0; dealloc 0; alloc 1 (larger)`
segment 0 is gone on the owner's side, view 0 holds no offset, and still maps segment 0 -/
theorem view_retired_segment_may_stay_mapped :
    let s := run (mk { strategy := .bestFit } 8 8 1)
      [.alloc 0 8 8, .vreg 0 0, .vunreg 0 0, .dealloc 0, .alloc 1 24 8]
    (getSeg s.segs 0).isSome = false ∧ s.views.map (·.regs) = [[], []] ∧
      s.views.map (·.segs) = [[⟨0, 0⟩], []] := by decide

/-- **(c)** no leak of mappings, part 2 (`_partial`): a mapped segment from which no offset is registered
is the view's most recently mapped segment … -/
theorem view_idle_mapping_is_current_partial {s : St} (hr : Reach s) {vw : View} (hv : vw ∈ s.views)
    {x : VSeg} (hx : x ∈ vw.segs) (hidle : ∀ r ∈ vw.regs, r.seg ≠ x.id) : vw.cur = some x.id :=
  ((reach_inv hr).views vw hv).idle_is_current hx hidle

/-- … so a view never holds more than ONE mapping without a registered offset -/
theorem view_idle_mapping_unique_partial {s : St} (hr : Reach s) {vw : View} (hv : vw ∈ s.views)
    {x y : VSeg} (hx : x ∈ vw.segs) (hy : y ∈ vw.segs)
    (hix : ∀ r ∈ vw.regs, r.seg ≠ x.id) (hiy : ∀ r ∈ vw.regs, r.seg ≠ y.id) : x = y :=
  ((reach_inv hr).views vw hv).idle_unique hx hy hix hiy

/-! ## (d) a request that cannot be satisfied returns the documented error -/

/-- **(d)** (`_partial` of "… and changes nothing"): a refused allocation reports `OutOfMemory`, and keeps
every chunk record, every byte and every view; by (b) no live chunk loses its segment -/
theorem alloc_error_spec {s : St} (hr : Reach s) {l size align : Nat} (hp : Pow2 align) {e : Err}
    (h : (step s (.alloc l size align)).2 = .err e) :
    e = .oom ∧ (step s (.alloc l size align)).1.chunks = s.chunks ∧
      (step s (.alloc l size align)).1.mem = s.mem ∧ (step s (.alloc l size align)).1.views = s.views := by
  have hinv := reach_inv hr
  simp only [step] at h ⊢
  cases hl : liveChunk s l with
  | some c => simp [hl] at h
  | none =>
    simp only [hl] at h ⊢
    obtain ⟨s1, _, h2, h3, h4, _, _, _, h8⟩ := allocate_spec s size align hinv.mem hp
    rcases h8 with h8 | ⟨g, g', off, _, _, h8⟩
    · rw [h8] at h ⊢
      simp only [Out.err.injEq] at h
      exact ⟨h.symm, h2, h3, h4⟩
    · rw [h8] at h; simp at h

theorem allocLoop_fail_fast {s : St} {g : Seg} (hg : getSeg s.segs s.cur = some g) {size align : Nat}
    {e : AllocErr} (ha : (g.allocate size align).2 = .error e)
    (hstop : s.cfg.strategy = .static ∨ ¬ s.cur + 1 < s.cfg.maxSegs) (fuel : Nat) :
    allocLoop (fuel + 1) s size align = (s, .error .oom) := by
  unfold allocLoop
  rw [hg]
  simp only
  cases hga : g.allocate size align with
  | mk g' r =>
    rw [hga] at ha
    simp only at ha
    subst ha
    simp only
    rcases hstop with hst | hids
    · simp [hst]
    · by_cases hst : s.cfg.strategy = .static
      · simp [hst]
      · simp only [hst, if_false]
        have : createResized s g size align = none := by
          unfold createResized
          simp only [hids, if_false]
        rw [this]

/-- **(d)** with the static strategy a refused allocation changes nothing at all -/
theorem alloc_error_static_unchanged {s : St} (hr : Reach s) {l size align : Nat} {e : Err}
    (hst : s.cfg.strategy = .static) (h : (step s (.alloc l size align)).2 = .err e) :
    (step s (.alloc l size align)).1 = s := by
  have hinv := reach_inv hr
  simp only [step] at h ⊢
  cases hl : liveChunk s l with
  | some c => rfl
  | none =>
    simp only [hl] at h ⊢
    obtain ⟨g, hg⟩ := hinv.mem.cur_in
    cases hga : g.allocate size align with
    | mk g' r =>
      cases r with
      | error ae =>
        have := allocLoop_fail_fast hg (by rw [hga]) (Or.inl hst) s.cfg.maxSegs
        unfold allocate
        rw [this]
      | ok off =>
        have : allocate s size align =
            ({ s with segs := setSeg s.segs { g' with count := g'.count + 1 } }, .ok (s.cur, off)) := by
          unfold allocate allocLoop
          rw [hg]; simp only [hga]
        rw [this] at h
        simp at h

/-- **(d)** when the segment ids are used up a refused allocation changes nothing at all -/
theorem alloc_error_no_ids_unchanged {s : St} (hr : Reach s) {l size align : Nat} {e : Err}
    (hids : ¬ s.cur + 1 < s.cfg.maxSegs) (h : (step s (.alloc l size align)).2 = .err e) :
    (step s (.alloc l size align)).1 = s := by
  have hinv := reach_inv hr
  simp only [step] at h ⊢
  cases hl : liveChunk s l with
  | some c => rfl
  | none =>
    simp only [hl] at h ⊢
    obtain ⟨g, hg⟩ := hinv.mem.cur_in
    cases hga : g.allocate size align with
    | mk g' r =>
      cases r with
      | error ae =>
        have := allocLoop_fail_fast hg (by rw [hga]) (Or.inr hids) s.cfg.maxSegs
        unfold allocate
        rw [this]
      | ok off =>
        have : allocate s size align =
            ({ s with segs := setSeg s.segs { g' with count := g'.count + 1 } }, .ok (s.cur, off)) := by
          unfold allocate allocLoop
          rw [hg]; simp only [hga]
        rw [this] at h
        simp at h

set_option maxRecDepth 100000 in
/-- refutation of "a refused allocation changes nothing": with a bucket alignment of 16 (payload start
at 136 ≡ 8 mod 16) the one-bucket segment loses its bucket to the alignment padding; `allocate` walks
through all segment ids, fails, and leaves the owner at the last id -/
theorem alloc_error_may_change_state :
    let s := mk { strategy := .bestFit, maxSegs := 4 } 16 16 1
    (step s (.alloc 0 16 16)).2 = .err .oom ∧ (step s (.alloc 0 16 16)).1.cur = 3 ∧ s.cur = 0 := by decide

/-- **(d)** a view reports exactly `DoesNotExist`, only for an offset whose segment the owner has released
(so its chunk is not live, see `view_register_live_succeeds`), and changes nothing -/
theorem view_register_error_spec {s : St} {v l : Nat} {e : Err} (h : (step s (.vreg v l)).2 = .err e) :
    e = .doesNotExist ∧ (step s (.vreg v l)).1 = s ∧
      ∃ c, getChunk s.chunks l = some c ∧ getSeg s.segs c.seg = none := by
  simp only [step] at h ⊢
  cases hv : s.views[v]? with
  | none => simp [hv] at h
  | some vw =>
    simp only [hv] at h ⊢
    split at h
    · simp at h
    · rename_i hany
      simp only [hany]
      cases hc : getChunk s.chunks l with
      | none => simp [hc] at h
      | some c =>
        simp only [hc] at h ⊢
        cases hreg : vw.register (getSeg s.segs c.seg).isSome c.seg with
        | some vw' => simp [hreg] at h
        | none =>
          simp only [hreg] at h ⊢
          have := (View.register_eq_none_iff vw _ c.seg).mp hreg
          refine ⟨by simpa using h.symm, by simp, c, rfl, ?_⟩
          cases hg : getSeg s.segs c.seg with
          | none => rfl
          | some g => rw [hg] at this; simp at this

set_option maxRecDepth 1000000 in
/-- refutation of "an allocation of a growing segment succeeds while segment ids are left": the real
configuration (256 ids, payload base 136), one bucket of layout (16, 16), first allocation -/
theorem alloc_may_fail_although_growable :
    let s := mk { strategy := .bestFit } 16 16 1
    s.cur + 1 < s.cfg.maxSegs ∧ (step s (.alloc 0 16 16)).2 = .err .oom := by decide

/-- **(d)** (`_partial`): an allocation of a growing segment succeeds while a segment id is left, provided the
payload of the new segment starts aligned to its bucket alignment (then no bucket is lost to padding)
and the alignment is supported -/
theorem alloc_succeeds_partial {s : St} (hr : Reach s) {l size align : Nat} (hp : Pow2 align)
    (hdyn : s.cfg.strategy ≠ .static) (hids : s.cur + 1 < s.cfg.maxSegs)
    (hfresh : liveChunk s l = none) (hpad : NoPadding s size align) :
    ∃ seg off, (step s (.alloc l size align)).2 = .okAt seg off :=
  alloc_succeeds_of_noPadding (reach_inv hr) hp hdyn hids hfresh hpad

/-! ## (e) freed buckets are reusable -/

/-- **(e)** after a chunk of the current segment is released, the next fitting request gets exactly this
bucket again, without a new segment -/
theorem freed_bucket_reusable {s : St} (hr : Reach s) {l l2 size align : Nat} {c : Chunk}
    (hl : liveChunk s l = some c) (hnt : c.tainted = false) (hcur : c.seg = s.cur)
    (hfresh : liveChunk (step s (.dealloc l)).1 l2 = none)
    (hfit : ∀ g, getSeg s.segs s.cur = some g → size ≤ g.stride ∧ align ≤ g.balign) :
    (step (step s (.dealloc l)).1 (.alloc l2 size align)).2 = .okAt c.seg c.off ∧
      (step (step s (.dealloc l)).1 (.alloc l2 size align)).1.segs.length = s.segs.length := by
  have hinv := reach_inv hr
  obtain ⟨hcm, _, hlive⟩ := liveChunk_some hl
  obtain ⟨g, hg, i, hoff, _, _, _, _, _⟩ := hinv.mem.chunks_ok c hcm hlive
  obtain ⟨hgm, hgid⟩ := getSeg_some hg
  have hgok := hinv.mem.segs_ok g hgm
  rw [hcur] at hg
  obtain ⟨hsz, hal⟩ := hfit g hg
  -- the state after the release
  have hs1 : (step s (.dealloc l)).1 =
      { (deallocate s c.seg c.off) with chunks := putChunk (deallocate s c.seg c.off).chunks { c with live := false } } := by
    simp only [step, hl, hnt]
    simp
  rw [hs1] at hfresh ⊢
  generalize hs1' : ({ (deallocate s c.seg c.off) with chunks := putChunk (deallocate s c.seg c.off).chunks { c with live := false } } : St) = s1 at hfresh ⊢
  have hsegs : s1.segs = setSeg s.segs { g.deallocate c.off with count := g.count - 1 } := by
    subst hs1'
    simp only [deallocate_segs]
    unfold deallocSegs
    rw [hcur, hg]
    simp
  have hcur1 : s1.cur = s.cur := by subst hs1'; simp only [deallocate_frame]
  have hcfg1 : s1.cfg = s.cfg := by subst hs1'; simp only [deallocate_frame]
  have hg1 : getSeg s1.segs s1.cur = some { g.deallocate c.off with count := g.count - 1 } := by
    rw [hsegs, hcur1, getSeg_setSeg]
    have : s.cur = g.id := by rw [hgid, hcur]
    have hg' : getSeg s.segs g.id = some g := by rw [← this]; exact hg
    simp [Seg.deallocate, this, hg']
  have hfree : ({ g.deallocate c.off with count := g.count - 1 } : Seg).pool.free = i :: g.pool.free := by
    simp only; rw [hoff]; exact Seg.deallocate_free g hgok.wf i
  have halloc := Seg.allocate_ok_of (g := { g.deallocate c.off with count := g.count - 1 }) (size := size)
    (align := align) hfree (by exact hsz) (by exact hal)
  have hloop : allocate s1 size align =
      ({ s1 with segs := setSeg s1.segs { ({ ({ g.deallocate c.off with count := g.count - 1 } : Seg) with pool := { ({ g.deallocate c.off with count := g.count - 1 } : Seg).pool with free := g.pool.free }, used := ({ g.deallocate c.off with count := g.count - 1 } : Seg).used + 1 } : Seg) with count := ({ g.deallocate c.off with count := g.count - 1 } : Seg).count + 1 } },
        .ok (s1.cur, i * g.stride)) := by
    unfold allocate allocLoop
    rw [hg1]
    simp only [halloc]
    rfl
  simp only [step, hfresh, hloop]
  refine ⟨by rw [hcur1, hcur, hoff], ?_⟩
  rw [setSeg_length, hsegs, setSeg_length]

/-! ## (f) `grow` of a chunk of an OLDER segment: refutation of (a) without the usage contract -/

set_option maxRecDepth 100000 in
/-- `DynamicMemory::grow` asks the allocator of the CURRENT segment to grow a chunk in place even when the
chunk lives in an older segment: `new bestfit 16 8 2; alloc 0 16 8; alloc 1 100 8` (growth to segment 1,
chunk 1 at offset 0); `grow 0 64 8` fits the bucket of segment 1 and returns `(segment 1, offset 0)` —
the very bucket of the live chunk 1, never allocated for chunk 0, and without the content of chunk 0 -/
theorem grow_of_old_segment_aliases :
    let s0 := mk { strategy := .bestFit } 16 8 2
    let ops := [Op.alloc 0 16 8, .write 0 7, .alloc 1 100 8, .write 1 9, .grow 0 64 8 .front]
    outs s0 ops = [.okAt 0 0, .ok, .okAt 1 0, .ok, .okAt 1 0] ∧
    ((run s0 ops).chunks.filter (·.live)).map (fun c => (c.label, c.seg, c.off)) = [(0, 1, 0), (1, 1, 0)] ∧
    (run s0 ops).mem 1 0 = 9 := by decide

/-! ## non-vacuity -/

set_option maxRecDepth 100000 in
/-- two growths while view 0 holds samples of the first segment across both; the second sample of the old
segment stays readable when the first is released, then the old segment is unmapped with its last sample -/
example :
    outs (mk { strategy := .bestFit } 8 8 2)
      [.alloc 0 8 8, .write 0 11, .alloc 1 8 8, .write 1 22, .vreg 0 0, .vreg 0 1,
       .alloc 2 24 8, .segments, .vreg 0 2, .alloc 3 100 8, .segments, .vreg 0 3, .vsegments 0,
       .vread 0 0, .vunreg 0 0, .vread 0 1, .vsegments 0, .dealloc 0, .segments,
       .vunreg 0 1, .vsegments 0, .dealloc 1, .segments] =
      [.okAt 0 0, .ok, .okAt 0 8, .ok, .ok, .ok,
       .okAt 1 0, .num 2, .ok, .okAt 2 0, .num 3, .ok, .num 3,
       .okByte 11, .ok, .okByte 22, .num 3, .ok, .num 3,
       .ok, .num 2, .ok, .num 2] := by decide

set_option maxRecDepth 100000 in
/-- the same history is a history in the sense of the theorems (it respects the contract) -/
example : Reach (run (mk { strategy := .powerOfTwo } 8 8 2)
    [.alloc 0 8 8, .write 0 11, .vreg 0 0, .alloc 1 8 8, .alloc 2 24 8, .alloc 3 100 8, .vunreg 0 0, .dealloc 0]) := by
  refine reach_run (Reach.init (cfg := { strategy := .powerOfTwo }) (size := 8) (align := 8) (chunks := 2) (nviews := 2) ⟨3, rfl⟩ rfl) _ ?_
  exact ⟨⟨3, rfl⟩, trivial, trivial, ⟨3, rfl⟩, ⟨3, rfl⟩, ⟨3, rfl⟩, trivial, trivial, trivial⟩

set_option maxRecDepth 100000 in
/-- errors that occur: static segment full; ids used up; alignment above the page size; stale offset -/
example :
    outs (mk { strategy := .static } 8 8 1) [.alloc 0 8 8, .alloc 1 8 8, .alloc 2 9 8, .segments] =
      [.okAt 0 0, .err .oom, .err .oom, .num 1] ∧
    outs (mk { strategy := .bestFit, maxSegs := 2 } 8 8 1) [.alloc 0 8 8, .alloc 1 8 8, .alloc 2 8 8, .alloc 3 8 8, .segments] =
      [.okAt 0 0, .okAt 1 0, .okAt 1 8, .err .oom, .num 2] ∧
    outs (mk { strategy := .bestFit } 8 8 1) [.alloc 0 8 8192, .segments] = [.err .oom, .num 1] ∧
    outs (mk { strategy := .bestFit } 8 8 1) [.alloc 0 8 8, .dealloc 0, .alloc 1 24 8, .vreg 0 0] =
      [.okAt 0 0, .ok, .okAt 1 0, .err .doesNotExist] := by decide

set_option maxRecDepth 100000 in
/-- (e): the freed bucket is handed out again -/
example :
    outs (mk { strategy := .bestFit } 8 8 2) [.alloc 0 8 8, .alloc 1 8 8, .dealloc 0, .alloc 2 5 4, .segments] =
      [.okAt 0 0, .okAt 0 8, .ok, .okAt 0 0, .num 1] := by decide

end Iox2.C15Resize
