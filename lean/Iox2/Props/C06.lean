/-
C06 — Service creation is atomic and its lifetime follows its users.   Part A: API-call level.

Model: Iox2/Model/ServiceLife.lean (L1: one public API call = one atomic step; create / open /
open_or_create / drop of port factories and ports of all four messaging patterns, 1..n nodes).
Invariant: Iox2/Proof/ServiceLifeInv*.lean; single-call facts: Iox2/Proof/ServiceLifeBasic.lean.
Every theorem quantifies over every world reachable from the empty one by ANY history of API calls
(`Reachable`), or over all worlds where no invariant is needed.

(a) at most one creation per incarnation
      one_incarnation_per_name, second_create_refused, second_create_already_exists, create_ok_fresh
(b) open sees exactly the creator's settings; which error is reported
      open_returns_creator_settings, ooc_returns_settings, open_outcome, open_ok_iff, open_missing,
      verify_reports_first_failing_check, first_failing_requirement, failed_call_unchanged,
      settings_immutable
(c) lifetime = users
      service_exists_iff_user, tag_iff_user, registered_iff_user, never_earlier, never_later,
      end_leaves_nothing
(d) re-creation with other settings
      recreate_after_removal, open_after_recreate_sees_new_settings
(e) every call ends with a service or a documented error (incl. the errors of a service resource that is
    refused after the static config was written: `lateFails`; by `failed_call_unchanged` nothing stays behind)
      create_outcome_documented, clamped_create_never_panics, open_outcome_documented,
      ooc_outcome_documented
    (Before fix 0c61d51 the publish-subscribe builders of slice payloads — all language bindings — skipped
     `adjust_configuration_to_meaningful_values` and max_publishers / max_subscribers / max_nodes = 0 ended in a
     fatal panic; the statements were then only provable as `_partial`, see notes/C06-design.md §4.)
Part B (step-level concurrency of creation) is in Iox2/Props/C06Conc.lean.
-/
import Iox2.Proof.ServiceLifeInv
import Iox2.Proof.ServiceLifeBasic

namespace Iox2.C06
open Iox2.ServiceLife

attribute [-simp] List.getD_eq_getElem?_getD

/-- a user of service `k`: a live ServiceState, i.e. a port factory or a port created from one -/
def userOf (w : World) (k : Key) : Prop :=
  ∃ st ∈ w.states, st.key = k ∧ (st.factory.isSome ∨ st.ports ≠ [])

/-! ## (a) at most one creation -/

/-- at any time there is at most one incarnation of a (name, pattern) -/
theorem one_incarnation_per_name {w : World} (hr : Reachable w) : (w.svcs.map (·.key)).Nodup :=
  (reachable_inv hr).keysNodup

/-- creating a service that exists never succeeds and changes nothing -/
theorem second_create_refused (w : World) (n s h : Nat) (p : Pat) (r : Req)
    (hex : (findSvc w ⟨s, p⟩).isSome) :
    (step w (.create n s h p r)).2.isOk = false ∧ (step w (.create n s h p r)).1 = w := by
  have hno : (step w (.create n s h p r)).2.isOk = false := by
    simp only [step]
    by_cases hl : labelUsed w h = true
    · simp [hl, Out.isOk]
    · by_cases hn : hasNode w n = true
      · simp only [hl, hn]
        simp only [Bool.not_true, Bool.false_eq_true, if_false]
        rw [createCore_out]
        cases hp : preCheck p r (mkSettings p r).vals with
        | some e => simp [Out.isOk]
        | none => simp [hex, Out.isOk]
      · simp [hl, hn, Out.isOk]
  exact ⟨hno, step_call_unchanged w _ (Or.inl ⟨n, s, h, p, r, rfl⟩) hno⟩

/-- … and the documented error is `AlreadyExists` (when the call gets as far as looking) -/
theorem second_create_already_exists (w : World) (n s h : Nat) (p : Pat) (r : Req)
    (hex : (findSvc w ⟨s, p⟩).isSome) (hl : labelUsed w h = false) (hn : hasNode w n = true)
    (hpre : preCheck p r (mkSettings p r).vals = none) :
    step w (.create n s h p r) = (w, .err 0 "AlreadyExists") := by
  have h2 := (second_create_refused w n s h p r hex).2
  have h1 : (step w (.create n s h p r)).2 = .err 0 "AlreadyExists" := by
    simp only [step, hl, hn]
    simp only [Bool.false_eq_true, if_false, Bool.not_true]
    rw [createCore_out]
    simp [hpre, hex]
  exact Prod.ext h2 h1

/-- a successful creation: the service did not exist, the result is exactly what was asked for,
and a new incarnation with these settings exists afterwards -/
theorem create_ok_fresh (w w' : World) (n s h : Nat) (p q : Pat) (r : Req) (c : Settings)
    (hs : step w (.create n s h p r) = (w', .okCfg q c)) :
    findSvc w ⟨s, p⟩ = none ∧ q = p ∧ c = mkSettings p r ∧
      ∃ svc, findSvc w' ⟨s, p⟩ = some svc ∧ svc.cfg = c ∧ svc.uid = w.nextUid ∧ svc.regs = [n] := by
  simp only [step] at hs
  by_cases hl : labelUsed w h = true
  · simp [hl] at hs
  · by_cases hn : hasNode w n = true
    · simp only [hl, hn] at hs
      simp only [Bool.not_true, Bool.false_eq_true, if_false] at hs
      have h2 : (createCore w n h ⟨s, p⟩ r).2 = .okCfg q c := by rw [hs]
      have h1 : (createCore w n h ⟨s, p⟩ r).1 = w' := by rw [hs]
      rw [createCore_ok_iff] at h2
      obtain ⟨hp, hf, hlate, hz, hq, hc⟩ := h2
      refine ⟨hf, hq, hc, ?_⟩
      unfold createCore at h1
      dsimp only at h1
      rw [hp] at h1
      dsimp only at h1
      rw [hf] at h1
      dsimp only at h1
      rw [hlate, hz] at h1
      simp only [Bool.false_eq_true, if_false] at h1
      subst h1
      refine ⟨{ key := ⟨s, p⟩, uid := w.nextUid, cfg := mkSettings p r, regs := [n], creq := r }, ?_, hc.symm, rfl, rfl⟩
      simp [findSvc, addState]
    · simp [hl, hn] at hs

/-! ## (b) open -/

/-- the outcome of `open` on an existing service: the first failing check in code order (types,
attributes, stated settings in the order of `verify_service_configuration`), then the node limit -/
theorem open_outcome (w : World) (n s h : Nat) (p : Pat) (r : Req) (svc : Svc)
    (hl : labelUsed w h = false) (hn : hasNode w n = true) (hf : findSvc w ⟨s, p⟩ = some svc) :
    (step w (.open_ n s h p r)).2 =
      match verify p r svc.cfg with
      | some e => .err 0 e
      | none =>
        if refCount w n ⟨s, p⟩ == 0 && maxNodes p svc.cfg ≤ svc.regs.length then .err 0 "ExceedsMaxNumberOfNodes"
        else .okCfg p svc.cfg := by
  simp only [step, hl, hn]
  simp only [Bool.false_eq_true, if_false, Bool.not_true]
  rw [openCore_out, hf]
  rfl

theorem open_missing (w : World) (n s h : Nat) (p : Pat) (r : Req)
    (hl : labelUsed w h = false) (hn : hasNode w n = true) (hf : findSvc w ⟨s, p⟩ = none) :
    step w (.open_ n s h p r) = (w, .err 0 "DoesNotExist") := by
  simp only [step, hl, hn]
  simp only [Bool.false_eq_true, if_false, Bool.not_true]
  simp [openCore, hf]

/-- `open` succeeds iff the service exists, the types fit, the required attributes are there, every
stated requirement is satisfied by the creator's settings, and the node can still register -/
theorem open_ok_iff (w : World) (n s h : Nat) (p : Pat) (r : Req)
    (hl : labelUsed w h = false) (hn : hasNode w n = true) :
    (step w (.open_ n s h p r)).2.isOk = true ↔
      ∃ svc, findSvc w ⟨s, p⟩ = some svc ∧ typesOk p r.types svc.cfg.types = true ∧ attrsOk r svc.cfg.attrs = true ∧
        (∀ i, ¬ failsAt (fieldsOf p) svc.cfg.vals r.vals i) ∧
        ¬ (refCount w n ⟨s, p⟩ = 0 ∧ maxNodes p svc.cfg ≤ svc.regs.length) := by
  cases hf : findSvc w ⟨s, p⟩ with
  | none => rw [open_missing w n s h p r hl hn hf]; simp [Out.isOk]
  | some svc =>
    rw [open_outcome w n s h p r svc hl hn hf]
    cases hv : verify p r svc.cfg with
    | some e =>
      have : ¬ verify p r svc.cfg = none := by rw [hv]; simp
      rw [verify_none_iff] at this
      simp only [Out.isOk, Bool.false_eq_true, false_iff]
      rintro ⟨svc', he, h1, h2, h3, -⟩
      injection he with he; subst he
      exact this ⟨h1, h2, h3⟩
    | none =>
      have hv' := (verify_none_iff p r svc.cfg).1 hv
      by_cases hc : (refCount w n ⟨s, p⟩ == 0 && decide (maxNodes p svc.cfg ≤ svc.regs.length)) = true
      · simp only [hc, if_true, Out.isOk, Bool.false_eq_true, false_iff]
        rintro ⟨svc', he, -, -, -, h4⟩
        injection he with he; subst he
        apply h4
        simpa using hc
      · simp only [hc]
        constructor
        · intro _
          refine ⟨svc, rfl, hv'.1, hv'.2.1, hv'.2.2, ?_⟩
          simpa using hc
        · intro _; rfl

/-- a successful `open` returns exactly the settings of the existing incarnation, and these are exactly
what its creator asked for (stated value or default, adjusted) -/
theorem open_returns_creator_settings {w : World} (hr : Reachable w) (w' : World) (n s h : Nat) (p q : Pat)
    (r : Req) (c : Settings) (hs : step w (.open_ n s h p r) = (w', .okCfg q c)) :
    ∃ svc, findSvc w ⟨s, p⟩ = some svc ∧ c = svc.cfg ∧ c = mkSettings p svc.creq ∧ q = p := by
  simp only [step] at hs
  by_cases hl : labelUsed w h = true
  · simp [hl] at hs
  · by_cases hn : hasNode w n = true
    · simp only [hl, hn] at hs
      simp only [Bool.not_true, Bool.false_eq_true, if_false] at hs
      have h2 : (openCore w n h ⟨s, p⟩ r).2 = .okCfg q c := by rw [hs]
      obtain ⟨svc, hf, hc, hq, -, -⟩ := openCore_ok w n h ⟨s, p⟩ r q c h2
      refine ⟨svc, hf, hc, ?_, hq⟩
      have hm := findL_some hf
      have := ((reachable_inv hr).svcCfg svc hm.1).1
      rw [hm.2] at this
      rw [hc, this]
    · simp [hl, hn] at hs

/-- `open_or_create` returns either the settings of the existing incarnation or, when there is none,
exactly the settings it asked for (adjusted request) -/
theorem ooc_returns_settings (w w' : World) (n s h : Nat) (p q : Pat) (r : Req) (c : Settings)
    (hs : step w (.ooc n s h p r) = (w', .okCfg q c)) :
    (∃ svc, findSvc w ⟨s, p⟩ = some svc ∧ c = svc.cfg) ∨
    (findSvc w ⟨s, p⟩ = none ∧
      c = mkSettings p { r with vals := clampReq (fieldsOf p) r.vals, keys := [] }) := by
  simp only [step] at hs
  by_cases hl : labelUsed w h = true
  · simp [hl] at hs
  · by_cases hn : hasNode w n = true
    · by_cases hp : p = .bb
      · simp [hl, hn, hp] at hs
      · simp only [hl, hn, hp] at hs
        simp only [Bool.not_true, Bool.false_eq_true, if_false] at hs
        rw [oocCore_eq] at hs
        unfold oocWith at hs
        generalize hr' : ({ r with vals := clampReq (fieldsOf p) r.vals } : Req) = r' at hs
        have hout := openCore_out w n h ⟨s, p⟩ r'
        cases ho : openCore w n h ⟨s, p⟩ r' with
        | mk w1 o =>
          rw [ho] at hs hout
          cases o with
          | err wr e =>
            dsimp only at hs
            by_cases he : (e == "DoesNotExist") = true
            · simp only [he, if_true] at hs
              have h2 : (createCore w n h ⟨s, p⟩ { r' with keys := [] }).2 = .okCfg q c := by
                have := congrArg Prod.snd hs
                revert this
                generalize createCore w n h ⟨s, p⟩ { r' with keys := [] } = x
                obtain ⟨wx, ox⟩ := x
                cases ox <;> simp [wrapErr]
              rw [createCore_ok_iff] at h2
              right
              refine ⟨h2.2.1, ?_⟩
              rw [h2.2.2.2.2.2, ← hr']
            · simp [he] at hs
          | okCfg q' c' =>
            dsimp only at hs
            have h2 : (openCore w n h ⟨s, p⟩ r').2 = .okCfg q c := by
              rw [ho]; simpa using congrArg Prod.snd hs
            obtain ⟨svc, hf, hc, -⟩ := openCore_ok w n h ⟨s, p⟩ r' q c h2
            exact Or.inl ⟨svc, hf, hc⟩
          | ok => simp at hs
          | dup => simp at hs
          | none => simp at hs
          | noNode => simp at hs
          | noOoc => simp at hs
          | badKind => simp at hs
          | panic => simp at hs
          | bool b => simp at hs
          | regs l => simp at hs
          | cfg q c => simp at hs
          | list l => simp at hs
          | files a b c => simp at hs
    · simp [hl, hn] at hs

/-- which error the checks against the static config report: types first, then attributes, then the
first stated setting (in the order of the code) that the creator's settings do not satisfy -/
theorem verify_reports_first_failing_check (p : Pat) (r : Req) (ex : Settings) (err : String) :
    verify p r ex = some err ↔
      (typesOk p r.types ex.types = false ∧ err = typeErr p) ∨
      (typesOk p r.types ex.types = true ∧ attrsOk r ex.attrs = false ∧ err = "IncompatibleAttributes") ∨
      (typesOk p r.types ex.types = true ∧ attrsOk r ex.attrs = true ∧
        ∃ i f, (fieldsOf p)[i]? = some f ∧ f.err = err ∧ failsAt (fieldsOf p) ex.vals r.vals i ∧
          ∀ j, j < i → ¬ failsAt (fieldsOf p) ex.vals r.vals j) := by
  rw [verify_some_iff, firstFail_some_iff]

/-- the stated-settings part on its own, for any list of fields -/
theorem first_failing_requirement (fs : List Field) (es : List Nat) (rs : List (Option Nat)) (err : String) :
    firstFail fs es rs = some err ↔
      ∃ i f, fs[i]? = some f ∧ f.err = err ∧ failsAt fs es rs i ∧ ∀ j, j < i → ¬ failsAt fs es rs j :=
  firstFail_some_iff fs es rs err

/-- create / open / open_or_create that do not return a service leave everything untouched -/
theorem failed_call_unchanged (w : World) (o : Op)
    (hcall : (∃ n s h p r, o = .create n s h p r) ∨ (∃ n s h p r, o = .open_ n s h p r) ∨ (∃ n s h p r, o = .ooc n s h p r))
    (hn : (step w o).2.isOk = false) : (step w o).1 = w :=
  step_call_unchanged w o hcall hn

/-- no API call changes the settings (or the identity) of an incarnation that exists before and after -/
theorem settings_immutable {w : World} (hr : Reachable w) (o : Op) (k : Key) (s s' : Svc)
    (h1 : findSvc w k = some s) (h2 : findSvc (step w o).1 k = some s') :
    s'.uid = s.uid ∧ s'.cfg = s.cfg :=
  let h := step_svc_stable w o (reachable_inv hr) k s s' h1 h2
  ⟨h.1, h.2.1⟩

/-! ## (c) lifetime -/

/-- the service (static + dynamic config) exists iff a port factory or a port of it exists -/
theorem service_exists_iff_user {w : World} (hr : Reachable w) (k : Key) :
    (findSvc w k).isSome ↔ userOf w k := by
  have hi := reachable_inv hr
  rw [exists_iff_user hi k]
  constructor
  · rintro ⟨st, hst, e⟩; exact ⟨st, hst, e, hi.live st hst⟩
  · rintro ⟨st, hst, e, -⟩; exact ⟨st, hst, e⟩

/-- node `n` has a service tag (= an entry in its `registered_services`) iff it holds a ServiceState -/
theorem tag_iff_user {w : World} (hr : Reachable w) (n : Nat) (k : Key) :
    (∃ r ∈ w.refs, r.1 = n ∧ r.2.1 = k) ↔ ∃ st ∈ w.states, st.node = n ∧ st.key = k := by
  have hi := reachable_inv hr
  constructor
  · rintro ⟨r, hr', e1, e2⟩
    have := hi.refsCount r hr'
    rw [stateCount_eq] at this
    have hp : 1 ≤ stateCountL w.states r.1 r.2.1 := by omega
    rw [e1, e2] at hp
    exact stateCountL_pos_iff.1 hp
  · rintro ⟨st, hst, e1, e2⟩
    have := hi.stRef st hst
    rw [refCount_eq, e1, e2] at this
    have hne : refCountL w.refs n k ≠ 0 := by omega
    exact ⟨_, mem_of_refCountL_ne_zero hne, rfl, rfl⟩

/-- node `n` is registered in the dynamic config iff it holds a ServiceState of the service -/
theorem registered_iff_user {w : World} (hr : Reachable w) (n : Nat) (k : Key) (svc : Svc)
    (hf : findSvc w k = some svc) : n ∈ svc.regs ↔ ∃ st ∈ w.states, st.node = n ∧ st.key = k := by
  have hi := reachable_inv hr
  have hm := findL_some hf
  constructor
  · intro hn
    obtain ⟨st, hst, e1, e2⟩ := (hi.svcSt svc hm.1).2.2 n hn
    exact ⟨st, hst, e1, e2.trans hm.2⟩
  · rintro ⟨st, hst, e1, e2⟩
    obtain ⟨svc', hs', ek, hreg, -⟩ := hi.stSvc st hst
    have : svc' = svc := by
      have h1 := findL_of_mem hi.keysNodup hs'
      rw [ek, e2] at h1
      rw [findSvc_eq] at hf
      rw [hf] at h1
      exact (Option.some.inj h1).symm
    rw [← this, ← e1]; exact hreg

/-- never earlier: as long as a user remains after a call, the same incarnation with the same settings exists -/
theorem never_earlier {w : World} (hr : Reachable w) (o : Op) (k : Key) (svc : Svc)
    (hf : findSvc w k = some svc) (hu : userOf (step w o).1 k) :
    ∃ svc', findSvc (step w o).1 k = some svc' ∧ svc'.uid = svc.uid ∧ svc'.cfg = svc.cfg := by
  have h1 := (service_exists_iff_user (Reachable.step o hr) k).2 hu
  cases hf' : findSvc (step w o).1 k with
  | none => rw [hf'] at h1; cases h1
  | some svc' =>
    exact ⟨svc', rfl, settings_immutable hr o k svc svc' hf hf'⟩

/-- never later: once the last user is gone the service is gone -/
theorem never_later {w : World} (hr : Reachable w) (o : Op) (k : Key)
    (hu : ¬ userOf (step w o).1 k) : findSvc (step w o).1 k = none := by
  cases hf' : findSvc (step w o).1 k with
  | none => rfl
  | some svc' =>
    exact absurd ((service_exists_iff_user (Reachable.step o hr) k).1 (by rw [hf']; rfl)) hu

theorem release_states (w : World) (st : SState) : (release w st).states = w.states := by
  unfold release
  by_cases hc : refCount w st.node st.key ≤ 1
  · simp only [hc, if_true]
    cases findSvc w st.key with
    | none => rfl
    | some svc =>
      dsimp only
      by_cases he : (svc.regs.erase st.node).isEmpty = true
      · simp only [he, if_true]
      · simp only [he]
        rfl
  · simp only [hc]
    rfl

theorem dropAll_states : ∀ (fuel : Nat) (w : World), (dropAll fuel w).states = w.states.drop fuel
  | 0, w => by simp [dropAll]
  | fuel + 1, w => by
    unfold dropAll
    cases hs : w.states with
    | nil => simp [hs]
    | cons st rest =>
      dsimp only
      rw [dropAll_states fuel]
      rw [release_states]
      simp

/-- dropping everything leaves no service, no tag, no dynamic config behind -/
theorem end_leaves_nothing {w : World} (hr : Reachable w) :
    (step w .end_).1.svcs = [] ∧ (step w .end_).1.refs = [] ∧ (step w .end_).1.states = [] := by
  have hi := reachable_inv (Reachable.step .end_ hr)
  have hst : (step w .end_).1.states = [] := by
    simp [step, dropAll_states]
  refine ⟨?_, ?_, hst⟩
  · cases hsv : (step w .end_).1.svcs with
    | nil => rfl
    | cons svc rest =>
      have hm : svc ∈ (step w .end_).1.svcs := by rw [hsv]; simp
      obtain ⟨hne, -, hall⟩ := hi.svcSt svc hm
      obtain ⟨n, hn⟩ := List.exists_mem_of_ne_nil _ hne
      obtain ⟨st, hst', -⟩ := hall n hn
      rw [hst] at hst'; cases hst'
  · cases hrf : (step w .end_).1.refs with
    | nil => rfl
    | cons r rest =>
      have hm : r ∈ (step w .end_).1.refs := by rw [hrf]; simp
      have := hi.refsCount r hm
      rw [stateCount_eq, hst] at this
      simp [stateCountL] at this
      omega

theorem zeroCap_mkVals_clamped (fs : List Field) (hcap : ∀ f ∈ fs, f.cap = true → f.clamp = true) (rs : List (Option Nat)) :
    zeroCap fs (mkVals fs rs) = false := by
  induction fs generalizing rs with
  | nil => simp [mkVals, zeroCap]
  | cons f fs ih =>
    have hrest : ∀ g ∈ fs, g.cap = true → g.clamp = true := fun g hg => hcap g (List.mem_cons_of_mem _ hg)
    have hv : ∀ v, (f.cap && clampV f v == 0) = false := by
      intro v
      by_cases hc : f.cap = true
      · have := hcap f (List.mem_cons_self ..) hc
        simp only [clampV, this, hc]
        by_cases hv0 : v = 0
        · simp [hv0]
        · simp [hv0]
      · simp [hc]
    cases rs with
    | nil => simp only [mkVals, zeroCap, hv, ih hrest, Bool.or_self]
    | cons r rs => simp only [mkVals, zeroCap, hv, ih hrest, Bool.or_self]

/-- no builder lets a container capacity of 0 through: every capacity field is adjusted (0 → 1) -/
theorem never_zero_capacity (p : Pat) (r : Req) : zeroCap (fieldsOf p) (mkSettings p r).vals = false := by
  simp only [mkSettings]
  apply zeroCap_mkVals_clamped
  cases p <;> simp [fieldsOf, psFields, evFields, rrFields, bbFields, fld]

/-! ## (d) the name is free again -/

/-- after the last user is gone the same name can be created again, with any (valid) settings -/
theorem recreate_after_removal {w : World} (hr : Reachable w) (n s h : Nat) (p : Pat) (r : Req)
    (hu : ¬ userOf w ⟨s, p⟩) (hl : labelUsed w h = false) (hn : hasNode w n = true)
    (hpre : preCheck p r (mkSettings p r).vals = none) (hlate : lateFails p r = false) :
    (step w (.create n s h p r)).2 = .okCfg p (mkSettings p r) ∧
    ∃ svc, findSvc (step w (.create n s h p r)).1 ⟨s, p⟩ = some svc ∧ svc.cfg = mkSettings p r := by
  have hf : findSvc w ⟨s, p⟩ = none := by
    cases hf' : findSvc w ⟨s, p⟩ with
    | none => rfl
    | some svc => exact absurd ((service_exists_iff_user hr _).1 (by rw [hf']; rfl)) hu
  have hz := never_zero_capacity p r
  have h2 : (step w (.create n s h p r)).2 = .okCfg p (mkSettings p r) := by
    simp only [step, hl, hn]
    simp only [Bool.false_eq_true, if_false, Bool.not_true]
    rw [createCore_out]
    simp [hpre, hf, hz, hlate]
  refine ⟨h2, ?_⟩
  obtain ⟨-, -, -, svc, hs, hc, -⟩ := create_ok_fresh w _ n s h p p r (mkSettings p r) (Prod.ext rfl h2)
  exact ⟨svc, hs, hc⟩

/-- … and whoever opens it then sees the new settings -/
theorem open_after_recreate_sees_new_settings (w : World) (n n2 s h h2 : Nat) (p : Pat) (r r2 : Req) (w1 : World)
    (hc : step w (.create n s h p r) = (w1, .okCfg p (mkSettings p r)))
    (hl : labelUsed w1 h2 = false) (hn : hasNode w1 n2 = true)
    (hv : verify p r2 (mkSettings p r) = none)
    (hcap : ¬ (refCount w1 n2 ⟨s, p⟩ = 0 ∧ maxNodes p (mkSettings p r) ≤ 1)) :
    (step w1 (.open_ n2 s h2 p r2)).2 = .okCfg p (mkSettings p r) := by
  obtain ⟨-, -, -, svc, hs, hcfg, -, hregs⟩ := create_ok_fresh w w1 n s h p p r (mkSettings p r) hc
  rw [open_outcome w1 n2 s h2 p r2 svc hl hn hs, hcfg, hv]
  have : ¬ ((refCount w1 n2 ⟨s, p⟩ == 0 && decide (maxNodes p (mkSettings p r) ≤ svc.regs.length)) = true) := by
    rw [hregs]; simpa using hcap
  simp only [this]
  rfl

/-! ## (e) every call returns a service or a documented error -/

def createErrors : Pat → List String
  | .ps => ["AlreadyExists", "SubscriberBufferMustBeLargerThanHistorySize", "UnableToAcquireTypeDefinition"]
  | .bb => ["AlreadyExists", "NoEntriesProvided", "ServiceInCorruptedState"]
  | .rr => ["AlreadyExists", "UnableToAcquireTypeDefinition"]
  | .ev => ["AlreadyExists"]

def openErrors (p : Pat) : List String :=
  ["DoesNotExist", typeErr p, "IncompatibleAttributes", "ExceedsMaxNumberOfNodes"] ++ (fieldsOf p).map (·.err)

theorem preCheck_documented (p : Pat) (r : Req) (vals : List Nat) (e : String)
    (h : preCheck p r vals = some e) : e ∈ createErrors p := by
  cases p <;> simp [preCheck] at h
  · obtain ⟨-, rfl⟩ := h; simp [createErrors]
  · obtain ⟨-, rfl⟩ := h; simp [createErrors]

/-- helper: the outcomes of `create` including the builder's fatal panic, which needs a container capacity of 0 -/
theorem create_outcome_cases (w : World) (n s h : Nat) (p : Pat) (r : Req) :
    let out := (step w (.create n s h p r)).2
    out = .okCfg p (mkSettings p r) ∨ out = .dup ∨ out = .noNode ∨ (∃ e ∈ createErrors p, out = .err 0 e) ∨
    (out = .panic ∧ zeroCap (fieldsOf p) (mkSettings p r).vals = true) := by
  simp only [step]
  by_cases hl : labelUsed w h = true
  · simp [hl]
  · by_cases hn : hasNode w n = true
    · simp only [hl, hn]
      simp only [Bool.false_eq_true, if_false, Bool.not_true]
      rw [createCore_out]
      cases hp : preCheck p r (mkSettings p r).vals with
      | some e =>
        right; right; right; left
        exact ⟨e, preCheck_documented p r _ e hp, rfl⟩
      | none =>
        dsimp only
        by_cases hex : (findSvc w ⟨s, p⟩).isSome = true
        · simp only [hex, if_true]
          right; right; right; left
          exact ⟨"AlreadyExists", by cases p <;> simp [createErrors], rfl⟩
        · simp only [hex]
          by_cases hlate : lateFails p r = true
          · simp only [hlate, if_true]
            right; right; right; left
            refine ⟨lateErr p, ?_, rfl⟩
            cases p <;> simp_all [createErrors, lateErr, lateFails]
          · by_cases hz : zeroCap (fieldsOf p) (mkSettings p r).vals = true
            · simp [hz, hlate]
            · simp [hz, hlate]
    · simp [hl, hn]

/-- every builder adjusts its configuration (the slice-typed publish-subscribe builders since fix 0c61d51), so
`create` never hits the panic of a zero-capacity container in the dynamic config -/
theorem clamped_create_never_panics (w : World) (n s h : Nat) (p : Pat) (r : Req) :
    (step w (.create n s h p r)).2 ≠ .panic := by
  intro hp
  have := create_outcome_cases w n s h p r
  simp only [hp] at this
  simp [never_zero_capacity] at this

/-- `create` always ends with the service (exactly the requested settings) or a documented error -/
theorem create_outcome_documented (w : World) (n s h : Nat) (p : Pat) (r : Req) :
    let out := (step w (.create n s h p r)).2
    out = .okCfg p (mkSettings p r) ∨ out = .dup ∨ out = .noNode ∨ (∃ e ∈ createErrors p, out = .err 0 e) := by
  rcases create_outcome_cases w n s h p r with h | h | h | h | ⟨-, hz⟩
  · exact Or.inl h
  · exact Or.inr (Or.inl h)
  · exact Or.inr (Or.inr (Or.inl h))
  · exact Or.inr (Or.inr (Or.inr h))
  · rw [never_zero_capacity] at hz; cases hz

/-- non-vacuity of the adjustment for slice payloads (`create 0 0 0 ps ms=0 t=su8`, the replay of the former
finding slice-payload-zero-limit-panics): the service is created with max_subscribers = 1 -/
def sliceReq : Req :=
  { vals := [none, some 0, none, none, none, none, none], types := [⟨1, "u8", 1, 1⟩, ⟨0, "()", 0, 1⟩],
    attrs := [], keys := [], entries := 1, lateFail := false }

example : (step (step World.init (.node 0)).1 (.create 0 0 0 .ps sliceReq)).2 =
    .okCfg .ps { vals := [2, 1, 2, 0, 2, 1, 2], types := [⟨1, "u8", 1, 1⟩, ⟨0, "()", 0, 1⟩], attrs := [] } := by
  rfl

theorem firstFail_mem (fs : List Field) (es : List Nat) (rs : List (Option Nat)) (e : String)
    (h : firstFail fs es rs = some e) : e ∈ fs.map (·.err) := by
  obtain ⟨i, f, hf, he, -, -⟩ := (firstFail_some_iff fs es rs e).1 h
  rw [← he]
  exact List.mem_map.2 ⟨f, List.mem_of_getElem? hf, rfl⟩

theorem verify_documented (p : Pat) (r : Req) (ex : Settings) (e : String) (h : verify p r ex = some e) :
    e ∈ openErrors p := by
  rcases (verify_some_iff p r ex e).1 h with ⟨-, rfl⟩ | ⟨-, -, rfl⟩ | ⟨-, -, hf⟩
  · simp [openErrors]
  · simp [openErrors]
  · have := firstFail_mem _ _ _ _ hf
    simp only [openErrors, List.mem_append]
    exact Or.inr this

/-- `open` ends with the service (the existing settings) or a documented error -/
theorem open_outcome_documented (w : World) (n s h : Nat) (p : Pat) (r : Req) :
    let out := (step w (.open_ n s h p r)).2
    (∃ svc, findSvc w ⟨s, p⟩ = some svc ∧ out = .okCfg p svc.cfg) ∨ out = .dup ∨ out = .noNode ∨
      ∃ e ∈ openErrors p, out = .err 0 e := by
  simp only [step]
  by_cases hl : labelUsed w h = true
  · simp [hl]
  · by_cases hn : hasNode w n = true
    · simp only [hl, hn]
      simp only [Bool.false_eq_true, if_false, Bool.not_true]
      rw [openCore_out]
      cases hf : findSvc w ⟨s, p⟩ with
      | none => right; right; right; exact ⟨"DoesNotExist", by simp [openErrors], rfl⟩
      | some svc =>
        dsimp only
        cases hv : verify p r svc.cfg with
        | some e => right; right; right; exact ⟨e, verify_documented p r _ e hv, rfl⟩
        | none =>
          dsimp only
          split
          · right; right; right; exact ⟨"ExceedsMaxNumberOfNodes", by simp [openErrors], rfl⟩
          · left; exact ⟨svc, rfl, rfl⟩
    · simp [hl, hn]

/-- `open_or_create` always ends with the service, a documented open error (wrapped) or a documented create
error (wrapped) -/
theorem ooc_outcome_documented (w : World) (n s h : Nat) (p : Pat) (r : Req) :
    let out := (step w (.ooc n s h p r)).2
    (∃ c, out = .okCfg p c) ∨ out = .dup ∨ out = .noNode ∨ out = .noOoc ∨
      (∃ e ∈ openErrors p, out = .err 1 e) ∨ (∃ e ∈ createErrors p, out = .err 2 e) := by
  simp only [step]
  by_cases hl : labelUsed w h = true
  · simp [hl]
  · by_cases hn : hasNode w n = true
    · by_cases hp : p = .bb
      · simp [hl, hn, hp]
      · simp only [hl, hn, hp]
        simp only [Bool.false_eq_true, if_false, Bool.not_true]
        rw [oocCore_eq]
        unfold oocWith
        generalize ({ r with vals := clampReq (fieldsOf p) r.vals } : Req) = r'
        have hopen := open_outcome_documented w n s h p r'
        simp only [step, hl, hn] at hopen
        simp only [Bool.false_eq_true, if_false, Bool.not_true] at hopen
        cases ho : openCore w n h ⟨s, p⟩ r' with
        | mk w1 o =>
          rw [ho] at hopen
          cases o with
          | err wr e =>
            dsimp only
            by_cases he : (e == "DoesNotExist") = true
            · simp only [he, if_true]
              have hcreate := create_outcome_documented w n s h p { r' with keys := [] }
              simp only [step, hl, hn] at hcreate
              simp only [Bool.false_eq_true, if_false, Bool.not_true] at hcreate
              generalize createCore w n h ⟨s, p⟩ { r' with keys := [] } = x at hcreate
              obtain ⟨wx, ox⟩ := x
              rcases hcreate with hc | hc | hc | ⟨e', he', hc⟩ <;> simp only at hc <;> subst hc
              · left; exact ⟨_, rfl⟩
              · simp [wrapErr]
              · simp [wrapErr]
              · right; right; right; right; right; exact ⟨e', he', rfl⟩
            · simp only [he]
              rcases hopen with ⟨svc, -, hc⟩ | hc | hc | ⟨e', he', hc⟩ <;> simp only at hc
              · cases hc
              · cases hc
              · cases hc
              · injection hc with h1 h2
                subst h2
                right; right; right; right; left; exact ⟨e, he', rfl⟩
          | okCfg q c =>
            rcases hopen with ⟨svc, -, hc⟩ | hc | hc | ⟨e', -, hc⟩ <;> simp only at hc
            · injection hc with h1 h2; subst h1; left; exact ⟨c, rfl⟩
            · cases hc
            · cases hc
            · cases hc
          | ok => rcases hopen with ⟨svc, -, hc⟩ | hc | hc | ⟨e', -, hc⟩ <;> cases hc
          | dup => simp
          | none => rcases hopen with ⟨svc, -, hc⟩ | hc | hc | ⟨e', -, hc⟩ <;> cases hc
          | noNode => simp
          | noOoc => simp
          | badKind => rcases hopen with ⟨svc, -, hc⟩ | hc | hc | ⟨e', -, hc⟩ <;> cases hc
          | panic => rcases hopen with ⟨svc, -, hc⟩ | hc | hc | ⟨e', -, hc⟩ <;> cases hc
          | bool b => rcases hopen with ⟨svc, -, hc⟩ | hc | hc | ⟨e', -, hc⟩ <;> cases hc
          | regs l => rcases hopen with ⟨svc, -, hc⟩ | hc | hc | ⟨e', -, hc⟩ <;> cases hc
          | cfg q c => rcases hopen with ⟨svc, -, hc⟩ | hc | hc | ⟨e', -, hc⟩ <;> cases hc
          | list l => rcases hopen with ⟨svc, -, hc⟩ | hc | hc | ⟨e', -, hc⟩ <;> cases hc
          | files a b c => rcases hopen with ⟨svc, -, hc⟩ | hc | hc | ⟨e', -, hc⟩ <;> cases hc
    · simp [hl, hn]

/-! ## non-vacuity: concrete histories (the same lines run against the real code in the correspondence check) -/

def exU64 : TypeDetail := ⟨0, "u64", 8, 8⟩
def exUnit : TypeDetail := ⟨0, "()", 0, 1⟩
/-- `create … ps mp=3 mn=0 ad=0:1` -/
def exReqA : Req := { vals := [some 3, none, none, none, none, none, some 0], types := [exU64, exUnit], attrs := [(0, 1)], keys := [], entries := 1, lateFail := false }
/-- `… ps mp=2 ak=0` -/
def exReqB : Req := { vals := [some 2, none, none, none, none, none, none], types := [exU64, exUnit], attrs := [], keys := [0], entries := 1, lateFail := false }
/-- `open … ps mp=4 o=0` -/
def exReqC : Req := { vals := [some 4, none, none, none, none, some 0, none], types := [exU64, exUnit], attrs := [], keys := [], entries := 1, lateFail := false }
def exCfgA : Settings := { vals := [3, 3, 2, 0, 2, 1, 1], types := [exU64, exUnit], attrs := [(0, 1)] }

/-- one creation wins, the second is refused; the opener sees the creator's settings (max_nodes 0 adjusted
to 1, so a second node is refused); the FIRST failing requirement is reported (publishers before overflow);
the service outlives its creator's handle and disappears with the last one; then the name is created again
with other settings -/
example : (run World.init [.node 0, .node 1, .create 0 0 0 .ps exReqA, .create 1 0 1 .ps exReqB, .open_ 0 0 1 .ps exReqB,
    .open_ 1 0 2 .ps exReqB, .open_ 0 0 2 .ps exReqC, .drop 0, .exists_ 0 .ps, .drop 1, .exists_ 0 .ps, .create 1 0 1 .ps exReqB]).2 =
  [.ok, .ok, .okCfg .ps exCfgA, .err 0 "AlreadyExists", .okCfg .ps exCfgA, .err 0 "ExceedsMaxNumberOfNodes",
   .err 0 "DoesNotSupportRequestedAmountOfPublishers", .ok, .bool true, .ok, .bool false,
   .okCfg .ps { vals := [2, 3, 2, 0, 2, 1, 2], types := [exU64, exUnit], attrs := [] }] := by
  rfl

def exReqE : Req := { vals := [some 0, none, none, none, some 5, none, none, none], types := [], attrs := [], keys := [], entries := 1, lateFail := false }

/-- open_or_create creates (0 notifiers adjusted to 1), a port keeps the service alive after the factory is
gone, the files disappear with the last port -/
example : (run World.init [.node 0, .ooc 0 0 0 .ev exReqE, .port 0 0 2, .port 0 1 2, .drop 0, .exists_ 0 .ev, .ls, .dport 0, .ls]).2 =
  [.ok, .okCfg .ev { vals := [1, 2, 255, 2, 5, 0, 0, 0], types := [], attrs := [] }, .ok, .err 0 "ExceedsMaxSupportedNotifiers",
   .ok, .bool true, .files 1 1 0, .ok, .files 0 0 0] := by
  rfl

/-- `create … bb e=2 dup=1` (the same key added twice) -/
def exReqDup : Req := { vals := [none, none], types := [exU64], attrs := [], keys := [], entries := 2, lateFail := true }
def exReqBb : Req := { vals := [none, none], types := [exU64], attrs := [], keys := [], entries := 2, lateFail := false }

/-- a create that is refused late (after the static config was written) leaves nothing: the service does not
exist, no file, an opener gets DoesNotExist, the same name can be created -/
example : (run World.init [.node 0, .node 1, .create 0 0 0 .bb exReqDup, .exists_ 0 .bb, .ls, .open_ 1 0 1 .bb exReqBb,
    .create 0 0 0 .bb exReqBb, .ls]).2 =
  [.ok, .ok, .err 0 "ServiceInCorruptedState", .bool false, .files 0 0 0, .err 0 "DoesNotExist",
   .okCfg .bb { vals := [2, 2], types := [exU64], attrs := [] }, .files 1 1 1] := by
  rfl

/-- the hypotheses of `recreate_after_removal` / `never_later` are satisfiable in a reachable world -/
example : ∃ w, Reachable w ∧ ¬ userOf w ⟨0, .ps⟩ ∧ hasNode w 0 = true :=
  ⟨(step World.init (.node 0)).1, Reachable.step _ Reachable.init, (by rintro ⟨st, hst, -⟩; cases hst), (by rfl)⟩

end Iox2.C06
