/-
C11 — composition level: the ORDER in which `ClientSharedState::send_request` opens the response
channel of a request and delivers the request, interleaved step by step with a server that pops
and judges requests (`Server::receive`: a request whose response channel does not carry its id is
dropped silently when fire-and-forget is disabled) and with the user dropping pending responses.
The step list of `send_request` is regenerated from /repo (`Gen/ApiOrder.lean`).
-/
import Iox2.Gen.ApiOrder
import Iox2.Proof.ComposeRR
namespace Iox2.Props.C11Compose
open Iox2.Compose Iox2.Compose.RR Iox2.Gen.ApiOrder

def sendProg : List COp := expand client_sendRequest

/-- the CURRENT source: refresh the connections, open the channel, count, deliver -/
theorem send_request_program : sendProg = nominal := by decide

/-- `Server::receive` judges a request after it has popped it and looked its client up; a request of a
vanished client is given back -/
theorem server_receive_program : server_receive = [.pop, .lookup, .checkConnected, .giveBack] := by decide

/-- a server never drops a request silently while its pending response is alive: "every request a
client sends is received by each connected server" at step granularity -/
theorem request_discarded_only_if_pending_dropped (s : St) (h : Reach sendProg s) :
    ∀ r ∈ s.discarded, r ∈ s.dropped := by
  rw [send_request_program] at h
  exact (reach_inv s h).disc

/-- a living pending response is connected: its channel carries its request id -/
theorem alive_pending_response_is_connected (s : St) (h : Reach sendProg s) :
    ∀ p ∈ s.alive, s.chan p.2 = some p.1 := by
  rw [send_request_program] at h
  exact (reach_inv s h).aliveOpen

/-- whatever is on its way to the server is answerable, or was given up by the client -/
theorem request_in_flight_is_answerable (s : St) (h : Reach sendProg s) :
    ∀ p ∈ s.queue, p.1 ∈ s.dropped ∨ s.chan p.2 = some p.1 := by
  rw [send_request_program] at h
  intro p hp
  have inv := reach_inv s h
  rcases inv.queueCov p hp with h1 | h1 | ⟨rem, e, ho⟩
  · exact Or.inl h1
  · exact Or.inr (inv.aliveOpen p h1)
  · exact Or.inr ((inv.curOk p.1 p.2 rem e).2.2 ho)

/-- contrast: delivering before opening the channel loses a request whose pending response lives -/
theorem deliver_before_open_loses_request :
    ∃ s, Reach (expand [.refresh, .deliver, .count, .openChannel]) s ∧ ∃ r ∈ s.discarded, r ∉ s.dropped := by
  let P := expand [.refresh, .deliver, .count, .openChannel]
  let s := sjudge (spop (cstep (cstep (cbegin P St.init 0))))
  refine ⟨s, ?_, 0, by decide, by decide⟩
  exact .sjudge (.spop (.cstep (.cstep (.cbegin 0 .init))))

/-- non-vacuity: a reachable state in which a request was received and another was discarded after its
pending response had been dropped -/
example : ∃ s, Reach sendProg s ∧ s.received = [0] ∧ s.discarded = [1] ∧ s.dropped = [1] := by
  let c5 (s : St) := cstep (cstep (cstep (cstep (cstep s))))
  let s := sjudge (spop (cdrop (c5 (cbegin sendProg (sjudge (spop (c5 (cbegin sendProg St.init 0)))) 1)) 1))
  refine ⟨s, ?_, by decide, by decide, by decide⟩
  exact .sjudge (.spop (.cdrop 1 (.cstep (.cstep (.cstep (.cstep (.cstep (.cbegin 1
    (.sjudge (.spop (.cstep (.cstep (.cstep (.cstep (.cstep (.cbegin 0 .init))))))))))))))))

end Iox2.Props.C11Compose
