/-
C12, port level: "At most one writer port and at most one write handle per key exist at a time; creating a second
one fails without disturbing the first.  A reader always obtains a value that was written in one piece (the
latest completed update) and successive reads by one reader never go back."

Model: `Iox2.Model.Blackboard` (every API call of `Writer`, `Reader`, `EntryHandleMut`, `EntryValueUninit`,
`EntryHandle` is one step; the concurrency inside one entry is `Iox2.Props.C12`).  All theorems are over every
history of calls starting from a freshly created service (`Reach`), no bounds.
-/
import Iox2.Proof.BlackboardLog
namespace Iox2.Blackboard

set_option maxRecDepth 100000

/-- states reachable by API calls from a freshly created service (any reader limit, any entries) -/
def Reach (w : World) : Prop := ∃ mr tys ops, w = run (World.init mr tys) ops

theorem Reach.inv {w : World} (h : Reach w) : Inv w := by
  obtain ⟨mr, tys, ops, rfl⟩ := h; exact reach_inv mr tys ops

theorem Reach.step {w : World} (h : Reach w) (op : Op) : Reach (step w op).1 := by
  obtain ⟨mr, tys, ops, rfl⟩ := h
  exact ⟨mr, tys, ops ++ [op], by rw [run_append]; rfl⟩

theorem Reach.run {w : World} (h : Reach w) (ops : List Op) : Reach (run w ops) := by
  obtain ⟨mr, tys, ops0, rfl⟩ := h
  exact ⟨mr, tys, ops0 ++ ops, by rw [run_append]⟩

/-! ## frame facts used below -/

theorem release_fields (w : World) (x : Nat) :
    (release w x).cells = w.cells ∧ (release w x).wports = w.wports ∧ (release w x).usedH = w.usedH ∧
    (release w x).maxReaders = w.maxReaders ∧ (release w x).rports = w.rports ∧ (release w x).svc = w.svc ∧
    (release w x).usedW = w.usedW ∧ (release w x).hmuts = w.hmuts := by
  unfold release; split <;> simp

/-- every answer other than `ok` and a value leaves the whole state as it was: a refused call disturbs nothing -/
theorem refused_call_changes_nothing (w : World) (op : Op) (h1 : (step w op).2 ≠ .ok)
    (h2 : ∀ v, (step w op).2 ≠ .val v) : (step w op).1 = w := by
  cases op
  all_goals simp only [step, cwriter, dwriter, creader, dreader, hmut, dhmut, update, loan, lwrite, lcommit, commit,
      discard, dloan, hget, dhget, get, fresh, dsvc, count] at h1 h2 ⊢
  all_goals repeat' split
  all_goals first
      | rfl
      | (exfalso; simp_all; done)

/-! ## (a) one writer port -/

/-- at most one `Writer` port is alive, and at most one writer is registered at the service -/
theorem at_most_one_writer {w : World} (h : Reach w) : w.wports.length ≤ 1 ∧ w.wslots.length ≤ 1 :=
  ⟨Nat.le_trans h.inv.W.ports_sub.length_le h.inv.W.slots_le, h.inv.W.slots_le⟩

/-- the single writer registration is taken exactly while a `Writer` port or one of the write handles / loans
obtained from it is alive (the handles share the writer's reference-counted state) -/
theorem writer_slot_taken_iff {w : World} (h : Reach w) : w.wslots ≠ [] ↔ (w.wports ≠ [] ∨ w.hmuts ≠ []) := by
  have hW := h.inv.W
  constructor
  · intro hne
    cases hws : w.wslots with
    | nil => exact absurd hws hne
    | cons y ys =>
      rcases hW.slot_held y (by rw [hws]; exact List.mem_cons_self) with h1 | h1
      · exact Or.inl (List.ne_nil_of_mem h1)
      · obtain ⟨m, hm, _⟩ := List.mem_map.mp h1
        exact Or.inr (List.ne_nil_of_mem hm)
  · rintro (h1 | h1) hws
    · have := hW.ports_sub; rw [hws] at this
      exact h1 (by simpa using this)
    · cases hh : w.hmuts with
      | nil => exact h1 hh
      | cons m ms =>
        have := hW.hm_slot m.writer (List.mem_map.mpr ⟨m, by rw [hh]; exact List.mem_cons_self, rfl⟩)
        rw [hws] at this; cases this

/-- creating a second writer fails with `ExceedsMaxSupportedWriters` and changes nothing -/
theorem second_writer_refused {w : World} (h : Reach w) {y : Nat} (hx : w.wports ≠ [] ∨ w.hmuts ≠ [])
    (hy : y ∉ w.usedW) (hs : w.svc = true) :
    step w (.cwriter y) = (w, .err .ExceedsMaxSupportedWriters) := by
  have hne := (writer_slot_taken_iff h).mpr hx
  simp only [step, cwriter, hy, hs, if_false, Bool.not_true]
  have : ¬ w.wslots.length < maxWriters := by
    cases hws : w.wslots with
    | nil => exact absurd hws hne
    | cons a as => simp [maxWriters]
  simp [this]

/-- once the port and every write handle / loan obtained from it are gone a new writer can be created -/
theorem writer_after_everything_dropped {w : World} (h : Reach w) {y : Nat} (hp : w.wports = []) (hh : w.hmuts = [])
    (hy : y ∉ w.usedW) (hs : w.svc = true) : (step w (.cwriter y)).2 = .ok := by
  have hws : w.wslots = [] := by
    cases hw : w.wslots with
    | nil => rfl
    | cons a as =>
      have := (writer_slot_taken_iff h).mp (by rw [hw]; simp)
      rcases this with h1 | h1
      · exact absurd hp h1
      · exact absurd hh h1
  simp [step, cwriter, hy, hs, hws, maxWriters]

/- FALSE as stated: "after `dwriter` a new writer can be created"
   theorem writer_after_drop : Reach w → x ∈ w.wports → w.svc = true → y ∉ w.usedW →
       (step (step w (.dwriter x)).1 (.cwriter y)).2 = .ok
   An `EntryHandleMut` (or `EntryValueUninit`) that outlives its `Writer` keeps the writer registered: the
   registration is released by `Drop for WriterSharedState`, which the handles hold too.
   Witness: new 1 a; cwriter 0; hmut 0 0 0 a; dwriter 0; cwriter 1 => ExceedsMaxSupportedWriters
   (confirmed on the real code, see notes/C12-ports-design.md). -/
theorem writer_after_drop_refuted :
    ¬ ∀ (w : World) (x y : Nat), Reach w → x ∈ w.wports → w.svc = true → y ∉ w.usedW →
        (step (step w (.dwriter x)).1 (.cwriter y)).2 = .ok := by
  intro hall
  have := hall (run (World.init 1 [0]) [.cwriter 0, .hmut 0 0 0 0]) 0 1 ⟨1, [0], _, rfl⟩ (by decide) (by decide) (by decide)
  revert this; decide

/-- strongest true variant: after `dwriter` a new writer can be created provided no write handle / loan is alive -/
theorem writer_after_drop_partial {w : World} (h : Reach w) {x y : Nat} (hx : x ∈ w.wports) (hh : w.hmuts = [])
    (hs : w.svc = true) (hy : y ∉ w.usedW) : (step (step w (.dwriter x)).1 (.cwriter y)).2 = .ok := by
  have h' := h.step (.dwriter x)
  have hlen := (at_most_one_writer h).1
  have hp : w.wports = [x] := by
    cases hw : w.wports with
    | nil => rw [hw] at hx; cases hx
    | cons a as =>
      rw [hw] at hx hlen
      cases as with
      | nil => simp at hx; rw [hx]
      | cons b bs => simp at hlen
  have e : (Iox2.Blackboard.step w (.dwriter x)).1
      = release { w with wports := w.wports.filter (fun y => y != x) } x := by
    simp [Iox2.Blackboard.step, dwriter, hx]
  apply writer_after_everything_dropped h'
  all_goals rw [e]
  · rw [(release_fields _ _).2.1]; simp [hp]
  · rw [(release_fields _ _).2.2.2.2.2.2.2]; exact hh
  · rw [(release_fields _ _).2.2.2.2.2.2.1]; exact hy
  · rw [(release_fields _ _).2.2.2.2.2.1]; exact hs

/-! ## (b) one write handle per key -/

theorem filter_length_le_one {α : Type} (f : α → Nat) (l : List α) (hn : (l.map f).Nodup) (k : Nat) :
    (l.filter (fun a => f a == k)).length ≤ 1 := by
  induction l with
  | nil => simp
  | cons a as ih =>
    simp only [List.map_cons, List.nodup_cons] at hn
    by_cases e : f a = k
    · have : as.filter (fun a => f a == k) = [] := by
        rw [List.filter_eq_nil_iff]; intro b hb hbk
        exact hn.1 (List.mem_map.mpr ⟨b, hb, by simpa [e] using hbk⟩)
      simp [e, this]
    · simp only [List.filter_cons, beq_iff_eq, e, if_false]; exact ih hn.2

/-- per key at most one `EntryHandleMut` exists, counting those that are inside an outstanding `EntryValueUninit` -/
theorem at_most_one_write_handle_per_key {w : World} (h : Reach w) (k : Nat) :
    (w.hmuts.filter (fun m => m.key == k)).length ≤ 1 :=
  filter_length_le_one (·.key) w.hmuts h.inv.H.keys_nodup k

/-- the producer token of an entry is taken exactly while a write handle (or loan) for its key exists -/
theorem producer_flag_iff_handle {w : World} (h : Reach w) {k : Nat} {c : Cell} (hc : w.cells[k]? = some c) :
    c.prod = true ↔ ∃ m ∈ w.hmuts, m.key = k := by
  constructor
  · exact h.inv.H.prod_hm k c hc
  · rintro ⟨m, hm, rfl⟩
    obtain ⟨c', hc', hp⟩ := h.inv.H.hm_prod m hm
    rw [hc] at hc'; cases hc'; exact hp

/-- requesting a second write handle for a key (right type, live writer) fails with `HandleAlreadyExists`
and leaves everything — the first handle, its loan, the stored value — as it was; it does not matter whether
the first handle is inside an `EntryValueUninit` -/
theorem second_write_handle_refused {w : World} (h : Reach w) {m : HMut} {x id : Nat} {c : Cell}
    (hm : m ∈ w.hmuts) (hx : x ∈ w.wports) (hid : id ∉ w.usedH) (hc : w.cells[m.key]? = some c) :
    step w (.hmut x m.key id c.ty) = (w, .err .HandleAlreadyExists) := by
  have hp : c.prod = true := (producer_flag_iff_handle h hc).mpr ⟨m, hm, rfl⟩
  simp [step, hmut, hid, hx, hc, hp]

theorem removeH_fields (w : World) (m : HMut) :
    (removeH w m).cells = modAt w.cells m.key (fun c => { c with prod := false }) ∧
    (removeH w m).wports = w.wports ∧ (removeH w m).usedH = w.usedH := by
  unfold removeH
  exact ⟨(release_fields _ _).1, (release_fields _ _).2.1, (release_fields _ _).2.2.1⟩

theorem hmut_after_removeH {w : World} {m : HMut} {x id : Nat} {c : Cell}
    (hx : x ∈ w.wports) (hid : id ∉ w.usedH) (hc : w.cells[m.key]? = some c) :
    (step (removeH w m) (.hmut x m.key id c.ty)).2 = .ok := by
  obtain ⟨e1, e2, e3⟩ := removeH_fields w m
  simp [step, hmut, e1, e2, e3, hid, hx, getElem?_modAt, hc]

/-- after the write handle was dropped a new one can be obtained for its key -/
theorem write_handle_after_drop {w : World} (h : Reach w) {m : HMut} {x id : Nat} {c : Cell}
    (hm : m ∈ w.hmuts) (hn : m.loan = none) (hx : x ∈ w.wports) (hid : id ∉ w.usedH)
    (hc : w.cells[m.key]? = some c) :
    (step w (.dhmut m.id)).2 = .ok ∧ (step (step w (.dhmut m.id)).1 (.hmut x m.key id c.ty)).2 = .ok := by
  have hf := findH_of_mem h.inv.H.ids_nodup hm
  have e : step w (.dhmut m.id) = (removeH w m, .ok) := by simp [step, dhmut, hf, hn]
  rw [e]; exact ⟨rfl, hmut_after_removeH hx hid hc⟩

/-- … also when the handle was dropped while inside an `EntryValueUninit` (`l` names the loan holding `m`) -/
theorem write_handle_after_loan_dropped {w : World} {m : HMut} {l x id : Nat} {c : Cell}
    (hl : findL w.hmuts l = some m) (hx : x ∈ w.wports) (hid : id ∉ w.usedH) (hc : w.cells[m.key]? = some c) :
    (step w (.dloan l)).2 = .ok ∧ (step (step w (.dloan l)).1 (.hmut x m.key id c.ty)).2 = .ok := by
  have e : step w (.dloan l) = (removeH w m, .ok) := by simp [step, dloan, hl]
  rw [e]; exact ⟨rfl, hmut_after_removeH hx hid hc⟩

/-- a loan keeps the exclusivity: while the `EntryValueUninit` is outstanding, and after it gave the handle
back (`discard`, `commit`, `lcommit`), the same single handle exists -/
theorem loan_keeps_handle {w : World} {m : HMut} {l : Nat} (hl : findL w.hmuts l = some m) :
    (step w (.discard l)).1.hmuts.map (·.key) = w.hmuts.map (·.key) ∧
    (∀ v, (step w (.commit l v)).1.hmuts.map (·.key) = w.hmuts.map (·.key)) := by
  simp [step, discard, commit, hl, map_key_setLoan]

/-! ## (c) what readers obtain -/

/-- `completes` is exactly "an updating call answered `ok`" -/
theorem completes_isSome_iff (w : World) (op : Op) :
    (completes w op).isSome ↔
      (((∃ h v, op = .update h v) ∨ (∃ l v, op = .commit l v) ∨ (∃ l, op = .lcommit l)) ∧ (step w op).2 = .ok) := by
  cases op <;> simp only [completes, step, update, commit, lcommit] <;> try simp
  case update h v =>
    cases findH w.hmuts h with
    | none => simp
    | some m => by_cases hl : m.loan.isSome = true <;> simp [hl]
  case commit l v => cases findL w.hmuts l <;> simp
  case lcommit l =>
    cases findL w.hmuts l with
    | none => simp
    | some m =>
      simp only
      cases m.loan with
      | none => simp
      | some p => obtain ⟨a, b⟩ := p; cases b <;> simp

/-- the value published by `lcommit` is the one written last through the loan: `lwrite` records it -/
theorem lwrite_records {w : World} {l : Nat} {v : Val} (h : (step w (.lwrite l v)).2 = .ok) :
    ∃ m, findL w.hmuts l = some m ∧
      (if m.id == m.id then { m with loan := some (l, some v) } else m) ∈ (step w (.lwrite l v)).1.hmuts := by
  simp only [step, lwrite] at h ⊢
  cases hm : findL w.hmuts l with
  | none => simp [hm] at h
  | some m => exact ⟨m, rfl, mem_setLoan_of_mem (findL_some hm).1⟩

/-- **every value a reader obtains is the value of the latest completed update of that key** (the initial value
0 if there was none): never a mixture, never a value of an unfinished or discarded loan -/
theorem get_returns_latest_completed_update (mr : Nat) (tys : List Nat) (ops : List Op) (g : Nat) (v : Val)
    (w' : World) (h : step (run (World.init mr tys) ops) (.get g) = (w', .val v)) :
    ∃ m ∈ (run (World.init mr tys) ops).rhandles, m.id = g ∧
      v = lastOr 0 (logOf (World.init mr tys) ops m.key) := by
  obtain ⟨m, hm, hid, n, hv⟩ := get_val h
  refine ⟨m, hm, hid, ?_⟩
  rw [view_run (init_inv mr tys)] at hv
  cases hi : view (World.init mr tys) m.key with
  | none => simp [hi] at hv
  | some p =>
    have := view_init hi; subst this
    simp [hi] at hv
    exact hv.1.symm

/-- **per read handle the values read are monotone in update order**: if `get g` answered `v1` and, later in the
same history, `v2`, then with `L` = initial value followed by the values of the completed updates of `g`'s key,
in order, `v1 = L[i]` and `v2 = L[j]` for some `i ≤ j` -/
theorem reads_monotone (mr : Nat) (tys : List Nat) (ops1 ops2 : List Op) (g : Nat) (v1 v2 : Val)
    (h1 : (step (run (World.init mr tys) ops1) (.get g)).2 = .val v1)
    (h2 : (step (run (World.init mr tys) (ops1 ++ .get g :: ops2)) (.get g)).2 = .val v2) :
    ∃ k i j : Nat, i ≤ j ∧
      (0 :: logOf (World.init mr tys) (ops1 ++ .get g :: ops2) k)[i]? = some v1 ∧
      (0 :: logOf (World.init mr tys) (ops1 ++ .get g :: ops2) k)[j]? = some v2 := by
  obtain ⟨m1, hm1, hid1, e1⟩ := get_returns_latest_completed_update mr tys ops1 g v1 _ (Prod.ext rfl h1)
  obtain ⟨m2, hm2, hid2, e2⟩ :=
    get_returns_latest_completed_update mr tys (ops1 ++ .get g :: ops2) g v2 _ (Prod.ext rfl h2)
  -- the handle is for the same key both times
  have hk : m2.key = m1.key := by
    have hK := keyOf_of_mem (reach_inv mr tys ops1) hm1
    have hK2 := keyOf_run hK (.get g :: ops2)
    rw [← run_append] at hK2
    exact hK2.2 m2 hm2 (hid2.trans hid1.symm)
  rw [hk] at e2
  have hlog : logOf (World.init mr tys) (ops1 ++ .get g :: ops2) m1.key
      = logOf (World.init mr tys) ops1 m1.key ++ logOf (run (World.init mr tys) ops1) (.get g :: ops2) m1.key :=
    logOf_append _ _ _ _
  refine ⟨m1.key, (logOf (World.init mr tys) ops1 m1.key).length,
          (logOf (World.init mr tys) (ops1 ++ .get g :: ops2) m1.key).length, ?_, ?_, ?_⟩
  · rw [hlog, List.length_append]; omega
  · rw [hlog, e1]; exact getElem?_lastOr 0 _ _
  · rw [e2]
    have := getElem?_lastOr 0 (logOf (World.init mr tys) (ops1 ++ .get g :: ops2) m1.key) []
    simpa using this

/-- calls that complete no update of key `k` — among them taking a loan, writing into it, discarding or dropping
it — change nothing a reader of `k` can observe -/
theorem invisible_without_completed_update {w : World} (h : Reach w) (ops : List Op) (k : Nat)
    (hno : logOf w ops k = []) : view (run w ops) k = view w k := by
  rw [view_run h.inv, hno]; cases view w k <;> simp [lastOr]

/-- a discarded loan changes nothing: no entry is touched by `discard`, and the `lwrite`s before it only went
into the write cell -/
theorem discarded_loan_changes_nothing {w : World} (h : Reach w) (hd l : Nat) (vs : List Val) (k : Nat) :
    view (run w (.loan hd l :: (vs.map (fun v => Op.lwrite l v) ++ [.discard l]))) k = view w k := by
  apply invisible_without_completed_update h
  have : ∀ (w : World) (ops : List Op), (∀ op ∈ ops, (∃ v, op = .lwrite l v) ∨ op = .discard l ∨ op = .loan hd l) →
      logOf w ops k = [] := by
    intro w ops
    induction ops generalizing w with
    | nil => intro _; rfl
    | cons op ops ih =>
      intro hall
      simp only [logOf]
      rw [ih _ (fun o ho => hall o (List.mem_cons_of_mem _ ho))]
      rcases hall op List.mem_cons_self with ⟨v, rfl⟩ | rfl | rfl <;> simp [completes]
  apply this
  intro op hop
  rcases List.mem_cons.mp hop with rfl | hop
  · exact Or.inr (Or.inr rfl)
  · rcases List.mem_append.mp hop with hop | hop
    · obtain ⟨v, _, rfl⟩ := List.mem_map.mp hop; exact Or.inl ⟨v, rfl⟩
    · simp at hop; exact Or.inr (Or.inl hop)

/-- `is_up_to_date`: `fresh g` answers `true` exactly when no update of the handle's key completed since the
last `get g` -/
theorem fresh_iff_no_update_since (mr : Nat) (tys : List Nat) (ops1 ops2 : List Op) (g : Nat) (v : Val) (b : Bool)
    (h1 : (step (run (World.init mr tys) ops1) (.get g)).2 = .val v)
    (hnoget : ∀ op ∈ ops2, op ≠ .get g)
    (h2 : (step (run (World.init mr tys) (ops1 ++ .get g :: ops2)) (.fresh g)).2 = .bool b) :
    ∃ m ∈ (run (World.init mr tys) ops1).rhandles, m.id = g ∧
      b = ((logOf (run (World.init mr tys) ops1) (.get g :: ops2) m.key).length == 0) := by
  have hi1 := reach_inv mr tys ops1
  obtain ⟨m1, hm1, hid1, n, hv, hL⟩ := get_sets_last hi1 (Prod.ext rfl h1)
  refine ⟨m1, hm1, hid1, ?_⟩
  have hK := keyOf_step (keyOf_of_mem hi1 hm1) (.get g)
  rw [hid1] at hK
  have hL2 := lastOf_run hL ops2 hnoget
  have hK2 := keyOf_run hK ops2
  have hrun : run (World.init mr tys) (ops1 ++ .get g :: ops2)
      = run (step (run (World.init mr tys) ops1) (.get g)).1 ops2 := by rw [run_append]; rfl
  rw [hrun] at h2
  obtain ⟨m2, hm2, hid2, n2, v2, n2', hl2, hv2, hb⟩ := fresh_bool h2
  have e1 := hL2.2 m2 hm2 hid2
  have e2 := hK2.2 m2 hm2 hid2
  rw [hl2] at e1; injection e1 with e1; subst e1
  rw [e2, view_run (step_inv hi1 (.get g))] at hv2
  have hvg : view (step (run (World.init mr tys) ops1) (.get g)).1 m1.key = view (run (World.init mr tys) ops1) m1.key := by
    have := view_step hi1 (.get g) m1.key
    simpa [completes] using this
  rw [hvg, hv] at hv2
  simp at hv2
  have hlog : logOf (run (World.init mr tys) ops1) (.get g :: ops2) m1.key
      = logOf (step (run (World.init mr tys) ops1) (.get g)).1 ops2 m1.key := by simp [logOf, completes]
  rw [hlog, hb, ← hv2.2]
  cases hlen : (logOf (step (run (World.init mr tys) ops1) (.get g)).1 ops2 m1.key).length with
  | zero => simp
  | succ k => simp

/-! ## (d) wrong key / wrong type -/

/-- a write handle for an unknown key, or with a value type other than the entry's, is refused with
`EntryDoesNotExist` (the code has no separate type-mismatch error) and nothing changes -/
theorem write_handle_wrong_key_or_type_refused {w : World} {x k id t : Nat} (hx : x ∈ w.wports) (hid : id ∉ w.usedH)
    (hbad : ∀ c, w.cells[k]? = some c → c.ty ≠ t) :
    step w (.hmut x k id t) = (w, .err .EntryDoesNotExist) := by
  simp only [step, hmut, hid, hx, if_false, not_true]
  cases hc : w.cells[k]? with
  | none => rfl
  | some c => simp [hbad c hc]

/-- the same for read handles -/
theorem read_handle_wrong_key_or_type_refused {w : World} {r k g t : Nat} (hr : r ∈ w.rports) (hg : g ∉ w.usedG)
    (hbad : ∀ c, w.cells[k]? = some c → c.ty ≠ t) :
    step w (.hget r k g t) = (w, .err .EntryDoesNotExist) := by
  simp only [step, hget, hg, hr, if_false, not_true]
  cases hc : w.cells[k]? with
  | none => rfl
  | some c => simp [hbad c hc]

/-- a type mismatch is reported before the existence of another handle is looked at -/
theorem wrong_type_checked_before_exclusivity {w : World} {x k id t : Nat} {c : Cell} (hx : x ∈ w.wports)
    (hid : id ∉ w.usedH) (hc : w.cells[k]? = some c) (ht : c.ty ≠ t) (_hp : c.prod = true) :
    step w (.hmut x k id t) = (w, .err .EntryDoesNotExist) :=
  write_handle_wrong_key_or_type_refused hx hid (fun c' hc' => by rw [hc] at hc'; cases hc'; exact ht)

/-! ## (e) reader limit -/

theorem maxReaders_step (w : World) (op : Op) : (step w op).1.maxReaders = w.maxReaders := by
  cases op
  all_goals simp only [step, cwriter, dwriter, creader, dreader, hmut, dhmut, update, loan, lwrite, lcommit, commit,
      discard, dloan, hget, dhget, get, fresh, dsvc, count, removeH]
  all_goals repeat' split
  all_goals first
      | rfl
      | simp only [(release_fields _ _).2.2.2.1]

theorem maxReaders_run (w : World) (ops : List Op) : (run w ops).maxReaders = w.maxReaders := by
  induction ops generalizing w with
  | nil => rfl
  | cons op ops ih => simp only [run]; rw [ih, maxReaders_step]

/-- never more live `Reader` ports than the configured limit (0 is adjusted to 1 by the service creator) -/
theorem reader_limit (mr : Nat) (tys : List Nat) (ops : List Op) :
    (run (World.init mr tys) ops).rports.length ≤ max mr 1 := by
  have h := (reach_inv mr tys ops).R.readers_le
  rw [maxReaders_run] at h
  have e : (World.init mr tys).maxReaders = if mr = 0 then 1 else mr := rfl
  rw [e] at h
  split at h <;> omega

/-- at the limit a further reader is refused with `ExceedsMaxSupportedReaders`, nothing changes -/
theorem reader_refused_when_full {w : World} {r : Nat} (hfull : w.maxReaders ≤ w.rports.length)
    (hr : r ∉ w.usedR) (hs : w.svc = true) : step w (.creader r) = (w, .err .ExceedsMaxSupportedReaders) := by
  have : ¬ w.rports.length < w.maxReaders := by omega
  simp [step, creader, hr, hs, this]

/-- below the limit a reader is created -/
theorem reader_created_when_room {w : World} {r : Nat} (hroom : w.rports.length < w.maxReaders)
    (hr : r ∉ w.usedR) (hs : w.svc = true) : (step w (.creader r)).2 = .ok := by
  simp [step, creader, hr, hs, hroom]

/-- dropping a `Reader` frees its slot at once (its `EntryHandle`s stay usable but hold no slot) -/
theorem reader_after_drop {w : World} (h : Reach w) {r r' : Nat} (hr : r ∈ w.rports) (hr' : r' ∉ w.usedR)
    (hs : w.svc = true) : (step (step w (.dreader r)).1 (.creader r')).2 = .ok := by
  have e : step w (.dreader r) = ({ w with rports := w.rports.filter (fun y => y != r) }, .ok) := by
    simp [step, dreader, hr]
  rw [e]
  refine reader_created_when_room (w := { w with rports := w.rports.filter (fun y => y != r) }) ?_ hr' hs
  have : (w.rports.filter (fun y => y != r)).length < w.rports.length :=
    List.length_filter_lt_length_iff_exists.mpr ⟨r, hr, by simp⟩
  exact Nat.lt_of_lt_of_le this h.inv.R.readers_le

/-! ## objects outliving their ports -/

/-- an `EntryHandleMut` works whether or not its `Writer` is still alive (it keeps the writer's shared state) -/
theorem update_needs_no_live_writer {w : World} {h : Nat} {m : HMut} (v : Val) (hf : findH w.hmuts h = some m)
    (hn : m.loan = none) : (step w (.update h v)).2 = .ok := by
  simp [step, update, hf, hn]

/-- an `EntryHandle` works whether or not its `Reader` is still alive, and answers the entry's current value -/
theorem get_needs_no_live_reader {w : World} (h : Reach w) {g : Nat} {m : RHandle} (hf : findG w.rhandles g = some m) :
    ∃ c, w.cells[m.key]? = some c ∧ (step w (.get g)).2 = .val c.cur := by
  have hk := h.inv.R.g_key m (findG_some hf).1
  refine ⟨w.cells[m.key], List.getElem?_eq_getElem hk, ?_⟩
  simp [step, get, hf, List.getElem?_eq_getElem hk]

/-! ## non-vacuity: concrete histories (types: 0 = u64, 1 = [u64; 3]) -/

/-- second writer / second handle refused, handle outlives its writer and keeps the slot, recovery after the
last holder is gone -/
example :
    outs (World.init 1 [0, 1])
      [.cwriter 0, .cwriter 1, .hmut 0 0 0 0, .hmut 0 0 1 0, .hmut 0 0 1 1, .hmut 0 7 1 0, .dwriter 0, .cwriter 2,
       .update 0 5, .loan 0 0, .cwriter 3, .dloan 0, .cwriter 4, .hmut 4 0 2 0] =
      [.ok, .err .ExceedsMaxSupportedWriters, .ok, .err .HandleAlreadyExists, .err .EntryDoesNotExist,
       .err .EntryDoesNotExist, .ok, .err .ExceedsMaxSupportedWriters, .ok, .ok, .err .ExceedsMaxSupportedWriters,
       .ok, .ok, .ok] := by decide

/-- reads: latest completed update, loans invisible until committed, `is_up_to_date`, reader limit -/
example :
    outs (World.init 0 [0, 1])
      [.cwriter 0, .creader 0, .creader 1, .hmut 0 1 0 1, .hget 0 1 0 1, .get 0, .update 0 1, .fresh 0, .get 0,
       .loan 0 0, .lwrite 0 2, .get 0, .hmut 0 1 1 1, .discard 0, .get 0, .loan 0 1, .lcommit 1, .lwrite 1 3,
       .lcommit 1, .get 0, .dreader 0, .creader 2, .get 0] =
      [.ok, .ok, .err .ExceedsMaxSupportedReaders, .ok, .ok, .val 0, .ok, .bool false, .val 1,
       .ok, .ok, .val 1, .err .HandleAlreadyExists, .ok, .val 1, .ok, .unwritten, .ok,
       .ok, .val 3, .ok, .ok, .val 3] := by decide

/-- the log of the example above for key 1 -/
example :
    logOf (World.init 0 [0, 1])
      [.cwriter 0, .hmut 0 1 0 1, .update 0 1, .loan 0 0, .lwrite 0 2, .discard 0, .loan 0 1, .lwrite 1 3, .lcommit 1] 1
      = [1, 3] := by decide

end Iox2.Blackboard
