/-
C12 — blackboard reads are atomic and monotone; one writer at a time
(model Iox2/Model/SeqLock.lean).

Setting: ANY number of threads, ANY programs (stores only by the owner of the `Producer`
object), ANY value width, all interleavings *including those that preempt the writer or a reader
between two words of a value* (`Reachable`).
-/
import Iox2.Model.SeqLock
import Iox2.Props.C15

namespace Iox2.C12
open Iox2.Sched Iox2.SeqLock

def initCfg (width : Nat) (v0 : List Nat) (progs : List (List Cmd)) : Cfg Sh Th :=
  { sh := Sh.init width v0, th := progs.map Th.init }

/-- every value handed to `store` (and the initial one) has exactly `width` words -/
def WF (width : Nat) (v0 : List Nat) (progs : List (List Cmd)) : Prop :=
  v0.length = width ∧ ∀ p ∈ progs, ∀ v, Cmd.store v ∈ p → v.length = width


/-! ## the inductive invariant -/

/-- program counters of the `store` operation -/
def IsW : PC → Prop
  | .stLdWc _ | .stCellGet _ _ | .stWord _ _ _ | .stFetchAdd _ => True
  | _ => False

instance : DecidablePred IsW := fun pc => by cases pc <;> simp only [IsW] <;> infer_instance

/-- roles: who may hold the producer token at which pc -/
def RoleOk (t : Th) : Prop :=
  (IsW t.pc → t.holdsP = true) ∧ (t.pc = .relP → t.holdsP = true) ∧ (t.pc = .acqP → t.holdsP = false)

def Roles (c : Cfg Sh Th) : Prop :=
  (∀ (i j : Nat) (ti tj : Th), c.th[i]? = some ti → c.th[j]? = some tj → ti.holdsP = true → tj.holdsP = true → i = j) ∧
  (c.sh.hasProducer = true → ∀ (i : Nat) (t : Th), c.th[i]? = some t → t.holdsP = false) ∧
  (∀ (i : Nat) (t : Th), c.th[i]? = some t → RoleOk t)

/-- monotone reads (needs no well-formedness) -/
def MonoT (s : Sh) (t : Th) : Prop :=
  (∀ g ∈ t.got, g.1 ≤ s.wc - 1) ∧ (t.got.map (·.1)).Pairwise (· ≤ ·)

def Mono (c : Cfg Sh Th) : Prop := ∀ (i : Nat) (t : Th), c.th[i]? = some t → MonoT c.sh t

/-- shared part -/
def ShOk (width : Nat) (s : Sh) : Prop :=
  s.width = width ∧ s.cell0.length = width ∧ s.cell1.length = width ∧
  s.versions.length = s.wc ∧ 1 ≤ s.wc ∧
  some (s.cell (s.wc - 1)) = s.versions[s.wc - 1]? ∧ ∀ v ∈ s.versions, v.length = width

/-- thread-local part, by program counter -/
def PcOk (s : Sh) (begun : Nat) : PC → Prop
  | .idle => True
  | .stLdWc v => v.length = s.width
  | .stCellGet v w => v.length = s.width ∧ w = s.wc
  | .stWord v w k => v.length = s.width ∧ w = s.wc ∧ (s.cell w).take k = v.take k
  | .stFetchAdd v => v.length = s.width ∧ s.cell s.wc = v
  | .ldLdWc => True
  | .ldWord w k buf => w ≤ s.wc ∧ begun ≤ w - 1 ∧ (w = s.wc → buf = (s.cell (w - 1)).take k)
  | .ldCas w buf => w ≤ s.wc ∧ begun ≤ w - 1 ∧ (w = s.wc → buf = s.cell (w - 1))
  | .acqP => True
  | .relP => True

/-- a `store` command carries a value of the right width -/
def CmdOk (width : Nat) : Cmd → Prop
  | .store v => v.length = width
  | _ => True

def ThOk (s : Sh) (t : Th) : Prop :=
  PcOk s t.begun t.pc ∧
  (∀ c ∈ t.todo, CmdOk s.width c) ∧
  (∀ g ∈ t.got, s.versions[g.1]? = some g.2.1 ∧ g.2.2 ≤ g.1)

def Main (width : Nat) (c : Cfg Sh Th) : Prop :=
  ShOk width c.sh ∧ ∀ (i : Nat) (t : Th), c.th[i]? = some t → ThOk c.sh t

/-! ### executable sanity check of the invariant on sample schedules -/
section Sanity
instance (s : Sh) (b : Nat) (pc : PC) : Decidable (PcOk s b pc) := by
  cases pc <;> simp only [PcOk] <;> infer_instance
instance (w : Nat) (c : Cmd) : Decidable (CmdOk w c) := by cases c <;> simp only [CmdOk] <;> infer_instance
instance (t : Th) : Decidable (RoleOk t) := by unfold RoleOk; infer_instance
instance (s : Sh) (t : Th) : Decidable (ThOk s t) := by unfold ThOk; infer_instance
instance (s : Sh) (t : Th) : Decidable (MonoT s t) := by unfold MonoT; infer_instance
instance (w : Nat) (s : Sh) : Decidable (ShOk w s) := by unfold ShOk; infer_instance

def checkCfg (width : Nat) (c : Cfg Sh Th) : Bool :=
  decide (ShOk width c.sh) && c.th.all (fun t => decide (ThOk c.sh t) && decide (MonoT c.sh t) && decide (RoleOk t))
  && decide ((c.th.filter (·.holdsP)).length ≤ 1)
  && (!c.sh.hasProducer || c.th.all (fun t => !t.holdsP))

/-- check the invariant after every step of the schedule (ids that cannot step are skipped) -/
def checkRun (width : Nat) (v0 : List Nat) (progs : List (List Cmd)) (sched : List Nat) : Bool × Nat × Cfg Sh Th :=
  sched.foldl (fun (acc : Bool × Nat × Cfg Sh Th) i =>
    match sys.stepAt acc.2.2 i with
    | none => acc
    | some (c', _) => (acc.1 && checkCfg width c', acc.2.1 + 1, c'))
    (checkCfg width (initCfg width v0 progs), 0, initCfg width v0 progs)

def lcg (seed n m : Nat) : List Nat :=
  (List.range n).foldl (fun (acc : List Nat × Nat) _ =>
    let x := (acc.2 * 1103515245 + 12345) % 2147483648
    (acc.1 ++ [(x / 65536) % m], x)) ([], seed) |>.1

def progsW (w : Nat) : List (List Cmd) :=
  [[.acquireProducer, .store (List.replicate w 10), .load, .store (List.replicate w 20), .releaseProducer, .store (List.replicate w 99)],
   [.load, .acquireProducer, .load, .store (List.replicate w 30), .load, .releaseProducer],
   [.load, .load, .load, .releaseProducer, .store (List.replicate w 77)]]

#eval (List.range 20).all fun seed => (checkRun 1 [0] (progsW 1) (lcg seed 150 3)).1
#eval (List.range 20).all fun seed => (checkRun 2 [0, 1] (progsW 2) (lcg (seed + 100) 200 3)).1
#eval (List.range 20).all fun seed => (checkRun 3 [0, 1, 2] (progsW 3) (lcg (seed + 200) 250 3)).1
#eval let r := checkRun 2 [0, 1] (progsW 2) (lcg 105 200 3); (r.1, r.2.1, r.2.2.sh.versions, r.2.2.th.map (·.got))
end Sanity

/-! ### helpers -/

theorem stepAt_inv {c c' : Cfg Sh Th} {i : Nat} {evs : List Ev}
    (h : sys.stepAt c i = some (c', evs)) :
    ∃ t sh' t', c.th[i]? = some t ∧ step c.sh t = some (sh', t', evs) ∧
      c' = { sh := sh', th := c.th.set i t' } := by
  unfold Sys.stepAt at h
  split at h
  · cases h
  · rename_i t ht
    split at h
    · cases h
    · rename_i sh' t' evs' hst
      simp only [Option.some.injEq, Prod.mk.injEq] at h
      obtain ⟨h1, h2⟩ := h
      subst h2
      exact ⟨t, sh', t', ht, hst, h1.symm⟩

theorem nextCmd_some {hp : Bool} {l : List Cmd} {c : Cmd} {rest : List Cmd}
    (h : nextCmd hp l = some (c, rest)) :
    c ∈ l ∧ (∀ x ∈ rest, x ∈ l) ∧ enabled hp c = true := by
  induction l with
  | nil => simp [nextCmd] at h
  | cons a l ih =>
    simp only [nextCmd] at h
    split at h
    · simp only [Option.some.injEq, Prod.mk.injEq] at h
      obtain ⟨rfl, rfl⟩ := h
      simp_all
    · obtain ⟨h1, h2, h3⟩ := ih h
      exact ⟨List.mem_cons_of_mem _ h1, fun x hx => List.mem_cons_of_mem _ (h2 x hx), h3⟩

theorem cell_length {width : Nat} {s : Sh} (hs : ShOk width s) (i : Nat) : (s.cell i).length = width := by
  unfold Sh.cell; split
  · exact hs.2.1
  · exact hs.2.2.1

@[simp] theorem setWord_hasProducer (s : Sh) (i k x : Nat) : (s.setWord i k x).hasProducer = s.hasProducer := by
  unfold Sh.setWord; split <;> rfl
@[simp] theorem setWord_wc (s : Sh) (i k x : Nat) : (s.setWord i k x).wc = s.wc := by
  unfold Sh.setWord; split <;> rfl
@[simp] theorem setWord_width (s : Sh) (i k x : Nat) : (s.setWord i k x).width = s.width := by
  unfold Sh.setWord; split <;> rfl
@[simp] theorem setWord_versions (s : Sh) (i k x : Nat) : (s.setWord i k x).versions = s.versions := by
  unfold Sh.setWord; split <;> rfl
@[simp] theorem setWord_cell0_length (s : Sh) (i k x : Nat) : (s.setWord i k x).cell0.length = s.cell0.length := by
  unfold Sh.setWord; split <;> simp
@[simp] theorem setWord_cell1_length (s : Sh) (i k x : Nat) : (s.setWord i k x).cell1.length = s.cell1.length := by
  unfold Sh.setWord; split <;> simp

theorem cell_setWord_ne (s : Sh) (i j k x : Nat) (h : i % 2 ≠ j % 2) :
    (s.setWord i k x).cell j = s.cell j := by
  unfold Sh.setWord Sh.cell
  split <;> split <;> first | rfl | omega

theorem cell_setWord_self (s : Sh) (i k x : Nat) :
    (s.setWord i k x).cell i = (s.cell i).set k x := by
  unfold Sh.setWord Sh.cell
  split <;> simp_all

theorem take_succ_getD (l : List Nat) (k : Nat) (hk : k < l.length) :
    l.take k ++ [l.getD k 0] = l.take (k + 1) := by
  rw [List.take_add_one]
  simp [List.getD, List.getElem?_eq_getElem hk]

theorem take_succ_set (l v : List Nat) (k : Nat) (hk : k < l.length) (hv : k < v.length)
    (h : l.take k = v.take k) : (l.set k (v.getD k 0)).take (k + 1) = v.take (k + 1) := by
  rw [← take_succ_getD v k hv, ← h, List.take_add_one]
  simp [hk, List.take_set_of_le]

/-- the thread state on which `stepPC` is run: a fresh command is started, or a finished word loop
falls through -/
def Pre (s : Sh) (t t1 : Th) : Prop :=
  (t.pc = .idle ∧ ∃ c rest, nextCmd t.holdsP t.todo = some (c, rest) ∧
      t1 = { t with pc := start c, todo := rest }) ∨
  (t.pc ≠ .idle ∧ t1 = normalize s t)

theorem step_pre {s s' : Sh} {t t' : Th} {evs : List Ev} (h : step s t = some (s', t', evs)) :
    ∃ t1, Pre s t t1 ∧ stepPC s t1 = some (s', t', evs) := by
  unfold step at h
  split at h
  · rename_i hpc
    split at h
    · cases h
    · rename_i c rest hn
      exact ⟨_, Or.inl ⟨hpc, c, rest, hn, rfl⟩, h⟩
  · rename_i hpc
    exact ⟨_, Or.inr ⟨fun h' => hpc h', rfl⟩, h⟩

/-! ### roles -/

theorem role_pre {s : Sh} {t t1 : Th} (h : Pre s t t1) (hr : RoleOk t) :
    RoleOk t1 ∧ t1.holdsP = t.holdsP := by
  rcases t with ⟨pc, todo, hp, got, begun⟩
  rcases h with ⟨hpc, c, rest, hn, rfl⟩ | ⟨hpc, rfl⟩
  · have he := (nextCmd_some hn).2.2
    cases c <;> simp_all [RoleOk, IsW, start, enabled]
  · cases pc <;> simp only [normalize] <;> (try split) <;> simp_all [RoleOk, IsW]

theorem role_stepPC {sh sh' : Sh} {t t' : Th} {evs : List Ev}
    (h : stepPC sh t = some (sh', t', evs)) (hr : RoleOk t) :
    RoleOk t' ∧
    ((t'.holdsP = t.holdsP ∧ sh'.hasProducer = sh.hasProducer) ∨
     (t.holdsP = false ∧ sh.hasProducer = true ∧ t'.holdsP = true ∧ sh'.hasProducer = false) ∨
     (t.holdsP = true ∧ t'.holdsP = false ∧ sh'.hasProducer = true)) := by
  rcases t with ⟨pc, todo, hp, got, begun⟩
  cases pc <;> simp only [stepPC] at h <;> (try split at h) <;> simp at h <;>
    obtain ⟨rfl, rfl, -⟩ := h <;> simp_all [RoleOk, IsW]

theorem getElem?_set_cases {α : Type} {l : List α} {i j : Nat} {a u : α}
    (h : (l.set i a)[j]? = some u) : (j = i ∧ u = a) ∨ (j ≠ i ∧ l[j]? = some u) := by
  rw [List.getElem?_set] at h
  split at h
  · split at h
    · simp at h; exact Or.inl ⟨by omega, h.symm⟩
    · cases h
  · exact Or.inr ⟨by omega, h⟩

theorem roles_step {c c' : Cfg Sh Th} {i : Nat} {evs : List Ev} (hR : Roles c)
    (h : sys.stepAt c i = some (c', evs)) : Roles c' := by
  obtain ⟨t, sh', t', hti, hst, rfl⟩ := stepAt_inv h
  obtain ⟨t1, hpre, hpc⟩ := step_pre hst
  obtain ⟨h1, h2, h3⟩ := hR
  obtain ⟨hr1, hhp⟩ := role_pre hpre (h3 i t hti)
  obtain ⟨hr', heff⟩ := role_stepPC hpc hr1
  rw [hhp] at heff
  refine ⟨?_, ?_, ?_⟩
  · intro a b ta tb ha hb hpa hpb
    simp only at ha hb
    rcases getElem?_set_cases ha with ⟨rfl, rfl⟩ | ⟨hai, ha'⟩ <;>
      rcases getElem?_set_cases hb with ⟨rfl, rfl⟩ | ⟨hbi, hb'⟩
    · rfl
    · exfalso
      rcases heff with ⟨e1, -⟩ | ⟨-, e2, -, -⟩ | ⟨-, e2, -⟩
      · exact hbi (h1 _ _ _ _ hb' hti hpb (e1 ▸ hpa))
      · have := h2 e2 _ _ hb'; simp_all
      · simp_all
    · exfalso
      rcases heff with ⟨e1, -⟩ | ⟨-, e2, -, -⟩ | ⟨-, e2, -⟩
      · exact hai (h1 _ _ _ _ ha' hti hpa (e1 ▸ hpb))
      · have := h2 e2 _ _ ha'; simp_all
      · simp_all
    · exact h1 _ _ _ _ ha' hb' hpa hpb
  · intro hp' a ta ha
    simp only at ha hp'
    rcases getElem?_set_cases ha with ⟨rfl, rfl⟩ | ⟨hai, ha'⟩
    · rcases heff with ⟨e1, e2⟩ | ⟨-, -, -, e2⟩ | ⟨-, e2, -⟩
      · rw [e1]; exact h2 (e2 ▸ hp') _ _ hti
      · simp_all
      · exact e2
    · rcases heff with ⟨e1, e2⟩ | ⟨-, -, -, e2⟩ | ⟨e0, e2, -⟩
      · exact h2 (e2 ▸ hp') _ _ ha'
      · simp_all
      · cases hta : ta.holdsP
        · rfl
        · exact absurd (h1 _ _ _ _ ha' hti hta e0) hai
  · intro a ta ha
    simp only at ha
    rcases getElem?_set_cases ha with ⟨rfl, rfl⟩ | ⟨hai, ha'⟩
    · exact hr'
    · exact h3 _ _ ha'

theorem roles_init (width : Nat) (v0 : List Nat) (progs : List (List Cmd)) :
    Roles (initCfg width v0 progs) := by
  have key : ∀ (i : Nat) (t : Th), (initCfg width v0 progs).th[i]? = some t → ∃ p, t = Th.init p := by
    intro i t h
    simp only [initCfg, List.getElem?_map, Option.map_eq_some_iff] at h
    obtain ⟨p, -, rfl⟩ := h
    exact ⟨p, rfl⟩
  refine ⟨?_, ?_, ?_⟩
  · intro i j ti tj hi hj h1
    obtain ⟨p, rfl⟩ := key _ _ hi
    simp [Th.init] at h1
  · intro _ i t hi
    obtain ⟨p, rfl⟩ := key _ _ hi
    rfl
  · intro i t hi
    obtain ⟨p, rfl⟩ := key _ _ hi
    simp [RoleOk, Th.init, IsW]

theorem filter_length_le_one (l : List Th)
    (h : ∀ (i j : Nat) (ti tj : Th), l[i]? = some ti → l[j]? = some tj →
      ti.holdsP = true → tj.holdsP = true → i = j) :
    (l.filter (·.holdsP)).length ≤ 1 := by
  induction l with
  | nil => simp
  | cons a l ih =>
    have ih' := ih (fun i j ti tj hi hj h1 h2 => by
      have := h (i + 1) (j + 1) ti tj (by simpa using hi) (by simpa using hj) h1 h2
      omega)
    cases ha : a.holdsP
    · simpa [List.filter, ha] using ih'
    · have : l.filter (·.holdsP) = [] := by
        rw [List.filter_eq_nil_iff]
        intro u hu hup
        obtain ⟨j, hj⟩ := List.mem_iff_getElem?.1 hu
        have := h 0 (j + 1) a u (by simp) (by simpa using hj) ha hup
        omega
      simp [List.filter, ha, this]

/-! ### monotone reads -/

theorem pre_fields {s : Sh} {t t1 : Th} (h : Pre s t t1) :
    t1.got = t.got ∧ t1.begun = t.begun ∧ t1.holdsP = t.holdsP := by
  rcases t with ⟨pc, todo, hp, got, begun⟩
  rcases h with ⟨hpc, c, rest, hn, rfl⟩ | ⟨hpc, rfl⟩
  · simp
  · cases pc <;> simp only [normalize] <;> (try split) <;> simp

theorem mono_weaken {s s' : Sh} {u : Th} (h : MonoT s u) (hw : s.wc ≤ s'.wc) : MonoT s' u :=
  ⟨fun g hg => by have := h.1 g hg; omega, h.2⟩

theorem mono_stepPC {s s' : Sh} {t t' : Th} {evs : List Ev}
    (h : stepPC s t = some (s', t', evs)) (hm : MonoT s t) : MonoT s' t' ∧ s.wc ≤ s'.wc := by
  rcases t with ⟨pc, todo, hp, got, begun⟩
  obtain ⟨hm1, hm2⟩ := hm
  cases pc <;> simp only [stepPC] at h <;> (try split at h) <;> simp at h <;>
    obtain ⟨rfl, rfl, -⟩ := h
  case ldCas.isTrue w buf hw =>
    simp only at hm1 hm2
    refine ⟨⟨?_, ?_⟩, Nat.le_refl _⟩
    · intro g hg
      simp only [List.mem_append, List.mem_singleton] at hg
      rcases hg with hg | rfl
      · exact hm1 g hg
      · simp [hw]
    · simp only [List.map_append, List.pairwise_append]
      refine ⟨hm2, by simp, ?_⟩
      intro a ha b hb
      simp only [List.mem_map] at ha
      obtain ⟨g, hg, rfl⟩ := ha
      simp at hb; subst hb
      have := hm1 g hg; omega
  all_goals exact ⟨⟨fun g hg => by have := hm1 g hg; simp_all <;> omega, hm2⟩, by simp⟩

theorem mono_step {c c' : Cfg Sh Th} {i : Nat} {evs : List Ev} (hM : Mono c)
    (h : sys.stepAt c i = some (c', evs)) : Mono c' := by
  obtain ⟨t, sh', t', hti, hst, rfl⟩ := stepAt_inv h
  obtain ⟨t1, hpre, hpc⟩ := step_pre hst
  obtain ⟨e1, -, -⟩ := pre_fields hpre
  have hm1 : MonoT c.sh t1 := by
    have := hM i t hti
    unfold MonoT at this ⊢
    rw [e1]; exact this
  obtain ⟨hm', hw⟩ := mono_stepPC hpc hm1
  intro a ta ha
  simp only at ha
  rcases getElem?_set_cases ha with ⟨rfl, rfl⟩ | ⟨hai, ha'⟩
  · exact hm'
  · exact mono_weaken (hM _ _ ha') hw

theorem mono_init (width : Nat) (v0 : List Nat) (progs : List (List Cmd)) :
    Mono (initCfg width v0 progs) := by
  intro i t h
  simp only [initCfg, List.getElem?_map, Option.map_eq_some_iff] at h
  obtain ⟨p, -, rfl⟩ := h
  simp [MonoT, Th.init]

/-! ### the main invariant -/

theorem main_pre {width : Nat} {s : Sh} {t t1 : Th} (h : Pre s t t1) (hs : ShOk width s)
    (ht : ThOk s t) : ThOk s t1 := by
  rcases t with ⟨pc, todo, hp, got, begun⟩
  obtain ⟨ht1, ht2, ht3⟩ := ht
  rcases h with ⟨hpc, c, rest, hn, rfl⟩ | ⟨hpc, rfl⟩
  · obtain ⟨hc, hrest, -⟩ := nextCmd_some hn
    refine ⟨?_, fun x hx => ht2 x (hrest x hx), ht3⟩
    have := ht2 c hc
    cases c <;> simp_all [start, PcOk, CmdOk]
  · cases pc <;> simp only [normalize] <;> (try split) <;> (try exact ⟨ht1, ht2, ht3⟩)
    case stWord.isFalse v w k hk =>
      simp only [PcOk] at ht1
      obtain ⟨a1, rfl, a3⟩ := ht1
      refine ⟨?_, ht2, ht3⟩
      have hl := cell_length hs s.wc
      have hw := hs.1
      rw [List.take_of_length_le (by omega), List.take_of_length_le (by omega)] at a3
      exact ⟨a1, a3⟩
    case ldWord.isFalse w k buf hk =>
      simp only [PcOk] at ht1
      obtain ⟨a1, a2, a3⟩ := ht1
      refine ⟨⟨a1, a2, fun e => ?_⟩, ht2, ht3⟩
      have hl := cell_length hs (w - 1)
      have hw := hs.1
      rw [a3 e, List.take_of_length_le (by omega)]

/-- what one step may do to the shared state (`isW`: the stepping thread is inside `store`) -/
def Eff (s s' : Sh) (isW : Prop) : Prop :=
  s' = s ∨ (∃ b, s' = { s with hasProducer := b }) ∨
  (isW ∧ ∃ k x, s' = s.setWord s.wc k x) ∨
  (isW ∧ ∃ v, v.length = s.width ∧ s' = { s with wc := s.wc + 1, versions := s.versions ++ [v] })

theorem main_stepPC {width : Nat} {s s' : Sh} {t t' : Th} {evs : List Ev}
    (h : stepPC s t = some (s', t', evs)) (hs : ShOk width s) (ht : ThOk s t) :
    ShOk width s' ∧ ThOk s' t' ∧ Eff s s' (IsW t.pc) := by
  rcases t with ⟨pc, todo, hp, got, begun⟩
  obtain ⟨ht1, ht2, ht3⟩ := ht
  simp only at ht1 ht2 ht3
  cases pc <;> simp only [stepPC] at h <;> (try split at h) <;>
    simp only [Option.some.injEq, Prod.mk.injEq, reduceCtorEq] at h <;>
    obtain ⟨rfl, rfl, -⟩ := h
  case stLdWc v =>
    exact ⟨hs, ⟨⟨ht1, rfl⟩, ht2, ht3⟩, Or.inl rfl⟩
  case stCellGet v w =>
    exact ⟨hs, ⟨⟨ht1.1, ht1.2, by simp⟩, ht2, ht3⟩, Or.inl rfl⟩
  case stWord.isTrue v w k hk =>
    obtain ⟨a1, rfl, a3⟩ := ht1
    obtain ⟨b1, b2, b3, b4, b5, b6, b7⟩ := hs
    have hs' : ShOk width s := ⟨b1, b2, b3, b4, b5, b6, b7⟩
    have hpar : s.wc % 2 ≠ (s.wc - 1) % 2 := by omega
    refine ⟨⟨by simpa using b1, by simpa using b2, by simpa using b3, by simpa using b4,
      by simpa using b5, ?_, by simpa using b7⟩, ⟨⟨by simpa using a1, by simp, ?_⟩, by simpa using ht2,
      by simpa using ht3⟩, Or.inr (Or.inr (Or.inl ⟨trivial, _, _, rfl⟩))⟩
    · simp only [setWord_wc, setWord_versions]
      rw [cell_setWord_ne _ _ _ _ _ hpar]; exact b6
    · rw [cell_setWord_self]
      exact take_succ_set _ _ _ (by rw [cell_length hs']; omega) (by omega) a3
  case stFetchAdd v =>
    obtain ⟨a1, a2⟩ := ht1
    obtain ⟨b1, b2, b3, b4, b5, b6, b7⟩ := hs
    refine ⟨⟨b1, b2, b3, by simp [b4], by simp, ?_, ?_⟩, ⟨trivial, ht2, ?_⟩,
      Or.inr (Or.inr (Or.inr ⟨trivial, v, a1, rfl⟩))⟩
    · simp only [Nat.add_sub_cancel]
      rw [← b4, List.getElem?_concat_length]
      have : ({ s with wc := s.versions.length + 1, versions := s.versions ++ [v] } : Sh).cell s.versions.length
          = s.cell s.wc := by rw [b4]; rfl
      rw [← b4] at a2
      simp only [Sh.cell] at a2 ⊢
      rw [a2]
    · intro x hx
      simp only [List.mem_append, List.mem_singleton] at hx
      rcases hx with hx | rfl
      · exact b7 x hx
      · omega
    · intro g hg
      obtain ⟨c1, c2⟩ := ht3 g hg
      refine ⟨?_, c2⟩
      have hlt : g.1 < s.versions.length := by
        rcases List.getElem?_eq_some_iff.1 c1 with ⟨hlt, -⟩; exact hlt
      simp only
      rw [List.getElem?_append_left hlt]; exact c1
  case ldLdWc =>
    exact ⟨hs, ⟨⟨Nat.le_refl _, Nat.le_refl _, fun _ => by simp⟩, ht2, ht3⟩, Or.inl rfl⟩
  case ldWord.isTrue w k buf hk =>
    obtain ⟨a1, a2, a3⟩ := ht1
    refine ⟨hs, ⟨⟨a1, a2, fun e => ?_⟩, ht2, ht3⟩, Or.inl rfl⟩
    rw [a3 e]
    exact take_succ_getD _ _ (by rw [cell_length hs]; have := hs.1; omega)
  case ldCas.isTrue w buf hw =>
    obtain ⟨a1, a2, a3⟩ := ht1
    refine ⟨hs, ⟨trivial, ht2, ?_⟩, Or.inl rfl⟩
    intro g hg
    simp only [List.mem_append, List.mem_singleton] at hg
    rcases hg with hg | rfl
    · exact ht3 g hg
    · refine ⟨?_, a2⟩
      have := hs.2.2.2.2.2.1
      rw [a3 hw.symm, ← hw]; exact this.symm
  case ldCas.isFalse w buf hw =>
    obtain ⟨a1, a2, a3⟩ := ht1
    exact ⟨hs, ⟨⟨Nat.le_refl _, by show begun ≤ s.wc - 1; omega, fun _ => by simp⟩, ht2, ht3⟩, Or.inl rfl⟩
  case acqP.isTrue =>
    exact ⟨hs, ⟨trivial, ht2, ht3⟩, Or.inr (Or.inl ⟨_, rfl⟩)⟩
  case acqP.isFalse =>
    exact ⟨hs, ⟨trivial, ht2, ht3⟩, Or.inl rfl⟩
  case relP =>
    exact ⟨hs, ⟨trivial, ht2, ht3⟩, Or.inr (Or.inl ⟨_, rfl⟩)⟩

theorem other_stable {width : Nat} {s s' : Sh} {isW : Prop} {u : Th} (he : Eff s s' isW)
    (hs : ShOk width s) (hu : ThOk s u) (hne : isW → ¬ IsW u.pc) : ThOk s' u := by
  rcases he with rfl | ⟨b, rfl⟩ | ⟨hw, k, x, rfl⟩ | ⟨hw, v, hv, rfl⟩
  · exact hu
  · exact hu
  · have hnw := hne hw
    have hpar : s.wc % 2 ≠ (s.wc - 1) % 2 := by have := hs.2.2.2.2.1; omega
    rcases u with ⟨pc, todo, hp, got, begun⟩
    obtain ⟨h1, h2, h3⟩ := hu
    refine ⟨?_, by simpa using h2, by simpa using h3⟩
    simp only at h1 hnw ⊢
    cases pc <;> simp only [IsW, not_true_eq_false] at hnw <;> simp only [PcOk, setWord_wc] at h1 ⊢
    case ldWord w k' buf =>
      refine ⟨h1.1, h1.2.1, fun e => ?_⟩
      subst e
      rw [cell_setWord_ne _ _ _ _ _ hpar]; exact h1.2.2 rfl
    case ldCas w buf =>
      refine ⟨h1.1, h1.2.1, fun e => ?_⟩
      subst e
      rw [cell_setWord_ne _ _ _ _ _ hpar]; exact h1.2.2 rfl
  · have hnw := hne hw
    rcases u with ⟨pc, todo, hp, got, begun⟩
    obtain ⟨h1, h2, h3⟩ := hu
    refine ⟨?_, h2, ?_⟩
    · simp only at h1 hnw ⊢
      cases pc <;> simp only [IsW, not_true_eq_false] at hnw <;> simp only [PcOk] at h1 ⊢
      case ldWord w k' buf =>
        exact ⟨by omega, h1.2.1, fun e => by omega⟩
      case ldCas w buf =>
        exact ⟨by omega, h1.2.1, fun e => by omega⟩
    · intro g hg
      obtain ⟨c1, c2⟩ := h3 g hg
      refine ⟨?_, c2⟩
      have hlt : g.1 < s.versions.length := by
        rcases List.getElem?_eq_some_iff.1 c1 with ⟨hlt, -⟩; exact hlt
      simp only
      rw [List.getElem?_append_left hlt]; exact c1

theorem main_step {width : Nat} {c c' : Cfg Sh Th} {i : Nat} {evs : List Ev} (hR : Roles c)
    (hM : Main width c) (h : sys.stepAt c i = some (c', evs)) : Main width c' := by
  obtain ⟨t, sh', t', hti, hst, rfl⟩ := stepAt_inv h
  obtain ⟨t1, hpre, hpc⟩ := step_pre hst
  obtain ⟨h1, h2, h3⟩ := hR
  obtain ⟨hs, hth⟩ := hM
  obtain ⟨hr1, hhp⟩ := role_pre hpre (h3 i t hti)
  obtain ⟨hs', ht', heff⟩ := main_stepPC hpc hs (main_pre hpre hs (hth i t hti))
  refine ⟨hs', ?_⟩
  intro a ta ha
  simp only at ha
  rcases getElem?_set_cases ha with ⟨rfl, rfl⟩ | ⟨hai, ha'⟩
  · exact ht'
  · refine other_stable heff hs (hth _ _ ha') ?_
    intro hw hwa
    have e1 : t.holdsP = true := hhp ▸ hr1.1 hw
    have e2 : ta.holdsP = true := (h3 _ _ ha').1 hwa
    exact hai (h1 _ _ _ _ ha' hti e2 e1)

theorem main_init (width : Nat) (v0 : List Nat) (progs : List (List Cmd))
    (hwf : WF width v0 progs) : Main width (initCfg width v0 progs) := by
  obtain ⟨hv0, hp⟩ := hwf
  refine ⟨⟨rfl, hv0, by simp [initCfg, Sh.init], rfl, Nat.le_refl _, rfl, ?_⟩, ?_⟩
  · intro v hv
    simp [initCfg, Sh.init] at hv
    subst hv; exact hv0
  · intro i t h
    simp only [initCfg, List.getElem?_map, Option.map_eq_some_iff] at h
    obtain ⟨p, hpi, rfl⟩ := h
    have hmem : p ∈ progs := List.mem_of_getElem? hpi
    refine ⟨trivial, ?_, by simp [Th.init]⟩
    intro c hc
    cases c <;> simp only [CmdOk]
    exact hp p hmem _ hc

/-- the inductive invariant: roles, monotone reads, and (under `WF`) the data invariant -/
def Inv (width : Nat) (v0 : List Nat) (progs : List (List Cmd)) (c : Cfg Sh Th) : Prop :=
  Roles c ∧ Mono c ∧ (WF width v0 progs → Main width c)

theorem inv_reachable (width : Nat) (v0 : List Nat) (progs : List (List Cmd)) (c : Cfg Sh Th)
    (h : Reachable sys (initCfg width v0 progs) c) : Inv width v0 progs c := by
  refine Reachable.inv (Inv width v0 progs) ?_ ?_ c h
  · exact ⟨roles_init _ _ _, mono_init _ _ _, main_init _ _ _⟩
  · intro c c' i evs ⟨hR, hMo, hMa⟩ hst
    exact ⟨roles_step hR hst, mono_step hMo hst, fun hwf => main_step hR (hMa hwf) hst⟩

variable (width : Nat) (v0 : List Nat) (progs : List (List Cmd))

/-- at most one thread owns the producer token -/
theorem seqlock_single_producer (c : Cfg Sh Th) (h : Reachable sys (initCfg width v0 progs) c) :
    (c.th.filter (·.holdsP)).length ≤ 1 :=
  filter_length_le_one _ (inv_reachable width v0 progs c h).1.1

/-- the counter counts the complete stores, and the cell the readers are directed to holds the
latest complete value -/
theorem seqlock_current_cell (hwf : WF width v0 progs) (c : Cfg Sh Th)
    (h : Reachable sys (initCfg width v0 progs) c) :
    c.sh.versions.length = c.sh.wc ∧ 1 ≤ c.sh.wc ∧
    some (c.sh.cell (c.sh.wc - 1)) = c.sh.versions[c.sh.wc - 1]? := by
  obtain ⟨-, -, -, h4, h5, h6, -⟩ := ((inv_reachable width v0 progs c h).2.2 hwf).1
  exact ⟨h4, h5, h6⟩

/-- **atomic reads**: whatever a `load` returned is one of the values stored in one piece — never
a mixture of two stores, whatever the width and however the word copies interleave -/
theorem seqlock_load_atomic (hwf : WF width v0 progs) (c : Cfg Sh Th)
    (h : Reachable sys (initCfg width v0 progs) c) :
    ∀ t ∈ c.th, ∀ g ∈ t.got, c.sh.versions[g.1]? = some g.2.1 := by
  intro t ht g hg
  obtain ⟨i, hi⟩ := List.mem_iff_getElem?.1 ht
  exact ((((inv_reachable width v0 progs c h).2.2 hwf).2 i t hi).2.2 g hg).1

/-- a load returns a value at least as new as the one current when the load began -/
theorem seqlock_load_fresh (hwf : WF width v0 progs) (c : Cfg Sh Th)
    (h : Reachable sys (initCfg width v0 progs) c) :
    ∀ t ∈ c.th, ∀ g ∈ t.got, g.2.2 ≤ g.1 := by
  intro t ht g hg
  obtain ⟨i, hi⟩ := List.mem_iff_getElem?.1 ht
  exact ((((inv_reachable width v0 progs c h).2.2 hwf).2 i t hi).2.2 g hg).2

/-- **monotone reads**: successive loads of one reader never go back to an older value -/
theorem seqlock_reads_monotone (c : Cfg Sh Th) (h : Reachable sys (initCfg width v0 progs) c) :
    ∀ t ∈ c.th, (t.got.map (·.1)).Pairwise (· ≤ ·) := by
  intro t ht
  obtain ⟨i, hi⟩ := List.mem_iff_getElem?.1 ht
  exact ((inv_reachable width v0 progs c h).2.1 i t hi).2

/-! ### layout of the two cells (`__internal_get_data_cell`, `__internal_get_unrestricted_atomic_size`) -/
open Iox2.Alloc in
/-- address of cell `i` for a payload area starting at `p` -/
def cellAddr (size al p i : Nat) : Nat := alignUp (p + size * (i % 2)) al

open Iox2.Alloc in
/-- for every value size, every alignment and every (aligned) payload address the two cells are
aligned, disjoint and inside the `2 * align(size, alignment)` bytes reserved for them -/
theorem cells_layout (size al p : Nat) (hal : 0 < al) (hp : p % al = 0) :
    cellAddr size al p 0 % al = 0 ∧ cellAddr size al p 1 % al = 0 ∧
    cellAddr size al p 0 = p ∧
    cellAddr size al p 0 + size ≤ cellAddr size al p 1 ∧
    cellAddr size al p 1 + size ≤ p + 2 * alignUp size al := by
  have e0 : cellAddr size al p 0 = p := by
    simp [cellAddr, alignUp, hp]
  have e1 : cellAddr size al p 1 = alignUp (p + size) al := by
    simp [cellAddr]
  have h1 := Iox2.C15.alignUp_mod (p + size) al hal
  have h2 := Iox2.C15.alignUp_ge (p + size) al hal
  have h3 := Iox2.C15.alignUp_mod size al hal
  have h4 := Iox2.C15.alignUp_ge size al hal
  have h5 : alignUp (p + size) al ≤ p + alignUp size al :=
    Iox2.C15.alignUp_least (p + size) al (p + alignUp size al) hal
      (by rw [Nat.add_mod, hp, h3]; simp) (by omega)
  rw [e0, e1]
  refine ⟨hp, h1, rfl, h2, ?_⟩
  omega

/-- the precondition matters: with an unaligned payload address the two cells may overlap -/
theorem cells_overlap_if_unaligned :
    cellAddr 12 8 1 1 < cellAddr 12 8 1 0 + 12 := by
  decide

/-- non-vacuity: a reader preempted in the middle of its copy while the writer stores twice
(the reader's validation fails and it re-reads) -/
example :
    let progs := [[Cmd.acquireProducer, .store [10, 11], .store [20, 21]], [Cmd.load, .load]]
    let r := sys.run (initCfg 2 [0, 1] progs) ([1, 1] ++ List.replicate 11 0 ++ List.replicate 12 1)
    (r.1.th.map (·.got)) = [[], [(2, [20, 21], 0), (2, [20, 21], 2)]] := by
  decide


end Iox2.C12
