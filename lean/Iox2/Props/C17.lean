/-
C17 — orderly shutdown in any order leaves nothing behind.
Theorems about `Iox2.Shutdown` (the publish-subscribe world plus the node handle and the service
handle as droppable objects, and the function `resources` = what exists in the file system /
shared-memory namespace, validated against the real ipc service after every drop of every
permutation of drop orders).

All theorems are proved as stated.  They rest on `reach_pubsub` (a shutdown history projects to a
publish-subscribe history), the C02 invariant `Iox2.PubSub.C02P.Inv` (`reach_inv`) and one additional
invariant over `PubSub.Reach`, `Iox2.PubSub.C17P.XInv` (`Iox2/Proof/ShutdownC17View.lean`,
`reach_xinv` in `Iox2/Proof/ShutdownC17XInv.lean`): port ids are unique in `pubs`/`subs`, and a port
core exists (`ex`) only while its port object is alive or it has loans / held samples.
`cfg.Sane` is not needed by any proof.
-/
import Iox2.Model.Shutdown
import Iox2.Proof.ShutdownC17XInv
import Iox2.Proof.ShutdownC17Examples
namespace Iox2.Shutdown.C17
open Iox2.PubSub Iox2.Shutdown

/-! ### vocabulary (part of the statements: do not change) -/

/-- the operations that drop an object -/
def IsDrop : SOp → Prop
  | .dnode | .dsvc => True
  | .ps (.dpub _) | .ps (.dsub _) | .ps (.dloan _ _) | .ps (.dsample _ _) => True
  | _ => False

def count (k : String) (r : List (String × Nat)) : Nat :=
  match r.find? (·.1 = k) with
  | some e => e.2
  | none => 0

/-! ### theorems -/

/-- no drop panics, whatever else is still alive -/
theorem drop_never_panics (cfg : Cfg) (ipc : Bool) (s : SWorld) (h : Reach cfg ipc s) (hp : s.w.panicked = false)
    (op : SOp) (hd : IsDrop op) : (step s op).1.w.panicked = false := by
  rcases C17P.step_w s op with h1 | ⟨o, ho, h1⟩
  · rw [h1]; exact hp
  · rw [h1, C17P.psdrop_panicked]
    · exact hp
    · subst ho
      cases o with
      | dpub p => exact Or.inl ⟨p, rfl⟩
      | dsub s => exact Or.inr (Or.inl ⟨s, rfl⟩)
      | dloan p l => exact Or.inr (Or.inr (Or.inl ⟨p, l, rfl⟩))
      | dsample s k => exact Or.inr (Or.inr (Or.inr ⟨s, k, rfl⟩))
      | _ => exact False.elim hd

/-- once every object is dropped — in whatever order, with whatever happened in between — nothing of
what the application created remains, except possibly the node's (empty) directory -/
theorem all_dropped_nothing_left_partial (cfg : Cfg) (hc : cfg.Sane) (ipc : Bool) (s : SWorld) (h : Reach cfg ipc s)
    (hp : s.w.panicked = false) (hall : AllDropped s) :
    resources s = (if s.ipc && s.nodeDirLeft then [("nodedir", 1)] else []) := by
  have hr := C17P.reach_pubsub h
  obtain ⟨h1, h2, h3⟩ := C17P.all_dropped_empty (Iox2.PubSub.C02P.reach_inv hr)
    (Iox2.PubSub.C17P.reach_xinv hr) hall
  obtain ⟨hn, hs, _, _⟩ := hall
  have hpc : portCores s.w = 0 := by unfold portCores; omega
  unfold resources
  cases hipc : s.ipc <;> cases hnd : s.nodeDirLeft <;>
    simp [nodeCore, svcCore, hn, hs, hpc, h1, h3]

/-- … and the directory is left only when the object that released the last reference to the node was a
port-side object (port, loan or sample): if the node handle or the service handle is dropped last, nothing
at all remains -/
theorem node_dir_left_only_by_port (cfg : Cfg) (ipc : Bool) (s : SWorld) (h : Reach cfg ipc s) (op : SOp)
    (hn : s.nodeDirLeft = false) (hl : (step s op).1.nodeDirLeft = true) :
    (∃ o, op = .ps o) ∧ nodeCore s = true ∧ nodeCore (step s op).1 = false ∧ s.node = false ∧ s.svc = false :=
  C17P.dirleft_only_by_port s op hn hl

/-- FALSE AS A FULL STATEMENT (finding D22): "nothing remains" — concrete history after which every
object is dropped and the node's directory is still there -/
theorem all_dropped_nothing_left_refuted :
    ∃ (cfg : Cfg) (ops : List SOp), cfg.Sane ∧
      let s := run (SWorld.init cfg true) ops
      AllDropped s ∧ s.w.panicked = false ∧ resources s ≠ [] :=
  C17P.all_dropped_refuted

/-- objects that are still alive keep what they need: while a publisher port (or one of its loans)
exists, its data segment, its port tag, the service's files and the node's files all exist — even
after the node handle and the service handle were dropped -/
theorem live_publisher_keeps_resources (cfg : Cfg) (hc : cfg.Sane) (s : SWorld) (h : Reach cfg true s)
    (hp : s.w.panicked = false) (p : Nat) (P : Pub) (hP : getP s.w p = some P) (hl : P.alive = true ∨ P.loans ≠ []) :
    let r := resources s
    1 ≤ count "data" r ∧ 1 ≤ count "port_tag" r ∧ count "service" r = 1 ∧ count "dynamic" r = 1 ∧
    count "service_tag" r = 1 ∧ count "node_monitor" r = 1 ∧ count "details" r = 1 ∧ count "nodedir" r = 1 := by
  have hr := C17P.reach_pubsub h
  have hi := Iox2.PubSub.C02P.reach_inv hr
  have hex := C17P.ex_of_live_pub hi hP hl
  obtain ⟨h1, h2⟩ := C17P.portCores_pos_of_pub hP hex
  have hipc := C17P.reach_ipc h
  have hsc : svcCore s = true := by simp [svcCore]; right; omega
  have hnc : nodeCore s = true := by simp [nodeCore, hsc]
  have key : ∀ k v, (C17P.resAll s).find? (·.1 = k) = some (k, v) → v ≠ 0 →
      count k (resources s) = v := by
    intro k v hf hv
    rw [C17P.resources_eq s hipc]
    unfold count
    rw [C17P.find_filter_nonzero hf hv]
  simp only
  refine ⟨?_, ?_, ?_, ?_, ?_, ?_, ?_, ?_⟩
  · rw [key "data" (s.w.pubs.filter (·.2.ex)).length (by simp [C17P.resAll]) (by omega)]; exact h1
  · rw [key "port_tag" (portCores s.w) (by simp [C17P.resAll]) (by omega)]; exact h2
  · exact key "service" 1 (by simp [C17P.resAll, hsc]) (by omega)
  · exact key "dynamic" 1 (by simp [C17P.resAll, hsc]) (by omega)
  · exact key "service_tag" 1 (by simp [C17P.resAll, hsc]) (by omega)
  · exact key "node_monitor" 1 (by simp [C17P.resAll, hnc]) (by omega)
  · exact key "details" 1 (by simp [C17P.resAll, hnc]) (by omega)
  · exact key "nodedir" 1 (by simp [C17P.resAll, hnc]) (by omega)

theorem live_subscriber_keeps_resources (cfg : Cfg) (hc : cfg.Sane) (s : SWorld) (h : Reach cfg true s)
    (hp : s.w.panicked = false) (sb : Nat) (S : Sub) (hS : getS s.w sb = some S) (hl : S.alive = true ∨ S.held ≠ []) :
    let r := resources s
    1 ≤ count "port_tag" r ∧ count "service" r = 1 ∧ count "dynamic" r = 1 ∧
    count "service_tag" r = 1 ∧ count "node_monitor" r = 1 ∧ count "details" r = 1 ∧ count "nodedir" r = 1 := by
  have hr := C17P.reach_pubsub h
  have hi := Iox2.PubSub.C02P.reach_inv hr
  have hex := C17P.ex_of_live_sub hi hS hl
  have h2 := C17P.portCores_pos_of_sub hS hex
  have hipc := C17P.reach_ipc h
  have hsc : svcCore s = true := by simp [svcCore]; right; omega
  have hnc : nodeCore s = true := by simp [nodeCore, hsc]
  have key : ∀ k v, (C17P.resAll s).find? (·.1 = k) = some (k, v) → v ≠ 0 →
      count k (resources s) = v := by
    intro k v hf hv
    rw [C17P.resources_eq s hipc]
    unfold count
    rw [C17P.find_filter_nonzero hf hv]
  simp only
  refine ⟨?_, ?_, ?_, ?_, ?_, ?_, ?_⟩
  · rw [key "port_tag" (portCores s.w) (by simp [C17P.resAll]) (by omega)]; exact h2
  · exact key "service" 1 (by simp [C17P.resAll, hsc]) (by omega)
  · exact key "dynamic" 1 (by simp [C17P.resAll, hsc]) (by omega)
  · exact key "service_tag" 1 (by simp [C17P.resAll, hsc]) (by omega)
  · exact key "node_monitor" 1 (by simp [C17P.resAll, hnc]) (by omega)
  · exact key "details" 1 (by simp [C17P.resAll, hnc]) (by omega)
  · exact key "nodedir" 1 (by simp [C17P.resAll, hnc]) (by omega)

/-- resource accounting is exact: one port tag per port core, one data segment per publisher core, one
connection object per connection that still has a side attached; and a connection never outlives both
of its ports -/
theorem connections_have_a_port (cfg : Cfg) (hc : cfg.Sane) (ipc : Bool) (s : SWorld) (h : Reach cfg ipc s)
    (hp : s.w.panicked = false) (cn : Conn) (hcn : cn ∈ s.w.conns) :
    (∃ P, getP s.w cn.pid = some P ∧ P.ex = true) ∨ (∃ S, getS s.w cn.sid = some S ∧ S.ex = true) :=
  C17P.conn_has_port (Iox2.PubSub.C02P.reach_inv (C17P.reach_pubsub h)) hcn

/-- the publish-subscribe part of a shutdown history is a publish-subscribe history: every theorem of
C01 / C02 / C08 applies to the survivors -/
theorem reach_pubsub (cfg : Cfg) (ipc : Bool) (s : SWorld) (h : Reach cfg ipc s) : PubSub.Reach cfg s.w :=
  C17P.reach_pubsub h

/-- non-vacuity: a history in which the node handle and the service handle are dropped first and a
publisher still loans and sends afterwards -/
example : ∃ (cfg : Cfg) (s : SWorld) (P : Pub), cfg.Sane ∧ Reach cfg true s ∧ s.node = false ∧ s.svc = false ∧
    getP s.w 0 = some P ∧ P.alive = true ∧ P.seq = 1 :=
  C17P.nonvacuous

end Iox2.Shutdown.C17

