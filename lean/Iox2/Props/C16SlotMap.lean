/-
C16 / SlotMap + FlatMap — representation invariant and refinement to a partial map.

Models: Iox2/Model/SlotMap.lean, Iox2/Model/FlatMap.lean (unchanged).

Invariant.  The suggested `Inv` was restructured:
  * `Chain fl head c`   — ghost list `c` of the doubly linked free list: `head = c[0]?`, the
                          positions of `c` are injective (no duplicates), every element is a valid
                          index, `next c[i] = c[i+1]?`, `prev c[i] = c[i-1]?` (`none` for `i = 0`).
                          Links of keys that are *not* in `c` (stale links of used keys) are
                          unconstrained.
  * `Core s`            — lengths, used keys map injectively into data slots `< cap`, `dataFree` is
                          duplicate free and lists exactly the data slots no key points to, and the
                          counting facts `dataFree.length + len = cap`, `len = #used keys`.
  * `FreeOK s c`        — `Chain`, `c` lists exactly the unused keys, `c.length + len = cap`.
  * `WInv s`            — `Core s ∧ ∃ c, FreeOK s c`   (structural invariant)
  * `Inv s`             — `WInv s` + `DataSome s` (every used key points to an occupied data slot).

RESULT SUMMARY
  * proved verbatim: `inv_init`, `abs_init`, `insert_spec`, `insertAt_spec`, `remove_spec`,
    `get_spec`, `contains_spec`, `len_spec`, `items_spec`, and all FlatMap theorems
    (`inv_init`, `step_inv`, `insert_spec`, `remove_spec`, `getRef_spec`, `contains_spec`).
  * FALSE as stated: `step_inv` and `reachable_inv` (for *every* candidate invariant, see
    `step_inv_false`): `dropAll` empties all data slots but keeps `idxToData`, and a later
    `get k` of a formerly stored key hits `data[di] = none` and returns `.panic`.
    Counterexample: `init 1`, `insert 7`, `dropAll`, `get 0`.
    Strongest true variants: `step_winv` (structural invariant preserved by *every* operation; the
    only possible panic is that `get`), `step_inv_partial` (`op ≠ dropAll`), `dropAll_spec`,
    `reachable_winv`, `reachable_inv_partial`.
  * The FlatMap invariant uses the structural `WInv` of the slot map (weaker hypothesis, hence
    stronger theorems); with it FlatMap's `step_inv` holds for every operation including
    `dropAll` (FlatMap never calls the panicking `get`).
-/
import Iox2.Model.SlotMap
import Iox2.Model.FlatMap

namespace Iox2.C16.SlotMapP
open Iox2 Iox2.SlotMap

/-! ## accessors of the free-list entries -/

def nx (fl : List Entry) (k : Nat) : Option Nat := (fl.getD k default).next
def pv (fl : List Entry) (k : Nat) : Option Nat := (fl.getD k default).prev

theorem nx_setNext (fl : List Entry) (i : Nat) (v : Option Nat) (x : Nat) :
    nx (setNext fl i v) x = if x = i ∧ i < fl.length then v else nx fl x := by
  unfold nx setNext
  simp only [List.getD_eq_getElem?_getD, List.getElem?_modify]
  grind

theorem pv_setNext (fl : List Entry) (i : Nat) (v : Option Nat) (x : Nat) :
    pv (setNext fl i v) x = pv fl x := by
  unfold pv setNext
  simp only [List.getD_eq_getElem?_getD, List.getElem?_modify]
  grind

theorem nx_setPrev (fl : List Entry) (i : Nat) (v : Option Nat) (x : Nat) :
    nx (setPrev fl i v) x = nx fl x := by
  unfold nx setPrev
  simp only [List.getD_eq_getElem?_getD, List.getElem?_modify]
  grind

theorem pv_setPrev (fl : List Entry) (i : Nat) (v : Option Nat) (x : Nat) :
    pv (setPrev fl i v) x = if x = i ∧ i < fl.length then v else pv fl x := by
  unfold pv setPrev
  simp only [List.getD_eq_getElem?_getD, List.getElem?_modify]
  grind

theorem nx_set (fl : List Entry) (i : Nat) (e : Entry) (x : Nat) :
    nx (fl.set i e) x = if x = i ∧ i < fl.length then e.next else nx fl x := by
  unfold nx
  simp only [List.getD_eq_getElem?_getD, List.getElem?_set]
  grind

theorem pv_set (fl : List Entry) (i : Nat) (e : Entry) (x : Nat) :
    pv (fl.set i e) x = if x = i ∧ i < fl.length then e.prev else pv fl x := by
  unfold pv
  simp only [List.getD_eq_getElem?_getD, List.getElem?_set]
  grind

@[simp] theorem length_setNext (fl : List Entry) (i : Nat) (v : Option Nat) : (setNext fl i v).length = fl.length := by
  simp [setNext]
@[simp] theorem length_setPrev (fl : List Entry) (i : Nat) (v : Option Nat) : (setPrev fl i v).length = fl.length := by
  simp [setPrev]

structure Chain (fl : List Entry) (head : Option Nat) (c : List Nat) : Prop where
  hd : head = c[0]?
  inj : ∀ (i j k : Nat), c[i]? = some k → c[j]? = some k → i = j
  lt : ∀ (i k : Nat), c[i]? = some k → k < fl.length
  next : ∀ (i k : Nat), c[i]? = some k → nx fl k = c[i+1]?
  prev : ∀ (i k : Nat), c[i]? = some k → pv fl k = if i = 0 then none else c[i-1]?

theorem Chain.pop {fl : List Entry} {k : Nat} {c : List Nat} (h : Chain fl (some k) c) :
    ∃ c', c = k :: c' ∧
      Chain (match nx fl k with | some n => setPrev fl n none | none => fl) (nx fl k) c' := by
  obtain ⟨hd, inj, lt, next, prev⟩ := h
  cases c with
  | nil => simp at hd
  | cons a c' =>
    simp at hd; subst hd
    refine ⟨c', rfl, ?_⟩
    have h0 : nx fl k = c'[0]? := by simpa using next 0 k (by simp)
    have inj' : ∀ (i j x : Nat), c'[i]? = some x → c'[j]? = some x → i = j := by
      intro i j x hi hj
      have := inj (i+1) (j+1) x (by simpa using hi) (by simpa using hj)
      omega
    have lt' : ∀ (i x : Nat), c'[i]? = some x → x < fl.length := fun i x hi => lt (i+1) x (by simpa using hi)
    have next' : ∀ (i x : Nat), c'[i]? = some x → nx fl x = c'[i+1]? := fun i x hi => by
      simpa using next (i+1) x (by simpa using hi)
    have prev' : ∀ (i x : Nat), c'[i]? = some x → 0 < i → pv fl x = c'[i-1]? := fun i x hi hpos => by
      have := prev (i+1) x (by simpa using hi)
      simp at this
      rw [this]
      cases i with
      | zero => omega
      | succ i => simp
    rw [h0]
    cases hc : c'[0]? with
    | none =>
      simp only
      refine ⟨hc.symm, inj', lt', next', ?_⟩
      intro i x hi
      cases c' <;> simp at hc hi
    | some n =>
      simp only
      refine ⟨hc.symm, inj', by simpa using lt', ?_, ?_⟩
      · intro i x hi; rw [nx_setPrev]; exact next' i x hi
      · intro i x hi
        rw [pv_setPrev]
        by_cases hi0 : i = 0
        · subst hi0; rw [hc] at hi; cases hi; simp [lt' 0 _ hc]
        · have : x ≠ n := by intro hx; subst hx; exact hi0 (inj' i 0 x hi hc)
          simp [this, hi0]; exact prev' i x hi (by omega)

theorem Chain.push {fl : List Entry} {head : Option Nat} {c : List Nat} {k : Nat} (h : Chain fl head c)
    (hk : k < fl.length) (hn : ∀ i : Nat, c[i]? ≠ some k) :
    Chain ((match head with | some h => setPrev fl h (some k) | none => fl).set k ⟨none, head⟩)
      (some k) (k :: c) := by
  obtain ⟨hd, inj, lt, next, prev⟩ := h
  have hlen : (match head with | some h => setPrev fl h (some k) | none => fl).length = fl.length := by
    split <;> simp
  have hnx : ∀ x, nx (match head with | some h => setPrev fl h (some k) | none => fl) x = nx fl x := by
    intro x; split <;> simp [nx_setPrev]
  have hpv : ∀ x, pv (match head with | some h => setPrev fl h (some k) | none => fl) x =
      if some x = head then some k else pv fl x := by
    intro x
    split
    · rename_i h'
      rw [pv_setPrev]
      have : h' < fl.length := lt 0 h' (by rw [← hd])
      simp [this]
    · simp
  refine ⟨rfl, ?_, ?_, ?_, ?_⟩
  · intro i j x hi hj
    cases i <;> cases j <;> simp at hi hj
    · rfl
    · subst hi; exact absurd hj (hn _)
    · subst hj; exact absurd hi (hn _)
    · have := inj _ _ _ hi hj; omega
  · intro i x hi
    rw [List.length_set, hlen]
    cases i <;> simp at hi
    · omega
    · exact lt _ _ hi
  · intro i x hi
    rw [nx_set, hlen, hnx]
    cases i <;> simp at hi
    · subst hi; simp [hk, hd]
    · have : x ≠ k := by intro hx; subst hx; exact hn _ hi
      simp [this]; exact next _ _ hi
  · intro i x hi
    rw [pv_set, hlen, hpv]
    cases i <;> simp at hi
    · subst hi; simp [hk]
    · rename_i i
      have : x ≠ k := by intro hx; subst hx; exact hn _ hi
      simp [this]
      by_cases h0 : i = 0
      · subst h0; simp [hd, hi]
      · have : some x ≠ head := by
          rw [hd]; intro hx; exact h0 (inj _ _ _ hi hx.symm)
        simp [this]
        rw [prev _ _ hi]; simp [h0]
        cases i with
        | zero => omega
        | succ i => simp

theorem getD_of_getElem? {fl : List Entry} {k : Nat} {ent : Entry} (h : fl[k]? = some ent) :
    nx fl k = ent.next ∧ pv fl k = ent.prev := by
  simp [nx, pv, List.getD_eq_getElem?_getD, h]

theorem Chain.unlink {fl : List Entry} {head : Option Nat} {c : List Nat} {j k : Nat} {ent : Entry}
    (h : Chain fl head c) (hj : c[j]? = some k) (he : fl[k]? = some ent)
    (fl1 fl2 : List Entry)
    (h1 : fl1 = match ent.prev with | some p => setNext fl p ent.next | none => fl)
    (h2 : fl2 = match ent.next with | some n => setPrev fl1 n ent.prev | none => fl1) :
    Chain (setPrev (setNext fl2 k none) k none) (if head = some k then ent.next else head)
      (c.eraseIdx j) := by
  obtain ⟨hd, inj, lt, next, prev⟩ := h
  obtain ⟨en, ep⟩ := getD_of_getElem? he
  have hnext := next j k hj
  have hprev := prev j k hj
  rw [en] at hnext
  rw [ep] at hprev
  have hklt := lt j k hj
  have l1 : fl1.length = fl.length := by subst h1; split <;> simp
  have l2 : fl2.length = fl.length := by subst h2; split <;> simp [l1]
  have nx1 : ∀ x, nx fl1 x = if some x = ent.prev then ent.next else nx fl x := by
    intro x; subst h1
    split
    · rename_i p hp
      have : p < fl.length := by
        rw [hp] at hprev
        by_cases hj0 : j = 0
        · simp [hj0] at hprev
        · simp [hj0] at hprev; exact lt _ _ hprev.symm
      rw [nx_setNext]; simp [this, hp]
    · rename_i hp; simp [hp]
  have pv1 : ∀ x, pv fl1 x = pv fl x := by
    intro x; subst h1; split <;> simp [pv_setNext]
  have nx2 : ∀ x, nx fl2 x = nx fl1 x := by
    intro x; subst h2; split <;> simp [nx_setPrev]
  have pv2 : ∀ x, pv fl2 x = if some x = ent.next then ent.prev else pv fl x := by
    intro x; subst h2
    split
    · rename_i n hn
      have : n < fl.length := by rw [hn] at hnext; exact lt _ _ hnext.symm
      rw [pv_setPrev, l1, pv1]; simp [this, hn]
    · rename_i hn; simp [pv1, hn]
  have nxF : ∀ x, nx (setPrev (setNext fl2 k none) k none) x =
      if x = k then none else if some x = ent.prev then ent.next else nx fl x := by
    intro x; rw [nx_setPrev, nx_setNext, l2, nx2, nx1]; simp [hklt]
  have pvF : ∀ x, pv (setPrev (setNext fl2 k none) k none) x =
      if x = k then none else if some x = ent.next then ent.prev else pv fl x := by
    intro x; rw [pv_setPrev, pv_setNext, length_setNext, l2, pv2]; simp [hklt]
  have ce : ∀ i : Nat, (c.eraseIdx j)[i]? = if i < j then c[i]? else c[i+1]? := fun i => List.getElem?_eraseIdx
  -- an element of the erased chain is not k, and comes from a position ≠ j
  have key : ∀ (i x : Nat), (c.eraseIdx j)[i]? = some x →
      x ≠ k ∧ ((i < j ∧ c[i]? = some x) ∨ (j ≤ i ∧ c[i+1]? = some x)) := by
    intro i x hi
    rw [ce] at hi
    split at hi
    · refine ⟨?_, Or.inl ⟨by assumption, hi⟩⟩
      intro hx; subst hx; have := inj _ _ _ hi hj; omega
    · refine ⟨?_, Or.inr ⟨by omega, hi⟩⟩
      intro hx; subst hx; have := inj _ _ _ hi hj; omega
  refine ⟨?_, ?_, ?_, ?_, ?_⟩
  · rw [ce]
    by_cases hj0 : j = 0
    · subst hj0; simp [hd, hj, hnext]
    · have : head ≠ some k := by
        rw [hd]; intro h0; exact hj0 (inj _ _ _ hj h0)
      rw [if_neg this, if_pos (by omega : 0 < j)]; exact hd
  · intro i i' x hi hi'
    obtain ⟨-, h | h⟩ := key i x hi <;> obtain ⟨-, h' | h'⟩ := key i' x hi' <;>
      have := inj _ _ _ h.2 h'.2 <;> omega
  · intro i x hi
    simp only [length_setPrev, length_setNext, l2]
    obtain ⟨-, h | h⟩ := key i x hi
    · exact lt _ _ h.2
    · exact lt _ _ h.2
  · intro i x hi
    obtain ⟨hxk, h | ⟨hle, h⟩⟩ := key i x hi
    · obtain ⟨hlt, h⟩ := h
      rw [nxF, ce]; simp only [hxk, if_false]
      by_cases hij : i + 1 = j
      · have hj0 : j ≠ 0 := by omega
        have : ent.prev = some x := by
          rw [hprev]; simp [hj0]; rw [← h]; congr 1; omega
        simp [this, hnext]
        have : ¬ (i + 1 < j) := by omega
        simp [hij]
      · have : some x ≠ ent.prev := by
          rw [hprev]; intro hx
          by_cases hj0 : j = 0
          · simp [hj0] at hx
          · simp [hj0] at hx; have := inj _ _ _ h hx.symm; omega
        have h' : i + 1 < j := by omega
        simp [this, h']; exact next _ _ h
    · rw [nxF, ce]; simp only [hxk, if_false]
      have : some x ≠ ent.prev := by
        rw [hprev]; intro hx
        by_cases hj0 : j = 0
        · simp [hj0] at hx
        · simp [hj0] at hx; have := inj _ _ _ h hx.symm; omega
      have h' : ¬ (i + 1 < j) := by omega
      simp [this, h']; exact next _ _ h
  · intro i x hi
    obtain ⟨hxk, h | ⟨hle, h⟩⟩ := key i x hi
    · obtain ⟨hlt, h⟩ := h
      rw [pvF]; simp only [hxk, if_false]
      have : some x ≠ ent.next := by
        rw [hnext]; intro hx; have := inj _ _ _ h hx.symm; omega
      simp only [this, if_false]
      rw [prev _ _ h]
      by_cases hi0 : i = 0
      · simp [hi0]
      · simp only [hi0, if_false]; rw [ce]
        have : i - 1 < j := by omega
        simp [this]
    · rw [pvF]; simp only [hxk, if_false]
      by_cases hij : i = j
      · subst hij
        have : some x = ent.next := by rw [hnext, h]
        simp only [this, if_true]
        rw [hprev]
        by_cases hi0 : i = 0
        · simp [hi0]
        · simp only [hi0, if_false]; rw [ce]
          have : i - 1 < i := by omega
          simp [this]
      · have : some x ≠ ent.next := by
          rw [hnext]; intro hx; have := inj _ _ _ h hx.symm; omega
        simp only [this, if_false]
        rw [prev _ _ h]
        have hi0 : i ≠ 0 := by omega
        simp only [hi0, if_false]; rw [ce]
        have : ¬ (i - 1 < j) := by omega
        simp [this]
        congr 1; omega

variable {α : Type}

def abs (s : St α) (k : Nat) : Option α :=
  match s.idxToData.getD k none with
  | none => none
  | some di => s.data.getD di none

theorem abs_unused {s : St α} {k : Nat} (h : s.idxToData[k]? = some none) : abs s k = none := by
  simp [abs, List.getD_eq_getElem?_getD, h]
theorem abs_oob {s : St α} {k : Nat} (h : s.idxToData[k]? = none) : abs s k = none := by
  simp [abs, List.getD_eq_getElem?_getD, h]
theorem abs_used {s : St α} {k di : Nat} (h : s.idxToData[k]? = some (some di)) :
    abs s k = s.data.getD di none := by
  simp [abs, List.getD_eq_getElem?_getD, h]

structure Core (s : St α) : Prop where
  lenIdx : s.idxToData.length = s.cap
  lenFree : s.freeList.length = s.cap
  lenData : s.data.length = s.cap
  dataLt : ∀ (k di : Nat), s.idxToData[k]? = some (some di) → di < s.cap
  dataInj : ∀ (k1 k2 di : Nat), s.idxToData[k1]? = some (some di) →
    s.idxToData[k2]? = some (some di) → k1 = k2
  dfNodup : s.dataFree.Nodup
  dfFree : ∀ di : Nat, di ∈ s.dataFree ↔ (di < s.cap ∧ ∀ k : Nat, s.idxToData[k]? ≠ some (some di))
  dfLen : s.dataFree.length + s.len = s.cap
  lenOk : s.len = s.idxToData.countP Option.isSome

def FreeOK (s : St α) (c : List Nat) : Prop :=
  Chain s.freeList s.head c ∧ (∀ x : Nat, x ∈ c ↔ s.idxToData[x]? = some none) ∧
    c.length + s.len = s.cap

def FreeHole (s : St α) (k : Nat) (c : List Nat) : Prop :=
  Chain s.freeList s.head c ∧ (∀ x : Nat, x ∈ c ↔ (x ≠ k ∧ s.idxToData[x]? = some none)) ∧
    c.length + 1 + s.len = s.cap ∧ s.idxToData[k]? = some none

def DataSome (s : St α) : Prop :=
  ∀ (k di : Nat), s.idxToData[k]? = some (some di) → (s.data.getD di none).isSome = true

structure WInv (s : St α) : Prop where
  core : Core s
  free : ∃ c, FreeOK s c

structure Inv (s : St α) : Prop extends WInv s where
  dataSome : DataSome s

/-- `Core` only looks at the length of the free list -/
theorem Core.relink {s : St α} (h : Core s) (fl : List Entry) (hd : Option Nat) (hl : fl.length = s.cap) :
    Core { s with freeList := fl, head := hd } :=
  ⟨h.lenIdx, hl, h.lenData, h.dataLt, h.dataInj, h.dfNodup, h.dfFree, h.dfLen, h.lenOk⟩

theorem unused_lt {s : St α} (h : Core s) {k : Nat} {v : Option Nat} (hk : s.idxToData[k]? = some v) : k < s.cap := by
  rw [← h.lenIdx]
  exact (List.getElem?_eq_some_iff.mp hk).1

theorem acquire_some {s : St α} {c : List Nat} {k : Nat} (hc : Core s) (hf : FreeOK s c)
    (hh : s.head = some k) :
    ∃ fl hd c', acquireNextFreeIndex s = some ({ s with freeList := fl, head := hd }, some k) ∧
      fl.length = s.cap ∧ FreeHole { s with freeList := fl, head := hd } k c' := by
  obtain ⟨hch, hmem, hlen⟩ := hf
  rw [hh] at hch
  obtain ⟨c', rfl, hch'⟩ := hch.pop
  have hk : s.idxToData[k]? = some none := (hmem k).1 (by simp)
  have hklt : k < s.cap := unused_lt hc hk
  have hfl : s.freeList[k]? = some (s.freeList.getD k default) := by
    simp [List.getD_eq_getElem?_getD]
    rw [List.getElem?_eq_getElem (by rw [hc.lenFree]; exact hklt)]; simp
  refine ⟨_, _, c', ?_, ?_, hch', ?_, ?_, hk⟩
  · simp only [acquireNextFreeIndex, hh, hfl]; rfl
  · simp only [nx]; split <;> simp [hc.lenFree]
  · intro x
    have hnd : k ∉ c' := by
      intro hx
      obtain ⟨i, hi⟩ := List.mem_iff_getElem?.mp hx
      have := hch.inj 0 (i+1) k (by simp) (by simpa using hi)
      omega
    have := hmem x
    simp only [List.mem_cons] at this
    constructor
    · intro hx
      exact ⟨fun h => hnd (h ▸ hx), this.1 (Or.inr hx)⟩
    · rintro ⟨hne, hx⟩
      rcases this.2 hx with h | h
      · exact absurd h hne
      · exact h
  · simp at hlen ⊢; omega

theorem claim_noop {s : St α} {k : Nat} (h : s.cap ≤ k ∨ ∃ di, s.idxToData[k]? = some (some di)) :
    claimIndex s k = s := by
  unfold claimIndex
  rcases h with h | ⟨di, h⟩
  · simp [h]
  · simp [List.getD_eq_getElem?_getD, h]

theorem claim_unused {s : St α} {c : List Nat} {k : Nat} (hc : Core s) (hf : FreeOK s c)
    (hk : s.idxToData[k]? = some none) :
    ∃ fl hd c', claimIndex s k = { s with freeList := fl, head := hd } ∧
      fl.length = s.cap ∧ FreeHole { s with freeList := fl, head := hd } k c' := by
  obtain ⟨hch, hmem, hlen⟩ := hf
  have hklt : k < s.cap := unused_lt hc hk
  obtain ⟨j, hj⟩ := List.mem_iff_getElem?.mp ((hmem k).2 hk)
  obtain ⟨ent, hfl⟩ : ∃ ent, s.freeList[k]? = some ent :=
    ⟨_, List.getElem?_eq_getElem (by rw [hc.lenFree]; exact hklt)⟩
  have hch' := hch.unlink hj hfl _ _ rfl rfl
  generalize hF : setPrev _ k none = F at hch'
  generalize hH : (if s.head = some k then ent.next else s.head) = H at hch'
  have hjlt : j < c.length := (List.getElem?_eq_some_iff.mp hj).1
  refine ⟨F, H, c.eraseIdx j, ?_, ?_, hch', ?_, ?_, hk⟩
  · subst hF hH
    unfold claimIndex
    simp only [ge_iff_le, Nat.not_le.mpr hklt, if_false, List.getD_eq_getElem?_getD, hk, hfl,
      Option.getD_some, Option.isSome_none, Bool.false_eq_true]
    by_cases hh : s.head = some k <;> simp [hh] <;> rfl
  · subst hF
    simp only [length_setPrev, length_setNext]; split <;> split <;> simp [hc.lenFree]
  · intro x
    rw [List.mem_eraseIdx_iff_getElem?, ← hmem x, List.mem_iff_getElem?]
    constructor
    · rintro ⟨i, hne, hi⟩
      refine ⟨?_, i, hi⟩
      intro hx; subst hx; exact hne (hch.inj _ _ _ hi hj)
    · rintro ⟨hne, i, hi⟩
      refine ⟨i, ?_, hi⟩
      intro hij; subst hij; rw [hj] at hi; cases hi; exact hne rfl
  · simp [List.length_eraseIdx, hjlt]; omega

theorem store_oob {s : St α} {k : Nat} (e : α) (h : s.cap ≤ k) :
    storeValue s k e = some (s, false, [e]) := by
  simp [storeValue, h]

theorem store_used {s : St α} (hc : Core s) {k di : Nat} (h : s.idxToData[k]? = some (some di)) (e : α) :
    storeValue s k e =
      some ({ s with data := s.data.set di (some e) }, true, (s.data.getD di none).toList) := by
  have := unused_lt hc h
  simp [storeValue, h, Nat.not_le.mpr this]

theorem abs_store {s s2 : St α} {k n : Nat} {e : α}
    (h1 : s2.idxToData = s.idxToData.set k (some n)) (h2 : s2.data = s.data.set n (some e))
    (hk : k < s.idxToData.length) (hn : n < s.data.length)
    (hfresh : ∀ k' : Nat, s.idxToData[k']? ≠ some (some n)) (k' : Nat) :
    abs s2 k' = if k' = k then some e else abs s k' := by
  unfold abs
  simp only [List.getD_eq_getElem?_getD, h1, h2, List.getElem?_set]
  by_cases hkk : k' = k
  · subst hkk; simp [hk, hn]
  · have hkk' : ¬ k = k' := fun h => hkk h.symm
    simp only [hkk, hkk', if_false]
    cases hv : s.idxToData[k']? with
    | none => simp
    | some v =>
      cases v with
      | none => simp
      | some di =>
        have : n ≠ di := by intro h; subst h; exact hfresh _ hv
        simp [this]

theorem store_hole {s : St α} {c : List Nat} {k : Nat} (hc : Core s) (hf : FreeHole s k c) (e : α) :
    ∃ n rest, s.dataFree = n :: rest ∧ n < s.cap ∧ (∀ k' : Nat, s.idxToData[k']? ≠ some (some n)) ∧
      storeValue s k e = some ({ s with dataFree := rest, idxToData := s.idxToData.set k (some n),
                                        data := s.data.set n (some e), len := s.len + 1 }, true, []) ∧
      Core { s with dataFree := rest, idxToData := s.idxToData.set k (some n),
                    data := s.data.set n (some e), len := s.len + 1 } ∧
      FreeOK { s with dataFree := rest, idxToData := s.idxToData.set k (some n),
                      data := s.data.set n (some e), len := s.len + 1 } c := by
  obtain ⟨hch, hmem, hlen, hk⟩ := hf
  have hklt : k < s.cap := unused_lt hc hk
  have hdl := hc.dfLen
  cases hdf : s.dataFree with
  | nil => simp [hdf] at hdl; omega
  | cons n rest =>
    have hnin : n ∈ s.dataFree := by simp [hdf]
    obtain ⟨hnlt, hfresh⟩ := (hc.dfFree n).1 hnin
    have hnd := hc.dfNodup
    rw [hdf, List.nodup_cons] at hnd
    refine ⟨n, rest, rfl, hnlt, hfresh, ?_, ?_, ?_⟩
    · simp [storeValue, Nat.not_le.mpr hklt, hk, hdf]
    · refine ⟨by simp [hc.lenIdx], hc.lenFree, by simp [hc.lenData], ?_, ?_, hnd.2, ?_, ?_, ?_⟩
      · intro k' di h
        simp only [List.getElem?_set] at h
        split at h
        · split at h
          · cases h; exact hnlt
          · cases h
        · exact hc.dataLt _ _ h
      · intro k1 k2 di h1 h2
        simp only [List.getElem?_set] at h1 h2
        split at h1 <;> split at h2
        · omega
        · split at h1
          · cases h1; exact absurd h2 (hfresh _)
          · cases h1
        · split at h2
          · cases h2; exact absurd h1 (hfresh _)
          · cases h2
        · exact hc.dataInj _ _ _ h1 h2
      · intro di
        simp only [List.getElem?_set]
        have hdf' := hc.dfFree di
        rw [hdf, List.mem_cons] at hdf'
        constructor
        · intro hdi
          have hne : di ≠ n := fun h => hnd.1 (h ▸ hdi)
          obtain ⟨h1, h2⟩ := hdf'.1 (Or.inr hdi)
          refine ⟨h1, fun k' => ?_⟩
          split
          · split
            · intro h; cases h; exact hne rfl
            · simp
          · exact h2 k'
        · rintro ⟨h1, h2⟩
          have hne : di ≠ n := by
            intro h; subst h
            have := h2 k
            simp [hc.lenIdx, hklt] at this
          have : ∀ k' : Nat, s.idxToData[k']? ≠ some (some di) := by
            intro k' hk'
            have := h2 k'
            split at this
            · rename_i hkk; subst hkk; rw [hk] at hk'; cases hk'
            · exact this hk'
          rcases hdf'.2 ⟨h1, this⟩ with h | h
          · exact absurd h hne
          · exact h
      · simp [hdf] at hdl ⊢; omega
      · have hl : k < s.idxToData.length := by rw [hc.lenIdx]; exact hklt
        have hg : s.idxToData[k] = none := by
          have := List.getElem?_eq_getElem hl
          rw [hk] at this; exact (Option.some.inj this).symm
        simp only [List.countP_set hl, hg]
        simp [hc.lenOk]
    · refine ⟨hch, ?_, by simp; omega⟩
      intro x
      rw [hmem x]
      simp only [List.getElem?_set]
      constructor
      · rintro ⟨hne, hx⟩
        have : ¬ k = x := fun h => hne h.symm
        simp [this, hx]
      · intro h
        split at h
        · split at h <;> cases h
        · exact ⟨fun h' => by omega, h⟩

theorem abs_remove {s s3 : St α} {k di : Nat}
    (h1 : s3.idxToData = s.idxToData.set k none) (h2 : s3.data = s.data.set di none)
    (hk : s.idxToData[k]? = some (some di))
    (hinj : ∀ (k1 k2 di : Nat), s.idxToData[k1]? = some (some di) →
      s.idxToData[k2]? = some (some di) → k1 = k2) (k' : Nat) :
    abs s3 k' = if k' = k then none else abs s k' := by
  have hklt : k < s.idxToData.length := (List.getElem?_eq_some_iff.mp hk).1
  unfold abs
  simp only [List.getD_eq_getElem?_getD, h1, h2, List.getElem?_set]
  by_cases hkk : k' = k
  · subst hkk; simp [hklt]
  · have hkk' : ¬ k = k' := fun h => hkk h.symm
    simp only [hkk, hkk', if_false]
    cases hv : s.idxToData[k']? with
    | none => simp
    | some v =>
      cases v with
      | none => simp
      | some di' =>
        have : di ≠ di' := by intro h; subst h; exact hkk (hinj _ _ _ hv hk)
        simp [this]

theorem remove_used {s : St α} {c : List Nat} {k di : Nat} (hc : Core s) (hf : FreeOK s c)
    (h : s.idxToData[k]? = some (some di)) :
    ∃ fl, fl.length = s.cap ∧
      step s (.remove k) =
        ({ s with data := s.data.set di none, dataFree := s.dataFree ++ [di], freeList := fl,
                      head := some k, idxToData := s.idxToData.set k none, len := s.len - 1 },
         (match s.data.getD di none with | some e => .some e | none => .none), []) ∧
      Core { s with data := s.data.set di none, dataFree := s.dataFree ++ [di], freeList := fl,
                      head := some k, idxToData := s.idxToData.set k none, len := s.len - 1 } ∧
      FreeOK { s with data := s.data.set di none, dataFree := s.dataFree ++ [di], freeList := fl,
                      head := some k, idxToData := s.idxToData.set k none, len := s.len - 1 } (k :: c) := by
  obtain ⟨hch, hmem, hlen⟩ := hf
  have hklt : k < s.cap := unused_lt hc h
  have hl : k < s.idxToData.length := by rw [hc.lenIdx]; exact hklt
  have hnotin : ∀ i : Nat, c[i]? ≠ some k := by
    intro i hi
    have := (hmem k).1 (List.mem_iff_getElem?.mpr ⟨i, hi⟩)
    rw [h] at this; cases this
  have hpush := hch.push (k := k) (by rw [hc.lenFree]; exact hklt) hnotin
  have hg : s.idxToData[k] = some di := by
    have := List.getElem?_eq_getElem hl
    rw [h] at this; exact (Option.some.inj this).symm
  have hlenpos : 1 ≤ s.len := by
    rw [hc.lenOk]
    apply List.countP_pos_iff.mpr
    exact ⟨some di, List.mem_of_getElem? h, rfl⟩
  have hdin : di ∉ s.dataFree := by
    intro hdi
    exact ((hc.dfFree di).1 hdi).2 k h
  refine ⟨(match s.head with | some h => setPrev s.freeList h (some k) | none => s.freeList).set k
    ⟨none, s.head⟩, ?_, ?_, ?_, ?_⟩
  · simp only [List.length_set]; split <;> simp [hc.lenFree]
  · simp only [step, ge_iff_le, Nat.not_le.mpr hl, if_false, h, releaseFreeIndex]
    rfl
  · refine ⟨by simp [hc.lenIdx], ?_, by simp [hc.lenData], ?_, ?_, ?_, ?_, ?_, ?_⟩
    · simp only [List.length_set]; split <;> simp [hc.lenFree]
    · intro k' di' h'
      simp only [List.getElem?_set] at h'
      split at h'
      · simp at h'
      · exact hc.dataLt _ _ h'
    · intro k1 k2 di' h1 h2
      simp only [List.getElem?_set] at h1 h2
      split at h1
      · simp at h1
      · split at h2
        · simp at h2
        · exact hc.dataInj _ _ _ h1 h2
    · simp only
      rw [List.nodup_append]
      refine ⟨hc.dfNodup, by simp, ?_⟩
      intro a ha b hb
      simp at hb; subst hb
      intro hab; subst hab; exact hdin ha
    · intro di'
      simp only [List.mem_append, List.mem_singleton, List.getElem?_set]
      constructor
      · rintro (hd | hd)
        · obtain ⟨h1, h2⟩ := (hc.dfFree di').1 hd
          refine ⟨h1, fun k' => ?_⟩
          split
          · simp
          · exact h2 k'
        · subst hd
          refine ⟨hc.dataLt _ _ h, fun k' => ?_⟩
          split
          · simp
          · rename_i hne
            intro h'
            exact hne (hc.dataInj _ _ _ h h')
      · rintro ⟨h1, h2⟩
        by_cases hdd : di' = di
        · exact Or.inr hdd
        · left
          apply (hc.dfFree di').2 ⟨h1, fun k' hk' => ?_⟩
          have := h2 k'
          split at this
          · rename_i hkk; subst hkk; rw [h] at hk'; cases hk'; exact hdd rfl
          · exact this hk'
    · have := hc.dfLen; simp; omega
    · simp only [List.countP_set hl, hg]
      simp [hc.lenOk]
  · refine ⟨hpush, ?_, by simp; omega⟩
    intro x
    simp only [List.mem_cons, hmem x, List.getElem?_set]
    constructor
    · rintro (hx | hx)
      · subst hx; simp [hl]
      · have : ¬ k = x := by intro hkx; subst hkx; rw [h] at hx; cases hx
        simp [this, hx]
    · intro hx
      split at hx
      · left; omega
      · right; exact hx

theorem dataSome_store {s s2 : St α} {k n : Nat} {e : α}
    (h1 : s2.idxToData = s.idxToData.set k (some n)) (h2 : s2.data = s.data.set n (some e))
    (hn : n < s.data.length)
    (hfresh : ∀ k' : Nat, s.idxToData[k']? ≠ some (some n)) (hd : DataSome s) : DataSome s2 := by
  intro k' di h
  rw [h1, List.getElem?_set] at h
  rw [h2, List.getD_eq_getElem?_getD, List.getElem?_set]
  split at h
  · split at h
    · cases h; simp [hn]
    · cases h
  · have : n ≠ di := by intro hx; subst hx; exact hfresh _ h
    simp only [this, if_false]
    have := hd _ _ h
    rwa [List.getD_eq_getElem?_getD] at this

theorem head_none_full {s : St α} (h : WInv s) (hh : s.head = none) :
    s.len = s.cap ∧ ∀ k, k < s.cap → ∃ di, s.idxToData[k]? = some (some di) := by
  obtain ⟨hc, c, hch, hmem, hlen⟩ := h
  have : c = [] := by
    have := hch.hd; rw [hh] at this
    cases c with
    | nil => rfl
    | cons a c => simp at this
  subst this
  refine ⟨by simpa using hlen, fun k hk => ?_⟩
  have hl : k < s.idxToData.length := by rw [hc.lenIdx]; exact hk
  cases hv : s.idxToData[k] with
  | none =>
    have : s.idxToData[k]? = some none := by rw [List.getElem?_eq_getElem hl, hv]
    have := (hmem k).2 this
    simp at this
  | some di => exact ⟨di, by rw [List.getElem?_eq_getElem hl, hv]⟩

theorem insert_w (s : St α) (e : α) (h : WInv s) :
    (∃ k s', step s (.insert e) = (s', .key k, []) ∧ s.head = some k ∧
        s.idxToData[k]? = some none ∧ s.len < s.cap ∧ s'.cap = s.cap ∧ WInv s' ∧
        (∀ k', abs s' k' = if k' = k then some e else abs s k') ∧ (DataSome s → DataSome s')) ∨
    (s.head = none ∧ step s (.insert e) = (s, .none, [e]) ∧ s.len = s.cap) := by
  cases hh : s.head with
  | none =>
    right
    refine ⟨rfl, ?_, (head_none_full h hh).1⟩
    simp [step, acquireNextFreeIndex, hh]
  | some k =>
    left
    obtain ⟨hc, c, hf⟩ := h
    obtain ⟨fl, hd, c', hacq, hfl, hole⟩ := acquire_some hc hf hh
    have hc1 := hc.relink fl hd hfl
    obtain ⟨n, rest, hdf, hnlt, hfresh, hst, hc2, hf2⟩ := store_hole hc1 hole e
    have hk := hole.2.2.2
    have hkl : k < s.idxToData.length := (List.getElem?_eq_some_iff.mp hk).1
    have hnl : n < s.data.length := by rw [hc.lenData]; exact hnlt
    refine ⟨k, _, ?_, rfl, hk, ?_, ?_, ⟨hc2, c', hf2⟩, ?_, ?_⟩
    · simp only [step, hacq, hst]
    · have := hole.2.2.1; simp at this; omega
    · rfl
    · exact abs_store (s := s) rfl rfl hkl hnl hfresh
    · exact dataSome_store (s := s) rfl rfl hnl hfresh

theorem insertAt_w (s : St α) (k : Nat) (e : α) (h : WInv s) :
    (s.cap ≤ k ∧ step s (.insertAt k e) = (s, .ff, [e])) ∨
    (k < s.cap ∧ ∃ s', step s (.insertAt k e) = (s', .tt, (abs s k).toList) ∧ s'.cap = s.cap ∧
        WInv s' ∧ (∀ k', abs s' k' = if k' = k then some e else abs s k') ∧
        (DataSome s → DataSome s')) := by
  obtain ⟨hc, c, hf⟩ := h
  by_cases hk : s.cap ≤ k
  · left
    refine ⟨hk, ?_⟩
    simp only [step, claim_noop (Or.inl hk), store_oob e hk]
  · right
    have hklt : k < s.cap := Nat.lt_of_not_le hk
    refine ⟨hklt, ?_⟩
    have hl : k < s.idxToData.length := by rw [hc.lenIdx]; exact hklt
    cases hv : s.idxToData[k] with
    | some di =>
      have hv' : s.idxToData[k]? = some (some di) := by rw [List.getElem?_eq_getElem hl, hv]
      have hdl : di < s.data.length := by rw [hc.lenData]; exact hc.dataLt _ _ hv'
      refine ⟨{ s with data := s.data.set di (some e) }, ?_, ?_, ⟨?_, c, ?_⟩, ?_, ?_⟩
      · simp only [step, claim_noop (Or.inr ⟨di, hv'⟩), store_used hc hv' e, abs_used hv']
      · rfl
      · exact ⟨hc.lenIdx, hc.lenFree, by simp [hc.lenData], hc.dataLt, hc.dataInj, hc.dfNodup,
          hc.dfFree, hc.dfLen, hc.lenOk⟩
      · exact hf
      · intro k'
        by_cases hkk : k' = k
        · subst hkk
          simp [abs, List.getD_eq_getElem?_getD, hv', hdl]
        · simp only [hkk, if_false]
          cases hv2 : s.idxToData[k']? with
          | none => rw [abs_oob hv2]; exact abs_oob (s := { s with data := _ }) hv2
          | some v =>
            cases v with
            | none => rw [abs_unused hv2]; exact abs_unused (s := { s with data := _ }) hv2
            | some di' =>
              rw [abs_used hv2, abs_used (s := { s with data := s.data.set di (some e) }) hv2]
              have : di ≠ di' := by intro hx; subst hx; exact hkk (hc.dataInj _ _ _ hv2 hv')
              simp [List.getD_eq_getElem?_getD, this]
      · intro hd k' di' h'
        have := hd k' di' h'
        simp only [List.getD_eq_getElem?_getD, List.getElem?_set] at this ⊢
        split
        · simp
        · exact this
    | none =>
      have hv' : s.idxToData[k]? = some none := by rw [List.getElem?_eq_getElem hl, hv]
      obtain ⟨fl, hd, c', hcl, hfl, hole⟩ := claim_unused hc hf hv'
      have hc1 := hc.relink fl hd hfl
      obtain ⟨n, rest, hdf, hnlt, hfresh, hst, hc2, hf2⟩ := store_hole hc1 hole e
      have hnl : n < s.data.length := by rw [hc.lenData]; exact hnlt
      refine ⟨_, ?_, ?_, ⟨hc2, c', hf2⟩, ?_, ?_⟩
      · simp only [step, hcl, hst, abs_unused hv']; rfl
      · rfl
      · exact abs_store (s := s) rfl rfl hl hnl hfresh
      · exact dataSome_store (s := s) rfl rfl hnl hfresh

theorem remove_w (s : St α) (k : Nat) (h : WInv s) :
    ∃ s', step s (.remove k) = (s', (match abs s k with | some e => .some e | none => .none), []) ∧
      s'.cap = s.cap ∧ WInv s' ∧ (∀ k', abs s' k' = if k' = k then none else abs s k') ∧
      (DataSome s → DataSome s') ∧ ((∀ di, s.idxToData[k]? ≠ some (some di)) → s' = s) := by
  obtain ⟨hc, c, hf⟩ := h
  have hnoop : (∀ di, s.idxToData[k]? ≠ some (some di)) → step s (.remove k) = (s, .none, []) := by
    intro hn
    simp only [step]
    split
    · rfl
    · cases hv : s.idxToData[k]? with
      | none => simp at hv; omega
      | some v =>
        cases v with
        | none => rfl
        | some di => exact absurd hv (hn di)
  cases hv : s.idxToData[k]? with
  | none =>
    have hn : ∀ di, s.idxToData[k]? ≠ some (some di) := by simp [hv]
    refine ⟨s, ?_, rfl, ⟨hc, c, hf⟩, ?_, id, fun _ => rfl⟩
    · rw [hnoop hn, abs_oob hv]
    · intro k'; split
      · rename_i hkk; subst hkk; exact abs_oob hv
      · rfl
  | some v =>
    cases v with
    | none =>
      have hn : ∀ di, s.idxToData[k]? ≠ some (some di) := by simp [hv]
      refine ⟨s, ?_, rfl, ⟨hc, c, hf⟩, ?_, id, fun _ => rfl⟩
      · rw [hnoop hn, abs_unused hv]
      · intro k'; split
        · rename_i hkk; subst hkk; exact abs_unused hv
        · rfl
    | some di =>
      obtain ⟨fl, hfl, hst, hc3, hf3⟩ := remove_used hc hf hv
      refine ⟨_, ?_, ?_, ⟨hc3, _, hf3⟩, ?_, ?_, ?_⟩
      · rw [hst, abs_used hv]
      · rfl
      · exact abs_remove (s := s) rfl rfl hv hc.dataInj
      · intro hd k' di' h'
        simp only [List.getElem?_set] at h'
        split at h'
        · simp at h'
        · have := hd _ _ h'
          have hne : di ≠ di' := by
            intro hx; subst hx
            rename_i hkk; exact hkk (hc.dataInj _ _ _ hv h')
          simpa [List.getD_eq_getElem?_getD, List.getElem?_set, hne] using this
      · intro hn; exact absurd rfl (hn di)

theorem get_w (s : St α) (k : Nat) :
    step s (.get k) = (s, (match s.idxToData[k]? with
      | some (some di) => (match s.data.getD di none with | some e => .some e | none => .panic)
      | _ => .none), []) := by
  simp only [step]
  split <;> (simp_all; try rfl)

theorem contains_w (s : St α) (k : Nat) :
    step s (.contains k) = (s, (match s.idxToData[k]? with
      | some (some _) => .tt
      | _ => .ff), []) := by
  simp only [step]
  split <;> (simp_all; try rfl)

theorem dropAll_w (s : St α) (h : WInv s) :
    step s .dropAll = ({ s with data := s.data.map fun _ => none }, .tt, s.data.filterMap id) ∧
    WInv ({ s with data := s.data.map fun _ => none } : St α) ∧
    ∀ k, abs ({ s with data := s.data.map fun _ => none } : St α) k = none := by
  obtain ⟨hc, c, hf⟩ := h
  refine ⟨rfl, ⟨⟨hc.lenIdx, hc.lenFree, by simp [hc.lenData], hc.dataLt, hc.dataInj, hc.dfNodup,
    hc.dfFree, hc.dfLen, hc.lenOk⟩, c, hf⟩, ?_⟩
  intro k
  simp only [abs, List.getD_eq_getElem?_getD]
  split
  · rfl
  · simp only [List.getElem?_map]
    rename_i di _; cases s.data[di]? <;> rfl

theorem range_get (n i : Nat) : (List.range n)[i]? = if i < n then some i else none := by
  split
  · exact List.getElem?_range ‹_›
  · simp; omega

theorem chain_init (cap : Nat) :
    Chain (initFree cap) (if cap = 0 then none else some 0) (List.range cap) := by
  have hnx : ∀ k, k < cap → nx (initFree cap) k = if k + 1 < cap then some (k+1) else none := by
    intro k hk
    simp [nx, initFree, List.getD_eq_getElem?_getD, hk]
  have hpv : ∀ k, k < cap → pv (initFree cap) k = if k = 0 then none else some (k-1) := by
    intro k hk
    simp [pv, initFree, List.getD_eq_getElem?_getD, hk]
  have hr : ∀ i k : Nat, (List.range cap)[i]? = some k → k = i ∧ i < cap := by
    intro i k h
    rw [range_get] at h
    split at h
    · cases h; exact ⟨rfl, ‹_›⟩
    · cases h
  refine ⟨?_, ?_, ?_, ?_, ?_⟩
  · rw [range_get]; by_cases h : cap = 0 <;> simp [h] <;> omega
  · intro i j k hi hj
    have := hr _ _ hi; have := hr _ _ hj; omega
  · intro i k hi
    have := hr _ _ hi
    simp [initFree]; omega
  · intro i k hi
    obtain ⟨rfl, hlt⟩ := hr _ _ hi
    rw [hnx _ hlt, range_get]
  · intro i k hi
    obtain ⟨rfl, hlt⟩ := hr _ _ hi
    rw [hpv _ hlt]
    split
    · rfl
    · rw [range_get]; simp; omega

theorem winv_init (cap : Nat) : WInv (init (α := α) cap) := by
  refine ⟨⟨by simp [init], by simp [init, initFree], by simp [init], ?_, ?_, ?_, ?_, by simp [init], ?_⟩,
    List.range cap, chain_init cap, ?_, by simp [init]⟩
  · intro k di h
    simp [init, List.getElem?_replicate] at h
  · intro k1 k2 di h
    simp [init, List.getElem?_replicate] at h
  · exact List.nodup_range
  · intro di
    simp [init, List.getElem?_replicate]
  · simp [init, List.countP_replicate]
  · intro x
    simp [init, List.getElem?_replicate]

theorem inv_init (cap : Nat) : Inv (init (α := α) cap) := by
  refine ⟨winv_init cap, ?_⟩
  intro k di h
  simp [init, List.getElem?_replicate] at h

theorem abs_init (cap k : Nat) : abs (init (α := α) cap) k = none := by
  simp only [abs, init, List.getD_eq_getElem?_getD, List.getElem?_replicate]
  split
  · rfl
  · rename_i di h; split at h <;> simp at h

theorem abs_isSome_of_inv {s : St α} (h : Inv s) {k di : Nat} (hk : s.idxToData[k]? = some (some di)) :
    (abs s k).isSome = true := by
  rw [abs_used hk]; exact h.dataSome _ _ hk

theorem abs_eq_none_iff {s : St α} (h : Inv s) (k : Nat) :
    abs s k = none ↔ ∀ di, s.idxToData[k]? ≠ some (some di) := by
  constructor
  · intro ha di hk
    have := abs_isSome_of_inv h hk
    rw [ha] at this; cases this
  · intro hn
    cases hv : s.idxToData[k]? with
    | none => exact abs_oob hv
    | some v =>
      cases v with
      | none => exact abs_unused hv
      | some di => exact absurd hv (hn di)

/-- The structural invariant is preserved by **every** operation, and the only operation that
can panic on a structurally well-formed state is `get` on a key whose data slot has been emptied
(which only `dropAll` does). -/
theorem step_winv (s : St α) (op : Op α) (h : WInv s) :
    WInv (step s op).1 ∧ (step s op).1.cap = s.cap ∧
    ((step s op).2.1 = .panic →
      ∃ k di, op = .get k ∧ s.idxToData[k]? = some (some di) ∧ s.data.getD di none = none) := by
  cases op with
  | insert e =>
    rcases insert_w s e h with ⟨k, s', hst, -, -, -, hcap, hw, -, -⟩ | ⟨-, hst, -⟩
    · rw [hst]; exact ⟨hw, hcap, fun hp => by cases hp⟩
    · rw [hst]; exact ⟨h, rfl, fun hp => by cases hp⟩
  | insertAt k e =>
    rcases insertAt_w s k e h with ⟨-, hst⟩ | ⟨-, s', hst, hcap, hw, -, -⟩
    · rw [hst]; exact ⟨h, rfl, fun hp => by cases hp⟩
    · rw [hst]; exact ⟨hw, hcap, fun hp => by cases hp⟩
  | remove k =>
    obtain ⟨s', hst, hcap, hw, -, -, -⟩ := remove_w s k h
    rw [hst]
    refine ⟨hw, hcap, fun hp => ?_⟩
    simp only at hp
    split at hp <;> cases hp
  | get k =>
    rw [get_w]
    refine ⟨h, rfl, fun hp => ?_⟩
    simp only at hp
    split at hp
    · rename_i di hk
      refine ⟨k, di, rfl, hk, ?_⟩
      split at hp
      · cases hp
      · assumption
    · cases hp
  | contains k =>
    rw [contains_w]
    refine ⟨h, rfl, fun hp => ?_⟩
    simp only at hp
    split at hp <;> cases hp
  | nextFreeKey =>
    refine ⟨h, rfl, fun hp => ?_⟩
    simp only [step] at hp
    split at hp <;> cases hp
  | dump => exact ⟨h, rfl, fun hp => by cases hp⟩
  | dropAll =>
    obtain ⟨hst, hw, -⟩ := dropAll_w s h
    rw [hst]; exact ⟨hw, rfl, fun hp => by cases hp⟩

/-- `step_inv` for every operation except `dropAll` -/
theorem step_inv_partial (s : St α) (op : Op α) (h : Inv s) (hop : op ≠ .dropAll) :
    Inv (step s op).1 ∧ (step s op).1.cap = s.cap ∧ (step s op).2.1 ≠ .panic := by
  obtain ⟨hw, hcap, hp⟩ := step_winv s op h.toWInv
  refine ⟨⟨hw, ?_⟩, hcap, ?_⟩
  · cases op with
    | insert e =>
      rcases insert_w s e h.toWInv with ⟨k, s', hst, -, -, -, -, -, -, hd⟩ | ⟨-, hst, -⟩
      · rw [hst]; exact hd h.dataSome
      · rw [hst]; exact h.dataSome
    | insertAt k e =>
      rcases insertAt_w s k e h.toWInv with ⟨-, hst⟩ | ⟨-, s', hst, -, -, -, hd⟩
      · rw [hst]; exact h.dataSome
      · rw [hst]; exact hd h.dataSome
    | remove k =>
      obtain ⟨s', hst, -, -, -, hd, -⟩ := remove_w s k h.toWInv
      rw [hst]; exact hd h.dataSome
    | get k => rw [get_w]; exact h.dataSome
    | contains k => rw [contains_w]; exact h.dataSome
    | nextFreeKey => exact h.dataSome
    | dump => exact h.dataSome
    | dropAll => exact absurd rfl hop
  · intro hpan
    obtain ⟨k, di, -, hk, hnone⟩ := hp hpan
    have := h.dataSome _ _ hk
    rw [hnone] at this; cases this

/-- what `dropAll` does -/
theorem dropAll_spec (s : St α) (h : WInv s) :
    (step s .dropAll).2.1 = .tt ∧ (step s .dropAll).2.2 = s.data.filterMap id ∧
    WInv (step s .dropAll).1 ∧ (step s .dropAll).1.cap = s.cap ∧
    ∀ k, abs (step s .dropAll).1 k = none := by
  obtain ⟨hst, hw, ha⟩ := dropAll_w s h
  rw [hst]; exact ⟨rfl, rfl, hw, rfl, ha⟩

theorem insert_spec (s : St α) (e : α) (h : Inv s) :
    (∃ k, (step s (.insert e)).2.1 = .key k ∧ k < s.cap ∧ abs s k = none ∧ s.head = some k ∧
          (∀ k', abs (step s (.insert e)).1 k' = if k' = k then some e else abs s k') ∧
          (step s (.insert e)).2.2 = []) ∨
    ((step s (.insert e)).2.1 = .none ∧ (∀ k, k < s.cap → (abs s k).isSome = true) ∧
          (step s (.insert e)).1 = s ∧ (step s (.insert e)).2.2 = [e]) := by
  rcases insert_w s e h.toWInv with ⟨k, s', hst, hh, hk, -, -, -, ha, -⟩ | ⟨hh, hst, -⟩
  · left
    rw [hst]
    exact ⟨k, rfl, unused_lt h.core hk, abs_unused hk, hh, ha, rfl⟩
  · right
    rw [hst]
    refine ⟨rfl, fun k hk => ?_, rfl, rfl⟩
    obtain ⟨di, hdi⟩ := (head_none_full h.toWInv hh).2 k hk
    exact abs_isSome_of_inv h hdi

theorem insertAt_spec (s : St α) (k : Nat) (e : α) (h : Inv s) :
    (k < s.cap → (step s (.insertAt k e)).2.1 = .tt ∧
        (∀ k', abs (step s (.insertAt k e)).1 k' = if k' = k then some e else abs s k') ∧
        (step s (.insertAt k e)).2.2 = (abs s k).toList) ∧
    (s.cap ≤ k → (step s (.insertAt k e)).2.1 = .ff ∧ (step s (.insertAt k e)).1 = s ∧
        (step s (.insertAt k e)).2.2 = [e]) := by
  rcases insertAt_w s k e h.toWInv with ⟨hk, hst⟩ | ⟨hk, s', hst, -, -, ha, -⟩
  · rw [hst]; exact ⟨fun h' => by omega, fun _ => ⟨rfl, rfl, rfl⟩⟩
  · rw [hst]; exact ⟨fun _ => ⟨rfl, ha, rfl⟩, fun h' => by omega⟩

theorem remove_spec (s : St α) (k : Nat) (h : Inv s) :
    (step s (.remove k)).2.1 = (match abs s k with | some e => .some e | none => .none) ∧
    (∀ k', abs (step s (.remove k)).1 k' = if k' = k then none else abs s k') ∧
    (step s (.remove k)).2.2 = [] ∧
    (abs s k = none → (step s (.remove k)).1 = s) := by
  obtain ⟨s', hst, -, -, ha, -, hs⟩ := remove_w s k h.toWInv
  rw [hst]
  exact ⟨rfl, ha, rfl, fun hn => hs ((abs_eq_none_iff h k).1 hn)⟩

theorem get_spec (s : St α) (k : Nat) (h : Inv s) :
    (step s (.get k)).2.1 = (match abs s k with | some e => .some e | none => .none) ∧ (step s (.get k)).1 = s := by
  rw [get_w]
  refine ⟨?_, rfl⟩
  simp only
  cases hv : s.idxToData[k]? with
  | none => rw [abs_oob hv]
  | some v =>
    cases v with
    | none => rw [abs_unused hv]
    | some di =>
      have := abs_isSome_of_inv h hv
      rw [abs_used hv] at this ⊢
      simp only
      cases hd : s.data.getD di none with
      | none => rw [hd] at this; cases this
      | some e => rfl

theorem contains_spec (s : St α) (k : Nat) (h : Inv s) :
    (step s (.contains k)).2.1 = (if (abs s k).isSome then .tt else .ff) ∧ (step s (.contains k)).1 = s := by
  rw [contains_w]
  refine ⟨?_, rfl⟩
  simp only
  cases hv : s.idxToData[k]? with
  | none => rw [abs_oob hv]; rfl
  | some v =>
    cases v with
    | none => rw [abs_unused hv]; rfl
    | some di => rw [abs_isSome_of_inv h hv]; rfl

theorem list_eq_map_range {β : Type} (l : List β) (d : β) :
    l = (List.range l.length).map fun i => l.getD i d := by
  apply List.ext_getElem?
  intro i
  simp only [List.getElem?_map, range_get, List.getD_eq_getElem?_getD]
  split
  · rename_i hi
    simp [List.getElem?_eq_getElem hi]
  · simp; omega

theorem countP_eq_range {β : Type} (l : List β) (d : β) (p : β → Bool) :
    l.countP p = ((List.range l.length).filter fun i => p (l.getD i d)).length := by
  conv => lhs; rw [list_eq_map_range l d]
  rw [List.countP_map, List.countP_eq_length_filter]
  rfl

theorem len_spec (s : St α) (h : Inv s) :
    s.len = ((List.range s.cap).filter fun k => (abs s k).isSome).length ∧ s.len ≤ s.cap := by
  refine ⟨?_, by have := h.core.dfLen; omega⟩
  rw [h.core.lenOk, countP_eq_range _ none, h.core.lenIdx]
  congr 1
  apply List.filter_congr
  intro k _
  cases hv : s.idxToData[k]? with
  | none => rw [abs_oob hv]; simp [List.getD_eq_getElem?_getD, hv]
  | some v =>
    cases v with
    | none => rw [abs_unused hv]; simp [List.getD_eq_getElem?_getD, hv]
    | some di => rw [abs_isSome_of_inv h hv]; simp [List.getD_eq_getElem?_getD, hv]

theorem items_eq (s : St α) :
    items s = (List.range s.idxToData.length).filterMap fun k => (abs s k).map fun e => (k, e) := by
  unfold items
  congr 1
  funext k
  unfold abs
  split <;> simp_all

theorem items_spec (s : St α) (h : Inv s) :
    items s = (List.range s.cap).filterMap fun k => (abs s k).map fun e => (k, e) := by
  rw [items_eq, h.core.lenIdx]

def run (s : St α) : List (Op α) → St α
  | [] => s
  | op :: ops => run (step s op).1 ops

theorem run_winv (s : St α) (ops : List (Op α)) (h : WInv s) : WInv (run s ops) := by
  induction ops generalizing s with
  | nil => exact h
  | cons op ops ih => exact ih _ (step_winv s op h).1

theorem run_inv (s : St α) (ops : List (Op α)) (h : Inv s) (hops : ∀ op ∈ ops, op ≠ .dropAll) :
    Inv (run s ops) := by
  induction ops generalizing s with
  | nil => exact h
  | cons op ops ih =>
    exact ih _ (step_inv_partial s op h (hops op (by simp))).1 fun o ho => hops o (by simp [ho])

theorem reachable_winv (cap : Nat) (ops : List (Op α)) : WInv (run (init cap) ops) :=
  run_winv _ _ (winv_init cap)

theorem reachable_inv_partial (cap : Nat) (ops : List (Op α)) (hops : ∀ op ∈ ops, op ≠ .dropAll) :
    Inv (run (init cap) ops) :=
  run_inv _ _ (inv_init cap) hops

/-- `step_inv` (and hence `reachable_inv`) cannot be proved for *any* invariant -/
theorem step_inv_false :
    ¬ ∃ I : St Nat → Prop, (∀ cap, I (init cap)) ∧
      ∀ s op, I s → I (step s op).1 ∧ (step s op).2.1 ≠ .panic := by
  rintro ⟨I, hinit, hstep⟩
  have h0 := hinit 1
  have h1 := (hstep _ (.insert 7) h0).1
  have h2 := (hstep _ .dropAll h1).1
  exact (hstep _ (.get 0) h2).2 rfl

theorem items_nil_of_abs_none {s : St α} (h : ∀ k, abs s k = none) : items s = [] := by
  rw [items_eq]
  simp [h]

theorem mem_items {s : St α} {k : Nat} {e : α} : (k, e) ∈ items s ↔ (k < s.idxToData.length ∧ abs s k = some e) := by
  rw [items_eq, List.mem_filterMap]
  constructor
  · rintro ⟨j, hj, hm⟩
    cases ha : abs s j with
    | none => simp [ha] at hm
    | some e' =>
      simp [ha] at hm
      obtain ⟨rfl, rfl⟩ := hm
      exact ⟨List.mem_range.mp hj, ha⟩
  · rintro ⟨hk, ha⟩
    exact ⟨k, List.mem_range.mpr hk, by simp [ha]⟩

theorem filterMap_congr' {β γ : Type} {f g : β → Option γ} :
    ∀ {l : List β}, (∀ x ∈ l, f x = g x) → l.filterMap f = l.filterMap g
  | [], _ => rfl
  | a :: l, h => by
    rw [List.filterMap_cons, List.filterMap_cons, h a (by simp),
      filterMap_congr' (l := l) (fun x hx => h x (by simp [hx]))]

theorem items_update {s s' : St α} (hl : s.idxToData.length = s.cap)
    (hl' : s'.idxToData.length = s.cap) {k : Nat} (hk : k < s.cap)
    (h : ∀ k', k' ≠ k → abs s' k' = abs s k') :
    ∃ A B, items s = A ++ ((abs s k).map fun e => (k, e)).toList ++ B ∧
      items s' = A ++ ((abs s' k).map fun e => (k, e)).toList ++ B := by
  obtain ⟨l1, l2, hr⟩ := List.append_of_mem (List.mem_range.mpr hk)
  have hnd : (l1 ++ k :: l2).Nodup := hr ▸ List.nodup_range
  rw [List.nodup_append] at hnd
  obtain ⟨-, hnd2, hnd3⟩ := hnd
  have hk1 : ∀ x ∈ l1, x ≠ k := fun x hx => hnd3 x hx k (by simp)
  have hk2 : ∀ x ∈ l2, x ≠ k := by
    intro x hx hxk; subst hxk
    exact (List.nodup_cons.mp hnd2).1 hx
  refine ⟨l1.filterMap fun j => (abs s j).map fun e => (j, e),
    l2.filterMap fun j => (abs s j).map fun e => (j, e), ?_, ?_⟩
  · rw [items_eq, hl, hr, List.filterMap_append, List.filterMap_cons]
    cases abs s k <;> simp
  · rw [items_eq, hl', hr, List.filterMap_append, List.filterMap_cons]
    have e1 : (l1.filterMap fun j => (abs s' j).map fun e => (j, e)) =
        l1.filterMap fun j => (abs s j).map fun e => (j, e) :=
      filterMap_congr' fun x hx => by rw [h x (hk1 x hx)]
    have e2 : (l2.filterMap fun j => (abs s' j).map fun e => (j, e)) =
        l2.filterMap fun j => (abs s j).map fun e => (j, e) :=
      filterMap_congr' fun x hx => by rw [h x (hk2 x hx)]
    rw [e1, e2]
    cases abs s' k <;> simp
/-! ### `step_inv` / `reachable_inv` are false as stated

Original statements (kept for reference):

  theorem step_inv (s : St α) (op : Op α) (h : Inv s) :
      Inv (step s op).1 ∧ (step s op).1.cap = s.cap ∧ (step s op).2.1 ≠ .panic
  theorem reachable_inv (cap : Nat) (ops : List (Op α)) : Inv (run (init cap) ops)

`dropAll` (the model of dropping the container) sets every data slot to `none` but leaves
`idxToData`, `len`, the free list and `dataFree` untouched.  A subsequent `get k` for a key that
was stored finds `idxToData[k] = some di`, `data[di] = none` and returns `.panic`
(the `expect` in `get_impl`).  In Rust the container cannot be used after it was dropped, so this
is an artefact of having `dropAll` as an ordinary operation of `step`, not a defect of the Rust
code; but no invariant whatsoever can make `step_inv` true (`step_inv_false`).
-/
section Counterexample
private def cexOps : List (Op Nat) := [.insert 7, .dropAll]
private def isPanic : Out Nat → Bool | .panic => true | _ => false
-- `init 1`, `insert 7`, `dropAll`, then `get 0` panics: prints `true`
#eval isPanic (step (run (init 1) cexOps) (.get 0)).2.1
end Counterexample

/-- the state reached by `insert 7; dropAll` from `init 1` violates `Inv` (not `WInv`) -/
theorem reachable_inv_false : ¬ Inv (run (init 1) [.insert (7 : Nat), .dropAll]) := by
  intro h
  have := h.dataSome 0 0 (by decide)
  exact absurd this (by decide)

/-! ## the originally suggested invariant is implied by `Inv` -/

/-- the keys reachable from `head` through `next`, with fuel -/
def freeChain (fl : List Entry) : Nat → Option Nat → List Nat
  | 0, _ => []
  | _, none => []
  | fuel+1, some i => i :: freeChain fl fuel ((fl.getD i default).next)

/-- the representation invariant as originally suggested (free chain computed with fuel) -/
structure Inv₀ (s : St α) : Prop where
  lenIdx   : s.idxToData.length = s.cap
  lenFree  : s.freeList.length = s.cap
  lenData  : s.data.length = s.cap
  chainNodup : (freeChain s.freeList (s.cap + 1) s.head).Nodup
  chainFree  : ∀ k, k ∈ freeChain s.freeList (s.cap + 1) s.head ↔ (k < s.cap ∧ s.idxToData.getD k none = none)
  prevOk : ∀ k ∈ freeChain s.freeList (s.cap + 1) s.head, ∀ n, (s.freeList.getD k default).next = some n →
            (s.freeList.getD n default).prev = some k
  headPrev : ∀ h, s.head = some h → (s.freeList.getD h default).prev = none
  dataOk : ∀ k di, s.idxToData.getD k none = some di → di < s.cap ∧ (s.data.getD di none).isSome = true
  dataInj : ∀ k1 k2 di, s.idxToData.getD k1 none = some di → s.idxToData.getD k2 none = some di → k1 = k2
  dfNodup : s.dataFree.Nodup
  dfFree : ∀ di, di ∈ s.dataFree ↔ (di < s.cap ∧ ∀ k, s.idxToData.getD k none ≠ some di)
  lenOk : s.len = ((List.range s.cap).filter fun k => (s.idxToData.getD k none).isSome).length

theorem Chain.nodup {fl : List Entry} {head : Option Nat} {c : List Nat} (h : Chain fl head c) :
    c.Nodup := by
  rw [List.nodup_iff_pairwise_ne, List.pairwise_iff_getElem]
  intro i j hi hj hij heq
  have := h.inj i j c[i] (List.getElem?_eq_getElem hi) (by rw [heq]; exact List.getElem?_eq_getElem hj)
  omega

theorem freeChain_drop {fl : List Entry} {head : Option Nat} {c : List Nat} (h : Chain fl head c) :
    ∀ (fuel n : Nat), c.length < fuel + n → freeChain fl fuel c[n]? = c.drop n := by
  intro fuel
  induction fuel with
  | zero =>
    intro n hn
    rw [List.drop_eq_nil_of_le (by omega)]
    cases c[n]? <;> rfl
  | succ fuel ih =>
    intro n hn
    by_cases hlt : n < c.length
    · rw [List.getElem?_eq_getElem hlt, List.drop_eq_getElem_cons hlt]
      show c[n] :: freeChain fl fuel (nx fl c[n]) = _
      rw [h.next n c[n] (List.getElem?_eq_getElem hlt), ih (n+1) (by omega)]
    · rw [List.drop_eq_nil_of_le (by omega), List.getElem?_eq_none (by omega)]
      rfl

theorem freeChain_eq {fl : List Entry} {head : Option Nat} {c : List Nat} (h : Chain fl head c)
    (fuel : Nat) (hf : c.length < fuel) : freeChain fl fuel head = c := by
  have := freeChain_drop h fuel 0 (by omega)
  rwa [← h.hd, List.drop_zero] at this

theorem getD_none_iff {l : List (Option Nat)} {k : Nat} :
    l.getD k none = none ↔ (l[k]? = none ∨ l[k]? = some none) := by
  rw [List.getD_eq_getElem?_getD]
  cases l[k]? with
  | none => simp
  | some v => simp

theorem getD_some_iff {l : List (Option Nat)} {k di : Nat} :
    l.getD k none = some di ↔ l[k]? = some (some di) := by
  rw [List.getD_eq_getElem?_getD]
  cases l[k]? with
  | none => simp
  | some v => simp

theorem Inv.suggested {s : St α} (h : Inv s) : Inv₀ s := by
  obtain ⟨⟨hc, c, hch, hmem, hlen⟩, hd⟩ := h
  have hfc : freeChain s.freeList (s.cap + 1) s.head = c := freeChain_eq hch _ (by omega)
  refine ⟨hc.lenIdx, hc.lenFree, hc.lenData, hfc ▸ hch.nodup, ?_, ?_, ?_, ?_, ?_, hc.dfNodup, ?_, ?_⟩
  · intro k
    rw [hfc, hmem k, getD_none_iff]
    constructor
    · intro hk; exact ⟨unused_lt hc hk, Or.inr hk⟩
    · rintro ⟨hk, h1 | h1⟩
      · rw [List.getElem?_eq_none_iff, hc.lenIdx] at h1; omega
      · exact h1
  · intro k hk n hn
    rw [hfc] at hk
    obtain ⟨i, hi⟩ := List.mem_iff_getElem?.mp hk
    have h1 := hch.next i k hi
    have h2 : c[i+1]? = some n := by rw [← h1]; exact hn
    have := hch.prev (i+1) n h2
    simpa [pv, hi] using this
  · intro x hx
    have h0 : c[0]? = some x := by rw [← hch.hd]; exact hx
    have := hch.prev 0 x h0
    simpa [pv] using this
  · intro k di hk
    rw [getD_some_iff] at hk
    exact ⟨hc.dataLt _ _ hk, hd _ _ hk⟩
  · intro k1 k2 di h1 h2
    rw [getD_some_iff] at h1 h2
    exact hc.dataInj _ _ _ h1 h2
  · intro di
    rw [hc.dfFree di]
    simp only [ne_eq, getD_some_iff]
  · rw [hc.lenOk, countP_eq_range _ none, hc.lenIdx]

end Iox2.C16.SlotMapP

namespace Iox2.C16.FlatMapP
open Iox2 Iox2.FlatMap
open Iox2.Vec (Elem)
open Iox2.C16.SlotMapP

def lookup (s : FSt) (k : Nat) : Option Elem := (find s.m k).map (·.2.value)

def Inv (s : FSt) : Prop :=
  Iox2.C16.SlotMapP.WInv s.m ∧ ((SlotMap.items s.m).map (·.2.key)).Nodup

theorem inv_init (cap : Nat) : Inv (init cap) := by
  refine ⟨winv_init cap, ?_⟩
  show ((SlotMap.items (SlotMap.init cap)).map fun p : Nat × Entry => p.2.key).Nodup
  rw [items_nil_of_abs_none (abs_init cap)]
  exact List.nodup_nil

theorem lookup_eq_none {s : FSt} {k : Nat} : lookup s k = none ↔ find s.m k = none := by
  simp [lookup]

theorem find_none_iff {m : St} {k : Nat} :
    find m k = none ↔ ∀ p ∈ SlotMap.items m, p.2.key ≠ k := by
  simp [find]

theorem find_mid {β : Type} (p : β → Bool) (A B : List β) (x : β) (hx : p x = false) :
    (A ++ [x] ++ B).find? p = (A ++ B).find? p := by
  simp [List.find?_append, hx]

/-- effect of a successful slot-map insert on the flat map -/
theorem insert_ok {m m' : St} {slot k : Nat} {e : Elem} (hw : WInv m) (hw' : WInv m')
    (hcap : m'.cap = m.cap) (hslot : m.idxToData[slot]? = some none)
    (ha : ∀ k', abs m' k' = if k' = slot then some ⟨k, e⟩ else abs m k')
    :
    ∃ A B, SlotMap.items m = A ++ B ∧ SlotMap.items m' = A ++ [(slot, ⟨k, e⟩)] ++ B := by
  have hlt := unused_lt hw.core hslot
  obtain ⟨A, B, h1, h2⟩ := items_update (s := m) (s' := m') hw.core.lenIdx
    (by rw [hw'.core.lenIdx, hcap]) hlt (fun k' hk' => by rw [ha k']; simp [hk'])
  refine ⟨A, B, ?_, ?_⟩
  · rw [h1, abs_unused hslot]; simp
  · rw [h2, ha slot]; simp

theorem finsert_w (s : FSt) (k : Nat) (e : Elem) (h : Inv s) :
    (∃ p, find s.m k = some p ∧ step s (.insert k e) = (s, .errExists, [e.id])) ∨
    (find s.m k = none ∧ s.m.len = s.m.cap ∧ step s (.insert k e) = (s, .errFull, [e.id])) ∨
    (find s.m k = none ∧ s.m.len < s.m.cap ∧ ∃ m' slot A B,
      step s (.insert k e) = ({ s with m := m' }, .ok, []) ∧ WInv m' ∧
      SlotMap.items s.m = A ++ B ∧ SlotMap.items m' = A ++ [(slot, ⟨k, e⟩)] ++ B) := by
  cases hf : find s.m k with
  | some p => left; exact ⟨p, rfl, by simp [step, hf]⟩
  | none =>
    right
    rcases insert_w s.m ⟨k, e⟩ h.1 with ⟨slot, m', hst, -, hslot, hlen, hcap, hw', ha, -⟩ | ⟨-, hst, hlen⟩
    · right
      obtain ⟨A, B, h1, h2⟩ := insert_ok h.1 hw' hcap hslot ha
      refine ⟨rfl, hlen, m', slot, A, B, ?_, hw', h1, h2⟩
      simp [step, hf, hst]
    · left
      refine ⟨rfl, hlen, ?_⟩
      simp [step, hf, hst]

theorem fremove_w (s : FSt) (k : Nat) (h : Inv s) :
    (find s.m k = none ∧ step s (.remove k) = (s, .none, [])) ∨
    (∃ slot ent m' A B, find s.m k = some (slot, ent) ∧ ent.key = k ∧
      step s (.remove k) = ({ s with m := m' }, .some ent.value, []) ∧ WInv m' ∧
      SlotMap.items s.m = A ++ [(slot, ent)] ++ B ∧ SlotMap.items m' = A ++ B) := by
  cases hf : find s.m k with
  | none => left; exact ⟨rfl, by simp [step, hf]⟩
  | some p =>
    right
    obtain ⟨slot, ent⟩ := p
    have hkey : ent.key = k := by
      have := List.find?_some hf
      simpa using this
    have hmem : (slot, ent) ∈ SlotMap.items s.m := List.mem_of_find?_eq_some hf
    obtain ⟨hlt, habs⟩ := mem_items.mp hmem
    obtain ⟨m', hst, hcap, hw', ha, -, -⟩ := remove_w s.m slot h.1
    rw [habs] at hst
    obtain ⟨A, B, h1, h2⟩ := items_update (s := s.m) (s' := m') h.1.core.lenIdx
      (by rw [hw'.core.lenIdx, hcap]) (by rw [← h.1.core.lenIdx]; exact hlt)
      (fun k' hk' => by rw [ha k']; simp [hk'])
    refine ⟨slot, ent, m', A, B, rfl, hkey, ?_, hw', ?_, ?_⟩
    · simp [step, hf, hst]
    · rw [h1, habs]; simp
    · rw [h2, ha slot]; simp

theorem step_inv (s : FSt) (op : Op) (h : Inv s) : Inv (step s op).1 ∧ (step s op).2.1 ≠ .panic := by
  cases op with
  | insert k e =>
    rcases finsert_w s k e h with ⟨p, -, hst⟩ | ⟨-, -, hst⟩ | ⟨hf, -, m', slot, A, B, hst, hw', h1, h2⟩
    · rw [hst]; exact ⟨h, by simp⟩
    · rw [hst]; exact ⟨h, by simp⟩
    · rw [hst]
      refine ⟨⟨hw', ?_⟩, by simp⟩
      have hnd := h.2
      rw [find_none_iff, h1] at hf
      simp only [h1, h2, List.map_append, List.map_cons, List.map_nil] at hnd ⊢
      rw [List.nodup_append] at hnd ⊢
      obtain ⟨ndA, ndB, hAB⟩ := hnd
      refine ⟨?_, ndB, ?_⟩
      · rw [List.nodup_append]
        refine ⟨ndA, by simp, ?_⟩
        intro a ha b hb
        simp at hb; subst hb
        obtain ⟨p, hp, rfl⟩ := List.mem_map.mp ha
        exact hf p (by simp [hp])
      · intro a ha b hb
        rw [List.mem_append] at ha
        rcases ha with ha | ha
        · exact hAB a ha b hb
        · simp at ha; subst ha
          obtain ⟨p, hp, rfl⟩ := List.mem_map.mp hb
          exact (hf p (by simp [hp])).symm
  | get k =>
    simp only [step]
    split
    · exact ⟨h, by simp⟩
    · exact ⟨h, by simp⟩
  | getRef k =>
    simp only [step]
    split
    · exact ⟨h, by simp⟩
    · exact ⟨h, by simp⟩
  | remove k =>
    rcases fremove_w s k h with ⟨-, hst⟩ | ⟨slot, ent, m', A, B, -, -, hst, hw', h1, h2⟩
    · rw [hst]; exact ⟨h, by simp⟩
    · rw [hst]
      refine ⟨⟨hw', ?_⟩, by simp⟩
      have hnd := h.2
      simp only [h1, h2, List.map_append, List.map_cons, List.map_nil] at hnd ⊢
      refine hnd.sublist ?_
      simp
  | contains k =>
    refine ⟨h, ?_⟩
    simp only [step]
    split <;> simp
  | dump => exact ⟨h, by simp [step]⟩
  | dropAll =>
    obtain ⟨hst, hw, ha⟩ := dropAll_w s.m h.1
    simp only [step, hst]
    refine ⟨⟨hw, ?_⟩, by simp⟩
    simp only
    rw [items_nil_of_abs_none ha]
    exact List.nodup_nil

theorem insert_spec (s : FSt) (k : Nat) (e : Elem) (h : Inv s) :
    ((lookup s k).isSome = true → (step s (.insert k e)).2.1 = .errExists ∧ (step s (.insert k e)).1 = s ∧
        (step s (.insert k e)).2.2 = [e.id]) ∧
    (lookup s k = none → s.m.len = s.m.cap → (step s (.insert k e)).2.1 = .errFull ∧
        (∀ k', lookup (step s (.insert k e)).1 k' = lookup s k') ∧ (step s (.insert k e)).2.2 = [e.id]) ∧
    (lookup s k = none → s.m.len < s.m.cap → (step s (.insert k e)).2.1 = .ok ∧
        (∀ k', lookup (step s (.insert k e)).1 k' = if k' = k then some e else lookup s k') ∧
        (step s (.insert k e)).2.2 = []) := by
  rcases finsert_w s k e h with ⟨p, hf, hst⟩ | ⟨hf, hlen, hst⟩ | ⟨hf, hlen, m', slot, A, B, hst, hw', h1, h2⟩
  · rw [hst]
    refine ⟨fun _ => ⟨rfl, rfl, rfl⟩, fun hl => ?_, fun hl => ?_⟩
    · rw [lookup_eq_none, hf] at hl; cases hl
    · rw [lookup_eq_none, hf] at hl; cases hl
  · rw [hst]
    refine ⟨fun hl => ?_, fun _ _ => ⟨rfl, fun _ => rfl, rfl⟩, fun _ hl => by omega⟩
    simp [lookup, hf] at hl
  · rw [hst]
    refine ⟨fun hl => ?_, fun _ hl => by omega, fun _ _ => ⟨rfl, fun k' => ?_, rfl⟩⟩
    · simp [lookup, hf] at hl
    · rw [find_none_iff, h1] at hf
      simp only [lookup, find, h1, h2]
      by_cases hkk : k' = k
      · subst hkk
        have hA : A.find? (fun p => decide (p.2.key = k')) = none := by
          simp only [List.find?_eq_none]
          intro p hp; simpa using hf p (by simp [hp])
        simp [List.find?_append, hA]
      · rw [find_mid]
        · simp [hkk]
        · simp; exact fun h => hkk h.symm

theorem remove_spec (s : FSt) (k : Nat) (h : Inv s) :
    (step s (.remove k)).2.1 = (match lookup s k with | some e => .some e | none => .none) ∧
    (∀ k', lookup (step s (.remove k)).1 k' = if k' = k then none else lookup s k') ∧
    (step s (.remove k)).2.2 = [] := by
  rcases fremove_w s k h with ⟨hf, hst⟩ | ⟨slot, ent, m', A, B, hf, hkey, hst, hw', h1, h2⟩
  · rw [hst]
    have hl : lookup s k = none := lookup_eq_none.mpr hf
    refine ⟨by rw [hl], fun k' => ?_, rfl⟩
    split
    · rename_i hkk; subst hkk; exact hl
    · rfl
  · rw [hst]
    have hl : lookup s k = some ent.value := by simp [lookup, hf]
    refine ⟨by rw [hl], fun k' => ?_, rfl⟩
    have hnd := h.2
    simp only [h1, List.map_append, List.map_cons, List.map_nil] at hnd
    simp only [lookup, find, h1, h2]
    by_cases hkk : k' = k
    · subst hkk
      simp only [if_true, Option.map_eq_none_iff, List.find?_eq_none]
      intro p hp
      simp only [decide_eq_true_eq]
      intro hpk
      rw [List.nodup_append] at hnd
      obtain ⟨ndAx, -, hAB⟩ := hnd
      rw [List.mem_append] at hp
      rcases hp with hp | hp
      · rw [List.nodup_append] at ndAx
        exact ndAx.2.2 _ (List.mem_map.mpr ⟨p, hp, rfl⟩) ent.key (by simp) (by rw [hpk, hkey])
      · exact hAB ent.key (by simp) _ (List.mem_map.mpr ⟨p, hp, rfl⟩) (by rw [hpk, hkey])
    · rw [find_mid]
      · simp [hkk]
      · simp [hkey]; exact fun h => hkk h.symm

theorem getRef_spec (s : FSt) (k : Nat) :
    (step s (.getRef k)).2.1 = (match lookup s k with | some e => .some e | none => .none) ∧
    (step s (.getRef k)).1 = s := by
  simp only [step, lookup]
  cases find s.m k with
  | none => exact ⟨rfl, rfl⟩
  | some p => exact ⟨rfl, rfl⟩

theorem contains_spec (s : FSt) (k : Nat) :
    (step s (.contains k)).2.1 = (if (lookup s k).isSome then .tt else .ff) ∧ (step s (.contains k)).1 = s := by
  simp [step, lookup]
end Iox2.C16.FlatMapP

