/-
C03 / IndexQueue and spsc::Queue (model Iox2/Model/Spsc.lean).

Setting: ANY number of threads, each running ANY program (list of commands).  The Rust API's
ownership discipline is part of the model: only the thread that owns the `Producer` object
(obtained by a successful `acquire_producer`) can push or release it, likewise for `Consumer`;
commands a thread cannot issue are skipped (`nextCmd`).  All interleavings at atomic-step
granularity (sequential consistency): `Reachable` quantifies over every schedule.
-/
import Iox2.Model.Spsc

namespace Iox2.C03.SpscP
open Iox2.Sched Iox2.Spsc

/-- initial configuration: a fresh queue of capacity `cap`, thread `i` runs `progs[i]` -/
def initCfg (cap : Nat) (progs : List (List Cmd)) : Cfg Sh Th :=
  { sh := Sh.init cap, th := progs.map Th.init }

/-- the abstract FIFO: everything published and not yet consumed, oldest first -/
def absq (s : Sh) : List Nat := s.log.drop s.rp

/-! ## Proof: one inductive invariant -/

section Proof

structure SInv (cap : Nat) (s : Sh) : Prop where
  cap_eq : s.cap = cap
  data_len : s.data.length = cap
  rp_le : s.rp ≤ s.wp
  wp_le : s.wp ≤ s.rp + cap
  log_len : s.log.length = s.wp
  popped_eq : s.popped = s.log.take s.rp
  slots : ∀ i, s.rp ≤ i → i < s.wp → s.data[i % cap]? = s.log[i]?

def TInv (s : Sh) (t : Th) : Prop :=
  match t.pc with
  | .idle => True
  | .pushLdW _ => t.holdsP = true
  | .pushLdR _ w => t.holdsP = true ∧ w = s.wp
  | .pushDist _ w => t.holdsP = true ∧ w = s.wp ∧ w < s.rp + s.cap
  | .pushCell _ w => t.holdsP = true ∧ w = s.wp ∧ w < s.rp + s.cap
  | .pushStW v w => t.holdsP = true ∧ w = s.wp ∧ w < s.rp + s.cap ∧ s.data[w % s.cap]? = some v
  | .popLdR => t.holdsC = true
  | .popLdW r => t.holdsC = true ∧ r = s.rp
  | .popDist r => t.holdsC = true ∧ r = s.rp ∧ r < s.wp
  | .popCell r => t.holdsC = true ∧ r = s.rp ∧ r < s.wp
  | .popStR r x => t.holdsC = true ∧ r = s.rp ∧ r < s.wp ∧ s.log[r]? = some x
  | .posW1 _ => True
  | .posR1 _ _ => True
  | .posW2 _ _ _ => True
  | .posR2 _ _ _ _ => True
  | .acqP => t.holdsP = false
  | .relP => t.holdsP = true
  | .acqC => t.holdsC = false
  | .relC => t.holdsC = true

/-- what producer-side thread invariants rely on -/
def PFrame (s s' : Sh) : Prop :=
  s'.wp = s.wp ∧ s'.cap = s.cap ∧ s'.data = s.data ∧ s.rp ≤ s'.rp
/-- what consumer-side thread invariants rely on -/
def CFrame (s s' : Sh) : Prop :=
  s'.rp = s.rp ∧ s.wp ≤ s'.wp ∧ ∃ l, s'.log = s.log ++ l

theorem getElem?_append_of_some {l l' : List Nat} {r x : Nat} (h : l[r]? = some x) :
    (l ++ l')[r]? = some x := by
  have hlt : r < l.length := (List.getElem?_eq_some_iff.mp h).1
  rw [List.getElem?_append_left hlt]; exact h

theorem TInv_frame {s s' : Sh} {t : Th} (h : TInv s t)
    (hp : t.holdsP = false ∨ PFrame s s') (hc : t.holdsC = false ∨ CFrame s s') : TInv s' t := by
  unfold TInv at h ⊢
  unfold PFrame at hp; unfold CFrame at hc
  split at h <;> try trivial
  all_goals grind [getElem?_append_of_some]


theorem mod_ne_of_lt {cap i w : Nat} (h1 : i < w) (h2 : w < i + cap) : i % cap ≠ w % cap := by
  intro e
  have := Nat.sub_mod_eq_zero_of_mod_eq e.symm
  rw [Nat.mod_eq_of_lt (by omega)] at this; omega

theorem SInv_pushCell {cap : Nat} {s : Sh} (h : SInv cap s) (v w : Nat) (hw : w = s.wp)
    (hlt : w < s.rp + s.cap) :
    SInv cap { s with data := s.data.set (w % s.cap) v } ∧
    (s.data.set (w % s.cap) v)[w % s.cap]? = some v := by
  obtain ⟨h1, h2, h3, h4, h5, h6, h7⟩ := h
  have hc : 0 < cap := by omega
  refine ⟨⟨h1, by simpa using h2, h3, h4, h5, h6, ?_⟩, ?_⟩
  · intro i hi1 hi2
    simp only at hi1 hi2 ⊢
    rw [List.getElem?_set_ne]
    · exact h7 i hi1 hi2
    · rw [h1]; exact fun e => mod_ne_of_lt (i := i) (w := w) (cap := cap) (by omega) (by omega) e.symm
  · rw [List.getElem?_set_self]
    rw [h2, h1]; exact Nat.mod_lt _ hc

theorem SInv_pushStW {cap : Nat} {s : Sh} (h : SInv cap s) (v w : Nat) (hw : w = s.wp)
    (hlt : w < s.rp + s.cap) (hd : s.data[w % s.cap]? = some v) :
    SInv cap { s with wp := w + 1, log := s.log ++ [v] } := by
  obtain ⟨h1, h2, h3, h4, h5, h6, h7⟩ := h
  refine ⟨h1, h2, by simp only; omega, by simp only; omega, by simp; omega, ?_, ?_⟩
  · simp only
    rw [List.take_append_of_le_length (by omega)]; exact h6
  · intro i hi1 hi2
    simp only at hi1 hi2 ⊢
    by_cases hiw : i < s.wp
    · rw [List.getElem?_append_left (by omega)]; exact h7 i hi1 hiw
    · have : i = w := by omega
      subst this
      rw [← h1, hd, List.getElem?_append_right (by omega)]
      simp [h5, hw]

theorem SInv_popStR {cap : Nat} {s : Sh} (h : SInv cap s) (r x : Nat) (hr : r = s.rp)
    (hlt : r < s.wp) (hx : s.log[r]? = some x) :
    SInv cap { s with rp := r + 1, popped := s.popped ++ [x] } := by
  obtain ⟨h1, h2, h3, h4, h5, h6, h7⟩ := h
  refine ⟨h1, h2, by simp only; omega, by simp only; omega, h5, ?_, ?_⟩
  · simp only
    rw [List.take_add_one, hx, h6, hr]; rfl
  · intro i hi1 hi2
    simp only at hi1 hi2 ⊢
    exact h7 i (by omega) hi2

theorem popCell_val {cap : Nat} {s : Sh} (h : SInv cap s) (r : Nat) (hr : r = s.rp)
    (hlt : r < s.wp) : s.log[r]? = some (s.data.getD (r % s.cap) 0) := by
  obtain ⟨h1, h2, h3, h4, h5, h6, h7⟩ := h
  have := h7 r (by omega) hlt
  rw [List.getD_eq_getElem?_getD, h1, this]
  have hl : r < s.log.length := by omega
  simp [List.getElem?_eq_getElem hl]


def RoleTrans (hs ht hs' ht' : Bool) : Prop :=
  (hs' = hs ∧ ht' = ht) ∨ (hs = true ∧ ht = false ∧ hs' = false ∧ ht' = true) ∨
  (ht = true ∧ hs' = true ∧ ht' = false)

structure StepFacts (cap : Nat) (s : Sh) (t : Th) (s' : Sh) (t' : Th) : Prop where
  sinv : SInv cap s'
  tinv : TInv s' t'
  pframe : t.holdsP = true ∨ PFrame s s'
  cframe : t.holdsC = true ∨ CFrame s s'
  roleP : RoleTrans s.hasProducer t.holdsP s'.hasProducer t'.holdsP
  roleC : RoleTrans s.hasConsumer t.holdsC s'.hasConsumer t'.holdsC

theorem PFrame_refl (s : Sh) : PFrame s s := ⟨rfl, rfl, rfl, Nat.le_refl _⟩
theorem CFrame_refl (s : Sh) : CFrame s s := ⟨rfl, Nat.le_refl _, [], by simp⟩
theorem RoleTrans_refl (a b : Bool) : RoleTrans a b a b := Or.inl ⟨rfl, rfl⟩

theorem SInv_congr {cap : Nat} {s s' : Sh} (h : SInv cap s) (e1 : s'.cap = s.cap) (e2 : s'.wp = s.wp)
    (e3 : s'.rp = s.rp) (e4 : s'.data = s.data) (e5 : s'.log = s.log) (e6 : s'.popped = s.popped) :
    SInv cap s' := by
  obtain ⟨h1, h2, h3, h4, h5, h6, h7⟩ := h
  refine ⟨?_, ?_, ?_, ?_, ?_, ?_, ?_⟩ <;> simp only [e1, e2, e3, e4, e5, e6] <;> assumption

variable (fl : Flavour)

set_option hygiene false in
macro "same_sh" : tactic => `(tactic|
  (simp at h; obtain ⟨rfl, rfl, rfl⟩ := h
   refine ⟨hS, ?_, .inr (PFrame_refl _), .inr (CFrame_refl _), RoleTrans_refl _ _, RoleTrans_refl _ _⟩))

theorem stepPC_facts {cap : Nat} {s s' : Sh} {t t' : Th} {evs : List Ev}
    (hS : SInv cap s) (hT : TInv s t) (h : stepPC fl s t = some (s', t', evs)) :
    StepFacts cap s t s' t' := by
  unfold stepPC at h
  unfold TInv at hT
  split at h <;> (rename_i hpc; simp only [hpc] at hT)
  · simp at h
  · -- pushLdW
    same_sh; simp_all [TInv]
  · -- pushLdR
    have := hS.wp_le; have := hS.cap_eq
    split at h <;> same_sh <;> simp_all [TInv] <;> omega
  · -- pushDist
    same_sh; simp_all [TInv]; omega
  · -- pushCell
    simp at h; obtain ⟨rfl, rfl, rfl⟩ := h
    obtain ⟨hP, hw, hlt⟩ := hT
    obtain ⟨hS', hd⟩ := SInv_pushCell hS _ _ hw hlt
    exact ⟨hS', (show _ ∧ _ ∧ _ ∧ _ from ⟨hP, hw, hlt, hd⟩), .inl hP, .inr ⟨rfl, Nat.le_refl _, [], by simp⟩, RoleTrans_refl _ _, RoleTrans_refl _ _⟩
  · -- pushStW
    simp at h; obtain ⟨rfl, rfl, rfl⟩ := h
    obtain ⟨hP, hw, hlt, hd⟩ := hT
    exact ⟨SInv_pushStW hS _ _ hw hlt hd, by simp [TInv], .inl hP, .inr ⟨rfl, by simp [hw], [_], rfl⟩, RoleTrans_refl _ _, RoleTrans_refl _ _⟩
  · -- popLdR
    same_sh; simp_all [TInv]
  · -- popLdW
    have := hS.rp_le
    split at h <;> same_sh <;> simp_all [TInv] <;> omega
  · -- popDist
    same_sh; simp_all [TInv]; omega
  · -- popCell
    same_sh
    obtain ⟨hC, hr, hlt⟩ := hT
    exact (show _ ∧ _ ∧ _ ∧ _ from ⟨hC, hr, hlt, popCell_val hS _ hr hlt⟩)
  · -- popStR
    simp at h; obtain ⟨rfl, rfl, rfl⟩ := h
    obtain ⟨hC, hr, hlt, hx⟩ := hT
    exact ⟨SInv_popStR hS _ _ hr hlt hx, by simp [TInv], .inr ⟨rfl, rfl, rfl, by simp [hr]⟩, .inl hC, RoleTrans_refl _ _, RoleTrans_refl _ _⟩
  · same_sh; simp_all [TInv]
  · same_sh; simp_all [TInv]
  · split at h <;> same_sh <;> simp_all [TInv]
  · split at h <;> same_sh <;> simp_all [TInv]
  · -- acqP
    split at h
    · rename_i hp
      simp at h; obtain ⟨rfl, rfl, rfl⟩ := h
      exact ⟨SInv_congr hS rfl rfl rfl rfl rfl rfl, by simp [TInv], .inr (PFrame_refl _), .inr (CFrame_refl _),
        .inr (.inl ⟨hp, hT, rfl, rfl⟩), RoleTrans_refl _ _⟩
    · same_sh; simp_all [TInv]
  · -- relP
    simp at h; obtain ⟨rfl, rfl, rfl⟩ := h
    exact ⟨SInv_congr hS rfl rfl rfl rfl rfl rfl, by simp [TInv], .inr (PFrame_refl _), .inr (CFrame_refl _),
        .inr (.inr ⟨hT, rfl, rfl⟩), RoleTrans_refl _ _⟩
  · -- acqC
    split at h
    · rename_i hp
      simp at h; obtain ⟨rfl, rfl, rfl⟩ := h
      exact ⟨SInv_congr hS rfl rfl rfl rfl rfl rfl, by simp [TInv], .inr (PFrame_refl _), .inr (CFrame_refl _),
        RoleTrans_refl _ _, .inr (.inl ⟨hp, hT, rfl, rfl⟩)⟩
    · same_sh; simp_all [TInv]
  · -- relC
    simp at h; obtain ⟨rfl, rfl, rfl⟩ := h
    exact ⟨SInv_congr hS rfl rfl rfl rfl rfl rfl, by simp [TInv], .inr (PFrame_refl _), .inr (CFrame_refl _),
        RoleTrans_refl _ _, .inr (.inr ⟨hT, rfl, rfl⟩)⟩


theorem nextCmd_enabled {hp hc : Bool} {l : List Cmd} {cmd : Cmd} {rest : List Cmd}
    (h : nextCmd hp hc l = some (cmd, rest)) : enabled hp hc cmd = true := by
  induction l with
  | nil => simp [nextCmd] at h
  | cons a l ih =>
    unfold nextCmd at h
    split at h
    · simp at h; obtain ⟨rfl, rfl⟩ := h; assumption
    · exact ih h

/-- a `step` is a `stepPC` of a thread state that has the same role flags and satisfies the
thread invariant (the dispatch of the next command establishes the entry condition) -/
theorem step_some {s : Sh} {t : Th} {r : Sh × Th × List Ev} (h : step fl s t = some r) :
    ∃ t0 : Th, t0.holdsP = t.holdsP ∧ t0.holdsC = t.holdsC ∧ (TInv s t → TInv s t0) ∧
      stepPC fl s t0 = some r := by
  unfold step at h
  split at h
  · split at h
    · simp at h
    · rename_i cmd rest hn
      refine ⟨{ t with pc := start cmd, todo := rest }, rfl, rfl, ?_, h⟩
      intro _
      have := nextCmd_enabled hn
      cases cmd <;> simp_all [TInv, start, enabled]
  · exact ⟨t, rfl, rfl, id, h⟩

theorem stepAt_some {c c' : Cfg Sh Th} {i : Nat} {evs : List Ev}
    (h : (sys fl).stepAt c i = some (c', evs)) :
    ∃ t sh' t', c.th[i]? = some t ∧ step fl c.sh t = some (sh', t', evs) ∧
      c' = { sh := sh', th := c.th.set i t' } := by
  unfold Sys.stepAt at h
  split at h
  · simp at h
  · rename_i t ht
    split at h
    · simp at h
    · rename_i sh' t' evs' hs
      simp at h
      obtain ⟨rfl, rfl⟩ := h
      exact ⟨t, sh', t', ht, hs, rfl⟩

structure Inv (cap : Nat) (c : Cfg Sh Th) : Prop where
  sinv : SInv cap c.sh
  tinv : ∀ (i : Nat) (t : Th), c.th[i]? = some t → TInv c.sh t
  uniqP : ∀ (a b : Nat) (ta tb : Th), c.th[a]? = some ta → c.th[b]? = some tb →
    ta.holdsP = true → tb.holdsP = true → a = b
  freeP : c.sh.hasProducer = true → ∀ (a : Nat) (ta : Th), c.th[a]? = some ta → ta.holdsP = false
  uniqC : ∀ (a b : Nat) (ta tb : Th), c.th[a]? = some ta → c.th[b]? = some tb →
    ta.holdsC = true → tb.holdsC = true → a = b
  freeC : c.sh.hasConsumer = true → ∀ (a : Nat) (ta : Th), c.th[a]? = some ta → ta.holdsC = false

theorem role_preserved (f : Th → Bool) (th : List Th) (i : Nat) (t t' : Th) (hs hs' : Bool)
    (hi : th[i]? = some t)
    (uniq : ∀ (a b : Nat) (ta tb : Th), th[a]? = some ta → th[b]? = some tb → f ta = true → f tb = true → a = b)
    (free : hs = true → ∀ (a : Nat) (ta : Th), th[a]? = some ta → f ta = false)
    (tr : RoleTrans hs (f t) hs' (f t')) :
    (∀ (a b : Nat) (ta tb : Th), (th.set i t')[a]? = some ta → (th.set i t')[b]? = some tb →
      f ta = true → f tb = true → a = b) ∧
    (hs' = true → ∀ (a : Nat) (ta : Th), (th.set i t')[a]? = some ta → f ta = false) := by
  unfold RoleTrans at tr
  constructor
  · intro a b ta tb ha hb fa fb
    rw [List.getElem?_set] at ha hb
    grind
  · intro h a ta ha
    rw [List.getElem?_set] at ha
    grind


theorem Inv_init (cap : Nat) (progs : List (List Cmd)) : Inv cap (initCfg cap progs) := by
  have hth : ∀ (i : Nat) (t : Th), (initCfg cap progs).th[i]? = some t →
      t.pc = .idle ∧ t.holdsP = false ∧ t.holdsC = false := by
    intro i t h
    simp only [initCfg, List.getElem?_map, Option.map_eq_some_iff] at h
    obtain ⟨p, _, rfl⟩ := h
    exact ⟨rfl, rfl, rfl⟩
  refine ⟨⟨rfl, by simp [initCfg, Sh.init], Nat.le_refl _, by simp [initCfg, Sh.init], rfl, rfl, ?_⟩,
    ?_, ?_, ?_, ?_, ?_⟩
  · intro i h1 h2; simp [initCfg, Sh.init] at h2
  · intro i t h; simp [TInv, (hth i t h).1]
  · intro a b ta tb ha hb h1; simp [(hth a ta ha).2.1] at h1
  · intro _ a ta ha; exact (hth a ta ha).2.1
  · intro a b ta tb ha hb h1; simp [(hth a ta ha).2.2] at h1
  · intro _ a ta ha; exact (hth a ta ha).2.2

theorem Inv_step {cap : Nat} {c c' : Cfg Sh Th} {i : Nat} {evs : List Ev} (hI : Inv cap c)
    (h : (sys fl).stepAt c i = some (c', evs)) : Inv cap c' := by
  obtain ⟨t, sh', t', hi, hst, rfl⟩ := stepAt_some fl h
  obtain ⟨t0, e1, e2, hT0, hpc⟩ := step_some fl hst
  have F := stepPC_facts fl hI.sinv (hT0 (hI.tinv i t hi)) hpc
  obtain ⟨F1, F2, F3, F4, F5, F6⟩ := F
  rw [e1] at F3 F5; rw [e2] at F4 F6
  have F : StepFacts cap c.sh t sh' t' := ⟨F1, F2, F3, F4, F5, F6⟩
  obtain ⟨uP, fP⟩ := role_preserved (·.holdsP) c.th i t t' _ _ hi hI.uniqP hI.freeP F.roleP
  obtain ⟨uC, fC⟩ := role_preserved (·.holdsC) c.th i t t' _ _ hi hI.uniqC hI.freeC F.roleC
  refine ⟨F.sinv, ?_, uP, fP, uC, fC⟩
  intro j tj hj
  simp only [List.getElem?_set] at hj
  split at hj
  · split at hj
    · simp at hj; subst hj; exact F.tinv
    · simp at hj
  · rename_i hne
    refine TInv_frame (hI.tinv j tj hj) ?_ ?_
    · rcases F.pframe with hp | hp
      · left
        cases hb : tj.holdsP
        · rfl
        · exact absurd (hI.uniqP i j t tj hi hj hp hb) hne
      · exact .inr hp
    · rcases F.cframe with hp | hp
      · left
        cases hb : tj.holdsC
        · rfl
        · exact absurd (hI.uniqC i j t tj hi hj hp hb) hne
      · exact .inr hp

theorem Inv_reachable {cap : Nat} {progs : List (List Cmd)} {c : Cfg Sh Th}
    (h : Reachable (sys fl) (initCfg cap progs) c) : Inv cap c :=
  Reachable.inv (Inv cap) (Inv_init cap progs) (fun _ _ _ _ hI hs => Inv_step fl hI hs) c h

theorem filter_length_le_one {α : Type} (p : α → Bool) (l : List α)
    (h : ∀ (a b : Nat) (x y : α), l[a]? = some x → l[b]? = some y → p x = true → p y = true → a = b) :
    (l.filter p).length ≤ 1 := by
  induction l with
  | nil => simp
  | cons x l ih =>
    by_cases hx : p x = true
    · have : l.filter p = [] := by
        rw [List.filter_eq_nil_iff]
        intro y hy hpy
        obtain ⟨n, hn⟩ := List.getElem?_of_mem hy
        have := h 0 (n + 1) x y (by simp) (by simpa using hn) hx hpy
        omega
      simp [hx, this]
    · simp only [List.filter_cons, hx]
      apply ih
      intro a b x' y' ha hb hpx hpy
      have := h (a + 1) (b + 1) x' y' (by simpa using ha) (by simpa using hb) hpx hpy
      omega


/-! ### return-value strings -/

theorem popSome_take (x : Nat) : (s!"pop some:{x}").toList.take 9 = "pop some:".toList := by
  show (toString "pop some:" ++ toString x).toList.take 9 = _
  rw [String.toList_append]
  exact List.take_left' (by decide)

theorem posResult_take (s : Sh) (k : Cmd) (w r : Nat) :
    (posResult s k w r).toList.take 1 = ['l'] ∨ (posResult s k w r).toList.take 1 = ['i'] := by
  cases k <;> simp [posResult, toString, String.toList_append]

/-- a `ret` string that does not start like `pop some:` is not a `pop some:x` -/
theorem ret_popSome_notin (x : Nat) (evs : List Ev)
    (h : ∀ s, Ev.ret s ∈ evs → s.toList.take 9 ≠ "pop some:".toList) :
    Ev.ret s!"pop some:{x}" ∉ evs := fun hm => h _ hm (popSome_take x)

theorem take1_of_take9 {l p : List Char} (h : l.take 9 = p) : l.take 1 = p.take 1 := by
  rw [← h, List.take_take]; rfl

theorem posResult_not_popSome (s : Sh) (k : Cmd) (w r : Nat) :
    (posResult s k w r).toList.take 9 ≠ "pop some:".toList := by
  intro h
  have h1 := take1_of_take9 h
  have : "pop some:".toList.take 1 = ['p'] := by decide
  rw [this] at h1
  rcases posResult_take s k w r with h2 | h2 <;> rw [h2] at h1 <;> simp at h1

/-- `posResult` never equals a string starting with `p` -/
theorem posResult_ne (s : Sh) (k : Cmd) (w r : Nat) (L : String) (hL : L.toList.take 1 = ['p']) :
    L ≠ posResult s k w r := by
  intro e
  rw [e] at hL
  rcases posResult_take s k w r with h2 | h2 <;> rw [h2] at hL <;> simp at hL

theorem posResult_not_popSome' (s : Sh) (k : Cmd) (w r : Nat) :
    (List.take 9 (posResult s k w r).toList = ['p', 'o', 'p', ' ', 's', 'o', 'm', 'e', ':']) = False := by
  have h := posResult_not_popSome s k w r
  have e : "pop some:".toList = ['p', 'o', 'p', ' ', 's', 'o', 'm', 'e', ':'] := by decide
  rw [e] at h
  exact eq_false h

theorem pushTrue_ne_posResult (s : Sh) (k : Cmd) (w r : Nat) : ("push true" = posResult s k w r) = False :=
  eq_false (posResult_ne s k w r _ (by decide))
theorem pushFalse_ne_posResult (s : Sh) (k : Cmd) (w r : Nat) : ("push false" = posResult s k w r) = False :=
  eq_false (posResult_ne s k w r _ (by decide))
theorem popNone_ne_posResult (s : Sh) (k : Cmd) (w r : Nat) : ("pop none" = posResult s k w r) = False :=
  eq_false (posResult_ne s k w r _ (by decide))

theorem lit_ne_popSome (x : Nat) (L : String) (hL : L.toList.take 9 ≠ "pop some:".toList) :
    L ≠ s!"pop some:{x}" := by
  intro e; rw [e] at hL; exact hL (popSome_take x)

set_option hygiene false in
macro "stutter" : tactic => `(tactic|
  (simp at h; obtain ⟨rfl, rfl, rfl⟩ := h
   refine .inl ⟨rfl, rfl, ?_, fun x => ret_popSome_notin x _ ?_⟩
   · simp [pushTrue_ne_posResult]
   · simp [posResult_not_popSome']))

theorem stepPC_refines {cap : Nat} {s s' : Sh} {t t' : Th} {evs : List Ev}
    (hS : SInv cap s) (hT : TInv s t) (h : stepPC fl s t = some (s', t', evs)) :
    (absq s' = absq s ∧ s'.popped = s.popped ∧
        Ev.ret "push true" ∉ evs ∧ ∀ x : Nat, Ev.ret s!"pop some:{x}" ∉ evs) ∨
    (∃ v, absq s' = absq s ++ [v] ∧ (absq s).length < cap ∧ s'.popped = s.popped ∧
        Ev.ret "push true" ∈ evs) ∨
    (∃ x : Nat, absq s = x :: absq s' ∧ s'.popped = s.popped ++ [x] ∧
        Ev.ret s!"pop some:{x}" ∈ evs) := by
  unfold stepPC at h
  unfold TInv at hT
  split at h <;> (rename_i hpc; simp only [hpc] at hT)
  · simp at h
  · stutter
  · split at h <;> stutter
  · stutter
  · stutter
  · -- pushStW: the abstract enqueue
    simp at h; obtain ⟨rfl, rfl, rfl⟩ := h
    obtain ⟨hP, hw, hlt, hd⟩ := hT
    obtain ⟨h1, h2, h3, h4, h5, h6, h7⟩ := hS
    rename_i v w
    refine .inr (.inl ⟨v, ?_, ?_, rfl, .tail _ (.head _)⟩)
    · simp only [absq]
      rw [List.drop_append_of_le_length (by omega)]
    · simp only [absq, List.length_drop]; omega
  · stutter
  · split at h <;> stutter
  · stutter
  · stutter
  · -- popStR: the abstract dequeue
    simp at h; obtain ⟨rfl, rfl, rfl⟩ := h
    obtain ⟨hC, hr, hlt, hx⟩ := hT
    rename_i r x
    refine .inr (.inr ⟨x, ?_, rfl, .tail _ (.head _)⟩)
    simp only [absq]
    obtain ⟨hl, hx'⟩ := List.getElem?_eq_some_iff.mp hx
    rw [← hr, List.drop_eq_getElem_cons hl, hx']
  · stutter
  · stutter
  · split at h <;> stutter
  · split at h <;> stutter
  · split at h <;> stutter
  · stutter
  · split at h <;> stutter
  · stutter


theorem ret_lit_notin_popStR (L : String) (hL : L.toList.take 9 ≠ "pop some:".toList) (r x : Nat) :
    Ev.ret L ∉ [Ev.store "rp" Ord.rel (r + 1), Ev.ret s!"pop some:{x}"] := by
  intro hm
  rw [List.mem_cons, List.mem_singleton] at hm
  rcases hm with hm | hm
  · cases hm
  · injection hm with e
    exact lit_ne_popSome x L hL e

set_option hygiene false in
macro "noret" : tactic => `(tactic|
  (simp at h; obtain ⟨rfl, rfl, rfl⟩ := h
   simp [pushFalse_ne_posResult, popNone_ne_posResult] at hr))

theorem stepPC_push_false {cap : Nat} {s s' : Sh} {t t' : Th} {evs : List Ev}
    (hS : SInv cap s) (hT : TInv s t) (h : stepPC fl s t = some (s', t', evs))
    (hr : Ev.ret "push false" ∈ evs) : (absq s).length = cap ∧ s' = s := by
  unfold stepPC at h
  unfold TInv at hT
  split at h <;> (rename_i hpc; simp only [hpc] at hT)
  · simp at h
  · noret
  · split at h
    · rename_i hfull
      simp at h; obtain ⟨rfl, rfl, rfl⟩ := h
      refine ⟨?_, rfl⟩
      obtain ⟨h1, h2, h3, h4, h5, h6, h7⟩ := hS
      simp only [absq, List.length_drop]; omega
    · noret
  · noret
  · noret
  · noret
  · noret
  · split at h <;> noret
  · noret
  · noret
  · simp at h; obtain ⟨rfl, rfl, rfl⟩ := h
    exact absurd hr (ret_lit_notin_popStR _ (by decide) _ _)
  · noret
  · noret
  · split at h <;> noret
  · split at h <;> noret
  · split at h <;> noret
  · noret
  · split at h <;> noret
  · noret

theorem stepPC_pop_none {cap : Nat} {s s' : Sh} {t t' : Th} {evs : List Ev}
    (hS : SInv cap s) (hT : TInv s t) (h : stepPC fl s t = some (s', t', evs))
    (hr : Ev.ret "pop none" ∈ evs) : absq s = [] ∧ s' = s := by
  unfold stepPC at h
  unfold TInv at hT
  split at h <;> (rename_i hpc; simp only [hpc] at hT)
  · simp at h
  · noret
  · split at h <;> noret
  · noret
  · noret
  · noret
  · noret
  · split at h
    · rename_i hempty
      simp at h; obtain ⟨rfl, rfl, rfl⟩ := h
      refine ⟨?_, rfl⟩
      obtain ⟨h1, h2, h3, h4, h5, h6, h7⟩ := hS
      simp only [absq]
      rw [List.drop_eq_nil_iff]; omega
    · noret
  · noret
  · noret
  · simp at h; obtain ⟨rfl, rfl, rfl⟩ := h
    exact absurd hr (ret_lit_notin_popStR _ (by decide) _ _)
  · noret
  · noret
  · split at h <;> noret
  · split at h <;> noret
  · split at h <;> noret
  · noret
  · split at h <;> noret
  · noret


end Proof

variable (fl : Flavour) (cap : Nat) (progs : List (List Cmd))

/-- at most one thread owns the producer role and at most one the consumer role -/
theorem spsc_single_role (c : Cfg Sh Th) (h : Reachable (sys fl) (initCfg cap progs) c) :
    (c.th.filter (·.holdsP)).length ≤ 1 ∧ (c.th.filter (·.holdsC)).length ≤ 1 := by
  have I := Inv_reachable fl h
  exact ⟨filter_length_le_one _ _ I.uniqP, filter_length_le_one _ _ I.uniqC⟩

/-- cursor and capacity bounds -/
theorem spsc_bounds (c : Cfg Sh Th) (h : Reachable (sys fl) (initCfg cap progs) c) :
    c.sh.rp ≤ c.sh.wp ∧ c.sh.wp ≤ c.sh.rp + cap ∧ c.sh.log.length = c.sh.wp ∧
    c.sh.cap = cap ∧ c.sh.data.length = cap ∧ (absq c.sh).length ≤ cap := by
  obtain ⟨h1, h2, h3, h4, h5, h6, h7⟩ := (Inv_reachable fl h).sinv
  refine ⟨h3, h4, h5, h1, h2, ?_⟩
  simp only [absq, List.length_drop]; omega

/-- every live position holds the value that was pushed there (nothing is overwritten while queued) -/
theorem spsc_slots_intact (c : Cfg Sh Th) (h : Reachable (sys fl) (initCfg cap progs) c)
    (i : Nat) (hi1 : c.sh.rp ≤ i) (hi2 : i < c.sh.wp) :
    c.sh.data[i % cap]? = c.sh.log[i]? :=
  (Inv_reachable fl h).sinv.slots i hi1 hi2

/-- **exactly once, in order, nothing invented**: the values returned by `pop` so far are exactly
the first `rp` published values, in publication order -/
theorem spsc_fifo_exactly_once (c : Cfg Sh Th) (h : Reachable (sys fl) (initCfg cap progs) c) :
    c.sh.popped = c.sh.log.take c.sh.rp :=
  (Inv_reachable fl h).sinv.popped_eq

/-- **conservation**: everything ever pushed successfully is either already popped or still queued -/
theorem spsc_conservation (c : Cfg Sh Th) (h : Reachable (sys fl) (initCfg cap progs) c) :
    c.sh.log = c.sh.popped ++ absq c.sh := by
  rw [(Inv_reachable fl h).sinv.popped_eq, absq, List.take_append_drop]

/-- **linearizability (forward simulation to the atomic bounded FIFO)**: every step of every
thread is either a stutter, or the abstract enqueue (at the release store of `write_position`,
only when the FIFO is not full), or the abstract dequeue of the head (at the release store of
`read_position`), and the value returned to the caller is the one the abstract operation yields -/
theorem spsc_step_refines (c c' : Cfg Sh Th) (i : Nat) (evs : List Ev)
    (h : Reachable (sys fl) (initCfg cap progs) c) (hs : (sys fl).stepAt c i = some (c', evs)) :
    (absq c'.sh = absq c.sh ∧ c'.sh.popped = c.sh.popped ∧
        Ev.ret "push true" ∉ evs ∧ ∀ x : Nat, Ev.ret s!"pop some:{x}" ∉ evs) ∨
    (∃ v, absq c'.sh = absq c.sh ++ [v] ∧ (absq c.sh).length < cap ∧ c'.sh.popped = c.sh.popped ∧
        Ev.ret "push true" ∈ evs) ∨
    (∃ x : Nat, absq c.sh = x :: absq c'.sh ∧ c'.sh.popped = c.sh.popped ++ [x] ∧
        Ev.ret s!"pop some:{x}" ∈ evs) := by
  have I := Inv_reachable fl h
  obtain ⟨t, sh', t', hi, hst, rfl⟩ := stepAt_some fl hs
  obtain ⟨t0, _, _, hT0, hpc⟩ := step_some fl hst
  exact stepPC_refines fl I.sinv (hT0 (I.tinv i t hi)) hpc

/-- a push fails only when the FIFO is full at its linearisation point (the acquire load of
`read_position`), a pop returns nothing only when it is empty (at the acquire load of
`write_position`) -/
theorem spsc_push_fails_only_if_full (c c' : Cfg Sh Th) (i : Nat) (evs : List Ev)
    (h : Reachable (sys fl) (initCfg cap progs) c) (hs : (sys fl).stepAt c i = some (c', evs))
    (hr : Ev.ret "push false" ∈ evs) : (absq c.sh).length = cap ∧ c'.sh = c.sh := by
  have I := Inv_reachable fl h
  obtain ⟨t, sh', t', hi, hst, rfl⟩ := stepAt_some fl hs
  obtain ⟨t0, _, _, hT0, hpc⟩ := step_some fl hst
  exact stepPC_push_false fl I.sinv (hT0 (I.tinv i t hi)) hpc hr

theorem spsc_pop_none_only_if_empty (c c' : Cfg Sh Th) (i : Nat) (evs : List Ev)
    (h : Reachable (sys fl) (initCfg cap progs) c) (hs : (sys fl).stepAt c i = some (c', evs))
    (hr : Ev.ret "pop none" ∈ evs) : absq c.sh = [] ∧ c'.sh = c.sh := by
  have I := Inv_reachable fl h
  obtain ⟨t, sh', t', hi, hst, rfl⟩ := stepAt_some fl hs
  obtain ⟨t0, _, _, hT0, hpc⟩ := step_some fl hst
  exact stepPC_pop_none fl I.sinv (hT0 (I.tinv i t hi)) hpc hr

/-- non-vacuity: a concrete interleaving with a full queue, a failed push, hand-over of the
producer role to a third thread and interleaved pops -/
example :
    let progs := [[Cmd.acquireProducer, .push 1, .push 2, .push 3, .releaseProducer],
                  [Cmd.acquireConsumer, .pop, .pop, .pop],
                  [Cmd.acquireProducer, .push 9, .acquireProducer, .push 7]]
    let r := (sys {}).run (initCfg 2 progs)
      (List.replicate 14 0 ++ List.replicate 6 1 ++ List.replicate 8 2 ++ List.replicate 10 1)
    r.1.sh.popped = [1, 2, 9] ∧ r.1.sh.log = [1, 2, 9] ∧ r.1.sh.rp = 3 := by
  decide


end Iox2.C03.SpscP
