/-
C16 — fixed-capacity containers match reference models, drop elements once.
Property theorems only (helper lemmas live in Iox2/Proof).
-/
import Iox2.Model.Vec
import Iox2.Proof.ListLemmas

namespace Iox2.C16
open Iox2 Iox2.ListLemmas

/-! ## Vector (`StaticVec`, `PolymorphicVec`, `RelocatableVec` share `Vector<T>`) -/
namespace VecP
open Iox2.Vec

/-- the reference: what the unbounded standard vector does -/
def ref (l : List Elem) (next : Nat) : Op → List Elem
  | .push e => l ++ [e]
  | .pop => l.dropLast
  | .insert i e => l.take i ++ e :: l.drop i
  | .remove i => l.eraseIdx i
  | .clear => []
  | .truncate n => l.take n
  | .resize n e => if n < l.length then l.take n else l ++ clones e next (n - l.length)
  | .extend es => l ++ cloneAll next es
  | .dump => l
  | .dropAll => []

def isErr : Out → Bool
  | .errCap | .errOob => true
  | _ => false

/-- run a whole op sequence -/
def run (s : St) : List Op → St
  | [] => s
  | op :: ops => run (step s op).1 ops

theorem clones_length (e : Elem) (n k : Nat) : (clones e n k).length = k := by
  induction k generalizing n with
  | zero => rfl
  | succ k ih => simp [clones, ih]

theorem cloneAll_length (n : Nat) (es : List Elem) : (cloneAll n es).length = es.length := by
  induction es generalizing n with
  | nil => rfl
  | cons e es ih => simp [cloneAll, ih]

/-- one step keeps the length within the capacity -/
theorem step_len_le_cap (s : St) (op : Op) (h : s.items.length ≤ s.cap) :
    (step s op).1.items.length ≤ (step s op).1.cap ∧ (step s op).1.cap = s.cap := by
  cases op <;> simp only [step] <;> grind [clones_length, cloneAll_length]

/-- capacity bound for every reachable state, every capacity, every op sequence -/
theorem vec_len_le_cap (cap : Nat) (ops : List Op) : (run (init cap) ops).items.length ≤ cap := by
  suffices h : ∀ s : St, s.items.length ≤ s.cap → (run s ops).items.length ≤ s.cap from
    h (init cap) (by simp [init])
  induction ops with
  | nil => intro s h; exact h
  | cons op ops ih =>
    intro s h
    have h1 := step_len_le_cap s op h
    have h2 := ih (step s op).1 h1.1
    simp only [run]; omega

/-- an operation that fails (exceeds the capacity / index out of bounds) changes nothing -/
theorem vec_error_changes_nothing (s : St) (op : Op) (h : isErr (step s op).2.1 = true) :
    (step s op).1 = s := by
  cases op <;> simp only [step] at h ⊢ <;> grind [isErr]

/-- an operation that does not fail does exactly what the unbounded standard vector does -/
theorem vec_refines_list (s : St) (op : Op) (h : isErr (step s op).2.1 = false) :
    (step s op).1.items = ref s.items s.nextClone op := by
  cases op <;> simp only [step, ref] at h ⊢ <;>
    grind [isErr, List.getLast?_eq_none_iff, List.eraseIdx_of_length_le]

/-- … and it fails exactly when the standard result would not fit, or the insert index is out of range -/
theorem vec_fails_iff (s : St) (op : Op) (hl : s.items.length ≤ s.cap) :
    isErr (step s op).2.1 = true ↔
      (s.cap < (ref s.items s.nextClone op).length ∨
       (∃ i e, op = .insert i e ∧ s.items.length < i)) := by
  cases op <;> simp only [step, ref] <;>
    grind [isErr, clones_length, cloneAll_length, List.length_eraseIdx]

/-- ids entering the container through the op (passed by value, or cloned inside) -/
def entering (s : St) : Op → List Nat
  | .push e => [e.id]
  | .insert _ e => [e.id]
  | .resize n e => e.id :: (if s.cap < n ∨ n < s.items.length then []
                            else (clones e s.nextClone (n - s.items.length)).map (·.id))
  | .extend es => if s.cap < s.items.length + es.length then [] else (cloneAll s.nextClone es).map (·.id)
  | _ => []

/-- ids handed back to the caller -/
def returned : Out → List Nat
  | .some e => [e.id]
  | _ => []

/-- conservation for one step: stored ⊎ returned ⊎ dropped = stored before ⊎ entered -/
theorem vec_step_conservation (s : St) (op : Op) :
    ((step s op).1.items.map (·.id) ++ returned (step s op).2.1 ++ (step s op).2.2).Perm
      (s.items.map (·.id) ++ entering s op) := by
  cases op <;> simp only [step, entering, returned]
  case push e => split <;> simp
  case pop =>
    split
    · simp
    · rename_i e he
      simpa using (perm_pop s.items e he).map (·.id)
  case insert i e =>
    split
    · simp
    · split
      · simp
      · simp only [List.map_append, List.map_cons, List.append_nil]
        have := List.take_append_drop i (s.items.map (·.id))
        conv => rhs; rw [← this]
        simp only [List.map_take, List.map_drop, List.append_assoc]
        apply List.Perm.append_left
        simpa using (List.perm_append_comm (l₁ := [e.id]) (l₂ := List.drop i (s.items.map (·.id))))
  case remove i =>
    split
    · simp
    · rename_i e he
      simpa using (perm_eraseIdx s.items i e he).map (·.id)
  case clear => simp
  case truncate n =>
    simpa [List.map_take, List.map_drop, List.map_reverse] using perm_take_drop_rev (s.items.map (·.id)) n
  case resize n e =>
    split
    · rename_i h; simp [h]
    · split
      · rename_i h1 h2
        simp only [h2, or_true, if_true, List.append_nil]
        have := perm_take_drop_rev (s.items.map (·.id)) n
        simpa [List.map_take, List.map_drop, List.map_reverse] using this.append_right [e.id]
      · rename_i h1 h2
        simp only [h1, h2, or_self, if_false, List.map_append, List.append_nil, List.append_assoc]
        apply List.Perm.append_left
        simp
  case extend es => split <;> simp_all
  case dump => simp
  case dropAll => simp

/-- accumulated log of a whole history: (entered, returned, dropped) -/
def runLog (s : St) : List Op → St × List Nat × List Nat × List Nat
  | [] => (s, [], [], [])
  | op :: ops =>
    let r := step s op
    let (s', en, re, dr) := runLog r.1 ops
    (s', entering s op ++ en, returned r.2.1 ++ re, r.2.2 ++ dr)

/-- **drop exactly once**, for every history: everything that ever entered the vector is, as a
multiset, exactly what is still stored, what was handed back to the caller and what was dropped -/
theorem vec_conservation (s : St) (ops : List Op) :
    let r := runLog s ops
    (r.1.items.map (·.id) ++ r.2.2.1 ++ r.2.2.2).Perm (s.items.map (·.id) ++ r.2.1) := by
  induction ops generalizing s with
  | nil => simp [runLog]
  | cons op ops ih =>
    have h1 := vec_step_conservation s op
    have h2 := ih (step s op).1
    simp only [runLog] at h2 ⊢
    generalize runLog (step s op).1 ops = r at h2 ⊢
    obtain ⟨s', en, re, dr⟩ := r
    simp only at h2 ⊢
    -- stored' ++ (ret ++ re) ++ (d ++ dr) ~ (stored1 ++ en) ++ ret ++ d ~ stored ++ entering ++ en
    have h3 : (List.map (·.id) s'.items ++ (returned (step s op).2.1 ++ re) ++ ((step s op).2.2 ++ dr)).Perm
        ((List.map (·.id) s'.items ++ re ++ dr) ++ (returned (step s op).2.1 ++ (step s op).2.2)) := by
      simp only [List.append_assoc]
      apply List.Perm.append_left
      refine (List.perm_append_comm_assoc _ _ _).trans ?_
      apply List.Perm.append_left
      refine List.Perm.trans ?_ (List.perm_append_comm_assoc _ _ _)
      apply List.Perm.append_left
      exact List.perm_append_comm
    refine h3.trans ?_
    refine (List.Perm.append_right _ h2).trans ?_
    have h4 : (List.map (·.id) (step s op).1.items ++ en ++ (returned (step s op).2.1 ++ (step s op).2.2)).Perm
        ((List.map (·.id) (step s op).1.items ++ returned (step s op).2.1 ++ (step s op).2.2) ++ en) := by
      simp only [List.append_assoc]
      apply List.Perm.append_left
      simpa using (List.perm_append_comm (l₁ := en) (l₂ := returned (step s op).2.1 ++ (step s op).2.2))
    refine h4.trans ?_
    refine (List.Perm.append_right _ h1).trans ?_
    simp

/-- consequence: if all ids that entered are distinct (and distinct from the initial content),
then nothing is dropped twice, and nothing dropped or returned is still stored -/
theorem vec_no_double_drop (s : St) (ops : List Op)
    (hfresh : (s.items.map (·.id) ++ (runLog s ops).2.1).Nodup) :
    ((runLog s ops).1.items.map (·.id) ++ (runLog s ops).2.2.1 ++ (runLog s ops).2.2.2).Nodup :=
  (vec_conservation s ops).nodup_iff.mpr hfresh

/-- non-vacuity: a concrete history with overflow, removal, truncation and clones -/
example :
    let ops := [Op.push ⟨1, 7⟩, .push ⟨2, 8⟩, .push ⟨3, 9⟩, .insert 0 ⟨4, 1⟩, .resize 1 ⟨5, 0⟩, .extend [⟨6, 3⟩], .pop]
    (runLog (init 2) ops).2.2.2 = [3, 4, 2, 5] ∧ (runLog (init 2) ops).1.items = [⟨1, 7⟩] := by
  decide

end VecP
end Iox2.C16
