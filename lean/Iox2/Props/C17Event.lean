/-
C17 — orderly shutdown, EVENT messaging pattern: node handle, service handle, notifiers and listeners dropped in any order.

Model: `Iox2/Model/EventPorts.lean` (validated against the real ports by the differential run `eventports`, mode `shutdown`:
every permutation of the drop order of a 6-object graph and random graphs, files by kind after every drop).
The statements are those proved in `Iox2/Props/C08Event.lean` (section "C17 flavour"), restated here so that the C17 check
builds and audits them.  A drop cannot panic in the model by construction (`Out` has no such constructor); that no drop of
the real objects panics in any order is what the differential run observes.

The full statement "after everything was dropped nothing is left" is FALSE for this pattern too (the same root cause as the
publish-subscribe finding: a port removes its tag in the node directory only after the node directory was given up):
`event_all_dropped_may_leave_node_directory`; what holds is `event_all_dropped_resources` and the `_partial` theorem.
-/
import Iox2.Props.C08Event
namespace Iox2.EventPorts

/-- After everything was dropped nothing is left — except the directories of the nodes whose last owner was a port. -/
theorem event_all_dropped_resources {w : World} (h : AllDropped w) :
    resources w = if !w.cfg.ipc then [] else if dirsLeft w = 0 then [] else [("nodedir", dirsLeft w)] :=
  c17_all_dropped_resources h

/-- FALSE: `AllDropped w → resources w = []`; witness replayed on the real code (`ls => nodedir=1`):
`new ipc 1 1 0 - - - 1 -; cnot 0 - 0; dsvc 0; dnode 0; dnot 0`. -/
theorem event_all_dropped_may_leave_node_directory :
    ∃ (c : Cfg) (ops : List Op), c.Sane ∧ AllDropped (run (World.init c) ops) ∧ resources (run (World.init c) ops) = [("nodedir", 1)] :=
  c17_all_dropped_may_leave_node_directory

/-- A node directory stays behind in one way only: a port is dropped after both handles of its node. -/
theorem event_dir_left_only_by_port_drop_after_handles (w : World) (op : Op) {k : Nat} {P' : Part}
    (h : (step w op).1.parts k = some P') (hd : P'.dirLeft = true) :
    (∃ P, w.parts k = some P ∧ P.dirLeft = true) ∨ PortDropAfterHandles w op k :=
  c17_dir_left_only_by_port_drop_after_handles w op h hd

/-- `_partial`: histories in which, for every node, the node handle or the service handle outlives the node's ports leave
nothing behind once everything is dropped. -/
theorem event_shutdown_leaves_nothing_partial {c : Cfg} {w : World} (r : ReachHandlesLast c w) (h : AllDropped w) :
    resources w = [] :=
  c17_shutdown_leaves_nothing_partial r h

/-- dropping the node handle or the service handle leaves every port, registry entry and pending notification alone -/
theorem event_handles_drop_leaves_ports_alone (w : World) (k : Nat) :
    ((step w (.dnode k)).1.liss = w.liss ∧ (step w (.dnode k)).1.nots = w.nots ∧ (step w (.dnode k)).1.lisReg = w.lisReg ∧
     (step w (.dnode k)).1.notReg = w.notReg ∧ (step w (.dnode k)).1.hist = w.hist) ∧
    ((step w (.dsvc k)).1.liss = w.liss ∧ (step w (.dsvc k)).1.nots = w.nots ∧ (step w (.dsvc k)).1.lisReg = w.lisReg ∧
     (step w (.dsvc k)).1.notReg = w.notReg ∧ (step w (.dsvc k)).1.hist = w.hist) :=
  c17_handles_drop_leaves_ports_alone w k

end Iox2.EventPorts
