/-
C12 — composition level: the ORDER in which the writer port composes the steps of a loan-style
update (`loan_uninit` → write → update), interleaved step by step with any number of readers.
The per-call step lists are regenerated from /repo (`Gen/ApiOrder.lean`, translator
`extract/api_order.py`); the theorems are about the programs built from the generated lists.
Values are canonical (the i-th update writes i; a value is two words written one after the other):
the port code is parametric in the payload.
-/
import Iox2.Gen.ApiOrder
import Iox2.Proof.ComposeBB
namespace Iox2.Props.C12Compose
open Iox2.Compose Iox2.Compose.BB Iox2.Gen.ApiOrder

/-- generic API: `EntryHandleMut::loan_uninit` (= `EntryValueUninit::new`), `update_with_copy` -/
def progCopy : List WOp := updateProg entryValueUninit_new entryValueUninit_updateWithCopy
/-- generic API: `loan_uninit`, the user's write through `value_mut()`, `assume_init_and_update` -/
def progAssume : List WOp := updateProg entryValueUninit_new (.writeValue :: entryValueUninit_assumeInitAndUpdate)
/-- custom-key API of the language bindings: `__InternalEntryValueUninit::new`, write through `write_cell()`, `update` -/
def progInternal : List WOp := updateProg internalEntryValueUninit_new (.writeValue :: internalEntryValueUninit_update)

/-- the three loan-style update paths of the CURRENT source: capture the spare cell, write, publish -/
theorem loan_update_programs : progCopy = nominal ∧ progAssume = nominal ∧ progInternal = nominal := by decide

/-- the copy-style update is one call of the lock-free structure's own `store` (proved in `C12.lean`) -/
theorem copy_update_is_store : entryHandleMut_updateWithCopy = [.store] := by decide

/-- what `get` returns is never a mixture of two writes -/
theorem loan_update_read_in_one_piece (s : St) (h : Reach progCopy s) (i : Nat) :
    ∀ p ∈ (s.rd i).got, p.1 = p.2 := by
  rw [loan_update_programs.1] at h
  intro p hp
  exact (((reach_inv s h).2.2.2 i).2.2.2.2.1 p hp).1

/-- successive reads of one reader never go back -/
theorem loan_update_reads_monotone (s : St) (h : Reach progCopy s) (i : Nat) :
    (s.rd i).got.Pairwise (fun p q => p.1 ≤ q.1) := by
  rw [loan_update_programs.1] at h
  exact ((reach_inv s h).2.2.2 i).2.2.2.2.2.2

/-- a returned value is one that was published: never the value of an update still in progress -/
theorem loan_update_read_was_published (s : St) (h : Reach progCopy s) (i : Nat) :
    ∀ p ∈ (s.rd i).got, p.1 + 1 ≤ s.sh.wc := by
  rw [loan_update_programs.1] at h
  intro p hp
  exact (((reach_inv s h).2.2.2 i).2.2.2.2.1 p hp).2

/-- the same three statements for the other two loan-style paths -/
theorem loan_update_assume_path (s : St) (h : Reach progAssume s) (i : Nat) :
    (∀ p ∈ (s.rd i).got, p.1 = p.2 ∧ p.1 + 1 ≤ s.sh.wc) ∧ (s.rd i).got.Pairwise (fun p q => p.1 ≤ q.1) := by
  rw [loan_update_programs.2.1] at h
  exact ⟨((reach_inv s h).2.2.2 i).2.2.2.2.1, ((reach_inv s h).2.2.2 i).2.2.2.2.2.2⟩

theorem loan_update_internal_path (s : St) (h : Reach progInternal s) (i : Nat) :
    (∀ p ∈ (s.rd i).got, p.1 = p.2 ∧ p.1 + 1 ≤ s.sh.wc) ∧ (s.rd i).got.Pairwise (fun p q => p.1 ≤ q.1) := by
  rw [loan_update_programs.2.2] at h
  exact ⟨((reach_inv s h).2.2.2 i).2.2.2.2.1, ((reach_inv s h).2.2.2 i).2.2.2.2.2.2⟩

/-- contrast (why the order matters): with the two calls of `update_with_copy` exchanged a reader
returns a mixture of two writes — writer: getPtr, pub, wLo; reader 0: a complete `get` in between -/
theorem exchanged_order_tears :
    ∃ s, Reach (updateProg [.getPtr] [.publish, .writeValue]) s ∧ ∃ p ∈ (s.rd 0).got, p.1 ≠ p.2 := by
  let P := updateProg [.getPtr] [.publish, .writeValue]
  let s1 := wstep P (wstep P St.init)
  let s2 := rstep s1 0
  let s3 := wstep P s2
  let s4 := rstep (rstep (rstep s3 0) 0) 0
  refine ⟨s4, ?_, (1, 0), ?_, by decide⟩
  · exact .reader 0 (.reader 0 (.reader 0 (.writer (.reader 0 (.writer (.writer .init))))))
  · decide

/-- non-vacuity: a reachable state in which a reader has returned two different published values -/
example : ∃ s, Reach progCopy s ∧ (s.rd 0).got = [(0, 0), (1, 1)] := by
  let P := progCopy
  let r4 (s : St) := rstep (rstep (rstep (rstep s 0) 0) 0) 0
  let w4 (s : St) := wstep P (wstep P (wstep P (wstep P s)))
  refine ⟨r4 (w4 (r4 St.init)), ?_, by decide⟩
  exact .reader 0 (.reader 0 (.reader 0 (.reader 0 (.writer (.writer (.writer (.writer
    (.reader 0 (.reader 0 (.reader 0 (.reader 0 .init)))))))))))

end Iox2.Props.C12Compose
