import Iox2.Gen.FfiErrors

/-!
# C18 — the C binding is a faithful projection of the Rust API: the error tables

`Iox2.Gen.FfiErrors.allEnums` is regenerated from `/repo/iceoryx2-ffi/c/src/api/*.rs` (C enums with
evaluated discriminants, `IntoCInt`/`From` mappings, `CStrRepr` names, `*_string` functions) and from the
definitions of the Rust error enums (all their variants) by `/verif/extract/ffi_errors.py` on every run of
`./check C18`.  Every theorem below is ONE statement quantified over the whole generated table
(`∀ e ∈ allEnums, …`), decided by kernel evaluation (`decide +kernel`: no axioms, no compiler).  A change of
the sources that breaks a statement changes the table and the theorem stops type-checking.

Statements, per C error enum `e`:

* `WellFormed`      the table is a function table: C variant names unique, every row of a mapping goes from a
                    variant of the Rust enum to a variant of the C enum, no Rust variant has two rows;
* `CodesDistinct`   discriminants pairwise distinct;
* `CodesNonzero`    no discriminant equals `IOX2_OK` (0): a failure is never reported as success;
* `HasStringFn`     there is an `extern "C"` `…_string` function: the names are reachable from C;
* `NamesNonempty`   every variant has a non-empty printable name;
* `NamesDistinct`   printable names pairwise distinct;
* `MappingTotal`    every (flattened) variant of the Rust enum has a row (a C code is returned for it);
* `MappingInjective` distinct Rust variants go to distinct C variants;
* `MappingOnto`     every C variant is the image of a Rust variant or is returned directly by the binding.

`WellFormed`, `CodesDistinct`, `MappingTotal` and `MappingInjective` hold for the whole table (the last two since the
repairs 02dd395 / ff8765f in /repo).  The five others are FALSE for the current sources:
for each of them the full statement is kept, its negation is proved (`…_refuted`), the strongest true variant
`…_partial` excludes exactly the entries listed by name in an `…Exceptions` list, and `…_exceptions_exact`
proves that every listed exception is a genuine offender (so an exception that stops offending — the source
was repaired — breaks the build as well: nothing stays excluded silently).
The exceptions are reported as candidate defects in /verif/notes/C18-design.md.
-/

namespace Iox2.C18
open Iox2.Ffi Iox2.Gen.FfiErrors

/-! ## the statements -/

def cNames (e : CEnum) : List Name := e.variants.map (·.name)
def image (e : CEnum) : List Name := e.mappings.flatMap (fun m => m.table.map (·.2))

def WellFormed (e : CEnum) : Prop :=
  (cNames e).Nodup ∧ (∀ d ∈ e.direct, d ∈ cNames e) ∧
  ∀ m ∈ e.mappings, (m.table.map (·.1)).Nodup ∧ m.rustVariants.Nodup ∧
    ∀ r ∈ m.table, r.1 ∈ m.rustVariants ∧ r.2 ∈ cNames e

def CodesDistinct (e : CEnum) : Prop := (e.variants.map (·.code)).Nodup
def CodesNonzero (e : CEnum) : Prop := ∀ v ∈ e.variants, v.code ≠ IOX2_OK
def HasStringFn (e : CEnum) : Prop := e.hasStringFn = true
def NamesNonempty (e : CEnum) : Prop := ∀ v ∈ e.variants, ¬ v.printable.isEmpty
def NamesDistinct (e : CEnum) : Prop := ((e.variants.map (·.printable)).filter (fun p => decide (¬ p.isEmpty))).Nodup
def MappingTotal (e : CEnum) : Prop := ∀ m ∈ e.mappings, ∀ r ∈ m.rustVariants, r ∈ m.table.map (·.1)
def MappingInjective (e : CEnum) : Prop := ∀ m ∈ e.mappings, (m.table.map (·.2)).Nodup
def MappingOnto (e : CEnum) : Prop := ∀ v ∈ e.variants, v.name ∈ image e ∨ v.name ∈ e.direct

instance (e : CEnum) : Decidable (WellFormed e) := by unfold WellFormed; infer_instance
instance (e : CEnum) : Decidable (CodesDistinct e) := by unfold CodesDistinct; infer_instance
instance (e : CEnum) : Decidable (CodesNonzero e) := by unfold CodesNonzero; infer_instance
instance (e : CEnum) : Decidable (HasStringFn e) := by unfold HasStringFn; infer_instance
instance (e : CEnum) : Decidable (NamesNonempty e) := by unfold NamesNonempty; infer_instance
instance (e : CEnum) : Decidable (NamesDistinct e) := by unfold NamesDistinct; infer_instance
instance (e : CEnum) : Decidable (MappingTotal e) := by unfold MappingTotal; infer_instance
instance (e : CEnum) : Decidable (MappingInjective e) := by unfold MappingInjective; infer_instance
instance (e : CEnum) : Decidable (MappingOnto e) := by unfold MappingOnto; infer_instance

/-! ## statements that hold for the whole table -/

/-- the generated table is a function table (names unique, rows inside the two enums, one row per Rust variant) -/
theorem table_well_formed : ∀ e ∈ allEnums, WellFormed e := by decide +kernel

/-- enum names are unique: an entry is identified by its name -/
theorem enum_names_distinct : (allEnums.map (·.name)).Nodup := by decide +kernel

/-- C18: within every C error enum the codes are pairwise distinct -/
theorem codes_distinct : ∀ e ∈ allEnums, CodesDistinct e := by decide +kernel

/-- non-vacuity: the table is not empty, has mappings, and contains the enums of the anchored files -/
example : allEnums.length ≥ 40 ∧ (allEnums.map (fun e => e.mappings.length)).sum ≥ 40 ∧
    (allEnums.map (fun e => e.variants.length)).sum ≥ 250 := by decide +kernel
example : ∀ n ∈ [n! "iox2_send_error_e", n! "iox2_loan_error_e", n! "iox2_receive_error_e", n! "iox2_notifier_notify_error_e",
    n! "iox2_listener_wait_error_e", n! "iox2_pub_sub_open_or_create_error_e", n! "iox2_node_creation_failure_e",
    n! "iox2_request_send_error_e", n! "iox2_publisher_create_error_e", n! "iox2_subscriber_create_error_e",
    n! "iox2_semantic_string_error_e"], n ∈ allEnums.map (·.name) := by decide +kernel

/-! ## codes are non-zero — FALSE: one failure code equals `IOX2_OK` -/

/-- (enum, variant) whose code is `IOX2_OK`.
    `iox2_connection_failure_e` (subscriber.rs) does not start at `IOX2_OK + 1`: `ConnectionFailure::
    FailedToEstablishConnection` is returned as 0 by `iox2_subscriber_has_samples` /
    `iox2_publisher_update_connections`, i.e. as success. -/
def nonzeroExceptions : List (Name × Name) :=
  [(n! "iox2_connection_failure_e", n! "FAILED_TO_ESTABLISH_CONNECTION")]

-- full statement (false): ∀ e ∈ allEnums, CodesNonzero e
theorem codes_nonzero_refuted : ¬ ∀ e ∈ allEnums, CodesNonzero e := by decide +kernel

theorem codes_nonzero_partial :
    ∀ e ∈ allEnums, ∀ v ∈ e.variants, (e.name, v.name) ∉ nonzeroExceptions → v.code ≠ IOX2_OK := by
  decide +kernel

theorem codes_nonzero_exceptions_exact :
    ∀ x ∈ nonzeroExceptions, ∃ e ∈ allEnums, e.name = x.1 ∧ ∃ v ∈ e.variants, v.name = x.2 ∧ v.code = IOX2_OK := by
  decide +kernel

/-! ## every enum has a `…_string` function — FALSE for seven enums -/

def stringFnExceptions : List Name :=
  [n! "iox2_allocation_grow_error_e", n! "iox2_flatbuffer_find_schema_file_error_e", n! "iox2_node_cleanup_failure_e",
   n! "iox2_service_name_error_e", n! "iox2_service_remove_error_e", n! "iox2_type_detail_error_e",
   n! "iox2_waitset_run_result_e"]

-- full statement (false): ∀ e ∈ allEnums, HasStringFn e
theorem has_string_fn_refuted : ¬ ∀ e ∈ allEnums, HasStringFn e := by decide +kernel

theorem has_string_fn_partial : ∀ e ∈ allEnums, e.name ∉ stringFnExceptions → HasStringFn e := by
  decide +kernel

theorem has_string_fn_exceptions_exact :
    ∀ x ∈ stringFnExceptions, ∃ e ∈ allEnums, e.name = x ∧ ¬ HasStringFn e := by decide +kernel

/-! ## printable names are non-empty — FALSE for the one enum that does not derive `CStrRepr` -/

def nameExceptions : List (Name × Name) :=
  [(n! "iox2_type_detail_error_e", n! "INVALID_TYPE_NAME"), (n! "iox2_type_detail_error_e", n! "INVALID_SIZE_OR_ALIGNMENT_VALUE")]

-- full statement (false): ∀ e ∈ allEnums, NamesNonempty e
theorem names_nonempty_refuted : ¬ ∀ e ∈ allEnums, NamesNonempty e := by decide +kernel

theorem names_nonempty_partial :
    ∀ e ∈ allEnums, ∀ v ∈ e.variants, (e.name, v.name) ∉ nameExceptions → ¬ v.printable.isEmpty := by
  decide +kernel

theorem names_nonempty_exceptions_exact :
    ∀ x ∈ nameExceptions, ∃ e ∈ allEnums, e.name = x.1 ∧ ∃ v ∈ e.variants, v.name = x.2 ∧ v.printable.isEmpty := by
  decide +kernel

/-! ## printable names are pairwise distinct — FALSE: the three open-or-create enums print the same text
    for the `O_…` (open failed) and the `C_…` (create failed) variant of the same cause -/

/-- (enum, variant): the variants whose printable name repeats the name of an earlier variant of the same enum -/
def duplicateNameExceptions : List (Name × Name) :=
  [(n! "iox2_event_open_or_create_error_e", n! "C_SERVICE_IN_CORRUPTED_STATE"),
   (n! "iox2_event_open_or_create_error_e", n! "C_INTERNAL_FAILURE"),
   (n! "iox2_event_open_or_create_error_e", n! "C_INSUFFICIENT_PERMISSIONS"),
   (n! "iox2_event_open_or_create_error_e", n! "C_UNABLE_TO_CREATE_SERVICE_TAG"),
   (n! "iox2_event_open_or_create_error_e", n! "C_INTERRUPT"),
   (n! "iox2_pub_sub_open_or_create_error_e", n! "C_SERVICE_IN_CORRUPTED_STATE"),
   (n! "iox2_pub_sub_open_or_create_error_e", n! "C_INSUFFICIENT_PERMISSIONS"),
   (n! "iox2_pub_sub_open_or_create_error_e", n! "C_INTERNAL_FAILURE"),
   (n! "iox2_pub_sub_open_or_create_error_e", n! "C_HANGS_IN_CREATION"),
   (n! "iox2_pub_sub_open_or_create_error_e", n! "C_UNABLE_TO_CREATE_SERVICE_TAG"),
   (n! "iox2_pub_sub_open_or_create_error_e", n! "C_INTERRUPT"),
   (n! "iox2_pub_sub_open_or_create_error_e", n! "C_UNABLE_TO_ACQUIRE_TYPE_DEFINITION"),
   (n! "iox2_request_response_open_or_create_error_e", n! "C_INTERNAL_FAILURE"),
   (n! "iox2_request_response_open_or_create_error_e", n! "C_INSUFFICIENT_PERMISSIONS"),
   (n! "iox2_request_response_open_or_create_error_e", n! "C_HANGS_IN_CREATION"),
   (n! "iox2_request_response_open_or_create_error_e", n! "C_SERVICE_IN_CORRUPTED_STATE"),
   (n! "iox2_request_response_open_or_create_error_e", n! "C_UNABLE_TO_CREATE_SERVICE_TAG"),
   (n! "iox2_request_response_open_or_create_error_e", n! "C_INTERRUPT"),
   (n! "iox2_request_response_open_or_create_error_e", n! "C_UNABLE_TO_ACQUIRE_TYPE_DEFINITION")]

def keptVariants (e : CEnum) : List CVariant :=
  e.variants.filter (fun v => (e.name, v.name) ∉ duplicateNameExceptions)

-- full statement (false): ∀ e ∈ allEnums, NamesDistinct e
theorem names_distinct_refuted : ¬ ∀ e ∈ allEnums, NamesDistinct e := by decide +kernel

/-- without the listed variants the (non-empty) printable names of every enum are pairwise distinct -/
theorem names_distinct_partial :
    ∀ e ∈ allEnums, (((keptVariants e).map (·.printable)).filter (fun p => decide (¬ p.isEmpty))).Nodup := by decide +kernel

/-- every listed variant really prints the same text as another, not listed, variant of its enum -/
theorem names_distinct_exceptions_exact :
    ∀ x ∈ duplicateNameExceptions, ∃ e ∈ allEnums, e.name = x.1 ∧ ∃ v ∈ e.variants, v.name = x.2 ∧
      ∃ w ∈ keptVariants e, w.name ≠ v.name ∧ w.printable = v.printable := by decide +kernel

/-! ## the Rust → C mapping is total and injective — hold for the whole table
    (false until the repairs 02dd395 and ff8765f in /repo: `SystemInFlux` of the pub-sub and event
    open-or-create errors ended in the self-recursive arm `e => e.into_c_int()`;
    `ServiceRemoveError::VersionMismatch` was mapped to `INTERRUPT`, `EventOpenError::Interrupt` to `C_INTERRUPT`) -/

/-- C18: every (flattened) variant of every mapped Rust error enum has a C code -/
theorem mapping_total : ∀ e ∈ allEnums, MappingTotal e := by decide +kernel

/-- C18: within every mapping distinct Rust variants go to distinct C variants -/
theorem mapping_injective : ∀ e ∈ allEnums, MappingInjective e := by decide +kernel

/-! ## every C variant is produced — FALSE: eight codes are never returned -/

/-- (C enum, C variant): declared, but neither the image of a Rust variant nor returned by binding code.
    * `C_OLD_CONNECTION_STILL_ACTIVE` (event): `EventCreateError` has no such variant;
    * `TERMINATION_REQUEST`, `INTERRUPT` of `iox2_waitset_run_error_e`: `WaitSetRunError` has three variants only
      (termination/interrupt are reported through `iox2_waitset_run_result_e`);
    * `iox2_flatbuffer_find_schema_file_error_e`: declared in flatbuffer.rs, not used by any function of the crate.
    (`SYSTEM_IN_FLUX` ×2, `O_INTERRUPT`, `VERSION_MISMATCH` left the list with the repairs 02dd395 / ff8765f.) -/
def ontoExceptions : List (Name × Name) :=
  [(n! "iox2_event_open_or_create_error_e", n! "C_OLD_CONNECTION_STILL_ACTIVE"),
   (n! "iox2_flatbuffer_find_schema_file_error_e", n! "INVALID_TYPE_NAME_CHARACTERS"),
   (n! "iox2_flatbuffer_find_schema_file_error_e", n! "INVALID_TYPE_NAMESPACE_CHARACTERS"),
   (n! "iox2_flatbuffer_find_schema_file_error_e", n! "INVALID_ROOT_PATH"),
   (n! "iox2_flatbuffer_find_schema_file_error_e", n! "BUFFER_TOO_SMALL"),
   (n! "iox2_flatbuffer_find_schema_file_error_e", n! "NO_SCHEMA_FILE_FOUND"),
   (n! "iox2_waitset_run_error_e", n! "TERMINATION_REQUEST"),
   (n! "iox2_waitset_run_error_e", n! "INTERRUPT")]

-- full statement (false): ∀ e ∈ allEnums, MappingOnto e
theorem mapping_onto_refuted : ¬ ∀ e ∈ allEnums, MappingOnto e := by decide +kernel

theorem mapping_onto_partial :
    ∀ e ∈ allEnums, ∀ v ∈ e.variants, (e.name, v.name) ∉ ontoExceptions → v.name ∈ image e ∨ v.name ∈ e.direct := by
  decide +kernel

theorem mapping_onto_exceptions_exact :
    ∀ x ∈ ontoExceptions, ∃ e ∈ allEnums, e.name = x.1 ∧ ∃ v ∈ e.variants, v.name = x.2 ∧
      v.name ∉ image e ∧ v.name ∉ e.direct := by decide +kernel

/-! ## non-vacuity on the three-level mappings: the three open-or-create enums have three mappings each,
    are total and injective, and `SYSTEM_IN_FLUX` is in the image of each -/
example : ∀ n ∈ [n! "iox2_request_response_open_or_create_error_e", n! "iox2_pub_sub_open_or_create_error_e",
      n! "iox2_event_open_or_create_error_e"],
    ∃ e ∈ allEnums, e.name = n ∧ MappingTotal e ∧ MappingInjective e ∧ e.mappings.length = 3 ∧
      n! "SYSTEM_IN_FLUX" ∈ image e := by decide +kernel

end Iox2.C18
