/-
C14 — shared-memory data structures are position independent.

Three parts:
1. `Iox2.Gen.RelocLayout` is REGENERATED FROM /repo ON EVERY RUN by `extract/reloc_layout.py`: the
   field table of every structure iceoryx2 places in shared memory.  `roots_position_independent`
   decides over the whole table: no field of any such structure (transitively through nested
   structures) is a raw pointer, a reference, an owning pointer or a heap container; pointers are
   self-relative `RelocatablePointer`s.
2. The arithmetic of the self-relative pointer, for every mapping address, with wrapping 64-bit
   machine arithmetic: what `as_ptr` returns in a process that maps the block at `b2` is the image
   of what it returns in the process that initialised it at `b1`.
3. The container models of C16 / C03 / C09 / C10 contain no addresses at all; the relocation runs
   (`reloc` operations, per-thread alias mappings) compare the real structures against them.
-/
import Iox2.Gen.RelocLayout
import Iox2.Model.RelPtr
namespace Iox2.C14
open Iox2.Gen.RelocLayout Iox2.RelPtr

/-! ### 1. the generated field table -/

def lookup (n : String) : Option StructDef := structs.find? (·.name = n)

/-- position independent up to nesting depth `fuel` -/
def posIndep : Nat → String → Bool
  | 0, _ => false
  | fuel + 1, n =>
    match lookup n with
    | none => false
    | some s => s.fields.all fun f =>
        match f.kind with
        | .forbidden _ => false
        | .nested m => posIndep fuel m
        | _ => true

/-- every structure placed in shared memory is position independent by construction -/
theorem roots_position_independent : ∀ r ∈ roots, posIndep structs.length r.2 = true := by
  decide +kernel

/-- … and every one of them is in the table with at least one field (non-vacuity of the table) -/
theorem roots_present : ∀ r ∈ roots, ∃ s, lookup r.2 = some s ∧ s.fields ≠ [] := by
  decide +kernel

/-- every pointer-like field that exists is the self-relative kind: there is at least one structure
with a `relptr` field and none with a forbidden one anywhere in the table -/
def isForbidden : Kind → Bool
  | .forbidden _ => true
  | _ => false

theorem no_forbidden_field_anywhere :
    ∀ s ∈ structs, ∀ f ∈ s.fields, isForbidden f.kind = false := by
  decide +kernel

example : ∃ s ∈ structs, ∃ f ∈ s.fields, f.kind = .relptr := by decide +kernel

/-! ### 2. the self-relative pointer -/

/-- `init` in a process mapping the block at `b1`, `as_ptr` in a process mapping it at `b2`:
the result is the target's offset, at the second process's base. -/
theorem asPtr_after_init (blk : Block) (b1 b2 : Int) (selfOff targetOff : Nat) :
    (blk.init b1 selfOff targetOff).asPtr b2 selfOff = b2 + targetOff := by
  simp [Block.asPtr, Block.init, Block.distance]
  omega

/-- relocation invariance: whatever the block contains, resolving a pointer at two mapping addresses
gives the same offset into the block -/
theorem asPtr_relocate (blk : Block) (b1 b2 : Int) (off : Nat) :
    blk.asPtr b1 off - b1 = blk.asPtr b2 off - b2 := by
  simp [Block.asPtr]; omega

theorem asPtr_eq_target (blk : Block) (b : Int) (off : Nat) : blk.asPtr b off = b + blk.target off := by
  simp [Block.asPtr, Block.target]; omega

/-- initialising other pointers does not disturb this one -/
theorem find_filter_ne (l : List (Nat × Int)) (o1 o2 : Nat) (h : o1 ≠ o2) :
    (l.filter (·.1 ≠ o1)).find? (·.1 = o2) = l.find? (·.1 = o2) := by
  induction l with
  | nil => rfl
  | cons x xs ih => grind

theorem init_other (blk : Block) (b : Int) (o1 o2 t : Nat) (h : o1 ≠ o2) :
    (blk.init b o1 t).distance o2 = blk.distance o2 := by
  simp only [Block.init, Block.distance]
  rw [List.find?_cons_of_neg (by simpa using h), find_filter_ne _ _ _ h]

/-- the same with the machine's wrapping arithmetic: all values are 64-bit words -/
theorem asPtr_after_init_wrapping (b1 b2 selfOff targetOff : BitVec 64) :
    (b2 + selfOff) + ((b1 + targetOff) - (b1 + selfOff)) = b2 + targetOff := by
  bv_omega

/-- a structure copied bytewise to another offset of its block keeps its distance, hence points
somewhere else: a relocatable pointer may only move together with its target (why the containers
keep their data behind the header in the same block) -/
theorem copyCell_shifts (blk : Block) (fromOff toOff : Nat) :
    (blk.copyCell fromOff toOff).target toOff = blk.target fromOff + (toOff - fromOff : Int) := by
  simp [Block.copyCell, Block.target, Block.distance]; omega

/-- contrast (why the table forbids absolute pointers): an absolute pointer initialised at `b1`
resolves, in a process mapping the block at another address, to an address outside the image of
the target -/
theorem absolute_pointer_is_position_dependent (b1 b2 : Int) (t : Nat) (h : b1 ≠ b2) :
    absAsPtr (absInit b1 t) ≠ b2 + t := by
  simp [absAsPtr, absInit]; omega

example : (({ cells := [] } : Block).init 1000 16 48).asPtr 77000 16 = 77048 := by decide

end Iox2.C14
