/-
C02 — zero-copy sample lifetime: no reuse while referenced, no leak after.
Theorems about the L1 publish-subscribe model `Iox2.PubSub` (every API call atomic), for every
reachable state: every configuration the service builder accepts, every history of API calls.

All theorems are proved as stated.  They are consequences of one global inductive invariant
`Iox2.PubSub.C02P.Inv {} {} w` (definition: `Iox2/Proof/PubSubC02Defs.lean`; preservation by every
API operation: `Iox2/Proof/PubSubC02StepSub.lean`, `Iox2/Proof/PubSubC02StepPub.lean`
(`step_inv`, `reach_inv`); consequences: `Iox2/Proof/PubSubC02Final.lean`,
`Iox2/Proof/PubSubC02Loan.lean`; concrete histories: `Iox2/Proof/PubSubC02Examples.lean`).
No hypothesis on the configuration is needed: the theorems hold for every `Cfg`, including worlds whose publishers use
`override_sample_preallocation` (`Cfg.prealloc = some k`: fewer chunks than the worst case, loans may fail with OutOfMemory).
-/
import Iox2.Model.PubSub
import Iox2.Proof.PubSubC02StepPub
import Iox2.Proof.PubSubC02Loan
import Iox2.Proof.PubSubC02Examples
import Iox2.Proof.PubSubC08PubB
namespace Iox2.PubSub.C02
open Iox2.PubSub

/-! ### vocabulary (definitions are part of the statements: do not change) -/

/-- the subscriber port `s` exists (has not been dropped) -/
def SubLive (w : World) (s : Nat) : Prop := ∃ S, getS w s = some S ∧ S.alive = true

/-- publisher `p`'s shared state exists (the port or one of its loans is alive) -/
def PubEx (w : World) (p : Nat) (P : Pub) : Prop := getP w p = some P ∧ P.ex = true

/-- chunk `c` of publisher `p` is referenced by something the API can still reach:
an unsent loan, the history, an undelivered entry in the buffer of a live subscriber, or a sample
held by a live subscriber -/
def Referenced (w : World) (p : Nat) (P : Pub) (c : Nat) : Prop :=
  (∃ l, (l, c) ∈ P.loans) ∨ c ∈ P.hist ∨
  (∃ s cn, SubLive w s ∧ getC w p s = some cn ∧ c ∈ cn.sub.map (·.1)) ∨
  (∃ s S h, getS w s = some S ∧ S.alive = true ∧ h ∈ S.held ∧ h.pid = p ∧ h.chunk = c)

/-- number of references the publisher's bookkeeping knows for chunk `c` -/
def refCount (w : World) (p : Nat) (P : Pub) (c : Nat) : Nat :=
  (P.loans.filter (·.2 = c)).length + (P.hist.filter (· = c)).length +
  (P.conns.filter fun sl => match sl with
    | some s => (match getC w p s with | some cn => cn.used.getD c false | none => false)
    | none => false).length

/-! ### theorems -/

/-- No reuse while referenced: a free (loanable) chunk is referenced by nothing. `loan` only ever
hands out the head of `free` (see `step`), so a chunk that is referenced is never handed out. -/
theorem free_not_referenced (cfg : Cfg) (w : World) (h : Reach cfg w)
    (p : Nat) (P : Pub) (hp : PubEx w p P) (c : Nat) (hf : c ∈ P.free) :
    ¬ Referenced w p P c := by
  have hi := C02P.reach_inv h
  obtain ⟨r1, r2, r3, r4⟩ := C02P.final_free_not_referenced hi hp.1 hp.2 hf
  rintro (⟨l, hl⟩ | hh | ⟨s, cn, ⟨S, hS, ha⟩, hC, hcs⟩ | ⟨s, S, hd, hS, ha, hh, hpid, hch⟩)
  · exact r1 l hl
  · exact r2 hh
  · exact r3 s S cn hS ha hC hcs
  · exact r4 s S hd hS ha hh hpid hch

/-- … in particular the chunk a successful `loan` returns was unreferenced before the call. -/
theorem loan_returns_unreferenced (cfg : Cfg) (w : World) (h : Reach cfg w)
    (hnp : w.panicked = false) (p l : Nat) (hok : (step w (.loan p l)).2 = "ok") :
    ∃ P' c, getP (step w (.loan p l)).1 p = some P' ∧ (l, c) ∈ P'.loans ∧
      ∀ P, getP w p = some P → ¬ Referenced w p P c := by
  have hi := C02P.reach_inv h
  obtain ⟨P', c, h1, h2, h3⟩ := C02P.loan_unreferenced hi hok
  refine ⟨P', c, h1, h2, ?_⟩
  intro P hP
  obtain ⟨r1, r2, r3, r4⟩ := h3 P hP
  rintro (⟨l, hl⟩ | hh | ⟨s, cn, ⟨S, hS, ha⟩, hC, hcs⟩ | ⟨s, S, hd, hS, ha, hh, hpid, hch⟩)
  · exact r1 l hl
  · exact r2 hh
  · exact r3 s S cn hS ha hC hcs
  · exact r4 s S hd hS ha hh hpid hch

/-- The bytes seen through a held sample never change: for a live subscriber the memory of the
chunk still holds the value that was read when the sample was received. -/
theorem held_sample_stable (cfg : Cfg) (w : World) (h : Reach cfg w)
    (s : Nat) (S : Sub) (hs : getS w s = some S) (hl : S.alive = true) (hd : Held) (hh : hd ∈ S.held) :
    ∃ P, getP w hd.pid = some P ∧ P.payload.getD hd.chunk 0 = hd.tag :=
  C02P.final_held_stable (C02P.reach_inv h) hs hl hh

/-- The reference counter is exact (conservation law): it equals the number of loans, history
entries and connections (of the publisher's current connection array) that hold the chunk. -/
theorem refcount_exact (cfg : Cfg) (w : World) (h : Reach cfg w)
    (p : Nat) (P : Pub) (hp : PubEx w p P) (c : Nat) (hlt : c < P.n) :
    P.rc.getD c 0 = refCount w p P c :=
  C02P.final_refcount (C02P.reach_inv h) hp.1 hp.2 hlt

/-- No leak: a chunk is loanable exactly when its counter is zero; the free list has no duplicates. -/
theorem free_iff_unreferenced (cfg : Cfg) (w : World) (h : Reach cfg w)
    (p : Nat) (P : Pub) (hp : PubEx w p P) :
    P.free.Nodup ∧ P.rc.length = P.n ∧ ∀ c, c ∈ P.free ↔ (c < P.n ∧ P.rc.getD c 0 = 0) :=
  C02P.final_free (C02P.reach_inv h) hp.1 hp.2

/-- What a connection still owns is exactly what is in flight on it: the used chunk list of a
connection the publisher is attached to has one bit per entry of the submission queue, per sample
borrowed by the receiver and per entry of the completion queue; these are pairwise distinct. -/
theorem used_is_in_flight (cfg : Cfg) (w : World) (h : Reach cfg w)
    (cn : Conn) (hcn : cn ∈ w.conns) (hs : cn.sAtt = true) :
    (cn.used.filter id).length = cn.sub.length + cn.borrow + cn.comp.length ∧
    (cn.sub.map (·.1) ++ cn.comp).Nodup ∧
    ∀ c ∈ cn.sub.map (·.1) ++ cn.comp, cn.used.getD c false = true :=
  C02P.final_in_flight (C02P.reach_inv h) hcn hs

/-- No leak through a refused loan: a `loan` that is refused — because the loan limit is reached or, for publishers with a
preallocation override, because no chunk is free — consumes nothing of the loan budget: the publisher's loan counter, its
outstanding loans and its limit are what they were, so "after any history the publisher can again loan its full configured
number of samples" is not eroded by failed attempts.  Holds for every world and configuration (no reachability needed). -/
theorem refused_loan_keeps_loan_budget (w : World) (p l : Nat) (P : Pub) (hp : getP w p = some P)
    (hr : (step w (.loan p l)).2 = "err:OutOfMemory" ∨ (step w (.loan p l)).2 = "err:ExceedsMaxLoans") :
    ∃ P', getP (step w (.loan p l)).1 p = some P' ∧ P'.loanCnt = P.loanCnt ∧ P'.loans = P.loans ∧
      P'.maxLoans = P.maxLoans ∧ P'.n = P.n := by
  obtain ⟨_, s2, _, _⟩ := C08.retrieveReturned_shape w p
  obtain ⟨P1, hp1, e⟩ := s2 P hp
  obtain ⟨f1, f2, f3, f4, f5, f6, f7, f8, f9, f10, f11, f12, f13, f14, f15⟩ := e.fields
  simp only [step, hp, hp1] at hr ⊢
  by_cases ha : (!P.alive) = true
  · rw [if_pos ha] at hr; simp at hr
  rw [if_neg ha] at hr ⊢
  by_cases hd : (List.find? (fun x => decide (x.fst = l)) P.loans).isSome = true
  · rw [if_pos hd] at hr; simp at hr
  rw [if_neg hd] at hr ⊢
  by_cases hm : P1.loanCnt ≥ P1.maxLoans
  · rw [if_pos hm]; exact ⟨P1, hp1, f6, f11, f4, f5⟩
  rw [if_neg hm] at hr ⊢
  cases hf : P1.free with
  | nil => exact ⟨P1, hp1, f6, f11, f4, f5⟩
  | cons c rest =>
    rw [hf] at hr
    dsimp only at hr
    split at hr <;> simp at hr

/-- non-vacuity: with a preallocation override of one chunk the second loan is refused for lack of memory although the loan
limit (3) is not reached; without the override the same loan succeeds -/
example :
    let cfg : Cfg := { maxPubs := 1, maxSubs := 1, bufMax := 1, hist := 0, borrowMax := 1, overflow := false, expired := 1 }
    (step (run (World.init { cfg with prealloc := some 1 }) [.cpub 0 3, .loan 0 0]) (.loan 0 1)).2 = "err:OutOfMemory" ∧
    (step (run (World.init cfg) [.cpub 0 3, .loan 0 0]) (.loan 0 1)).2 = "ok" := by
  decide

/-- FALSE for samples whose subscriber port was dropped (finding D16): `held_sample_stable`
without `S.alive`.  Prove the refutation with a concrete history. -/
theorem held_sample_of_dropped_subscriber_changes :
    ∃ (cfg : Cfg) (ops : List Op), cfg.Sane ∧
      let w := run (World.init cfg) ops
      w.panicked = false ∧
      ∃ s S hd P, getS w s = some S ∧ hd ∈ S.held ∧ getP w hd.pid = some P ∧
        P.payload.getD hd.chunk 0 ≠ hd.tag :=
  C02P.dropped_subscriber_sample_changes

/-- non-vacuity: a reachable state with a live subscriber holding a sample, a loan, a non-empty
history and a non-empty buffer -/
example : ∃ (cfg : Cfg) (w : World), cfg.Sane ∧ Reach cfg w ∧ w.panicked = false ∧
    ∃ s S P, getS w s = some S ∧ S.alive = true ∧ S.held ≠ [] ∧ getP w 0 = some P ∧ P.ex = true ∧
      P.loans ≠ [] ∧ P.hist ≠ [] ∧ ∃ cn, getC w 0 s = some cn ∧ cn.sub ≠ [] :=
  C02P.nonvacuous

end Iox2.PubSub.C02

