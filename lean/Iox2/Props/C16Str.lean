/-
C16 / String — property theorems (proofs machine-checked; helper lemmas above each theorem).
-/
import Iox2.Model.Str

namespace Iox2.C16.StrP
open Iox2 Iox2.Str

def Inv (s : St) : Prop := s.bytes.length ≤ s.cap ∧ ∀ b ∈ s.bytes, validByte b = true

def isErr : Out → Bool
  | .errCap | .errChar | .panic => true
  | _ => false

/-- reference semantics on an unbounded byte list (what `Vec<u8>` would do) -/
def ref (l : List Nat) : Op → List Nat
  | .push b => l ++ [b]
  | .pushBytes bs => l ++ bs
  | .insert i b => l.take i ++ [b] ++ l.drop i
  | .insertBytes i bs => l.take i ++ bs ++ l.drop i
  | .pop => l.dropLast
  | .remove i => l.eraseIdx i
  | .removeRange i n => if l.length < i + n then l else l.take i ++ l.drop (i + n)
  | .retain b => l.filter (· ≠ b)
  | .find _ => l
  | .rfind _ => l
  | .stripPrefix bs => if bs.isPrefixOf l then l.drop bs.length else l
  | .stripSuffix bs => if bs.isSuffixOf l then l.take (l.length - bs.length) else l
  | .truncate n => l.take n
  | .clear => []
  | .dump => l

theorem inv_init (cap : Nat) : Inv (init cap) := by
  simp [Inv, init]

private theorem mem_of_mem_dropLast' {a : Nat} {l : List Nat} (h : a ∈ l.dropLast) : a ∈ l :=
  List.dropLast_subset l h

/-- length ≤ capacity and only bytes 1..127, for every reachable state -/
theorem step_inv (s : St) (op : Op) (h : Inv s) : Inv (step s op).1 ∧ (step s op).1.cap = s.cap := by
  obtain ⟨hl, hv⟩ := h
  cases op <;> simp only [step, insertBytes, removeRange, Inv] <;> (repeat' split) <;>
    simp_all <;>
    grind [List.length_take, List.length_drop, List.length_eraseIdx,
      List.mem_of_mem_drop, List.all_eq_true, List.length_dropLast,
      mem_of_mem_dropLast', List.mem_of_mem_eraseIdx, List.length_filter_le,
      List.mem_of_mem_take]

/-- an operation that reports an error (capacity exceeded, invalid character, contract violation)
changes nothing -/
theorem str_error_changes_nothing (s : St) (op : Op) (h : isErr (step s op).2 = true) :
    (step s op).1 = s := by
  revert h
  cases op <;> simp only [step, insertBytes, removeRange] <;> (repeat' split) <;> simp_all [isErr]

/-- an operation that does not report an error does what the unbounded byte vector does -/
theorem str_refines_list (s : St) (op : Op) (h : isErr (step s op).2 = false) :
    (step s op).1.bytes = ref s.bytes op := by
  revert h
  cases op <;> simp only [step, insertBytes, removeRange, ref, isPrefixAt] <;> (repeat' split) <;>
    simp_all [isErr] <;>
    grind [List.getLast?_eq_none_iff, List.eraseIdx_of_length_le, List.suffix_iff_eq_drop]

/-- an insertion fails exactly when the result would not fit, contains an invalid byte, or the
index is beyond the end -/
theorem str_insert_fails_iff (s : St) (i : Nat) (bs : List Nat) :
    isErr (step s (.insertBytes i bs)).2 = true ↔
      (s.bytes.length < i ∨ s.cap < s.bytes.length + bs.length ∨ ∃ b ∈ bs, validByte b = false) := by
  simp only [step, insertBytes]
  (repeat' split) <;> simp_all [isErr] <;> grind

private theorem findFrom_cons (bs : List Nat) (x : Nat) (xs : List Nat) (k : Nat) :
    findFrom bs (x :: xs) k =
      if bs.isPrefixOf (x :: xs) = true then some k else findFrom bs xs (k + 1) := rfl

private theorem rfindFrom_cons (bs : List Nat) (x : Nat) (xs : List Nat) (k : Nat) :
    rfindFrom bs (x :: xs) k =
      match rfindFrom bs xs (k + 1) with
      | some j => some j
      | none => if bs.isPrefixOf (x :: xs) = true then some k else none := rfl

private theorem findFrom_some (bs : List Nat) : ∀ (l : List Nat) (k i : Nat),
    findFrom bs l k = some i →
      k ≤ i ∧ bs.isPrefixOf (l.drop (i - k)) = true ∧
        ∀ j, j < i - k → bs.isPrefixOf (l.drop j) = false := by
  intro l
  induction l with
  | nil =>
    intro k i h
    simp only [findFrom] at h
    split at h
    · cases h
      simp_all
    · cases h
  | cons x xs ih =>
    intro k i h
    rw [findFrom_cons] at h
    by_cases hx : bs.isPrefixOf (x :: xs) = true
    · rw [if_pos hx] at h
      cases h
      simp_all
    · rw [if_neg hx] at h
      obtain ⟨h1, h2, h3⟩ := ih (k + 1) i h
      have e : i - k = (i - (k + 1)) + 1 := by omega
      refine ⟨by omega, ?_, ?_⟩
      · rw [e, List.drop_succ_cons]; exact h2
      · intro j hj
        cases j with
        | zero => exact Bool.eq_false_iff.mpr hx
        | succ j => rw [List.drop_succ_cons]; exact h3 j (by omega)

private theorem findFrom_none (bs : List Nat) : ∀ (l : List Nat) (k : Nat),
    findFrom bs l k = none → ∀ j, j ≤ l.length → bs.isPrefixOf (l.drop j) = false := by
  intro l
  induction l with
  | nil =>
    intro k h j hj
    simp only [findFrom] at h
    split at h
    · cases h
    · cases bs <;> simp_all
  | cons x xs ih =>
    intro k h j hj
    rw [findFrom_cons] at h
    by_cases hx : bs.isPrefixOf (x :: xs) = true
    · rw [if_pos hx] at h
      cases h
    · rw [if_neg hx] at h
      cases j with
      | zero => exact Bool.eq_false_iff.mpr hx
      | succ j =>
        rw [List.drop_succ_cons]
        exact ih (k + 1) h j (by simpa using hj)

/-- `find` returns the first match position: the needle occurs there and at no smaller index -/
theorem find_spec (bs l : List Nat) (i : Nat) (h : findFrom bs l 0 = some i) :
    bs.isPrefixOf (l.drop i) = true ∧ ∀ j, j < i → bs.isPrefixOf (l.drop j) = false := by
  have := findFrom_some bs l 0 i h
  simpa using this

theorem find_none (bs l : List Nat) (h : findFrom bs l 0 = none) :
    ∀ j, j ≤ l.length → bs.isPrefixOf (l.drop j) = false :=
  findFrom_none bs l 0 h

private theorem rfindFrom_none (bs : List Nat) : ∀ (l : List Nat) (k : Nat),
    rfindFrom bs l k = none → ∀ j, j ≤ l.length → bs.isPrefixOf (l.drop j) = false := by
  intro l
  induction l with
  | nil =>
    intro k h j hj
    simp only [rfindFrom] at h
    split at h
    · cases h
    · cases bs <;> simp_all
  | cons x xs ih =>
    intro k h j hj
    rw [rfindFrom_cons] at h
    split at h
    · cases h
    · rename_i hnone
      by_cases hx : bs.isPrefixOf (x :: xs) = true
      · rw [if_pos hx] at h
        cases h
      · cases j with
        | zero => exact Bool.eq_false_iff.mpr hx
        | succ j =>
          rw [List.drop_succ_cons]
          exact ih (k + 1) hnone j (by simpa using hj)

private theorem rfindFrom_some (bs : List Nat) : ∀ (l : List Nat) (k i : Nat),
    rfindFrom bs l k = some i →
      k ≤ i ∧ bs.isPrefixOf (l.drop (i - k)) = true ∧
        ∀ j, i - k < j → j ≤ l.length → bs.isPrefixOf (l.drop j) = false := by
  intro l
  induction l with
  | nil =>
    intro k i h
    simp only [rfindFrom] at h
    split at h
    · cases h
      simp_all
      intro j h1 h2; omega
    · cases h
  | cons x xs ih =>
    intro k i h
    rw [rfindFrom_cons] at h
    split at h
    · rename_i j' hsome
      cases h
      obtain ⟨h1, h2, h3⟩ := ih (k + 1) i hsome
      have e : i - k = (i - (k + 1)) + 1 := by omega
      refine ⟨by omega, ?_, ?_⟩
      · rw [e, List.drop_succ_cons]; exact h2
      · intro j hj hjl
        cases j with
        | zero => omega
        | succ j =>
          rw [List.drop_succ_cons]
          exact h3 j (by omega) (by simpa using hjl)
    · rename_i hnone
      by_cases hx : bs.isPrefixOf (x :: xs) = true
      · rw [if_pos hx] at h
        cases h
        refine ⟨Nat.le_refl _, by simpa using hx, ?_⟩
        intro j hj hjl
        cases j with
        | zero => omega
        | succ j =>
          rw [List.drop_succ_cons]
          exact rfindFrom_none bs xs _ hnone j (by simpa using hjl)
      · rw [if_neg hx] at h
        cases h

/-- `rfind` returns the last match position -/
theorem rfind_spec (bs l : List Nat) (i : Nat) (h : rfindFrom bs l 0 = some i) :
    bs.isPrefixOf (l.drop i) = true ∧ ∀ j, i < j → j ≤ l.length → bs.isPrefixOf (l.drop j) = false := by
  have := rfindFrom_some bs l 0 i h
  simpa using this

end Iox2.C16.StrP

