/-
C04 (shared-memory level) — a process killed at ANY atomic step of a registry operation
(`Container::add` / `remove` / `recover` / `update_state`): survivors never observe corrupted or
invented entries, and after recovery the dead owner's entries are gone and its slots reusable.
Theorems about `Container.sys.withCrash` (Iox2/Base/Crash.lean); the C10 theorems only allow deaths
between operations.  The model includes the repair of the defect these statements exposed:
`recover`'s success hook no longer advances the generation of a slot whose dead owner never published
(`rvHookDist`, even generation).
-/
import Iox2.Base.Crash
import Iox2.Props.C10
namespace Iox2.Container.Crash
open Iox2.Sched Iox2.Container Iox2.C10

/-! ### vocabulary (part of the statements: do not change) -/

def csys : Sys Sh (CTh Th) :=
  sys.withCrash fun s t => { s with r := { s.r with deadOwners := t.owner :: s.r.deadOwners } }

def cinit (cap width : Nat) (owners : List Nat) (progs : List (List Cmd)) (fuses : List (Option Nat)) : Cfg Sh (CTh Th) :=
  let c := mkCfg cap width owners progs
  { sh := c.sh, th := (c.th.zip fuses).map fun (t, f) => { inner := t, fuse := f } }

def Live (t : CTh Th) : Prop := t.dead = false ∧ t.inner.dead = false

end Iox2.Container.Crash

/-!
## How the theorems are proved

All statements below are proved (no `sorry`); nothing was found false.  `crash_odd_generation_is_published`
holds with its FIRST disjunct alone, for every slot index (`crash_odd_generation_is_published_sharp`): an odd
generation always carries a published entry, also while threads are in their write windows and whatever died.

The abstract machine of `Iox2/Props/C10.lean` is reused (`Ph`, `ATh`, `abs`, `AStep`, the `eff_*` lemmas,
`step_ok` / `pre_ok` / `norm_ok` / `gate_ok`); a killed thread is an abstract thread with `dead = true` that is
frozen at an arbitrary phase (`absC`).  New here:

* `CI` — the invariant of C10 without the clauses that deaths in mid-operation break: `life` no longer implies
  idle; the in-flight facts (`phInvC`, `tok_stale`, `rdInv`, `ng`, `ch`) are required of LIVE threads only (the
  facts of a frozen thread may rot: its cell can be recovered and handed to a new adder); `no_leak` is gone — a dead
  owner CAN hold a cell whose generation is even — and with it the oddness of the generation a recovery works
  with: `phInvC` for `rvTok` / `rvCell` only keeps `n < cap` and `g ≤ egc[n]`.  The clauses about quiet refreshes
  (`busy`, `fz`, `qc`, `ex`) are not needed for these theorems and dropped.
* `HookOdd` / `hookWf` / `step_refines_hook` — what replaces `no_leak`: the phase `rvTok` forgets whether the
  recovery is before (`rvHookDist`) or after (`rvHookCas`) the parity test of the repaired success hook, so the
  refinement is redone keeping the fact that a hook step which advances a generation (appends to `rvDone`) acts on
  an ODD generation (`rvHookCas … g` is only entered with `g` odd).  `tok_fires_odd` is the only place it is used:
  a generation moves from an even value only by the adder that holds the slot.
* `ci_step` (every abstract step of a live thread preserves `CI`), `ci_crash` (so does the death of any thread, at
  any phase), `ci_of_ainv` (initially, from C10).
* `ScanOK` / `scanR` / `stepOp_scan` — a concrete invariant for `crash_recover_clears_owner`: the index-set pc of a
  recovery knows how far its scan got; cells below carry no id of the dead owner `d` (and `d ∈ deadOwners`), which
  is stable because a cell is only ever given to the owner id of a live stepping thread (`ccl_dead_back`).
* `KInv` = well-formed pcs + `hookWf` + `ScanOK` for every thread + `CI`; `kinv_reach`.

Bool versions of the clauses and of the statements were run over 3000 pseudo-random schedules with random fuses
(1687 deaths in mid-operation) before the proofs; no violation.
-/

/- ---------------------------------------------------------------- part CA -/
namespace Iox2.Container.Crash
set_option linter.unusedSimpArgs false
set_option linter.unusedVariables false
open Iox2.Sched Iox2.Container Iox2.C10
open Iox2.RUIS (EMPTY LOCKG RSh Mode Out)

/-! ## the invariant of the abstract machine when threads may be frozen at any phase -/

/-- per-phase facts (as `C10.phInv`, but the generation seen by a recovery may be even: the dead owner
may have died inside `add`) -/
def phInvC (s : Sh) (a : ATh) : Prop :=
  match a.ph with
  | .addCas n g v => g % 2 = 1 ∧ (E s n = g ∨ E s n = g + 1) ∧ v.length = s.width
  | .addWr n k v => E s n % 2 = 0 ∧ v.length = s.width ∧ wordsEq (s.data.getD n []) v k
  | .addInc n v => E s n % 2 = 0 ∧ s.data.getD n [] = v
  | .rmRel n g => g % 2 = 1 ∧ g ≤ E s n
  | .rmTok n g => g % 2 = 1 ∧ n < s.r.cap ∧ g ≤ E s n
  | .rvTok _ n g => n < s.r.cap ∧ g ≤ E s n
  | .rmFin n g => g < E s n
  | .rvCopy _ n g => g % 2 = 1 ∧ g ≤ E s n
  | .rvCell d n g => Cl s n = d → g ≤ E s n
  | .upCopy i g k => i < s.r.cap ∧ a.snap.egc.getD i 0 = g ∧ g ≤ E s i ∧ g % 2 = 1 ∧ (E s i = g → wordsEq (a.snap.data.getD i []) (s.data.getD i []) k)
  | .upVal i g => i < s.r.cap ∧ a.snap.egc.getD i 0 = g ∧ g ≤ E s i ∧ (g % 2 = 1 → E s i = g → a.snap.data.getD i [] = s.data.getD i [])
  | _ => True

/-- `ATh.dead` now means: died between operations (`die`) or was killed at an arbitrary step.  A dead
thread is frozen at whatever phase it had; only live threads are required to satisfy their in-flight facts. -/
structure CI (s : Sh) (th : List ATh) : Prop where
  len_egc : s.egc.length = s.r.cap
  len_data : s.data.length = s.r.cap
  len_pub : s.published.length = s.r.cap
  len_cells : s.r.cells.length = s.r.cap
  wid_data : ∀ d ∈ s.data, d.length = s.width
  snap_shape : ∀ a ∈ th, a.snap.egc.length = s.r.cap ∧ a.snap.data.length = s.r.cap ∧ ∀ d ∈ a.snap.data, d.length = s.width
  own_inj : ∀ (i j : Nat) (a b : ATh), th[i]? = some a → th[j]? = some b → a.owner = b.owner → i = j
  own_ne : ∀ a ∈ th, a.owner ≠ EMPTY
  life : ∀ a ∈ th, a.owner ∈ s.r.deadOwners → a.dead = true
  dead_ne : ∀ d ∈ s.r.deadOwners, d ≠ EMPTY
  held_nodup : ∀ a ∈ th, (heldL a).Nodup
  held_own : ∀ a ∈ th, a.dead = false → ∀ n ∈ heldL a, Cl s n = a.owner
  rv_dead : ∀ a ∈ th, ∀ d, rvOfAll a.ph = some d → d ∈ s.r.deadOwners
  cst_odd : ∀ a ∈ th, ∀ n, Cl s n = a.owner → cst a n → E s n % 2 = 1
  ph_inv : ∀ a ∈ th, a.dead = false → phInvC s a
  tok_stale : ∀ a ∈ th, a.dead = false → ∀ n g, tok a.ph = some (n, g) → E s n = g → ∀ b ∈ th, Cl s n = b.owner → ¬ cst b n
  rvdone_lt : ∀ a ∈ th, ∀ x ∈ a.rvDone, x.2 < E s x.1
  removed_lt : ∀ x ∈ s.removedDone, x.2 < E s x.1
  pub_odd : ∀ i, E s i % 2 = 1 → (E s i, s.data.getD i []) ∈ s.published.getD i []
  rd_inv : ∀ a ∈ th, a.dead = false → rdInv s a
  upd_ok : ∀ a ∈ th, ∀ u ∈ a.updates, (∀ j, snapOK s u.snap j) ∧ (∀ x ∈ u.removedAtBegin, x.2 < u.snap.egc.getD x.1 0)
  up_begin : ∀ a ∈ th, ∀ x ∈ a.upBegin.1, x ∈ s.removedDone
  ng : ∀ a ∈ th, a.dead = false → inUp a.ph → a.ph ≠ .upStart → scanned a.upBegin.1 a
  ch_le : ∀ a ∈ th, a.snap.change ≤ s.change
  ch : ∀ a ∈ th, a.dead = false → a.snap.change < s.change ∨ scanned s.removedDone a

/-- the success hook of `recover` advances a generation only if it is odd (a fact about the concrete pc
`rvHookCas`, which the phase `rvTok` forgets) -/
def HookOdd (a a' : ATh) : Prop := ∀ d n g, a.ph = .rvTok d n g → a'.rvDone ≠ a.rvDone → g % 2 = 1

/-- one abstract step of the live thread `i` -/
structure CCtx (s : Sh) (th : List ATh) (i : Nat) (a : ATh) (s' : Sh) (a' : ATh) : Prop where
  inv : CI s th
  hi : th[i]? = some a
  hd : a.dead = false
  st : AStep s a s' a'
  hook : HookOdd a a'

section
variable {s s' : Sh} {th : List ATh} {i : Nat} {a a' : ATh}

theorem CCtx.mem (c : CCtx s th i a s' a') : a ∈ th := List.mem_of_getElem? c.hi
theorem CCtx.mem' (c : CCtx s th i a s' a') : a' ∈ th.set i a' := mem_set_self c.hi
theorem CCtx.cases (c : CCtx s th i a s' a') {b : ATh} (hb : b ∈ th.set i a') :
    b = a' ∨ (b ∈ th ∧ b.owner ≠ a.owner) := mem_set_cases c.inv.own_inj c.hi hb

theorem eff_dead_flag (h : AStep s a s' a') : a'.dead = a.dead ∨ a'.ph = .idle := by
  rcases eff_life h with ⟨h1, _, _⟩ | ⟨h1, _, _⟩
  · exact .inl h1
  · exact .inr h1

theorem cpres_shape (c : CCtx s th i a s' a') :
    s'.egc.length = s'.r.cap ∧ s'.data.length = s'.r.cap ∧ s'.published.length = s'.r.cap ∧ s'.r.cells.length = s'.r.cap ∧
    (∀ d ∈ s'.data, d.length = s'.width) := by
  obtain ⟨h1, h2, h3, h4, h5, h6⟩ := eff_const c.st
  refine ⟨by rw [h3, h2]; exact c.inv.len_egc, by rw [h4, h2]; exact c.inv.len_data, by rw [h5, h2]; exact c.inv.len_pub,
    by rw [h6, h2]; exact c.inv.len_cells, ?_⟩
  rw [h1]
  rcases eff_data c.st with h | ⟨n, k, v, _, _, h⟩ <;> rw [h]
  · exact c.inv.wid_data
  · exact setWord_mem _ _ _ _ _ c.inv.wid_data

theorem cpres_snap_shape (c : CCtx s th i a s' a') :
    ∀ b ∈ th.set i a', b.snap.egc.length = s'.r.cap ∧ b.snap.data.length = s'.r.cap ∧ ∀ d ∈ b.snap.data, d.length = s'.width := by
  obtain ⟨h1, h2, -⟩ := eff_const c.st
  rw [h1, h2]
  intro b hb
  rcases c.cases hb with rfl | ⟨hb, _⟩
  · have := c.inv.snap_shape a c.mem
    cases c.st <;> simp_all [fin, setWord_length]
    exact setWord_mem _ _ _ _ _ this.2.2
  · exact c.inv.snap_shape b hb

theorem cpres_own (c : CCtx s th i a s' a') :
    (∀ (j k : Nat) (x y : ATh), (th.set i a')[j]? = some x → (th.set i a')[k]? = some y → x.owner = y.owner → j = k) ∧
    (∀ b ∈ th.set i a', b.owner ≠ EMPTY) := by
  have ho := eff_owner c.st
  constructor
  · intro j k x y hj hk hxy
    have key : ∀ (j : Nat) (x : ATh), (th.set i a')[j]? = some x → ∃ x0, th[j]? = some x0 ∧ x0.owner = x.owner := by
      intro j x hj
      rw [List.getElem?_set] at hj
      by_cases e : i = j
      · subst e; simp at hj
        exact ⟨a, c.hi, by rw [← hj.2, ho]⟩
      · simp [e] at hj; exact ⟨x, hj, rfl⟩
    obtain ⟨x0, hx0, ex⟩ := key j x hj
    obtain ⟨y0, hy0, ey⟩ := key k y hk
    exact c.inv.own_inj j k x0 y0 hx0 hy0 (by rw [ex, ey, hxy])
  · intro b hb
    rcases c.cases hb with rfl | ⟨hb, _⟩
    · rw [ho]; exact c.inv.own_ne a c.mem
    · exact c.inv.own_ne b hb

theorem cpres_life (c : CCtx s th i a s' a') : ∀ b ∈ th.set i a', b.owner ∈ s'.r.deadOwners → b.dead = true := by
  intro b hb h
  rcases c.cases hb with rfl | ⟨hb, hne⟩
  · rw [eff_owner c.st] at h
    rcases eff_life c.st with ⟨h1, _, h3⟩ | ⟨h1, _, h3⟩
    · rw [h3] at h; have := c.inv.life a c.mem h; rw [c.hd] at this; cases this
    · rw [h3] at h; split at h
      · assumption
      · have := c.inv.life a c.mem h; rw [c.hd] at this; cases this
  · apply c.inv.life b hb
    rcases eff_life c.st with ⟨_, _, h3⟩ | ⟨_, _, h3⟩
    · rwa [h3] at h
    · rw [h3] at h; split at h
      · simp at h; rcases h with h | h
        · exact absurd h hne
        · exact h
      · exact h

theorem cpres_dead_ne (c : CCtx s th i a s' a') : ∀ d ∈ s'.r.deadOwners, d ≠ EMPTY := by
  intro d hd
  rcases eff_life c.st with ⟨_, _, h3⟩ | ⟨_, _, h3⟩
  · rw [h3] at hd; exact c.inv.dead_ne d hd
  · rw [h3] at hd; split at hd
    · simp at hd; rcases hd with rfl | hd
      · exact c.inv.own_ne a c.mem
      · exact c.inv.dead_ne d hd
    · exact c.inv.dead_ne d hd

end
end Iox2.Container.Crash

/- ---------------------------------------------------------------- part CB -/
namespace Iox2.Container.Crash
set_option linter.unusedSimpArgs false
set_option linter.unusedVariables false
open Iox2.Sched Iox2.Container Iox2.C10
open Iox2.RUIS (EMPTY LOCKG RSh Mode Out)

section
variable {s s' : Sh} {th : List ATh} {i : Nat} {a a' : ATh}

theorem cpres_held_nodup (c : CCtx s th i a s' a') : ∀ b ∈ th.set i a', (heldL b).Nodup := by
  intro b hb
  rcases c.cases hb with rfl | ⟨hb, _⟩
  · have hn := c.inv.held_nodup a c.mem
    rcases eff_held c.st with ⟨hp, _⟩ | ⟨n, _, _, hc, he, _⟩ | ⟨n, hp, _⟩ | ⟨n, hp, _⟩ | ⟨he, _⟩
    · exact hp.nodup_iff.mpr hn
    · rw [he]; refine List.nodup_cons.mpr ⟨fun hm => ?_, hn⟩
      have := c.inv.held_own a c.mem c.hd n hm
      rw [hc] at this; exact c.inv.own_ne a c.mem this.symm
    · exact (List.nodup_cons.mp (hp.nodup_iff.mp hn)).2
    · exact (List.nodup_cons.mp (hp.nodup_iff.mp hn)).2
    · rw [he]; exact hn
  · exact c.inv.held_nodup b hb

theorem cpres_held_own (c : CCtx s th i a s' a') : ∀ b ∈ th.set i a', b.dead = false → ∀ n ∈ heldL b, Cl s' n = b.owner := by
  intro b hb hbd n hn
  have hoa := c.inv.own_ne a c.mem
  rcases c.cases hb with rfl | ⟨hb, hne⟩
  · rw [eff_owner c.st]
    have hold := c.inv.held_own a c.mem c.hd
    have hnd := c.inv.held_nodup a c.mem
    rcases eff_held c.st with ⟨hp, hc⟩ | ⟨m, _, hm, hc, he, hcl⟩ | ⟨m, hp, _, hcl⟩ | ⟨m, hp, hcl, _⟩ | ⟨he, d, m, g, hph, hcd, hcl⟩
    · rw [hc]; exact hold n (hp.mem_iff.mp hn)
    · rw [hcl]; rw [he] at hn
      have hlt : m < s.r.cells.length := by rw [c.inv.len_cells]; exact hm
      rcases List.mem_cons.mp hn with rfl | hn
      · simp [hlt]
      · split
        · rfl
        · exact hold n hn
    · rw [hcl]
      have hnm : m ≠ n := by
        intro e; subst e
        exact (List.nodup_cons.mp (hp.nodup_iff.mp hnd)).1 hn
      simp [hnm]; exact hold n (hp.mem_iff.mpr (List.mem_cons_of_mem _ hn))
    · rw [hcl]; exact hold n (hp.mem_iff.mpr (List.mem_cons_of_mem _ hn))
    · rw [hcl]; rw [he] at hn
      have h1 := hold n hn
      split
      · rename_i h2; obtain ⟨rfl, _⟩ := h2
        -- the recoverer itself would be the dead owner
        have hd := c.inv.rv_dead a c.mem d (by simp [hph, rvOfAll])
        have := (c.inv.life a c.mem) (by rw [← h1, hcd]; exact hd)
        rw [c.hd] at this; cases this
      · exact h1
  · have h1 := c.inv.held_own b hb hbd n hn
    have hob := c.inv.own_ne b hb
    rcases eff_cells c.st with h | ⟨m, _, _, _, hc, h⟩ | ⟨m, g, _, _, hc, h⟩ | ⟨d, m, g, hph, _, hc, h⟩
    · rw [h]; exact h1
    · rw [h]; split
      · rename_i h2; obtain ⟨rfl, _⟩ := h2; rw [hc] at h1; exact absurd h1.symm hob
      · exact h1
    · rw [h]; split
      · rename_i h2; obtain ⟨rfl, _⟩ := h2; rw [hc] at h1; exact absurd h1.symm hne
      · exact h1
    · rw [h]; split
      · rename_i h2; obtain ⟨rfl, _⟩ := h2
        have hd := c.inv.rv_dead a c.mem d (by simp [hph, rvOfAll])
        have := (c.inv.life b hb) (by rw [← h1, hc]; exact hd)
        rw [hbd] at this; cases this
      · exact h1

theorem cpres_rv_dead (c : CCtx s th i a s' a') : ∀ b ∈ th.set i a', ∀ d, rvOfAll b.ph = some d → d ∈ s'.r.deadOwners := by
  intro b hb d hr
  apply dead_mono c.st
  rcases c.cases hb with rfl | ⟨hb, _⟩
  · rcases eff_rvOfAll c.st d hr with h | ⟨_, h⟩
    · exact c.inv.rv_dead a c.mem d h
    · exact h
  · exact c.inv.rv_dead b hb d hr

end
end Iox2.Container.Crash

/- ---------------------------------------------------------------- part CC -/
namespace Iox2.Container.Crash
set_option linter.unusedSimpArgs false
set_option linter.unusedVariables false
open Iox2.Sched Iox2.Container Iox2.C10
open Iox2.RUIS (EMPTY LOCKG RSh Mode Out)

section
variable {s s' : Sh} {th : List ATh} {i : Nat} {a a' : ATh}

theorem CI.eq_of_owner (I : CI s th) {x y : ATh} (hx : x ∈ th) (hy : y ∈ th) (h : x.owner = y.owner) : x = y := by
  obtain ⟨j, hj⟩ := List.getElem?_of_mem hx
  obtain ⟨k, hk⟩ := List.getElem?_of_mem hy
  have := I.own_inj j k x y hj hk h
  subst this; rw [hj] at hk; cases hk; rfl

/-- two live threads never hold the same slot -/
theorem CI.excl (I : CI s th) {x y : ATh} (hx : x ∈ th) (hy : y ∈ th) (hdx : x.dead = false) (hdy : y.dead = false)
    {n : Nat} (h1 : n ∈ heldL x) (h2 : n ∈ heldL y) : x = y :=
  I.eq_of_owner hx hy ((I.held_own x hx hdx n h1).symm.trans (I.held_own y hy hdy n h2))

/-- a slot held by virtue of the pc is not among the thread's entries -/
theorem CI.pc_not_mine (I : CI s th) {x : ATh} (hx : x ∈ th) {n : Nat} (h1 : n ∈ pcHeld x.ph) : n ∉ mineIdx x := by
  have := I.held_nodup x hx
  unfold heldL at this
  exact fun h => (List.nodup_append.mp this).2.2 n h1 n h rfl

/-- while a thread holds slot `n` with a published entry, nobody makes its generation even -/
theorem cegc_keep_odd (c : CCtx s th i a s' a') {x : ATh} (hx : x ∈ th) {n : Nat} (hcl : Cl s n = x.owner) (hcst : cst x n) :
    E s' n = E s n ∧ E s n % 2 = 1 := by
  have h0 := c.inv.cst_odd x hx n hcl hcst
  have key : ∀ {n'}, n' = n → n' ∈ pcHeld a.ph → a.ph ≠ .rmPre n → (∀ g, a.ph ≠ .rmRel n g) → False := by
    intro n' e hp h1 h2; subst e
    have hxa : x = a := c.inv.eq_of_owner hx c.mem
      (hcl.symm.trans (c.inv.held_own a c.mem c.hd n' (by simp [heldL, hp])))
    subst hxa
    rcases hcst with h | h | ⟨g, h⟩
    · exact c.inv.pc_not_mine hx hp h
    · exact h1 h
    · exact h2 g h
  rcases eff_egc c.st n with h | ⟨_, _, ⟨v, h⟩ | ⟨v, h⟩ | h⟩
  · exact ⟨h, h0⟩
  · exact (key rfl (by simp [h, pcHeld]) (by simp [h]) (by simp [h])).elim
  · exact (key rfl (by simp [h, pcHeld]) (by simp [h]) (by simp [h])).elim
  · exact (c.inv.tok_stale a c.mem c.hd n (E s n) h rfl x hx hcl hcst).elim

theorem cpres_cst_odd (c : CCtx s th i a s' a') : ∀ b ∈ th.set i a', ∀ n, Cl s' n = b.owner → cst b n → E s' n % 2 = 1 := by
  intro b hb n hcl hcst
  have hoa := c.inv.own_ne a c.mem
  rcases c.cases hb with rfl | ⟨hb, hne⟩
  · rw [eff_owner c.st] at hcl
    rcases eff_cst c.st n hcst with h | ⟨v, h, hegc⟩
    · -- the thread held the entry before
      have hcl0 : Cl s n = a.owner := by
        rcases eff_cells c.st with h1 | ⟨m, hph, _, _, hc, h1⟩ | ⟨m, g, _, _, hc, h1⟩ | ⟨d, m, g, hph, _, hc, h1⟩
        · rw [← h1]; exact hcl
        · rw [h1] at hcl; split at hcl
          · rename_i h2; obtain ⟨rfl, _⟩ := h2
            exfalso
            have : m ∈ heldL a := by
              rcases h with h | h | ⟨g, h⟩
              · simp [heldL, h]
              · simp [hph] at h
              · simp [hph] at h
            have := c.inv.held_own a c.mem c.hd m this
            rw [hc] at this; exact hoa this.symm
          · exact hcl
        · rw [h1] at hcl; split at hcl
          · exact absurd hcl.symm hoa
          · exact hcl
        · rw [h1] at hcl; split at hcl
          · exact absurd hcl.symm hoa
          · exact hcl
      have := cegc_keep_odd c c.mem hcl0 h
      rw [this.1]; exact this.2
    · -- the entry is published by this very step
      have hp := c.inv.ph_inv a c.mem c.hd
      simp only [phInvC, h] at hp
      have hlt : n < s.egc.length := by
        rw [c.inv.len_egc, ← c.inv.len_cells]
        exact Cl_lt (c.inv.held_own a c.mem c.hd n (by simp [heldL, h, pcHeld])) hoa
      have : E s' n = E s n + 1 := by
        show s'.egc.getD n 0 = E s n + 1
        rw [hegc, getD_set', if_pos ⟨rfl, hlt⟩]
      rw [this]; omega
  · have hob := c.inv.own_ne b hb
    have hcl0 : Cl s n = b.owner := by
      rcases eff_cells c.st with h | ⟨m, _, _, _, hc, h⟩ | ⟨m, g, _, _, hc, h⟩ | ⟨d, m, g, hph, _, hc, h⟩
      · rw [← h]; exact hcl
      · rw [h] at hcl; split at hcl
        · exact absurd hcl.symm hne
        · exact hcl
      · rw [h] at hcl; split at hcl
        · exact absurd hcl.symm hob
        · exact hcl
      · rw [h] at hcl; split at hcl
        · exact absurd hcl.symm hob
        · exact hcl
    have := cegc_keep_odd c hb hcl0 hcst
    rw [this.1]; exact this.2

/-- an entry held after the step was held before it, or is published by this step -/
theorem ccst_back (c : CCtx s th i a s' a') {y : ATh} (hy : y ∈ th.set i a') {n : Nat} (hcl : Cl s' n = y.owner) (hcst : cst y n) :
    (∃ y0 ∈ th, Cl s n = y0.owner ∧ cst y0 n) ∨ (E s' n = E s n + 1 ∧ ∃ v, a.ph = .addInc n v) := by
  have hoa := c.inv.own_ne a c.mem
  rcases c.cases hy with rfl | ⟨hb, hne⟩
  · rw [eff_owner c.st] at hcl
    rcases eff_cst c.st n hcst with h | ⟨v, h, hegc⟩
    · left
      refine ⟨a, c.mem, ?_, h⟩
      rcases eff_cells c.st with h1 | ⟨m, hph, _, _, hc, h1⟩ | ⟨m, g, _, _, hc, h1⟩ | ⟨d, m, g, hph, _, hc, h1⟩
      · rw [← h1]; exact hcl
      · rw [h1] at hcl; split at hcl
        · rename_i h2; obtain ⟨rfl, _⟩ := h2
          exfalso
          have : m ∈ heldL a := by
            rcases h with h | h | ⟨g, h⟩
            · simp [heldL, h]
            · simp [hph] at h
            · simp [hph] at h
          have := c.inv.held_own a c.mem c.hd m this
          rw [hc] at this; exact hoa this.symm
        · exact hcl
      · rw [h1] at hcl; split at hcl
        · exact absurd hcl.symm hoa
        · exact hcl
      · rw [h1] at hcl; split at hcl
        · exact absurd hcl.symm hoa
        · exact hcl
    · right
      have hlt : n < s.egc.length := by
        rw [c.inv.len_egc, ← c.inv.len_cells]
        exact Cl_lt (c.inv.held_own a c.mem c.hd n (by simp [heldL, h, pcHeld])) hoa
      refine ⟨?_, v, h⟩
      show s'.egc.getD n 0 = E s n + 1
      rw [hegc, getD_set', if_pos ⟨rfl, hlt⟩]
  · have hob := c.inv.own_ne y hb
    left
    refine ⟨y, hb, ?_, hcst⟩
    rcases eff_cells c.st with h | ⟨m, _, _, _, hc, h⟩ | ⟨m, g, _, _, hc, h⟩ | ⟨d, m, g, hph, _, hc, h⟩
    · rw [← h]; exact hcl
    · rw [h] at hcl; split at hcl
      · exact absurd hcl.symm hne
      · exact hcl
    · rw [h] at hcl; split at hcl
      · exact absurd hcl.symm hob
      · exact hcl
    · rw [h] at hcl; split at hcl
      · exact absurd hcl.symm hob
      · exact hcl

end
end Iox2.Container.Crash

/- ---------------------------------------------------------------- part CD -/
namespace Iox2.Container.Crash
set_option linter.unusedSimpArgs false
set_option linter.unusedVariables false
open Iox2.Sched Iox2.Container Iox2.C10
open Iox2.RUIS (EMPTY LOCKG RSh Mode Out)

section
variable {s s' : Sh} {th : List ATh} {i : Nat} {a a' : ATh}

theorem ctok_inv {x : ATh} (h : phInvC s x) {n g : Nat} (ht : tok x.ph = some (n, g)) : n < s.r.cap ∧ g ≤ E s n := by
  unfold phInvC at h
  cases hp : x.ph <;> simp [hp, tok] at ht h
  · obtain ⟨rfl, rfl⟩ := ht; exact h.2
  · obtain ⟨rfl, rfl⟩ := ht; exact h

theorem cpres_tok_stale (c : CCtx s th i a s' a') :
    ∀ x ∈ th.set i a', x.dead = false → ∀ n g, tok x.ph = some (n, g) → E s' n = g → ∀ y ∈ th.set i a', Cl s' n = y.owner → ¬ cst y n := by
  intro x hx hxd n g ht hE y hy hcl hcst
  have hoy := (cpres_own c).2 y hy
  have old : ∀ x0 ∈ th, x0.dead = false → tok x0.ph = some (n, g) → False := by
    intro x0 hx0 hx0d ht0
    have hg := (ctok_inv (c.inv.ph_inv x0 hx0 hx0d) ht0).2
    have hm := eff_egc_mono c.st n
    have hEs : E s n = g := by omega
    rcases ccst_back c hy hcl hcst with ⟨y0, hy0, hcl0, hcst0⟩ | ⟨h1, _⟩
    · exact c.inv.tok_stale x0 hx0 hx0d n g ht0 hEs y0 hy0 hcl0 hcst0
    · omega
  rcases c.cases hx with rfl | ⟨hx, _⟩
  · rcases eff_tok c.st n g ht with h | ⟨h, hcl'⟩
    · exact old a c.mem c.hd h
    · have hlt : n < s.r.cells.length := by
        rcases h with ⟨_, h⟩ | ⟨d, hph, h⟩
        · exact Cl_lt h (c.inv.own_ne a c.mem)
        · exact Cl_lt h (c.inv.dead_ne d (c.inv.rv_dead a c.mem d (by simp [hph, rvOfAll])))
      rw [hcl', if_pos ⟨rfl, hlt⟩] at hcl
      exact hoy hcl.symm
  · exact old x hx hxd ht

end
end Iox2.Container.Crash

/- ---------------------------------------------------------------- part CE -/
namespace Iox2.Container.Crash
set_option linter.unusedSimpArgs false
set_option linter.unusedVariables false
open Iox2.Sched Iox2.Container Iox2.C10
open Iox2.RUIS (EMPTY LOCKG RSh Mode Out)

section
variable {s s' : Sh} {th : List ATh} {i : Nat} {a a' : ATh}

theorem eff_hook (h : AStep s a s' a') {d n g : Nat} (hph : a.ph = .rvTok d n g) :
    s'.egc = s.egc ∨ a'.rvDone = a.rvDone ++ [(n, g)] := by
  cases h <;> simp_all [fin, plainFin]

/-- a token that fires is odd -/
theorem tok_fires_odd (c : CCtx s th i a s' a') {n : Nat} (h : tok a.ph = some (n, E s n)) (hne : E s' n ≠ E s n) : E s n % 2 = 1 := by
  have hI := c.inv.ph_inv a c.mem c.hd
  unfold phInvC at hI
  cases hp : a.ph <;> simp [hp, tok] at h hI
  · obtain ⟨rfl, h2⟩ := h; rw [← h2]; rw [← h2] at hI; exact hI.1
  · rename_i d n' g
    obtain ⟨rfl, h2⟩ := h
    rcases eff_hook c.st hp with h3 | h3
    · exfalso; apply hne; unfold E; rw [h3]
    · rw [← h2]; exact c.hook d n' g hp (by rw [h3]; simp)

/-- a generation counter moves only by its adder, or from an odd value by a token holder -/
theorem cegc_step (c : CCtx s th i a s' a') (n : Nat) :
    E s' n = E s n ∨ (E s' n = E s n + 1 ∧ n < s.egc.length ∧ (n ∈ pcHeld a.ph ∨ E s n % 2 = 1)) := by
  rcases eff_egc c.st n with h | ⟨h1, h2, ⟨v, h⟩ | ⟨v, h⟩ | h⟩
  · exact .inl h
  · exact .inr ⟨h1, h2, .inl (by simp [h, pcHeld])⟩
  · exact .inr ⟨h1, h2, .inl (by simp [h, pcHeld])⟩
  · exact .inr ⟨h1, h2, .inr (tok_fires_odd c h (by omega))⟩

/-- data words of a slot change only in the write window of its adder, while the generation is even -/
theorem cdata_step (c : CCtx s th i a s' a') (n : Nat) :
    s'.data.getD n [] = s.data.getD n [] ∨
    (n ∈ pcHeld a.ph ∧ E s n % 2 = 0 ∧ ∃ k v, a.ph = .addWr n k v ∧ k < s.width ∧ n < s.data.length ∧
      s'.data.getD n [] = (s.data.getD n []).set k (v.getD k 0)) := by
  rcases eff_data c.st with h | ⟨m, k, v, hph, hk, h⟩
  · rw [h]; exact .inl rfl
  · rw [h, getD_setWord]
    split
    · rename_i h2; obtain ⟨rfl, h2⟩ := h2
      have := c.inv.ph_inv a c.mem c.hd
      simp only [phInvC, hph] at this
      exact .inr ⟨by simp [hph, pcHeld], this.1, k, v, hph, hk, h2, rfl⟩
    · exact .inl rfl

/-- a slot held by another live thread keeps its data, and its generation moves only from odd -/
theorem cother_held (c : CCtx s th i a s' a') {b : ATh} (hb : b ∈ th) (hne : b.owner ≠ a.owner) (hbd : b.dead = false)
    {n : Nat} (hn : n ∈ pcHeld b.ph) :
    s'.data.getD n [] = s.data.getD n [] ∧ (E s' n = E s n ∨ (E s' n = E s n + 1 ∧ E s n % 2 = 1)) := by
  have hna : n ∉ pcHeld a.ph := by
    intro h
    have := c.inv.excl hb c.mem hbd c.hd (n := n) (by simp [heldL, hn]) (by simp [heldL, h])
    exact hne (this ▸ rfl)
  constructor
  · rcases cdata_step c n with h | ⟨h, _⟩
    · exact h
    · exact absurd h hna
  · rcases cegc_step c n with h | ⟨h1, _, h | h⟩
    · exact .inl h
    · exact absurd h hna
    · exact .inr ⟨h1, h⟩

theorem ccl_dead_back (c : CCtx s th i a s' a') {d n : Nat} (hd : d ∈ s.r.deadOwners) (h : Cl s' n = d) : Cl s n = d := by
  have hde := c.inv.dead_ne d hd
  have hda : a.owner ≠ d := by
    intro e
    have := (c.inv.life a c.mem) (e ▸ hd)
    rw [c.hd] at this; cases this
  rcases eff_cells c.st with h1 | ⟨m, _, _, _, hc, h1⟩ | ⟨m, g, _, _, hc, h1⟩ | ⟨d', m, g, hph, _, hc, h1⟩
  · rw [← h1]; exact h
  · rw [h1] at h; split at h
    · exact absurd h hda
    · exact h
  · rw [h1] at h; split at h
    · exact absurd h.symm hde
    · exact h
  · rw [h1] at h; split at h
    · exact absurd h.symm hde
    · exact h

end
end Iox2.Container.Crash

/- ---------------------------------------------------------------- part CF -/
namespace Iox2.Container.Crash
set_option linter.unusedSimpArgs false
set_option linter.unusedVariables false
open Iox2.Sched Iox2.Container Iox2.C10
open Iox2.RUIS (EMPTY LOCKG RSh Mode Out)

section
variable {s s' : Sh} {th : List ATh} {i : Nat} {a a' : ATh}

theorem cphinv_other (c : CCtx s th i a s' a') {b : ATh} (hb : b ∈ th) (hne : b.owner ≠ a.owner) (hbd : b.dead = false) : phInvC s' b := by
  have hI := c.inv.ph_inv b hb hbd
  obtain ⟨hw, hcap, -⟩ := eff_const c.st
  have mono := eff_egc_mono c.st
  unfold phInvC at hI ⊢
  cases hp : b.ph <;> simp only [hp] at hI ⊢ <;> try trivial
  case addCas n g v =>
    obtain ⟨_, h2⟩ := cother_held c hb hne hbd (n := n) (by simp [hp, pcHeld])
    refine ⟨hI.1, ?_, hw ▸ hI.2.2⟩
    omega
  case addWr n k v =>
    obtain ⟨h1, h2⟩ := cother_held c hb hne hbd (n := n) (by simp [hp, pcHeld])
    refine ⟨by omega, hw ▸ hI.2.1, h1 ▸ hI.2.2⟩
  case addInc n v =>
    obtain ⟨h1, h2⟩ := cother_held c hb hne hbd (n := n) (by simp [hp, pcHeld])
    refine ⟨by omega, h1 ▸ hI.2⟩
  case rmRel n g => have := mono n; exact ⟨hI.1, by omega⟩
  case rmTok n g => have := mono n; exact ⟨hI.1, hcap ▸ hI.2.1, by omega⟩
  case rvTok d n g => have := mono n; exact ⟨hcap ▸ hI.1, by omega⟩
  case rmFin n g => have := mono n; omega
  case rvCopy d n g => have := mono n; exact ⟨hI.1, by omega⟩
  case rvCell d n g =>
    intro h
    have hd := c.inv.rv_dead b hb d (by simp [hp, rvOfAll])
    have := hI (ccl_dead_back c hd h)
    have := mono n; omega
  case upCopy j g k =>
    have := mono j
    refine ⟨hcap ▸ hI.1, hI.2.1, by omega, hI.2.2.2.1, fun h => ?_⟩
    have hE : E s j = g := by omega
    rcases cdata_step c j with h1 | ⟨_, h1, _⟩
    · rw [h1]; exact hI.2.2.2.2 hE
    · omega
  case upVal j g =>
    have := mono j
    refine ⟨hcap ▸ hI.1, hI.2.1, by omega, fun hg h => ?_⟩
    have hE : E s j = g := by omega
    rcases cdata_step c j with h1 | ⟨_, h1, _⟩
    · rw [h1]; exact hI.2.2.2 hg hE
    · omega

end
end Iox2.Container.Crash

/- ---------------------------------------------------------------- part CG -/
namespace Iox2.Container.Crash
set_option linter.unusedSimpArgs false
set_option linter.unusedVariables false
open Iox2.Sched Iox2.Container Iox2.C10
open Iox2.RUIS (EMPTY LOCKG RSh Mode Out)

section
variable {s s' : Sh} {th : List ATh} {i : Nat} {a a' : ATh}

theorem cphinv_self (c : CCtx s th i a s' a') : phInvC s' a' := by
  have hI := c.inv.ph_inv a c.mem c.hd
  have hoa := c.inv.own_ne a c.mem
  have hst := c.st
  -- a slot held through the pc is in bounds
  have hbound : ∀ n, n ∈ pcHeld a.ph → n < s.egc.length := by
    intro n hn
    rw [c.inv.len_egc, ← c.inv.len_cells]
    exact Cl_lt (c.inv.held_own a c.mem c.hd n (by simp [heldL, hn])) hoa
  unfold phInvC at hI ⊢
  cases hst with
  | rstay r' hr hs ha => subst hs ha; simpa [E, Cl, hr.1, hr.2.1] using hI
  | aLdOdd n v hph hv hg hs ha => subst ha; rw [hs]; simp [hv, hg]
  | aLdEven n v hph hv hg hs ha => subst ha; rw [hs]; simp [hv, wordsEq]; omega
  | aCasOk n g v hph hE hs ha =>
    subst hs ha; simp only [hph] at hI ⊢
    have := hbound n (by simp [hph, pcHeld])
    rw [E_set]; simp [this, wordsEq, hI.2.2]; omega
  | aCasFail n g v hph hE hs ha =>
    subst ha; rw [hs]; simp only [hph] at hI ⊢
    simp [wordsEq, hI.2.2]; omega
  | aWord n k v hph hk hs ha =>
    subst hs ha; simp only [hph] at hI ⊢
    have hn := hbound n (by simp [hph, pcHeld])
    rw [c.inv.len_egc, ← c.inv.len_data] at hn
    refine ⟨hI.1, hI.2.1, ?_⟩
    show wordsEq ((setWord s.data n k (v.getD k 0)).getD n []) v (k + 1)
    rw [getD_setWord, if_pos ⟨rfl, hn⟩]
    exact wordsEq_set hI.2.2 (by rw [getD_len c.inv.wid_data hn]; exact hk) rfl
  | aNorm n k v hph hk hs ha =>
    subst ha; rw [hs]; simp only [hph] at hI ⊢
    have hn := hbound n (by simp [hph, pcHeld])
    rw [c.inv.len_egc, ← c.inv.len_data] at hn
    exact ⟨hI.1, wordsEq_full hI.2.2 hk (getD_len c.inv.wid_data hn) hI.2.1⟩
  | rLd n hph hs ha =>
    subst ha; rw [hs]; simp only []
    have := c.inv.cst_odd a c.mem n (c.inv.held_own a c.mem c.hd n (by simp [heldL, hph, pcHeld])) (.inr (.inl hph))
    exact ⟨this, Nat.le_refl _⟩
  | rRel n g hph hc hs ha =>
    subst hs ha; simp only [hph] at hI ⊢
    have := hbound n (by simp [hph, pcHeld])
    rw [c.inv.len_egc] at this
    exact ⟨hI.1, this, hI.2⟩
  | rCasOk n g hph hE hs ha =>
    subst hs ha; simp only [hph] at hI ⊢
    rw [E_set, if_pos ⟨rfl, by rw [c.inv.len_egc]; exact hI.2.1⟩]; omega
  | rCasFail n g hph hE hs ha => subst ha; rw [hs]; simp only [hph] at hI ⊢; omega
  | uNew j hph hj hne hs ha =>
    subst ha; rw [hs]
    have hlen := (c.inv.snap_shape a c.mem).1
    have hget : (a.snap.egc.set j (E s j)).getD j 0 = E s j := by rw [getD_set']; simp [hlen, hj]
    by_cases hodd : E s j % 2 = 1
    · rw [if_pos hodd]; dsimp only
      exact ⟨hj, hget, Nat.le_refl _, hodd, fun _ j' hj' => by omega⟩
    · rw [if_neg hodd]; dsimp only
      exact ⟨hj, hget, Nat.le_refl _, fun h => absurd h hodd⟩
  | uWord j g k hph hk hs ha =>
    subst ha; rw [hs]; simp only [hph] at hI ⊢
    obtain ⟨h1, h2, h3, h4, h5⟩ := hI
    refine ⟨h1, h2, h3, h4, fun hE => ?_⟩
    have hsn := c.inv.snap_shape a c.mem
    have hj : j < a.snap.data.length := by rw [hsn.2.1]; exact h1
    rw [getD_setWord, if_pos ⟨rfl, hj⟩]
    exact wordsEq_set (h5 hE) (by rw [getD_len hsn.2.2 hj]; exact hk) rfl
  | uNorm j g k hph hk hs ha =>
    subst ha; rw [hs]; simp only [hph] at hI ⊢
    obtain ⟨h1, h2, h3, h4, h5⟩ := hI
    refine ⟨h1, h2, h3, fun _ hE => ?_⟩
    have hsn := c.inv.snap_shape a c.mem
    have hj : j < a.snap.data.length := by rw [hsn.2.1]; exact h1
    have hj' : j < s.data.length := by rw [c.inv.len_data]; exact h1
    exact wordsEq_full (h5 hE) hk (getD_len hsn.2.2 hj) (getD_len c.inv.wid_data hj')
  | vLd d n hph hs ha =>
    subst ha; rw [hs]
    by_cases hodd : E s n % 2 = 1
    · rw [if_pos hodd]; dsimp only; exact ⟨hodd, Nat.le_refl _⟩
    · rw [if_neg hodd]; dsimp only
      intro _; exact Nat.le_refl _
  | vVal d n g hph hs ha =>
    subst ha; rw [hs]; simp only [hph] at hI
    by_cases he : E s n = g
    · rw [if_pos he]; dsimp only; intro _; omega
    · rw [if_neg he]
      by_cases hodd : E s n % 2 = 1
      · rw [if_pos hodd]; dsimp only; exact ⟨hodd, Nat.le_refl _⟩
      · rw [if_neg hodd]; dsimp only
        intro _; exact Nat.le_refl _
  | vCellOk d n g hph hc hs ha =>
    subst hs ha; simp only [hph] at hI ⊢
    have hd := c.inv.dead_ne d (c.inv.rv_dead a c.mem d (by simp [hph, rvOfAll]))
    have := Cl_lt hc hd
    rw [c.inv.len_cells] at this
    exact ⟨this, hI hc⟩
  | uNext j hph hj hs ha => subst ha; rw [hs]; trivial
  | uTrue j b1 b2 hph hj hb hs ha => subst hs ha; simp [fin]
  | _ => simp_all [fin]

end
end Iox2.Container.Crash

/- ---------------------------------------------------------------- part CH -/
namespace Iox2.Container.Crash
set_option linter.unusedSimpArgs false
set_option linter.unusedVariables false
open Iox2.Sched Iox2.Container Iox2.C10
open Iox2.RUIS (EMPTY LOCKG RSh Mode Out)

section
variable {s s' : Sh} {th : List ATh} {i : Nat} {a a' : ATh}

theorem cpres_ph_inv (c : CCtx s th i a s' a') : ∀ b ∈ th.set i a', b.dead = false → phInvC s' b := by
  intro b hb hbd
  rcases c.cases hb with rfl | ⟨hb, hne⟩
  · exact cphinv_self c
  · exact cphinv_other c hb hne hbd

theorem cpres_rvdone_lt (c : CCtx s th i a s' a') : ∀ b ∈ th.set i a', ∀ x ∈ b.rvDone, x.2 < E s' x.1 := by
  intro b hb x hx
  have mono := eff_egc_mono c.st x.1
  rcases c.cases hb with rfl | ⟨hb, _⟩
  · have old := c.inv.rvdone_lt a c.mem
    rcases eff_rvDone c.st with h | h | ⟨d, n, g, hph, h, h1, h2⟩
    · rw [h] at hx; have := old x hx; omega
    · rw [h] at hx; simp at hx
    · rw [h] at hx
      rcases List.mem_append.mp hx with hx | hx
      · have := old x hx; omega
      · simp at hx; subst hx
        have hI := c.inv.ph_inv a c.mem c.hd
        simp only [phInvC, hph] at hI
        show g < E s' n
        by_cases e : E s n = g
        · have : E s' n = g + 1 := by
            show s'.egc.getD n 0 = g + 1
            rw [h2 e, getD_set', if_pos ⟨rfl, by rw [c.inv.len_egc]; exact hI.1⟩]
          omega
        · have := eff_egc_mono c.st n; omega
  · have := c.inv.rvdone_lt b hb x hx; omega

theorem cpres_removed_lt (c : CCtx s th i a s' a') : ∀ x ∈ s'.removedDone, x.2 < E s' x.1 := by
  intro x hx
  have mono := eff_egc_mono c.st x.1
  rcases eff_removed c.st with h | ⟨_, ⟨n, g, hph, h⟩ | ⟨hph, h⟩⟩
  · rw [h] at hx; have := c.inv.removed_lt x hx; omega
  · rw [h] at hx
    rcases List.mem_append.mp hx with hx | hx
    · have := c.inv.removed_lt x hx; omega
    · simp at hx; subst hx
      have hI := c.inv.ph_inv a c.mem c.hd
      simp only [phInvC, hph] at hI
      have := eff_egc_mono c.st n
      show g < E s' n
      omega
  · rw [h] at hx
    rcases List.mem_append.mp hx with hx | hx
    · have := c.inv.removed_lt x hx; omega
    · have := c.inv.rvdone_lt a c.mem x hx; omega

/-- what happens to slot `j` in one step: nothing that matters, or it is published -/
theorem cslot_step (c : CCtx s th i a s' a') (j : Nat) :
    (s'.published.getD j [] = s.published.getD j [] ∧
      ((E s' j = E s j ∧ (s'.data.getD j [] = s.data.getD j [] ∨ E s j % 2 = 0)) ∨ (E s' j = E s j + 1 ∧ E s j % 2 = 1)))
    ∨ (∃ v, E s j % 2 = 0 ∧ E s' j = E s j + 1 ∧ s'.data.getD j [] = v ∧
        s'.published.getD j [] = s.published.getD j [] ++ [(E s j + 1, v)]) := by
  have hI := c.inv.ph_inv a c.mem c.hd
  have pub_same : (∀ v, a.ph ≠ .addInc j v) → s'.published.getD j [] = s.published.getD j [] := by
    intro hne
    rcases eff_pub c.st with h1 | ⟨n, v, hph, h1⟩ <;> rw [h1]
    rw [getD_modify']; split
    · rename_i h2; obtain ⟨rfl, _⟩ := h2; exact absurd hph (hne v)
    · rfl
  rcases eff_egc c.st j with h | ⟨h1, hlt, ⟨v, h⟩ | ⟨v, h⟩ | h⟩
  · -- the generation does not move
    left
    refine ⟨?_, .inl ⟨h, ?_⟩⟩
    · by_cases hinc : ∃ v, a.ph = .addInc j v
      · obtain ⟨v, hph⟩ := hinc
        rcases step_of_addInc c.st hph with ⟨_, h2, _⟩ | ⟨h2, _, _⟩
        · rw [h2]
        · exfalso
          have hlt : j < s.egc.length := by
            rw [c.inv.len_egc, ← c.inv.len_cells]
            exact Cl_lt (c.inv.held_own a c.mem c.hd j (by simp [heldL, hph, pcHeld])) (c.inv.own_ne a c.mem)
          have : E s' j = E s j + 1 := by
            show s'.egc.getD j 0 = _
            rw [h2, getD_set', if_pos ⟨rfl, hlt⟩]
          omega
      · exact pub_same (fun v hv => hinc ⟨v, hv⟩)
    · rcases cdata_step c j with h2 | ⟨_, h2, _⟩
      · exact .inl h2
      · exact .inr h2
  · left
    simp only [phInvC, h] at hI
    exact ⟨pub_same (by simp [h]), .inr ⟨h1, hI.1⟩⟩
  · right
    simp only [phInvC, h] at hI
    rcases step_of_addInc c.st h with ⟨h2, _, _⟩ | ⟨_, h3, h4⟩
    · exfalso
      have : E s' j = E s j := by show s'.egc.getD j 0 = s.egc.getD j 0; rw [h2]
      omega
    · refine ⟨v, hI.1, h1, by rw [h4]; exact hI.2, ?_⟩
      rw [h3, getD_modify', if_pos ⟨rfl, by rw [c.inv.len_pub, ← c.inv.len_egc]; exact hlt⟩]
  · left
    have := tok_fires_odd c h (by omega)
    exact ⟨pub_same (by intro v hv; simp [hv, tok] at h), .inr ⟨h1, this⟩⟩

theorem cpres_pub_odd (c : CCtx s th i a s' a') :
    ∀ j, E s' j % 2 = 1 → (E s' j, s'.data.getD j []) ∈ s'.published.getD j [] := by
  intro j hodd
  rcases cslot_step c j with ⟨h1, ⟨h2, h3⟩ | ⟨h2, h3⟩⟩ | ⟨v, h1, h2, h3, h4⟩
  · rw [h1, h2]; rw [h2] at hodd
    rcases h3 with h3 | h3
    · rw [h3]; exact c.inv.pub_odd j hodd
    · omega
  · omega
  · rw [h4, h2, h3]; simp


end
end Iox2.Container.Crash

/- ---------------------------------------------------------------- part CJ -/
namespace Iox2.Container.Crash
set_option linter.unusedSimpArgs false
set_option linter.unusedVariables false
open Iox2.Sched Iox2.Container Iox2.C10
open Iox2.RUIS (EMPTY LOCKG RSh Mode Out)

section
variable {s s' : Sh} {th : List ATh} {i : Nat} {a a' : ATh}

/-- the slot that was just validated is genuine -/
theorem cvalidated_ok (c : CCtx s th i a s' a') {j : Nat}
    (hph : (a.ph = .upScan j ∧ E s j = a.snap.egc.getD j 0) ∨ a.ph = .upVal j (E s j) ∨
        (∃ g, a.ph = .upVal j g ∧ E s j = a.snap.egc.getD j 0) ∨ (a.ph = .upScan 0 ∧ j = 0 ∧ ¬ 0 < s.r.cap)) :
    ∀ k, snapOK s a.snap k := by
  have hr := c.inv.rd_inv a c.mem c.hd
  have hp := c.inv.ph_inv a c.mem c.hd
  unfold rdInv at hr; unfold phInvC at hp
  have key : ∀ g, a.ph = .upVal j g → E s j = g → ∀ k, snapOK s a.snap k := by
    intro g h hE k
    simp only [h] at hr hp
    by_cases e : k = j
    · subst e
      intro ho
      rw [hp.2.1] at ho ⊢
      rw [hp.2.2.2 ho hE, ← hE]
      exact c.inv.pub_odd k (hE ▸ ho)
    · exact hr k e
  rcases hph with ⟨h, _⟩ | h | ⟨g, h, hE⟩ | ⟨h, _, _⟩
  · simpa [h] using hr
  · exact key _ h rfl
  · have := hp; simp only [h] at this
    exact key g h (hE.trans this.2.1)
  · simpa [h] using hr

theorem crd_self (c : CCtx s th i a s' a') : rdInv s a' := by
  have hr := c.inv.rd_inv a c.mem c.hd
  have hst := c.st
  cases hst with
  | uNext j hph hj hs ha =>
    subst ha; simp only [rdInv]
    refine cvalidated_ok c (j := j) ?_
    rcases hph with ⟨h, _, h2⟩ | h | h
    · exact .inl ⟨h, h2⟩
    · exact .inr (.inl h)
    · exact .inr (.inr (.inl h))
  | uTrue j b1 b2 hph hj hb hs ha =>
    subst ha; simp only [rdInv, fin]
    exact cvalidated_ok c hph
  | uNew j hph hj hne hs ha =>
    subst ha
    have : ∀ k, k ≠ j → snapOK s { a.snap with egc := a.snap.egc.set j (E s j) } k := by
      intro k hk
      refine snapOK_congr (sn := a.snap) ?_ ?_ ?_
      · simp [getD_set', Ne.symm hk]
      · rfl
      rcases hph with h | ⟨g, h, _⟩ <;> simp only [rdInv, h] at hr
      · exact hr k
      · exact hr k hk
    unfold rdInv
    by_cases hodd : E s j % 2 = 1
    · simp only [hodd, if_true]; exact this
    · simp only [hodd, if_false]; exact this
  | uWord j g k hph hk hs ha =>
    subst ha; simp only [rdInv, hph] at hr ⊢
    intro k' hk'
    refine snapOK_congr (sn := a.snap) ?_ ?_ (hr k' hk')
    · rfl
    · show (setWord a.snap.data j k _).getD k' [] = _
      rw [getD_setWord, if_neg (fun h => hk' h.1.symm)]
  | uNorm j g k hph hk hs ha => subst ha; simpa [rdInv, hph] using hr
  | uLd hph hc hs ha => subst ha; simpa [rdInv, hph, snapOK] using hr
  | vLd d n hph hs ha =>
    subst ha; unfold rdInv at hr ⊢; simp only [hph] at hr
    by_cases hodd : E s n % 2 = 1
    · simp only [hodd, if_true]; exact hr
    · simp only [hodd, if_false]; exact hr
  | vVal d n g hph hs ha =>
    subst ha; unfold rdInv at hr ⊢; simp only [hph] at hr
    by_cases he : E s n = g
    · simp only [he, if_true]; exact hr
    · by_cases hodd : E s n % 2 = 1
      · simp only [he, hodd, if_true, if_false]; exact hr
      · simp only [he, hodd, if_false]; exact hr
  | done r' b1 b2 hr' hb hp hs ha =>
    subst ha
    cases hph : a.ph <;> simp [plainFin, hph] at hp <;> simp_all [rdInv, fin]
  | _ => simp_all [rdInv, fin]

theorem cE_oob (I : CI s th) {j : Nat} (h : s.r.cap ≤ j) : E s j = 0 := by
  unfold E; rw [List.getD_eq_getElem?_getD, List.getElem?_eq_none (by rw [I.len_egc]; exact h)]; rfl

/-- the refresh loop keeps "all refreshed slots are newer than the removals in `L`" -/
theorem cscan_step (c : CCtx s th i a s' a') (L : List (Nat × Nat)) (hL : ∀ x ∈ L, x.2 < E s x.1) (hsc : scanned L a) :
    scanned L a' := by
  have hst := c.st
  have hlen := (c.inv.snap_shape a c.mem).1
  unfold scanned at hsc ⊢
  cases hst with
  | uNext j hph hj hs ha =>
    subst ha; intro x hx hd
    simp only [doneU] at hd
    rcases hph with ⟨h, _, h2⟩ | h | ⟨g, h, h2⟩
    · by_cases e : x.1 = j
      · have := hL x hx; rw [e] at this ⊢; rw [← h2]; exact this
      · exact hsc x hx (by simp only [h, doneU]; omega)
    · exact hsc x hx (by simp only [h, doneU]; omega)
    · exact hsc x hx (by simp only [h, doneU]; omega)
  | uTrue j b1 b2 hph hj hb hs ha =>
    subst ha; intro x hx _
    simp only [fin]
    have hx2 := hL x hx
    by_cases hc : s.r.cap ≤ x.1
    · rw [cE_oob c.inv hc] at hx2; omega
    · have hle : x.1 ≤ j := by omega
      rcases hph with ⟨h, h2⟩ | h | ⟨g, h, h2⟩ | ⟨h, h2, h3⟩
      · by_cases e : x.1 = j
        · rw [e] at hx2 ⊢; rw [← h2]; exact hx2
        · exact hsc x hx (by simp only [h, doneU]; omega)
      · exact hsc x hx (by simp only [h, doneU]; omega)
      · exact hsc x hx (by simp only [h, doneU]; omega)
      · omega
  | uNew j hph hj hne hs ha =>
    subst ha; intro x hx hd
    have hd' : x.1 ≤ j := by
      rw [doneU_ite] at hd; split at hd <;> simpa [doneU] using hd
    simp only [getD_set']
    by_cases e : x.1 = j
    · rw [if_pos ⟨e.symm, by rw [hlen]; exact hj⟩]; rw [← e]; exact hL x hx
    · rw [if_neg (fun h => e h.1.symm)]
      rcases hph with h | ⟨g, h, _⟩
      · exact hsc x hx (by simp only [h, doneU]; omega)
      · exact hsc x hx (by simp only [h, doneU]; omega)
  | uWord j g k hph hk hs ha =>
    subst ha; intro x hx hd
    exact hsc x hx (by simpa [hph, doneU] using hd)
  | uNorm j g k hph hk hs ha =>
    subst ha; intro x hx hd
    exact hsc x hx (by simpa [hph, doneU] using hd)
  | uLd hph hc hs ha => subst ha; intro x hx hd; simp [doneU] at hd
  | vLd d n hph hs ha => subst ha; intro x hx _; exact hsc x hx (by simp [hph, doneU])
  | vVal d n g hph hs ha => subst ha; intro x hx _; exact hsc x hx (by simp [hph, doneU])
  | done r' b1 b2 hr' hb hp hs ha =>
    subst ha; intro x hx _
    cases hph : a.ph <;> simp [plainFin, hph] at hp <;> exact hsc x hx (by simp [hph, doneU])
  | _ => simp_all [fin, doneU]

theorem cpres_up_begin (c : CCtx s th i a s' a') : ∀ b ∈ th.set i a', ∀ x ∈ b.upBegin.1, x ∈ s'.removedDone := by
  intro b hb x hx
  apply removed_mono c.st
  rcases c.cases hb with rfl | ⟨hb, _⟩
  · rcases eff_upBegin c.st with h | ⟨_, _, h⟩
    · rw [h] at hx; exact c.inv.up_begin a c.mem x hx
    · rw [h] at hx; exact hx
  · exact c.inv.up_begin b hb x hx

theorem cpres_ng (c : CCtx s th i a s' a') : ∀ b ∈ th.set i a', b.dead = false → inUp b.ph → b.ph ≠ .upStart → scanned b.upBegin.1 b := by
  intro b hb hbd h1 h2
  rcases c.cases hb with rfl | ⟨hb, _⟩
  · rcases eff_inUp c.st h1 h2 with ⟨h3, h4⟩ | ⟨h3, h4⟩
    · intro x hx hd; simp [h4, doneU] at hd
    · have hub : b.upBegin = a.upBegin := by
        rcases eff_upBegin c.st with h | ⟨h, _⟩
        · exact h
        · rw [h] at h3; simp [inUp] at h3
      rw [hub]
      exact cscan_step c _ (fun x hx => c.inv.removed_lt x (c.inv.up_begin a c.mem x hx)) (c.inv.ng a c.mem c.hd h3 h4)
  · exact c.inv.ng b hb hbd h1 h2

theorem cpres_ch_le (c : CCtx s th i a s' a') : ∀ b ∈ th.set i a', b.snap.change ≤ s'.change := by
  intro b hb
  have := change_mono c.st
  rcases c.cases hb with rfl | ⟨hb, _⟩
  · rcases eff_snap_change c.st with h | ⟨_, _, h, h2⟩
    · rw [h]; have := c.inv.ch_le a c.mem; omega
    · omega
  · have := c.inv.ch_le b hb; omega

theorem cpres_ch (c : CCtx s th i a s' a') : ∀ b ∈ th.set i a', b.dead = false → b.snap.change < s'.change ∨ scanned s'.removedDone b := by
  intro b hb hbd
  have hm := change_mono c.st
  rcases eff_removed c.st with hrd | ⟨hch, _⟩
  · rw [hrd]
    rcases c.cases hb with rfl | ⟨hb, _⟩
    · rcases eff_snap_change c.st with h | ⟨_, h4, h, h2⟩
      · rw [h]
        rcases c.inv.ch a c.mem c.hd with h3 | h3
        · left; omega
        · right; exact cscan_step c _ c.inv.removed_lt h3
      · right; intro x hx hd; simp [h4, doneU] at hd
    · rcases c.inv.ch b hb hbd with h3 | h3
      · left; omega
      · exact .inr h3
  · left
    rcases c.cases hb with rfl | ⟨hb, _⟩
    · rcases eff_snap_change c.st with h | ⟨_, _, _, h2⟩
      · rw [h]; have := c.inv.ch_le a c.mem; omega
      · omega
    · have := c.inv.ch_le b hb; omega

theorem cpres_upd_ok (c : CCtx s th i a s' a') :
    ∀ b ∈ th.set i a', ∀ u ∈ b.updates, (∀ j, snapOK s' u.snap j) ∧ (∀ x ∈ u.removedAtBegin, x.2 < u.snap.egc.getD x.1 0) := by
  intro b hb u hu
  have lift : ((∀ j, snapOK s u.snap j) ∧ (∀ x ∈ u.removedAtBegin, x.2 < u.snap.egc.getD x.1 0)) →
      ((∀ j, snapOK s' u.snap j) ∧ (∀ x ∈ u.removedAtBegin, x.2 < u.snap.egc.getD x.1 0)) :=
    fun h => ⟨fun j => snapOK_mono c.st (h.1 j), h.2⟩
  apply lift
  rcases c.cases hb with rfl | ⟨hb, _⟩
  · rcases eff_updates c.st with h | ⟨hph, hc, h⟩ | ⟨j, hph, hj, h⟩
    · rw [h] at hu; exact c.inv.upd_ok a c.mem u hu
    · rw [h] at hu
      rcases List.mem_append.mp hu with hu | hu
      · exact c.inv.upd_ok a c.mem u hu
      · simp at hu; subst hu
        simp only [updRec]
        have hr := c.inv.rd_inv a c.mem c.hd
        simp only [rdInv, hph] at hr
        refine ⟨hr, fun x hx => ?_⟩
        rcases c.inv.ch a c.mem c.hd with h1 | h1
        · omega
        · exact h1 x (c.inv.up_begin a c.mem x hx) (by simp [hph, doneU])
    · rw [h] at hu
      rcases List.mem_append.mp hu with hu | hu
      · exact c.inv.upd_ok a c.mem u hu
      · simp at hu; subst hu
        simp only [updRec]
        have hup : inUp a.ph ∧ a.ph ≠ .upStart := by
          rcases hph with ⟨h, _⟩ | h | ⟨g, h, _⟩ | ⟨h, _⟩ <;> simp [h, inUp]
        refine ⟨cvalidated_ok c hph, fun x hx => ?_⟩
        have hsc := c.inv.ng a c.mem c.hd hup.1 hup.2
        have hx2 := c.inv.removed_lt x (c.inv.up_begin a c.mem x hx)
        by_cases hcap : s.r.cap ≤ x.1
        · rw [cE_oob c.inv hcap] at hx2; omega
        · rcases hph with ⟨h, h2⟩ | h | ⟨g, h, h2⟩ | ⟨h, h2, h3⟩
          · by_cases e : x.1 = j
            · rw [e] at hx2 ⊢; rw [← h2]; exact hx2
            · exact hsc x hx (by simp only [h, doneU]; omega)
          · exact hsc x hx (by simp only [h, doneU]; omega)
          · exact hsc x hx (by simp only [h, doneU]; omega)
          · omega
  · exact c.inv.upd_ok b hb u hu


end
end Iox2.Container.Crash

/- ---------------------------------------------------------------- part CK -/
namespace Iox2.Container.Crash
set_option linter.unusedSimpArgs false
set_option linter.unusedVariables false
open Iox2.Sched Iox2.Container Iox2.C10
open Iox2.RUIS (EMPTY LOCKG RSh Mode Out)

section
variable {s s' : Sh} {th : List ATh} {i : Nat} {a a' : ATh}

/-- **the invariant is preserved by every abstract step of a live thread** -/
theorem ci_step (c : CCtx s th i a s' a') : CI s' (th.set i a') := by
  obtain ⟨h1, h2, h3, h4, h5⟩ := cpres_shape c
  obtain ⟨h6, h7⟩ := cpres_own c
  exact
    { len_egc := h1, len_data := h2, len_pub := h3, len_cells := h4, wid_data := h5
      snap_shape := cpres_snap_shape c
      own_inj := h6, own_ne := h7
      life := cpres_life c
      dead_ne := cpres_dead_ne c
      held_nodup := cpres_held_nodup c
      held_own := cpres_held_own c
      rv_dead := cpres_rv_dead c
      cst_odd := cpres_cst_odd c
      ph_inv := cpres_ph_inv c
      tok_stale := cpres_tok_stale c
      rvdone_lt := cpres_rvdone_lt c
      removed_lt := cpres_removed_lt c
      pub_odd := cpres_pub_odd c
      rd_inv := fun b hb hbd => by
        rcases c.cases hb with rfl | ⟨hb, _⟩
        · exact rdInv_mono c.st (crd_self c)
        · exact rdInv_mono c.st (c.inv.rd_inv b hb hbd)
      upd_ok := cpres_upd_ok c
      up_begin := cpres_up_begin c
      ng := cpres_ng c
      ch_le := cpres_ch_le c
      ch := cpres_ch c }

end

/-- the shared state after the death of the thread with owner id `o` -/
def killSh (s : Sh) (o : Nat) : Sh := { s with r := { s.r with deadOwners := o :: s.r.deadOwners } }

theorem phInvC_kill (s : Sh) (o : Nat) (b : ATh) (h : phInvC s b) : phInvC (killSh s o) b := h
theorem rdInv_kill (s : Sh) (o : Nat) (b : ATh) (h : rdInv s b) : rdInv (killSh s o) b := h

/-- **… and by the death of a live thread at any phase** -/
theorem ci_crash {s : Sh} {th : List ATh} {i : Nat} {a : ATh} (I : CI s th) (hi : th[i]? = some a) :
    CI (killSh s a.owner) (th.set i { a with dead := true }) := by
  have hmem : a ∈ th := List.mem_of_getElem? hi
  -- every thread of the new list is an old thread, up to the `dead` flag
  have back : ∀ b ∈ th.set i { a with dead := true }, ∃ b0 ∈ th, b0.owner = b.owner ∧ b0.ph = b.ph ∧ b0.mine = b.mine ∧
      b0.snap = b.snap ∧ b0.rvDone = b.rvDone ∧ b0.upBegin = b.upBegin ∧ b0.updates = b.updates ∧
      (b.dead = false → b0 = b) ∧ (b0.dead = true → b.dead = true) ∧ (b.owner = a.owner → b.dead = true) := by
    intro b hb
    rcases mem_set_cases I.own_inj hi hb with rfl | ⟨hb, hne⟩
    · exact ⟨a, hmem, rfl, rfl, rfl, rfl, rfl, rfl, rfl, by simp, by simp, by simp⟩
    · exact ⟨b, hb, rfl, rfl, rfl, rfl, rfl, rfl, rfl, fun _ => rfl, id, fun h => absurd h hne⟩
  have cst_eq : ∀ {b b0 : ATh}, b0.ph = b.ph → b0.mine = b.mine → ∀ n, cst b n ↔ cst b0 n := by
    intro b b0 h1 h2 n; unfold cst mineIdx; rw [h1, h2]
  have held_eq : ∀ {b b0 : ATh}, b0.ph = b.ph → b0.mine = b.mine → heldL b = heldL b0 := by
    intro b b0 h1 h2; unfold heldL mineIdx; rw [h1, h2]
  exact
    { len_egc := I.len_egc, len_data := I.len_data, len_pub := I.len_pub, len_cells := I.len_cells, wid_data := I.wid_data
      snap_shape := fun b hb => by
        obtain ⟨b0, hb0, _, _, _, h4, _⟩ := back b hb
        rw [← h4]; exact I.snap_shape b0 hb0
      own_inj := fun j k x y hj hk hxy => by
        have key : ∀ (j : Nat) (x : ATh), (th.set i { a with dead := true })[j]? = some x → ∃ x0, th[j]? = some x0 ∧ x0.owner = x.owner := by
          intro j x hj
          rw [List.getElem?_set] at hj
          by_cases e : i = j
          · subst e; simp at hj
            exact ⟨a, hi, by rw [← hj.2]⟩
          · simp [e] at hj; exact ⟨x, hj, rfl⟩
        obtain ⟨x0, hx0, ex⟩ := key j x hj
        obtain ⟨y0, hy0, ey⟩ := key k y hk
        exact I.own_inj j k x0 y0 hx0 hy0 (by rw [ex, ey, hxy])
      own_ne := fun b hb => by
        obtain ⟨b0, hb0, h1, _⟩ := back b hb
        rw [← h1]; exact I.own_ne b0 hb0
      life := fun b hb h => by
        obtain ⟨b0, hb0, h1, _, _, _, _, _, _, _, h9, h10⟩ := back b hb
        simp only [killSh, List.mem_cons] at h
        rcases h with h | h
        · exact h10 h
        · exact h9 (I.life b0 hb0 (h1 ▸ h))
      dead_ne := fun d hd => by
        simp only [killSh, List.mem_cons] at hd
        rcases hd with rfl | hd
        · exact I.own_ne a hmem
        · exact I.dead_ne d hd
      held_nodup := fun b hb => by
        obtain ⟨b0, hb0, _, h2, h3, _⟩ := back b hb
        rw [held_eq h2 h3]; exact I.held_nodup b0 hb0
      held_own := fun b hb hbd n hn => by
        obtain ⟨b0, hb0, _, _, _, _, _, _, _, h8, _⟩ := back b hb
        have := h8 hbd; subst this
        exact I.held_own b0 hb0 hbd n hn
      rv_dead := fun b hb d h => by
        obtain ⟨b0, hb0, _, h2, _⟩ := back b hb
        exact List.mem_cons_of_mem _ (I.rv_dead b0 hb0 d (h2 ▸ h))
      cst_odd := fun b hb n hcl hc => by
        obtain ⟨b0, hb0, h1, h2, h3, _⟩ := back b hb
        exact I.cst_odd b0 hb0 n (by rw [h1]; exact hcl) ((cst_eq h2 h3 n).mp hc)
      ph_inv := fun b hb hbd => by
        obtain ⟨b0, hb0, _, _, _, _, _, _, _, h8, _⟩ := back b hb
        have := h8 hbd; subst this
        exact I.ph_inv b0 hb0 hbd
      tok_stale := fun b hb hbd n g ht hE y hy hcl hc => by
        obtain ⟨b0, hb0, _, _, _, _, _, _, _, h8, _⟩ := back b hb
        have := h8 hbd; subst this
        obtain ⟨y0, hy0, h1, h2, h3, _⟩ := back y hy
        exact I.tok_stale b0 hb0 hbd n g ht hE y0 hy0 (by rw [h1]; exact hcl) ((cst_eq h2 h3 n).mp hc)
      rvdone_lt := fun b hb x hx => by
        obtain ⟨b0, hb0, _, _, _, _, h5, _⟩ := back b hb
        exact I.rvdone_lt b0 hb0 x (h5 ▸ hx)
      removed_lt := I.removed_lt
      pub_odd := I.pub_odd
      rd_inv := fun b hb hbd => by
        obtain ⟨b0, hb0, _, _, _, _, _, _, _, h8, _⟩ := back b hb
        have := h8 hbd; subst this
        exact I.rd_inv b0 hb0 hbd
      upd_ok := fun b hb u hu => by
        obtain ⟨b0, hb0, _, _, _, _, _, _, h7, _⟩ := back b hb
        exact I.upd_ok b0 hb0 u (h7 ▸ hu)
      up_begin := fun b hb x hx => by
        obtain ⟨b0, hb0, _, _, _, _, _, h6, _⟩ := back b hb
        exact I.up_begin b0 hb0 x (h6 ▸ hx)
      ng := fun b hb hbd => by
        obtain ⟨b0, hb0, _, _, _, _, _, _, _, h8, _⟩ := back b hb
        have := h8 hbd; subst this
        exact I.ng b0 hb0 hbd
      ch_le := fun b hb => by
        obtain ⟨b0, hb0, _, _, _, h4, _⟩ := back b hb
        rw [← h4]; exact I.ch_le b0 hb0
      ch := fun b hb hbd => by
        obtain ⟨b0, hb0, _, _, _, _, _, _, _, h8, _⟩ := back b hb
        have := h8 hbd; subst this
        exact I.ch b0 hb0 hbd }

/-- the invariant of C10 implies the weaker one -/
theorem ci_of_ainv {s : Sh} {th : List ATh} (I : AInv s th) : CI s th :=
  { len_egc := I.len_egc, len_data := I.len_data, len_pub := I.len_pub, len_cells := I.len_cells, wid_data := I.wid_data
    snap_shape := I.snap_shape, own_inj := I.own_inj, own_ne := I.own_ne
    life := fun a ha => (I.life a ha).1
    dead_ne := I.dead_ne, held_nodup := I.held_nodup, held_own := I.held_own, rv_dead := I.rv_dead, cst_odd := I.cst_odd
    ph_inv := fun a ha _ => by
      have := I.ph_inv a ha
      unfold phInv at this; unfold phInvC
      cases hp : a.ph <;> simp only [hp] at this ⊢ <;> first | exact this | exact this.2 | (intro h; exact (this h).2) | trivial
    tok_stale := fun a ha _ => I.tok_stale a ha
    rvdone_lt := I.rvdone_lt, removed_lt := I.removed_lt, pub_odd := I.pub_odd
    rd_inv := fun a ha _ => I.rd_inv a ha
    upd_ok := fun a ha u hu => ⟨(I.upd_ok a ha u hu).1, (I.upd_ok a ha u hu).2.1⟩
    up_begin := I.up_begin
    ng := fun a ha _ => I.ng a ha
    ch_le := I.ch_le
    ch := fun a ha _ => I.ch a ha }

end Iox2.Container.Crash

/- ---------------------------------------------------------------- part CL -/
namespace Iox2.Container.Crash
set_option linter.unusedSimpArgs false
set_option linter.unusedVariables false
open Iox2.Sched Iox2.Container Iox2.C10
open Iox2.RUIS (EMPTY LOCKG RSh Mode Out)

/-! ## refinement, keeping track of the parity of the generation the recover hook acts on -/

/-- the generation handed to the CAS of the success hook is odd (`rvHookDist` filters the even ones) -/
def hookWf (t : Th) : Prop := ∀ p d m n g, t.pc = some (.rvHookCas p d m n g) → g % 2 = 1

inductive HSteps (s : Sh) (a : ATh) : Sh → ATh → Prop
  | refl : HSteps s a s a
  | tail {s1 s2 : Sh} {a1 a2 : ATh} : HSteps s a s1 a1 → a1.dead = false → AStep s1 a1 s2 a2 → HookOdd a1 a2 → HSteps s a s2 a2

theorem hookOdd_of_rvDone {a a' : ATh} (h : a'.rvDone = a.rvDone) : HookOdd a a' := fun _ _ _ _ hne => absurd h hne

macro "axk" : tactic => `(tactic| first | rfl | (simp_all [abs, phase, pcPhase, ixPhase, ixPhaseRv, ixPhaseAdd, isActive, E, Cl, fin, updRec, RFrame, plainFin, pcWf, ixWf, ixWfRv, ixWfAdd, isLoopPc, nextCmd_eq, Container.start]; done))

theorem pre_step {s : Sh} {t t0 : Th} (hd : t.dead = false) (h : Pre s t t0) :
    t0 = t ∨ (AStep s (abs t) s (abs t0) ∧ t0.rvDone = t.rvDone) := by
  cases h with
  | same => exact .inl rfl
  | start c rest hpc hg hn hnd =>
    obtain ⟨hmem, hrest, hen⟩ := nextCmd_mem t t.todo c rest hn
    right
    constructor
    · cases c with
      | add v => apply AStep.sAdd <;> axk
      | remove pos m =>
        simp [enabled] at hen
        apply AStep.sRm pos <;> axk
      | update => apply AStep.sUp <;> axk
      | recover d m => apply AStep.sRv d <;> axk
      | die => exact absurd rfl hnd
    · cases c <;> simp [Container.start]

theorem norm_step {s : Sh} {t : Th} {pc : PC} (hw : ThWf s t) (hd : t.dead = false) (hpc : t.pc = some pc) :
    normalize s pc = pc ∨ AStep s (abs t) s (abs { t with pc := some (normalize s pc) }) := by
  cases pc with
  | addWord idx k v =>
    by_cases hk : k < s.width
    · exact .inl (by simp [normalize, hk])
    · right; simp only [normalize, hk, if_false]
      apply AStep.aNorm idx k v <;> axk
  | upWord i g k =>
    by_cases hk : k < s.width
    · exact .inl (by simp [normalize, hk])
    · right; simp only [normalize, hk, if_false]
      apply AStep.uNorm i g k <;> axk
  | rvWord p d m n g k =>
    by_cases hk : k < s.width
    · exact .inl (by simp [normalize, hk])
    · right; simp only [normalize, hk, if_false]
      apply AStep.rstay s.r <;> axk
  | _ => exact .inl (by simp [normalize])

theorem stepIx_not_hookcas (s : Sh) (t : Th) (p : RUIS.PC) (c : Ctx) (p' : RUIS.PC) (d : Nat) (m : Mode) (n g : Nat) :
    (stepIx s t p c).2.1.pc ≠ some (.rvHookCas p' d m n g) := by
  unfold stepIx
  simp only []
  repeat' split
  all_goals first
    | (simp; done)
    | (rw [(finish_facts ..).2.2.2.1]; simp)

/-- where a pc `rvHookCas` comes from, and what the hook steps do to `rvDone` -/
theorem stepPC_hook (s : Sh) (t : Th) (q : PC) :
    (∀ p d m n g, (stepPC s t q).2.1.pc = some (.rvHookCas p d m n g) → t.pc ≠ some (.rvHookCas p d m n g) → g % 2 = 1) ∧
    ((stepPC s t q).2.1.rvDone ≠ t.rvDone → ∀ d n g, pcPhase t.rvGen q = .rvTok d n g → ∃ p m, q = .rvHookCas p d m n g) := by
  cases q with
  | ix p c =>
    refine ⟨fun p' d m n g h => absurd h (stepIx_not_hookcas s t p c p' d m n g), fun _ d n g h => ?_⟩
    cases c <;> simp [pcPhase, ixPhase, ixPhaseAdd, ixPhaseRm, ixPhaseRv] at h
    all_goals (repeat' split at h) <;> simp at h
  | rvHookDist p d m n g =>
    simp only [stepPC]
    split
    · rename_i hodd
      exact ⟨fun p' d' m' n' g' h _ => by simp at h; rw [← h.2.2.2.2]; exact hodd, fun h => absurd rfl h⟩
    · exact ⟨fun p' d' m' n' g' h => by simp at h, fun h => absurd rfl h⟩
  | rvHookCas p d m n g =>
    simp only [stepPC]
    refine ⟨fun p' d' m' n' g' h => ?_, fun _ d' n' g' h => ?_⟩
    · split at h <;> simp at h
    · simp [pcPhase] at h; obtain ⟨rfl, rfl, rfl⟩ := h; exact ⟨p, m, rfl⟩
  | rvIncChange l =>
    simp only [stepPC]
    exact ⟨fun p' d' m' n' g' h => by rw [(finish_facts ..).2.2.2.1] at h; simp at h, fun _ d n g h => by simp [pcPhase] at h⟩
  | addRetCell idx =>
    simp only [stepPC]
    exact ⟨fun p' d' m' n' g' h => by rw [(finish_facts ..).2.2.2.1] at h; simp at h, fun _ d n g h => by simp [pcPhase] at h⟩
  | rmIncChange g idx l =>
    simp only [stepPC]
    exact ⟨fun p' d' m' n' g' h => by rw [(finish_facts ..).2.2.2.1] at h; simp at h, fun _ d n g h => by simp [pcPhase] at h⟩
  | upLdChange =>
    simp only [stepPC]
    refine ⟨fun p' d' m' n' g' h => ?_, fun _ d n g h => by simp [pcPhase] at h⟩
    split at h
    · rw [(finish_facts ..).2.2.2.1] at h; simp at h
    · simp at h
  | upEdist =>
    simp only [stepPC]
    refine ⟨fun p' d' m' n' g' h => ?_, fun _ d n g h => by simp [pcPhase] at h⟩
    split at h
    · simp at h
    · rw [(finish_facts ..).2.2.2.1] at h; simp at h
  | upLdEgc i =>
    simp only [stepPC, stepPC.upAfterGen, stepPC.upNext]
    refine ⟨fun p' d' m' n' g' h => ?_, fun _ d n g h => by simp [pcPhase] at h⟩
    repeat' split at h
    all_goals first
      | (simp at h; done)
      | (rw [(finish_facts ..).2.2.2.1] at h; simp at h)
  | upCas i g =>
    simp only [stepPC, stepPC.upAfterGen, stepPC.upNext]
    refine ⟨fun p' d' m' n' g' h => ?_, fun _ d n g h => by simp [pcPhase] at h⟩
    repeat' split at h
    all_goals first
      | (simp at h; done)
      | (rw [(finish_facts ..).2.2.2.1] at h; simp at h)
  | _ =>
    simp only [stepPC]
    refine ⟨fun p' d' m' n' g' h hne => ?_, fun _ d n g h => by simp [pcPhase] at h⟩
    repeat' split at h
    all_goals first
      | (simp at h; done)
      | exact absurd h hne

end Iox2.Container.Crash

/- ---------------------------------------------------------------- part CM -/
namespace Iox2.Container.Crash
set_option linter.unusedSimpArgs false
set_option linter.unusedVariables false
open Iox2.Sched Iox2.Container Iox2.C10
open Iox2.RUIS (EMPTY LOCKG RSh Mode Out)

theorem normalize_hookcas {s : Sh} {pc : PC} {p : RUIS.PC} {d : Nat} {m : Mode} {n g : Nat}
    (h : normalize s pc = .rvHookCas p d m n g) : pc = .rvHookCas p d m n g := by
  cases pc <;> simp [normalize] at h ⊢ <;> first | exact h | (split at h <;> simp at h)

theorem gate_pc {s : Sh} {t : Th} {r : Sh × Th × List Ev} (hpc : t.pc = none) (h : stepGate s t = some r)
    (p : RUIS.PC) (d : Nat) (m : Mode) (n g : Nat) : r.2.1.pc ≠ some (.rvHookCas p d m n g) := by
  unfold stepGate at h
  split at h
  · split at h
    · simp at h; subst h; simp
    · simp at h; subst h
      unfold settle
      simp only
      split <;> simp [hpc]
  · simp at h

theorem abs_pc_self {t : Th} {pc : PC} (h : t.pc = some pc) : ({ t with pc := some pc } : Th) = t := by
  cases t; simp_all

/-- **refinement with hook parity**: every step of the model is a short sequence of abstract steps of the
same thread, each of which advances a generation in the recover hook only if it is odd -/
theorem step_refines_hook {s s' : Sh} {t t' : Th} {evs : List Ev} (hw : ThWf s t) (hk : hookWf t)
    (h : step s t = some (s', t', evs)) :
    t.dead = false ∧ HSteps s (abs t) s' (abs t') ∧ ThWf s' t' ∧ hookWf t' := by
  obtain ⟨hd, _, _, hw'⟩ := step_refines hw h
  obtain ⟨_, t0, hpre, hst⟩ := step_cases h
  obtain ⟨_, hw0, hd0⟩ := pre_ok hw hd hpre
  have hda : ∀ u : Th, u.dead = false → (abs u).dead = false := fun u hu => by simpa [abs] using hu
  -- picking the next command
  have h1 : HSteps s (abs t) s (abs t0) := by
    rcases pre_step hd hpre with rfl | ⟨hs, hr⟩
    · exact .refl
    · exact .tail .refl (hda t hd) hs (hookOdd_of_rvDone (by simpa [abs] using hr))
  have hk0 : hookWf t0 := by
    cases hpre with
    | same => exact hk
    | start c rest hpc hg hn hnd =>
      intro p d m n g hh
      cases c <;> simp [Container.start, hpc] at hh
  refine ⟨hd, ?_⟩
  rcases hst with ⟨pc, hpc, hr⟩ | ⟨hpc, hgt⟩
  · obtain ⟨_, hq, hnn⟩ := norm_ok hw0 hd0 hpc
    have hg0 := (hw0.pc pc hpc).2
    have h3 := step_ok s t0 (normalize s pc) hd0 hg0 hw0 hq hnn
    rw [← hr] at h3
    -- the word loops fall through
    have h2 : HSteps s (abs t) s (abs { t0 with pc := some (normalize s pc) }) := by
      rcases norm_step hw0 hd0 hpc with hn | hs
      · rw [hn, abs_pc_self hpc]; exact h1
      · exact .tail h1 (hda t0 hd0) hs (hookOdd_of_rvDone (by simp [abs]))
    have hhook : HookOdd (abs { t0 with pc := some (normalize s pc) }) (abs t') := by
      intro d n g hph hne
      have hph' : pcPhase t0.rvGen (normalize s pc) = .rvTok d n g := by simpa [abs, phase] using hph
      have hne' : (stepPC s t0 (normalize s pc)).2.1.rvDone ≠ t0.rvDone := by
        rw [← hr]; simpa [abs] using hne
      obtain ⟨p, m, hq'⟩ := (stepPC_hook s t0 (normalize s pc)).2 hne' d n g hph'
      exact hk0 p d m n g (by rw [hpc, normalize_hookcas hq'])
    refine ⟨.tail h2 (by simpa [abs] using hd0) h3.1 hhook, hw', ?_⟩
    intro p d m n g hh
    by_cases e : t0.pc = some (.rvHookCas p d m n g)
    · exact hk0 p d m n g e
    · have := (stepPC_hook s t0 (normalize s pc)).1 p d m n g
      rw [← hr] at this
      exact this hh e
  · have h3 := gate_ok hw0 hd0 hpc hgt
    have hhook : HookOdd (abs t0) (abs t') := by
      intro d n g hph _
      simp only [abs, phase, hpc] at hph
      split at hph <;> simp at hph
    exact ⟨.tail h1 (hda t0 hd0) h3.1 hhook, hw', fun p d m n g hh => absurd hh (gate_pc hpc hgt p d m n g)⟩

/-- the invariant along such a sequence -/
theorem ci_steps {s s' : Sh} {th : List ATh} {i : Nat} {a a' : ATh} (hI : CI s th) (hi : th[i]? = some a)
    (h : HSteps s a s' a') : CI s' (th.set i a') ∧ (th.set i a')[i]? = some a' := by
  have hlt : i < th.length := by
    rcases Nat.lt_or_ge i th.length with h | h
    · exact h
    · rw [List.getElem?_eq_none h] at hi; cases hi
  induction h with
  | refl =>
    have : th.set i a = th := by
      apply List.ext_getElem? ; intro j
      rw [List.getElem?_set]; split
      · rename_i e; subst e; simp [hlt]
        have := List.getElem?_eq_getElem hlt; rw [hi] at this; exact (Option.some.inj this)
      · rfl
    rw [this]; exact ⟨hI, hi⟩
  | tail _ hd hst hh ih =>
    rename_i s1 s2 a1 a2 _
    have := ci_step (s := s1) (s' := s2) (th := th.set i a1) (i := i) (a := a1) (a' := a2) ⟨ih.1, ih.2, hd, hst, hh⟩
    rw [List.set_set] at this
    exact ⟨this, by simp [List.getElem?_set, hlt]⟩

theorem hsteps_const {s s' : Sh} {a a' : ATh} (h : HSteps s a s' a') : s'.width = s.width ∧ s'.r.cap = s.r.cap := by
  induction h with
  | refl => exact ⟨rfl, rfl⟩
  | tail _ _ hst _ ih => have := eff_const hst; exact ⟨this.1.trans ih.1, this.2.1.trans ih.2⟩

end Iox2.Container.Crash

/- ---------------------------------------------------------------- part CN -/
namespace Iox2.Container.Crash
set_option linter.unusedSimpArgs false
set_option linter.unusedVariables false
open Iox2.Sched Iox2.Container Iox2.C10
open Iox2.RUIS (EMPTY LOCKG RSh Mode Out)

/-! ## the scan of a recovery: cells already passed do not carry the dead owner's id -/

def below (r : RSh) (d n : Nat) : Prop := ∀ k, k < n → r.cells.getD k EMPTY ≠ d

def klScan (r : RSh) : RUIS.KL → Prop
  | .recover n _ d => below r d (n + 1)
  | .release => True
def kbScan (r : RSh) : RUIS.KB → Prop
  | .lock kl => klScan r kl
  | .borrowed => True
def scanR (r : RSh) : RUIS.PC → Prop
  | .rcLoad _ d n | .rcCas _ d n _ => below r d n
  | .rcFinal d => below r d r.cap
  | .incLd k | .incCas k _ => match k with | .recov n _ d => below r d (n + 1) | .bg _ _ kb => kbScan r kb | _ => True
  | .lkIsLocked kl | .lkCas kl _ => klScan r kl
  | .bgDist kb | .bgLdGen kb | .bgCell kb _ _ _ => kbScan r kb
  | _ => True

theorem below_succ {r : RSh} {d n : Nat} (h : below r d n) (hn : r.cells.getD n EMPTY ≠ d) : below r d (n + 1) := by
  intro k hk
  rcases Nat.lt_succ_iff_lt_or_eq.mp hk with h1 | rfl
  · exact h k h1
  · exact hn
theorem below_mono {r : RSh} {d n m : Nat} (h : below r d n) (hm : m ≤ n) : below r d m := fun k hk => h k (by omega)
theorem below_gen {r : RSh} {d n g : Nat} (h : below r d n) : below { r with gen := g } d n := h
theorem below_set {r : RSh} {d n : Nat} (h : below r d n) (hd : d ≠ EMPTY) : below { r with cells := r.cells.set n EMPTY } d (n + 1) := by
  intro k hk
  show (r.cells.set n EMPTY).getD k EMPTY ≠ d
  rw [getD_set']
  split
  · exact fun e => hd e.symm
  · rename_i h2
    by_cases e : n = k
    · subst e
      have : ¬ n < r.cells.length := fun h3 => h2 ⟨rfl, h3⟩
      rw [List.getD_eq_getElem?_getD, List.getElem?_eq_none (by omega)]
      exact fun e => hd e.symm
    · exact h k (by omega)

theorem scan_next {r : RSh} {d n : Nat} (m : Mode) (h : below r d (n + 1)) :
    scanR r (if n + 1 < r.cap then .rcLoad m d (n + 1) else .rcFinal d) := by
  split
  · exact h
  · exact below_mono h (by omega)

theorem stepOp_scan (r : RSh) (d : Nat) (m : Mode) (p : RUIS.PC) (hw : ixWfRv d m p) (hd : d ≠ EMPTY) (hs : scanR r p) :
    ∀ p', (RUIS.stepOp r p).next = .inl p' → scanR (RUIS.stepOp r p).sh p' := by
  intro p' hn
  cases p with
  | rcIsLocked m' d' =>
    simp [RUIS.stepOp] at hn ⊢; split at hn <;> simp at hn
    subst hn; simp_all [scanR]
  | rcDist m' d' =>
    simp [ixWfRv] at hw; obtain ⟨rfl, rfl⟩ := hw
    simp [RUIS.stepOp] at hn ⊢; subst hn
    split
    · simp [scanR, below]
    · rename_i h; simp [scanR, below]; omega
  | rcLoad m' d' n =>
    simp [ixWfRv] at hw; obtain ⟨rfl, rfl⟩ := hw
    simp only [RUIS.stepOp] at hn ⊢
    split at hn
    · rename_i h; simp at hn; subst hn; rw [if_pos h]; exact hs
    · rename_i h; simp at hn; subst hn; rw [if_neg h]
      refine scan_next m' (below_succ hs ?_)
      intro e; apply h; exact ⟨by rw [e]; exact hd, e⟩
  | rcCas m' d' n o =>
    simp [ixWfRv] at hw; obtain ⟨rfl, rfl, rfl⟩ := hw
    simp only [RUIS.stepOp] at hn ⊢
    split at hn
    · rename_i h; simp at hn; subst hn; rw [if_pos h]; exact below_set hs hd
    · rename_i h; simp at hn; subst hn; rw [if_neg h]
      exact scan_next m' (below_succ hs h)
  | rcFinal d' => simp [RUIS.stepOp] at hn
  | incLd k =>
    cases k with
    | recov n' m' d' =>
      simp [ixWfRv] at hw; obtain ⟨rfl, rfl⟩ := hw
      have hb : below r d' (n' + 1) := hs
      cases m' <;> simp [RUIS.stepOp, RUIS.finishInc] at hn ⊢ <;> (repeat' split at hn) <;> simp at hn <;> subst hn <;>
        simp_all [scanR, klScan, kbScan] <;> first | exact hb | exact scan_next _ hb | exact (fun k hk => hb k (by omega))
    | bg g0 count kb =>
      cases kb with
      | borrowed => simp [ixWfRv, kbWf] at hw
      | lock kl =>
        cases kl with
        | release => simp [ixWfRv, kbWf, klWf] at hw
        | recover n' m' d' =>
          simp [ixWfRv, kbWf, klWf] at hw; obtain ⟨rfl, rfl⟩ := hw
          have hb : below r d' (n' + 1) := hs
          simp [RUIS.stepOp, RUIS.finishInc, RUIS.finishBg, RUIS.finishLock] at hn ⊢
          (repeat' split at hn) <;> simp at hn <;> subst hn <;>
            simp_all [scanR, klScan, kbScan] <;> first | exact hb | exact scan_next _ hb | exact (fun k hk => hb k (by omega))
    | _ => simp [ixWfRv] at hw
  | incCas k g' =>
    cases k with
    | recov n' m' d' =>
      simp [ixWfRv] at hw; obtain ⟨rfl, rfl, hg⟩ := hw
      have hb : below r d' (n' + 1) := hs
      cases m' <;> simp [RUIS.stepOp, RUIS.finishInc] at hn ⊢ <;> (repeat' split at hn) <;> simp at hn <;> subst hn <;>
        simp_all [scanR, klScan, kbScan] <;> first | exact hb | exact scan_next _ hb | exact (fun k hk => hb k (by omega)) | exact scan_next (r := { r with gen := _ }) _ hb
    | bg g0 count kb =>
      cases kb with
      | borrowed => simp [ixWfRv, kbWf] at hw
      | lock kl =>
        cases kl with
        | release => simp [ixWfRv, kbWf, klWf] at hw
        | recover n' m' d' =>
          simp [ixWfRv, kbWf, klWf] at hw; obtain ⟨⟨rfl, rfl⟩, hg⟩ := hw
          have hb : below r d' (n' + 1) := hs
          simp [RUIS.stepOp, RUIS.finishInc, RUIS.finishBg, RUIS.finishLock] at hn ⊢
          (repeat' split at hn) <;> simp at hn <;> subst hn <;>
            simp_all [scanR, klScan, kbScan] <;> first | exact hb | exact scan_next _ hb | exact (fun k hk => hb k (by omega)) | exact scan_next (r := { r with gen := _ }) _ hb
    | _ => simp [ixWfRv] at hw
  | lkIsLocked kl =>
    cases kl with
    | release => simp [ixWfRv, klWf] at hw
    | recover n' m' d' =>
      simp [ixWfRv, klWf] at hw; obtain ⟨rfl, rfl⟩ := hw
      have hb : below r d' (n' + 1) := hs
      simp [RUIS.stepOp, RUIS.finishLock] at hn ⊢
      (repeat' split at hn) <;> simp at hn <;> subst hn <;>
        simp_all [scanR, klScan, kbScan] <;> first | exact hb | exact scan_next _ hb | exact (fun k hk => hb k (by omega))
  | lkCas kl g' =>
    cases kl with
    | release => simp [ixWfRv, klWf] at hw
    | recover n' m' d' =>
      simp [ixWfRv, klWf] at hw; obtain ⟨rfl, rfl⟩ := hw
      have hb : below r d' (n' + 1) := hs
      simp [RUIS.stepOp, RUIS.finishLock] at hn ⊢
      (repeat' split at hn) <;> simp at hn <;> subst hn <;>
        simp_all [scanR, klScan, kbScan] <;> first | exact hb | exact scan_next _ hb | exact (fun k hk => hb k (by omega)) | exact scan_next (r := { r with gen := _ }) _ hb
  | bgDist kb => simp [RUIS.stepOp] at hn ⊢; subst hn; exact hs
  | bgLdGen kb =>
    cases kb with
    | borrowed => simp [ixWfRv, kbWf] at hw
    | lock kl =>
      cases kl with
      | release => simp [ixWfRv, kbWf, klWf] at hw
      | recover n' m' d' =>
        simp [ixWfRv, kbWf, klWf] at hw; obtain ⟨rfl, rfl⟩ := hw
        have hb : below r d' (n' + 1) := hs
        simp [RUIS.stepOp, RUIS.finishBg, RUIS.finishLock, RUIS.bgAfterScan] at hn ⊢
        (repeat' split at hn) <;> simp at hn <;> subst hn <;>
          simp_all [scanR, klScan, kbScan] <;> first | exact hb | exact scan_next _ hb | exact (fun k hk => hb k (by omega))
  | bgCell kb g0 n' count =>
    simp [RUIS.stepOp, RUIS.bgAfterScan] at hn ⊢
    (repeat' split at hn) <;> (try simp at hn) <;> subst hn <;> first | exact hs | simpa [scanR] using hs
  | _ => simp [ixWfRv] at hw

/-- the index-set pc whose scan progress a recovery pc carries -/
def scanPc : PC → Option RUIS.PC
  | .ix p c => match c with | .recover _ _ => some p | _ => none
  | .rvEdist p .. | .rvLdEgc p .. | .rvDdist p .. | .rvCell p .. | .rvWord p .. | .rvCas p .. | .rvHookDist p .. | .rvHookCas p ..
  | .rvSkipDist p .. => some p
  | _ => none

theorem stepIx_scan (s : Sh) (t : Th) (p : RUIS.PC) (c : Ctx) (q' : PC) (p' : RUIS.PC)
    (h1 : (stepIx s t p c).2.1.pc = some q') (h2 : scanPc q' = some p') :
    (∃ d m, c = .recover d m) ∧ (RUIS.stepOp s.r p).next = .inl p' := by
  unfold stepIx at h1
  generalize RUIS.stepOp s.r p = o at h1 ⊢
  simp only [] at h1
  repeat' split at h1
  all_goals first
    | (rw [(finish_facts ..).2.2.2.1] at h1; simp at h1; done)
    | (simp at h1; subst h1; simp [scanPc] at h2; done)
    | (simp at h1; subst h1; simp [scanPc] at h2; subst h2; simp_all; done)
    | (simp at h1; subst h1; simp only [scanPc] at h2; split at h2 <;> simp at h2; subst h2; simp_all; done)

theorem finish_r (s : Sh) (t : Th) (evs : List Ev) (ret : String) :
    (finish s t evs ret).1.r.cells = s.r.cells ∧ (finish s t evs ret).1.r.cap = s.r.cap ∧
    ∀ d ∈ s.r.deadOwners, d ∈ (finish s t evs ret).1.r.deadOwners := by
  unfold finish settle retire
  simp only
  split
  · split <;> simp <;> intro d hd <;> exact .inr hd
  · split <;> simp

theorem stepIx_r (s : Sh) (t : Th) (p : RUIS.PC) (c : Ctx) :
    (stepIx s t p c).1.r.cells = (RUIS.stepOp s.r p).sh.cells ∧ (stepIx s t p c).1.r.cap = (RUIS.stepOp s.r p).sh.cap ∧
    ∀ d ∈ (RUIS.stepOp s.r p).sh.deadOwners, d ∈ (stepIx s t p c).1.r.deadOwners := by
  unfold stepIx
  generalize RUIS.stepOp s.r p = o
  simp only []
  repeat' split
  all_goals first
    | exact ⟨rfl, rfl, fun _ h => h⟩
    | exact finish_r ..

theorem scanR_congr {r r' : RSh} (h1 : r'.cells = r.cells) (h2 : r'.cap = r.cap) (p : RUIS.PC) (h : scanR r p) : scanR r' p := by
  have : r' = { r with gen := r'.gen, deadOwners := r'.deadOwners } := by cases r'; cases r; simp_all
  rw [this]; exact h

end Iox2.Container.Crash

/- ---------------------------------------------------------------- part CO -/
namespace Iox2.Container.Crash
set_option linter.unusedSimpArgs false
set_option linter.unusedVariables false
open Iox2.Sched Iox2.Container Iox2.C10
open Iox2.RUIS (EMPTY LOCKG RSh Mode Out)

/-- the scan progress recorded in a recovery pc is true of the cells, and it is a recovery for a dead owner -/
def ScanP (s : Sh) (q : PC) : Prop :=
  ∀ p, scanPc q = some p → ∃ d m, ixWfRv d m p ∧ d ∈ s.r.deadOwners ∧ scanR s.r p
def ScanOK (s : Sh) (t : Th) : Prop := ∀ q, t.pc = some q → ScanP s q

theorem next_wf (r : RSh) (d : Nat) (m : Mode) (p p' : RUIS.PC) (hw : ixWfRv d m p) (hn : (RUIS.stepOp r p).next = .inl p') :
    ixWfRv d m p' ∧ (RUIS.stepOp r p).sh.deadOwners = r.deadOwners ∧ (RUIS.stepOp r p).sh.cap = r.cap := by
  have h := stepOp_rv r d m 0 p hw
  unfold RvOut at h
  rcases h with ⟨p2, n, _, hn2, _, hw', _, hsh, _⟩ | ⟨p2, _, _, hn2, _, hw', _, hfr, _⟩ | ⟨n, _, hn2, _, hsh, _⟩ |
    ⟨n, _, _, hn2, _, hsh⟩ | ⟨n, p2, _, _, hn2, _, hw', _, hsh⟩ | ⟨l, hn2, _⟩
  · rw [hn] at hn2; cases hn2; exact ⟨hw', by rw [hsh], by rw [hsh]⟩
  · rw [hn] at hn2; cases hn2; exact ⟨hw', hfr.2.2.1, hfr.1⟩
  · rw [hn] at hn2; cases hn2; exact ⟨by simp [ixWfRv], by rw [hsh], by rw [hsh]⟩
  · rw [hn] at hn2; cases hn2; exact ⟨by simp [ixWfRv], by rw [hsh], by rw [hsh]⟩
  · rw [hn] at hn2; cases hn2; exact ⟨hw', by rw [hsh], by rw [hsh]⟩
  · rw [hn] at hn2; cases hn2

theorem stepPC_scan (s : Sh) (t : Th) (q : PC) (hsc : ScanP s q) (hdne : ∀ d ∈ s.r.deadOwners, d ≠ EMPTY) (hnorm : normalize s q = q) :
    ScanOK (stepPC s t q).1 (stepPC s t q).2.1 := by
  intro q' hq' p' hp'
  cases q with
  | ix p c =>
    simp only [stepPC] at hq' ⊢
    obtain ⟨⟨d0, m0, rfl⟩, hn⟩ := stepIx_scan s t p _ q' p' hq' hp'
    obtain ⟨d, m, hw, hd, hs⟩ := hsc p rfl
    obtain ⟨hw', hdo, hcap⟩ := next_wf s.r d m p p' hw hn
    obtain ⟨h1, h2, h3⟩ := stepIx_r s t p (.recover d0 m0)
    exact ⟨d, m, hw', h3 d (hdo ▸ hd), scanR_congr h1 h2 p' (stepOp_scan s.r d m p hw (hdne d hd) hs p' hn)⟩
  | addWord idx k v =>
    simp only [stepPC] at hq'; split at hq'
    · simp at hq'; subst hq'; simp [scanPc] at hp'
    · simp [normalize] at hnorm; omega
  | upWord i g k =>
    simp only [stepPC] at hq'; split at hq'
    · simp at hq'; subst hq'; simp [scanPc] at hp'
    · simp [normalize] at hnorm; omega
  | rvWord p d m n g k =>
    simp only [stepPC] at hq' ⊢; split at hq'
    · simp at hq'; subst hq'; simp [scanPc] at hp'; subst hp'; rename_i h; simp only [h, if_true]; exact hsc p rfl
    · simp [normalize] at hnorm; omega
  | upLdEgc i =>
    simp only [stepPC, stepPC.upAfterGen, stepPC.upNext] at hq'
    repeat' split at hq'
    all_goals first
      | (rw [(finish_facts ..).2.2.2.1] at hq'; simp at hq'; done)
      | (simp at hq'; subst hq'; simp [scanPc] at hp'; done)
  | upCas i g =>
    simp only [stepPC, stepPC.upAfterGen, stepPC.upNext] at hq'
    repeat' split at hq'
    all_goals first
      | (rw [(finish_facts ..).2.2.2.1] at hq'; simp at hq'; done)
      | (simp at hq'; subst hq'; simp [scanPc] at hp'; done)
  | _ =>
    simp only [stepPC] at hq' ⊢
    repeat' split at hq'
    all_goals first
      | (rw [(finish_facts ..).2.2.2.1] at hq'; simp at hq'; done)
      | (simp at hq'; subst hq'; simp [scanPc] at hp'; done)
      | (simp at hq'; subst hq'; simp [scanPc] at hp'; subst hp'; simp_all [ScanP, scanPc]; done)

end Iox2.Container.Crash

/- ---------------------------------------------------------------- part CP -/
namespace Iox2.Container.Crash
set_option linter.unusedSimpArgs false
set_option linter.unusedVariables false
open Iox2.Sched Iox2.Container Iox2.C10
open Iox2.RUIS (EMPTY LOCKG RSh Mode Out)

/-- the abstract view of a thread that may have been killed -/
def absC (ct : CTh Th) : ATh := { abs ct.inner with dead := ct.dead || ct.inner.dead }

theorem cstep_cases {c c' : Cfg Sh (CTh Th)} {i : Nat} {evs : List Ev} (h : csys.stepAt c i = some (c', evs)) :
    ∃ ct, c.th[i]? = some ct ∧ ct.dead = false ∧
      ((c' = { sh := killSh c.sh ct.inner.owner, th := c.th.set i { ct with dead := true, fuse := none } }) ∨
       (∃ s' t' f', step c.sh ct.inner = some (s', t', evs) ∧ c' = { sh := s', th := c.th.set i { ct with inner := t', fuse := f' } })) := by
  unfold Sys.stepAt at h
  split at h
  · simp at h
  · rename_i ct hct
    refine ⟨ct, hct, ?_⟩
    simp only [csys, Sys.withCrash] at h
    split at h
    · simp at h
    · rename_i hstep
      split at hstep
      · simp at hstep
      · rename_i hdead
        simp at h
        obtain ⟨rfl, rfl⟩ := h
        refine ⟨by simpa using hdead, ?_⟩
        split at hstep
        · simp at hstep
          obtain ⟨rfl, rfl, _⟩ := hstep
          exact .inl rfl
        · split at hstep
          · simp at hstep
          · rename_i s' t' evs' hst
            simp at hstep
            obtain ⟨rfl, rfl, rfl⟩ := hstep
            exact .inr ⟨_, _, _, hst, rfl⟩

theorem below_frame {r r' : RSh} {d n : Nat} (h : below r d n) (hb : ∀ k, r'.cells.getD k EMPTY = d → r.cells.getD k EMPTY = d) :
    below r' d n := fun k hk e => h k hk (hb k e)

theorem scanR_frame {r r' : RSh} {d : Nat} {m : Mode} {p : RUIS.PC} (hw : ixWfRv d m p) (h : scanR r p) (hc : r'.cap = r.cap)
    (hb : ∀ k, r'.cells.getD k EMPTY = d → r.cells.getD k EMPTY = d) : scanR r' p := by
  cases p with
  | rcLoad m' d' n => simp [ixWfRv] at hw; obtain ⟨rfl, rfl⟩ := hw; exact below_frame h hb
  | rcCas m' d' n o => simp [ixWfRv] at hw; obtain ⟨rfl, rfl, rfl⟩ := hw; exact below_frame h hb
  | rcFinal d' => simp [ixWfRv] at hw; subst hw; simp only [scanR]; rw [hc]; exact below_frame h hb
  | incLd k =>
    cases k with
    | recov n' m' d' => simp [ixWfRv] at hw; obtain ⟨rfl, rfl⟩ := hw; exact below_frame h hb
    | bg g0 count kb =>
      cases kb with
      | borrowed => trivial
      | lock kl =>
        cases kl with
        | release => trivial
        | recover n' m' d' => simp [ixWfRv, kbWf, klWf] at hw; obtain ⟨rfl, rfl⟩ := hw; exact below_frame h hb
    | _ => trivial
  | incCas k g' =>
    cases k with
    | recov n' m' d' => simp [ixWfRv] at hw; obtain ⟨rfl, rfl, _⟩ := hw; exact below_frame h hb
    | bg g0 count kb =>
      cases kb with
      | borrowed => trivial
      | lock kl =>
        cases kl with
        | release => trivial
        | recover n' m' d' => simp [ixWfRv, kbWf, klWf] at hw; obtain ⟨⟨rfl, rfl⟩, _⟩ := hw; exact below_frame h hb
    | _ => trivial
  | lkIsLocked kl =>
    cases kl with
    | release => trivial
    | recover n' m' d' => simp [ixWfRv, klWf] at hw; obtain ⟨rfl, rfl⟩ := hw; exact below_frame h hb
  | lkCas kl g' =>
    cases kl with
    | release => trivial
    | recover n' m' d' => simp [ixWfRv, klWf] at hw; obtain ⟨rfl, rfl⟩ := hw; exact below_frame h hb
  | bgDist kb | bgLdGen kb | bgCell kb _ _ _ =>
    cases kb with
    | borrowed => trivial
    | lock kl =>
      cases kl with
      | release => trivial
      | recover n' m' d' => simp [ixWfRv, kbWf, klWf] at hw; obtain ⟨rfl, rfl⟩ := hw; exact below_frame h hb
  | _ => trivial

/-- other threads' scan facts survive a step that does not hand a cell to a dead owner -/
theorem scanOK_frame {s s' : Sh} {u : Th} (h : ScanOK s u) (hc : s'.r.cap = s.r.cap)
    (hdo : ∀ d ∈ s.r.deadOwners, d ∈ s'.r.deadOwners)
    (hb : ∀ d ∈ s.r.deadOwners, ∀ k, Cl s' k = d → Cl s k = d) : ScanOK s' u := by
  intro q hq p hp
  obtain ⟨d, m, hw, hd, hs⟩ := h q hq p hp
  exact ⟨d, m, hw, hdo d hd, scanR_frame hw hs hc (hb d hd)⟩

/-- cells carrying a dead owner's id never appear along a sequence of steps -/
theorem hsteps_cl_back {s s' : Sh} {th : List ATh} {i : Nat} {a a' : ATh} (hI : CI s th) (hi : th[i]? = some a)
    (h : HSteps s a s' a') :
    (∀ d ∈ s.r.deadOwners, d ∈ s'.r.deadOwners) ∧ (∀ d ∈ s.r.deadOwners, ∀ k, Cl s' k = d → Cl s k = d) := by
  induction h with
  | refl => exact ⟨fun _ h => h, fun _ _ _ h => h⟩
  | tail hpre hd hst hh ih =>
    rename_i s1 s2 a1 a2
    obtain ⟨hI1, hi1⟩ := ci_steps hI hi hpre
    have c : CCtx s1 (th.set i a1) i a1 s2 a2 := ⟨hI1, hi1, hd, hst, hh⟩
    exact ⟨fun d hd => dead_mono hst (ih.1 d hd), fun d hd k hk => ih.2 d hd k (ccl_dead_back c (ih.1 d hd) hk)⟩

end Iox2.Container.Crash

/- ---------------------------------------------------------------- part CQ -/
namespace Iox2.Container.Crash
set_option linter.unusedSimpArgs false
set_option linter.unusedVariables false
open Iox2.Sched Iox2.Container Iox2.C10
open Iox2.RUIS (EMPTY LOCKG RSh Mode Out)

/-- what holds of every configuration of the model with crashes -/
def KInv (c : Cfg Sh (CTh Th)) : Prop :=
  (∀ ct ∈ c.th, ThWf c.sh ct.inner ∧ hookWf ct.inner ∧ ScanOK c.sh ct.inner) ∧ CI c.sh (c.th.map absC)

theorem absC_live {ct : CTh Th} (h : ct.dead = false) : absC ct = abs ct.inner := by
  simp [absC, h, abs]

theorem thwf_kill {s : Sh} {t : Th} (o : Nat) (h : ThWf s t) : ThWf (killSh s o) t := thwf_sh h rfl rfl

theorem scan_start {s : Sh} {t t0 : Th} (h : Pre s t t0) (hs : ScanOK s t) : ScanOK s t0 := by
  cases h with
  | same => exact hs
  | start c rest hpc hg hn hnd =>
    intro q hq p hp
    cases c <;> simp [Container.start, hpc] at hq <;> subst hq <;> simp [scanPc] at hp

theorem scan_gate {s : Sh} {t : Th} {r : Sh × Th × List Ev} (hpc : t.pc = none) (h : stepGate s t = some r) : ScanOK r.1 r.2.1 := by
  unfold stepGate at h
  split at h
  · split at h
    · rename_i d m _ hd
      simp at h; subst h
      intro q hq p hp
      simp at hq; subst hq; simp [scanPc] at hp; subst hp
      exact ⟨d, m, by simp [ixWfRv], hd, trivial⟩
    · simp at h; subst h
      unfold settle
      simp only
      intro q hq
      split at hq <;> simp [hpc] at hq
  · simp at h

theorem scan_norm {s : Sh} {q : PC} (h : ScanP s q) : ScanP s (normalize s q) := by
  cases q <;> simp only [normalize] <;> first | exact h | (split <;> first | exact h | (intro p hp; simp [scanPc] at hp) | skip)

theorem kinv_step {c c' : Cfg Sh (CTh Th)} {i : Nat} {evs : List Ev} (hI : KInv c) (hs : csys.stepAt c i = some (c', evs)) : KInv c' := by
  obtain ⟨ct, hi, hdead, hcase⟩ := cstep_cases hs
  have hmem : ct ∈ c.th := List.mem_of_getElem? hi
  obtain ⟨hwt, hkt, hst⟩ := hI.1 ct hmem
  have hi' : (c.th.map absC)[i]? = some (absC ct) := by simp [hi]
  rcases hcase with rfl | ⟨s', t', f', hstep, rfl⟩
  · -- the thread is killed
    constructor
    · intro u hu
      obtain ⟨j, hj⟩ := List.getElem?_of_mem hu
      simp only [List.getElem?_set] at hj
      have key : ∀ v : CTh Th, v ∈ c.th → ThWf (killSh c.sh ct.inner.owner) v.inner ∧ hookWf v.inner ∧ ScanOK (killSh c.sh ct.inner.owner) v.inner := by
        intro v hv
        obtain ⟨h1, h2, h3⟩ := hI.1 v hv
        exact ⟨thwf_kill _ h1, h2, scanOK_frame h3 rfl (fun d hd => List.mem_cons_of_mem _ hd) (fun _ _ _ h => h)⟩
      split at hj
      · split at hj
        · cases hj; exact key ct hmem
        · cases hj
      · exact key u (List.mem_of_getElem? hj)
    · have := ci_crash hI.2 hi'
      show CI (killSh c.sh ct.inner.owner) ((c.th.set i { ct with dead := true, fuse := none }).map absC)
      rw [List.map_set]; exact this
  · -- an ordinary step of the model
    obtain ⟨hd, hsteps, hwt', hkt'⟩ := step_refines_hook hwt hkt hstep
    have hc := hsteps_const hsteps
    have hi'' : (c.th.map absC)[i]? = some (abs ct.inner) := by rw [hi', absC_live hdead]
    obtain ⟨hci, _⟩ := ci_steps hI.2 hi'' hsteps
    obtain ⟨hdo, hback⟩ := hsteps_cl_back hI.2 hi'' hsteps
    have hscan : ScanOK s' t' := by
      obtain ⟨_, t0, hpre, hst0⟩ := step_cases hstep
      have hs0 := scan_start hpre hst
      rcases hst0 with ⟨pc, hpc, hr⟩ | ⟨hpc, hg⟩
      · have := stepPC_scan c.sh t0 (normalize c.sh pc) (scan_norm (hs0 pc hpc)) hI.2.dead_ne
          (norm_ok (pre_ok hwt hd hpre).2.1 (pre_ok hwt hd hpre).2.2 hpc).2.2
        rw [← hr] at this; exact this
      · exact scan_gate hpc hg
    constructor
    · intro u hu
      obtain ⟨j, hj⟩ := List.getElem?_of_mem hu
      simp only [List.getElem?_set] at hj
      split at hj
      · split at hj
        · cases hj; exact ⟨hwt', hkt', hscan⟩
        · cases hj
      · obtain ⟨h1, h2, h3⟩ := hI.1 u (List.mem_of_getElem? hj)
        exact ⟨thwf_sh h1 hc.1 hc.2, h2, scanOK_frame h3 hc.2 hdo hback⟩
    · have e : abs t' = absC { ct with inner := t', fuse := f' } := by simp [absC, hdead, abs]
      rw [e] at hci
      simpa [List.map_set] using hci

end Iox2.Container.Crash

/- ---------------------------------------------------------------- part CR -/
namespace Iox2.Container.Crash
set_option linter.unusedSimpArgs false
set_option linter.unusedVariables false
open Iox2.Sched Iox2.Container Iox2.C10
open Iox2.RUIS (EMPTY LOCKG RSh Mode Out)

theorem mk_th (cap width : Nat) (owners : List Nat) (progs : List (List Cmd)) :
    (mkCfg cap width owners progs).th = ((owners.zip progs).map fun (o, p) => Th.init o cap width p).map settledT := by
  obtain ⟨hth, _⟩ := fold_spec ((owners.zip progs).map fun (o, p) => Th.init o cap width p) { sh := Sh.init cap width, th := [] }
  show (((owners.zip progs).map fun (o, p) => Th.init o cap width p).foldl foldF { sh := Sh.init cap width, th := [] }).th = _
  rw [hth]; simp

theorem zip_map_fst_of_le {α β} (l1 : List α) (l2 : List β) (h : l1.length ≤ l2.length) : (l1.zip l2).map Prod.fst = l1 := by
  induction l1 generalizing l2 with
  | nil => simp
  | cons x xs ih =>
    cases l2 with
    | nil => simp at h
    | cons y ys => simp at h; simp [ih ys h]

theorem kinv_init {cap width : Nat} {owners : List Nat} {progs : List (List Cmd)} {fuses : List (Option Nat)}
    (hwf : WF width owners progs) (hl : fuses.length = owners.length) : KInv (cinit cap width owners progs fuses) := by
  obtain ⟨hw, hA⟩ := cinv_init cap width owners progs hwf
  have hlen : (mkCfg cap width owners progs).th.length = owners.length := by
    rw [mk_th]; simp [hwf.2.2.1]
  have hpc : ∀ t ∈ (mkCfg cap width owners progs).th, t.pc = none := by
    intro t ht
    rw [mk_th] at ht
    simp only [List.mem_map] at ht
    obtain ⟨t0, ⟨⟨o, p⟩, _, rfl⟩, rfl⟩ := ht
    unfold settledT; split <;> rfl
  have hmap : ((cinit cap width owners progs fuses).th.map absC) = (mkCfg cap width owners progs).th.map abs := by
    have h1 : (cinit cap width owners progs fuses).th.map absC = (((mkCfg cap width owners progs).th.zip fuses).map Prod.fst).map abs := by
      simp only [cinit, List.map_map]; apply List.map_congr_left; intro x _; simp [absC, abs]
    rw [h1, zip_map_fst_of_le _ _ (by omega)]
  constructor
  · intro ct hct
    simp only [cinit, List.mem_map] at hct
    obtain ⟨⟨t, f⟩, htf, rfl⟩ := hct
    have ht := (List.of_mem_zip htf).1
    refine ⟨hw t ht, fun p d m n g h => ?_, fun q hq => ?_⟩
    · simp only at h; rw [hpc t ht] at h; cases h
    · simp only at hq; rw [hpc t ht] at hq; cases hq
  · rw [hmap]; exact ci_of_ainv hA

theorem kinv_reach {cap width : Nat} {owners : List Nat} {progs : List (List Cmd)} {fuses : List (Option Nat)}
    (hwf : WF width owners progs) (hl : fuses.length = owners.length)
    {c : Cfg Sh (CTh Th)} (h : Reachable csys (cinit cap width owners progs fuses) c) : KInv c :=
  Reachable.inv KInv (kinv_init hwf hl) (fun _ _ _ _ hI hs => kinv_step hI hs) c h

variable {cap width : Nat} {owners : List Nat} {progs : List (List Cmd)} {fuses : List (Option Nat)}

theorem cupd_facts (hwf : WF width owners progs) (hl : fuses.length = owners.length)
    (c : Cfg Sh (CTh Th)) (h : Reachable csys (cinit cap width owners progs fuses) c)
    (t : CTh Th) (ht : t ∈ c.th) (u : UpdateRec) (hu : u ∈ t.inner.updates) :
    (∀ j, snapOK c.sh u.snap j) ∧ (∀ x ∈ u.removedAtBegin, x.2 < u.snap.egc.getD x.1 0) :=
  (kinv_reach hwf hl h).2.upd_ok (absC t) (List.mem_map_of_mem ht) u hu

theorem thm_crash_snapshot_entries_genuine (hwf : WF width owners progs) (hl : fuses.length = owners.length)
    (c : Cfg Sh (CTh Th)) (h : Reachable csys (cinit cap width owners progs fuses) c)
    (t : CTh Th) (ht : t ∈ c.th) (u : UpdateRec) (hu : u ∈ t.inner.updates)
    (e : Nat × Nat × List Nat) (he : e ∈ u.snap.entries) :
    (e.2.1, e.2.2) ∈ c.sh.published.getD e.1 [] := by
  obtain ⟨h1, -⟩ := cupd_facts hwf hl c h t ht u hu
  obtain ⟨h2, h3⟩ := entries_mem he
  have := h1 e.1 h3
  rw [h2]; exact this

/-- the sharp form of `crash_odd_generation_is_published`: no exception is needed, for any slot index -/
theorem crash_odd_generation_is_published_sharp (hwf : WF width owners progs) (hl : fuses.length = owners.length)
    (c : Cfg Sh (CTh Th)) (h : Reachable csys (cinit cap width owners progs fuses) c)
    (i : Nat) (hodd : c.sh.egc.getD i 0 % 2 = 1) :
    (c.sh.egc.getD i 0, c.sh.data.getD i []) ∈ c.sh.published.getD i [] :=
  (kinv_reach hwf hl h).2.pub_odd i hodd

theorem thm_crash_snapshot_no_ghost (hwf : WF width owners progs) (hl : fuses.length = owners.length)
    (c : Cfg Sh (CTh Th)) (h : Reachable csys (cinit cap width owners progs fuses) c)
    (t : CTh Th) (ht : t ∈ c.th) (u : UpdateRec) (hu : u ∈ t.inner.updates)
    (r : Nat × Nat) (hr : r ∈ u.removedAtBegin) (v : List Nat) :
    (r.1, r.2, v) ∈ u.snap.entries → False := by
  obtain ⟨-, h1⟩ := cupd_facts hwf hl c h t ht u hu
  intro he
  obtain ⟨h2, _⟩ := entries_mem he
  have := h1 r hr
  simp only [Prod.mk.injEq] at h2
  omega

theorem thm_crash_recover_clears_owner (hwf : WF width owners progs) (hl : fuses.length = owners.length)
    (c : Cfg Sh (CTh Th)) (h : Reachable csys (cinit cap width owners progs fuses) c)
    (i : Nat) (t : CTh Th) (hi : c.th[i]? = some t) (d : Nat) (m : RUIS.Mode)
    (hpc : t.inner.pc = some (.ix (.rcFinal d) (.recover d m))) :
    ∀ n : Nat, c.sh.r.cells[n]? ≠ some d := by
  have hK := kinv_reach hwf hl h
  obtain ⟨_, _, hs⟩ := hK.1 t (List.mem_of_getElem? hi)
  obtain ⟨d', m', hw, hd, hb⟩ := hs _ hpc (.rcFinal d) rfl
  intro n hn
  have hlt : n < c.sh.r.cap := by
    rcases Nat.lt_or_ge n c.sh.r.cap with h1 | h1
    · exact h1
    · rw [List.getElem?_eq_none (by rw [hK.2.len_cells]; exact h1)] at hn; cases hn
  exact hb n hlt (by simp [List.getD_eq_getElem?_getD, hn])

theorem thm_crash_container_monotone (c c' : Cfg Sh (CTh Th)) (i : Nat) (evs : List Ev)
    (hs : csys.stepAt c i = some (c', evs)) :
    c.sh.change ≤ c'.sh.change ∧ ∀ k, c.sh.egc.getD k 0 ≤ c'.sh.egc.getD k 0 := by
  obtain ⟨ct, _, _, hcase⟩ := cstep_cases hs
  rcases hcase with rfl | ⟨s', t', f', hstep, rfl⟩
  · exact ⟨Nat.le_refl _, fun _ => Nat.le_refl _⟩
  · exact step_mono hstep

end Iox2.Container.Crash

namespace Iox2.Container.Crash
set_option linter.unusedVariables false
open Iox2.Sched Iox2.Container Iox2.C10

variable {cap width : Nat} {owners : List Nat} {progs : List (List Cmd)} {fuses : List (Option Nat)}

/-! ### theorems -/

/-- never torn, never invented, whatever dies wherever: every entry of every snapshot a refresh of a
(then) live reader returned is exactly what an `add` published (reached its publishing step) for that
slot at that generation -/
theorem crash_snapshot_entries_genuine (hwf : WF width owners progs) (hl : fuses.length = owners.length)
    (c : Cfg Sh (CTh Th)) (h : Reachable csys (cinit cap width owners progs fuses) c)
    (t : CTh Th) (ht : t ∈ c.th) (u : UpdateRec) (hu : u ∈ t.inner.updates)
    (e : Nat × Nat × List Nat) (he : e ∈ u.snap.entries) :
    (e.2.1, e.2.2) ∈ c.sh.published.getD e.1 [] := by
  exact thm_crash_snapshot_entries_genuine hwf hl c h t ht u hu e he

/-- the invariant behind it (what the defect violated): a slot whose generation is odd ("contains data")
holds exactly a published entry -/
theorem crash_odd_generation_is_published (hwf : WF width owners progs) (hl : fuses.length = owners.length)
    (c : Cfg Sh (CTh Th)) (h : Reachable csys (cinit cap width owners progs fuses) c)
    (i : Nat) (hi : i < cap) (hodd : c.sh.egc.getD i 0 % 2 = 1) :
    (c.sh.egc.getD i 0, c.sh.data.getD i []) ∈ c.sh.published.getD i [] ∨
    -- … or a live thread is inside the write window of an `add` / the validation of a `remove` on that slot
    ∃ (j : Nat) (tj : CTh Th), c.th[j]? = some tj ∧ Live tj ∧ tj.inner.pc ≠ none := by
  exact .inl (crash_odd_generation_is_published_sharp hwf hl c h i hodd)

/-- never ghost, also under crashes -/
theorem crash_snapshot_no_ghost (hwf : WF width owners progs) (hl : fuses.length = owners.length)
    (c : Cfg Sh (CTh Th)) (h : Reachable csys (cinit cap width owners progs fuses) c)
    (t : CTh Th) (ht : t ∈ c.th) (u : UpdateRec) (hu : u ∈ t.inner.updates)
    (r : Nat × Nat) (hr : r ∈ u.removedAtBegin) (v : List Nat) :
    (r.1, r.2, v) ∈ u.snap.entries → False := by
  exact thm_crash_snapshot_no_ghost hwf hl c h t ht u hu r hr v

/-- after recovery the dead owner is gone from the registry: when a survivor's recovery for the dead owner
`d` has finished its scan of the index set (`.ix (.rcFinal d) _`-phase: the inner index-set pc is `rcFinal d`),
no cell carries `d`, so none of its slots is registered any more once the recovery completes, and the slots
are free for new entries -/
theorem crash_recover_clears_owner (hwf : WF width owners progs) (hl : fuses.length = owners.length)
    (c : Cfg Sh (CTh Th)) (h : Reachable csys (cinit cap width owners progs fuses) c)
    (i : Nat) (t : CTh Th) (hi : c.th[i]? = some t) (hlv : Live t) (d : Nat) (m : RUIS.Mode)
    (hpc : t.inner.pc = some (.ix (.rcFinal d) (.recover d m))) :
    ∀ n : Nat, c.sh.r.cells[n]? ≠ some d := by
  exact thm_crash_recover_clears_owner hwf hl c h i t hi d m hpc

/-- monotone counters under crashes -/
theorem crash_container_monotone (c c' : Cfg Sh (CTh Th)) (i : Nat) (evs : List Ev)
    (h : Reachable csys (cinit cap width owners progs fuses) c) (hs : csys.stepAt c i = some (c', evs)) :
    c.sh.change ≤ c'.sh.change ∧ ∀ k, c.sh.egc.getD k 0 ≤ c'.sh.egc.getD k 0 := by
  exact thm_crash_container_monotone c c' i evs hs

/-- the run of the example: owner 100 takes 5 visible steps of `add` (the cell of slot 0 is claimed, the index
set's generation incremented), dies; owner 101 recovers and refreshes -/
def exC : Cfg Sh (CTh Th) :=
  (csys.run (cinit 2 2 [100, 101] [[.add [700, 701]], [.recover 100 .default, .update]] [some 5, none])
    (List.replicate 6 0 ++ List.replicate 40 1)).1
def exT : CTh Th := exC.th.getD 1 { inner := Th.init 0 0 0 [] }
def exU : UpdateRec := exT.inner.updates.getD 0 { result := false, snap := Snapshot.init 0 0, removedAtBegin := [], quiet := false, sharedAtEnd := [] }

/-- the defect that was repaired, as a theorem about the OLD hook: with a success hook that advances the
generation unconditionally, a death inside `add` makes recovery publish a phantom.  Stated on the model
level as: in the repaired model the configuration below (owner 100 dies after claiming slot 0 in `add`,
owner 101 recovers it and refreshes) ends with an EMPTY snapshot. -/
example : ∃ (c : Cfg Sh (CTh Th)) (t1 : CTh Th) (u : UpdateRec),
    Reachable csys (cinit 2 2 [100, 101] [[.add [700, 701]], [.recover 100 .default, .update]] [some 5, none]) c ∧
    c.th[1]? = some t1 ∧ u ∈ t1.inner.updates ∧ u.snap.entries = [] ∧ c.sh.egc = [0, 0] := by
  refine ⟨exC, exT, exU, Sys.run_reachable csys _ _ .init _, ?_, ?_, ?_, ?_⟩
  · rfl
  · have h : exT.inner.updates = [exU] := rfl
    rw [h]; exact List.mem_singleton.mpr rfl
  · rfl
  · rfl

end Iox2.Container.Crash

