/-
C08 (and C03 "a release never fails for lack of queue space") at the level where it is decided:
one channel of a zero-copy connection with sender and receiver calls interleaving freely
(`Iox2.Channel`).  The sender port reclaims until the completion queue is empty and then sends —
not atomically.  The completion queue must therefore hold buffer + max borrowed + 1 entries:
enough (theorem) and not one less (counter-theorem).

RESULT.  `release_never_refused` and `in_flight_bound` are FALSE AS STATED: the statement allows
`b = 0` together with `ov = true`.  A submission queue of capacity 0 with overflow enabled behaves as
coded like a queue of capacity 1 (`step`: `sub = []`, `sub.length ≥ buf` → `sub := [c]`), so one more
chunk is in flight than `buf + maxBorrow + 1` accounts for, and a disciplined history gets a release
refused (`release_never_refused_FALSE`, `in_flight_bound_FALSE`: machine-checked witnesses).
Proved instead:
* `in_flight_bound_general`   – for ALL b r ov, with the effective buffer `effBuf b ov`
                                (= 1 if b = 0 ∧ ov, else b) in place of b;
* `in_flight_bound_partial`   – the statement as given under `1 ≤ b ∨ ov = false`;
* `release_never_refused_partial` – the statement as given under `1 ≤ b ∨ ov = false ∨ r = 0`;
the side conditions exclude exactly the (b = 0, ov = true) corner that the witnesses live in.
The three existential theorems are proved as stated.
-/
import Iox2.Model.Channel
namespace Iox2.Channel.C08
open Iox2.Channel

/-! ### the invariant -/

/-- the capacity the submission queue effectively has: a queue of capacity 0 with overflow enabled
still accepts one element (see `step`) -/
def effBuf (b : Nat) (ov : Bool) : Nat := if b = 0 ∧ ov = true then 1 else b

structure Inv (b r : Nat) (ov : Bool) (s : St) : Prop where
  hbuf : s.buf = b
  hmb : s.maxBorrow = r
  hov : s.overflow = ov
  hcap : s.compCap = b + r + 1
  hsum : s.sub.length + s.borrowed.length + s.comp.length ≤ effBuf b ov + r + (if s.drained then 0 else 1)
  hsub : s.sub.length ≤ effBuf b ov
  hbor : s.borrowed.length ≤ r
  hnd : (s.sub ++ s.borrowed ++ s.comp).Nodup
  hused : ∀ x ∈ s.sub ++ s.borrowed ++ s.comp, x ∈ s.used
  hrf : (effBuf b ov = b ∨ r = 0) → s.releaseFailed = false

theorem step_disc (s : St) (op : Op) : (step s op).1.disciplined = true → s.disciplined = true := by
  cases op <;> simp only [step] <;> (repeat' split) <;> simp_all

theorem run_disc (ops : List Op) : ∀ s : St, (run s ops).disciplined = true → s.disciplined = true := by
  induction ops with
  | nil => intro s h; exact h
  | cons op ops ih => intro s h; exact step_disc s op (ih _ h)

theorem eraseIdx_perm {l : List Nat} {k c : Nat} (h : l[k]? = some c) : l.Perm (c :: l.eraseIdx k) := by
  induction l generalizing k with
  | nil => simp at h
  | cons a l ih =>
    cases k with
    | zero => simp at h; subst h; simp
    | succ k =>
      simp at h
      simp only [List.eraseIdx_cons_succ]
      exact (List.Perm.cons a (ih h)).trans (List.Perm.swap _ _ _)

theorem step_inv_reclaim {b r ov} (s : St) (h : Inv b r ov s) : Inv b r ov (step s .reclaim).1 := by
  obtain ⟨h1,h2,h3,h4,h5,h6,h7,h8,h9,h10⟩ := h
  simp only [step]
  split
  next hc =>
    refine ⟨h1,h2,h3,h4,?_,h6,h7,h8,h9,h10⟩
    simp [hc] at h5 ⊢; omega
  next c rest hc =>
    refine ⟨h1,h2,h3,h4,?_,h6,h7,?_,?_,h10⟩
    · simp [hc] at h5 ⊢; omega
    · simp [hc] at h8 ⊢; grind
    · simp [hc] at h8 h9 ⊢; grind

theorem step_inv_recv {b r ov} (s : St) (h : Inv b r ov s) : Inv b r ov (step s .recv).1 := by
  obtain ⟨h1,h2,h3,h4,h5,h6,h7,h8,h9,h10⟩ := h
  simp only [step]
  split
  · exact ⟨h1,h2,h3,h4,h5,h6,h7,h8,h9,h10⟩
  next hlt =>
    split
    · exact ⟨h1,h2,h3,h4,h5,h6,h7,h8,h9,h10⟩
    next c rest hc =>
      refine ⟨h1,h2,h3,h4,?_,?_,?_,?_,?_,h10⟩
      · simp [hc] at h5 ⊢; omega
      · simp [hc] at h6 ⊢; omega
      · simp at hlt ⊢; omega
      · simp [hc] at h8 ⊢; grind
      · simp [hc] at h9 ⊢; grind

theorem step_inv_release {b r ov} (s : St) (k : Nat) (h : Inv b r ov s) : Inv b r ov (step s (.release k)).1 := by
  obtain ⟨h1,h2,h3,h4,h5,h6,h7,h8,h9,h10⟩ := h
  simp only [step]
  split
  · exact ⟨h1,h2,h3,h4,h5,h6,h7,h8,h9,h10⟩
  next c hk =>
    have hp := eraseIdx_perm hk
    have hlen : s.borrowed.length = (s.borrowed.eraseIdx k).length + 1 := by
      simpa using hp.length_eq
    split
    · have hperm : (s.sub ++ s.borrowed.eraseIdx k ++ (s.comp ++ [c])).Perm (s.sub ++ s.borrowed ++ s.comp) := by
        have e1 : (s.sub ++ s.borrowed.eraseIdx k ++ (s.comp ++ [c])).Perm (c :: (s.sub ++ s.borrowed.eraseIdx k ++ s.comp)) := by
          rw [← List.append_assoc]; exact List.perm_append_singleton _ _
        have e2 : (s.sub ++ s.borrowed ++ s.comp).Perm (c :: (s.sub ++ s.borrowed.eraseIdx k ++ s.comp)) := by
          refine ((hp.append_left s.sub).append_right s.comp).trans ?_
          rw [List.append_assoc, List.append_assoc]
          simp
        exact e1.trans e2.symm
      refine ⟨h1,h2,h3,h4,?_,h6,?_,?_,?_,h10⟩
      · simp at h5 ⊢; omega
      · simp; omega
      · exact hperm.nodup_iff.mpr h8
      · intro x hx; exact h9 x (hperm.mem_iff.mp hx)
    next hfull =>
      refine ⟨h1,h2,h3,h4,h5,h6,h7,h8,h9,?_⟩
      intro he
      exfalso
      simp at hfull
      split at h5 <;> omega

theorem step_inv_send {b r ov} (s : St) (c : Nat) (h : Inv b r ov s)
    (hd : (step s (.send c)).1.disciplined = true) : Inv b r ov (step s (.send c)).1 := by
  obtain ⟨h1,h2,h3,h4,h5,h6,h7,h8,h9,h10⟩ := h
  have hdr : s.drained = true := by
    revert hd
    simp only [step]; (repeat' split) <;> simp_all
  simp only [step]
  simp only [hdr] at h5
  split
  · refine ⟨h1,h2,h3,h4,?_,h6,h7,h8,h9,h10⟩
    simp at h5 ⊢; omega
  next hnu =>
  split
  · refine ⟨h1,h2,h3,h4,?_,h6,h7,h8,h9,h10⟩
    simp at h5 ⊢; omega
  next hnf =>
  have hcn : c ∉ s.sub ++ s.borrowed ++ s.comp := fun hx => hnu (h9 c hx)
  split
  next hge =>
    split
    next hs =>
      have hb0 : b = 0 := by simp [hs] at hge; omega
      have hovt : ov = true := by
        cases ov <;> simp_all
      have he : effBuf b ov = 1 := by simp [effBuf, hb0, hovt]
      refine ⟨h1,h2,h3,h4,?_,?_,h7,?_,?_,?_⟩
      · simp [hs] at h5 ⊢; omega
      · simp [he]
      · simp [hs] at h8 hcn ⊢; grind
      · simp [hs] at h9 ⊢; grind
      · intro h; exact h10 (by omega)
    next old rest hs =>
      refine ⟨h1,h2,h3,h4,?_,?_,h7,?_,?_,h10⟩
      · simp [hs] at h5 ⊢; omega
      · simp [hs] at h6 ⊢; omega
      · simp [hs] at h8 hcn ⊢; grind
      · simp [hs] at h8 h9 hcn hnu ⊢; grind
  next hlt =>
    have hle : b ≤ effBuf b ov := by unfold effBuf; split <;> omega
    refine ⟨h1,h2,h3,h4,?_,?_,h7,?_,?_,h10⟩
    · simp at h5 ⊢; omega
    · simp at hlt ⊢; omega
    · simp at h8 hcn ⊢; grind
    · simp at h9 ⊢; grind

theorem step_inv {b r ov} (s : St) (op : Op) (h : Inv b r ov s)
    (hd : (step s op).1.disciplined = true) : Inv b r ov (step s op).1 := by
  cases op with
  | send c => exact step_inv_send s c h hd
  | reclaim => exact step_inv_reclaim s h
  | recv => exact step_inv_recv s h
  | release k => exact step_inv_release s k h
  | borrowCount => exact h
  | hasData => exact h

theorem run_inv {b r ov} (ops : List Op) :
    ∀ s : St, Inv b r ov s → (run s ops).disciplined = true → Inv b r ov (run s ops) := by
  induction ops with
  | nil => intro s h _; exact h
  | cons op ops ih =>
    intro s h hd
    exact ih _ (step_inv s op h (run_disc ops _ hd)) hd

theorem init_inv (b r : Nat) (ov : Bool) : Inv b r ov (St.init b r ov) := by
  refine ⟨rfl, rfl, rfl, rfl, ?_, ?_, ?_, ?_, ?_, ?_⟩ <;> simp [St.init]

/-! ### the two universal statements -/

/-- the counting argument, for every `b r ov`, with the effective buffer size -/
theorem in_flight_bound_general (b r : Nat) (ov : Bool) (ops : List Op) :
    let s := run (St.init b r ov) ops
    s.disciplined = true →
      s.sub.length + s.borrowed.length + s.comp.length ≤ effBuf b ov + r + (if s.drained then 0 else 1) ∧
      s.sub.length ≤ effBuf b ov ∧ s.borrowed.length ≤ r ∧ (s.sub ++ s.borrowed ++ s.comp).Nodup ∧
      (∀ x ∈ s.sub ++ s.borrowed ++ s.comp, x ∈ s.used) ∧
      s.buf = b ∧ s.maxBorrow = r ∧ s.overflow = ov ∧ s.compCap = b + r + 1 := by
  intro s hd
  have h := run_inv ops _ (init_inv b r ov) hd
  exact ⟨h.hsum, h.hsub, h.hbor, h.hnd, h.hused, h.hbuf, h.hmb, h.hov, h.hcap⟩

theorem effBuf_eq {b : Nat} {ov : Bool} (h : 1 ≤ b ∨ ov = false) : effBuf b ov = b := by
  unfold effBuf; split
  next hc => rcases h with h | h <;> simp_all
  · rfl

/-
FALSE AS STATED (b = 0, ov = true; see `release_never_refused_FALSE`):

theorem release_never_refused (b r : Nat) (ov : Bool) (ops : List Op) :
    let s := run (St.init b r ov) ops
    s.disciplined = true → s.releaseFailed = false
-/

/-- with the code's completion queue size, no release is ever refused, whatever the receiver does and
however its calls interleave with the sender's, as long as the sender follows the port protocol
(sends only after a reclaim found the completion queue empty) — provided the submission queue has a
capacity of at least one, or overflow is off, or nothing can be borrowed -/
theorem release_never_refused_partial (b r : Nat) (ov : Bool) (ops : List Op)
    (hb : 1 ≤ b ∨ ov = false ∨ r = 0) :
    let s := run (St.init b r ov) ops
    s.disciplined = true → s.releaseFailed = false := by
  intro s hd
  have h := run_inv ops _ (init_inv b r ov) hd
  apply h.hrf
  rcases hb with hb | hb | hb
  · exact Or.inl (effBuf_eq (Or.inl hb))
  · exact Or.inl (effBuf_eq (Or.inr hb))
  · exact Or.inr hb

/-- the witness: buffer 0 with overflow, max borrow 1; every send is issued in the `drained` state -/
def refusedWitness : List Op :=
  [.send 1, .recv, .reclaim, .send 2, .reclaim, .release 0, .recv, .send 3, .release 0, .recv, .release 0]

/-- refutation of `release_never_refused` as stated -/
theorem release_never_refused_FALSE :
    ¬ ∀ (b r : Nat) (ov : Bool) (ops : List Op),
      let s := run (St.init b r ov) ops
      s.disciplined = true → s.releaseFailed = false := by
  intro h
  exact absurd (h 0 1 true refusedWitness (by decide)) (by decide)

/-
FALSE AS STATED (b = 0, ov = true; see `in_flight_bound_FALSE`):

theorem in_flight_bound (b r : Nat) (ov : Bool) (ops : List Op) :
    let s := run (St.init b r ov) ops
    s.disciplined = true →
      s.sub.length + s.borrowed.length + s.comp.length ≤ b + r + (if s.drained then 0 else 1) ∧
      s.sub.length ≤ max b 1 ∧ s.borrowed.length ≤ r ∧ (s.sub ++ s.borrowed ++ s.comp).Nodup
-/

/-- the counting argument behind it (statement as given, under `1 ≤ b ∨ ov = false`) -/
theorem in_flight_bound_partial (b r : Nat) (ov : Bool) (ops : List Op) (hb : 1 ≤ b ∨ ov = false) :
    let s := run (St.init b r ov) ops
    s.disciplined = true →
      s.sub.length + s.borrowed.length + s.comp.length ≤ b + r + (if s.drained then 0 else 1) ∧
      s.sub.length ≤ max b 1 ∧ s.borrowed.length ≤ r ∧ (s.sub ++ s.borrowed ++ s.comp).Nodup := by
  intro s hd
  have h := run_inv ops _ (init_inv b r ov) hd
  have he := effBuf_eq hb
  refine ⟨?_, ?_, h.hbor, h.hnd⟩
  · have := h.hsum; rw [he] at this; exact this
  · have := h.hsub; rw [he] at this; exact Nat.le_trans this (Nat.le_max_left _ _)

/-- refutation of `in_flight_bound` as stated: the first conjunct fails (2 ≤ 0 + 1 + 0) -/
theorem in_flight_bound_FALSE :
    ¬ ∀ (b r : Nat) (ov : Bool) (ops : List Op),
      let s := run (St.init b r ov) ops
      s.disciplined = true →
        s.sub.length + s.borrowed.length + s.comp.length ≤ b + r + (if s.drained then 0 else 1) ∧
        s.sub.length ≤ max b 1 ∧ s.borrowed.length ≤ r ∧ (s.sub ++ s.borrowed ++ s.comp).Nodup := by
  intro h
  have := (h 0 1 true [.send 1, .recv, .reclaim, .send 2, .reclaim] (by decide)).1
  revert this
  decide

/-- in the (0, overflow) corner `buf + maxBorrow + 1` completion entries are exceeded by the chunks in
flight: the bound of `in_flight_bound_general` (with `effBuf = 1`) is attained there -/
theorem in_flight_general_tight_at_zero_buffer :
    let s := run (St.init 0 1 true) (refusedWitness.take 8)
    s.disciplined = true ∧ s.sub.length + s.borrowed.length + s.comp.length = 0 + 1 + 2 := by
  decide

/-! ### the existential statements -/

/-- buffer 1, max borrow 1: fill both, let the sender see an empty completion queue, move both chunks
on, send a third -/
def fillWitness : List Op :=
  [.send 1, .recv, .reclaim, .send 2, .reclaim, .release 0, .recv, .send 3, .release 0, .recv, .release 0]

/-- the bound is tight: the completion queue really fills up to buffer + max borrowed + 1 -/
theorem completion_queue_fills_completely :
    ∃ (b r : Nat) (ov : Bool) (ops : List Op), 1 ≤ b ∧ 1 ≤ r ∧
      let s := run (St.init b r ov) ops
      s.disciplined = true ∧ s.comp.length = b + r + 1 := by
  refine ⟨1, 1, false, fillWitness, by decide, by decide, ?_⟩
  decide

/-- … so a completion queue with one entry less (buffer + max borrowed) refuses a release in a history
that respects every limit and the port protocol -/
theorem one_entry_less_is_not_enough :
    ∃ (b r : Nat) (ov : Bool) (ops : List Op), 1 ≤ b ∧ 1 ≤ r ∧
      let s := run { St.init b r ov with compCap := b + r } ops
      s.disciplined = true ∧ s.releaseFailed = true := by
  refine ⟨1, 1, false, fillWitness, by decide, by decide, ?_⟩
  decide

/-- an undisciplined sender (sending without reclaiming) can overrun any finite completion queue:
the protocol hypothesis is necessary -/
theorem undisciplined_sender_overruns :
    ∃ (b r : Nat) (ov : Bool) (ops : List Op), (run (St.init b r ov) ops).releaseFailed = true := by
  refine ⟨1, 1, false,
    [.send 1, .recv, .release 0, .send 2, .recv, .release 0, .send 3, .recv, .release 0,
     .send 4, .recv, .release 0], ?_⟩
  decide

end Iox2.Channel.C08

section AxiomCheck
open Iox2.Channel.C08
end AxiomCheck
