/-
C20 — WaitSet dispatch is exact: every ready attachment reported, nothing else.

Model: Iox2/Model/WaitSet.lean (transcribes iceoryx2/src/waitset.rs with the reactor, the deadline
queue and the listener as far as they decide what `wait_and_process_once_with_timeout(cb, 0)`
reports).  Invariant and helper lemmas: Iox2/Proof/WaitSetInv.lean, Iox2/Proof/WaitSetDispatch.lean.
All theorems quantify over every state reachable from a fresh wait set by ANY history of operations
(`Reachable`), any capacity, any number of listeners / services.

(a) exactness of one processing call
      run_once_never_foreign, run_once_notification_exact, run_once_tick_exact,
      run_once_deadline_exact, run_once_sound, run_once_reports_once, run_once_no_attachments_iff,
      foreign_notify_ignored
(b) nothing is lost between calls
      notify_makes_ready, ready_persists, ready_persists_run, drain_clears, event_reported_by_next_call
(c) refusals
      attach_notification_refused_unchanged, attach_interval_beyond_capacity,
      attach_same_object_twice_notification, attach_same_object_twice_deadline,
      attach_notification_beyond_capacity_partial, attach_deadline_beyond_capacity_partial,
      refused_attach_deadline_same_reports
    FALSE as naturally stated (refuted, with the witness replayed on the real code, see notes/C20-design.md):
      attach_notification_beyond_capacity_false   (a full reactor answers AlreadyAttached, finding D7)
      attach_deadline_refusal_unchanged_false     (two map entries stay behind, finding D21)
(d) detach and reuse
      drop_guard_detaches, dropped_guard_never_reported, reattach_notification_after_drop,
      reattach_deadline_after_drop
(e) len / capacity
      len_is_number_of_guards, capacity_constant, is_empty_iff, len_after_attach, len_after_drop
-/
import Iox2.Proof.WaitSetDispatch

namespace Iox2.C20
open Iox2.WaitSet

/-- what a processing call reports: (guard label, kind) for every callback × matching guard -/
def reportsOf (s : State) : List (Nat × Kind) := (callbackIds s).flatMap (matchAll s.guards)

/-- guard `g` is a notification or deadline attachment of descriptor `fd` -/
def onFd (s : State) (g fd : Nat) : Prop :=
  guardOf g s.guards = some (.notif fd) ∨ ∃ i, guardOf g s.guards = some (.deadline fd i)

/-- the deadline queue counts entry `a` as missed now (relative to the previous processing call) -/
def expired (s : State) (a : DqAtt) : Prop := missed s.prev s.now a = true

theorem mem_reportsOf {s : State} {g : Nat} {k : Kind} :
    (g, k) ∈ reportsOf s ↔ ∃ id ∈ callbackIds s, ∃ gd, (g, gd) ∈ s.guards ∧ matchGuard id gd = some k := by
  unfold reportsOf
  simp only [List.mem_flatMap, mem_matchAll]

/-! ## (a) one processing call reports exactly the ready attachments -/

/-- the callback is never invoked with an id that matches none of the caller's live guards, and a
non-empty wait set always completes with the report list -/
theorem run_once_never_foreign {s : State} (hr : Reachable s) (hc : s.count ≠ 0) :
    (runOnce s).2 = .reports (reportsOf s) := by
  have h := reachable_inv hr
  unfold runOnce
  simp only [hc, if_false]
  have hall : (callbackIds s).filter (fun id => (matchAll s.guards id).isEmpty) = [] := by
    apply List.filter_eq_nil_iff.mpr
    intro id hid
    have hex : ∃ g k, (g, k) ∈ matchAll s.guards id := by
      cases id with
      | tick i =>
        obtain ⟨a', ha', _, hn, hi⟩ := mem_callbackIds_tick.mp hid
        obtain ⟨a, ha, rfl⟩ := mem_dqAfterReset.mp ha'
        have hidx : a.idx = i := by
          split at hi <;> exact hi
        have hn' : mapGet a.idx s.d2a = none := by
          split at hn <;> exact hn
        obtain ⟨g, gd, hm, hk⟩ := dq_entry_guard h ha
        cases gd with
        | tick j =>
          simp only [idxOf, Option.some.injEq] at hk
          refine ⟨g, .t, mem_matchAll.mpr ⟨_, hm, ?_⟩⟩
          simp [matchGuard, ← hidx, hk]
        | deadline fd j =>
          simp only [idxOf, Option.some.injEq] at hk
          have := h.d2aDl g fd j hm
          rw [hk, hn'] at this
          cases this
        | notif fd => cases hk
      | deadline fd i =>
        obtain ⟨a', ha', _, hn, hi⟩ := mem_callbackIds_deadline.mp hid
        obtain ⟨a, ha, rfl⟩ := mem_dqAfterReset.mp ha'
        have hidx : a.idx = i := by
          split at hi <;> exact hi
        have hn' : mapGet a.idx s.d2a = some fd := by
          split at hn <;> exact hn
        obtain ⟨g, gd, hm, hk⟩ := dq_entry_guard h ha
        cases gd with
        | tick j =>
          simp only [idxOf, Option.some.injEq] at hk
          have := h.d2aTick g j hm
          rw [hk, hn'] at this
          cases this
        | deadline fd' j =>
          simp only [idxOf, Option.some.injEq] at hk
          have := h.d2aDl g fd' j hm
          rw [hk, hn'] at this
          cases this
          refine ⟨g, .d, mem_matchAll.mpr ⟨_, hm, ?_⟩⟩
          simp [matchGuard, ← hidx, hk]
        | notif fd' => cases hk
      | notif fd =>
        have htr := mem_callbackIds_notif.mp hid
        obtain ⟨g, gd, hm, hk⟩ := mem_fds.mp ((mem_triggered h).mp htr).1
        cases gd with
        | tick j => cases hk
        | deadline fd' j =>
          simp only [fdOf, Option.some.injEq] at hk
          exact ⟨g, .n, mem_matchAll.mpr ⟨_, hm, by simp [matchGuard, hk]⟩⟩
        | notif fd' =>
          simp only [fdOf, Option.some.injEq] at hk
          exact ⟨g, .n, mem_matchAll.mpr ⟨_, hm, by simp [matchGuard, hk]⟩⟩
    obtain ⟨g, k, hgk⟩ := hex
    cases hm : matchAll s.guards id with
    | nil => rw [hm] at hgk; cases hgk
    | cons x xs => simp
  simp only [hall, List.isEmpty_nil, if_true]
  rfl

/-- a guard is reported with a notification iff it is a live notification or deadline attachment
whose object has an event pending -/
theorem run_once_notification_exact {s : State} (hr : Reachable s) (g : Nat) :
    (g, Kind.n) ∈ reportsOf s ↔ ∃ fd, onFd s g fd ∧ ready s fd = true := by
  have h := reachable_inv hr
  rw [mem_reportsOf]
  constructor
  · rintro ⟨id, hid, gd, hm, hk⟩
    have hg := guardOf_of_mem h.labels hm
    cases id with
    | tick i => cases gd <;> simp [matchGuard] at hk <;> (split at hk <;> cases hk)
    | deadline fd i => cases gd <;> simp [matchGuard] at hk <;> (split at hk <;> cases hk)
    | notif fd =>
      have htr := ((mem_triggered h).mp (mem_callbackIds_notif.mp hid)).2
      cases gd with
      | tick j => simp [matchGuard] at hk
      | deadline fd' j =>
        simp only [matchGuard] at hk
        split at hk
        · rename_i he; subst he
          exact ⟨fd, Or.inr ⟨j, hg⟩, htr⟩
        · cases hk
      | notif fd' =>
        simp only [matchGuard] at hk
        split at hk
        · rename_i he; subst he
          exact ⟨fd, Or.inl hg, htr⟩
        · cases hk
  · rintro ⟨fd, hon, hrdy⟩
    rcases hon with hg | ⟨i, hg⟩
    · have hm := guardOf_eq_some hg
      refine ⟨.notif fd, ?_, _, hm, by simp [matchGuard]⟩
      exact mem_callbackIds_notif.mpr ((mem_triggered h).mpr ⟨mem_fds.mpr ⟨g, _, hm, rfl⟩, hrdy⟩)
    · have hm := guardOf_eq_some hg
      refine ⟨.notif fd, ?_, _, hm, by simp [matchGuard]⟩
      exact mem_callbackIds_notif.mpr ((mem_triggered h).mpr ⟨mem_fds.mpr ⟨g, _, hm, rfl⟩, hrdy⟩)

/-- an interval guard is reported (tick) iff its interval has expired -/
theorem run_once_tick_exact {s : State} (hr : Reachable s) (g : Nat) :
    (g, Kind.t) ∈ reportsOf s ↔
      ∃ i a, guardOf g s.guards = some (.tick i) ∧ a ∈ s.dq ∧ a.idx = i ∧ expired s a := by
  have h := reachable_inv hr
  rw [mem_reportsOf]
  constructor
  · rintro ⟨id, hid, gd, hm, hk⟩
    have hg := guardOf_of_mem h.labels hm
    cases id with
    | deadline fd i => cases gd <;> simp [matchGuard] at hk <;> (split at hk <;> cases hk)
    | notif fd => cases gd <;> simp [matchGuard] at hk <;> (split at hk <;> cases hk)
    | tick i =>
      cases gd with
      | deadline fd' j => simp [matchGuard] at hk
      | notif fd' => simp [matchGuard] at hk
      | tick j =>
        simp only [matchGuard] at hk
        split at hk
        · rename_i he; subst he
          obtain ⟨a', ha', hmiss, _, hi⟩ := mem_callbackIds_tick.mp hid
          obtain ⟨a, ha, rfl⟩ := mem_dqAfterReset.mp ha'
          have hidx : a.idx = i := by split at hi <;> exact hi
          have hres : (triggered s).any (fun fd' => mapGet fd' s.a2d == some a.idx) = false := by
            rw [hidx]; exact reset_tick h hm
          rw [hres] at hmiss
          simp only [Bool.false_eq_true, if_false] at hmiss
          rw [missed_prevAfterPeek s a ha] at hmiss
          exact ⟨i, a, hg, ha, hidx, hmiss⟩
        · cases hk
  · rintro ⟨i, a, hg, ha, hidx, hexp⟩
    have hm := guardOf_eq_some hg
    refine ⟨.tick i, ?_, _, hm, by simp [matchGuard]⟩
    apply mem_callbackIds_tick.mpr
    refine ⟨a, ?_, ?_, ?_, hidx⟩
    · apply mem_dqAfterReset.mpr
      refine ⟨a, ha, ?_⟩
      rw [hidx, reset_tick h hm]
      simp
    · rw [missed_prevAfterPeek s a ha]; exact hexp
    · rw [hidx]; exact h.d2aTick g i hm

/-- a deadline guard is reported as missed iff its deadline has expired and no event is pending on
its object (a pending event resets the deadline first; a zero deadline is missed immediately again) -/
theorem run_once_deadline_exact {s : State} (hr : Reachable s) (g : Nat) :
    (g, Kind.d) ∈ reportsOf s ↔
      ∃ fd i a, guardOf g s.guards = some (.deadline fd i) ∧ a ∈ s.dq ∧ a.idx = i ∧
        (if ready s fd = true then a.period = 0 else expired s a) := by
  have h := reachable_inv hr
  rw [mem_reportsOf]
  constructor
  · rintro ⟨id, hid, gd, hm, hk⟩
    have hg := guardOf_of_mem h.labels hm
    cases id with
    | tick i => cases gd <;> simp [matchGuard] at hk <;> (split at hk <;> cases hk)
    | notif fd => cases gd <;> simp [matchGuard] at hk <;> (split at hk <;> cases hk)
    | deadline fd i =>
      cases gd with
      | tick j => simp [matchGuard] at hk
      | notif fd' => simp [matchGuard] at hk
      | deadline fd' j =>
        simp only [matchGuard] at hk
        split at hk
        · rename_i he
          obtain ⟨rfl, rfl⟩ := he
          obtain ⟨a', ha', hmiss, _, hi⟩ := mem_callbackIds_deadline.mp hid
          obtain ⟨a, ha, rfl⟩ := mem_dqAfterReset.mp ha'
          have hidx : a.idx = i := by split at hi <;> exact hi
          have hres : (triggered s).any (fun fd' => mapGet fd' s.a2d == some a.idx) = ready s fd := by
            rw [hidx]; exact reset_deadline h hm
          rw [hres] at hmiss
          refine ⟨fd, i, a, hg, ha, hidx, ?_⟩
          cases hrdy : ready s fd with
          | true =>
            rw [hrdy] at hmiss
            simp only [if_true] at hmiss ⊢
            rw [missed_reset] at hmiss
            simpa using hmiss
          | false =>
            rw [hrdy] at hmiss
            simp only [Bool.false_eq_true, if_false] at hmiss ⊢
            rw [missed_prevAfterPeek s a ha] at hmiss
            exact hmiss
        · cases hk
  · rintro ⟨fd, i, a, hg, ha, hidx, hcond⟩
    have hm := guardOf_eq_some hg
    refine ⟨.deadline fd i, ?_, _, hm, by simp [matchGuard]⟩
    apply mem_callbackIds_deadline.mpr
    cases hrdy : ready s fd with
    | true =>
      rw [hrdy] at hcond
      simp only [if_true] at hcond
      refine ⟨{ a with start := s.now }, ?_, ?_, ?_, hidx⟩
      · apply mem_dqAfterReset.mpr
        refine ⟨a, ha, ?_⟩
        rw [hidx, reset_deadline h hm, hrdy]
        simp
      · rw [missed_reset]; simpa using hcond
      · show mapGet a.idx s.d2a = some fd
        rw [hidx]; exact h.d2aDl g fd i hm
    | false =>
      rw [hrdy] at hcond
      simp only [Bool.false_eq_true, if_false] at hcond
      refine ⟨a, ?_, ?_, ?_, hidx⟩
      · apply mem_dqAfterReset.mpr
        refine ⟨a, ha, ?_⟩
        rw [hidx, reset_deadline h hm, hrdy]
        simp
      · rw [missed_prevAfterPeek s a ha]; exact hcond
      · rw [hidx]; exact h.d2aDl g fd i hm

/-- soundness: only guards that are attached right now are ever reported -/
theorem run_once_sound {s : State} (hr : Reachable s) {g : Nat} {k : Kind} (hm : (g, k) ∈ reportsOf s) :
    ∃ gd, guardOf g s.guards = some gd := by
  obtain ⟨_, _, gd, hg, _⟩ := mem_reportsOf.mp hm
  exact ⟨gd, guardOf_of_mem (reachable_inv hr).labels hg⟩

/-- no (guard, kind) pair is reported twice by one processing call -/
theorem run_once_reports_once {s : State} (hr : Reachable s) : (reportsOf s).Nodup := by
  have h := reachable_inv hr
  unfold reportsOf
  apply nodup_flatMap_of
  · intro id _; exact matchAll_nodup h.labels id
  · exact callbackIds_nodup h
  · intro id1 _ id2 _ b hb1 hb2
    obtain ⟨g, k⟩ := b
    obtain ⟨gd1, hm1, hk1⟩ := mem_matchAll.mp hb1
    obtain ⟨gd2, hm2, hk2⟩ := mem_matchAll.mp hb2
    have e1 := guardOf_of_mem h.labels hm1
    have e2 := guardOf_of_mem h.labels hm2
    rw [e1] at e2
    cases e2
    exact matchGuard_inj hk1 hk2

/-- the only failure of a processing call: the wait set has no attachments -/
theorem run_once_no_attachments_iff {s : State} (hr : Reachable s) :
    (runOnce s).2 = .noAttachments ↔ s.guards = [] := by
  have h := reachable_inv hr
  constructor
  · intro hno
    by_cases hc : s.count = 0
    · have := h.count
      rw [hc] at this
      exact List.eq_nil_of_length_eq_zero this.symm
    · rw [run_once_never_foreign hr hc] at hno
      cases hno
  · intro hg
    have hc : s.count = 0 := by rw [h.count, hg]; rfl
    simp [runOnce, hc]

/-- notifications on an object that is not attached ("foreign") do not influence what is reported -/
theorem foreign_notify_ignored {s : State} (hr : Reachable s) (l id : Nat) (hl : l ∉ fds s.guards) :
    reportsOf { s with pending := s.pending ++ [(l, id)] } = reportsOf s := by
  have h := reachable_inv hr
  have htr : triggered { s with pending := s.pending ++ [(l, id)] } = triggered s := by
    unfold triggered
    apply List.filter_congr
    intro fd hfd
    have hne : fd ≠ l := by
      intro e; subst e
      exact hl (h.reactor ▸ hfd)
    have hne' : ¬ l = fd := fun e => hne e.symm
    simp [ready, List.any_append, hne']
  have hdq : dqAfterReset { s with pending := s.pending ++ [(l, id)] } = dqAfterReset s := by
    unfold dqAfterReset
    rw [htr]
  unfold reportsOf callbackIds
  rw [hdq, htr]
  rfl

/-! ## (b) an event is not lost: it stays pending until the listener is drained -/

theorem notify_makes_ready (s : State) (l id : Nat) (hl : l < s.nl) (hid : id ≤ s.evMax) :
    ready (step s (.notify l id)).1 l = true := by
  have h1 : ¬ l ≥ s.nl := by omega
  have h2 : ¬ id > s.evMax := by omega
  simp [step, h1, h2, ready, List.any_append]

/-- no operation except draining that very listener consumes a pending event; in particular a
processing call does not -/
theorem ready_persists (s : State) (l : Nat) (op : Op) (hr : ready s l = true) (hop : op ≠ .drain l) :
    ready (step s op).1 l = true := by
  cases op with
  | attachN g l' => simp only [step, attachN]; repeat' split <;> try exact hr
  | attachD g l' p => simp only [step, attachD]; repeat' split <;> try exact hr
  | attachI g p => simp only [step, attachI]; repeat' split <;> try exact hr
  | dropGuard g => simp only [step, dropGuard]; repeat' split <;> try exact hr
  | runOnce => simp only [step, runOnce]; repeat' split <;> try exact hr
  | notify l' id =>
    simp only [step]
    repeat' split <;> try exact hr
    simp only [ready, List.any_append] at hr ⊢
    simp [hr]
  | notifyAll sv id =>
    simp only [step]
    repeat' split <;> try exact hr
    simp only [ready, List.any_append] at hr ⊢
    simp [hr]
  | drain l' =>
    have hne : l' ≠ l := fun e => hop (e ▸ rfl)
    simp only [step]
    split
    · exact hr
    · simp only [ready, List.any_eq_true, List.mem_filter] at hr ⊢
      obtain ⟨e, he, hel⟩ := hr
      refine ⟨e, ⟨he, ?_⟩, hel⟩
      have : e.1 = l := by simpa using hel
      have hne2 : ¬ l = l' := fun e' => hne e'.symm
      simp [this, hne2]
  | advance k => exact hr
  | len => exact hr
  | capacity => exact hr
  | isEmpty => exact hr

theorem ready_persists_run (s : State) (l : Nat) (ops : List Op) (hr : ready s l = true)
    (hops : Op.drain l ∉ ops) : ready (run s ops) l = true := by
  induction ops generalizing s with
  | nil => exact hr
  | cons op ops ih =>
    simp only [List.mem_cons, not_or] at hops
    exact ih _ (ready_persists s l op hr (fun e => hops.1 e.symm)) hops.2

/-- draining is what consumes the events -/
theorem drain_clears (s : State) (l : Nat) (hl : l < s.nl) : ready (step s (.drain l)).1 l = false := by
  have h1 : ¬ l ≥ s.nl := by omega
  simp [step, h1, ready]

/-- An event notified at any time — before, between or after processing calls — is reported by the next
processing call for every guard that is attached to the object at that call, whatever happened in
between (other calls included), as long as the listener was not drained. -/
theorem event_reported_by_next_call {s : State} (hr : Reachable s) (l id : Nat) (hl : l < s.nl)
    (hid : id ≤ s.evMax) (ops : List Op) (hops : Op.drain l ∉ ops) (g : Nat)
    (hon : onFd (run (step s (.notify l id)).1 ops) g l) :
    ∃ r, (runOnce (run (step s (.notify l id)).1 ops)).2 = .reports r ∧ (g, Kind.n) ∈ r := by
  have hr' : Reachable (run (step s (.notify l id)).1 ops) := by
    obtain ⟨cap, cf, nl, ns, ev, ops0, rfl⟩ := hr
    refine ⟨cap, cf, nl, ns, ev, ops0 ++ (.notify l id :: ops), ?_⟩
    have : ∀ (s : State) (o1 o2 : List Op), run s (o1 ++ o2) = run (run s o1) o2 := by
      intro s o1 o2
      induction o1 generalizing s with
      | nil => rfl
      | cons o o1 ih => exact ih _
    rw [this]; rfl
  have hrdy := ready_persists_run _ l ops (notify_makes_ready s l id hl hid) hops
  have hmem := (run_once_notification_exact hr' g).mpr ⟨l, hon, hrdy⟩
  have hc : (run (step s (.notify l id)).1 ops).count ≠ 0 := by
    have h := reachable_inv hr'
    intro hc
    have hlen := h.count
    rw [hc] at hlen
    have hnil := List.eq_nil_of_length_eq_zero hlen.symm
    rcases hon with hg | ⟨i, hg⟩ <;> (have := guardOf_eq_some hg; rw [hnil] at this; cases this)
  exact ⟨_, run_once_never_foreign hr' hc, hmem⟩

/-! ## (c) refused attachments -/

/-- whatever the reason, a refused `attach_notification` leaves the wait set exactly as it was -/
theorem attach_notification_refused_unchanged (s : State) (g l : Nat)
    (h : (step s (.attachN g l)).2 ≠ .ok) : (step s (.attachN g l)).1 = s := by
  simp only [step, attachN] at h ⊢
  repeat' split <;> try rfl
  all_goals (exfalso; apply h; simp_all)

/-- `attach_interval` beyond the capacity: InsufficientCapacity; only the deadline queue's id counter moved -/
theorem attach_interval_beyond_capacity (s : State) (g p : Nat) (hg : guardOf g s.guards = none)
    (hc : s.count = s.cap) :
    step s (.attachI g p) = ({ s with idCount := s.idCount + 1 }, .attachErr .InsufficientCapacity) := by
  simp [step, attachI, hg, hc]

theorem reactorAttach_attached {s : State} {fd : Nat} (h : fd ∈ s.reactor) : ∃ e, reactorAttach s fd = .error e := by
  unfold reactorAttach
  split
  · exact ⟨_, rfl⟩
  · simp

/-- an attachment is accepted when the label is free, the listener exists and is not attached, and there is room -/
theorem attachN_accepted {s : State} {g l : Nat} (hl : l < s.nl) (hg : guardOf g s.guards = none)
    (hnot : l ∉ s.reactor) (hr : s.reactor.length < s.cap) (hc : s.count ≠ s.cap) :
    step s (.attachN g l) =
      ({ s with reactor := s.reactor ++ [l], count := s.count + 1, guards := s.guards ++ [(g, .notif l)] }, .ok) := by
  have h1 : ¬ l ≥ s.nl := by omega
  have h3 : ¬ (s.capFirst = true ∧ s.cap ≤ s.reactor.length) := by omega
  simp [step, attachN, h1, hg, reactorAttach, hnot, h3, hc]

theorem attachD_accepted {s : State} {g l p : Nat} (hl : l < s.nl) (hg : guardOf g s.guards = none)
    (hnot : l ∉ s.reactor) (hr : s.reactor.length < s.cap) (hc : s.count ≠ s.cap) :
    step s (.attachD g l p) =
      ({ s with reactor := s.reactor ++ [l], dq := s.dq ++ [{ idx := s.idCount, period := p, start := s.now }],
                idCount := s.idCount + 1, a2d := mapInsert l s.idCount s.a2d, d2a := mapInsert s.idCount l s.d2a,
                count := s.count + 1, guards := s.guards ++ [(g, .deadline l s.idCount)] }, .ok) := by
  have h1 : ¬ l ≥ s.nl := by omega
  have h3 : ¬ (s.capFirst = true ∧ s.cap ≤ s.reactor.length) := by omega
  simp [step, attachD, h1, hg, reactorAttach, hnot, h3, hc]

/-- the same object twice: AlreadyAttached, nothing changes -/
theorem attach_same_object_twice_notification {s : State} (hr : Reachable s) (g l : Nat)
    (hg : guardOf g s.guards = none) (hl : l ∈ fds s.guards) :
    step s (.attachN g l) = (s, .attachErr .AlreadyAttached) := by
  have h := reachable_inv hr
  have h1 : ¬ l ≥ s.nl := by have := h.fdLt l hl; omega
  have h2 : l ∈ s.reactor := h.reactor ▸ hl
  obtain ⟨e, he⟩ := reactorAttach_attached h2
  simp only [step, attachN, h1, hg, he, if_false, Option.isSome_none, Bool.false_eq_true]
  cases e <;> rfl

theorem attach_same_object_twice_deadline {s : State} (hr : Reachable s) (g l p : Nat)
    (hg : guardOf g s.guards = none) (hl : l ∈ fds s.guards) :
    step s (.attachD g l p) = (s, .attachErr .AlreadyAttached) := by
  have h := reachable_inv hr
  have h1 : ¬ l ≥ s.nl := by have := h.fdLt l hl; omega
  have h2 : l ∈ s.reactor := h.reactor ▸ hl
  obtain ⟨e, he⟩ := reactorAttach_attached h2
  simp only [step, attachD, h1, hg, he, if_false, Option.isSome_none, Bool.false_eq_true]
  cases e <;> rfl

/- FALSE as naturally stated ("beyond the capacity ⇒ InsufficientCapacity"):
   theorem attach_notification_beyond_capacity (hg : guardOf g s.guards = none) (hl : l < s.nl)
       (hnot : l ∉ fds s.guards) (hc : s.count = s.cap) :
       step s (.attachN g l) = (s, .attachErr .InsufficientCapacity)
   When the reactor itself is full it is asked first and its CapacityExceeded is turned into
   AlreadyAttached by `attach_to_reactor` (waitset.rs:1004). -/
theorem attach_notification_beyond_capacity_false :
    ∃ s g l, Reachable s ∧ guardOf g s.guards = none ∧ l < s.nl ∧ l ∉ fds s.guards ∧ s.count = s.cap ∧
      step s (.attachN g l) = (s, .attachErr .AlreadyAttached) := by
  refine ⟨run (State.init 1 true 2 1 7) [.attachN 0 0], 1, 1, ⟨1, true, 2, 1, 7, _, rfl⟩, ?_⟩
  decide

/-- strongest true variant: unless the reactor is full (and checks that first), the refusal beyond the
capacity is InsufficientCapacity and nothing changes -/
theorem attach_notification_beyond_capacity_partial {s : State} (hr : Reachable s) (g l : Nat)
    (hg : guardOf g s.guards = none) (hl : l < s.nl) (hnot : l ∉ fds s.guards) (hc : s.count = s.cap)
    (hre : s.capFirst = false ∨ s.reactor.length < s.cap) :
    step s (.attachN g l) = (s, .attachErr .InsufficientCapacity) := by
  have h := reachable_inv hr
  have h1 : ¬ l ≥ s.nl := by omega
  have h2 : l ∉ s.reactor := h.reactor ▸ hnot
  have h3 : ¬ (s.capFirst = true ∧ s.cap ≤ s.reactor.length) := by
    rcases hre with e | e
    · simp [e]
    · omega
  simp [step, attachN, h1, hg, reactorAttach, h2, h3, hc]

/- FALSE as naturally stated ("a refused attach has no side effects"):
   theorem attach_deadline_refused_unchanged (h : (step s (.attachD g l p)).2 ≠ .ok) :
       (step s (.attachD g l p)).1 = s
   `attach_deadline` registers the pair (descriptor, deadline index) in both maps before
   `attach()` checks the capacity; on refusal the entries are not removed (waitset.rs:685-691). -/
theorem attach_deadline_refusal_unchanged_false :
    ∃ s g l p, Reachable s ∧ (step s (.attachD g l p)).2 = .attachErr .InsufficientCapacity ∧
      (step s (.attachD g l p)).1.a2d ≠ s.a2d ∧ (step s (.attachD g l p)).1.d2a ≠ s.d2a := by
  refine ⟨run (State.init 1 false 1 1 7) [.attachI 0 5], 1, 0, 5, ⟨1, false, 1, 1, 7, _, rfl⟩, ?_⟩
  decide

/-- strongest true variant: on refusal beyond the capacity the error is InsufficientCapacity; guards,
reactor, deadline queue, counter, pending events and clock are untouched; what stays behind is one
entry in each of the two maps (for a deadline index that is not and never will be in use) and the
id counter -/
theorem attach_deadline_beyond_capacity_partial {s : State} (hr : Reachable s) (g l p : Nat)
    (hg : guardOf g s.guards = none) (hl : l < s.nl) (hnot : l ∉ fds s.guards) (hc : s.count = s.cap)
    (hre : s.capFirst = false ∨ s.reactor.length < s.cap) :
    step s (.attachD g l p) =
      ({ s with idCount := s.idCount + 1, a2d := mapInsert l s.idCount s.a2d, d2a := mapInsert s.idCount l s.d2a },
       .attachErr .InsufficientCapacity) := by
  have h := reachable_inv hr
  have h1 : ¬ l ≥ s.nl := by omega
  have h2 : l ∉ s.reactor := h.reactor ▸ hnot
  have h3 : ¬ (s.capFirst = true ∧ s.cap ≤ s.reactor.length) := by
    rcases hre with e | e
    · simp [e]
    · omega
  simp [step, attachD, h1, hg, reactorAttach, h2, h3, hc]

/-- every refusal of `attach_deadline` leaves all components the dispatch depends on untouched … -/
theorem attach_deadline_refused_observables (s : State) (g l p : Nat)
    (h : (step s (.attachD g l p)).2 ≠ .ok) :
    let s' := (step s (.attachD g l p)).1
    s'.guards = s.guards ∧ s'.reactor = s.reactor ∧ s'.dq = s.dq ∧ s'.count = s.count ∧
      s'.pending = s.pending ∧ s'.prev = s.prev ∧ s'.now = s.now ∧ s'.cap = s.cap := by
  simp only [step, attachD] at h ⊢
  repeat' split <;> try simp
  all_goals (exfalso; apply h; simp_all)

/-- … hence the next processing call reports exactly what it would have reported without the refused
attempt (the entries left behind are never consulted with effect) -/
theorem refused_attach_deadline_same_reports {s : State} (hr : Reachable s) (g l p : Nat)
    (h : (step s (.attachD g l p)).2 ≠ .ok) (x : Nat × Kind) :
    x ∈ reportsOf (step s (.attachD g l p)).1 ↔ x ∈ reportsOf s := by
  have hr' := reachable_step hr (.attachD g l p)
  obtain ⟨hg, _, hdq, _, hp, hprev, hnow, _⟩ := attach_deadline_refused_observables s g l p h
  have hready : ∀ fd, ready (step s (.attachD g l p)).1 fd = ready s fd := by
    intro fd; simp only [ready, hp]
  obtain ⟨lbl, k⟩ := x
  cases k with
  | n =>
    rw [run_once_notification_exact hr', run_once_notification_exact hr]
    simp only [onFd, hg, hready]
  | t =>
    rw [run_once_tick_exact hr', run_once_tick_exact hr]
    simp only [expired, hg, hdq, hprev, hnow]
  | d =>
    rw [run_once_deadline_exact hr', run_once_deadline_exact hr]
    simp only [expired, hg, hdq, hprev, hnow, hready]

/-! ## (d) detaching and re-attaching -/

/-- dropping a guard removes exactly this attachment: its label, its descriptor in the reactor, its
entry in the deadline queue; the counter decreases by one; all other guards are untouched -/
theorem drop_guard_detaches {s : State} (hr : Reachable s) (g : Nat) (gd : Guard)
    (hg : guardOf g s.guards = some gd) :
    let s' := (step s (.dropGuard g)).1
    (step s (.dropGuard g)).2 = .ok ∧ guardOf g s'.guards = none ∧ s'.count + 1 = s.count ∧
      (∀ fd, fdOf gd = some fd → fd ∉ s'.reactor) ∧ (∀ i, idxOf gd = some i → ∀ a ∈ s'.dq, a.idx ≠ i) ∧
      (∀ g', g' ≠ g → guardOf g' s'.guards = guardOf g' s.guards) := by
  have h := reachable_inv hr
  have h' : Inv (step s (.dropGuard g)).1 := step_inv h _
  have hm := guardOf_eq_some hg
  have hlen := length_filter_label h.labels hm
  have hguards : (step s (.dropGuard g)).1.guards = s.guards.filter (fun e => e.1 != g) := by
    simp only [step, dropGuard, hg]; cases gd <;> rfl
  have hout : (step s (.dropGuard g)).2 = .ok := by
    simp only [step, dropGuard, hg]; cases gd <;> rfl
  have hnone : guardOf g (s.guards.filter (fun e => e.1 != g)) = none := by
    cases hgo : guardOf g (s.guards.filter (fun e => e.1 != g)) with
    | none => rfl
    | some x => exact absurd rfl (mem_filter_label.mp (guardOf_eq_some hgo)).2
  refine ⟨hout, hguards ▸ hnone, ?_, ?_, ?_, ?_⟩
  · have := h'.count
    rw [hguards] at this
    have := h.count
    omega
  · intro fd hfd hmem
    rw [h'.reactor, hguards] at hmem
    obtain ⟨g', gd', hm', hk⟩ := mem_fds.mp hmem
    have hm'' := mem_filter_label.mp hm'
    have := key_unique fdOf h.fdsNodup hm''.1 hm hk hfd
    exact hm''.2 (congrArg Prod.fst this)
  · intro i hi a ha hai
    have : a.idx ∈ (step s (.dropGuard g)).1.dq.map (·.idx) := List.mem_map.mpr ⟨a, ha, rfl⟩
    rw [h'.dq, hguards, hai] at this
    obtain ⟨g', gd', hm', hk⟩ := mem_idxs.mp this
    have hm'' := mem_filter_label.mp hm'
    have := key_unique idxOf h.idxNodup hm''.1 hm hk hi
    exact hm''.2 (congrArg Prod.fst this)
  · intro g' hne
    rw [hguards]
    cases hgo : guardOf g' s.guards with
    | some x =>
      exact guardOf_of_mem (List.Nodup.sublist (List.Sublist.map _ List.filter_sublist) h.labels)
        (mem_filter_label.mpr ⟨guardOf_eq_some hgo, hne⟩)
    | none =>
      cases hgo' : guardOf g' (s.guards.filter (fun e => e.1 != g)) with
      | none => rfl
      | some x => exact absurd (mem_filter_label.mp (guardOf_eq_some hgo')).1 (guardOf_eq_none hgo x)

/-- a guard that is not held (never attached, or dropped) is never reported -/
theorem dropped_guard_never_reported {s : State} (hr : Reachable s) (g : Nat)
    (hg : guardOf g s.guards = none) (k : Kind) : (g, k) ∉ reportsOf s := by
  intro hm
  obtain ⟨gd, hgd⟩ := run_once_sound hr hm
  rw [hg] at hgd
  cases hgd

theorem fds_length_le (gs : List (Nat × Guard)) : (fds gs).length ≤ gs.length :=
  List.length_filterMap_le _ _

/-- after its guard was dropped the object can be attached again (there is room, the descriptor is
free); the new attachment is an ordinary notification attachment under the new label -/
theorem reattach_notification_after_drop {s : State} (hr : Reachable s) (g l g2 : Nat)
    (hon : onFd s g l) (hg2 : guardOf g2 (step s (.dropGuard g)).1.guards = none) :
    let s1 := (step s (.dropGuard g)).1
    (step s1 (.attachN g2 l)).2 = .ok ∧
      (step s1 (.attachN g2 l)).1.guards = s1.guards ++ [(g2, .notif l)] ∧
      onFd (step s1 (.attachN g2 l)).1 g2 l := by
  have h := reachable_inv hr
  obtain ⟨gd, hgd, hfd⟩ : ∃ gd, guardOf g s.guards = some gd ∧ fdOf gd = some l := by
    rcases hon with e | ⟨i, e⟩
    · exact ⟨_, e, rfl⟩
    · exact ⟨_, e, rfl⟩
  obtain ⟨_, _, hcount, hre, _, _⟩ := drop_guard_detaches hr g gd hgd
  have hr1 := reachable_step hr (.dropGuard g)
  have h1 := reachable_inv hr1
  have hl : l < s.nl := h.fdLt l (mem_fds.mpr ⟨g, gd, guardOf_eq_some hgd, hfd⟩)
  have hnl : (step s (.dropGuard g)).1.nl = s.nl := by
    simp only [step, dropGuard, hgd]; cases gd <;> rfl
  have hcapeq : (step s (.dropGuard g)).1.cap = s.cap := by
    simp only [step, dropGuard, hgd]; cases gd <;> rfl
  have hroom : (step s (.dropGuard g)).1.count < (step s (.dropGuard g)).1.cap := by
    have := h.cap; omega
  have hrlen : (step s (.dropGuard g)).1.reactor.length < (step s (.dropGuard g)).1.cap := by
    have := fds_length_le (step s (.dropGuard g)).1.guards
    rw [← h1.reactor, ← h1.count] at this
    omega
  have hnotin := hre l hfd
  have hstep := attachN_accepted (g := g2) (hnl ▸ hl) hg2 hnotin hrlen (Nat.ne_of_lt hroom)
  refine ⟨by rw [hstep], by rw [hstep], ?_⟩
  left
  rw [hstep]
  have hlab := labels_append (g := g2) (.notif l) h1.labels (by simp [hg2])
  exact guardOf_of_mem hlab (List.mem_append_right _ (by simp))

/-- the same with a deadline: the new attachment gets a deadline index that was never used before and a
deadline that starts now — nothing is inherited from the previous attachment of the object -/
theorem reattach_deadline_after_drop {s : State} (hr : Reachable s) (g l g2 p : Nat)
    (hon : onFd s g l) (hg2 : guardOf g2 (step s (.dropGuard g)).1.guards = none) :
    let s1 := (step s (.dropGuard g)).1
    let s2 := (step s1 (.attachD g2 l p)).1
    (step s1 (.attachD g2 l p)).2 = .ok ∧
      guardOf g2 s2.guards = some (.deadline l s1.idCount) ∧
      s2.dq = s1.dq ++ [{ idx := s1.idCount, period := p, start := s1.now }] ∧
      (∀ a ∈ s.dq, a.idx ≠ s1.idCount) := by
  have h := reachable_inv hr
  obtain ⟨gd, hgd, hfd⟩ : ∃ gd, guardOf g s.guards = some gd ∧ fdOf gd = some l := by
    rcases hon with e | ⟨i, e⟩
    · exact ⟨_, e, rfl⟩
    · exact ⟨_, e, rfl⟩
  obtain ⟨_, _, hcount, hre, _, _⟩ := drop_guard_detaches hr g gd hgd
  have hr1 := reachable_step hr (.dropGuard g)
  have h1 := reachable_inv hr1
  have hl : l < s.nl := h.fdLt l (mem_fds.mpr ⟨g, gd, guardOf_eq_some hgd, hfd⟩)
  have hnl : (step s (.dropGuard g)).1.nl = s.nl := by
    simp only [step, dropGuard, hgd]; cases gd <;> rfl
  have hcapeq : (step s (.dropGuard g)).1.cap = s.cap := by
    simp only [step, dropGuard, hgd]; cases gd <;> rfl
  have hidc : (step s (.dropGuard g)).1.idCount = s.idCount := by
    simp only [step, dropGuard, hgd]; cases gd <;> rfl
  have hrlen : (step s (.dropGuard g)).1.reactor.length < (step s (.dropGuard g)).1.cap := by
    have := fds_length_le (step s (.dropGuard g)).1.guards
    rw [← h1.reactor, ← h1.count] at this
    have := h.cap
    omega
  have hnotin := hre l hfd
  have e4 : ¬ (step s (.dropGuard g)).1.count = (step s (.dropGuard g)).1.cap := by
    have := h.cap; omega
  have hstep := attachD_accepted (g := g2) (p := p) (hnl ▸ hl) hg2 hnotin hrlen e4
  refine ⟨by rw [hstep], ?_, by rw [hstep], ?_⟩
  · rw [hstep]
    have hlab := labels_append (g := g2) (.deadline l (step s (.dropGuard g)).1.idCount) h1.labels (by simp [hg2])
    exact guardOf_of_mem hlab (List.mem_append_right _ (by simp))
  · intro a ha hai
    have : a.idx ∈ s.dq.map (·.idx) := List.mem_map.mpr ⟨a, ha, rfl⟩
    rw [h.dq] at this
    have := h.idxLt _ this
    omega

/-! ## (e) len / capacity -/

theorem len_is_number_of_guards {s : State} (hr : Reachable s) :
    (step s .len).2 = .nat s.guards.length ∧ s.guards.length ≤ s.cap ∧ (step s .len).1 = s := by
  have h := reachable_inv hr
  refine ⟨by simp [step, h.count], h.count ▸ h.cap, rfl⟩

theorem step_cap (s : State) (op : Op) : (step s op).1.cap = s.cap := by
  cases op <;> simp only [step, attachN, attachD, attachI, dropGuard, runOnce] <;> (repeat' split) <;> rfl

/-- the capacity never changes and `capacity` reports it -/
theorem capacity_constant (s : State) (ops : List Op) :
    (run s ops).cap = s.cap ∧ (step (run s ops) .capacity).2 = .nat s.cap := by
  have : (run s ops).cap = s.cap := by
    induction ops generalizing s with
    | nil => rfl
    | cons op ops ih => rw [run, ih, step_cap]
  exact ⟨this, by simp [step, this]⟩

theorem is_empty_iff {s : State} (hr : Reachable s) :
    (step s .isEmpty).2 = .bool s.guards.isEmpty := by
  have h := reachable_inv hr
  simp only [step, h.count]
  cases s.guards <;> simp

/-- an accepted attachment increases `len` by one, a refused one leaves it -/
theorem len_after_attach (s : State) (op : Op)
    (hop : (∃ g l, op = .attachN g l) ∨ (∃ g l p, op = .attachD g l p) ∨ (∃ g p, op = .attachI g p)) :
    ((step s op).2 = .ok → (step s op).1.count = s.count + 1) ∧
    ((step s op).2 ≠ .ok → (step s op).1.count = s.count) := by
  rcases hop with ⟨g, l, rfl⟩ | ⟨g, l, p, rfl⟩ | ⟨g, p, rfl⟩
  · simp only [step, attachN]
    cases reactorAttach s l <;> (repeat' split) <;> simp_all
  · simp only [step, attachD]
    cases reactorAttach s l <;> (repeat' split) <;> simp_all
  · simp only [step, attachI]; (repeat' split) <;> simp_all

/-- dropping a held guard decreases `len` by one, dropping an unknown label changes nothing -/
theorem len_after_drop {s : State} (hr : Reachable s) (g : Nat) :
    (guardOf g s.guards = none → step s (.dropGuard g) = (s, .none)) ∧
    (∀ gd, guardOf g s.guards = some gd → (step s (.dropGuard g)).1.count + 1 = s.count) := by
  constructor
  · intro hg; simp [step, dropGuard, hg]
  · intro gd hg
    exact (drop_guard_detaches hr g gd hg).2.2.1

/-! ## non-vacuity: concrete histories that exercise the hypotheses -/

/-- two listeners; 0 attached as notification (guard 5), 1 as deadline 0 (guard 6), an interval that never
expires (guard 7); an event on listener 0 only: guard 5 gets the notification, guard 6 its (zero)
deadline, nothing for 7 -/
example : (step (run (State.init 4 true 2 1 7)
    [.attachN 5 0, .attachD 6 1 0, .attachI 7 1000000, .notify 0 2]) .runOnce).2
      = .reports [(6, .d), (5, .n)] := by decide

/-- the event is still reported by the second call, and no longer after the drain -/
example : (step (run (State.init 4 true 2 1 7) [.attachN 5 0, .notify 0 2, .runOnce]) .runOnce).2
      = .reports [(5, .n)] := by decide
example : (step (run (State.init 4 true 2 1 7) [.attachN 5 0, .notify 0 2, .runOnce, .drain 0]) .runOnce).2
      = .reports [] := by decide

/-- an interval of 2 units: not expired after 1, expired after 2, reported once -/
example : (run (State.init 4 false 1 1 7) [.attachI 0 2, .advance 1, .runOnce, .advance 1]).now = 2 := by decide
example : (step (run (State.init 4 false 1 1 7) [.attachI 0 2, .advance 1]) .runOnce).2 = .reports [] := by decide
example : (step (run (State.init 4 false 1 1 7) [.attachI 0 2, .advance 1, .runOnce, .advance 1]) .runOnce).2
      = .reports [(0, .t)] := by decide
example : (step (run (State.init 4 false 1 1 7) [.attachI 0 2, .advance 1, .runOnce, .advance 1, .runOnce]) .runOnce).2
      = .reports [] := by decide

/-- an event resets the deadline: missed at time 2 without the event, not missed with it -/
example : (step (run (State.init 4 false 1 1 7) [.attachD 0 0 2, .advance 2]) .runOnce).2
      = .reports [(0, .d)] := by decide
example : (step (run (State.init 4 false 1 1 7) [.attachD 0 0 2, .advance 2, .notify 0 1]) .runOnce).2
      = .reports [(0, .n)] := by decide

/-- capacity 1: the second attachment is refused, after a drop the descriptor is reused -/
example : (step (run (State.init 1 false 2 1 7) [.attachN 0 0]) (.attachN 1 1)).2
      = .attachErr .InsufficientCapacity := by decide
example : (step (run (State.init 1 false 2 1 7) [.attachN 0 0, .dropGuard 0]) (.attachN 1 0)).2 = .ok := by decide
example : (step (run (State.init 2 false 2 1 7) [.attachN 0 0]) (.attachD 1 0 5)).2
      = .attachErr .AlreadyAttached := by decide

end Iox2.C20
