/-
C09 / UniqueIndexSet (model Iox2/Model/UniqueIndexSet.lean).

Setting: ANY number of threads, ANY programs (acquire / release of an index the thread holds, with
or without lock-if-last / borrowed_indices), ANY capacity, all interleavings (`Reachable`).
The positive theorems are for the idealised ABA tag that never wraps (`M = 0`); the code's tag has
16 bits (`M = 65536`) — `uis_tag_wrap_breaks` shows what a wrap does (finding D6).
-/
import Iox2.Model.UniqueIndexSet

namespace Iox2.C09.UisP
open Iox2.Sched Iox2.UIS

def initCfg (cap M : Nat) (progs : List (List Cmd)) : Cfg Sh Th :=
  { sh := Sh.init cap M, th := progs.map Th.init }

/-- indices a thread owns: those returned by `acquire` and not yet given to `release`, the one
taken by a successful acquire-CAS whose call has not returned yet, and the one a `release` in
progress has not yet linked back (its CAS has not succeeded) -/
def owned (t : Th) : List Nat :=
  t.held ++ (match t.pc with
    | .aDist2 i | .aCellWrite i | .aFence i => [i]
    | .rFence i _ | .rLdHead i _ | .rDist i _ _ | .rCellWrite i _ _ | .rCas i _ _ => [i]
    | _ => [])

/-- the free list reachable from the head, following `next`, at most `fuel` links -/
def freeChain (s : Sh) : Nat → Nat → List Nat
  | 0, _ => []
  | fuel + 1, i => if i < s.cap then i :: freeChain s fuel (s.next.getD i 0) else []

def allOwned (c : Cfg Sh Th) : List Nat := (c.th.map owned).flatten

/-! ## strings -/
theorem ok_ne_ooi (idx : Nat) : s!"acquire ok:{idx}" ≠ "acquire err:OutOfIndices" := by
  intro h
  have := congrArg (fun s => s.toList.take 9) h
  simp [toString, String.toList_append] at this
theorem ok_ne_locked (idx : Nat) : s!"acquire ok:{idx}" ≠ "acquire err:IsLocked" := by
  intro h
  have := congrArg (fun s => s.toList.take 9) h
  simp [toString, String.toList_append] at this
theorem ok_ne_rel (idx : Nat) : s!"acquire ok:{idx}" ≠ "release locked" := by
  intro h
  have := congrArg (fun s => s.toList.take 1) h
  simp [toString, String.toList_append] at this
theorem bor_ne_ooi (n : Nat) : s!"borrowed {n}" ≠ "acquire err:OutOfIndices" := by
  intro h
  have := congrArg (fun s => s.toList.take 1) h
  simp [toString, String.toList_append] at this
theorem bor_ne_locked (n : Nat) : s!"borrowed {n}" ≠ "acquire err:IsLocked" := by
  intro h
  have := congrArg (fun s => s.toList.take 1) h
  simp [toString, String.toList_append] at this
theorem bor_ne_rel (n : Nat) : s!"borrowed {n}" ≠ "release locked" := by
  intro h
  have := congrArg (fun s => s.toList.take 1) h
  simp [toString, String.toList_append] at this

/-! ## lists -/
theorem getD_set_ne (l : List Nat) (i j v d : Nat) (h : i ≠ j) : (l.set i v).getD j d = l.getD j d := by
  simp [List.getD_eq_getElem?_getD, List.getElem?_set_ne h]
theorem getD_set_self (l : List Nat) (i v d : Nat) (h : i < l.length) : (l.set i v).getD i d = v := by
  simp [List.getD_eq_getElem?_getD, List.getElem?_set_self h]

/-! ## the step relation -/
theorem stepAt_some {c c' : Cfg Sh Th} {i : Nat} {evs : List Ev} (h : sys.stepAt c i = some (c', evs)) :
    ∃ t sh' t', c.th[i]? = some t ∧ step c.sh t = some (sh', t', evs) ∧ c' = { sh := sh', th := c.th.set i t' } := by
  unfold Sys.stepAt at h
  split at h
  · cases h
  · rename_i t ht
    simp only [sys] at h
    split at h
    · cases h
    · rename_i sh' t' evs' hst
      cases h
      exact ⟨t, sh', t', ht, hst, rfl⟩

/-- the thread state after the (silent) command fetch -/
def Pre (t t0 : Th) : Prop :=
  t0 = t ∨ (t.pc = .idle ∧ ∃ c rest, nextCmd t t.todo = some (c, rest) ∧ t0 = start { t with todo := rest } c)

theorem step_pre {s : Sh} {t : Th} {r} (h : step s t = some r) : ∃ t0, Pre t t0 ∧ stepPC s t0 = some r := by
  unfold step at h
  split at h
  · rename_i hpc
    split at h
    · cases h
    · rename_i c rest hn
      exact ⟨_, Or.inr ⟨hpc, c, rest, hn, rfl⟩, h⟩
  · exact ⟨t, Or.inl rfl, h⟩

theorem nextCmd_enabled (t : Th) (l : List Cmd) (c : Cmd) (rest : List Cmd) (h : nextCmd t l = some (c, rest)) :
    enabled t c = true := by
  induction l with
  | nil => simp [nextCmd] at h
  | cons a l ih =>
    simp only [nextCmd] at h
    split at h
    · cases h; assumption
    · exact ih h

theorem perm_eraseIdx (l : List Nat) (p : Nat) (h : p < l.length) : (l.eraseIdx p ++ [l.getD p 0]).Perm l := by
  induction l generalizing p with
  | nil => simp at h
  | cons a l ih =>
    cases p with
    | zero => simp
    | succ p =>
      simp at h
      have := ih p h
      simp
      simpa using this

theorem pre_owned {t t0 : Th} (h : Pre t t0) : (owned t0).Perm (owned t) := by
  rcases h with rfl | ⟨hpc, c, rest, hn, rfl⟩
  · exact List.Perm.refl _
  · have hen := nextCmd_enabled _ _ _ _ hn
    cases c with
    | acquire => simp [start, owned, hpc]
    | borrowed => simp [start, owned, hpc]
    | release pos m =>
      simp [enabled] at hen
      simp [start, owned, hpc]
      exact perm_eraseIdx _ _ hen

/-! ## the invariant -/
/-- `ch` is the list of cells visited from `h` following `next` until a value `≥ cap` -/
def IsChain (cap : Nat) (next : List Nat) : List Nat → Nat → Prop
  | [], h => cap ≤ h
  | a :: r, h => a = h ∧ h < cap ∧ IsChain cap next r (next.getD h 0)

theorem freeChain_eq (s : Sh) (ch : List Nat) (h fuel : Nat) (hc : IsChain s.cap s.next ch h) (hf : ch.length < fuel) :
    freeChain s fuel h = ch := by
  induction ch generalizing h fuel with
  | nil =>
    cases fuel with
    | zero => rfl
    | succ f => simp [IsChain] at hc; simp [freeChain]; omega
  | cons a r ih =>
    obtain ⟨rfl, h1, h2⟩ := hc
    cases fuel with
    | zero => simp at hf
    | succ f =>
      simp at hf
      show (if a < s.cap then a :: freeChain s f (s.next.getD a 0) else []) = a :: r
      rw [if_pos h1, ih _ f h2 hf]

theorem IsChain.frame {cap : Nat} {next : List Nat} {ch : List Nat} {h : Nat} (j v : Nat)
    (hc : IsChain cap next ch h) (hj : j ∉ ch) : IsChain cap (next.set j v) ch h := by
  induction ch generalizing h with
  | nil => exact hc
  | cons a r ih =>
    obtain ⟨rfl, h1, h2⟩ := hc
    simp at hj
    refine ⟨rfl, h1, ?_⟩
    rw [getD_set_ne _ _ _ _ _ hj.1]
    exact ih h2 hj.2

/-- a head snapshot: not newer than the head, and equal to it if the tag is the same -/
def Snap (s : Sh) (old : Head) : Prop := old.aba ≤ s.hd.aba ∧ (old.aba = s.hd.aba → old = s.hd)

def ThInv (s : Sh) (t : Th) : Prop :=
  match t.pc with
  | .aDist old | .aCellRead old => Snap s old ∧ old.head < s.cap ∧ old.borrowed ≠ LOCK
  | .aCas old nx => Snap s old ∧ old.head < s.cap ∧ old.borrowed ≠ LOCK ∧ (old.aba = s.hd.aba → nx = s.next.getD old.head 0)
  | .rDist _ _ old | .rCellWrite _ _ old => Snap s old
  | .rCas idx _ old => Snap s old ∧ s.next.getD idx 0 = old.head
  | _ => True

structure Inv (cap : Nat) (c : Cfg Sh Th) : Prop where
  hcap : c.sh.cap = cap
  hM : c.sh.M = 0
  hlen : c.sh.next.length = cap + 1
  chain : ∃ ch, IsChain cap c.sh.next ch c.sh.hd.head ∧ (allOwned c ++ ch).Perm (List.range cap)
  cnt : (c.sh.hd.borrowed = LOCK ∧ allOwned c = []) ∨ c.sh.hd.borrowed = (allOwned c).length
  thr : ∀ (j : Nat) (u : Th), c.th[j]? = some u → ThInv c.sh u

theorem flatten_split (th : List Th) (i : Nat) (t : Th) (ht : th[i]? = some t) :
    ∃ rest, (∀ t', ((th.set i t').map owned).flatten.Perm (owned t' ++ rest)) ∧
      (∀ j u, j ≠ i → th[j]? = some u → ∀ x ∈ owned u, x ∈ rest) := by
  induction th generalizing i with
  | nil => simp at ht
  | cons a l ih =>
    cases i with
    | zero =>
      refine ⟨(l.map owned).flatten, ?_, ?_⟩
      · intro t'; simp
      · intro j u hj hu x hx
        cases j with
        | zero => exact absurd rfl hj
        | succ k =>
          simp at hu
          simp only [List.mem_flatten, List.mem_map]
          exact ⟨owned u, ⟨u, List.mem_of_getElem? hu, rfl⟩, hx⟩
    | succ i' =>
      simp at ht
      obtain ⟨rest', h1, h2⟩ := ih i' ht
      refine ⟨owned a ++ rest', ?_, ?_⟩
      · intro t'
        simp only [List.set_cons_succ, List.map_cons, List.flatten_cons]
        refine (List.Perm.append_left _ (h1 t')).trans ?_
        simp only [← List.append_assoc]
        exact List.Perm.append_right _ List.perm_append_comm
      · intro j u hj hu x hx
        cases j with
        | zero => simp at hu; subst hu; simp [hx]
        | succ k =>
          simp at hu
          have : k ≠ i' := by omega
          simp [h2 k u this hu x hx]

theorem allOwned_split (c : Cfg Sh Th) (i : Nat) (t : Th) (ht : c.th[i]? = some t) :
    ∃ rest, (∀ sh' t', (allOwned { sh := sh', th := c.th.set i t' }).Perm (owned t' ++ rest)) ∧
      (allOwned c).Perm (owned t ++ rest) ∧
      (∀ j u, j ≠ i → c.th[j]? = some u → ∀ x ∈ owned u, x ∈ rest) := by
  obtain ⟨rest, h1, h2⟩ := flatten_split c.th i t ht
  refine ⟨rest, fun _ t' => h1 t', ?_, h2⟩
  have := h1 t
  have hset : c.th.set i t = c.th := by
    obtain ⟨hi, rfl⟩ := List.getElem?_eq_some_iff.mp ht
    exact List.set_getElem_self hi
  rw [hset] at this
  exact this

theorem inv_mk {cap : Nat} {c : Cfg Sh Th} {i : Nat} {rest : List Nat}
    (hsplit : ∀ sh' t', (allOwned { sh := sh', th := c.th.set i t' }).Perm (owned t' ++ rest))
    (sh' : Sh) (t' : Th)
    (h1 : sh'.cap = cap) (h2 : sh'.M = 0) (h3 : sh'.next.length = cap + 1)
    (h4 : ∃ ch, IsChain cap sh'.next ch sh'.hd.head ∧ (owned t' ++ rest ++ ch).Perm (List.range cap))
    (h5 : (sh'.hd.borrowed = LOCK ∧ owned t' ++ rest = []) ∨ sh'.hd.borrowed = (owned t' ++ rest).length)
    (h6 : ThInv sh' t')
    (h7 : ∀ (j : Nat) (u : Th), j ≠ i → c.th[j]? = some u → ThInv sh' u) :
    Inv cap { sh := sh', th := c.th.set i t' } := by
  have hp := hsplit sh' t'
  refine ⟨h1, h2, h3, ?_, ?_, ?_⟩
  · obtain ⟨ch, hc, hperm⟩ := h4
    exact ⟨ch, hc, (List.Perm.append_right _ hp).trans hperm⟩
  · rcases h5 with ⟨hl, he⟩ | hl
    · left
      refine ⟨hl, ?_⟩
      rw [he] at hp
      exact List.Perm.eq_nil hp
    · right
      rw [hl]; exact hp.length_eq.symm
  · intro j u hu
    simp only at hu
    by_cases hji : j = i
    · subst hji
      rw [List.getElem?_set_self'] at hu
      cases hcj : c.th[j]? with
      | none => simp [hcj] at hu
      | some w => simp [hcj] at hu; subst hu; exact h6
    · rw [List.getElem?_set_ne (Ne.symm hji)] at hu
      exact h7 j u hji hu

theorem ThInv.bump {s s' : Sh} {u : Th} (h : ThInv s u) (hc : s'.cap = s.cap) (hn : s'.next = s.next)
    (ha : s'.hd.aba = s.hd.aba + 1) : ThInv s' u := by
  unfold ThInv Snap at *
  split <;> simp_all <;> omega

theorem ThInv.same {s s' : Sh} {u : Th} (h : ThInv s u) (hc : s'.cap = s.cap) (hn : s'.next = s.next)
    (ha : s'.hd = s.hd) : ThInv s' u := by
  unfold ThInv Snap at *
  split <;> simp_all

/-- kind 1: a step that touches neither the head nor a cell -/
theorem inv_local {cap : Nat} {c : Cfg Sh Th} {i : Nat} {t : Th} (hI : Inv cap c) (ht : c.th[i]? = some t)
    (t' : Th) (ho : (owned t').Perm (owned t)) (hth : ThInv c.sh t') :
    Inv cap { sh := c.sh, th := c.th.set i t' } := by
  obtain ⟨rest, hsplit, hc, hoth⟩ := allOwned_split c i t ht
  obtain ⟨ch, hch, hperm⟩ := hI.chain
  refine inv_mk hsplit c.sh t' hI.hcap hI.hM hI.hlen ⟨ch, hch, ?_⟩ ?_ hth (fun j u _ hu => hI.thr j u hu)
  · exact ((List.Perm.append_right _ (List.Perm.append_right _ ho)).trans (List.Perm.append_right _ hc.symm)).trans hperm
  · have hp : (allOwned c).Perm (owned t' ++ rest) := hc.trans (List.Perm.append_right _ ho.symm)
    rcases hI.cnt with ⟨hl, he⟩ | hl
    · left; rw [he] at hp; exact ⟨hl, List.Perm.eq_nil hp.symm⟩
    · right; rw [hl]; exact hp.length_eq

theorem IsChain.head_mem {cap : Nat} {next : List Nat} {ch : List Nat} {h : Nat}
    (hc : IsChain cap next ch h) (hlt : h < cap) : h ∈ ch := by
  cases ch with
  | nil => simp [IsChain] at hc; omega
  | cons a r => simp [hc.1]

theorem ThInv.cell {s : Sh} {u : Th} (idx v : Nat) (h : ThInv s u)
    (h1 : s.hd.head < s.cap → idx ≠ s.hd.head) (h2 : idx ∉ owned u) :
    ThInv { s with next := s.next.set idx v } u := by
  obtain ⟨pc, todo, held⟩ := u
  cases pc <;> simp only [ThInv, Snap, owned] at h h2 ⊢ <;> try exact h
  case aCas old nx =>
    obtain ⟨hs, hlt, hb, hnx⟩ := h
    refine ⟨hs, hlt, hb, ?_⟩
    intro he
    have := hs.2 he
    subst this
    rw [getD_set_ne _ _ _ _ _ (h1 hlt)]
    exact hnx he
  case rCas idx' m old =>
    obtain ⟨hs, hnx⟩ := h
    refine ⟨hs, ?_⟩
    have : idx ≠ idx' := by intro he; subst he; simp at h2
    rw [getD_set_ne _ _ _ _ _ this]
    exact hnx

theorem nodup_disj {a b : List Nat} (h : (a ++ b).Nodup) {x : Nat} (ha : x ∈ a) (hb : x ∈ b) : False := by
  rw [List.nodup_append] at h
  exact h.2.2 x ha x hb rfl

/-- kind 2: the owner of `idx` writes the cell `next[idx]` -/
theorem inv_cell {cap : Nat} {c : Cfg Sh Th} {i : Nat} {t : Th} (hI : Inv cap c) (ht : c.th[i]? = some t)
    (idx v : Nat) (hidx : idx ∈ owned t)
    (t' : Th) (ho : owned t' = owned t) (hth : ThInv { c.sh with next := c.sh.next.set idx v } t') :
    Inv cap { sh := { c.sh with next := c.sh.next.set idx v }, th := c.th.set i t' } := by
  obtain ⟨rest, hsplit, hc, hoth⟩ := allOwned_split c i t ht
  obtain ⟨ch, hch, hperm⟩ := hI.chain
  have hperm' : (owned t ++ rest ++ ch).Perm (List.range cap) := (List.Perm.append_right _ hc.symm).trans hperm
  have hnd : (owned t ++ rest ++ ch).Nodup := hperm'.nodup_iff.mpr List.nodup_range
  have hnch : idx ∉ ch := fun hm => nodup_disj hnd (List.mem_append_left _ hidx) hm
  refine inv_mk hsplit _ t' hI.hcap hI.hM (by simp [hI.hlen]) ⟨ch, hch.frame idx v hnch, ?_⟩ ?_ hth ?_
  · rw [ho]; exact hperm'
  · rw [ho]
    rcases hI.cnt with ⟨hl, he⟩ | hl
    · left; rw [he] at hc; exact ⟨hl, List.Perm.eq_nil hc.symm⟩
    · right; simp only; rw [hl]; exact hc.length_eq
  · intro j u hj hu
    refine ThInv.cell idx v (hI.thr j u hu) ?_ ?_
    · intro hlt he
      rw [hI.hcap] at hlt
      exact hnch (he ▸ hch.head_mem hlt)
    · intro hm
      have hnd' : (owned t ++ rest).Nodup := (List.nodup_append.mp hnd).1
      exact nodup_disj hnd' hidx (hoth j u hj hu idx hm)

theorem LOCK_ne_one : LOCK ≠ 1 := by decide

/-- kind 3a: a successful acquire CAS -/
theorem inv_acq {cap : Nat} {c : Cfg Sh Th} {i : Nat} {t : Th} (hI : Inv cap c) (ht : c.th[i]? = some t)
    (old : Head) (nx : Nat) (hpc : t.pc = .aCas old nx) (heq : c.sh.hd = old) :
    Inv cap { sh := { c.sh with hd := { head := nx, aba := bump c.sh.M old.aba, borrowed := old.borrowed + 1 } },
              th := c.th.set i { t with pc := .aDist2 old.head } } := by
  obtain ⟨rest, hsplit, hc, hoth⟩ := allOwned_split c i t ht
  obtain ⟨ch, hch, hperm⟩ := hI.chain
  have hperm' : (owned t ++ rest ++ ch).Perm (List.range cap) := (List.Perm.append_right _ hc.symm).trans hperm
  have hT := hI.thr i t ht
  simp only [ThInv, hpc] at hT
  obtain ⟨hs, hlt, hb, hnx⟩ := hT
  subst heq
  have hnx := hnx rfl
  rw [hI.hcap] at hlt
  have hot : owned t = t.held := by simp [owned, hpc]
  have hbump : bump c.sh.M c.sh.hd.aba = c.sh.hd.aba + 1 := by simp [bump, hI.hM]
  cases ch with
  | nil => simp [IsChain] at hch; omega
  | cons a r =>
    obtain ⟨rfl, -, hr⟩ := hch
    refine inv_mk hsplit _ _ hI.hcap hI.hM hI.hlen ⟨r, ?_, ?_⟩ ?_ ?_ ?_
    · simp only [hnx]; exact hr
    · refine List.Perm.trans ?_ hperm'
      rw [hot]
      simp only [owned]
      rw [List.perm_iff_count]
      intro x
      simp [List.count_append, List.count_cons]
      omega
    · right
      simp only [owned, List.length_append, List.length_cons, List.length_nil]
      rcases hI.cnt with ⟨hl, -⟩ | hl
      · exact absurd hl hb
      · rw [hl, hc.length_eq, hot]; simp; omega
    · simp [ThInv]
    · intro j u _ hu
      exact (hI.thr j u hu).bump rfl rfl hbump

/-- kind 3b: a successful release CAS -/
theorem inv_rel {cap : Nat} {c : Cfg Sh Th} {i : Nat} {t : Th} (hI : Inv cap c) (ht : c.th[i]? = some t)
    (idx : Nat) (m : Mode) (old : Head) (hpc : t.pc = .rCas idx m old) (heq : c.sh.hd = old) :
    Inv cap { sh := { c.sh with hd := { head := idx, aba := bump c.sh.M old.aba,
                                        borrowed := if m = .lockIfLast ∧ old.borrowed = 1 then LOCK else old.borrowed - 1 } },
              th := c.th.set i { t with pc := .idle } } := by
  obtain ⟨rest, hsplit, hc, hoth⟩ := allOwned_split c i t ht
  obtain ⟨ch, hch, hperm⟩ := hI.chain
  have hperm' : (owned t ++ rest ++ ch).Perm (List.range cap) := (List.Perm.append_right _ hc.symm).trans hperm
  have hT := hI.thr i t ht
  simp only [ThInv, hpc] at hT
  obtain ⟨hs, hnx⟩ := hT
  subst heq
  have hot : owned t = t.held ++ [idx] := by simp [owned, hpc]
  have hbump : bump c.sh.M c.sh.hd.aba = c.sh.hd.aba + 1 := by simp [bump, hI.hM]
  have hidx : idx < cap := by
    have : idx ∈ List.range cap := hperm'.subset (by simp [hot])
    simpa using this
  have hlen : (allOwned c).length = t.held.length + 1 + rest.length := by
    rw [hc.length_eq, hot]; simp; omega
  refine inv_mk hsplit _ _ hI.hcap hI.hM hI.hlen ⟨idx :: ch, ⟨rfl, hidx, ?_⟩, ?_⟩ ?_ ?_ ?_
  · simp only [hnx]; exact hch
  · refine List.Perm.trans ?_ hperm'
    rw [hot]
    simp only [owned]
    rw [List.perm_iff_count]
    intro x
    simp [List.count_append, List.count_cons]
    omega
  · have hne : allOwned c ≠ [] := by
      intro he; rw [he] at hlen; simp at hlen; omega
    have hl : c.sh.hd.borrowed = (allOwned c).length := by
      rcases hI.cnt with ⟨-, he⟩ | hl
      · exact absurd he hne
      · exact hl
    simp only [owned, List.append_nil]
    split
    · rename_i hlock
      left
      refine ⟨rfl, ?_⟩
      have : t.held.length + rest.length = 0 := by omega
      have h1 : t.held = [] := List.eq_nil_of_length_eq_zero (by omega)
      have h2 : rest = [] := List.eq_nil_of_length_eq_zero (by omega)
      simp [h1, h2]
    · right
      simp only [List.length_append]
      omega
  · simp [ThInv]
  · intro j u _ hu
    exact (hI.thr j u hu).bump rfl rfl hbump

theorem Snap.refl (s : Sh) : Snap s s.hd := ⟨Nat.le_refl _, fun _ => rfl⟩

theorem inv_acquireCheck {cap : Nat} {c : Cfg Sh Th} {i : Nat} {t : Th} (hI : Inv cap c) (ht : c.th[i]? = some t)
    (hown : owned t = t.held) (ev : Ev) {sh' : Sh} {t' : Th} {evs : List Ev}
    (h : acquireCheck c.sh t c.sh.hd ev = (sh', t', evs)) : Inv cap { sh := sh', th := c.th.set i t' } := by
  unfold acquireCheck at h
  split at h
  · cases h
    exact inv_local hI ht _ (by rw [hown]; simp [owned]) (by simp [ThInv])
  · split at h
    · cases h
      exact inv_local hI ht _ (by rw [hown]; simp [owned]) (by simp [ThInv])
    · cases h
      refine inv_local hI ht _ (by rw [hown]; simp [owned]) ?_
      simp only [ThInv]
      exact ⟨Snap.refl _, by omega, by assumption⟩

theorem inv_stepPC {cap : Nat} {c : Cfg Sh Th} {i : Nat} {t : Th} (hI : Inv cap c) (ht : c.th[i]? = some t)
    {sh' : Sh} {t' : Th} {evs : List Ev} (hs : stepPC c.sh t = some (sh', t', evs)) :
    Inv cap { sh := sh', th := c.th.set i t' } := by
  have hT := hI.thr i t ht
  unfold stepPC at hs
  split at hs
  · cases hs
  · -- aLdHead
    rename_i hpc
    simp only [Option.some.injEq] at hs
    exact inv_acquireCheck hI ht (by simp [owned, hpc]) _ hs
  · -- aDist
    rename_i old hpc
    cases hs
    simp only [ThInv, hpc] at hT
    exact inv_local hI ht _ (by simp [owned, hpc]) (by simpa [ThInv] using hT)
  · -- aCellRead
    rename_i old hpc
    cases hs
    simp only [ThInv, hpc] at hT
    exact inv_local hI ht _ (by simp [owned, hpc]) (by simpa [ThInv] using hT)
  · -- aCas
    rename_i old nx hpc
    split at hs
    · rename_i heq
      cases hs
      exact inv_acq hI ht old nx hpc heq
    · simp only [Option.some.injEq] at hs
      exact inv_acquireCheck hI ht (by simp [owned, hpc]) _ hs
  · -- aDist2
    rename_i idx hpc
    cases hs
    exact inv_local hI ht _ (by simp [owned, hpc]) (by simp [ThInv])
  · -- aCellWrite
    rename_i idx hpc
    cases hs
    exact inv_cell hI ht idx (c.sh.cap + 1) (by simp [owned, hpc]) { t with pc := .aFence idx } (by simp [owned, hpc]) (by simp [ThInv])
  · -- aFence
    rename_i idx hpc
    cases hs
    exact inv_local hI ht _ (by simp [owned, hpc]) (by simp [ThInv])
  · -- rFence
    rename_i idx m hpc
    cases hs
    exact inv_local hI ht _ (by simp [owned, hpc]) (by simp [ThInv])
  · -- rLdHead
    rename_i idx m hpc
    cases hs
    exact inv_local hI ht _ (by simp [owned, hpc]) (by simp only [ThInv]; exact Snap.refl _)
  · -- rDist
    rename_i idx m old hpc
    cases hs
    simp only [ThInv, hpc] at hT
    exact inv_local hI ht _ (by simp [owned, hpc]) (by simpa [ThInv] using hT)
  · -- rCellWrite
    rename_i idx m old hpc
    cases hs
    simp only [ThInv, hpc] at hT
    have hidx : idx < c.sh.next.length := by
      obtain ⟨rest, -, hc, -⟩ := allOwned_split c i t ht
      obtain ⟨ch, -, hperm⟩ := hI.chain
      have : idx ∈ List.range cap :=
        hperm.subset (List.mem_append_left _ (hc.symm.subset (by simp [owned, hpc])))
      rw [hI.hlen]; simp at this; omega
    refine inv_cell hI ht idx old.head (by simp [owned, hpc]) { t with pc := .rCas idx m old } (by simp [owned, hpc]) ?_
    simp only [ThInv]
    exact ⟨hT, getD_set_self _ _ _ _ hidx⟩
  · -- rCas
    rename_i idx m old hpc
    dsimp only at hs
    split at hs
    · rename_i heq
      cases hs
      exact inv_rel hI ht idx m old hpc heq
    · cases hs
      exact inv_local hI ht _ (by simp [owned, hpc]) (by simp only [ThInv]; exact Snap.refl _)
  · -- bLd
    rename_i hpc
    cases hs
    exact inv_local hI ht _ (by simp [owned, hpc]) (by simp [ThInv])

theorem pre_thinv {s : Sh} {t t0 : Th} (h : Pre t t0) (hT : ThInv s t) : ThInv s t0 := by
  rcases h with rfl | ⟨hpc, c, rest, hn, rfl⟩
  · exact hT
  · cases c <;> simp [start, ThInv]

theorem inv_pre {cap : Nat} {c : Cfg Sh Th} {i : Nat} {t t0 : Th} (hI : Inv cap c) (ht : c.th[i]? = some t)
    (hpre : Pre t t0) : Inv cap { sh := c.sh, th := c.th.set i t0 } :=
  inv_local hI ht t0 (pre_owned hpre) (pre_thinv hpre (hI.thr i t ht))

theorem getElem?_set_same {c : Cfg Sh Th} {i : Nat} {t : Th} (ht : c.th[i]? = some t) (t0 : Th) :
    (c.th.set i t0)[i]? = some t0 := by
  obtain ⟨hi, -⟩ := List.getElem?_eq_some_iff.mp ht
  exact List.getElem?_set_self hi

theorem inv_step {cap : Nat} {c c' : Cfg Sh Th} {i : Nat} {evs : List Ev} (hI : Inv cap c)
    (hs : sys.stepAt c i = some (c', evs)) : Inv cap c' := by
  obtain ⟨t, sh', t', ht, hst, rfl⟩ := stepAt_some hs
  obtain ⟨t0, hpre, hpc⟩ := step_pre hst
  have := inv_stepPC (c := { sh := c.sh, th := c.th.set i t0 }) (inv_pre hI ht hpre) (getElem?_set_same ht t0) hpc
  simpa [List.set_set] using this

theorem allOwned_init (cap M : Nat) (progs : List (List Cmd)) : allOwned (initCfg cap M progs) = [] := by
  simp only [allOwned, initCfg]
  induction progs with
  | nil => rfl
  | cons p ps ih => simp [Th.init, owned]

theorem init_next (cap h : Nat) (hh : h < cap + 1) : ((List.range (cap + 1)).map (· + 1)).getD h 0 = h + 1 := by
  simp [List.getD_eq_getElem?_getD, hh]

theorem init_chain (cap n h : Nat) (hn : h + n = cap) :
    IsChain cap ((List.range (cap + 1)).map (· + 1)) (List.range' h n) h := by
  induction n generalizing h with
  | zero => simp [IsChain]; omega
  | succ n ih =>
    rw [List.range'_succ]
    refine ⟨rfl, by omega, ?_⟩
    rw [init_next cap h (by omega)]
    exact ih (h + 1) (by omega)

theorem inv_init (cap : Nat) (progs : List (List Cmd)) : Inv cap (initCfg cap 0 progs) := by
  refine ⟨rfl, rfl, by simp [initCfg, Sh.init], ⟨List.range cap, ?_, ?_⟩, ?_, ?_⟩
  · rw [List.range_eq_range']
    exact init_chain cap cap 0 (by omega)
  · rw [allOwned_init]; exact List.Perm.refl _
  · right; rw [allOwned_init]; rfl
  · intro j u hu
    simp only [initCfg, List.getElem?_map] at hu
    cases hp : progs[j]? with
    | none => simp [hp] at hu
    | some p => simp [hp] at hu; subst hu; simp [ThInv, Th.init]

theorem inv_reachable {cap : Nat} {progs : List (List Cmd)} {c : Cfg Sh Th}
    (h : Reachable sys (initCfg cap 0 progs) c) : Inv cap c :=
  Reachable.inv (Inv cap) (inv_init cap progs) (fun _ _ _ _ hI hs => inv_step hI hs) c h

/-! ## what the `ret` events tell -/
theorem acquireCheck_rets {s : Sh} {t : Th} {old : Head} {ev : Ev} {sh' : Sh} {t' : Th} {evs : List Ev}
    (hev : ∀ x, ev ≠ .ret x) (h : acquireCheck s t old ev = (sh', t', evs)) :
    (Ev.ret "acquire err:OutOfIndices" ∈ evs → old.head ≥ s.cap ∧ sh' = s) ∧
    (Ev.ret "acquire err:IsLocked" ∈ evs → old.borrowed = LOCK ∧ sh' = s) ∧
    (Ev.ret "release locked" ∉ evs) := by
  unfold acquireCheck at h
  split at h
  · cases h
    refine ⟨fun _ => ⟨by assumption, rfl⟩, ?_, ?_⟩
    · intro hm
      simp only [List.mem_cons, List.mem_nil_iff, or_false] at hm
      rcases hm with hm | hm
      · exact absurd hm.symm (hev _)
      · simp only [Ev.ret.injEq] at hm; exact absurd hm (by decide)
    · intro hm
      simp only [List.mem_cons, List.mem_nil_iff, or_false] at hm
      rcases hm with hm | hm
      · exact absurd hm.symm (hev _)
      · simp only [Ev.ret.injEq] at hm; exact absurd hm (by decide)
  · split at h
    · cases h
      refine ⟨?_, fun _ => ⟨by assumption, rfl⟩, ?_⟩
      · intro hm
        simp only [List.mem_cons, List.mem_nil_iff, or_false] at hm
        rcases hm with hm | hm
        · exact absurd hm.symm (hev _)
        · simp only [Ev.ret.injEq] at hm; exact absurd hm (by decide)
      · intro hm
        simp only [List.mem_cons, List.mem_nil_iff, or_false] at hm
        rcases hm with hm | hm
        · exact absurd hm.symm (hev _)
        · simp only [Ev.ret.injEq] at hm; exact absurd hm (by decide)
    · cases h
      refine ⟨?_, ?_, ?_⟩ <;>
      · intro hm
        simp only [List.mem_cons, List.mem_nil_iff, or_false] at hm
        exact absurd hm.symm (hev _)

theorem stepPC_rets {s : Sh} {t : Th} {sh' : Sh} {t' : Th} {evs : List Ev}
    (h : stepPC s t = some (sh', t', evs)) :
    (Ev.ret "acquire err:OutOfIndices" ∈ evs → s.hd.head ≥ s.cap ∧ sh' = s) ∧
    (Ev.ret "acquire err:IsLocked" ∈ evs → s.hd.borrowed = LOCK ∧ sh' = s) ∧
    (Ev.ret "release locked" ∈ evs → s.hd.borrowed = 1 ∧ sh'.hd.borrowed = LOCK) := by
  unfold stepPC at h
  split at h
  · cases h
  · simp only [Option.some.injEq] at h
    have := acquireCheck_rets (by intro x; simp) h
    exact ⟨this.1, this.2.1, fun hm => absurd hm this.2.2⟩
  · cases h; simp
  · cases h; simp
  · split at h
    · cases h; simp
    · simp only [Option.some.injEq] at h
      have := acquireCheck_rets (by intro x; simp) h
      exact ⟨this.1, this.2.1, fun hm => absurd hm this.2.2⟩
  · cases h; simp
  · cases h; simp
  · rename_i idx hpc
    cases h
    refine ⟨?_, ?_, ?_⟩ <;>
    · intro hm
      simp only [List.mem_cons, List.mem_nil_iff, or_false, reduceCtorEq, false_or, Ev.ret.injEq] at hm
      first
        | exact absurd hm.symm (ok_ne_ooi idx)
        | exact absurd hm.symm (ok_ne_locked idx)
        | exact absurd hm.symm (ok_ne_rel idx)
  · cases h; simp
  · cases h; simp
  · cases h; simp
  · cases h; simp
  · rename_i idx m old hpc
    dsimp only at h
    split at h
    · rename_i heq
      cases h
      refine ⟨?_, ?_, ?_⟩
      · intro hm
        simp only [List.mem_cons, List.mem_nil_iff, or_false, reduceCtorEq, false_or, Ev.ret.injEq] at hm
        split at hm <;> exact absurd hm (by decide)
      · intro hm
        simp only [List.mem_cons, List.mem_nil_iff, or_false, reduceCtorEq, false_or, Ev.ret.injEq] at hm
        split at hm <;> exact absurd hm (by decide)
      · intro hm
        simp only [List.mem_cons, List.mem_nil_iff, or_false, reduceCtorEq, false_or, Ev.ret.injEq] at hm
        split at hm
        · rename_i hl
          simp only [hl, and_self, if_true]
          exact ⟨heq ▸ hl.2, trivial⟩
        · exact absurd hm (by decide)
    · cases h; simp
  · cases h
    refine ⟨?_, ?_, ?_⟩ <;>
    · intro hm
      simp only [List.mem_cons, List.mem_nil_iff, or_false, reduceCtorEq, false_or, Ev.ret.injEq] at hm
      first
        | exact absurd hm.symm (bor_ne_ooi _)
        | exact absurd hm.symm (bor_ne_locked _)
        | exact absurd hm.symm (bor_ne_rel _)

theorem step_rets {s : Sh} {t : Th} {sh' : Sh} {t' : Th} {evs : List Ev}
    (h : step s t = some (sh', t', evs)) :
    (Ev.ret "acquire err:OutOfIndices" ∈ evs → s.hd.head ≥ s.cap ∧ sh' = s) ∧
    (Ev.ret "acquire err:IsLocked" ∈ evs → s.hd.borrowed = LOCK ∧ sh' = s) ∧
    (Ev.ret "release locked" ∈ evs → s.hd.borrowed = 1 ∧ sh'.hd.borrowed = LOCK) := by
  obtain ⟨t0, -, hpc⟩ := step_pre h
  exact stepPC_rets hpc

theorem stepPC_hd {s : Sh} {t : Th} {sh' : Sh} {t' : Th} {evs : List Ev}
    (h : stepPC s t = some (sh', t', evs)) :
    sh'.hd = s.hd ∨ (∃ old nx, t.pc = .aCas old nx ∧ s.hd = old) ∨ (∃ idx m old, t.pc = .rCas idx m old ∧ s.hd = old) := by
  unfold stepPC at h
  split at h
  · cases h
  · simp only [Option.some.injEq, acquireCheck] at h
    split at h
    · cases h; exact Or.inl rfl
    · split at h <;> cases h <;> exact Or.inl rfl
  · cases h; exact Or.inl rfl
  · cases h; exact Or.inl rfl
  · rename_i old nx hpc
    split at h
    · rename_i heq; exact Or.inr (Or.inl ⟨old, nx, hpc, heq⟩)
    · simp only [Option.some.injEq, acquireCheck] at h
      split at h
      · cases h; exact Or.inl rfl
      · split at h <;> cases h <;> exact Or.inl rfl
  · cases h; exact Or.inl rfl
  · cases h; exact Or.inl rfl
  · cases h; exact Or.inl rfl
  · cases h; exact Or.inl rfl
  · cases h; exact Or.inl rfl
  · cases h; exact Or.inl rfl
  · cases h; exact Or.inl rfl
  · rename_i idx m old hpc
    dsimp only at h
    split at h
    · rename_i heq; exact Or.inr (Or.inr ⟨idx, m, old, hpc, heq⟩)
    · cases h; exact Or.inl rfl
  · cases h; exact Or.inl rfl


theorem Inv.owned_le {cap : Nat} {c : Cfg Sh Th} (hI : Inv cap c) : (allOwned c).length ≤ cap := by
  obtain ⟨ch, -, hperm⟩ := hI.chain
  have := hperm.length_eq
  simp at this
  omega

theorem Inv.locked_nil {cap : Nat} {c : Cfg Sh Th} (hI : Inv cap c) (hcap : cap < LOCK)
    (hl : c.sh.hd.borrowed = LOCK) : allOwned c = [] := by
  rcases hI.cnt with ⟨-, he⟩ | he
  · exact he
  · have := hI.owned_le
    omega

/-! ## the theorems -/

variable (cap : Nat) (progs : List (List Cmd))

/-- **exclusive, in bounds, leak-free**: at every moment the indices owned by the threads together
with the free list are exactly `0 … cap-1`, each exactly once -/
theorem uis_partition (c : Cfg Sh Th) (h : Reachable sys (initCfg cap 0 progs) c) :
    (allOwned c ++ freeChain c.sh (cap + 1) c.sh.hd.head).Perm (List.range cap) := by
  have hI := inv_reachable h
  obtain ⟨ch, hch, hperm⟩ := hI.chain
  have hlen : ch.length < cap + 1 := by
    have := hperm.length_eq
    simp at this
    omega
  have hch' : IsChain c.sh.cap c.sh.next ch c.sh.hd.head := by rw [hI.hcap]; exact hch
  rw [freeChain_eq c.sh ch _ _ hch' hlen]
  exact hperm

/-- the borrowed counter counts the owned indices (unless locked) -/
theorem uis_borrowed_count (c : Cfg Sh Th) (h : Reachable sys (initCfg cap 0 progs) c) :
    (c.sh.hd.borrowed = LOCK ∧ allOwned c = []) ∨ (c.sh.hd.borrowed = (allOwned c).length ∧ (allOwned c).length ≤ cap) := by
  have hI := inv_reachable h
  rcases hI.cnt with h1 | h1
  · exact Or.inl h1
  · exact Or.inr ⟨h1, hI.owned_le⟩

/-- an acquire fails with `OutOfIndices` only when, at the load / CAS that observed it, every
index is owned by somebody -/
theorem uis_out_of_indices_only_if_empty (c c' : Cfg Sh Th) (i : Nat) (evs : List Ev)
    (h : Reachable sys (initCfg cap 0 progs) c) (hs : sys.stepAt c i = some (c', evs))
    (hr : Ev.ret "acquire err:OutOfIndices" ∈ evs) :
    freeChain c.sh (cap + 1) c.sh.hd.head = [] ∧ (allOwned c).Perm (List.range cap) ∧ c'.sh = c.sh := by
  have hI := inv_reachable h
  obtain ⟨t, sh', t', ht, hst, rfl⟩ := stepAt_some hs
  obtain ⟨hge, rfl⟩ := (step_rets hst).1 hr
  have hfc : freeChain c.sh (cap + 1) c.sh.hd.head = [] := by
    simp only [freeChain]
    rw [if_neg (by omega)]
  refine ⟨hfc, ?_, rfl⟩
  have := uis_partition cap progs c h
  rw [hfc] at this
  simpa using this

/-- … and with `IsLocked` only when the set is locked -/
theorem uis_is_locked_only_if_locked (c c' : Cfg Sh Th) (i : Nat) (evs : List Ev)
    (h : Reachable sys (initCfg cap 0 progs) c) (hs : sys.stepAt c i = some (c', evs))
    (hr : Ev.ret "acquire err:IsLocked" ∈ evs) : c.sh.hd.borrowed = LOCK ∧ c'.sh = c.sh := by
  have _ := h  -- (holds in every configuration, reachable or not: the check reads the current head)
  obtain ⟨t, sh', t', ht, hst, rfl⟩ := stepAt_some hs
  obtain ⟨hl, rfl⟩ := (step_rets hst).2.1 hr
  exact ⟨hl, rfl⟩

/- **FALSE AS STATED** (for `cap ≥ LOCK = 0xffffff` only): the model puts no bound on the capacity,
and the counter field cannot tell "`LOCK` indices are borrowed" from "locked".  With
`cap = LOCK`, one thread and the program `LOCK × acquire, borrowed`, after the `LOCK`-th acquire
`c.sh.hd.borrowed = LOCK` while `allOwned c = [0, …, LOCK-1] ≠ []`; any further step (e.g. the load
of `borrowed`, or the head load of one more `acquire`, which then reports `IsLocked`) gives a `c'`
with `allOwned c' ≠ []`.  (The Rust code excludes this only by
`debug_assert!(capacity < 2^24 - 1)` in `new_uninit`, i.e. not at all in release builds.)
The statement is true — and proved below as `uis_lock_final_partial` — under `cap < LOCK`; its
negation (universally quantified as here) is proved as `uis_lock_final_false`: a run with `0xffffff`
acquires cannot be `#eval`-ed, so that proof builds the run symbolically (`acqState_reach`).

theorem uis_lock_final (c c' : Cfg Sh Th) (i : Nat) (evs : List Ev)
    (h : Reachable sys (initCfg cap 0 progs) c) (hs : sys.stepAt c i = some (c', evs))
    (hl : c.sh.hd.borrowed = LOCK) : c'.sh.hd.borrowed = LOCK ∧ allOwned c' = []
-/

/-- **lock finality** (for every capacity the packed counter can represent, `cap < LOCK`): once the
last index was released with lock-if-last, the set stays locked and nobody ever owns an index
again -/
theorem uis_lock_final_partial (hcap : cap < LOCK) (c c' : Cfg Sh Th) (i : Nat) (evs : List Ev)
    (h : Reachable sys (initCfg cap 0 progs) c) (hs : sys.stepAt c i = some (c', evs))
    (hl : c.sh.hd.borrowed = LOCK) : c'.sh.hd.borrowed = LOCK ∧ allOwned c' = [] := by
  have hI := inv_reachable h
  have hI' : Inv cap c' := inv_step hI hs
  obtain ⟨t, sh', t', ht, hst, rfl⟩ := stepAt_some hs
  obtain ⟨t0, hpre, hpc⟩ := step_pre hst
  have hI0 := inv_pre hI ht hpre
  have ht0 := getElem?_set_same ht t0
  have hnil0 := hI0.locked_nil hcap hl
  obtain ⟨rest, -, hc, -⟩ := allOwned_split { sh := c.sh, th := c.th.set i t0 } i t0 ht0
  rw [hnil0] at hc
  have hown0 : owned t0 = [] := by
    have := List.Perm.eq_nil hc.symm
    exact (List.append_eq_nil_iff.mp this).1
  have hhd : sh'.hd = c.sh.hd := by
    rcases stepPC_hd hpc with hh | ⟨old, nx, hp, heq⟩ | ⟨idx, m, old, hp, heq⟩
    · exact hh
    · have hT := hI0.thr i t0 ht0
      simp only [ThInv, hp] at hT
      rw [← heq] at hT
      exact absurd hl hT.2.2.1
    · simp [owned, hp] at hown0
  have hl' : sh'.hd.borrowed = LOCK := by rw [hhd]; exact hl
  exact ⟨hl', hI'.locked_nil hcap hl'⟩

/-! ### `uis_lock_final` is false for `cap = LOCK`: machine-checked refutation

A run with `0xffffff` acquires cannot be evaluated, so the run is constructed symbolically: one
thread, program `cap × acquire, borrowed`; after `k` acquires the head word is `(k, k, k)`. -/

theorem acq_run (n k : Nat) (hk : k < n) (hn : n ≤ LOCK) (nxt : List Nat) (rest : List Cmd) (held : List Nat)
    (hnx : nxt.getD k 0 = k + 1) :
    (sys.run { sh := { cap := n, M := 0, hd := ⟨k, k, k⟩, next := nxt },
               th := [{ pc := .idle, todo := .acquire :: rest, held := held }] } [0, 0, 0, 0, 0, 0, 0]).1
      = { sh := { cap := n, M := 0, hd := ⟨k + 1, k + 1, k + 1⟩, next := nxt.set k (n + 1) },
          th := [{ pc := .idle, todo := rest, held := held ++ [k] }] } := by
  have h1 : ¬ (k ≥ n) := by omega
  have h2 : k ≠ LOCK := by omega
  simp [Sys.run, Sys.stepAt, sys, step, nextCmd, enabled, start, stepPC, acquireCheck, h1, h2, bump]
  simpa using hnx

/-- the configuration of the single-thread run after `k` acquires -/
def AcqState (n k : Nat) (c : Cfg Sh Th) : Prop :=
  ∃ nxt held, c = { sh := { cap := n, M := 0, hd := ⟨k, k, k⟩, next := nxt },
                    th := [{ pc := .idle, todo := List.replicate (n - k) .acquire ++ [.borrowed], held := held }] } ∧
    (∀ j, k ≤ j → j < n + 1 → nxt.getD j 0 = j + 1) ∧ held.length = k

theorem acqState_reach (n : Nat) (hn : n ≤ LOCK) (k : Nat) (hk : k ≤ n) :
    ∃ c, Reachable sys (initCfg n 0 [List.replicate n .acquire ++ [.borrowed]]) c ∧ AcqState n k c := by
  induction k with
  | zero =>
    refine ⟨_, Reachable.init, (List.range (n + 1)).map (· + 1), [], ?_, ?_, rfl⟩
    · simp [initCfg, Sh.init, Th.init]
    · intro j _ hj; exact init_next n j hj
  | succ k ih =>
    obtain ⟨c, hr, nxt, held, rfl, hnx, hlen⟩ := ih (by omega)
    have hrep : List.replicate (n - k) Cmd.acquire = .acquire :: List.replicate (n - (k + 1)) .acquire := by
      have : n - k = (n - (k + 1)) + 1 := by omega
      rw [this, List.replicate_succ]
    refine ⟨_, Sys.run_reachable sys _ _ hr [0, 0, 0, 0, 0, 0, 0], ?_⟩
    rw [hrep, List.cons_append, acq_run n k (by omega) hn nxt _ held (hnx k (Nat.le_refl _) (by omega))]
    refine ⟨_, _, rfl, ?_, by simp [hlen]⟩
    intro j hj hj'
    rw [getD_set_ne _ _ _ _ _ (by omega)]
    exact hnx j (by omega) hj'

/-- the counter field cannot tell "`LOCK` indices borrowed" from "locked" -/
theorem uis_lock_final_false :
    ¬ (∀ (cap : Nat) (progs : List (List Cmd)) (c c' : Cfg Sh Th) (i : Nat) (evs : List Ev),
        Reachable sys (initCfg cap 0 progs) c → sys.stepAt c i = some (c', evs) →
        c.sh.hd.borrowed = LOCK → c'.sh.hd.borrowed = LOCK ∧ allOwned c' = []) := by
  intro hall
  obtain ⟨c, hr, nxt, held, rfl, -, hlen⟩ := acqState_reach LOCK (Nat.le_refl _) LOCK (Nat.le_refl _)
  have hstep : sys.stepAt
        { sh := { cap := LOCK, M := 0, hd := ⟨LOCK, LOCK, LOCK⟩, next := nxt },
          th := [{ pc := .idle, todo := List.replicate (LOCK - LOCK) .acquire ++ [.borrowed], held := held }] } 0
      = some ({ sh := { cap := LOCK, M := 0, hd := ⟨LOCK, LOCK, LOCK⟩, next := nxt },
                th := [{ pc := .idle, todo := [], held := held }] },
              [.load "head" .rlx (Head.value ⟨LOCK, LOCK, LOCK⟩), .ret s!"borrowed {0}"]) := by
    simp [Sys.stepAt, sys, step, nextCmd, enabled, start, stepPC]
  have := (hall _ _ _ _ _ _ hr hstep rfl).2
  simp [allOwned, owned] at this
  rw [this] at hlen
  exact absurd hlen (by decide)

/-- the lock is taken exactly by the release of the last owned index -/
theorem uis_lock_only_by_last (c c' : Cfg Sh Th) (i : Nat) (evs : List Ev)
    (h : Reachable sys (initCfg cap 0 progs) c) (hs : sys.stepAt c i = some (c', evs))
    (hr : Ev.ret "release locked" ∈ evs) : (allOwned c).length = 1 ∧ c'.sh.hd.borrowed = LOCK := by
  have hI := inv_reachable h
  obtain ⟨t, sh', t', ht, hst, rfl⟩ := stepAt_some hs
  obtain ⟨h1, h2⟩ := (step_rets hst).2.2 hr
  refine ⟨?_, h2⟩
  rcases hI.cnt with ⟨hl, -⟩ | hl
  · rw [h1] at hl; exact absurd hl.symm LOCK_ne_one
  · rw [← hl]; exact h1

/-- the witness of `uis_tag_wrap_breaks`: capacity 3; thread 0 does one `acquire` and is preempted
between the read of `next[0]` and its CAS; thread 1 acquires 0, 1, 2 and releases 1, 2, 0 — six
successful CASes, so the 1-bit tag, the head (0) and the counter (0) are back at the value thread 0
saw, but the free list is now 0 → 2 → 1; thread 0's CAS succeeds and installs its stale `next[0] = 1`
as the head: index 2 is lost (free list `[1]`, owned `[0]`) -/
def wrapProgs : List (List Cmd) :=
  [[.acquire], [.acquire, .acquire, .acquire, .release 1 .default, .release 1 .default, .release 0 .default]]
def wrapSched : List Nat := [0, 0, 0] ++ List.replicate 36 1 ++ [0, 0, 0, 0]

/-- **finding D6**: with a wrapping tag the partition breaks. Shown for the modulus 2 (the
schedule scales to any modulus `M`: `M` successful head updates while one thread is preempted
between its head read and its CAS) -/
theorem uis_tag_wrap_breaks :
    ∃ (cap : Nat) (progs : List (List Cmd)) (sched : List Nat),
      let c := (sys.run (initCfg cap 2 progs) sched).1
      ¬ (allOwned c ++ freeChain c.sh (cap + 1) c.sh.hd.head).Perm (List.range cap) := by
  refine ⟨3, wrapProgs, wrapSched, ?_⟩
  decide

/-- non-vacuity: two threads, capacity 2, a failing CAS, out-of-indices, lock-if-last -/
example :
    let progs := [[Cmd.acquire, .acquire, .release 0 .default, .release 0 .lockIfLast, .acquire], [Cmd.acquire, .release 0 .default]]
    let c := (sys.run (initCfg 2 0 progs) ([0, 0, 0, 1, 1, 1, 1, 0, 0, 0, 0, 0, 0, 0] ++ List.replicate 30 1 ++ List.replicate 40 0)).1
    (allOwned c ++ freeChain c.sh 3 c.sh.hd.head).Perm (List.range 2) := by
  decide


end Iox2.C09.UisP
