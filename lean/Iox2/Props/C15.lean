/-
C15 — shared-memory allocators hand out disjoint, aligned, in-bounds memory; packing of
offsets; resize hints.  Property theorems (all layouts, all base addresses, all segment sizes).
-/
import Iox2.Model.Alloc

namespace Iox2.C15
open Iox2.Alloc

/-! ## `align` -/
theorem alignUp_mod (v a : Nat) (ha : 0 < a) : alignUp v a % a = 0 := by
  unfold alignUp
  split
  · assumption
  · have h1 : v % a < a := Nat.mod_lt _ ha
    have h2 : v = a * (v / a) + v % a := (Nat.div_add_mod v a).symm
    have h3 : v + a - v % a = a * (v / a + 1) := by rw [Nat.mul_add]; omega
    rw [h3]; exact Nat.mul_mod_right _ _

theorem alignUp_ge (v a : Nat) (ha : 0 < a) : v ≤ alignUp v a := by
  unfold alignUp; have := Nat.mod_lt v ha; split <;> omega

theorem alignUp_lt (v a : Nat) (ha : 0 < a) : alignUp v a < v + a := by
  unfold alignUp; split
  · omega
  · rename_i h; have := Nat.mod_lt v ha; omega

/-- `align` returns the *least* multiple of `a` that is ≥ `v` -/
theorem alignUp_least (v a m : Nat) (ha : 0 < a) (hm : m % a = 0) (hv : v ≤ m) : alignUp v a ≤ m := by
  have h1 := alignUp_mod v a ha
  have h2 := alignUp_lt v a ha
  -- two multiples of a closer than a are ordered
  obtain ⟨k, rfl⟩ := Nat.dvd_of_mod_eq_zero hm
  obtain ⟨j, hj⟩ := Nat.dvd_of_mod_eq_zero h1
  rw [hj] at h2 ⊢
  by_cases hjk : j ≤ k
  · exact Nat.mul_le_mul_left a hjk
  · have h3 : k + 1 ≤ j := by omega
    have h4 := Nat.mul_le_mul_left a h3
    rw [Nat.mul_add, Nat.mul_one] at h4
    omega

/-! ## pool allocator: every bucket is in bounds, aligned, and disjoint from every other -/

/-- well-formedness of the construction parameters (what `Layout` guarantees) -/
def WF (p : Pool) : Prop := 0 < p.bucketSize ∧ 0 < p.bucketAlign

theorem stride_pos (p : Pool) (h : WF p) : 0 < p.stride := by
  have := alignUp_ge p.bucketSize p.bucketAlign h.2
  have h1 := h.1
  unfold Pool.stride; omega

theorem stride_ge_size (p : Pool) (h : WF p) : p.bucketSize ≤ p.stride :=
  alignUp_ge p.bucketSize p.bucketAlign h.2

/-- **in bounds**: bucket `i` (including its full stride, hence any request of size ≤ bucket
size) lies inside `[ptr, ptr + size)` -/
theorem pool_in_bounds (p : Pool) (h : WF p) (i : Nat) (hi : i < p.nBuckets) :
    p.ptr ≤ p.addr i ∧ p.addr i + p.stride ≤ p.ptr + p.size := by
  have hs := stride_pos p h
  have h0 := alignUp_ge p.ptr p.bucketAlign h.2
  unfold Pool.nBuckets at hi
  unfold Pool.addr
  change i < (p.ptr + p.size - p.start) / p.stride at hi
  have h1 : (i + 1) * p.stride ≤ p.ptr + p.size - p.start :=
    (Nat.le_div_iff_mul_le hs).mp hi
  have h2 : (i + 1) * p.stride = i * p.stride + p.stride := by rw [Nat.add_mul]; omega
  constructor
  · show p.ptr ≤ p.start + i * p.stride
    unfold Pool.start; omega
  · omega

/-- **aligned**: every bucket address is a multiple of the bucket alignment, hence of every
alignment `r` the allocator accepts that divides it (powers of two ≤ bucket alignment) -/
theorem pool_aligned (p : Pool) (h : WF p) (i : Nat) : p.addr i % p.bucketAlign = 0 := by
  unfold Pool.addr Pool.start Pool.stride
  have h1 := alignUp_mod p.ptr p.bucketAlign h.2
  have h2 := alignUp_mod p.bucketSize p.bucketAlign h.2
  rw [Nat.add_mod, Nat.mul_mod, h1, h2]; simp

theorem pool_aligned_request (p : Pool) (h : WF p) (i r : Nat) (hr : r ∣ p.bucketAlign) :
    p.addr i % r = 0 := by
  have := pool_aligned p h i
  exact Nat.mod_eq_zero_of_dvd (Nat.dvd_trans hr (Nat.dvd_of_mod_eq_zero this))

/-- **disjoint**: distinct buckets do not overlap -/
theorem pool_disjoint (p : Pool) (i j : Nat) (hij : i < j) : p.addr i + p.stride ≤ p.addr j := by
  unfold Pool.addr
  have : (i + 1) * p.stride ≤ j * p.stride := Nat.mul_le_mul_right _ hij
  rw [Nat.add_mul] at this; omega

/-- deallocation finds the bucket an address came from -/
theorem pool_getIndex_addr (p : Pool) (h : WF p) (i : Nat) : p.getIndex (p.addr i) = i := by
  unfold Pool.getIndex Pool.addr
  have hs := stride_pos p h
  rw [Nat.add_sub_cancel_left, Nat.mul_div_cancel _ hs]

/-- **the defect this theorem excludes (D1)**: with the stride the pinned code used — the
*unaligned* bucket size — bucket 1 of a `(size 12, align 8)` pool is misaligned -/
theorem pool_misaligned_with_unaligned_stride :
    let p : Pool := { ptr := 0, size := 96, bucketSize := 12, bucketAlign := 8 }
    (p.start + 1 * p.bucketSize) % p.bucketAlign ≠ 0 := by decide

/-! ### errors are exactly the documented ones and change nothing -/
theorem pool_allocate_spec (s : PoolSt) (size align : Nat) :
    ((s.allocate size align).2 = .error .sizeTooLarge ↔ size > s.p.stride) ∧
    ((s.allocate size align).2 = .error .alignmentFailure ↔ (size ≤ s.p.stride ∧ align > s.p.bucketAlign)) ∧
    ((s.allocate size align).2 = .error .outOfMemory ↔ (size ≤ s.p.stride ∧ align ≤ s.p.bucketAlign ∧ s.free = [])) ∧
    (∀ e, (s.allocate size align).2 = .error e → (s.allocate size align).1 = s) := by
  unfold PoolSt.allocate
  refine ⟨?_, ?_, ?_, ?_⟩ <;> grind

/-! ### histories: live allocations stay pairwise disjoint, in bounds and aligned -/
inductive Op where
  | alloc (size align : Nat)
  | dealloc (k : Nat)        -- free the k-th live allocation
deriving Repr

structure Hist where
  s    : PoolSt
  live : List Nat            -- addresses currently handed out

def Hist.step (h : Hist) : Op → Hist
  | .alloc size align =>
      match h.s.allocate size align with
      | (s', .ok a) => { s := s', live := a :: h.live }
      | (s', .error _) => { h with s := s' }
  | .dealloc k =>
      match h.live[k]? with
      | none => h
      | some a => { s := h.s.deallocate a, live := h.live.eraseIdx k }

def Hist.run (h : Hist) : List Op → Hist
  | [] => h
  | op :: ops => (h.step op).run ops

/-- the bookkeeping invariant: free indices and live buckets partition `[0, nBuckets)` without
duplicates -/
def Hist.Inv (h : Hist) : Prop :=
  ∃ liveIdx : List Nat, h.live = liveIdx.map h.s.p.addr ∧ (h.s.free ++ liveIdx).Nodup ∧
    ∀ i ∈ h.s.free ++ liveIdx, i < h.s.p.nBuckets

theorem eraseIdx_map' {α β} (f : α → β) (l : List α) (k : Nat) :
    (l.map f).eraseIdx k = (l.eraseIdx k).map f := by
  induction l generalizing k with
  | nil => rfl
  | cons x xs ih => cases k <;> simp [List.eraseIdx, ih]

theorem inv_init (p : Pool) : Hist.Inv { s := PoolSt.init p, live := [] } := by
  refine ⟨[], rfl, ?_, ?_⟩
  · simp [PoolSt.init, List.nodup_range]
  · simp [PoolSt.init]

theorem step_inv (h : Hist) (hwf : WF h.s.p) (op : Op) (hi : h.Inv) :
    (h.step op).Inv ∧ (h.step op).s.p = h.s.p := by
  obtain ⟨li, hl, hnd, hb⟩ := hi
  cases op with
  | alloc size align =>
    simp only [Hist.step, PoolSt.allocate]
    split
    · rename_i s' a heq
      split at heq
      · simp at heq
      · split at heq
        · simp at heq
        · split at heq
          · simp at heq
          · rename_i i rest hfree
            simp only [Prod.mk.injEq, Except.ok.injEq] at heq
            obtain ⟨hs', ha⟩ := heq
            subst hs' ha
            refine ⟨⟨i :: li, by simp [hl], ?_, ?_⟩, rfl⟩
            · simp only [hfree] at hnd
              have : (rest ++ i :: li).Perm (i :: rest ++ li) := by
                simpa using (List.perm_middle (a := i) (l₁ := rest) (l₂ := li))
              exact this.nodup_iff.mpr (by simpa using hnd)
            · intro j hj
              apply hb
              simp only [hfree]
              simp only [List.mem_append, List.mem_cons] at hj ⊢
              rcases hj with hj | rfl | hj
              · exact Or.inl (Or.inr hj)
              · exact Or.inl (Or.inl rfl)
              · exact Or.inr hj
    · rename_i s' e heq
      split at heq
      · simp at heq; obtain ⟨hs', _⟩ := heq; subst hs'; exact ⟨⟨li, hl, hnd, hb⟩, rfl⟩
      · split at heq
        · simp at heq; obtain ⟨hs', _⟩ := heq; subst hs'; exact ⟨⟨li, hl, hnd, hb⟩, rfl⟩
        · split at heq
          · simp at heq; obtain ⟨hs', _⟩ := heq; subst hs'; exact ⟨⟨li, hl, hnd, hb⟩, rfl⟩
          · simp at heq
  | dealloc k =>
    simp only [Hist.step]
    split
    · exact ⟨⟨li, hl, hnd, hb⟩, rfl⟩
    · rename_i a hk
      refine ⟨⟨li.eraseIdx k, ?_, ?_, ?_⟩, rfl⟩
      · simp only [PoolSt.deallocate, hl]
        exact eraseIdx_map' _ _ _
      · -- the freed index is li[k]
        have hk' : (li.map h.s.p.addr)[k]? = some a := by rw [← hl]; exact hk
        rw [List.getElem?_map] at hk'
        obtain ⟨i, hik, hai⟩ := Option.map_eq_some_iff.mp hk'
        have hidx : h.s.p.getIndex a = i := by rw [← hai]; exact pool_getIndex_addr _ hwf i
        simp only [PoolSt.deallocate, hidx]
        have hperm : (li.eraseIdx k ++ [i]).Perm li := by
          obtain ⟨hlt, hget⟩ := List.getElem?_eq_some_iff.mp hik
          rw [List.eraseIdx_eq_take_drop_succ]
          have h1 : li = li.take k ++ i :: li.drop (k+1) := by subst hget; simp
          conv => rhs; rw [h1]
          simp only [List.append_assoc]
          apply List.Perm.append_left
          simp
        have : (i :: h.s.free ++ li.eraseIdx k).Perm (h.s.free ++ li) := by
          have h2 : (i :: h.s.free ++ li.eraseIdx k).Perm (h.s.free ++ (li.eraseIdx k ++ [i])) := by
            simp only [List.cons_append]
            have := (List.perm_middle (a := i) (l₁ := h.s.free ++ li.eraseIdx k) (l₂ := [])).symm
            simpa using this
          exact h2.trans (List.Perm.append_left _ hperm)
        exact this.nodup_iff.mpr hnd
      · have hk' : (li.map h.s.p.addr)[k]? = some a := by rw [← hl]; exact hk
        rw [List.getElem?_map] at hk'
        obtain ⟨i, hik, hai⟩ := Option.map_eq_some_iff.mp hk'
        have hidx : h.s.p.getIndex a = i := by rw [← hai]; exact pool_getIndex_addr _ hwf i
        intro j hj
        simp only [PoolSt.deallocate, hidx, List.cons_append, List.mem_cons, List.mem_append] at hj
        apply hb
        rcases hj with rfl | hj | hj
        · exact List.mem_append_right _ (List.mem_of_getElem? hik)
        · exact List.mem_append_left _ hj
        · exact List.mem_append_right _ (List.mem_of_mem_eraseIdx hj)

/-- **C15, pool allocator, all histories**: after any sequence of allocations and
deallocations on any pool (any base address, size, bucket layout) every live allocation is in
bounds and aligned, and any two live allocations are at least one stride apart (no overlap) -/
theorem pool_history_safe (p : Pool) (hwf : WF p) (ops : List Op) :
    let h := (Hist.run { s := PoolSt.init p, live := [] } ops)
    (∀ a ∈ h.live, p.ptr ≤ a ∧ a + p.stride ≤ p.ptr + p.size ∧ a % p.bucketAlign = 0) ∧
    h.live.Pairwise (fun a b => a + p.stride ≤ b ∨ b + p.stride ≤ a) := by
  suffices hs : ∀ h : Hist, h.s.p = p → h.Inv → (h.run ops).Inv ∧ (h.run ops).s.p = p by
    obtain ⟨⟨li, hl, hnd, hb⟩, hp⟩ := hs { s := PoolSt.init p, live := [] } rfl (inv_init p)
    intro h
    have hl' : h.live = li.map p.addr := by rw [← hp]; exact hl
    have hnd' : li.Nodup := (List.nodup_append.mp hnd).2.1
    have hb' : ∀ i ∈ li, i < p.nBuckets := fun i hi => by
      rw [← hp]; exact hb i (List.mem_append_right _ hi)
    constructor
    · intro a ha
      rw [hl'] at ha
      obtain ⟨i, hi, rfl⟩ := List.mem_map.mp ha
      have := pool_in_bounds p hwf i (hb' i hi)
      exact ⟨this.1, this.2, pool_aligned p hwf i⟩
    · rw [hl']
      rw [List.pairwise_map]
      refine List.Pairwise.imp_of_mem ?_ hnd'
      intro i j _ _ hne
      rcases Nat.lt_or_gt_of_ne hne with hlt | hgt
      · exact Or.inl (pool_disjoint p i j hlt)
      · exact Or.inr (pool_disjoint p j i hgt)
  induction ops with
  | nil => intro h hp hi; exact ⟨hi, hp⟩
  | cons op ops ih =>
    intro h hp hi
    have := step_inv h (hp ▸ hwf) op hi
    exact ih (h.step op) (this.2.trans hp) this.1

/-- non-vacuity: the D1 layout, unaligned base, partial last bucket -/
example :
    let p : Pool := { ptr := 3, size := 100, bucketSize := 12, bucketAlign := 8 }
    WF p ∧ p.nBuckets = 5 ∧ p.stride = 16 ∧
    (Hist.run { s := PoolSt.init p, live := [] } [.alloc 8 8, .alloc 12 4, .dealloc 1, .alloc 1 1, .alloc 8 8]).live = [40, 8, 24] := by
  refine ⟨⟨by decide, by decide⟩, by decide, by decide, by decide⟩

/-! ## bump allocator -/
theorem bump_allocate_spec (b : Bump) (size align : Nat) (ha : 0 < align) (hc : b.cur ≤ b.total) :
    match b.allocate size align with
    | (b', .ok a) =>
        -- aligned, inside, above everything handed out before, cursor stays inside
        a % align = 0 ∧ b.start + b.cur ≤ a ∧ a + size = b'.start + b'.cur ∧ b'.cur ≤ b'.total ∧
        b'.start = b.start ∧ b'.total = b.total ∧ 0 < size
    | (b', .error e) =>
        b' = b ∧ ((e = .sizeIsZero ∧ size = 0) ∨
                  (e = .outOfMemory ∧ 0 < size ∧ alignUp (b.start + b.cur) align - b.start + size > b.total)) := by
  have h1 := alignUp_ge (b.start + b.cur) align ha
  have h2 := alignUp_mod (b.start + b.cur) align ha
  by_cases hz : size = 0
  · simp [Bump.allocate, hz]
  · by_cases ho : alignUp (b.start + b.cur) align - b.start + size > b.total
    · simp only [Bump.allocate, hz, if_false, ho, if_true]
      simp; omega
    · simp only [Bump.allocate, hz, if_false, ho]
      have h3 : b.start + (alignUp (b.start + b.cur) align - b.start) = alignUp (b.start + b.cur) align := by omega
      simp only [h3, h2, true_and]
      omega

/-! ## pointer offsets -/
theorem offset_roundtrip (o seg : Nat) (ho : o < 2^56) (hs : seg < 256) :
    offsetOf (mkOffset o seg) = o ∧ segmentOf (mkOffset o seg) = seg := by
  unfold offsetOf segmentOf mkOffset
  have h1 : o <<< 8 < 2^64 := by
    rw [Nat.shiftLeft_eq]; calc o * 2^8 < 2^56 * 2^8 := Nat.mul_lt_mul_of_pos_right ho (by decide)
      _ = 2^64 := by decide
  rw [Nat.mod_eq_of_lt h1]
  have h2 : (o <<< 8 ||| seg) = o <<< 8 + seg := (Nat.shiftLeft_add_eq_or_of_lt (by simpa using hs) o).symm
  rw [h2, Nat.shiftLeft_eq]
  constructor
  · rw [Nat.shiftRight_eq_div_pow]; omega
  · have : (255 : Nat) = 2^8 - 1 := by decide
    rw [this, Nat.and_two_pow_sub_one_eq_mod]; omega

end Iox2.C15
