/-
C13 — connection lifecycle: one sender, one receiver, removed once by the last
(model Iox2/Model/ConnState.lean).

Setting: ANY number of threads, ANY programs made of `create r param`, `drop r`, `abandon r`
(the port's owner dies: no step), `remove r` (forced removal — enabled only for a port that died
while attached), all interleavings at atomic-step granularity.  Programs do not contain
`removeUnchecked` (forced removal of a role that is not known to be attached is outside the
contract; see `conn_unchecked_removal_breaks` for what goes wrong).
-/
import Iox2.Model.ConnState

namespace Iox2.C13
open Iox2.Sched Iox2.ConnState

def initCfg (progs : List (List Cmd)) : Cfg Sh Th :=
  { sh := {}, th := progs.map Th.init }

/-- the programs stay within the contract -/
def Contract (progs : List (List Cmd)) : Prop :=
  ∀ p ∈ progs, ∀ r, Cmd.removeUnchecked r ∉ p

/-- thread `t` occupies role `r` of incarnation `k`: it has the attached port, or its port died attached -/
def occupies (t : Th) (r : Role) (k : Nat) : Prop :=
  (∃ h, t.port r = some h ∧ h.inc = k) ∨ (∃ h, t.dead r = some h ∧ h.inc = k)

/-! ## invariant

Proof plan.  One inductive invariant `Inv` (below) holds for `initCfg` of contract-respecting
programs and is preserved by `Sys.stepAt`; the theorems follow with `Reachable.inv`.

* `holdsBit t r k` — bit-ownership accounting: `t` occupies role `r` of incarnation `k` (attached or
  dead port), or is inside an operation on `k` (`t.cur`) at a pc after its successful reserve-CAS and
  before its successful remove-CAS (`ownLoad r`, `ownRelease r`, `rmLoad w`, `rmCas w`, `w.role = r`).
  A holder finds its bit set (`Inv.bit`) and is unique per `(r, k)` (`Inv.bit_uniq`).
* `holdsDestroy t k` — destroy token: `t.cur` is on `k` and pc = `rmAcquire`, `dropDestroy`, or
  `dropOwnLoad` with `own = true`.  A token holder sees state `MARK`, `linked = some k`,
  `k ∉ destroyed` (`Inv.tok`) and is unique per `k` (`Inv.tok_uniq`).
* `Inv.mem_ok`: `mem[k].inc = k`, the state byte is one of 0,1,2,3,128, and every incarnation whose
  state is not `MARK` is the linked one and not destroyed (so at most one incarnation is not `MARK`).
* `LInv` (thread-local): no `removeUnchecked` left, port handles have `own = false`, never both an
  attached and a dead port of one role, and per-pc facts (`pcOK`): pcs `removeOpen`, `failOwnLoad`,
  `failDestroy` never rest in a configuration (start + first step are one atomic step),
  `failDropLoad` always has `own = false`, detach pcs have `own = false` until `rmAcquire`.

The five shapes of a step: `inv_frame` (shared state untouched, holdings shrink or move),
`inv_create`, `inv_attach` (reserve-CAS), `inv_detach` (remove-CAS), `inv_destroy`.
`step_effect` classifies what a step does to the shared state, together with the `ret` events.
A Bool version of `Inv` was run over many pseudo-random schedules before the proof. -/

def Legal (v : Nat) : Prop := v = 0 ∨ v = 1 ∨ v = 2 ∨ v = 3 ∨ v = 128

/-- pcs between a successful reserve-CAS and the successful remove-CAS of role `r` -/
def inOpBit : PC → Role → Prop
  | .ownLoad r' _, r => r' = r
  | .ownRelease r', r => r' = r
  | .rmLoad w, r => w.role = r
  | .rmCas w _, r => w.role = r
  | _, _ => False

def holdsBit (t : Th) (r : Role) (k : Nat) : Prop :=
  occupies t r k ∨ (inOpBit t.pc r ∧ ∃ h, t.cur = some h ∧ h.inc = k)

def tokPc : PC → Bool → Prop
  | .rmAcquire _, _ => True
  | .dropOwnLoad _, own => own = true
  | .dropDestroy _, _ => True
  | _, _ => False

def holdsDestroy (t : Th) (k : Nat) : Prop :=
  ∃ h, t.cur = some h ∧ h.inc = k ∧ tokPc t.pc h.own

def pcOK (t : Th) : PC → Prop
  | .idle => True
  | .removeOpen _ | .failOwnLoad _ _ | .failDestroy _ _ => False
  | .openOrCreate r _ | .rpLoad r _ | .rpCas r _ _ | .ownLoad r _ | .ownRelease r => t.port r = none ∧ t.dead r = none
  | .failRelease _ _ => True
  | .failDropLoad _ _ => ∀ h, t.cur = some h → h.own = false
  | .rmLoad w | .rmCas w _ => (∀ h, t.cur = some h → h.own = false) ∧ t.port w.role = none ∧ t.dead w.role = none
  | .rmAcquire _ | .dropOwnLoad _ | .dropDestroy _ => True

structure LInv (t : Th) : Prop where
  noUnchecked : ∀ r, Cmd.removeUnchecked r ∉ t.todo
  portOwn : ∀ r h, t.port r = some h → h.own = false
  notBoth : ∀ r, t.port r = none ∨ t.dead r = none
  pcok : pcOK t t.pc

structure Inv (c : Cfg Sh Th) : Prop where
  loc : ∀ (i : Nat) (t : Th), c.th[i]? = some t → LInv t
  mem_ok : ∀ (k : Nat) (st : Storage), c.sh.mem[k]? = some st →
    st.inc = k ∧ Legal st.state ∧ (st.state ≠ MARK → c.sh.linked = some k ∧ k ∉ c.sh.destroyed)
  linked_lt : ∀ k, c.sh.linked = some k → k < c.sh.mem.length
  destroyed_lt : ∀ x ∈ c.sh.destroyed, x < c.sh.mem.length
  nodup : c.sh.destroyed.Nodup
  sad : ∀ x ∈ c.sh.stateAtDestroy, x = MARK
  bit : ∀ (i : Nat) (t : Th) (r : Role) (k : Nat), c.th[i]? = some t → holdsBit t r k →
    ∃ st, c.sh.mem[k]? = some st ∧ st.state &&& r.bit ≠ 0
  bit_uniq : ∀ (i j : Nat) (ti tj : Th) (r : Role) (k : Nat), c.th[i]? = some ti → c.th[j]? = some tj →
    holdsBit ti r k → holdsBit tj r k → i = j
  tok : ∀ (i : Nat) (t : Th) (k : Nat), c.th[i]? = some t → holdsDestroy t k →
    ∃ st, c.sh.mem[k]? = some st ∧ st.state = MARK ∧ c.sh.linked = some k ∧ k ∉ c.sh.destroyed
  tok_uniq : ∀ (i j : Nat) (ti tj : Th) (k : Nat), c.th[i]? = some ti → c.th[j]? = some tj →
    holdsDestroy ti k → holdsDestroy tj k → i = j

theorem set_cases {α : Type} {l : List α} {i j : Nat} {a b : α} (h : (l.set i a)[j]? = some b) :
    (j = i ∧ b = a) ∨ (j ≠ i ∧ l[j]? = some b) := by
  rw [List.getElem?_set] at h
  by_cases hij : i = j
  · subst hij; left; split at h <;> simp_all
  · right; simp [hij] at h; exact ⟨fun e => hij e.symm, h⟩

/-- **frame**: a step that leaves the shared state alone and does not add holdings -/
theorem inv_frame {c : Cfg Sh Th} (hinv : Inv c) {i : Nat} {t t' : Th} (hi : c.th[i]? = some t)
    (hl : LInv t') (hb : ∀ r k, holdsBit t' r k → holdsBit t r k)
    (hd : ∀ k, holdsDestroy t' k → holdsDestroy t k) :
    Inv { sh := c.sh, th := c.th.set i t' } := by
  constructor
  · intro j tj hj
    rcases set_cases hj with ⟨rfl, rfl⟩ | ⟨_, hj⟩
    · exact hl
    · exact hinv.loc j tj hj
  · exact hinv.mem_ok
  · exact hinv.linked_lt
  · exact hinv.destroyed_lt
  · exact hinv.nodup
  · exact hinv.sad
  · intro j tj r k hj hh
    rcases set_cases hj with ⟨rfl, rfl⟩ | ⟨_, hj⟩
    · exact hinv.bit _ _ r k hi (hb r k hh)
    · exact hinv.bit _ _ r k hj hh
  · intro j j' tj tj' r k hj hj' hh hh'
    rcases set_cases hj with ⟨rfl, rfl⟩ | ⟨_, hj0⟩ <;> rcases set_cases hj' with ⟨rfl, rfl⟩ | ⟨_, hj0'⟩
    · rfl
    · exact hinv.bit_uniq _ _ _ _ r k hi hj0' (hb r k hh) hh'
    · exact hinv.bit_uniq _ _ _ _ r k hj0 hi hh (hb r k hh')
    · exact hinv.bit_uniq _ _ _ _ r k hj0 hj0' hh hh'
  · intro j tj k hj hh
    rcases set_cases hj with ⟨rfl, rfl⟩ | ⟨_, hj⟩
    · exact hinv.tok _ _ k hi (hd k hh)
    · exact hinv.tok _ _ k hj hh
  · intro j j' tj tj' k hj hj' hh hh'
    rcases set_cases hj with ⟨rfl, rfl⟩ | ⟨_, hj0⟩ <;> rcases set_cases hj' with ⟨rfl, rfl⟩ | ⟨_, hj0'⟩
    · rfl
    · exact hinv.tok_uniq _ _ _ _ k hi hj0' (hd k hh) hh'
    · exact hinv.tok_uniq _ _ _ _ k hj0 hi hh (hd k hh')
    · exact hinv.tok_uniq _ _ _ _ k hj0 hj0' hh hh'

theorem legal_bit_ne_mark {v : Nat} {r : Role} (hl : Legal v) (hb : v &&& r.bit ≠ 0) : v ≠ MARK := by
  rcases hl with rfl | rfl | rfl | rfl | rfl <;> cases r <;> simp [Role.bit, SENDER, RECEIVER, MARK] at hb ⊢

/-- **create**: a new incarnation is appended and linked (nothing was linked) -/
theorem inv_create {c : Cfg Sh Th} (hinv : Inv c) {i : Nat} {t t' : Th} (hi : c.th[i]? = some t)
    (hlink : c.sh.linked = none) (param : Nat)
    (hl : LInv t') (hb : ∀ r k, holdsBit t' r k → holdsBit t r k)
    (hd : ∀ k, holdsDestroy t' k → holdsDestroy t k) :
    Inv { sh := { c.sh with mem := c.sh.mem ++ [{ state := 0, param := param, inc := c.sh.mem.length }],
                            linked := some c.sh.mem.length },
          th := c.th.set i t' } := by
  have hf := inv_frame hinv hi hl hb hd
  have hmark : ∀ (k : Nat) (st : Storage), c.sh.mem[k]? = some st → st.state = MARK := by
    intro k st hk
    by_cases hm : st.state = MARK
    · exact hm
    · have := ((hinv.mem_ok k st hk).2.2 hm).1
      rw [hlink] at this; cases this
  have hmem : ∀ (k : Nat) (st : Storage), c.sh.mem[k]? = some st →
      (c.sh.mem ++ [{ state := 0, param := param, inc := c.sh.mem.length }])[k]? = some st := by
    intro k st hk
    have hlt : k < c.sh.mem.length := by
      rcases Nat.lt_or_ge k c.sh.mem.length with h | h
      · exact h
      · rw [List.getElem?_eq_none h] at hk; cases hk
    rw [List.getElem?_append_left hlt]; exact hk
  constructor
  · exact hf.loc
  · intro k st hk
    simp only at hk ⊢
    rcases Nat.lt_or_ge k c.sh.mem.length with hlt | hge
    · rw [List.getElem?_append_left hlt] at hk
      have h1 := hinv.mem_ok k st hk
      refine ⟨h1.1, h1.2.1, fun hm => absurd (hmark k st hk) hm⟩
    · rw [List.getElem?_append_right hge] at hk
      have hk0 : k = c.sh.mem.length := by
        rcases Nat.eq_or_lt_of_le hge with h | h
        · exact h.symm
        · rw [List.getElem?_eq_none (by simp; omega)] at hk; cases hk
      subst hk0
      simp at hk
      subst hk
      refine ⟨rfl, Or.inl rfl, fun _ => ⟨rfl, fun hmem => ?_⟩⟩
      exact absurd (hinv.destroyed_lt _ hmem) (Nat.lt_irrefl _)
  · intro k hk
    simp only [Option.some.injEq] at hk
    subst hk; simp
  · intro x hx
    have := hinv.destroyed_lt x hx
    simp only [List.length_append, List.length_cons, List.length_nil]; omega
  · exact hinv.nodup
  · exact hinv.sad
  · intro j tj r k hj hh
    obtain ⟨st, hst, hbit⟩ := hf.bit j tj r k hj hh
    exact ⟨st, hmem k st hst, hbit⟩
  · exact hf.bit_uniq
  · intro j tj k hj hh
    obtain ⟨st, hst, _, hlk, _⟩ := hf.tok j tj k hj hh
    simp only at hlk
    rw [hlink] at hlk; cases hlk
  · exact hf.tok_uniq

theorem setState_mem (s : Sh) (k v j : Nat) :
    (s.setState k v).mem[j]? = (fun a => if k = j then { a with state := v } else a) <$> s.mem[j]? := by
  simp [Sh.setState, List.getElem?_modify]

theorem setState_mem_ne (s : Sh) {k j : Nat} (v : Nat) (h : j ≠ k) :
    (s.setState k v).mem[j]? = s.mem[j]? := by
  simp [Sh.setState, List.getElem?_modify_ne _ _ (Ne.symm h)]

theorem setState_mem_eq (s : Sh) {k : Nat} {st : Storage} (v : Nat) (h : s.mem[k]? = some st) :
    (s.setState k v).mem[k]? = some { st with state := v } := by
  simp [Sh.setState, List.getElem?_modify_eq, h]

theorem or_bit_legal {v : Nat} {r : Role} (hl : Legal v) (hnb : v &&& r.bit = 0) (hnm : v &&& MARK = 0) :
    Legal (v ||| r.bit) ∧ (v ||| r.bit) ≠ MARK ∧ (v ||| r.bit) &&& r.bit ≠ 0 ∧ v ≠ MARK ∧
      ∀ r' : Role, v &&& r'.bit ≠ 0 → (v ||| r.bit) &&& r'.bit ≠ 0 := by
  rcases hl with rfl | rfl | rfl | rfl | rfl <;> cases r <;>
    simp [Role.bit, SENDER, RECEIVER, MARK, Legal] at hnb hnm ⊢ <;> intro r' <;> cases r' <;> simp

/-- **attach**: the successful reserve-CAS of role `r` on incarnation `k` -/
theorem inv_attach {c : Cfg Sh Th} (hinv : Inv c) {i : Nat} {t t' : Th} (hi : c.th[i]? = some t)
    {r : Role} {k : Nat} {st : Storage} (hk : c.sh.mem[k]? = some st)
    (hnb : st.state &&& r.bit = 0) (hnm : st.state &&& MARK = 0)
    (hl : LInv t') (hb : ∀ r' k', holdsBit t' r' k' → holdsBit t r' k' ∨ (r' = r ∧ k' = k))
    (hd : ∀ k, holdsDestroy t' k → holdsDestroy t k) :
    Inv { sh := c.sh.setState k (st.state ||| r.bit), th := c.th.set i t' } := by
  obtain ⟨hinc, hlegal, hlinked⟩ := hinv.mem_ok k st hk
  obtain ⟨hl', hnm', hbr, hnm0, hmono⟩ := or_bit_legal hlegal hnb hnm
  -- every holder of the old configuration still finds its bit
  have hold : ∀ (j : Nat) (tj : Th) (r' : Role) (k' : Nat), c.th[j]? = some tj → holdsBit tj r' k' →
      ∃ st', (c.sh.setState k (st.state ||| r.bit)).mem[k']? = some st' ∧ st'.state &&& r'.bit ≠ 0 := by
    intro j tj r' k' hj hh
    obtain ⟨st', hst', hbit'⟩ := hinv.bit j tj r' k' hj hh
    by_cases hkk : k' = k
    · subst hkk
      rw [hk] at hst'; cases hst'
      exact ⟨_, setState_mem_eq _ _ hk, hmono r' hbit'⟩
    · exact ⟨st', by rw [setState_mem_ne _ _ hkk]; exact hst', hbit'⟩
  have nohold : ∀ (j : Nat) (tj : Th), c.th[j]? = some tj → ¬ holdsBit tj r k := by
    intro j tj hj hh
    obtain ⟨st', hst', hbit'⟩ := hinv.bit j tj r k hj hh
    rw [hk] at hst'; cases hst'
    exact hbit' hnb
  constructor
  · intro j tj hj
    rcases set_cases hj with ⟨rfl, rfl⟩ | ⟨_, hj⟩
    · exact hl
    · exact hinv.loc j tj hj
  · intro k' st' hk'
    by_cases hkk : k' = k
    · subst hkk
      rw [setState_mem_eq _ _ hk] at hk'; cases hk'
      exact ⟨hinc, hl', fun _ => hlinked hnm0⟩
    · rw [setState_mem_ne _ _ hkk] at hk'
      exact hinv.mem_ok k' st' hk'
  · intro k' hk'
    simpa [Sh.setState, List.length_modify] using hinv.linked_lt k' hk'
  · intro x hx
    simpa [Sh.setState, List.length_modify] using hinv.destroyed_lt x hx
  · exact hinv.nodup
  · exact hinv.sad
  · intro j tj r' k' hj hh
    rcases set_cases hj with ⟨rfl, rfl⟩ | ⟨_, hj⟩
    · rcases hb r' k' hh with h | ⟨rfl, rfl⟩
      · exact hold _ _ r' k' hi h
      · exact ⟨_, setState_mem_eq _ _ hk, hbr⟩
    · exact hold _ _ r' k' hj hh
  · intro j j' tj tj' r' k' hj hj' hh hh'
    rcases set_cases hj with ⟨rfl, rfl⟩ | ⟨_, hj0⟩ <;> rcases set_cases hj' with ⟨rfl, rfl⟩ | ⟨_, hj0'⟩
    · rfl
    · rcases hb r' k' hh with h | ⟨rfl, rfl⟩
      · exact hinv.bit_uniq _ _ _ _ r' k' hi hj0' h hh'
      · exact absurd hh' (nohold _ _ hj0')
    · rcases hb r' k' hh' with h | ⟨rfl, rfl⟩
      · exact hinv.bit_uniq _ _ _ _ r' k' hj0 hi hh h
      · exact absurd hh (nohold _ _ hj0)
    · exact hinv.bit_uniq _ _ _ _ r' k' hj0 hj0' hh hh'
  · intro j tj k' hj hh
    have : ∃ tj0, c.th[j]? = some tj0 ∧ holdsDestroy tj0 k' := by
      rcases set_cases hj with ⟨rfl, rfl⟩ | ⟨_, hj⟩
      · exact ⟨t, hi, hd k' hh⟩
      · exact ⟨tj, hj, hh⟩
    obtain ⟨tj0, hj0, hh0⟩ := this
    obtain ⟨st', hst', hm, hlk, hnd⟩ := hinv.tok j tj0 k' hj0 hh0
    have hkk : k' ≠ k := by
      rintro rfl
      rw [hk] at hst'; cases hst'
      exact hnm0 hm
    exact ⟨st', by rw [setState_mem_ne _ _ hkk]; exact hst', hm, hlk, hnd⟩
  · intro j j' tj tj' k' hj hj' hh hh'
    rcases set_cases hj with ⟨rfl, rfl⟩ | ⟨_, hj0⟩ <;> rcases set_cases hj' with ⟨rfl, rfl⟩ | ⟨_, hj0'⟩
    · rfl
    · exact hinv.tok_uniq _ _ _ _ k' hi hj0' (hd k' hh) hh'
    · exact hinv.tok_uniq _ _ _ _ k' hj0 hi hh (hd k' hh')
    · exact hinv.tok_uniq _ _ _ _ k' hj0 hj0' hh hh'

def detachVal (v : Nat) (r : Role) : Nat := if v = r.bit then MARK else v &&& (255 - r.bit)

theorem detach_legal {v : Nat} {r : Role} (hl : Legal v) (hb : v &&& r.bit ≠ 0) :
    Legal (detachVal v r) ∧ v ≠ MARK ∧ (detachVal v r = MARK ↔ v = r.bit) ∧
      ∀ r' : Role, r' ≠ r → v &&& r'.bit ≠ 0 → detachVal v r &&& r'.bit ≠ 0 := by
  rcases hl with rfl | rfl | rfl | rfl | rfl <;> cases r <;>
    simp [Role.bit, SENDER, RECEIVER, MARK, Legal, detachVal] at hb ⊢ <;> intro r' <;> cases r' <;> simp

/-- **detach**: the successful remove-CAS of the holder of role `r` on incarnation `k` -/
theorem inv_detach {c : Cfg Sh Th} (hinv : Inv c) {i : Nat} {t t' : Th} (hi : c.th[i]? = some t)
    {r : Role} {k : Nat} {st : Storage} (hk : c.sh.mem[k]? = some st) (hold : holdsBit t r k)
    (hl : LInv t') (hb : ∀ r' k', holdsBit t' r' k' → holdsBit t r' k' ∧ ¬ (r' = r ∧ k' = k))
    (hd : ∀ k', holdsDestroy t' k' → holdsDestroy t k' ∨ (k' = k ∧ st.state = r.bit)) :
    Inv { sh := c.sh.setState k (detachVal st.state r), th := c.th.set i t' } := by
  obtain ⟨hinc, hlegal, hlinked⟩ := hinv.mem_ok k st hk
  have hbit : st.state &&& r.bit ≠ 0 := by
    obtain ⟨st', hst', hbit'⟩ := hinv.bit i t r k hi hold
    rw [hk] at hst'; cases hst'; exact hbit'
  obtain ⟨hl', hnm0, hmk, hmono⟩ := detach_legal hlegal hbit
  obtain ⟨hlk, hnd⟩ := hlinked hnm0
  -- every remaining holder is an old holder of something else than (r, k)
  have hrem : ∀ (j : Nat) (tj : Th) (r' : Role) (k' : Nat),
      (c.th.set i t')[j]? = some tj → holdsBit tj r' k' →
      ∃ tj0, c.th[j]? = some tj0 ∧ holdsBit tj0 r' k' ∧ ¬ (r' = r ∧ k' = k) := by
    intro j tj r' k' hj hh
    rcases set_cases hj with ⟨rfl, rfl⟩ | ⟨hne, hj⟩
    · exact ⟨t, hi, (hb r' k' hh).1, (hb r' k' hh).2⟩
    · refine ⟨tj, hj, hh, ?_⟩
      rintro ⟨rfl, rfl⟩
      exact hne (hinv.bit_uniq _ _ _ _ _ _ hj hi hh hold)
  have notok : ∀ (j : Nat) (tj : Th), c.th[j]? = some tj → ¬ holdsDestroy tj k := by
    intro j tj hj hh
    obtain ⟨st', hst', hm, _⟩ := hinv.tok j tj k hj hh
    rw [hk] at hst'; cases hst'
    exact hnm0 hm
  constructor
  · intro j tj hj
    rcases set_cases hj with ⟨rfl, rfl⟩ | ⟨_, hj⟩
    · exact hl
    · exact hinv.loc j tj hj
  · intro k' st' hk'
    by_cases hkk : k' = k
    · subst hkk
      rw [setState_mem_eq _ _ hk] at hk'; cases hk'
      exact ⟨hinc, hl', fun _ => ⟨hlk, hnd⟩⟩
    · rw [setState_mem_ne _ _ hkk] at hk'
      exact hinv.mem_ok k' st' hk'
  · intro k' hk'
    simpa [Sh.setState, List.length_modify] using hinv.linked_lt k' hk'
  · intro x hx
    simpa [Sh.setState, List.length_modify] using hinv.destroyed_lt x hx
  · exact hinv.nodup
  · exact hinv.sad
  · intro j tj r' k' hj hh
    obtain ⟨tj0, hj0, hh0, hne⟩ := hrem j tj r' k' hj hh
    obtain ⟨st', hst', hbit'⟩ := hinv.bit j tj0 r' k' hj0 hh0
    by_cases hkk : k' = k
    · subst hkk
      rw [hk] at hst'; cases hst'
      have hr : r' ≠ r := fun e => hne ⟨e, rfl⟩
      exact ⟨_, setState_mem_eq _ _ hk, hmono r' hr hbit'⟩
    · exact ⟨st', by rw [setState_mem_ne _ _ hkk]; exact hst', hbit'⟩
  · intro j j' tj tj' r' k' hj hj' hh hh'
    obtain ⟨tj0, hj0, hh0, _⟩ := hrem j tj r' k' hj hh
    obtain ⟨tj0', hj0', hh0', _⟩ := hrem j' tj' r' k' hj' hh'
    exact hinv.bit_uniq _ _ _ _ r' k' hj0 hj0' hh0 hh0'
  · intro j tj k' hj hh
    rcases set_cases hj with ⟨rfl, rfl⟩ | ⟨_, hj⟩
    · rcases hd k' hh with h | ⟨rfl, hv⟩
      · obtain ⟨st', hst', hm, hlk', hnd'⟩ := hinv.tok _ _ k' hi h
        have hkk : k' ≠ k := by
          rintro rfl
          exact notok _ _ hi h
        exact ⟨st', by rw [setState_mem_ne _ _ hkk]; exact hst', hm, hlk', hnd'⟩
      · exact ⟨_, setState_mem_eq _ _ hk, hmk.2 hv, hlk, hnd⟩
    · obtain ⟨st', hst', hm, hlk', hnd'⟩ := hinv.tok _ _ k' hj hh
      have hkk : k' ≠ k := by
        intro e
        exact notok _ _ hj (e ▸ hh)
      exact ⟨st', by rw [setState_mem_ne _ _ hkk]; exact hst', hm, hlk', hnd'⟩
  · intro j j' tj tj' k' hj hj' hh hh'
    rcases set_cases hj with ⟨rfl, rfl⟩ | ⟨_, hj0⟩ <;> rcases set_cases hj' with ⟨rfl, rfl⟩ | ⟨_, hj0'⟩
    · rfl
    · rcases hd k' hh with h | ⟨rfl, _⟩
      · exact hinv.tok_uniq _ _ _ _ k' hi hj0' h hh'
      · exact absurd hh' (notok _ _ hj0')
    · rcases hd k' hh' with h | ⟨rfl, _⟩
      · exact hinv.tok_uniq _ _ _ _ k' hj0 hi hh h
      · exact absurd hh (notok _ _ hj0)
    · exact hinv.tok_uniq _ _ _ _ k' hj0 hj0' hh hh'

theorem destroy_eq (s : Sh) (h : Handle) {k : Nat} {st : Storage} (hl : s.linked = some k)
    (hk : s.mem[k]? = some st) :
    destroy s h = { s with linked := none, destroyed := s.destroyed ++ [st.inc],
                           stateAtDestroy := s.stateAtDestroy ++ [st.state] } := by
  simp [destroy, Sh.storage, hl, hk]

/-- **destroy**: the holder of the destroy token of incarnation `k` unlinks it -/
theorem inv_destroy {c : Cfg Sh Th} (hinv : Inv c) {i : Nat} {t t' : Th} (hi : c.th[i]? = some t)
    {k : Nat} (htok : holdsDestroy t k) (h : Handle)
    (hl : LInv t') (hb : ∀ r k, holdsBit t' r k → holdsBit t r k)
    (hd : ∀ k, ¬ holdsDestroy t' k) :
    Inv { sh := destroy c.sh h, th := c.th.set i t' } := by
  obtain ⟨st, hk, hm, hlk, hnd⟩ := hinv.tok i t k hi htok
  obtain ⟨hinc, _, _⟩ := hinv.mem_ok k st hk
  have hf := inv_frame hinv hi hl hb (fun k' hh => absurd hh (hd k'))
  rw [destroy_eq c.sh h hlk hk]
  constructor
  · exact hf.loc
  · intro k' st' hk'
    obtain ⟨h1, h2, h3⟩ := hinv.mem_ok k' st' hk'
    refine ⟨h1, h2, fun hne => ?_⟩
    have := (h3 hne).1
    rw [hlk] at this; cases this
    rw [hk] at hk'; cases hk'
    exact absurd hm hne
  · intro k' hk'; cases hk'
  · intro x hx
    simp only [List.mem_append, List.mem_singleton] at hx
    rcases hx with hx | rfl
    · exact hinv.destroyed_lt x hx
    · rw [hinc]; exact hinv.linked_lt k hlk
  · simp only
    rw [List.nodup_append]
    refine ⟨hinv.nodup, by simp, ?_⟩
    intro a ha b hb'
    simp only [List.mem_singleton] at hb'
    subst hb'
    rw [hinc]; rintro rfl; exact hnd ha
  · intro x hx
    simp only [List.mem_append, List.mem_singleton] at hx
    rcases hx with hx | rfl
    · exact hinv.sad x hx
    · exact hm
  · exact hf.bit
  · exact hf.bit_uniq
  · intro j tj k' hj hh
    rcases set_cases hj with ⟨rfl, rfl⟩ | ⟨hne, hj⟩
    · exact absurd hh (hd k')
    · obtain ⟨_, _, _, hlk', _⟩ := hinv.tok j tj k' hj hh
      rw [hlk] at hlk'; cases hlk'
      exact absurd (hinv.tok_uniq _ _ _ _ k hj hi hh htok) hne
  · exact hf.tok_uniq

def abandonTh (t : Th) (r : Role) : Th :=
  if (t.port r).isSome then (t.setPort r none).setDead r (t.port r) else t

theorem abandon_spec (t : Th) (r : Role)
    (h1 : ∀ r h, t.port r = some h → h.own = false) (h2 : ∀ r, t.port r = none ∨ t.dead r = none) :
    (∀ r' h, (abandonTh t r).port r' = some h → h.own = false) ∧
    (∀ r', (abandonTh t r).port r' = none ∨ (abandonTh t r).dead r' = none) ∧
    (abandonTh t r).pc = t.pc ∧ (abandonTh t r).cur = t.cur ∧
    (∀ r' k, occupies (abandonTh t r) r' k → occupies t r' k) := by
  unfold abandonTh
  split
  · rename_i hs
    refine ⟨?_, ?_, ?_, ?_, ?_⟩
    · intro r' h hh
      apply h1 r' h
      cases r <;> cases r' <;> simp_all [Th.port, Th.setPort, Th.setDead]
    · intro r'
      have := h2 r'
      cases r <;> cases r' <;> simp_all [Th.port, Th.setPort, Th.setDead, Th.dead]
    · cases r <;> rfl
    · cases r <;> rfl
    · intro r' k
      cases r <;> cases r' <;> simp [occupies, Th.port, Th.setPort, Th.setDead, Th.dead] <;> grind
  · exact ⟨h1, h2, rfl, rfl, fun _ _ h => h⟩

def NextSpec (t t1 : Th) (c : Cmd) (rest todo : List Cmd) : Prop :=
    (∀ r h, t1.port r = some h → h.own = false) ∧ (∀ r, t1.port r = none ∨ t1.dead r = none) ∧
    t1.pc = t.pc ∧ t1.cur = t.cur ∧ (∀ r k, occupies t1 r k → occupies t r k) ∧
    enabled t1 c = true ∧ c ∈ todo ∧ (∀ x ∈ rest, x ∈ todo) ∧ (∀ r, c ≠ .abandon r)

theorem nextCmd_spec (todo : List Cmd) : ∀ (t t1 : Th) (c : Cmd) (rest : List Cmd),
    nextCmd t todo = some (t1, c, rest) →
    (∀ r h, t.port r = some h → h.own = false) → (∀ r, t.port r = none ∨ t.dead r = none) →
    NextSpec t t1 c rest todo := by
  unfold NextSpec
  induction todo with
  | nil => intro t t1 c rest h; simp [nextCmd] at h
  | cons c0 todo ih =>
    intro t t1 c rest h h1 h2
    have key : ∀ (hne : ∀ r, c0 ≠ .abandon r),
        (if enabled t c0 then some (t, c0, todo) else nextCmd t todo) = some (t1, c, rest) →
        NextSpec t t1 c rest (c0 :: todo) := by
      intro hne h
      unfold NextSpec
      split at h
      · rename_i he
        simp only [Option.some.injEq, Prod.mk.injEq] at h
        obtain ⟨rfl, rfl, rfl⟩ := h
        exact ⟨h1, h2, rfl, rfl, fun _ _ h => h, he, List.mem_cons_self, fun x hx => List.mem_cons_of_mem _ hx, hne⟩
      · obtain ⟨a, b, c', d, e, f, g, hh, i⟩ := ih t t1 c rest h h1 h2
        exact ⟨a, b, c', d, e, f, List.mem_cons_of_mem _ g, fun x hx => List.mem_cons_of_mem _ (hh x hx), i⟩
    cases c0 with
    | abandon r =>
      simp only [nextCmd] at h
      obtain ⟨a1, a2, a3, a4, a5⟩ := abandon_spec t r h1 h2
      obtain ⟨a, b, c', d, e, f, g, hh, i⟩ := ih (abandonTh t r) t1 c rest h a1 a2
      exact ⟨a, b, c'.trans a3, d.trans a4, fun r' k ho => a5 r' k (e r' k ho), f,
        List.mem_cons_of_mem _ g, fun x hx => List.mem_cons_of_mem _ (hh x hx), i⟩
    | create r p => exact key (by intro r; simp) (by simpa [nextCmd] using h)
    | drop r => exact key (by intro r; simp) (by simpa [nextCmd] using h)
    | remove r => exact key (by intro r; simp) (by simpa [nextCmd] using h)
    | removeUnchecked r => exact key (by intro r; simp) (by simpa [nextCmd] using h)

theorem storage_none {c : Cfg Sh Th} (hinv : Inv c) (h : c.sh.storage = none) : c.sh.linked = none := by
  unfold Sh.storage at h
  cases hl : c.sh.linked with
  | none => rfl
  | some k =>
    have := hinv.linked_lt k hl
    simp [hl] at h
    omega

theorem storage_some {c : Cfg Sh Th} (hinv : Inv c) {st : Storage} (h : c.sh.storage = some st) :
    c.sh.linked = some st.inc ∧ c.sh.mem[st.inc]? = some st := by
  unfold Sh.storage at h
  cases hl : c.sh.linked with
  | none => simp [hl] at h
  | some k =>
    simp [hl] at h
    have := (hinv.mem_ok k st h).1
    subst this
    exact ⟨rfl, h⟩

theorem cur_at {c : Cfg Sh Th} (hinv : Inv c) {cur : Option Handle} {st : Storage}
    (h : cur.bind (fun h => c.sh.at h.inc) = some st) :
    ∃ h, cur = some h ∧ h.inc = st.inc ∧ c.sh.mem[st.inc]? = some st := by
  cases cur with
  | none => simp at h
  | some hd =>
    simp [Sh.at] at h
    have := (hinv.mem_ok _ st h).1
    exact ⟨hd, rfl, this.symm, this ▸ h⟩

/-- what a bit holder knows -/
theorem holder_facts {c : Cfg Sh Th} (hinv : Inv c) {i : Nat} {t : Th} {r : Role} {k : Nat}
    (hi : c.th[i]? = some t) (hh : holdsBit t r k) :
    ∃ st, c.sh.mem[k]? = some st ∧ st.state &&& r.bit ≠ 0 ∧ st.state ≠ MARK ∧ st.inc = k ∧
      c.sh.linked = some k ∧ k ∉ c.sh.destroyed := by
  obtain ⟨st, hst, hbit⟩ := hinv.bit i t r k hi hh
  obtain ⟨h1, h2, h3⟩ := hinv.mem_ok k st hst
  have hm := legal_bit_ne_mark h2 hbit
  exact ⟨st, hst, hbit, hm, h1, (h3 hm).1, (h3 hm).2⟩

macro "thl" : tactic => `(tactic|
  ((try simp_all [holdsBit, holdsDestroy, occupies, inOpBit, tokPc, pcOK, Th.port, Th.dead, Th.setPort, Th.setDead, Why.role]) <;> (try grind)))
macro "hbl" : tactic => `(tactic|
  ((try simp [holdsBit, holdsDestroy, occupies, inOpBit, tokPc, Th.port, Th.dead, Th.setPort, Th.setDead, Why.role]) <;> (try grind)))

theorem stepPC_pres {c : Cfg Sh Th} (hinv : Inv c) {i : Nat} {t t' : Th} {sh' : Sh} {evs : List Ev}
    (hi : c.th[i]? = some t) (hs : stepPC c.sh t = some (sh', t', evs)) :
    Inv { sh := sh', th := c.th.set i t' } := by
  have hl := hinv.loc i t hi
  obtain ⟨l1, l2, l3, l4⟩ := hl
  obtain ⟨pc, todo, cur, snd, rcv, dS, dR⟩ := t
  cases pc with
  | idle => simp [stepPC] at hs
  | openOrCreate r p =>
    simp only [stepPC] at hs
    split at hs
    · rename_i hst
      have hlink := storage_none hinv hst
      simp only [Option.some.injEq, Prod.mk.injEq] at hs
      obtain ⟨rfl, rfl, rfl⟩ := hs
      refine inv_create hinv hi hlink p ⟨l1, l2, l3, l4⟩ ?_ ?_
      · intro r' k; simp [holdsBit, occupies, inOpBit, Th.port, Th.dead]
      · intro k; simp [holdsDestroy, tokPc]
    · rename_i st hst
      simp only [Option.some.injEq, Prod.mk.injEq] at hs
      obtain ⟨rfl, rfl, rfl⟩ := hs
      refine inv_frame hinv hi ⟨l1, l2, l3, l4⟩ ?_ ?_
      · intro r' k; simp [holdsBit, occupies, inOpBit, Th.port, Th.dead]
      · intro k; simp [holdsDestroy, tokPc]
  | rpLoad r p =>
    simp only [stepPC] at hs
    split at hs
    · cases hs
    · rename_i st hst
      simp only [Option.some.injEq, Prod.mk.injEq] at hs
      obtain ⟨rfl, rfl, rfl⟩ := hs
      refine inv_frame hinv hi ⟨l1, l2, l3, l4⟩ ?_ ?_
      · intro r' k; simp [holdsBit, occupies, inOpBit, Th.port, Th.dead]
      · intro k; simp [holdsDestroy, tokPc]
  | rpCas r p cur0 =>
    have hfail : ∀ err, failStep c.sh ⟨.rpCas r p cur0, todo, cur, snd, rcv, dS, dR⟩ r err = some (sh', t', evs) →
        Inv { sh := sh', th := c.th.set i t' } := by
      intro err hs
      simp only [failStep] at hs
      split at hs
      · rename_i h hc
        split at hs <;>
        · simp only [Option.some.injEq, Prod.mk.injEq] at hs
          obtain ⟨rfl, rfl, rfl⟩ := hs
          refine inv_frame hinv hi ⟨l1, l2, l3, ?_⟩ ?_ ?_
          · thl
          · intro r' k; simp [holdsBit, occupies, inOpBit, Th.port, Th.dead]
          · intro k; simp [holdsDestroy, tokPc]
      · cases hs
    simp only [stepPC] at hs
    split at hs
    · exact hfail _ hs
    · split at hs
      · exact hfail _ hs
      · rename_i hnb hnm
        split at hs
        · cases hs
        · rename_i st hst
          obtain ⟨h, rfl, hinc, hk⟩ := cur_at hinv hst
          split at hs
          · rename_i hcur
            subst hcur
            simp only [Option.some.injEq, Prod.mk.injEq] at hs
            obtain ⟨rfl, rfl, rfl⟩ := hs
            refine inv_attach hinv hi hk (by simpa using hnb) (by simpa using hnm) ⟨l1, l2, l3, l4⟩ ?_ ?_
            · intro r' k; simp [holdsBit, occupies, inOpBit, Th.port, Th.dead]; grind
            · intro k; simp [holdsDestroy, tokPc]
          · simp only [Option.some.injEq, Prod.mk.injEq] at hs
            obtain ⟨rfl, rfl, rfl⟩ := hs
            refine inv_frame hinv hi ⟨l1, l2, l3, l4⟩ ?_ ?_
            · intro r' k; simp [holdsBit, occupies, inOpBit, Th.port, Th.dead]
            · intro k; simp [holdsDestroy, tokPc]
  | ownLoad r p =>
    simp only [stepPC] at hs
    split at hs
    · rename_i h
      split at hs
      · rename_i st hst
        split at hs
        · simp only [Option.some.injEq, Prod.mk.injEq] at hs
          obtain ⟨rfl, rfl, rfl⟩ := hs
          refine inv_frame hinv hi ⟨l1, l2, l3, l4⟩ ?_ ?_
          · intro r' k; simp [holdsBit, occupies, inOpBit, Th.port, Th.dead]
          · intro k; simp [holdsDestroy, tokPc]
        · rename_i hown
          split at hs
          · simp only [Option.some.injEq, Prod.mk.injEq] at hs
            obtain ⟨rfl, rfl, rfl⟩ := hs
            refine inv_frame hinv hi ⟨by cases r <;> exact l1, ?_, ?_, ?_⟩ ?_ ?_
            · intro r' h'; have := l2 r' h'; cases r <;> cases r' <;> thl
            · intro r'; have := l3 r'; cases r <;> cases r' <;> thl
            · cases r <;> thl
            · intro r' k; cases r <;> cases r' <;> hbl
            · intro k; cases r <;> simp [holdsDestroy, tokPc, Th.setPort]
          · simp only [Option.some.injEq, Prod.mk.injEq] at hs
            obtain ⟨rfl, rfl, rfl⟩ := hs
            refine inv_frame hinv hi ⟨l1, l2, l3, ?_⟩ ?_ ?_
            · thl
            · intro r' k; simp [holdsBit, occupies, inOpBit, Th.port, Th.dead, Why.role]
            · intro k; simp [holdsDestroy, tokPc]
      · cases hs
    · cases hs
  | ownRelease r =>
    simp only [stepPC] at hs
    split at hs
    · rename_i h
      simp only [Option.some.injEq, Prod.mk.injEq] at hs
      obtain ⟨rfl, rfl, rfl⟩ := hs
      refine inv_frame hinv hi ⟨by cases r <;> exact l1, ?_, ?_, ?_⟩ ?_ ?_
      · intro r' h'; have := l2 r' h'; cases r <;> cases r' <;> thl
      · intro r'; have := l3 r'; cases r <;> cases r' <;> thl
      · cases r <;> thl
      · intro r' k; cases r <;> cases r' <;> hbl
      · intro k; cases r <;> simp [holdsDestroy, tokPc, Th.setPort]
    · cases hs
  | failOwnLoad r e => exact absurd l4 (by simp [pcOK])
  | failDestroy r e => exact absurd l4 (by simp [pcOK])
  | removeOpen r => exact absurd l4 (by simp [pcOK])
  | failRelease r e =>
    simp only [stepPC] at hs
    split at hs
    · rename_i h
      simp only [Option.some.injEq, Prod.mk.injEq] at hs
      obtain ⟨rfl, rfl, rfl⟩ := hs
      refine inv_frame hinv hi ⟨l1, l2, l3, ?_⟩ ?_ ?_
      · thl
      · intro r' k; simp [holdsBit, occupies, inOpBit, Th.port, Th.dead]
      · intro k; simp [holdsDestroy, tokPc]
    · cases hs
  | failDropLoad r e =>
    simp only [stepPC] at hs
    split at hs
    · rename_i h
      split at hs
      · rename_i hown
        simp [pcOK] at l4
        simp [l4] at hown
      · simp only [Option.some.injEq, Prod.mk.injEq] at hs
        obtain ⟨rfl, rfl, rfl⟩ := hs
        refine inv_frame hinv hi ⟨l1, l2, l3, ?_⟩ ?_ ?_
        · thl
        · intro r' k; simp [holdsBit, occupies, inOpBit, Th.port, Th.dead]
        · intro k; simp [holdsDestroy, tokPc]
    · cases hs
  | rmLoad w =>
    simp only [stepPC] at hs
    split at hs
    · cases hs
    · rename_i st hst
      obtain ⟨h, rfl, hinc, hk⟩ := cur_at hinv hst
      split at hs
      · rename_i hm
        obtain ⟨st', hst', _, hne, _⟩ := holder_facts hinv hi (r := w.role) (k := st.inc)
          (by simp [holdsBit, inOpBit, hinc])
        rw [hk] at hst'; cases hst'
        exact absurd hm hne
      · simp only [Option.some.injEq, Prod.mk.injEq] at hs
        obtain ⟨rfl, rfl, rfl⟩ := hs
        refine inv_frame hinv hi ⟨l1, l2, l3, l4⟩ ?_ ?_
        · intro r' k; simp [holdsBit, occupies, inOpBit, Th.port, Th.dead]
        · intro k; simp [holdsDestroy, tokPc]
  | rmCas w cur0 =>
    simp only [stepPC] at hs
    split at hs
    · cases hs
    · rename_i st hst
      obtain ⟨h, rfl, hinc, hk⟩ := cur_at hinv hst
      split at hs
      · rename_i hcur
        subst hcur
        have hold : holdsBit ⟨.rmCas w st.state, todo, some h, snd, rcv, dS, dR⟩ w.role st.inc := by
          simp [holdsBit, inOpBit, hinc]
        obtain ⟨st', hst', hbit, _⟩ := holder_facts hinv hi hold
        rw [hk] at hst'; cases hst'
        obtain ⟨_, _, hmk, _⟩ := detach_legal (hinv.mem_ok _ _ hk).2.1 hbit
        simp only [Option.some.injEq, Prod.mk.injEq] at hs
        obtain ⟨rfl, rfl, rfl⟩ := hs
        simp only [pcOK] at l4
        obtain ⟨l4a, l4b, l4c⟩ := l4
        have hown : h.own = false := l4a h rfl
        change Inv { sh := c.sh.setState st.inc (detachVal st.state w.role),
                     th := c.th.set i ⟨if detachVal st.state w.role = MARK then .rmAcquire w else .dropOwnLoad w,
                            todo, some h, snd, rcv, dS, dR⟩ }
        refine inv_detach hinv hi hk hold ⟨l1, l2, l3, ?_⟩ ?_ ?_
        · simp only; split <;> simp [pcOK]
        · intro r' k
          have hnocc : ∀ k, ¬ occupies ⟨.rmCas w st.state, todo, some h, snd, rcv, dS, dR⟩ w.role k := by
            intro k; simp [occupies, l4b, l4c]
          have e : ∀ pc', occupies ⟨pc', todo, some h, snd, rcv, dS, dR⟩ r' k ↔
              occupies ⟨.rmCas w st.state, todo, some h, snd, rcv, dS, dR⟩ r' k := fun _ => Iff.rfl
          simp only [holdsBit, e]
          rintro (ho | ⟨hop, _⟩)
          · refine ⟨Or.inl ho, ?_⟩
            rintro ⟨rfl, rfl⟩
            exact hnocc _ ho
          · split at hop <;> simp [inOpBit] at hop
        · intro k
          simp only [holdsDestroy]
          rintro ⟨h', hc, hk', htp⟩
          cases hc
          simp only [hmk] at htp
          split at htp
          · rename_i hv
            exact Or.inr ⟨by omega, hv⟩
          · simp [tokPc, hown] at htp
      · simp only [Option.some.injEq, Prod.mk.injEq] at hs
        obtain ⟨rfl, rfl, rfl⟩ := hs
        refine inv_frame hinv hi ⟨l1, l2, l3, l4⟩ ?_ ?_
        · intro r' k; simp [holdsBit, occupies, inOpBit, Th.port, Th.dead]
        · intro k; simp [holdsDestroy, tokPc]
  | rmAcquire w =>
    simp only [stepPC] at hs
    split at hs
    · rename_i h
      simp only [Option.some.injEq, Prod.mk.injEq] at hs
      obtain ⟨rfl, rfl, rfl⟩ := hs
      refine inv_frame hinv hi ⟨l1, l2, l3, ?_⟩ ?_ ?_
      · thl
      · intro r' k; simp [holdsBit, occupies, inOpBit, Th.port, Th.dead]
      · intro k; simp [holdsDestroy, tokPc]
    · cases hs
  | dropOwnLoad w =>
    simp only [stepPC] at hs
    split at hs
    · rename_i h
      split at hs <;>
      · simp only [Option.some.injEq, Prod.mk.injEq] at hs
        obtain ⟨rfl, rfl, rfl⟩ := hs
        refine inv_frame hinv hi ⟨l1, l2, l3, ?_⟩ ?_ ?_
        · thl
        · intro r' k; simp [holdsBit, occupies, inOpBit, Th.port, Th.dead]
        · intro k; simp_all [holdsDestroy, tokPc]
    · cases hs
  | dropDestroy w =>
    simp only [stepPC] at hs
    split at hs
    · rename_i h
      simp only [Option.some.injEq, Prod.mk.injEq] at hs
      obtain ⟨rfl, rfl, rfl⟩ := hs
      refine inv_destroy hinv hi (k := h.inc) (by simp [holdsDestroy, tokPc]) h ⟨l1, l2, l3, ?_⟩ ?_ ?_
      · thl
      · intro r' k; simp [holdsBit, occupies, inOpBit, Th.port, Th.dead]
      · intro k; simp [holdsDestroy, tokPc]
    · cases hs

theorem step_pres {c : Cfg Sh Th} (hinv : Inv c) {i : Nat} {t t' : Th} {sh' : Sh} {evs : List Ev}
    (hi : c.th[i]? = some t) (hs : step c.sh t = some (sh', t', evs)) :
    Inv { sh := sh', th := c.th.set i t' } := by
  unfold step at hs
  split at hs
  · rename_i hpc
    split at hs
    · cases hs
    · rename_i t1 cmd rest hn
      obtain ⟨l1, l2, l3, l4⟩ := hinv.loc i t hi
      obtain ⟨n1, n2, n3, n4, n5, n6, n7, n8, n9⟩ := nextCmd_spec t.todo t t1 cmd rest hn l2 l3
      have hlt : i < c.th.length := by
        rcases Nat.lt_or_ge i c.th.length with h | h
        · exact h
        · rw [List.getElem?_eq_none h] at hi; cases hi
      have hocc : ∀ r k, occupies t1 r k → holdsBit t r k := fun r k h => Or.inl (n5 r k h)
      have hrest : ∀ r, Cmd.removeUnchecked r ∉ rest := fun r hr => l1 r (n8 _ hr)
      rw [hpc] at n3
      -- run the remaining steps from the started thread
      have via : ∀ t0 : Th, LInv t0 → (∀ r k, holdsBit t0 r k → holdsBit t r k) →
          (∀ k, ¬ holdsDestroy t0 k) → stepPC c.sh t0 = some (sh', t', evs) →
          Inv { sh := sh', th := c.th.set i t' } := by
        intro t0 hl0 hb0 hd0 hs0
        have h0 := inv_frame hinv hi hl0 hb0 (fun k hh => absurd hh (hd0 k))
        have := stepPC_pres h0 (i := i) (t := t0) (by simp [List.getElem?_set_self hlt]) hs0
        simpa [List.set_set] using this
      obtain ⟨pc1, todo1, cur1, snd1, rcv1, dS1, dR1⟩ := t1
      simp only at n3
      subst n3
      cases cmd with
      | abandon r => exact absurd rfl (n9 r)
      | removeUnchecked r => exact absurd n7 (l1 r)
      | create r p =>
        refine via _ ?_ ?_ ?_ hs
        · refine ⟨hrest, n1, n2, ?_⟩
          cases r <;> simp_all [start, pcOK, enabled, Th.port, Th.dead]
        · intro r' k hh
          apply hocc r' k
          simpa [start, holdsBit, inOpBit, occupies, Th.port, Th.dead] using hh
        · intro k; simp [start, holdsDestroy, tokPc]
      | drop r =>
        refine via _ ⟨?_, ?_, ?_, ?_⟩ ?_ ?_ hs
        · cases r <;> exact hrest
        · intro r' h'; have := n1 r' h'; cases r <;> cases r' <;> simp_all [start, Th.port, Th.setPort]
        · intro r'; have := n2 r'; cases r <;> cases r' <;> simp_all [start, Th.port, Th.setPort, Th.dead]
        · have a := n1 r; have b := n2 r
          cases r <;> simp_all [start, pcOK, enabled, Th.port, Th.dead, Th.setPort, Why.role] <;> grind
        · intro r' k hh
          apply hocc r' k
          cases r <;> cases r' <;>
            simp_all [start, holdsBit, inOpBit, occupies, Th.port, Th.dead, Th.setPort, Why.role] <;> grind
        · intro k; cases r <;> simp [start, holdsDestroy, tokPc, Th.setPort]
      | remove r =>
        simp only [start, stepPC] at hs
        split at hs
        · simp only [Option.some.injEq, Prod.mk.injEq] at hs
          obtain ⟨rfl, rfl, rfl⟩ := hs
          refine inv_frame hinv hi ⟨?_, ?_, ?_, ?_⟩ ?_ ?_
          · cases r <;> exact hrest
          · intro r' h'; have := n1 r' h'; cases r <;> cases r' <;> simp_all [Th.port, Th.setDead]
          · intro r'; have := n2 r'; cases r <;> cases r' <;> simp_all [Th.port, Th.setDead, Th.dead]
          · simp [pcOK]
          · intro r' k hh
            apply hocc r' k
            cases r <;> cases r' <;>
              simp_all [holdsBit, inOpBit, occupies, Th.port, Th.dead, Th.setDead] <;> grind
          · intro k; cases r <;> simp [holdsDestroy, tokPc]
        · rename_i st hst
          obtain ⟨hlk, hmem⟩ := storage_some hinv hst
          simp only [Option.some.injEq, Prod.mk.injEq] at hs
          obtain ⟨rfl, rfl, rfl⟩ := hs
          -- the dead port's incarnation is the linked one
          have hdead : ∃ h, Th.dead ⟨.idle, todo1, cur1, snd1, rcv1, dS1, dR1⟩ r = some h := by
            simpa [enabled, Option.isSome_iff_exists] using n6
          obtain ⟨h, hh⟩ := hdead
          have hocc1 : occupies ⟨.idle, todo1, cur1, snd1, rcv1, dS1, dR1⟩ r h.inc := Or.inr ⟨h, hh, rfl⟩
          obtain ⟨_, _, _, _, _, hlk', _⟩ := holder_facts hinv hi (hocc r _ hocc1)
          have hk : st.inc = h.inc := Option.some.inj (hlk.symm.trans hlk')
          have b := n2 r
          refine inv_frame hinv hi ⟨?_, ?_, ?_, ?_⟩ ?_ ?_
          · cases r <;> exact hrest
          · intro r' h'; have := n1 r' h'; cases r <;> cases r' <;> simp_all [Th.port, Th.setDead]
          · intro r'; have := n2 r'; cases r <;> cases r' <;> simp_all [Th.port, Th.setDead, Th.dead]
          · cases r <;> simp_all [pcOK, Th.port, Th.dead, Th.setDead, Why.role]
          · intro r' k hh'
            apply hocc r' k
            cases r <;> cases r' <;>
              simp_all [holdsBit, inOpBit, occupies, Th.port, Th.dead, Th.setDead, Why.role] <;> grind
          · intro k; cases r <;> simp [holdsDestroy, tokPc]
  · rename_i hpc
    exact stepPC_pres hinv hi hs

/-! ## what one step does to the shared state -/

def refusedEv (e : Ev) : Prop :=
  ∃ r : Role, e = .ret s!"create_{r.name} err:AnotherInstanceIsAlreadyConnected" ∨
              e = .ret s!"create_{r.name} err:IsBeingCleanedUp"

theorem critEv_not_refused (s : Sh) : ¬ refusedEv (critEv s) := by
  rintro ⟨r, h | h⟩ <;> cases r <;> simp only [critEv, existsStr, Ev.ret.injEq] at h <;>
    split at h <;> revert h <;> decide

theorem whyRet_not_refused (w : Why) : ¬ refusedEv (.ret w.ret) := by
  rintro ⟨r, h | h⟩ <;> cases r <;> rcases w with r' | r' | r' <;> cases r' <;>
    simp only [Ev.ret.injEq] at h <;> revert h <;> decide

inductive Effect (s s' : Sh) (evs : List Ev) : Prop
  | same : s' = s → Effect s s' evs
  | create (p : Nat) :
      s' = { s with mem := s.mem ++ [{ state := 0, param := p, inc := s.mem.length }], linked := some s.mem.length } →
      (∀ e ∈ evs, ¬ refusedEv e) → Effect s s' evs
  | setState (k : Nat) (st : Storage) (v : Nat) : s.mem[k]? = some st → st.state ≠ MARK → s' = s.setState k v →
      (∀ e ∈ evs, ¬ refusedEv e) → Effect s s' evs
  | destroy (h : Handle) : s' = destroy s h → (∀ e ∈ evs, ¬ refusedEv e) → Effect s s' evs

theorem failStep_same {s s' : Sh} {t t' : Th} {r : Role} {e : String} {evs : List Ev}
    (h : failStep s t r e = some (s', t', evs)) : s' = s := by
  unfold failStep at h
  split at h
  · split at h <;> simp at h <;> exact h.1.symm
  · cases h

theorem stepPC_effect {c : Cfg Sh Th} (hinv : Inv c) {t t' : Th} {sh' : Sh} {evs : List Ev}
    (h1 : ∀ r e, t.pc ≠ .failDestroy r e)
    (h2 : ∀ w v h, t.pc = .rmCas w v → t.cur = some h →
      ∃ st, c.sh.mem[h.inc]? = some st ∧ st.state ≠ MARK)
    (hs : stepPC c.sh t = some (sh', t', evs)) : Effect c.sh sh' evs := by
  obtain ⟨pc, todo, cur, snd, rcv, dS, dR⟩ := t
  cases pc with
  | idle => simp [stepPC] at hs
  | openOrCreate r p =>
    simp only [stepPC] at hs
    split at hs
    · simp only [Option.some.injEq, Prod.mk.injEq] at hs
      obtain ⟨rfl, rfl, rfl⟩ := hs
      refine .create p rfl ?_
      intro e he
      simp only [List.mem_singleton] at he
      subst he
      exact critEv_not_refused _
    · simp only [Option.some.injEq, Prod.mk.injEq] at hs
      exact .same hs.1.symm
  | rpLoad r p =>
    simp only [stepPC] at hs
    split at hs
    · cases hs
    · simp only [Option.some.injEq, Prod.mk.injEq] at hs
      exact .same hs.1.symm
  | rpCas r p cur0 =>
    simp only [stepPC] at hs
    split at hs
    · exact .same (failStep_same hs)
    · split at hs
      · exact .same (failStep_same hs)
      · rename_i hnb hnm
        split at hs
        · cases hs
        · rename_i st hst
          obtain ⟨h, rfl, hinc, hk⟩ := cur_at hinv hst
          split at hs
          · rename_i hcur
            subst hcur
            simp only [Option.some.injEq, Prod.mk.injEq] at hs
            obtain ⟨rfl, rfl, rfl⟩ := hs
            refine .setState st.inc st _ hk ?_ rfl ?_
            · intro hm; rw [hm] at hnm; simp [MARK] at hnm
            · intro e he
              simp only [List.mem_singleton] at he
              subst he
              rintro ⟨r, h | h⟩ <;> cases h
          · simp only [Option.some.injEq, Prod.mk.injEq] at hs
            exact .same hs.1.symm
  | ownLoad r p =>
    simp only [stepPC] at hs
    split at hs
    · split at hs
      · split at hs
        · simp only [Option.some.injEq, Prod.mk.injEq] at hs
          exact .same hs.1.symm
        · split at hs <;>
          · simp only [Option.some.injEq, Prod.mk.injEq] at hs
            exact .same hs.1.symm
      · cases hs
    · cases hs
  | ownRelease r =>
    simp only [stepPC] at hs
    split at hs
    · simp only [Option.some.injEq, Prod.mk.injEq] at hs
      exact .same hs.1.symm
    · cases hs
  | failOwnLoad r e => exact .same (failStep_same hs)
  | failDestroy r e => exact absurd rfl (h1 r e)
  | removeOpen r =>
    simp only [stepPC] at hs
    split at hs <;>
    · simp only [Option.some.injEq, Prod.mk.injEq] at hs
      exact .same hs.1.symm
  | failRelease r e =>
    simp only [stepPC] at hs
    split at hs
    · simp only [Option.some.injEq, Prod.mk.injEq] at hs
      exact .same hs.1.symm
    · cases hs
  | failDropLoad r e =>
    simp only [stepPC] at hs
    split at hs
    · split at hs <;>
      · simp only [Option.some.injEq, Prod.mk.injEq] at hs
        exact .same hs.1.symm
    · cases hs
  | rmLoad w =>
    simp only [stepPC] at hs
    split at hs
    · cases hs
    · split at hs <;>
      · simp only [Option.some.injEq, Prod.mk.injEq] at hs
        exact .same hs.1.symm
  | rmCas w cur0 =>
    simp only [stepPC] at hs
    split at hs
    · cases hs
    · rename_i st hst
      obtain ⟨h, rfl, hinc, hk⟩ := cur_at hinv hst
      split at hs
      · obtain ⟨st', hst', hne⟩ := h2 w cur0 h rfl rfl
        rw [hinc, hk] at hst'; cases hst'
        simp only [Option.some.injEq, Prod.mk.injEq] at hs
        obtain ⟨rfl, rfl, rfl⟩ := hs
        refine .setState st.inc st _ hk hne rfl ?_
        intro e he
        simp only [List.mem_singleton] at he
        subst he
        rintro ⟨r, h | h⟩ <;> cases h
      · simp only [Option.some.injEq, Prod.mk.injEq] at hs
        exact .same hs.1.symm
  | rmAcquire w =>
    simp only [stepPC] at hs
    split at hs
    · simp only [Option.some.injEq, Prod.mk.injEq] at hs
      exact .same hs.1.symm
    · cases hs
  | dropOwnLoad w =>
    simp only [stepPC] at hs
    split at hs
    · split at hs <;>
      · simp only [Option.some.injEq, Prod.mk.injEq] at hs
        exact .same hs.1.symm
    · cases hs
  | dropDestroy w =>
    simp only [stepPC] at hs
    split at hs
    · rename_i h
      simp only [Option.some.injEq, Prod.mk.injEq] at hs
      obtain ⟨rfl, rfl, rfl⟩ := hs
      refine .destroy h rfl ?_
      intro e he
      simp only [List.mem_cons, List.not_mem_nil, or_false] at he
      rcases he with rfl | rfl
      · exact critEv_not_refused _
      · exact whyRet_not_refused _
    · cases hs

theorem step_effect {c : Cfg Sh Th} (hinv : Inv c) {i : Nat} {t t' : Th} {sh' : Sh} {evs : List Ev}
    (hi : c.th[i]? = some t) (hs : step c.sh t = some (sh', t', evs)) : Effect c.sh sh' evs := by
  obtain ⟨l1, l2, l3, l4⟩ := hinv.loc i t hi
  unfold step at hs
  split at hs
  · rename_i hpc
    split at hs
    · cases hs
    · rename_i t1 cmd rest hn
      obtain ⟨_, _, n3, _⟩ := nextCmd_spec t.todo t t1 cmd rest hn l2 l3
      rw [hpc] at n3
      refine stepPC_effect hinv ?_ ?_ hs
      · intro r e; cases cmd <;> simp [start, n3]
      · intro w v h; cases cmd <;> simp [start, n3]
  · refine stepPC_effect hinv ?_ ?_ hs
    · intro r e hpc
      rw [hpc] at l4; exact l4
    · intro w v h hpc hc
      have hold : holdsBit t w.role h.inc := by
        right; rw [hpc, hc]; exact ⟨rfl, h, rfl, rfl⟩
      obtain ⟨st, hst, _, hne, _⟩ := holder_facts hinv hi hold
      exact ⟨st, hst, hne⟩


/-! ## the invariant holds in every reachable configuration -/

theorem stepAt_some {c c' : Cfg Sh Th} {i : Nat} {evs : List Ev} (h : sys.stepAt c i = some (c', evs)) :
    ∃ t sh' t', c.th[i]? = some t ∧ step c.sh t = some (sh', t', evs) ∧
      c' = { sh := sh', th := c.th.set i t' } := by
  unfold Sys.stepAt at h
  split at h
  · cases h
  · rename_i t ht
    split at h
    · cases h
    · rename_i sh' t' evs' hst
      simp only [Option.some.injEq, Prod.mk.injEq] at h
      obtain ⟨rfl, rfl⟩ := h
      exact ⟨t, sh', t', ht, hst, rfl⟩

theorem inv_init {progs : List (List Cmd)} (hc : Contract progs) : Inv (initCfg progs) := by
  have hth : ∀ (i : Nat) (t : Th), (initCfg progs).th[i]? = some t → ∃ p ∈ progs, t = Th.init p := by
    intro i t h
    simp only [initCfg, List.getElem?_map, Option.map_eq_some_iff] at h
    obtain ⟨p, hp, rfl⟩ := h
    exact ⟨p, List.mem_of_getElem? hp, rfl⟩
  have nob : ∀ p r k, ¬ holdsBit (Th.init p) r k := by
    intro p r k
    cases r <;> simp [holdsBit, occupies, inOpBit, Th.init, Th.port, Th.dead]
  have nod : ∀ p k, ¬ holdsDestroy (Th.init p) k := by
    intro p k; simp [holdsDestroy, Th.init]
  constructor
  · intro i t h
    obtain ⟨p, hp, rfl⟩ := hth i t h
    refine ⟨fun r => hc p hp r, ?_, ?_, ?_⟩
    · intro r h; cases r <;> simp [Th.init, Th.port]
    · intro r; cases r <;> simp [Th.init, Th.port]
    · simp [Th.init, pcOK]
  · intro k st h; simp [initCfg] at h
  · intro k h; simp [initCfg] at h
  · intro x h; simp [initCfg] at h
  · simp [initCfg]
  · intro x h; simp [initCfg] at h
  · intro i t r k h hh
    obtain ⟨p, _, rfl⟩ := hth i t h
    exact absurd hh (nob p r k)
  · intro i j ti tj r k h _ hh
    obtain ⟨p, _, rfl⟩ := hth i ti h
    exact absurd hh (nob p r k)
  · intro i t k h hh
    obtain ⟨p, _, rfl⟩ := hth i t h
    exact absurd hh (nod p k)
  · intro i j ti tj k h _ hh
    obtain ⟨p, _, rfl⟩ := hth i ti h
    exact absurd hh (nod p k)

theorem inv_step {c c' : Cfg Sh Th} {i : Nat} {evs : List Ev} (hinv : Inv c)
    (hs : sys.stepAt c i = some (c', evs)) : Inv c' := by
  obtain ⟨t, sh', t', hi, hst, rfl⟩ := stepAt_some hs
  exact step_pres hinv hi hst

theorem inv_reachable {progs : List (List Cmd)} (hc : Contract progs) (c : Cfg Sh Th)
    (h : Reachable sys (initCfg progs) c) : Inv c :=
  Reachable.inv Inv (inv_init hc) (fun _ _ _ _ hinv hs => inv_step hinv hs) c h

theorem legal_bit_mark_clear {v : Nat} {r : Role} (hl : Legal v) (hb : v &&& r.bit ≠ 0) : v &&& MARK = 0 := by
  rcases hl with rfl | rfl | rfl | rfl | rfl <;> cases r <;> simp [Role.bit, SENDER, RECEIVER, MARK] at hb ⊢

theorem destroy_mem (s : Sh) (h : Handle) : (destroy s h).mem = s.mem := by
  unfold destroy; split <;> rfl

variable (progs : List (List Cmd))

/-- at most one sender and one receiver per connection incarnation -/
theorem conn_one_per_role (hc : Contract progs) (c : Cfg Sh Th) (h : Reachable sys (initCfg progs) c)
    (r : Role) (k i j : Nat) (ti tj : Th)
    (hi : c.th[i]? = some ti) (hj : c.th[j]? = some tj) (oi : occupies ti r k) (oj : occupies tj r k) :
    i = j := by
  exact (inv_reachable hc c h).bit_uniq i j ti tj r k hi hj (Or.inl oi) (Or.inl oj)

/-- an occupied role has its bit set in the incarnation's state byte, and the incarnation is the
one linked under the connection's name: never destroyed while attached, never attached to a
destroyed resource -/
theorem conn_attached_alive (hc : Contract progs) (c : Cfg Sh Th) (h : Reachable sys (initCfg progs) c)
    (r : Role) (k i : Nat) (t : Th) (hi : c.th[i]? = some t) (o : occupies t r k) :
    c.sh.linked = some k ∧ k ∉ c.sh.destroyed ∧
    ∃ st, c.sh.mem[k]? = some st ∧ st.state &&& r.bit ≠ 0 ∧ st.state &&& MARK = 0 := by
  have hinv := inv_reachable hc c h
  obtain ⟨st, hst, hbit, _, _, hlk, hnd⟩ := holder_facts hinv hi (Or.inl o)
  exact ⟨hlk, hnd, st, hst, hbit, legal_bit_mark_clear (hinv.mem_ok k st hst).2.1 hbit⟩

/-- the shared resource is destroyed at most once per incarnation, and only in the state
`MarkedForDestruction` (no role bit set) -/
theorem conn_destroyed_once_when_marked (hc : Contract progs) (c : Cfg Sh Th)
    (h : Reachable sys (initCfg progs) c) :
    c.sh.destroyed.Nodup ∧ ∀ x ∈ c.sh.stateAtDestroy, x = MARK := by
  exact ⟨(inv_reachable hc c h).nodup, (inv_reachable hc c h).sad⟩

/-- `MarkedForDestruction` is final for an incarnation: an attach that observes it is refused -/
theorem conn_mark_final (hc : Contract progs) (c c' : Cfg Sh Th) (i : Nat) (evs : List Ev)
    (h : Reachable sys (initCfg progs) c) (hs : sys.stepAt c i = some (c', evs))
    (k : Nat) (st : Storage) (hk : c.sh.mem[k]? = some st) (hm : st.state = MARK) :
    ∃ st', c'.sh.mem[k]? = some st' ∧ st'.state = MARK := by
  have hinv := inv_reachable hc c h
  obtain ⟨t, sh', t', hi, hst, rfl⟩ := stepAt_some hs
  rcases step_effect hinv hi hst with e | ⟨p, e, _⟩ | ⟨k', st0, v, hk', hne, e, _⟩ | ⟨hd, e, _⟩
  · exact ⟨st, by simpa [e] using hk, hm⟩
  · refine ⟨st, ?_, hm⟩
    subst e
    have hlt : k < c.sh.mem.length := by
      rcases Nat.lt_or_ge k c.sh.mem.length with h' | h'
      · exact h'
      · rw [List.getElem?_eq_none h'] at hk; cases hk
    simpa [List.getElem?_append_left hlt] using hk
  · have hkk : k ≠ k' := by
      rintro rfl
      rw [hk] at hk'; cases hk'
      exact hne hm
    exact ⟨st, by subst e; simpa [setState_mem_ne _ _ hkk] using hk, hm⟩
  · exact ⟨st, by subst e; simpa [destroy_mem] using hk, hm⟩

/-- a refused attach (same role already attached, being cleaned up) or a mismatch leaves every
other thread's ports and the role bits of the other side untouched -/
theorem conn_refused_attach_no_disturbance (hc : Contract progs) (c c' : Cfg Sh Th) (i : Nat) (evs : List Ev)
    (h : Reachable sys (initCfg progs) c) (hs : sys.stepAt c i = some (c', evs))
    (r : Role) (hr : Ev.ret s!"create_{r.name} err:AnotherInstanceIsAlreadyConnected" ∈ evs ∨
                     Ev.ret s!"create_{r.name} err:IsBeingCleanedUp" ∈ evs) :
    c'.sh = c.sh := by
  have hinv := inv_reachable hc c h
  obtain ⟨t, sh', t', hi, hst, rfl⟩ := stepAt_some hs
  have href : ∃ e ∈ evs, refusedEv e := by
    rcases hr with hr | hr
    · exact ⟨_, hr, r, Or.inl rfl⟩
    · exact ⟨_, hr, r, Or.inr rfl⟩
  obtain ⟨e, he, hre⟩ := href
  rcases step_effect hinv hi hst with e' | ⟨_, _, hno⟩ | ⟨_, _, _, _, _, _, hno⟩ | ⟨_, _, hno⟩
  · exact e'
  · exact absurd hre (hno e he)
  · exact absurd hre (hno e he)
  · exact absurd hre (hno e he)

/-- the state byte only ever holds the documented values -/
theorem conn_state_values (hc : Contract progs) (c : Cfg Sh Th) (h : Reachable sys (initCfg progs) c)
    (k : Nat) (st : Storage) (hk : c.sh.mem[k]? = some st) :
    st.state = 0 ∨ st.state = SENDER ∨ st.state = RECEIVER ∨ st.state = SENDER + RECEIVER ∨ st.state = MARK := by
  have := (inv_reachable hc c h).mem_ok k st hk
  simpa [Legal, SENDER, RECEIVER, MARK] using this.2.1

/-- **outside the contract** (finding): a forced removal of a role that is not attached, racing
with the last regular detach, makes two parties destroy "the" connection by name — the second
removal hits a newer incarnation to which a port is attached -/
theorem conn_unchecked_removal_breaks :
    ∃ (progs : List (List Cmd)) (sched : List Nat),
      let c := (sys.run (initCfg progs) sched).1
      ∃ x ∈ c.sh.stateAtDestroy, x ≠ MARK := by
  refine ⟨[[.create .receiver 1, .drop .receiver], [.removeUnchecked .sender], [.create .sender 1]],
    List.replicate 7 0 ++ List.replicate 5 1 ++ List.replicate 3 2 ++ List.replicate 3 0, ?_⟩
  decide

/-- non-vacuity: receiver attaches to the sender's connection with a mismatching parameter while
the sender detaches; both incarnations are destroyed exactly once in state MARK -/
example :
    let progs := [[Cmd.create .sender 2, .drop .sender], [Cmd.create .receiver 3, .create .receiver 2, .drop .receiver]]
    let c := (sys.run (initCfg progs) (List.replicate 5 0 ++ List.replicate 4 1 ++ List.replicate 3 0 ++ List.replicate 30 1)).1
    c.sh.stateAtDestroy = [MARK, MARK] ∧ c.sh.destroyed = [0, 1] := by
  decide


end Iox2.C13
