/-
C04 (shared-memory level) — a process killed at ANY atomic step of an index-set operation:
survivors keep exclusive ownership, recovery returns exactly the dead owner's indices, and the set
stays fully usable.  Theorems about `RUIS.sys.withCrash` (Iox2/Base/Crash.lean): every thread
carries a fuse, so `Reachable` quantifies over every crash point of every thread, in the middle of
`acquire`, `release`, `recover` … (the C09 theorems only allow deaths between operations).
-/
import Iox2.Base.Crash
import Iox2.Props.C09Ruis
namespace Iox2.RUIS.Crash
open Iox2.Sched Iox2.RUIS Iox2.C09.RuisP

/-! ### vocabulary (part of the statements: do not change) -/

def csys : Sys RSh (CTh Th) := sys.withCrash fun s t => { s with deadOwners := t.owner :: s.deadOwners }

/-- initial configuration: owners, programs and one fuse per thread (`none` = the process never dies) -/
def cinit (cap : Nat) (owners : List Nat) (progs : List (List Cmd)) (fuses : List (Option Nat)) : Cfg RSh (CTh Th) :=
  let c := initCfg cap owners progs
  { sh := c.sh, th := (c.th.zip fuses).map fun (t, f) => { inner := t, fuse := f } }

/-- the thread is alive: neither crashed nor retired by its own `die` command -/
def Live (t : CTh Th) : Prop := t.dead = false ∧ t.inner.dead = false

/-- programs do not use the cooperative `die` command (death comes from the fuse only) -/
def NoDieCmd (progs : List (List Cmd)) : Prop := ∀ p ∈ progs, Cmd.die ∉ p

/-! ### the crash invariant -/

/-- why cell `n`, which carries the owner id of thread `t`, is accounted for -/
def Attr (s : RSh) (t : CTh Th) (n : Nat) : Prop :=
  s.gen = LOCKG ∨ ¬ Live t ∨ n ∈ t.inner.held ∨ ∃ pc, t.inner.pc = some pc ∧ ownCell pc = some n

structure CThOk (cap : Nat) (s : RSh) (t : CTh Th) : Prop where
  ownerNe : t.inner.owner ≠ EMPTY
  deadIff : t.inner.owner ∈ s.deadOwners ↔ ¬ Live t
  log : ∀ p ∈ t.inner.recoveredLog, p.1 ∈ s.deadOwners ∧ p.2 < cap
  nodup : t.inner.held.Nodup
  held : Live t → ∀ n ∈ t.inner.held, n < cap ∧ s.cells[n]? = some t.inner.owner
  pcOk : Live t → ∀ pc, t.inner.pc = some pc → PcOk cap s t.inner.owner t.inner.held pc

structure CInv (cap : Nat) (c : Cfg RSh (CTh Th)) : Prop where
  cap_eq : c.sh.cap = cap
  len : c.sh.cells.length = cap
  genLe : c.sh.gen ≤ LOCKG
  ownersNodup : (c.th.map (·.inner.owner)).Nodup
  deadNe : ∀ d ∈ c.sh.deadOwners, d ≠ EMPTY
  thOk : ∀ (i : Nat) (t : CTh Th), c.th[i]? = some t → CThOk cap c.sh t
  attr : ∀ (n o : Nat), c.sh.cells[n]? = some o → o ≠ EMPTY →
    ∃ (j : Nat) (t : CTh Th), c.th[j]? = some t ∧ t.inner.owner = o ∧ Attr c.sh t n

/-- effect of a step of the thread with id `owner` on the shared state -/
structure CUpd (s : RSh) (owner : Nat) (s' : RSh) : Prop where
  cap : s'.cap = s.cap
  dead : s'.deadOwners = s.deadOwners
  len : s'.cells.length = s.cells.length
  genMono : s.gen ≤ s'.gen
  genLe : s'.gen ≤ LOCKG
  genLock : s.gen = LOCKG → s'.gen = LOCKG
  cells : ∀ j : Nat, s'.cells[j]? = s.cells[j]? ∨ (s.cells[j]? = some EMPTY ∧ s'.cells[j]? = some owner) ∨
      (s'.cells[j]? = some EMPTY ∧ (s.cells[j]? = some owner ∨ ∃ d, d ∈ s.deadOwners ∧ s.cells[j]? = some d))

theorem CUpd.refl {s : RSh} {owner : Nat} (hg : s.gen ≤ LOCKG) : CUpd s owner s :=
  ⟨rfl, rfl, rfl, Nat.le_refl _, hg, id, fun _ => .inl rfl⟩

theorem CUpd.of_eff {s : RSh} {owner : Nat} {pc : PC} {o : Out} (E : Eff s owner pc o) : CUpd s owner o.sh := by
  refine ⟨E.cap, E.dead, E.len, E.genMono, E.genLe, E.genLock, ?_⟩
  intro j
  rcases E.cells j with h | ⟨h1, h2, _⟩ | ⟨h1, h2, _⟩
  · exact .inl h
  · exact .inr (.inl ⟨h1, h2⟩)
  · refine .inr (.inr ⟨h1, ?_⟩)
    rcases h2 with ⟨h2, _⟩ | h2
    · exact .inl h2
    · exact .inr h2

theorem CUpd.cells_keep {s s' : RSh} {owner : Nat} (U : CUpd s owner s') {v j : Nat} (h1 : v ≠ EMPTY) (h2 : v ≠ owner)
    (h3 : v ∉ s.deadOwners) (h : s.cells[j]? = some v) : s'.cells[j]? = some v := by
  rcases U.cells j with h' | ⟨h', _⟩ | ⟨_, h' | ⟨d, hd, h'⟩⟩
  · rw [h', h]
  · rw [h] at h'; exact absurd (Option.some.inj h') h1
  · rw [h] at h'; exact absurd (Option.some.inj h') h2
  · rw [h] at h'; cases Option.some.inj h'; exact absurd hd h3

theorem CUpd.cells_dead_ne {s s' : RSh} {owner : Nat} (U : CUpd s owner s') {d j : Nat} (hne : d ≠ EMPTY)
    (hto : d ≠ owner) (h : s.cells[j]? ≠ some d) : s'.cells[j]? ≠ some d := by
  rcases U.cells j with h' | ⟨_, h'⟩ | ⟨h', _⟩
  · rw [h']; exact h
  · rw [h']; intro e; exact hto (Option.some.inj e).symm
  · rw [h']; intro e; exact hne (Option.some.inj e).symm

theorem cowner_inj {c : Cfg RSh (CTh Th)} (h : (c.th.map (·.inner.owner)).Nodup) {i j : Nat} {t u : CTh Th}
    (hi : c.th[i]? = some t) (hj : c.th[j]? = some u) (he : t.inner.owner = u.inner.owner) : i = j := by
  have h1 : (c.th.map (·.inner.owner))[i]? = some t.inner.owner := by simp [hi]
  have h2 : (c.th.map (·.inner.owner))[j]? = some t.inner.owner := by simp [hj, he]
  have hi' := lt_of_getElem? h1
  have hj' := lt_of_getElem? h2
  rw [List.getElem?_eq_getElem hi'] at h1
  rw [List.getElem?_eq_getElem hj'] at h2
  exact (List.getElem_inj h).mp (Option.some.inj (h1.trans h2.symm))

theorem Live.not_dead {s : RSh} {cap : Nat} {t : CTh Th} (hT : CThOk cap s t) (hl : Live t) : t.inner.owner ∉ s.deadOwners :=
  fun h => hT.deadIff.mp h hl

/-! ### generic preservation lemmas (step of a live thread, death) -/
section
variable {cap : Nat} {c : Cfg RSh (CTh Th)} {i : Nat} {t : CTh Th}

theorem cget_set {t' : CTh Th} (hi : c.th[i]? = some t) (j : Nat) (u : CTh Th) (hj : (c.th.set i t')[j]? = some u) :
    (j = i ∧ u = t') ∨ (j ≠ i ∧ c.th[j]? = some u) := by
  have hlt : i < c.th.length := lt_of_getElem? hi
  by_cases hji : j = i
  · subst hji; simp [hlt] at hj; exact .inl ⟨rfl, hj.symm⟩
  · rw [List.getElem?_set_ne (Ne.symm hji)] at hj; exact .inr ⟨hji, hj⟩

theorem CThOk_other {s' : RSh} (hI : CInv cap c) (hi : c.th[i]? = some t) (hl : Live t)
    (U : CUpd c.sh t.inner.owner s') {u : CTh Th} (hu : CThOk cap c.sh u) (hne : u.inner.owner ≠ t.inner.owner) :
    CThOk cap s' u := by
  have htl : t.inner.owner ∉ c.sh.deadOwners := Live.not_dead (hI.thOk i t hi) hl
  have keep : Live u → ∀ j : Nat, c.sh.cells[j]? = some u.inner.owner → s'.cells[j]? = some u.inner.owner := by
    intro hul j hj
    exact U.cells_keep hu.ownerNe hne (Live.not_dead hu hul) hj
  have dne : ∀ d : Nat, d ∈ c.sh.deadOwners → ∀ j : Nat, c.sh.cells[j]? ≠ some d → s'.cells[j]? ≠ some d := by
    intro d hd j hj
    exact U.cells_dead_ne (hI.deadNe d hd) (fun e => htl (e ▸ hd)) hj
  refine ⟨hu.ownerNe, by rw [U.dead]; exact hu.deadIff, ?_, hu.nodup, ?_, ?_⟩
  · intro p hp; rw [U.dead]; exact hu.log p hp
  · intro hul n hn
    obtain ⟨h1, h2⟩ := hu.held hul n hn
    exact ⟨h1, keep hul n h2⟩
  · intro hul pc hpc
    have P := hu.pcOk hul pc hpc
    refine ⟨P.ownerArg, ?_, P.misc, ?_, ?_, ?_⟩
    · intro n hn
      obtain ⟨h1, h2, h3⟩ := P.ownCell n hn
      exact ⟨h1, keep hul n h2, h3⟩
    · intro d k hk
      obtain ⟨h1, h2⟩ := P.rc d k hk
      exact ⟨by rw [U.dead]; exact h1, fun j hj => dne d h1 j (h2 j hj)⟩
    · intro g n hgn
      obtain ⟨h1, h2⟩ := P.scanA g n hgn
      exact ⟨Nat.le_trans h1 U.genMono, h2⟩
    · intro g n hgn
      obtain ⟨h1, h2⟩ := P.scanL g n hgn
      exact ⟨Nat.le_trans h1 U.genMono, h2⟩

theorem Attr.mono {s s' : RSh} {u : CTh Th} {n : Nat} (hg : s.gen = LOCKG → s'.gen = LOCKG) (h : Attr s u n) : Attr s' u n := by
  rcases h with h | h
  · exact .inl (hg h)
  · exact .inr h

/-- a step of the live thread `t` -/
theorem CInv_of_upd {s' : RSh} {t' : CTh Th} (hI : CInv cap c) (hi : c.th[i]? = some t) (hl : Live t)
    (U : CUpd c.sh t.inner.owner s') (ho : t'.inner.owner = t.inner.owner) (hT : CThOk cap s' t')
    (hattr : ∀ n : Nat, s'.cells[n]? = some t.inner.owner → (c.sh.cells[n]? = some t.inner.owner → Attr c.sh t n) → Attr s' t' n) :
    CInv cap { sh := s', th := c.th.set i t' } := by
  have hlt : i < c.th.length := lt_of_getElem? hi
  refine ⟨by simp [U.cap, hI.cap_eq], by simp [U.len, hI.len], U.genLe, ?_, by simp [U.dead]; exact hI.deadNe, ?_, ?_⟩
  · show ((c.th.set i t').map (·.inner.owner)).Nodup
    rw [map_set_same (·.inner.owner) c.th i t t' hi ho]; exact hI.ownersNodup
  · intro j u hj
    rcases cget_set hi j u hj with ⟨_, rfl⟩ | ⟨hji, hj'⟩
    · exact hT
    · exact CThOk_other hI hi hl U (hI.thOk j u hj') (fun e => hji (cowner_inj hI.ownersNodup hj' hi e))
  · intro n o hc hne
    show ∃ (j : Nat) (u : CTh Th), (c.th.set i t')[j]? = some u ∧ u.inner.owner = o ∧ Attr s' u n
    have self : s'.cells[n]? = some t.inner.owner → (c.sh.cells[n]? = some t.inner.owner → Attr c.sh t n) →
        ∃ (j : Nat) (u : CTh Th), (c.th.set i t')[j]? = some u ∧ u.inner.owner = t.inner.owner ∧ Attr s' u n :=
      fun h1 h2 => ⟨i, t', by simp [hlt], ho, hattr n h1 h2⟩
    simp only [] at hc
    rcases U.cells n with h | ⟨h1, h2⟩ | ⟨h1, _⟩
    · rw [h] at hc
      obtain ⟨j, u, hj, huo, hA⟩ := hI.attr n o hc hne
      by_cases hji : j = i
      · subst hji; rw [hi] at hj; cases hj; subst huo
        exact self (by rw [h]; exact hc) (fun _ => hA)
      · exact ⟨j, u, by simp [List.getElem?_set_ne (Ne.symm hji), hj], huo, hA.mono U.genLock⟩
    · rw [h2] at hc; cases hc
      exact self h2 (fun h' => by rw [h1] at h'; exact absurd (Option.some.inj h').symm (hI.thOk i t hi).ownerNe)
    · rw [h1] at hc; exact absurd (Option.some.inj hc).symm hne

/-- thread `i` dies (crash, or retirement by its own `die` command): its owner id becomes a dead owner -/
theorem CInv_death {t' : CTh Th} (hI : CInv cap c) (hi : c.th[i]? = some t) (ho : t'.inner.owner = t.inner.owner)
    (hnl : ¬ Live t') (hlog : t'.inner.recoveredLog = t.inner.recoveredLog) (hheld : t'.inner.held = t.inner.held) :
    CInv cap { sh := { c.sh with deadOwners := t.inner.owner :: c.sh.deadOwners }, th := c.th.set i t' } := by
  have hlt : i < c.th.length := lt_of_getElem? hi
  have hTi := hI.thOk i t hi
  refine ⟨hI.cap_eq, hI.len, hI.genLe, ?_, ?_, ?_, ?_⟩
  · show ((c.th.set i t').map (·.inner.owner)).Nodup
    rw [map_set_same (·.inner.owner) c.th i t t' hi ho]; exact hI.ownersNodup
  · intro d hd
    simp only [List.mem_cons] at hd
    rcases hd with rfl | hd
    · exact hTi.ownerNe
    · exact hI.deadNe d hd
  · intro j u hj
    rcases cget_set hi j u hj with ⟨_, rfl⟩ | ⟨hji, hj'⟩
    · refine ⟨by rw [ho]; exact hTi.ownerNe, ?_, ?_, by rw [hheld]; exact hTi.nodup, fun h => absurd h hnl, fun h => absurd h hnl⟩
      · simp only [ho, List.mem_cons, true_or, true_iff]; exact hnl
      · intro p hp; rw [hlog] at hp
        exact ⟨List.mem_cons_of_mem _ (hTi.log p hp).1, (hTi.log p hp).2⟩
    · have hu := hI.thOk j u hj'
      have hne : u.inner.owner ≠ t.inner.owner := fun e => hji (cowner_inj hI.ownersNodup hj' hi e)
      refine ⟨hu.ownerNe, ?_, ?_, hu.nodup, hu.held, ?_⟩
      · simp only [List.mem_cons, hne, false_or]; exact hu.deadIff
      · intro p hp
        exact ⟨List.mem_cons_of_mem _ (hu.log p hp).1, (hu.log p hp).2⟩
      · intro hul pc h
        have P := hu.pcOk hul pc h
        exact ⟨P.ownerArg, P.ownCell, P.misc, fun d k hk => ⟨List.mem_cons_of_mem _ (P.rc d k hk).1, (P.rc d k hk).2⟩,
          P.scanA, P.scanL⟩
  · intro n o hc hne
    obtain ⟨j, u, hj, huo, hA⟩ := hI.attr n o hc hne
    by_cases hji : j = i
    · subst hji; rw [hi] at hj; cases hj
      exact ⟨j, t', by simp [hlt], by rw [ho]; exact huo, .inr (.inl hnl)⟩
    · exact ⟨j, u, by simp [List.getElem?_set_ne (Ne.symm hji), hj], huo, hA⟩
end

/-! ### the stepping thread -/
/-- a cell the thread owns "in flight" stays accounted for: the thread keeps it in flight, or gets it
as the result of `acquire`, or the set is locked, or the cell has just been emptied -/
theorem stepOp_ownCell_fwd {cap : Nat} {s : RSh} {pc : PC} {n owner : Nat} (hm : pcMisc cap pc)
    (hoa : ∀ o, ownerArg pc = some o → o = owner) (hc : s.cells[n]? = some owner) (ho : ownCell pc = some n) :
    (∃ pc', (stepOp s pc).next = .inl pc' ∧ ownCell pc' = some n) ∨ (stepOp s pc).next = .inr (.acquired n) ∨
      (stepOp s pc).sh.gen = LOCKG ∨ (stepOp s pc).sh.cells = s.cells.set n EMPTY := by
  pc_cases pc <;> simp only [ownCell] at ho <;> try (cases ho)
  all_goals simp only [stepOp, apply_ite Out.next, apply_ite Out.sh, finishInc_sh, finishInc_next, ite_self,
    apply_ite RSh.gen, apply_ite RSh.cells, pcMisc, ownerArg] at hm hoa ⊢
  all_goals grind [ownCell]

/-- everything about the stepping (live) thread after a step of the sub-machine -/
theorem own_stepOp {cap : Nat} {s : RSh} {t : Th} {pc : PC} (hcap : s.cap = cap) (hlen : s.cells.length = cap)
    (hg : s.gen ≤ LOCKG) (hdne : ∀ d ∈ s.deadOwners, d ≠ EMPTY) (hown : t.owner ≠ EMPTY) (htl : t.owner ∉ s.deadOwners)
    (hnodup : t.held.Nodup) (hheld : ∀ n ∈ t.held, n < cap ∧ s.cells[n]? = some t.owner)
    (hlog : ∀ p ∈ t.recoveredLog, p.1 ∈ s.deadOwners ∧ p.2 < cap) (P : PcOk cap s t.owner t.held pc) :
    (afterOp t (stepOp s pc)).held.Nodup ∧
    (∀ n ∈ (afterOp t (stepOp s pc)).held, n < cap ∧ (stepOp s pc).sh.cells[n]? = some t.owner) ∧
    (∀ p ∈ (afterOp t (stepOp s pc)).recoveredLog, p.1 ∈ s.deadOwners ∧ p.2 < cap) ∧
    (∀ pc', (afterOp t (stepOp s pc)).pc = some pc' →
      PcOk cap (stepOp s pc).sh t.owner (afterOp t (stepOp s pc)).held pc') := by
  have E := stepOp_eff hlen hg hown P
  have U := CUpd.of_eff E
  have dne : ∀ d : Nat, d ∈ s.deadOwners → ∀ j : Nat, s.cells[j]? ≠ some d → (stepOp s pc).sh.cells[j]? ≠ some d := by
    intro d hd j hj
    exact U.cells_dead_ne (hdne d hd) (fun e => htl (e ▸ hd)) hj
  have keep : ∀ n : Nat, s.cells[n]? = some t.owner → ownCell pc ≠ some n ∨ (stepOp s pc).sh.cells = s.cells →
      (stepOp s pc).sh.cells[n]? = some t.owner := by
    intro n hn hne
    rcases E.cells n with h | ⟨h1, _, _⟩ | ⟨h0, ⟨_, h1⟩ | ⟨d, hd, h1⟩, _⟩
    · rw [h]; exact hn
    · rw [hn] at h1; exact absurd (Option.some.inj h1) hown
    · rcases hne with hne | hne
      · exact absurd h1 hne
      · rw [hne]; exact hn
    · rw [hn] at h1; cases Option.some.inj h1; exact absurd hd htl
  have old : ∀ n ∈ t.held, n < cap ∧ (stepOp s pc).sh.cells[n]? = some t.owner := by
    intro n hn
    obtain ⟨h1, h2⟩ := hheld n hn
    refine ⟨h1, keep n h2 (.inl ?_)⟩
    intro e; exact (P.ownCell n e).2.2 hn
  refine ⟨?_, ?_, ?_, ?_⟩
  · rcases afterOp_held t (stepOp s pc) with h | ⟨n, hn, h⟩
    · rw [h]; exact hnodup
    · rw [h]
      obtain ⟨h1, _, _⟩ := stepOp_acquired P.misc hn
      have := (P.ownCell n h1).2.2
      exact List.nodup_append.mpr ⟨hnodup, by simp, by intro a ha b hb; simp at hb; subst hb; intro e; subst e; exact this ha⟩
  · intro n hn
    rcases afterOp_held t (stepOp s pc) with h | ⟨m, hm, h⟩
    · rw [h] at hn; exact old n hn
    · rw [h] at hn
      rcases List.mem_append.mp hn with hn | hn
      · exact old n hn
      · simp at hn; subst hn
        obtain ⟨h1, h2, _⟩ := stepOp_acquired P.misc hm
        obtain ⟨h3, h4, _⟩ := P.ownCell n h1
        exact ⟨h3, by rw [h2]; exact h4⟩
  · intro p hp
    rw [afterOp_log] at hp
    rcases List.mem_append.mp hp with hp | hp
    · exact hlog p hp
    · rcases E.recov with h | ⟨d, j, h, h1, h2, h3⟩
      · rw [h] at hp; cases hp
      · rw [h] at hp; simp at hp; subst hp
        exact ⟨h1, by have := lt_of_getElem? h2; rw [hlen] at this; exact this⟩
  · intro pc' hpc'
    have hn := afterOp_pc_some hpc'
    rw [afterOp_held_inl hn]
    refine ⟨?_, ?_, stepOp_misc hcap hn, ?_, ?_, ?_⟩
    · intro o ho; exact P.ownerArg o (stepOp_ownerArg hn ho)
    · intro n ho
      rcases stepOp_ownCell hn ho with ⟨h1, h2⟩ | ⟨o, g, rfl, h1, h2⟩
      · rw [h2]; exact P.ownCell n h1
      · have ho' : o = t.owner := P.ownerArg o rfl
        have hn' : n < cap := P.misc
        subst ho'
        refine ⟨hn', by rw [h2]; simp [hlen, hn'], ?_⟩
        intro hmem
        have := (hheld n hmem).2
        rw [getD_eq (by rw [hlen]; exact hn')] at h1
        simp [hlen, hn', h1] at this
        exact hown this.symm
    · intro d k' hk'
      obtain ⟨k, h1, h2⟩ := stepOp_rc hcap P.misc (fun k hk => hdne d (P.rc d k hk).1) hn hk'
      obtain ⟨h3, h4⟩ := P.rc d k h1
      refine ⟨by rw [E.dead]; exact h3, ?_⟩
      intro j hj
      rcases h2 j hj with h | h
      · exact dne d h3 j (h4 j h)
      · exact h
    · intro g n hs
      obtain ⟨h1, h2, h3, _⟩ := stepOp_scanA hcap P.scanA hn hs
      rw [h1]; exact ⟨h2, h3⟩
    · intro g n hs
      obtain ⟨_, h2, h3, _⟩ := stepOp_scanL hcap hlen P.misc P.scanL hn hs
      exact ⟨h2, h3⟩

/-! ### sub-machine step, local step, settle -/
section
variable {cap : Nat} {c : Cfg RSh (CTh Th)} {i : Nat} {t : CTh Th}

theorem CInv_stepOp {pc : PC} {t' : CTh Th} (hI : CInv cap c) (hi : c.th[i]? = some t) (hl : Live t)
    (hpc : t.inner.pc = some pc) (hin : t'.inner = afterOp t.inner (stepOp c.sh pc)) (hd : t'.dead = false) :
    CInv cap { sh := (stepOp c.sh pc).sh, th := c.th.set i t' } := by
  have hT := hI.thOk i t hi
  have P := hT.pcOk hl pc hpc
  have htl := Live.not_dead hT hl
  have E := stepOp_eff hI.len hI.genLe hT.ownerNe P
  have hl' : Live t' := ⟨hd, by rw [hin, afterOp_dead]; exact hl.2⟩
  have ho : t'.inner.owner = t.inner.owner := by rw [hin, afterOp_owner]
  obtain ⟨o1, o2, o3, o4⟩ := own_stepOp hI.cap_eq hI.len hI.genLe hI.deadNe hT.ownerNe htl hT.nodup (hT.held hl) hT.log P
  refine CInv_of_upd hI hi hl (CUpd.of_eff E) ho ?_ ?_
  · refine ⟨by rw [ho]; exact hT.ownerNe, ?_, ?_, by rw [hin]; exact o1, ?_, ?_⟩
    · rw [ho, E.dead]; exact ⟨fun h => absurd h htl, fun h => absurd hl' h⟩
    · intro p hp; rw [hin] at hp; rw [E.dead]; exact o3 p hp
    · intro _ n hn; rw [hin] at hn; rw [ho]; exact o2 n hn
    · intro _ pc' hpc'; rw [hin] at hpc'; rw [ho, hin]; exact o4 pc' hpc'
  · intro n hc h2
    have hmem : ∀ m, m ∈ t.inner.held → m ∈ t'.inner.held := by
      intro m hm; rw [hin]
      rcases afterOp_held t.inner (stepOp c.sh pc) with h | ⟨k, _, h⟩
      · rw [h]; exact hm
      · rw [h]; exact List.mem_append_left _ hm
    rcases E.cells n with hs | ⟨_, _, h3⟩ | ⟨h1, _⟩
    · rw [hs] at hc
      rcases h2 hc with h | h | h | ⟨pc0, h0, h⟩
      · exact .inl (E.genLock h)
      · exact absurd hl h
      · exact .inr (.inr (.inl (hmem n h)))
      · rw [hpc] at h0; cases h0
        rcases stepOp_ownCell_fwd (s := c.sh) P.misc P.ownerArg hc h with ⟨pc', h4, h5⟩ | h4 | h4 | h4
        · exact .inr (.inr (.inr ⟨pc', by rw [hin]; exact afterOp_pc_inl h4, h5⟩))
        · refine .inr (.inr (.inl ?_))
          have : (afterOp t.inner (stepOp c.sh pc)).held = t.inner.held ++ [n] := by
            unfold afterOp; rw [h4]
          rw [hin, this]; simp
        · exact .inl h4
        · exfalso
          have hn : n < c.sh.cells.length := lt_of_getElem? hc
          have : (stepOp c.sh pc).sh.cells[n]? = some EMPTY := by rw [h4]; simp [hn]
          rw [← hs, this] at hc
          exact hT.ownerNe (Option.some.inj hc).symm
    · exact .inr (.inr (.inr ⟨_, by rw [hin]; exact afterOp_pc_inl h3, by simp [ownCell]⟩))
    · rw [h1] at hc; exact absurd (Option.some.inj hc).symm hT.ownerNe

/-- a live thread between two operations changes only its own local state -/
theorem CInv_local {t' : CTh Th} (hI : CInv cap c) (hi : c.th[i]? = some t) (hl : Live t)
    (ho : t'.inner.owner = t.inner.owner) (hT : CThOk cap c.sh t')
    (hattr : ∀ n : Nat, Attr c.sh t n → Attr c.sh t' n) :
    CInv cap { sh := c.sh, th := c.th.set i t' } :=
  CInv_of_upd hI hi hl (CUpd.refl hI.genLe) ho hT (fun n hc h2 => hattr n (h2 hc))

theorem CInv_settle {t' : CTh Th} (hI : CInv cap c) (hi : c.th[i]? = some t) (hl : Live t)
    (hin : t'.inner = (settle c.sh t.inner).2) (hd : t'.dead = false) :
    CInv cap { sh := (settle c.sh t.inner).1, th := c.th.set i t' } := by
  have hT := hI.thOk i t hi
  unfold settle at hin ⊢
  split
  · rename_i r hn
    rw [hn] at hin; simp only [] at hin
    exact CInv_death hI hi (by rw [hin]) (by intro h; have := h.2; rw [hin] at this; cases this) (by rw [hin]) (by rw [hin])
  · rename_i hn
    have hin' : t'.inner = t.inner := by
      revert hin
      split
      · rename_i r hn'; exact absurd hn' (hn r)
      · exact id
    refine CInv_local hI hi hl (by rw [hin']) ?_ ?_
    · have hl' : Live t' := ⟨hd, by rw [hin']; exact hl.2⟩
      refine ⟨by rw [hin']; exact hT.ownerNe, ?_, by rw [hin']; exact hT.log, by rw [hin']; exact hT.nodup, ?_, ?_⟩
      · rw [hin']; exact ⟨fun h => absurd h (Live.not_dead hT hl), fun h => absurd hl' h⟩
      · intro _; rw [hin']; exact hT.held hl
      · intro _; rw [hin']; exact hT.pcOk hl
    · intro n h
      rcases h with h | h | h | h
      · exact .inl h
      · exact absurd hl h
      · exact .inr (.inr (.inl (by rw [hin']; exact h)))
      · exact .inr (.inr (.inr (by rw [hin']; exact h)))
end

/-! ### `runPC`, `start`, gate -/
section
variable {cap : Nat} {c : Cfg RSh (CTh Th)} {i : Nat} {t : CTh Th}

theorem CInv_runPC {pc : PC} {t' : CTh Th} (hI : CInv cap c) (hi : c.th[i]? = some t) (hl : Live t)
    (hpc : t.inner.pc = some pc) (hin : t'.inner = (runPC c.sh t.inner pc).2.1) (hd : t'.dead = false) :
    CInv cap { sh := (runPC c.sh t.inner pc).1, th := c.th.set i t' } := by
  have hlt : i < c.th.length := lt_of_getElem? hi
  rw [runPC_eq] at hin ⊢
  cases hn : (stepOp c.sh pc).next with
  | inl pc' =>
    rw [hn] at hin; simp only [] at hin ⊢
    exact CInv_stepOp hI hi hl hpc hin hd
  | inr r =>
    rw [hn] at hin; simp only [] at hin ⊢
    have h1 := CInv_stepOp (t' := { t with inner := afterOp t.inner (stepOp c.sh pc) }) hI hi hl hpc rfl hl.1
    have := CInv_settle (i := i) (t := { t with inner := afterOp t.inner (stepOp c.sh pc) }) (t' := t') h1 (by simp [hlt])
      ⟨hl.1, by simp only [afterOp_dead]; exact hl.2⟩ hin hd
    simpa [List.set_set] using this

theorem CThOk_local {s : RSh} {t' : CTh Th} (hT : CThOk cap s t) (hl : Live t) (ho : t'.inner.owner = t.inner.owner)
    (hl' : Live t') (hlog : t'.inner.recoveredLog = t.inner.recoveredLog) (hnodup : t'.inner.held.Nodup)
    (hheld : ∀ n ∈ t'.inner.held, n ∈ t.inner.held)
    (hpc : ∀ pc, t'.inner.pc = some pc → PcOk cap s t.inner.owner t'.inner.held pc) : CThOk cap s t' := by
  refine ⟨by rw [ho]; exact hT.ownerNe, ?_, by rw [hlog]; exact hT.log, hnodup, ?_, ?_⟩
  · rw [ho]; exact ⟨fun h => absurd h (Live.not_dead hT hl), fun h => absurd hl' h⟩
  · intro _ n hn; rw [ho]; exact hT.held hl n (hheld n hn)
  · intro _ pc h; rw [ho]; exact hpc pc h

theorem CInv_start {cmd : Cmd} {rest : List Cmd} {t' : CTh Th} (hI : CInv cap c) (hi : c.th[i]? = some t) (hl : Live t)
    (hpc : t.inner.pc = none) (hn : nextCmd c.sh t.inner t.inner.todo = some (cmd, rest)) (hd : cmd ≠ .die)
    (hin : t'.inner = start { t.inner with todo := rest } cmd) (hdd : t'.dead = false) :
    CInv cap { sh := c.sh, th := c.th.set i t' } := by
  have hT := hI.thOk i t hi
  have hen := nextCmd_enabled hn
  have hl' : Live t' := ⟨hdd, by rw [hin, start_dead hd]; exact hl.2⟩
  have attr0 : ∀ n, Attr c.sh t n → c.sh.gen = LOCKG ∨ n ∈ t.inner.held := by
    intro n h
    rcases h with h | h | h | ⟨pc, h, _⟩
    · exact .inl h
    · exact absurd hl h
    · exact .inr h
    · rw [hpc] at h; cases h
  cases cmd with
  | die => exact absurd rfl hd
  | acquire =>
    refine CInv_local hI hi hl (by rw [hin]; rfl) (CThOk_local hT hl (by rw [hin]; rfl) hl' (by rw [hin]; rfl)
      (by rw [hin]; exact hT.nodup) (by rw [hin]; exact fun n h => h) ?_) ?_
    · intro pc h; rw [hin] at h ⊢; simp [start] at h; subst h
      exact PcOk_first (by simp [ownerArg]) (by simp [ownCell]) (by simp [pcMisc]) (by simp [rcProg]) rfl rfl
    · intro n h
      rcases attr0 n h with h | h
      · exact .inl h
      · exact .inr (.inr (.inl (by rw [hin]; exact h)))
  | borrowed =>
    refine CInv_local hI hi hl (by rw [hin]; rfl) (CThOk_local hT hl (by rw [hin]; rfl) hl' (by rw [hin]; rfl)
      (by rw [hin]; exact hT.nodup) (by rw [hin]; exact fun n h => h) ?_) ?_
    · intro pc h; rw [hin] at h ⊢; simp [start] at h; subst h
      exact PcOk_first (by simp [ownerArg]) (by simp [ownCell]) (by simp [pcMisc]) (by simp [rcProg, kbProg]) rfl rfl
    · intro n h
      rcases attr0 n h with h | h
      · exact .inl h
      · exact .inr (.inr (.inl (by rw [hin]; exact h)))
  | recover d m =>
    refine CInv_local hI hi hl (by rw [hin]; rfl) (CThOk_local hT hl (by rw [hin]; rfl) hl' (by rw [hin]; rfl)
      (by rw [hin]; exact hT.nodup) (by rw [hin]; exact fun n h => h) ?_) ?_
    · intro pc h; rw [hin] at h; simp [start, hpc] at h
    · intro n h
      rcases attr0 n h with h | h
      · exact .inl h
      · exact .inr (.inr (.inl (by rw [hin]; exact h)))
  | release pos m =>
    have hpos : pos < t.inner.held.length := by simpa [enabled] using hen
    have hidx : t.inner.held[pos]?.getD 0 = t.inner.held[pos] := by simp [hpos]
    refine CInv_local hI hi hl (by rw [hin]; rfl) (CThOk_local hT hl (by rw [hin]; rfl) hl' (by rw [hin]; rfl)
      (by rw [hin]; exact hT.nodup.eraseIdx pos) (by rw [hin]; exact fun n h => List.mem_of_mem_eraseIdx h) ?_) ?_
    · intro pc h; rw [hin] at h ⊢; simp [start] at h; subst h
      refine PcOk_first (by simp [ownerArg]) ?_ (by simp [pcMisc]) (by simp [rcProg]) rfl rfl
      intro n hn'
      simp only [ownCell, Option.some.injEq] at hn'
      subst hn'
      rw [hidx]
      obtain ⟨h1, h2⟩ := hT.held hl t.inner.held[pos] (List.getElem_mem hpos)
      refine ⟨h1, h2, ?_⟩
      simp only [start]
      intro hm
      obtain ⟨k, hk, hk'⟩ := List.mem_eraseIdx_iff_getElem?.mp hm
      have hkl := lt_of_getElem? hk'
      rw [List.getElem?_eq_getElem hkl] at hk'
      exact hk ((List.getElem_inj hT.nodup).mp (Option.some.inj hk'))
    · intro n h
      rcases attr0 n h with h | h
      · exact .inl h
      · obtain ⟨k, hk, hk'⟩ := List.getElem_of_mem h
        by_cases hkp : k = pos
        · subst hkp
          refine .inr (.inr (.inr ⟨.rlDist (t.inner.held.getD k 0) t.inner.owner m, by rw [hin]; rfl, ?_⟩))
          simp [ownCell, hk, hk']
        · refine .inr (.inr (.inl ?_))
          rw [hin]
          exact List.mem_eraseIdx_iff_getElem?.mpr ⟨k, hkp, by simp [hk, hk']⟩

theorem CInv_gate {s' : RSh} {ti' : Th} {evs : List Ev} {t' : CTh Th} (hI : CInv cap c) (hi : c.th[i]? = some t) (hl : Live t)
    (hpc : t.inner.pc = none) (hg : step_gate c.sh t.inner = some (s', ti', evs))
    (hin : t'.inner = ti') (hdd : t'.dead = false) : CInv cap { sh := s', th := c.th.set i t' } := by
  have hT := hI.thOk i t hi
  have hlt : i < c.th.length := lt_of_getElem? hi
  have attr0 : ∀ n, Attr c.sh t n → c.sh.gen = LOCKG ∨ n ∈ t.inner.held := by
    intro n h
    rcases h with h | h | h | ⟨pc, h, _⟩
    · exact .inl h
    · exact absurd hl h
    · exact .inr h
    · rw [hpc] at h; cases h
  unfold step_gate at hg
  split at hg
  · rename_i d m hgate
    split at hg
    · rename_i hd
      simp at hg; obtain ⟨rfl, rfl, _⟩ := hg
      have hl' : Live t' := ⟨hdd, by rw [hin]; exact hl.2⟩
      refine CInv_local hI hi hl (by rw [hin]) (CThOk_local hT hl (by rw [hin]) hl' (by rw [hin])
        (by rw [hin]; exact hT.nodup) (by rw [hin]; exact fun n h => h) ?_) ?_
      · intro pc h; rw [hin] at h ⊢; simp at h; subst h
        exact PcOk_first (by simp [ownerArg]) (by simp [ownCell]) (by simp [pcMisc])
          (by intro d' k hk; simp [rcProg] at hk; obtain ⟨rfl, rfl⟩ := hk; exact ⟨hd, rfl⟩) rfl rfl
      · intro n h
        rcases attr0 n h with h | h
        · exact .inl h
        · exact .inr (.inr (.inl (by rw [hin]; exact h)))
    · simp at hg; obtain ⟨rfl, rfl, _⟩ := hg
      have hl1 : Live { t with inner := { t.inner with gate := none } } := hl
      have h1 : CInv cap { sh := c.sh, th := c.th.set i { t with inner := { t.inner with gate := none } } } := by
        refine CInv_local hI hi hl rfl (CThOk_local hT hl rfl hl1 rfl hT.nodup (fun n h => h) ?_) ?_
        · intro pc h; simp [hpc] at h
        · intro n h
          rcases attr0 n h with h | h
          · exact .inl h
          · exact .inr (.inr (.inl h))
      have := CInv_settle (i := i) (t := { t with inner := { t.inner with gate := none } }) (t' := t') h1 (by simp [hlt]) hl1
        hin hdd
      simpa [List.set_set] using this
  · cases hg
end

/-! ### one step of the crash system -/
section
theorem cstepAt_some {c c' : Cfg RSh (CTh Th)} {i : Nat} {evs : List Ev} (h : csys.stepAt c i = some (c', evs)) :
    ∃ t, c.th[i]? = some t ∧ t.dead = false ∧
      ((∃ t', t'.inner = t.inner ∧ t'.dead = true ∧
          c' = { sh := { c.sh with deadOwners := t.inner.owner :: c.sh.deadOwners }, th := c.th.set i t' }) ∨
       (∃ s' ti' t', step c.sh t.inner = some (s', ti', evs) ∧ t'.inner = ti' ∧ t'.dead = false ∧
          c' = { sh := s', th := c.th.set i t' })) := by
  unfold Sys.stepAt at h
  split at h
  · cases h
  · rename_i t ht
    refine ⟨t, ht, ?_⟩
    simp only [csys, Sys.withCrash] at h
    by_cases hd : t.dead = true
    · simp [hd] at h
    · simp only [hd] at h
      refine ⟨Bool.eq_false_iff.mpr hd, ?_⟩
      split at h
      · cases h
      · rename_i sh' t' evs' hs
        simp only [Option.some.injEq, Prod.mk.injEq] at h
        obtain ⟨rfl, rfl⟩ := h
        simp only [Bool.false_eq_true, if_false] at hs
        split at hs
        · simp only [Option.some.injEq, Prod.mk.injEq] at hs
          obtain ⟨rfl, rfl, _⟩ := hs
          exact .inl ⟨{ t with dead := true, fuse := none }, rfl, rfl, rfl⟩
        · split at hs
          · cases hs
          · rename_i s1 t1 e1 hst
            simp only [Option.some.injEq, Prod.mk.injEq] at hs
            obtain ⟨rfl, rfl, rfl⟩ := hs
            exact .inr ⟨_, _, { inner := t1, fuse := if e1.isEmpty then t.fuse else t.fuse.map (· - 1), dead := false }, hst, rfl,
              rfl, rfl⟩

variable {cap : Nat} {c : Cfg RSh (CTh Th)} {i : Nat}

theorem CInv_step {c' : Cfg RSh (CTh Th)} {evs : List Ev} (hI : CInv cap c) (h : csys.stepAt c i = some (c', evs)) :
    CInv cap c' := by
  obtain ⟨t, hi, hd, hc⟩ := cstepAt_some h
  have hlt : i < c.th.length := lt_of_getElem? hi
  rcases hc with ⟨t', hin, hd', rfl⟩ | ⟨s', ti', t', hst, hin, hd', rfl⟩
  · exact CInv_death hI hi (by rw [hin]) (fun h => by rw [h.1] at hd'; cases hd') (by rw [hin]) (by rw [hin])
  · obtain ⟨hl0, hc⟩ := step_cases hst
    have hl : Live t := ⟨hd, hl0⟩
    rcases hc with ⟨pc, hpc, hr⟩ | ⟨hpc, hg⟩ | ⟨hpc, cmd, rest, hn, hdc, hc⟩
    · have := CInv_runPC (t' := t') hI hi hl hpc (by rw [hin, ← hr]) hd'
      rw [← hr] at this; exact this
    · exact CInv_gate hI hi hl hpc hg hin hd'
    · have h0 := CInv_start (t' := { t with inner := start { t.inner with todo := rest } cmd }) hI hi hl hpc hn hdc rfl hd
      have hi0 : (c.th.set i { t with inner := start { t.inner with todo := rest } cmd })[i]? =
          some { t with inner := start { t.inner with todo := rest } cmd } := by simp [hlt]
      have hl0' : Live { t with inner := start { t.inner with todo := rest } cmd } :=
        ⟨hd, by simp only [start_dead hdc]; exact hl0⟩
      rcases hc with ⟨pc, hpc0, hr⟩ | ⟨hpc0, hg⟩
      · have := CInv_runPC (t' := t') h0 hi0 hl0' hpc0 (by rw [hin, ← hr]) hd'
        rw [← hr] at this
        simpa [List.set_set] using this
      · have := CInv_gate (t' := t') h0 hi0 hl0' hpc0 hg hin hd'
        simpa [List.set_set] using this
end

/-! ### initial configuration; generation counter and recorded deaths -/
theorem settle_cells (s : RSh) (t : Th) : (settle s t).1.cells = s.cells := by
  unfold settle; split <;> rfl

theorem fold_cells (l : List Th) : ∀ c : Cfg RSh Th, (l.foldl pushTh c).sh.cells = c.sh.cells := by
  induction l with
  | nil => intro c; rfl
  | cons a l ih => intro c; simp only [List.foldl_cons]; rw [ih]; simp [pushTh, settle_cells]

theorem initCfg_cells (cap : Nat) (owners : List Nat) (progs : List (List Cmd)) :
    (initCfg cap owners progs).sh.cells = List.replicate cap EMPTY := by
  have e : initCfg cap owners progs =
      ((owners.zip progs).map fun (o, p) => Th.init o p).foldl pushTh { sh := RSh.init cap, th := [] } := rfl
  rw [e, fold_cells]; rfl

theorem cinit_get {cap : Nat} {owners : List Nat} {progs : List (List Cmd)} {fuses : List (Option Nat)} {j : Nat} {u : CTh Th}
    (h : (cinit cap owners progs fuses).th[j]? = some u) :
    (initCfg cap owners progs).th[j]? = some u.inner ∧ u.dead = false := by
  simp only [cinit, List.getElem?_map, Option.map_eq_some_iff] at h
  obtain ⟨⟨t0, f⟩, h1, rfl⟩ := h
  rw [List.getElem?_zip_eq_some] at h1
  exact ⟨h1.1, rfl⟩

theorem CInv_init (cap : Nat) (owners : List Nat) (progs : List (List Cmd)) (fuses : List (Option Nat)) (ho : OwnersOk owners) :
    CInv cap (cinit cap owners progs fuses) := by
  have hI := Inv_init cap owners progs ho
  refine ⟨hI.cap_eq, hI.len, hI.genLe, ?_, hI.deadNe, ?_, ?_⟩
  · show (((((initCfg cap owners progs).th.zip fuses).map fun (t, f) => ({ inner := t, fuse := f } : CTh Th))).map
      (·.inner.owner)).Nodup
    have e : ((((initCfg cap owners progs).th.zip fuses).map fun (t, f) => ({ inner := t, fuse := f } : CTh Th))).map
        (·.inner.owner) = ((((initCfg cap owners progs).th.zip fuses)).map (·.1)).map (·.owner) := by
      simp [List.map_map, Function.comp_def]
    rw [e]
    exact hI.ownersNodup.sublist ((zip_fst_sublist _ _).map _)
  · intro j u hj
    obtain ⟨h1, h2⟩ := cinit_get hj
    have hT := hI.thOk j u.inner h1
    have hiff : u.inner.owner ∈ (initCfg cap owners progs).sh.deadOwners ↔ ¬ Live u := by
      rw [hT.deadIff]
      constructor
      · intro h hl; rw [hl.2] at h; cases h
      · intro h
        cases hd : u.inner.dead with
        | true => rfl
        | false => exact absurd ⟨h2, hd⟩ h
    exact ⟨hT.ownerNe, hiff, fun p hp => ⟨(hT.log p hp).1, (hT.log p hp).2.1⟩, hT.nodup, fun hl => hT.held hl.2,
      fun _ => hT.pcOk⟩
  · intro n o hc hne
    exfalso
    have : (cinit cap owners progs fuses).sh.cells = List.replicate cap EMPTY := initCfg_cells cap owners progs
    rw [this] at hc
    have := List.mem_of_getElem? hc
    exact hne (List.eq_of_mem_replicate this)

theorem CInv_reachable {cap : Nat} {owners : List Nat} {progs : List (List Cmd)} {fuses : List (Option Nat)}
    (ho : OwnersOk owners) {c : Cfg RSh (CTh Th)} (h : Reachable csys (cinit cap owners progs fuses) c) : CInv cap c :=
  Reachable.inv (CInv cap) (CInv_init cap owners progs fuses ho) (fun _ _ _ _ hI hs => CInv_step hI hs) c h

/-! ### generation counter and recorded deaths (no assumption on the owner ids) -/

structure CG (c : Cfg RSh (CTh Th)) : Prop where
  genLe : c.sh.gen ≤ LOCKG
  inc : ∀ (i : Nat) (t : CTh Th) (pc : PC), c.th[i]? = some t → t.inner.pc = some pc → incOk pc
  dead : ∀ (i : Nat) (t : CTh Th), c.th[i]? = some t → t.dead = true → t.inner.owner ∈ c.sh.deadOwners

theorem stepOp_deadOwners (s : RSh) (pc : PC) : (stepOp s pc).sh.deadOwners = s.deadOwners := by
  cases pc <;> simp only [stepOp, apply_ite Out.sh, finishInc_sh, finishBg_sh, finishLock_sh, ite_self,
    apply_ite RSh.deadOwners]

theorem settle_dead_mono (s : RSh) (t : Th) : ∀ d ∈ s.deadOwners, d ∈ (settle s t).1.deadOwners := by
  unfold settle; split
  · intro d hd; exact List.mem_cons_of_mem _ hd
  · intro d hd; exact hd

theorem step_dead_mono {s s' : RSh} {t t' : Th} {evs : List Ev} (h : step s t = some (s', t', evs)) :
    ∀ d ∈ s.deadOwners, d ∈ s'.deadOwners := by
  have run : ∀ (t0 : Th) (pc0 : PC), (s', t', evs) = runPC s t0 pc0 → ∀ d ∈ s.deadOwners, d ∈ s'.deadOwners := by
    intro t0 pc0 hr d hd
    rw [runPC_eq] at hr
    cases hn : (stepOp s pc0).next with
    | inl pc' => rw [hn] at hr; simp at hr; rw [hr.1, stepOp_deadOwners]; exact hd
    | inr r =>
      rw [hn] at hr; simp at hr; rw [hr.1]
      exact settle_dead_mono _ _ d (by rw [stepOp_deadOwners]; exact hd)
  have gate : ∀ (t0 : Th), step_gate s t0 = some (s', t', evs) → ∀ d ∈ s.deadOwners, d ∈ s'.deadOwners := by
    intro t0 hg d hd
    unfold step_gate at hg
    split at hg
    · split at hg
      · simp at hg; rw [← hg.1]; exact hd
      · simp at hg; rw [← hg.1]; exact settle_dead_mono _ _ d hd
    · cases hg
  obtain ⟨_, hc⟩ := step_cases h
  rcases hc with ⟨pc, _, hr⟩ | ⟨_, hg⟩ | ⟨_, cmd, rest, _, _, hc⟩
  · exact run t pc hr
  · exact gate t hg
  · rcases hc with ⟨pc, _, hr⟩ | ⟨_, hg⟩
    · exact run _ pc hr
    · exact gate _ hg

theorem CG_step {c c' : Cfg RSh (CTh Th)} {i : Nat} {evs : List Ev} (hI : CG c) (h : csys.stepAt c i = some (c', evs)) :
    CG c' ∧ c.sh.gen ≤ c'.sh.gen ∧ (c.sh.gen = LOCKG → c'.sh.gen = LOCKG) := by
  obtain ⟨t, hi, hd, hc⟩ := cstepAt_some h
  have hlt : i < c.th.length := lt_of_getElem? hi
  rcases hc with ⟨t', hin, hd', rfl⟩ | ⟨s', ti', t', hst, hin, hd', rfl⟩
  · refine ⟨⟨hI.genLe, ?_, ?_⟩, Nat.le_refl _, id⟩
    · intro j u pc hj hpc
      by_cases hji : j = i
      · subst hji; simp [hlt] at hj; subst hj; rw [hin] at hpc; exact hI.inc j t pc hi hpc
      · simp only [List.getElem?_set_ne (Ne.symm hji)] at hj; exact hI.inc j u pc hj hpc
    · intro j u hj hud
      by_cases hji : j = i
      · subst hji; simp [hlt] at hj; subst hj; rw [hin]; exact List.mem_cons_self
      · simp only [List.getElem?_set_ne (Ne.symm hji)] at hj; exact List.mem_cons_of_mem _ (hI.dead j u hj hud)
  · have hg := step_gen hst hI.genLe (fun pc hpc => hI.inc i t pc hi hpc)
    refine ⟨⟨hg.2.1, ?_, ?_⟩, hg.1, hg.2.2⟩
    · intro j u pc hj hpc
      by_cases hji : j = i
      · subst hji; simp [hlt] at hj; subst hj; rw [hin] at hpc; exact step_pc_incOk hst pc hpc
      · simp only [List.getElem?_set_ne (Ne.symm hji)] at hj; exact hI.inc j u pc hj hpc
    · intro j u hj hud
      by_cases hji : j = i
      · subst hji; simp [hlt] at hj; subst hj; rw [hd'] at hud; cases hud
      · simp only [List.getElem?_set_ne (Ne.symm hji)] at hj; exact step_dead_mono hst _ (hI.dead j u hj hud)

theorem CG_reachable {cap : Nat} {owners : List Nat} {progs : List (List Cmd)} {fuses : List (Option Nat)}
    {c : Cfg RSh (CTh Th)} (h : Reachable csys (cinit cap owners progs fuses) c) : CG c := by
  refine Reachable.inv CG ?_ (fun _ _ _ _ hI hs => (CG_step hI hs).1) c h
  have hG : GInv (initCfg cap owners progs) := GInv_reachable Reachable.init
  refine ⟨hG.genLe, ?_, ?_⟩
  · intro j u pc hj hpc
    exact hG.inc j u.inner pc (cinit_get hj).1 hpc
  · intro j u hj hud
    rw [(cinit_get hj).2] at hud; cases hud

variable {cap : Nat} {owners : List Nat} {progs : List (List Cmd)} {fuses : List (Option Nat)}

/-! ### theorems -/

/-- survivors keep exclusive ownership whatever dies wherever -/
theorem crash_exclusive (ho : OwnersOk owners) (hl : fuses.length = owners.length) (c : Cfg RSh (CTh Th))
    (h : Reachable csys (cinit cap owners progs fuses) c)
    (i j : Nat) (ti tj : CTh Th) (hi : c.th[i]? = some ti) (hj : c.th[j]? = some tj)
    (hli : Live ti) (hlj : Live tj) (n : Nat) (hni : n ∈ ti.inner.held) (hnj : n ∈ tj.inner.held) :
    i = j ∧ n < cap := by
  have _ := hl
  have hI := CInv_reachable ho h
  obtain ⟨h0, h1⟩ := (hI.thOk i ti hi).held hli n hni
  have h2 := ((hI.thOk j tj hj).held hlj n hnj).2
  rw [h1] at h2
  exact ⟨cowner_inj hI.ownersNodup hi hj (Option.some.inj h2), h0⟩

/-- what a live thread holds is really its own: the cell carries its owner id (so recovery of a
dead owner can never take it away) -/
theorem crash_held_valid (ho : OwnersOk owners) (hl : fuses.length = owners.length) (c : Cfg RSh (CTh Th))
    (h : Reachable csys (cinit cap owners progs fuses) c)
    (i : Nat) (t : CTh Th) (hi : c.th[i]? = some t) (hlv : Live t) (n : Nat) (hn : n ∈ t.inner.held) :
    c.sh.cells[n]? = some t.inner.owner := by
  have _ := hl
  exact (((CInv_reachable ho h).thOk i t hi).held hlv n hn).2

/-- recovery only ever acts for owners that are dead, and only on cells that carry the dead owner's id:
a `recoveredLog` entry `(d, n)` names a dead owner `d` -/
theorem crash_recover_exact (ho : OwnersOk owners) (hl : fuses.length = owners.length) (c : Cfg RSh (CTh Th))
    (h : Reachable csys (cinit cap owners progs fuses) c)
    (i : Nat) (t : CTh Th) (hi : c.th[i]? = some t) (d n : Nat) (hlog : (d, n) ∈ t.inner.recoveredLog) :
    d ∈ c.sh.deadOwners ∧ n < cap ∧ ∀ (j : Nat) (tj : CTh Th), c.th[j]? = some tj → Live tj → tj.inner.owner ≠ d := by
  have _ := hl
  have hI := CInv_reachable ho h
  obtain ⟨h1, h2⟩ := (hI.thOk i t hi).log (d, n) hlog
  refine ⟨h1, h2, ?_⟩
  intro j tj hj hlj e
  exact Live.not_dead (hI.thOk j tj hj) hlj (e ▸ h1)

/-- recovery is complete: when a recovery for the dead owner `d` has scanned all cells (`rcFinal`),
no cell carries `d` any more — wherever `d` died (in the middle of an acquire, a release, or of its own
recovery of somebody else) -/
theorem crash_recover_complete (ho : OwnersOk owners) (hl : fuses.length = owners.length) (c : Cfg RSh (CTh Th))
    (h : Reachable csys (cinit cap owners progs fuses) c)
    (i : Nat) (t : CTh Th) (hi : c.th[i]? = some t) (hlv : Live t) (d : Nat) (hpc : t.inner.pc = some (.rcFinal d)) :
    ∀ n : Nat, c.sh.cells[n]? ≠ some d := by
  have _ := hl
  have hI := CInv_reachable ho h
  intro n
  by_cases hn : n < cap
  · exact (((hI.thOk i t hi).pcOk hlv _ hpc).rc d cap rfl).2 n hn
  · rw [List.getElem?_eq_none (by rw [hI.len]; omega)]; intro e; cases e

/- `crash_no_orphan`, as originally stated (below), is FALSE — and not because of a crash: when the set
gets locked (`lock()` by a `release`/`recover` with lock-if-last) while an `acquire` is between its
cell CAS and its generation increment, that acquire fails with `IsLocked` but its cell keeps the
owner id for ever; the owner is alive, holds nothing and is not inside an operation.  Machine-checked
refutation: `crash_no_orphan_false` (capacity 1, owners [100, 101], programs
`[[acquire, release 0 lockIfLast], [acquire]]`, fuses `[none, none]`, schedule
`0×13, 1×3, 0×3, 1`; final state: `cells = [101]`, `gen = LOCKG`, both threads idle and alive).
Since the set is locked nothing can be acquired any more anyway; the true statement
(`crash_no_orphan_partial`) is the original one for every configuration that is not locked.

/-- nothing is lost: every occupied cell belongs to a live thread that holds it or is in the middle of an
operation on it, or to a dead owner (and is therefore recoverable).  Hence once every dead owner has
been recovered and the survivors have released what they hold, every index is acquirable again. -/
theorem crash_no_orphan (ho : OwnersOk owners) (hl : fuses.length = owners.length) (hnd : NoDieCmd progs)
    (c : Cfg RSh (CTh Th)) (h : Reachable csys (cinit cap owners progs fuses) c)
    (n : Nat) (o : Nat) (hc : c.sh.cells[n]? = some o) (ho' : o ≠ EMPTY) :
    o ∈ c.sh.deadOwners ∨
    ∃ (j : Nat) (tj : CTh Th), c.th[j]? = some tj ∧ Live tj ∧ tj.inner.owner = o ∧ (n ∈ tj.inner.held ∨ tj.inner.pc ≠ none)
-/

/-- nothing is lost as long as the set is not locked (`crash_no_orphan` with the additional hypothesis
`c.sh.gen ≠ LOCKG`): every occupied cell belongs to a live thread that holds it or is in the middle of
an operation, or to a dead owner (and is therefore recoverable) — wherever threads crashed -/
theorem crash_no_orphan_partial (ho : OwnersOk owners) (hl : fuses.length = owners.length) (hnd : NoDieCmd progs)
    (c : Cfg RSh (CTh Th)) (h : Reachable csys (cinit cap owners progs fuses) c)
    (hu : c.sh.gen ≠ LOCKG)
    (n : Nat) (o : Nat) (hc : c.sh.cells[n]? = some o) (ho' : o ≠ EMPTY) :
    o ∈ c.sh.deadOwners ∨
    ∃ (j : Nat) (tj : CTh Th), c.th[j]? = some tj ∧ Live tj ∧ tj.inner.owner = o ∧ (n ∈ tj.inner.held ∨ tj.inner.pc ≠ none) := by
  have _ := hl
  have _ := hnd
  have hI := CInv_reachable ho h
  obtain ⟨j, u, hj, huo, hA⟩ := hI.attr n o hc ho'
  by_cases hlu : Live u
  · right
    refine ⟨j, u, hj, hlu, huo, ?_⟩
    rcases hA with h | h | h | ⟨pc, h, _⟩
    · exact absurd h hu
    · exact absurd hlu h
    · exact .inl h
    · right; rw [h]; simp
  · left; rw [← huo]; exact (hI.thOk j u hj).deadIff.mpr hlu

/-- the configuration refuting `crash_no_orphan`: no crash at all.  Thread 0 (owner 100) acquires index 0 and
releases it with lock-if-last; thread 1 (owner 101) claims cell 0 between thread 0's scan and its
locking CAS; thread 1's increment then finds the set locked: `acquire` fails with `IsLocked`, cell 0
keeps the owner id 101 for ever, nobody holds it. -/
def orphanCfg : Cfg RSh (CTh Th) :=
  (csys.run (cinit 1 [100, 101] [[.acquire, .release 0 .lockIfLast], [.acquire]] [none, none])
    (List.replicate 13 0 ++ List.replicate 3 1 ++ List.replicate 3 0 ++ [1])).1

theorem crash_no_orphan_false :
    ¬ (∀ (cap : Nat) (owners : List Nat) (progs : List (List Cmd)) (fuses : List (Option Nat)),
        OwnersOk owners → fuses.length = owners.length → NoDieCmd progs →
        ∀ (c : Cfg RSh (CTh Th)), Reachable csys (cinit cap owners progs fuses) c →
        ∀ (n o : Nat), c.sh.cells[n]? = some o → o ≠ EMPTY →
          o ∈ c.sh.deadOwners ∨
          ∃ (j : Nat) (tj : CTh Th), c.th[j]? = some tj ∧ Live tj ∧ tj.inner.owner = o ∧
            (n ∈ tj.inner.held ∨ tj.inner.pc ≠ none)) := by
  intro H
  have hr : Reachable csys (cinit 1 [100, 101] [[.acquire, .release 0 .lockIfLast], [.acquire]] [none, none]) orphanCfg :=
    Sys.run_reachable _ _ _ Reachable.init _
  have h1 : orphanCfg.sh.cells[0]? = some 101 := by decide
  have h2 : 101 ∉ orphanCfg.sh.deadOwners := by decide
  have h3 : orphanCfg.th.map (fun t => (t.inner.owner, t.inner.held, t.inner.pc)) = [(100, [], none), (101, [], none)] := by
    decide
  have ok : OwnersOk [100, 101] := ⟨by decide, by decide⟩
  have nd : NoDieCmd [[.acquire, .release 0 .lockIfLast], [.acquire]] := by
    intro p hp; simp at hp; rcases hp with rfl | rfl <;> decide
  rcases H 1 [100, 101] _ [none, none] ok rfl nd orphanCfg hr 0 101 h1 (by decide) with h | ⟨j, tj, hj, _, h4, h5⟩
  · exact h2 h
  · have h6 : (orphanCfg.th.map (fun t => (t.inner.owner, t.inner.held, t.inner.pc)))[j]? =
        some (tj.inner.owner, tj.inner.held, tj.inner.pc) := by simp [hj]
    rw [h3] at h6
    match j, h6 with
    | 0, h6 => simp at h6; omega
    | 1, h6 =>
      simp at h6
      rcases h5 with h5 | h5
      · rw [h6.2.1] at h5; cases h5
      · exact h5 h6.2.2.symm
    | j + 2, h6 => simp at h6

/-- the lock is final and the generation counter never decreases, also under crashes -/
theorem crash_gen_monotone (c c' : Cfg RSh (CTh Th)) (i : Nat) (evs : List Ev)
    (h : Reachable csys (cinit cap owners progs fuses) c) (hs : csys.stepAt c i = some (c', evs)) :
    c.sh.gen ≤ c'.sh.gen ∧ (c.sh.gen = LOCKG → c'.sh.gen = LOCKG) :=
  (CG_step (CG_reachable h) hs).2

/-- a dead thread never steps again and its death is recorded -/
theorem crash_dead_is_final (c : Cfg RSh (CTh Th)) (h : Reachable csys (cinit cap owners progs fuses) c)
    (i : Nat) (t : CTh Th) (hi : c.th[i]? = some t) (hd : t.dead = true) :
    csys.stepAt c i = none ∧ t.inner.owner ∈ c.sh.deadOwners := by
  refine ⟨?_, (CG_reachable h).dead i t hi hd⟩
  simp [Sys.stepAt, hi, csys, Sys.withCrash, hd]

/-- the configuration of the non-vacuity example -/
def exCfg : Cfg RSh (CTh Th) :=
  (csys.run (cinit 1 [100, 101] [[.acquire], [.recover 100 .default, .acquire]] [some 4, none])
    (List.replicate 5 0 ++ List.replicate 13 1)).1

/-- non-vacuity: a thread dies in the middle of an `acquire` (cell already claimed, generation not yet
bumped), another thread recovers it and then acquires the same index -/
example : ∃ (c : Cfg RSh (CTh Th)) (t0 t1 : CTh Th),
    Reachable csys (cinit 1 [100, 101] [[.acquire], [.recover 100 .default, .acquire]] [some 4, none]) c ∧
    c.th[0]? = some t0 ∧ t0.dead = true ∧ t0.inner.pc ≠ none ∧ c.th[1]? = some t1 ∧ 0 ∈ t1.inner.held := by
  have h : exCfg.th.map (fun t => (t.dead, t.inner.pc, t.inner.held)) =
      [(true, some (.incCas (.acq 0) 0), []), (false, none, [0])] := by decide
  have h0 : (exCfg.th.map (fun t => (t.dead, t.inner.pc, t.inner.held)))[0]? = some (true, some (.incCas (.acq 0) 0), []) := by
    rw [h]; rfl
  have h1 : (exCfg.th.map (fun t => (t.dead, t.inner.pc, t.inner.held)))[1]? = some (false, none, [0]) := by
    rw [h]; rfl
  simp only [List.getElem?_map, Option.map_eq_some_iff, Prod.mk.injEq] at h0 h1
  obtain ⟨t0, e0, d0, p0, _⟩ := h0
  obtain ⟨t1, e1, _, _, l1⟩ := h1
  exact ⟨exCfg, t0, t1, Sys.run_reachable _ _ _ Reachable.init _, e0, d0, by rw [p0]; simp, e1, by rw [l1]; simp⟩


end Iox2.RUIS.Crash
