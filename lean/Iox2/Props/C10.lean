/-
C10 — port registry snapshots: never torn, never ghost, eventually exact
(model Iox2/Model/Container.lean, on the index-set sub-machine Iox2/Model/RobustIndexSet.lean).
The statements (unchanged) are at the end of the file; all of them are proved.

Setting: ANY number of threads with pairwise different owner ids, ANY programs (add, remove of
an own entry with or without lock-if-last, update_state on the thread's own snapshot, recover
on behalf of a dead owner, die), ANY capacity and value width, all interleavings including
preemption between two words of an entry (`Reachable`).
-/
import Iox2.Model.Container

namespace Iox2.C10
open Iox2.Sched Iox2.Container

def mkCfg (cap width : Nat) (owners : List Nat) (progs : List (List Cmd)) : Cfg Sh Th :=
  initCfg cap width ((owners.zip progs).map fun (o, p) => Th.init o cap width p)

/-- owner ids are valid and pairwise different; every value handed to `add` has `width` words -/
def WF (width : Nat) (owners : List Nat) (progs : List (List Cmd)) : Prop :=
  owners.Nodup ∧ (∀ o ∈ owners, o ≠ RUIS.EMPTY) ∧ owners.length = progs.length ∧
  ∀ p ∈ progs, ∀ v, Cmd.add v ∈ p → v.length = width

end Iox2.C10

/-!
## How the theorems are proved

All six statements at the end of this file are proved (no `sorry`); nothing was found false.

**Architecture.**
1. *Refinement.*  Every pc is mapped to a *phase* (`Ph`, function `phase`), every thread to an abstract
   thread `ATh` (`abs`: owner, phase, `mine`, `snap`, ghosts, and the flags `dead` / `act`).  `AStep` is
   an abstract step relation with ~45 rules (one per *kind* of atomic step).  `step_refines`: under
   well-formed pcs (`ThWf`, itself an invariant: index-set pc compatible with the container operation,
   `incCas k g → g ≠ LOCKG`, owner/index/dead-owner arguments of the pcs, `v.length = width`, …) every
   step of the model is a sequence of at most three abstract steps of the same thread (pick next
   command; fall through an exhausted word loop; the atomic step / the gate of `recover`).
   The index-set sub-machine is summarised per container operation by `stepOp_add/_rm/_rv`.
2. *One inductive invariant* `AInv` on (shared state, abstract threads), preserved by every `AStep` of a
   live, active thread (`inv_step`), true initially (`cinv_init`), hence in every reachable
   configuration (`cinv_reach`).  Preservation is organised as *effect lemmas* (`eff_*`: what one step
   may do to `egc`, `data`, cells, `gen`, dead owners, `published`, `removedDone`, `change`, and to the
   stepping thread's held slots / tokens / snapshot) followed by one `pres_*` lemma per clause.
3. The three step-local theorems (`container_monotone`, `change_noticed`, `change_counts_completed`) do
   not assume `WF`; they are proved directly on `stepPC` (`stepPC_mono`, `stepPC_rets`, `stepPC_count`).

**Clauses of `AInv`** (`E s n = egc[n]`, `Cl s n = cells[n]`):
* shapes; owners pairwise different and `≠ EMPTY`; `life` (owner in `deadOwners` → dead; dead → idle and
  not active); every non-empty cell carries the owner id of some thread (`cell_owner`).
* *slot ownership* — `heldL a` = slot held by virtue of the pc (from the successful cell CAS of acquire to
  `addIncEgc`, and from the start of `remove` to its release CAS) ++ slots of `mine`: duplicate-free,
  and for a live thread `Cl s n = owner` (`held_own`); hence two live threads never hold the same slot
  (`AInv.excl`).  `leak`: a cell carrying a thread's id is held by it, or the index set is locked
  (acquire that lost against `lock()`); `rv_dead`, `no_leak`: a recovery that passed `is_locked()` works on
  behalf of a dead owner all of whose cells carry published entries (so the success hook never turns an
  even generation odd).
* *generations* — `cst_odd`: a slot held with a published entry has an odd generation; `phInv`: per-phase
  facts (after `addLdEgc/addCasEgc` the generation is even and stays so until `addIncEgc`, words written
  so far equal the value; tokens `(n, g)` of a remover after its release / of the recover hook are odd,
  in bounds and `g ≤ E s n`; reader: `snap.egc[i] = g ≤ E s i` and, while `E s i = g`, the words copied so
  far are those of `data[i]`); `tok_stale`: while `E s n = g` for a token `(n, g)` nobody holds `n` with a
  published entry; `removed_lt`, `rvdone_lt`: completed removals `(n, g)` have `g < E s n`.
* *published* — odd `E s i` → `(E s i, data[i]) ∈ published[i]`; generations in `published[i]` are `≤ E s i`
  and pairwise different.
* *readers* — `rdInv`: all slots of a snapshot except the one being refreshed are genuine; `upd_ok`: the
  three properties of every recorded refresh; `ng`, `ch` (`scanned`): refreshed slots carry generations
  newer than the removals known at begin / all completed removals unless `change` moved; `busy` = number of
  active threads; `fz`: during a quiet refresh every other thread is inactive; `qc`: … and the change
  counter is the loaded one; `ex`: `snap.change ≠ change`, or some thread is inside an operation that may
  have written without having incremented `change` (`pend`), or the refreshed slots are exact (`exInv`).

Bool versions of all clauses and of the theorems were run (in a scratch file, `#eval`) over 6000
pseudo-random schedules (capacity 1–2, width 1–2, 2–3 threads, programs with add / remove / remove with
lock-if-last / update / recover / die) before the preservation proofs; no violation.
-/

/- ---------------------------------------------------------------- part A -/
namespace Iox2.C10
open Iox2.Sched Iox2.Container

/-! ## basic step lemmas -/
theorem stepAt_some {c c' : Cfg Sh Th} {i : Nat} {evs : List Ev} (h : sys.stepAt c i = some (c', evs)) :
    ∃ t sh' t', c.th[i]? = some t ∧ step c.sh t = some (sh', t', evs) ∧ c' = { sh := sh', th := c.th.set i t' } := by
  unfold Sys.stepAt at h
  split at h
  · simp at h
  · rename_i t ht
    split at h
    · simp at h
    · rename_i sh' t' evs' hst
      simp at h
      obtain ⟨rfl, rfl⟩ := h
      exact ⟨t, sh', t', ht, hst, rfl⟩

/-- `t0` is `t`, or `t` after it picked its next command -/
inductive Pre (s : Sh) (t : Th) : Th → Prop
  | same : Pre s t t
  | start (c : Cmd) (rest : List Cmd) : t.pc = none → t.gate = none → nextCmd t t.todo = some (c, rest) → c ≠ .die →
      Pre s t (start s { t with todo := rest } c)

theorem step_cases {s : Sh} {t : Th} {r : Sh × Th × List Ev} (h : step s t = some r) :
    t.dead = false ∧ ∃ t0, Pre s t t0 ∧
      ((∃ pc, t0.pc = some pc ∧ r = stepPC s t0 (normalize s pc)) ∨ (t0.pc = none ∧ stepGate s t0 = some r)) := by
  unfold step at h
  split at h
  · simp at h
  · rename_i hd
    refine ⟨by simpa using hd, ?_⟩
    split at h
    · rename_i pc hpc
      exact ⟨t, .same, .inl ⟨pc, hpc, by simpa using h.symm⟩⟩
    · rename_i hpc
      split at h
      · exact ⟨t, .same, .inr ⟨hpc, h⟩⟩
      · rename_i hg
        split at h
        · simp at h
        · simp at h
        · rename_i c rest hnd hn
          refine ⟨_, .start c rest hpc hg hn (by intro e; exact hnd e), ?_⟩
          simp only at h
          split at h
          · rename_i pc hpc'
            exact .inl ⟨pc, hpc', by simpa using h.symm⟩
          · rename_i hpc'
            exact .inr ⟨hpc', h⟩

end Iox2.C10

/- ---------------------------------------------------------------- part B -/
namespace Iox2.C10
open Iox2.Sched Iox2.Container
open Iox2.RUIS (EMPTY LOCKG RSh Mode)

/-! ## phases: what the invariants need to know about a pc -/
inductive Ph where
  | idle
  | gated (d : Nat)
  | acqPre | acqPost (n : Nat)
  | addPre (n : Nat) | addCas (n g : Nat) (v : List Nat) | addWr (n k : Nat) (v : List Nat) | addInc (n : Nat) (v : List Nat)
  | addPub (n : Nat) | addRet (n : Nat)
  | rmPre (n : Nat) | rmRel (n g : Nat) | rmTok (n g : Nat) | rmFin (n g : Nat)
  | upStart | upScan (i : Nat) | upCopy (i g k : Nat) | upVal (i g : Nat)
  | rvEntry (d : Nat) | rvLoop (d : Nat) | rvPre (d n : Nat) | rvCopy (d n g : Nat) | rvCell (d n g : Nat)
  | rvTok (d n g : Nat) | rvFin
deriving Repr, DecidableEq

def ixPhaseAdd : RUIS.PC → Ph
  | .incLd k | .incCas k _ => match k with | .acq n => .acqPost n | _ => .acqPre
  | _ => .acqPre
def ixPhaseRm (n g : Nat) : RUIS.PC → Ph
  | .rlDist .. | .rlCas .. => .rmRel n g
  | _ => .rmTok n g
def ixPhaseRv (rvGen d : Nat) : RUIS.PC → Ph
  | .rcIsLocked .. => .rvEntry d
  | .rcCas _ _ n _ => .rvCell d n rvGen
  | _ => .rvLoop d
def ixPhase (rvGen : Nat) (p : RUIS.PC) : Ctx → Ph
  | .add _ => ixPhaseAdd p
  | .remove n g => ixPhaseRm n g p
  | .recover d _ => ixPhaseRv rvGen d p

def pcPhase (rvGen : Nat) : PC → Ph
  | .ix p c => ixPhase rvGen p c
  | .addEdist n _ | .addLdEgc n _ => .addPre n
  | .addCasEgc n g v => .addCas n g v
  | .addDdist n v | .addCell n v => .addWr n 0 v
  | .addWord n k v => .addWr n k v
  | .addIncEgc n v => .addInc n v
  | .addIncChange n => .addPub n
  | .addRetDist n | .addRetCell n => .addRet n
  | .rmEdist n _ | .rmLdEgc n _ => .rmPre n
  | .rmCasEgc g n _ => .rmTok n g
  | .rmIncChange g n _ => .rmFin n g
  | .upLdChange => .upStart
  | .upEdist => .upScan 0
  | .upLdEgc i => .upScan i
  | .upDdist i g | .upCell i g => .upCopy i g 0
  | .upWord i g k => .upCopy i g k
  | .upCas i g => .upVal i g
  | .rvEdist _ d _ n | .rvLdEgc _ d _ n => .rvPre d n
  | .rvDdist _ d _ n g | .rvCell _ d _ n g | .rvWord _ d _ n g _ | .rvCas _ d _ n g => .rvCopy d n g
  | .rvHookDist _ d _ n g | .rvHookCas _ d _ n g => .rvTok d n g
  | .rvIncChange _ => .rvFin
  | .rvSkipDist _ d _ => .rvLoop d

def phase (t : Th) : Ph :=
  match t.pc with
  | some pc => pcPhase t.rvGen pc
  | none => match t.gate with
    | some (d, _) => .gated d
    | none => .idle

/-- the abstract thread: everything but the exact pc, the gate and the program -/
structure ATh where
  owner : Nat
  ph : Ph
  mine : List (Nat × Nat × List Nat)
  snap : Snapshot
  dead : Bool
  /-- the thread can still take a step -/
  act : Bool
  rvDone : List (Nat × Nat)
  upBegin : List (Nat × Nat) × Bool
  updates : List UpdateRec

def isActive (t : Th) : Bool := !t.dead && (t.pc.isSome || t.gate.isSome || (nextCmd t t.todo).isSome)

def abs (t : Th) : ATh :=
  { owner := t.owner, ph := phase t, mine := t.mine, snap := t.snap, dead := t.dead, act := isActive t,
    rvDone := t.rvDone, upBegin := t.upBegin, updates := t.updates }

end Iox2.C10

/- ---------------------------------------------------------------- part C -/
namespace Iox2.C10
open Iox2.Sched Iox2.Container
open Iox2.RUIS (EMPTY LOCKG RSh Mode)

/-! ## the abstract step relation -/

/-- index-set steps that do not touch the cells: the generation counter may move, but never away from the lock value -/
def RFrame (r r' : RSh) : Prop :=
  r'.cap = r.cap ∧ r'.cells = r.cells ∧ r'.deadOwners = r.deadOwners ∧ (r.gen = LOCKG → r'.gen = LOCKG)

theorem RFrame.refl (r : RSh) : RFrame r r := ⟨rfl, rfl, rfl, id⟩

/-- the end of an operation: the thread becomes idle; it may die (`b1`); `b2`: it can still take a step -/
def fin (s : Sh) (a : ATh) (b1 b2 : Bool) : Sh × ATh :=
  ({ s with r := { s.r with deadOwners := if b1 then a.owner :: s.r.deadOwners else s.r.deadOwners },
            busy := if b2 then s.busy else s.busy - 1 },
   { a with ph := .idle, dead := b1, act := b2 })

/-- phases from which an operation may end without any further effect -/
def plainFin (r' : RSh) (owner : Nat) : Ph → Prop
  | .acqPre | .addRet _ => True
  | .rmRel n _ => r'.cells.getD n EMPTY ≠ owner
  | .acqPost _ => r'.gen = LOCKG
  | .gated d => d ∉ r'.deadOwners
  | _ => False

def updRec (s : Sh) (a : ATh) (res : Bool) : UpdateRec :=
  { result := res, snap := a.snap, removedAtBegin := a.upBegin.1, quiet := a.upBegin.2, sharedAtEnd := s.entries }

def E (s : Sh) (n : Nat) : Nat := s.egc.getD n 0
def Cl (s : Sh) (n : Nat) : Nat := s.r.cells.getD n EMPTY

inductive AStep (s : Sh) (a : ATh) (s' : Sh) (a' : ATh) : Prop
  -- picking the next command
  | sAdd (hph : a.ph = .idle) (hs : s' = s) (ha : a' = { a with ph := .acqPre })
  | sRm (pos : Nat) (hph : a.ph = .idle) (hpos : pos < a.mine.length) (hs : s' = s)
      (ha : a' = { a with ph := .rmPre (a.mine.getD pos (0, 0, [])).1, mine := a.mine.eraseIdx pos })
  | sUp (hph : a.ph = .idle) (hs : s' = s)
      (ha : a' = { a with ph := .upStart, upBegin := (s.removedDone, decide (s.busy = 1)) })
  | sRv (d : Nat) (hph : a.ph = .idle) (hs : s' = s) (ha : a' = { a with ph := .gated d })
  -- generic
  | rstay (r' : RSh) (hr : RFrame s.r r') (hs : s' = { s with r := r' }) (ha : a' = a)
  | done (r' : RSh) (b1 b2 : Bool) (hr : RFrame s.r r') (hb : b1 = true → b2 = false) (hp : plainFin r' a.owner a.ph)
      (hs : s' = (fin { s with r := r' } a b1 b2).1) (ha : a' = (fin { s with r := r' } a b1 b2).2)
  | gateOk (d : Nat) (hph : a.ph = .gated d) (hd : d ∈ s.r.deadOwners) (hs : s' = s) (ha : a' = { a with ph := .rvEntry d })
  -- add
  | aCell (n : Nat) (hph : a.ph = .acqPre) (hn : n < s.r.cap) (hc : Cl s n = EMPTY)
      (hs : s' = { s with r := { s.r with cells := s.r.cells.set n a.owner } }) (ha : a' = { a with ph := .acqPost n })
  | aGot (n : Nat) (r' : RSh) (hph : a.ph = .acqPost n) (hr : RFrame s.r r') (hs : s' = { s with r := r' })
      (ha : a' = { a with ph := .addPre n })
  | aLdOdd (n : Nat) (v : List Nat) (hph : a.ph = .addPre n) (hv : v.length = s.width) (hg : E s n % 2 = 1) (hs : s' = s)
      (ha : a' = { a with ph := .addCas n (E s n) v })
  | aLdEven (n : Nat) (v : List Nat) (hph : a.ph = .addPre n) (hv : v.length = s.width) (hg : ¬ E s n % 2 = 1) (hs : s' = s)
      (ha : a' = { a with ph := .addWr n 0 v })
  | aCasOk (n g : Nat) (v : List Nat) (hph : a.ph = .addCas n g v) (hE : E s n = g)
      (hs : s' = { s with egc := s.egc.set n (g + 1) }) (ha : a' = { a with ph := .addWr n 0 v })
  | aCasFail (n g : Nat) (v : List Nat) (hph : a.ph = .addCas n g v) (hE : E s n ≠ g) (hs : s' = s)
      (ha : a' = { a with ph := .addWr n 0 v })
  | aWord (n k : Nat) (v : List Nat) (hph : a.ph = .addWr n k v) (hk : k < s.width)
      (hs : s' = { s with data := setWord s.data n k (v.getD k 0) }) (ha : a' = { a with ph := .addWr n (k + 1) v })
  | aNorm (n k : Nat) (v : List Nat) (hph : a.ph = .addWr n k v) (hk : ¬ k < s.width) (hs : s' = s)
      (ha : a' = { a with ph := .addInc n v })
  | aInc (n : Nat) (v : List Nat) (hph : a.ph = .addInc n v)
      (hs : s' = { s with egc := s.egc.set n (E s n + 1), published := s.published.modify n fun l => l ++ [(E s n + 1, v)] })
      (ha : a' = { a with ph := .addPub n, mine := a.mine ++ [(n, E s n + 1, v)] })
  | aChg (n : Nat) (hph : a.ph = .addPub n) (hs : s' = { s with change := s.change + 1 }) (ha : a' = { a with ph := .addRet n })
  -- remove
  | rLd (n : Nat) (hph : a.ph = .rmPre n) (hs : s' = s) (ha : a' = { a with ph := .rmRel n (E s n) })
  | rRel (n g : Nat) (hph : a.ph = .rmRel n g) (hc : Cl s n = a.owner)
      (hs : s' = { s with r := { s.r with cells := s.r.cells.set n EMPTY } }) (ha : a' = { a with ph := .rmTok n g })
  | rCasOk (n g : Nat) (hph : a.ph = .rmTok n g) (hE : E s n = g)
      (hs : s' = { s with egc := s.egc.set n (g + 1) }) (ha : a' = { a with ph := .rmFin n g })
  | rCasFail (n g : Nat) (hph : a.ph = .rmTok n g) (hE : E s n ≠ g) (hs : s' = s) (ha : a' = { a with ph := .rmFin n g })
  | rFin (n g : Nat) (b1 b2 : Bool) (hph : a.ph = .rmFin n g) (hb : b1 = true → b2 = false)
      (hs : s' = (fin { s with change := s.change + 1, removedDone := s.removedDone ++ [(n, g)] } a b1 b2).1)
      (ha : a' = (fin { s with change := s.change + 1, removedDone := s.removedDone ++ [(n, g)] } a b1 b2).2)
  -- update_state
  | uFalse (b1 b2 : Bool) (hph : a.ph = .upStart) (hc : a.snap.change = s.change) (hb : b1 = true → b2 = false)
      (hs : s' = (fin s { a with updates := a.updates ++ [updRec s a false] } b1 b2).1)
      (ha : a' = (fin s { a with updates := a.updates ++ [updRec s a false] } b1 b2).2)
  | uLd (hph : a.ph = .upStart) (hc : a.snap.change ≠ s.change) (hs : s' = s)
      (ha : a' = { a with ph := .upScan 0, snap := { a.snap with change := s.change } })
  /-- a slot is settled (generation unchanged, or validated): go to the next slot -/
  | uNext (i : Nat) (hph : (a.ph = .upScan i ∧ i < s.r.cap ∧ E s i = a.snap.egc.getD i 0) ∨ a.ph = .upVal i (E s i) ∨
        (∃ g, a.ph = .upVal i g ∧ E s i = a.snap.egc.getD i 0))
      (hi : i + 1 < s.r.cap) (hs : s' = s) (ha : a' = { a with ph := .upScan (i + 1) })
  | uTrue (i : Nat) (b1 b2 : Bool) (hph : (a.ph = .upScan i ∧ E s i = a.snap.egc.getD i 0) ∨ a.ph = .upVal i (E s i) ∨
        (∃ g, a.ph = .upVal i g ∧ E s i = a.snap.egc.getD i 0) ∨ (a.ph = .upScan 0 ∧ i = 0 ∧ ¬ 0 < s.r.cap))
      (hi : ¬ i + 1 < s.r.cap) (hb : b1 = true → b2 = false)
      (hs : s' = (fin s { a with updates := a.updates ++ [updRec s a true] } b1 b2).1)
      (ha : a' = (fin s { a with updates := a.updates ++ [updRec s a true] } b1 b2).2)
  /-- a new generation value for slot `i` was obtained (first load, or failed validation) -/
  | uNew (i : Nat) (hph : (a.ph = .upScan i) ∨ (∃ g, a.ph = .upVal i g ∧ E s i ≠ g)) (hi : i < s.r.cap)
      (hne : E s i ≠ a.snap.egc.getD i 0) (hs : s' = s)
      (ha : a' = { a with ph := if E s i % 2 = 1 then .upCopy i (E s i) 0 else .upVal i (E s i),
                          snap := { a.snap with egc := a.snap.egc.set i (E s i) } })
  | uWord (i g k : Nat) (hph : a.ph = .upCopy i g k) (hk : k < s.width) (hs : s' = s)
      (ha : a' = { a with ph := .upCopy i g (k + 1),
                          snap := { a.snap with data := setWord a.snap.data i k ((s.data.getD i []).getD k 0) } })
  | uNorm (i g k : Nat) (hph : a.ph = .upCopy i g k) (hk : ¬ k < s.width) (hs : s' = s) (ha : a' = { a with ph := .upVal i g })
  -- recover
  | vEnter (d : Nat) (r' : RSh) (hph : a.ph = .rvEntry d) (hg : s.r.gen ≠ LOCKG) (hr : RFrame s.r r') (hs : s' = { s with r := r' })
      (ha : a' = { a with ph := .rvLoop d })
  | vLocked (d : Nat) (r' : RSh) (hph : a.ph = .rvEntry d) (hr : RFrame s.r r') (hs : s' = { s with r := r' }) (ha : a' = { a with ph := .rvFin })
  | vPre (d n : Nat) (hph : a.ph = .rvLoop d) (hc : Cl s n = d) (hd : d ≠ EMPTY) (hs : s' = s) (ha : a' = { a with ph := .rvPre d n })
  | vLd (d n : Nat) (hph : a.ph = .rvPre d n) (hs : s' = s)
      (ha : a' = { a with ph := if E s n % 2 = 1 then .rvCopy d n (E s n) else .rvCell d n (E s n) })
  | vVal (d n g : Nat) (hph : a.ph = .rvCopy d n g) (hs : s' = s)
      (ha : a' = { a with ph := if E s n = g then .rvCell d n g else if E s n % 2 = 1 then .rvCopy d n (E s n) else .rvCell d n (E s n) })
  | vCellOk (d n g : Nat) (hph : a.ph = .rvCell d n g) (hc : Cl s n = d)
      (hs : s' = { s with r := { s.r with cells := s.r.cells.set n EMPTY } }) (ha : a' = { a with ph := .rvTok d n g })
  | vCellFail (d n g : Nat) (hph : a.ph = .rvCell d n g) (hc : Cl s n ≠ d) (hs : s' = s) (ha : a' = { a with ph := .rvLoop d })
  | vHookOk (d n g : Nat) (hph : a.ph = .rvTok d n g) (hE : E s n = g)
      (hs : s' = { s with egc := s.egc.set n (g + 1) }) (ha : a' = { a with ph := .rvLoop d, rvDone := a.rvDone ++ [(n, g)] })
  | vHookFail (d n g : Nat) (hph : a.ph = .rvTok d n g) (hE : E s n ≠ g) (hs : s' = s)
      (ha : a' = { a with ph := .rvLoop d, rvDone := a.rvDone ++ [(n, g)] })
  /-- the success hook of `recover` has nothing to do for a slot whose generation was even -/
  | vHookSkip (d n g : Nat) (hph : a.ph = .rvTok d n g) (hs : s' = s) (ha : a' = { a with ph := .rvLoop d })
  | vEnd (d : Nat) (r' : RSh) (hph : a.ph = .rvLoop d) (hr : RFrame s.r r') (hs : s' = { s with r := r' }) (ha : a' = { a with ph := .rvFin })
  | vFin (b1 b2 : Bool) (hph : a.ph = .rvFin) (hb : b1 = true → b2 = false)
      (hs : s' = (fin { s with change := s.change + 1, removedDone := s.removedDone ++ a.rvDone } { a with rvDone := [] } b1 b2).1)
      (ha : a' = (fin { s with change := s.change + 1, removedDone := s.removedDone ++ a.rvDone } { a with rvDone := [] } b1 b2).2)

end Iox2.C10

/- ---------------------------------------------------------------- part D -/
namespace Iox2.C10
open Iox2.Sched Iox2.Container
open Iox2.RUIS (EMPTY LOCKG RSh Mode)

/-! ## well-formed pcs -/
def klWf (d : Nat) (m : Mode) : RUIS.KL → Prop
  | .recover _ m' d' => d' = d ∧ m' = m
  | .release => False

def kbWf (d : Nat) (m : Mode) : RUIS.KB → Prop
  | .lock kl => klWf d m kl
  | .borrowed => False

def ixWfAdd (w cap owner : Nat) (v : List Nat) : RUIS.PC → Prop
  | .acDist o | .acLdGen o | .acValidate o _ => o = owner ∧ v.length = w
  | .acCell o _ n => o = owner ∧ n < cap ∧ v.length = w
  | .incLd k => match k with | .acq n => n < cap ∧ v.length = w | _ => False
  | .incCas k g => match k with | .acq n => n < cap ∧ g ≠ LOCKG ∧ v.length = w | _ => False
  | _ => False

def kbRel : RUIS.KB → Prop
  | .lock kl => kl = .release
  | .borrowed => False

def ixWfRm (owner n : Nat) : RUIS.PC → Prop
  | .rlDist idx o _ | .rlCas idx o _ => idx = n ∧ o = owner
  | .incLd k => match k with | .rel _ _ => True | .bg _ _ kb => kbRel kb | _ => False
  | .incCas k g => match k with | .rel _ _ => g ≠ LOCKG | .bg _ _ kb => kbRel kb ∧ g ≠ LOCKG | _ => False
  | .lkIsLocked kl | .lkCas kl _ => kl = .release
  | .bgDist kb | .bgLdGen kb | .bgCell kb _ _ _ => kbRel kb
  | _ => False

def ixWfRv (d : Nat) (m : Mode) : RUIS.PC → Prop
  | .rcIsLocked m' d' | .rcDist m' d' | .rcLoad m' d' _ => d' = d ∧ m' = m
  | .rcCas m' d' _ o => d' = d ∧ m' = m ∧ o = d
  | .rcFinal d' => d' = d
  | .incLd k => match k with | .recov _ m' d' => d' = d ∧ m' = m | .bg _ _ kb => kbWf d m kb | _ => False
  | .incCas k g => match k with | .recov _ m' d' => d' = d ∧ m' = m ∧ g ≠ LOCKG | .bg _ _ kb => kbWf d m kb ∧ g ≠ LOCKG | _ => False
  | .lkIsLocked kl | .lkCas kl _ => klWf d m kl
  | .bgDist kb | .bgLdGen kb | .bgCell kb _ _ _ => kbWf d m kb
  | _ => False

def ixWf (w cap owner : Nat) (p : RUIS.PC) : Ctx → Prop
  | .add v => ixWfAdd w cap owner v p
  | .remove n _ => ixWfRm owner n p
  | .recover d m => ixWfRv d m p

def isLoopPc : RUIS.PC → Prop
  | .rcLoad .. | .rcFinal _ => True
  | _ => False

def pcWf (w cap owner : Nat) : PC → Prop
  | .ix p c => ixWf w cap owner p c
  | .addEdist _ v | .addLdEgc _ v | .addCasEgc _ _ v | .addDdist _ v | .addCell _ v | .addWord _ _ v | .addIncEgc _ v => v.length = w
  | .upLdEgc i | .upDdist i _ | .upCell i _ | .upWord i _ _ | .upCas i _ => i < cap
  | .rvEdist p d m n | .rvLdEgc p d m n | .rvDdist p d m n _ | .rvCell p d m n _ | .rvWord p d m n _ _ | .rvCas p d m n _ =>
      p = .rcCas m d n d
  | .rvHookDist p d m n _ | .rvHookCas p d m n _ => p = .incLd (.recov n m d)
  | .rvSkipDist p d m => ixWf w cap owner p (.recover d m) ∧ isLoopPc p
  | _ => True

structure ThWf (s : Sh) (t : Th) : Prop where
  todo : ∀ v, Cmd.add v ∈ t.todo → v.length = s.width
  pc : ∀ pc, t.pc = some pc → pcWf s.width s.r.cap t.owner pc ∧ t.gate = none
  dead : t.dead = true → t.pc = none ∧ t.gate = none


end Iox2.C10

/- ---------------------------------------------------------------- part E -/
namespace Iox2.C10
open Iox2.Sched Iox2.Container
open Iox2.RUIS (EMPTY LOCKG RSh Mode)

theorem nextCmd_congr (t1 t2 : Th) (h : t1.mine = t2.mine) (l : List Cmd) : nextCmd t1 l = nextCmd t2 l := by
  induction l with
  | nil => rfl
  | cons c rest ih =>
    have : enabled t1 c = enabled t2 c := by cases c <;> simp [enabled, h]
    simp [nextCmd, this, ih]

theorem nextCmd_mem (t : Th) (l : List Cmd) (c : Cmd) (rest : List Cmd) (h : nextCmd t l = some (c, rest)) :
    c ∈ l ∧ (∀ x ∈ rest, x ∈ l) ∧ enabled t c = true := by
  induction l with
  | nil => simp [nextCmd] at h
  | cons c' rest' ih =>
    simp only [nextCmd] at h
    split at h
    · simp at h; obtain ⟨rfl, rfl⟩ := h
      rename_i he
      exact ⟨by simp, fun x hx => by simp [hx], he⟩
    · obtain ⟨h1, h2, h3⟩ := ih h
      exact ⟨by simp [h1], fun x hx => by simp [h2 x hx], h3⟩

def enabledN (n : Nat) : Cmd → Bool
  | .remove pos _ => pos < n
  | _ => true
def nextN (n : Nat) : List Cmd → Option (Cmd × List Cmd)
  | [] => none
  | c :: rest => if enabledN n c then some (c, rest) else nextN n rest
theorem nextCmd_eq (t : Th) (l : List Cmd) : nextCmd t l = nextN t.mine.length l := by
  induction l with
  | nil => rfl
  | cons c rest ih =>
    have : enabled t c = enabledN t.mine.length c := by cases c <;> simp [enabled, enabledN]
    simp [nextCmd, nextN, this, ih]

/-- what `finish` does, abstractly -/
theorem finish_abs (s : Sh) (t : Th) (evs : List Ev) (ret : String) (hd : t.dead = false) (hg : t.gate = none) :
    ∃ b1 b2, (b1 = true → b2 = false) ∧ (finish s t evs ret).1 = (fin s (abs t) b1 b2).1 ∧
      abs (finish s t evs ret).2.1 = (fin s (abs t) b1 b2).2 := by
  unfold finish settle
  simp only [nextCmd_eq]
  split
  · refine ⟨true, false, by simp, ?_, ?_⟩
    · simp [retire, fin, abs]
    · simp [fin, abs, phase, isActive, hg]
  · rename_i hnd
    cases hn : nextN t.mine.length t.todo with
    | some x =>
      refine ⟨false, true, by simp, ?_, ?_⟩
      · simp [retire, fin, hd, hn, nextCmd_eq]
      · simp [fin, abs, phase, isActive, hg, hd, hn, nextCmd_eq]
    | none =>
      refine ⟨false, false, by simp, ?_, ?_⟩
      · simp [retire, fin, hd, hn, nextCmd_eq]
      · simp [fin, abs, phase, isActive, hg, hd, hn, nextCmd_eq]

theorem finish_wf (s : Sh) (t : Th) (evs : List Ev) (ret : String) (hw : ThWf s t) (hg : t.gate = none) :
    ThWf (finish s t evs ret).1 (finish s t evs ret).2.1 := by
  unfold finish settle
  simp only
  split
  · constructor <;> simp [retire, hg]
  · constructor
    · intro v hv
      have := hw.todo v (by simpa using hv)
      simp [retire]; split <;> simpa using this
    · simp
    · intro h
      simp [hg]

end Iox2.C10

/- ---------------------------------------------------------------- part G -/
namespace Iox2.C10
set_option linter.unusedSimpArgs false
open Iox2.Sched Iox2.Container
open Iox2.RUIS (EMPTY LOCKG RSh Mode Out)

/-! ## the index-set sub-machine, per container operation -/

/-- what a step of the index-set sub-machine does inside an `add` -/
def AddOut (r : RSh) (w cap owner : Nat) (v : List Nat) (p : RUIS.PC) (o : Out) : Prop :=
  o.recovered = [] ∧
  ( (∃ p', o.next = .inl p' ∧ ixWfAdd w cap owner v p' ∧ RFrame r o.sh ∧ ixPhaseAdd p' = ixPhaseAdd p)
  ∨ (∃ p' n, o.next = .inl p' ∧ ixWfAdd w cap owner v p' ∧ ixPhaseAdd p = .acqPre ∧ ixPhaseAdd p' = .acqPost n ∧ n < cap ∧
       r.cells.getD n EMPTY = EMPTY ∧ o.sh = { r with cells := r.cells.set n owner })
  ∨ (∃ n, o.next = .inr (.acquired n) ∧ RFrame r o.sh ∧ ixPhaseAdd p = .acqPost n)
  ∨ ((o.next = .inr .errLocked ∨ o.next = .inr .errOut) ∧ RFrame r o.sh ∧
       (ixPhaseAdd p = .acqPre ∨ ∃ n, ixPhaseAdd p = .acqPost n ∧ o.sh.gen = LOCKG)))

theorem stepOp_add (r : RSh) (w owner : Nat) (v : List Nat) (p : RUIS.PC) (hw : ixWfAdd w r.cap owner v p) :
    AddOut r w r.cap owner v p (RUIS.stepOp r p) := by
  unfold AddOut
  cases p with
  | acDist o => simp_all [RUIS.stepOp, ixWfAdd, ixPhaseAdd, RFrame]
  | acLdGen o => simp [RUIS.stepOp]; repeat' split
                 all_goals simp_all [ixWfAdd, ixPhaseAdd, RFrame]
  | acCell o g n => simp [RUIS.stepOp]; repeat' split
                    all_goals simp_all [ixWfAdd, ixPhaseAdd, RFrame]
  | acValidate o g => simp [RUIS.stepOp]; repeat' split
                      all_goals simp_all [ixWfAdd, ixPhaseAdd, RFrame]
  | incLd k =>
    cases k with
    | acq n => simp [RUIS.stepOp, RUIS.finishInc]; repeat' split
               all_goals simp_all [ixWfAdd, ixPhaseAdd, RFrame]
    | _ => simp [ixWfAdd] at hw
  | incCas k g =>
    cases k with
    | acq n => simp [RUIS.stepOp, RUIS.finishInc]; repeat' split
               all_goals simp_all [ixWfAdd, ixPhaseAdd, RFrame]
    | _ => simp [ixWfAdd] at hw
  | _ => simp [ixWfAdd] at hw

/-- what a step of the index-set sub-machine does inside a `remove` -/
def RmOut (r : RSh) (owner n g : Nat) (p : RUIS.PC) (o : Out) : Prop :=
  o.recovered = [] ∧
  ( (∃ p', o.next = .inl p' ∧ ixWfRm owner n p' ∧ RFrame r o.sh ∧ ixPhaseRm n g p' = ixPhaseRm n g p)
  ∨ (∃ p', o.next = .inl p' ∧ ixWfRm owner n p' ∧ ixPhaseRm n g p = .rmRel n g ∧ ixPhaseRm n g p' = .rmTok n g ∧
       r.cells.getD n EMPTY = owner ∧ o.sh = { r with cells := r.cells.set n EMPTY })
  ∨ (∃ l, o.next = .inr (.released l) ∧ RFrame r o.sh ∧ ixPhaseRm n g p = .rmTok n g)
  ∨ (o.next = .inr .errNotOwned ∧ o.sh = r ∧ ixPhaseRm n g p = .rmRel n g ∧ r.cells.getD n EMPTY ≠ owner))

theorem stepOp_rm (r : RSh) (owner n g : Nat) (p : RUIS.PC) (hw : ixWfRm owner n p) :
    RmOut r owner n g p (RUIS.stepOp r p) := by
  unfold RmOut
  cases p with
  | rlDist idx o m => simp_all [RUIS.stepOp, ixWfRm, ixPhaseRm, RFrame]
  | rlCas idx o m =>
    simp [ixWfRm] at hw
    obtain ⟨rfl, rfl⟩ := hw
    simp only [RUIS.stepOp]
    split <;> simp_all [ixWfRm, ixPhaseRm, RFrame]
  | incLd k =>
    cases k with
    | rel i m => cases m <;> simp [RUIS.stepOp, RUIS.finishInc] <;> split <;> simp_all [ixWfRm, ixPhaseRm, RFrame]
    | bg g0 count kb =>
      cases kb with
      | borrowed => simp [ixWfRm, kbRel] at hw
      | lock kl =>
        simp [ixWfRm, kbRel] at hw; subst hw
        simp [RUIS.stepOp, RUIS.finishInc, RUIS.finishBg, RUIS.finishLock]
        repeat' split
        all_goals simp_all [ixWfRm, ixPhaseRm, RFrame, kbRel]
    | _ => simp [ixWfRm] at hw
  | incCas k g =>
    cases k with
    | rel i m => cases m <;> simp [RUIS.stepOp, RUIS.finishInc] <;> (repeat' split) <;> simp_all [ixWfRm, ixPhaseRm, RFrame]
    | bg g0 count kb =>
      cases kb with
      | borrowed => simp [ixWfRm, kbRel] at hw
      | lock kl =>
        simp [ixWfRm, kbRel] at hw; obtain ⟨rfl, hg⟩ := hw
        simp [RUIS.stepOp, RUIS.finishInc, RUIS.finishBg, RUIS.finishLock]
        repeat' split
        all_goals simp_all [ixWfRm, ixPhaseRm, RFrame, kbRel]
    | _ => simp [ixWfRm] at hw
  | lkIsLocked kl =>
    simp [ixWfRm] at hw; subst hw
    simp [RUIS.stepOp, RUIS.finishLock]; repeat' split
    all_goals simp_all [ixWfRm, ixPhaseRm, RFrame, kbRel]
  | lkCas kl g =>
    simp [ixWfRm] at hw; subst hw
    simp [RUIS.stepOp, RUIS.finishLock]; repeat' split
    all_goals simp_all [ixWfRm, ixPhaseRm, RFrame, kbRel]
  | bgDist kb => simp_all [RUIS.stepOp, ixWfRm, ixPhaseRm, RFrame]
  | bgLdGen kb =>
    cases kb with
    | borrowed => simp [ixWfRm, kbRel] at hw
    | lock kl =>
      simp [ixWfRm, kbRel] at hw; subst hw
      simp [RUIS.stepOp, RUIS.finishBg, RUIS.finishLock, RUIS.bgAfterScan]; repeat' split
      all_goals simp_all [ixWfRm, ixPhaseRm, RFrame, kbRel]
  | bgCell kb g0 n' count =>
    simp [RUIS.stepOp, RUIS.bgAfterScan]; repeat' split
    all_goals simp_all [ixWfRm, ixPhaseRm, RFrame, kbRel]
  | _ => simp [ixWfRm] at hw

def isCasPc : RUIS.PC → Prop
  | .rcCas .. => True
  | _ => False
def isLoadPc : RUIS.PC → Prop
  | .rcLoad .. => True
  | _ => False

/-- what a step of the index-set sub-machine does inside a `recover` -/
def RvOut (r : RSh) (d : Nat) (m : Mode) (g : Nat) (p : RUIS.PC) (o : Out) : Prop :=
    (∃ p' n, p = .rcLoad m d n ∧ o.next = .inl p' ∧ isLoopPc p' ∧ ixWfRv d m p' ∧ o.recovered = [] ∧ o.sh = r ∧
        ¬ (r.cells.getD n EMPTY ≠ EMPTY ∧ r.cells.getD n EMPTY = d))
  ∨ (∃ p', ¬ isLoadPc p ∧ ¬ isCasPc p ∧ o.next = .inl p' ∧ ¬ isCasPc p' ∧ ixWfRv d m p' ∧ o.recovered = [] ∧ RFrame r o.sh ∧
        ixPhaseRv g d p' = .rvLoop d ∧ (ixPhaseRv g d p = .rvLoop d ∨ (ixPhaseRv g d p = .rvEntry d ∧ r.gen ≠ LOCKG)))
  ∨ (∃ n, p = .rcLoad m d n ∧ o.next = .inl (.rcCas m d n d) ∧ o.recovered = [] ∧ o.sh = r ∧ r.cells.getD n EMPTY = d ∧ d ≠ EMPTY)
  ∨ (∃ n, p = .rcCas m d n d ∧ r.cells.getD n EMPTY = d ∧ o.next = .inl (.incLd (.recov n m d)) ∧ o.recovered = [(d, n)] ∧
        o.sh = { r with cells := r.cells.set n EMPTY })
  ∨ (∃ n p', p = .rcCas m d n d ∧ r.cells.getD n EMPTY ≠ d ∧ o.next = .inl p' ∧ isLoopPc p' ∧ ixWfRv d m p' ∧ o.recovered = [] ∧ o.sh = r)
  ∨ (∃ l, o.next = .inr (.recovered l) ∧ RFrame r o.sh ∧ o.recovered = [] ∧ (ixPhaseRv g d p = .rvLoop d ∨ ixPhaseRv g d p = .rvEntry d))

theorem stepOp_rv (r : RSh) (d : Nat) (m : Mode) (g : Nat) (p : RUIS.PC) (hw : ixWfRv d m p) :
    RvOut r d m g p (RUIS.stepOp r p) := by
  unfold RvOut
  cases p with
  | rcIsLocked m' d' =>
    simp [RUIS.stepOp]; repeat' split
    all_goals simp_all [ixWfRv, ixPhaseRv, RFrame, isCasPc, isLoadPc, isLoopPc]
  | rcDist m' d' =>
    simp [RUIS.stepOp]; repeat' split
    all_goals simp_all [ixWfRv, ixPhaseRv, RFrame, isCasPc, isLoadPc, isLoopPc]
  | rcLoad m' d' n =>
    simp [ixWfRv] at hw; obtain ⟨rfl, rfl⟩ := hw
    simp only [RUIS.stepOp]; repeat' split
    all_goals simp_all [ixWfRv, ixPhaseRv, RFrame, isCasPc, isLoadPc, isLoopPc]
    rename_i h; intro hd; exact h.1 (hd ▸ h.2)
  | rcCas m' d' n o =>
    simp [ixWfRv] at hw; obtain ⟨rfl, rfl, rfl⟩ := hw
    simp only [RUIS.stepOp]; repeat' split
    all_goals simp_all [ixWfRv, ixPhaseRv, RFrame, isCasPc, isLoadPc, isLoopPc]
  | rcFinal d' =>
    simp [RUIS.stepOp]
    simp_all [ixWfRv, ixPhaseRv, RFrame, isCasPc, isLoadPc, isLoopPc]
  | incLd k =>
    cases k with
    | recov n' m' d' =>
      simp [ixWfRv] at hw; obtain ⟨rfl, rfl⟩ := hw
      cases m' <;> simp [RUIS.stepOp, RUIS.finishInc] <;> (repeat' split) <;>
        simp_all [ixWfRv, ixPhaseRv, RFrame, isCasPc, isLoadPc, isLoopPc, klWf, kbWf]
    | bg g0 count kb =>
      cases kb with
      | borrowed => simp [ixWfRv, kbWf] at hw
      | lock kl =>
        cases kl with
        | release => simp [ixWfRv, kbWf, klWf] at hw
        | recover n' m' d' =>
          simp [ixWfRv, kbWf, klWf] at hw; obtain ⟨rfl, rfl⟩ := hw
          simp [RUIS.stepOp, RUIS.finishInc, RUIS.finishBg, RUIS.finishLock]
          repeat' split
          all_goals simp_all [ixWfRv, ixPhaseRv, RFrame, isCasPc, isLoadPc, isLoopPc, klWf, kbWf]
    | _ => simp [ixWfRv] at hw
  | incCas k g' =>
    cases k with
    | recov n' m' d' =>
      simp [ixWfRv] at hw; obtain ⟨rfl, rfl, hg⟩ := hw
      cases m' <;> simp [RUIS.stepOp, RUIS.finishInc] <;> (repeat' split) <;>
        simp_all [ixWfRv, ixPhaseRv, RFrame, isCasPc, isLoadPc, isLoopPc, klWf, kbWf]
    | bg g0 count kb =>
      cases kb with
      | borrowed => simp [ixWfRv, kbWf] at hw
      | lock kl =>
        cases kl with
        | release => simp [ixWfRv, kbWf, klWf] at hw
        | recover n' m' d' =>
          simp [ixWfRv, kbWf, klWf] at hw; obtain ⟨⟨rfl, rfl⟩, hg⟩ := hw
          simp [RUIS.stepOp, RUIS.finishInc, RUIS.finishBg, RUIS.finishLock]
          repeat' split
          all_goals simp_all [ixWfRv, ixPhaseRv, RFrame, isCasPc, isLoadPc, isLoopPc, klWf, kbWf]
    | _ => simp [ixWfRv] at hw
  | lkIsLocked kl =>
    cases kl with
    | release => simp [ixWfRv, klWf] at hw
    | recover n' m' d' =>
      simp [ixWfRv, klWf] at hw; obtain ⟨rfl, rfl⟩ := hw
      simp [RUIS.stepOp, RUIS.finishLock]; repeat' split
      all_goals simp_all [ixWfRv, ixPhaseRv, RFrame, isCasPc, isLoadPc, isLoopPc, klWf, kbWf]
  | lkCas kl g' =>
    cases kl with
    | release => simp [ixWfRv, klWf] at hw
    | recover n' m' d' =>
      simp [ixWfRv, klWf] at hw; obtain ⟨rfl, rfl⟩ := hw
      simp [RUIS.stepOp, RUIS.finishLock]; repeat' split
      all_goals simp_all [ixWfRv, ixPhaseRv, RFrame, isCasPc, isLoadPc, isLoopPc, klWf, kbWf]
  | bgDist kb => simp_all [RUIS.stepOp, ixWfRv, ixPhaseRv, RFrame, isCasPc, isLoadPc, isLoopPc]
  | bgLdGen kb =>
    cases kb with
    | borrowed => simp [ixWfRv, kbWf] at hw
    | lock kl =>
      cases kl with
      | release => simp [ixWfRv, kbWf, klWf] at hw
      | recover n' m' d' =>
        simp [ixWfRv, kbWf, klWf] at hw; obtain ⟨rfl, rfl⟩ := hw
        simp [RUIS.stepOp, RUIS.finishBg, RUIS.finishLock, RUIS.bgAfterScan]; repeat' split
        all_goals simp_all [ixWfRv, ixPhaseRv, RFrame, isCasPc, isLoadPc, isLoopPc, klWf, kbWf]
  | bgCell kb g0 n' count =>
    simp [RUIS.stepOp, RUIS.bgAfterScan]; repeat' split
    all_goals simp_all [ixWfRv, ixPhaseRv, RFrame, isCasPc, isLoadPc, isLoopPc, klWf, kbWf]
  | _ => simp [ixWfRv] at hw

end Iox2.C10

/- ---------------------------------------------------------------- part H -/
namespace Iox2.C10
set_option linter.unusedSimpArgs false
set_option linter.unusedVariables false
open Iox2.Sched Iox2.Container
open Iox2.RUIS (EMPTY LOCKG RSh Mode Out)

macro "axh" : tactic => `(tactic| first | rfl | (simp_all [abs, phase, pcPhase, ixPhase, isActive, E, Cl, fin, updRec, RFrame, plainFin, pcWf, ixWf]; done))

theorem astep_finish {s : Sh} {a : ATh} {s1 : Sh} (t0 : Th) (evs : List Ev) (ret : String) (hd : t0.dead = false) (hg : t0.gate = none)
    (H : ∀ b1 b2, (b1 = true → b2 = false) → AStep s a (fin s1 (abs t0) b1 b2).1 (fin s1 (abs t0) b1 b2).2) :
    AStep s a (finish s1 t0 evs ret).1 (abs (finish s1 t0 evs ret).2.1) := by
  obtain ⟨b1, b2, hb, h1, h2⟩ := finish_abs s1 t0 evs ret hd hg
  rw [h1, h2]; exact H b1 b2 hb

/-- the result of a step: the abstract step, and well-formedness of the new thread state -/
def StepOK (s : Sh) (t : Th) (q : PC) (r : Sh × Th × List Ev) : Prop :=
  AStep s (abs { t with pc := some q }) r.1 (abs r.2.1) ∧ ThWf r.1 r.2.1

theorem thwf_pc {s s' : Sh} {t : Th} (hw : ThWf s t) (q : PC) (hg : t.gate = none) (hd : t.dead = false)
    (hs : s'.width = s.width) (hc : s'.r.cap = s.r.cap) (hq : pcWf s.width s.r.cap t.owner q) :
    ThWf s' { t with pc := some q } := by
  constructor
  · intro v hv; rw [hs]; exact hw.todo v hv
  · intro pc hpc; simp at hpc; subst hpc; simp [hs, hc, hg]; exact hq
  · intro h; simp [hd] at h

theorem ixWfAdd_len {w cap owner : Nat} {v : List Nat} {p : RUIS.PC} (hp : ixWfAdd w cap owner v p) : v.length = w := by
  cases p with
  | acDist o => exact hp.2
  | acLdGen o => exact hp.2
  | acValidate o g => exact hp.2
  | acCell o g n => exact hp.2.2
  | incLd k => cases k <;> simp [ixWfAdd] at hp; exact hp.2
  | incCas k g => cases k <;> simp [ixWfAdd] at hp; exact hp.2.2
  | _ => simp [ixWfAdd] at hp

theorem ix_add (s : Sh) (t : Th) (p : RUIS.PC) (v : List Nat) (hd : t.dead = false) (hg : t.gate = none) (hw : ThWf s t)
    (hp : ixWfAdd s.width s.r.cap t.owner v p) : StepOK s t (.ix p (.add v)) (stepIx s t p (.add v)) := by
  have h := stepOp_add s.r s.width t.owner v p hp
  have hv : v.length = s.width := ixWfAdd_len hp
  unfold StepOK stepIx
  obtain ⟨hrec, h⟩ := h
  rcases h with ⟨p', hn, hw', hfr, hph⟩ | ⟨p', n, hn, hw', hph, hph', hn', hc, hsh⟩ | ⟨n, hn, hfr, hph⟩ | ⟨hn, hfr, hph⟩
  · simp only [hn, hrec]
    refine ⟨?_, thwf_pc hw _ hg hd rfl hfr.1 (by simpa [pcWf, ixWf, hfr.1] using hw')⟩
    apply AStep.rstay (RUIS.stepOp s.r p).sh <;> axh
  · simp only [hn, hrec]
    refine ⟨?_, thwf_pc hw _ hg hd rfl (by simp [hsh]) (by simpa [pcWf, ixWf] using hw')⟩
    apply AStep.aCell n <;> axh
  · simp only [hn, hrec]
    refine ⟨?_, thwf_pc hw _ hg hd rfl hfr.1 (by simpa [pcWf] using hv)⟩
    apply AStep.aGot n (RUIS.stepOp s.r p).sh <;> axh
  · have hw1 : ThWf { s with r := (RUIS.stepOp s.r p).sh } t :=
      ⟨hw.todo, fun pc hpc => by simpa [hfr.1] using hw.pc pc hpc, hw.dead⟩
    have hpf : plainFin (RUIS.stepOp s.r p).sh t.owner (ixPhaseAdd p) := by
      rcases hph with h | ⟨n, h, hgn⟩
      · simp [h, plainFin]
      · simp [h, plainFin, hgn]
    rcases hn with hn | hn
    · simp only [hn]
      refine ⟨?_, finish_wf _ _ _ _ hw1 hg⟩
      apply astep_finish _ _ _ hd hg; intro b1 b2 hb
      apply AStep.done (RUIS.stepOp s.r p).sh b1 b2 <;> axh
    · simp only [hn]
      refine ⟨?_, finish_wf _ _ _ _ hw1 hg⟩
      apply astep_finish _ _ _ hd hg; intro b1 b2 hb
      apply AStep.done (RUIS.stepOp s.r p).sh b1 b2 <;> axh


theorem ix_rm (s : Sh) (t : Th) (p : RUIS.PC) (n g : Nat) (hd : t.dead = false) (hg : t.gate = none) (hw : ThWf s t)
    (hp : ixWfRm t.owner n p) : StepOK s t (.ix p (.remove n g)) (stepIx s t p (.remove n g)) := by
  have h := stepOp_rm s.r t.owner n g p hp
  unfold StepOK stepIx
  obtain ⟨hrec, h⟩ := h
  rcases h with ⟨p', hn, hw', hfr, hph⟩ | ⟨p', hn, hw', hph, hph', hc, hsh⟩ | ⟨l, hn, hfr, hph⟩ | ⟨hn, hsh, hph, hc⟩
  · simp only [hn, hrec]
    refine ⟨?_, thwf_pc hw _ hg hd rfl hfr.1 (by simpa [pcWf, ixWf] using hw')⟩
    apply AStep.rstay (RUIS.stepOp s.r p).sh <;> axh
  · simp only [hn, hrec]
    refine ⟨?_, thwf_pc hw _ hg hd rfl (by simp [hsh]) (by simpa [pcWf, ixWf] using hw')⟩
    apply AStep.rRel n g <;> axh
  · simp only [hn, hrec]
    refine ⟨?_, thwf_pc hw _ hg hd rfl hfr.1 (by simp [pcWf])⟩
    apply AStep.rstay (RUIS.stepOp s.r p).sh <;> axh
  · have hw1 : ThWf { s with r := (RUIS.stepOp s.r p).sh } t :=
      ⟨hw.todo, fun pc hpc => by simpa [hsh] using hw.pc pc hpc, hw.dead⟩
    simp only [hn]
    refine ⟨?_, finish_wf _ _ _ _ hw1 hg⟩
    apply astep_finish _ _ _ hd hg; intro b1 b2 hb
    apply AStep.done (RUIS.stepOp s.r p).sh b1 b2 <;> axh


theorem ix_rv (s : Sh) (t : Th) (p : RUIS.PC) (d : Nat) (m : Mode) (hd : t.dead = false) (hg : t.gate = none) (hw : ThWf s t)
    (hp : ixWfRv d m p) : StepOK s t (.ix p (.recover d m)) (stepIx s t p (.recover d m)) := by
  have h := stepOp_rv s.r d m t.rvGen p hp
  unfold StepOK stepIx
  rcases h with ⟨p', n, rfl, hn, hl, hw', hrec, hsh, hc⟩ | ⟨p', hnl, hnc, hn, hnc', hw', hrec, hfr, hph', hph⟩ |
    ⟨n, rfl, hn, hrec, hsh, hc, hde⟩ | ⟨n, rfl, hc, hn, hrec, hsh⟩ | ⟨n, p', rfl, hc, hn, hl, hw', hrec, hsh⟩ | ⟨l, hn, hfr, hrec, hph⟩
  · simp only [hn, hrec]
    cases p' <;> simp [isLoopPc] at hl
    all_goals
      simp only []
      split
      · refine ⟨?_, thwf_pc hw _ hg hd rfl (by simp [hsh]) (by simpa [pcWf, ixWf, isLoopPc] using hw')⟩
        apply AStep.rstay s.r <;> axh
      · refine ⟨?_, thwf_pc hw _ hg hd rfl (by simp [hsh]) (by simpa [pcWf, ixWf, isLoopPc] using hw')⟩
        apply AStep.rstay s.r <;> axh
  · -- a step that is neither the load nor the CAS of a cell
    simp only [hn, hrec]
    have hwf : ThWf { s with r := (RUIS.stepOp s.r p).sh } { t with pc := some (.ix p' (.recover d m)) } :=
      thwf_pc hw _ hg hd rfl hfr.1 (by simpa [pcWf, ixWf] using hw')
    have hA : AStep s (abs { t with pc := some (.ix p (.recover d m)) }) { s with r := (RUIS.stepOp s.r p).sh }
        (abs { t with pc := some (.ix p' (.recover d m)) }) := by
      rcases hph with hph | ⟨hph, hgen⟩
      · apply AStep.rstay (RUIS.stepOp s.r p).sh <;> axh
      · apply AStep.vEnter d (RUIS.stepOp s.r p).sh <;> axh
    cases p' <;> simp [isCasPc] at hnc' ⊢
    all_goals first | exact ⟨hA, hwf⟩ | (split <;> first | (simp [isLoadPc] at hnl; done) | exact ⟨hA, hwf⟩)
  · -- the load of a cell owned by the dead owner: the predicate is entered
    simp only [hn, hrec]
    refine ⟨?_, thwf_pc hw _ hg hd rfl (by simp [hsh]) (by simp [pcWf])⟩
    apply AStep.vPre d n <;> axh
  · -- successful cell CAS: the hook follows
    simp only [hn, hrec]
    refine ⟨?_, thwf_pc hw _ hg hd rfl (by simp [hsh]) (by simp [pcWf])⟩
    apply AStep.vCellOk d n t.rvGen <;> axh
  · -- failed cell CAS
    simp only [hn, hrec]
    cases p' <;> simp [isLoopPc] at hl
    all_goals
      simp only []
      refine ⟨?_, thwf_pc hw _ hg hd rfl (by simp [hsh]) (by simpa [pcWf, ixWf] using hw')⟩
      apply AStep.vCellFail d n t.rvGen <;> axh
  · simp only [hn]
    refine ⟨?_, thwf_pc hw _ hg hd rfl hfr.1 (by simp [pcWf])⟩
    rcases hph with hph | hph
    · apply AStep.vEnd d (RUIS.stepOp s.r p).sh <;> axh
    · apply AStep.vLocked d (RUIS.stepOp s.r p).sh <;> axh

end Iox2.C10

/- ---------------------------------------------------------------- part I -/
namespace Iox2.C10
set_option linter.unusedSimpArgs false
set_option linter.unusedVariables false
open Iox2.Sched Iox2.Container
open Iox2.RUIS (EMPTY LOCKG RSh Mode Out)

macro "axi" : tactic => `(tactic| first | rfl | (simp_all [abs, phase, pcPhase, ixPhase, ixPhaseRv, isActive, E, Cl, fin, updRec, RFrame, plainFin, pcWf, ixWf, ixWfRv, isLoopPc]; done))

theorem thwf_of {s s' : Sh} {t t' : Th} (hw : ThWf s t) (q : PC) (hpc : t'.pc = some q) (htodo : t'.todo = t.todo)
    (hown : t'.owner = t.owner) (hg : t'.gate = none) (hd : t'.dead = false)
    (hs : s'.width = s.width) (hc : s'.r.cap = s.r.cap) (hq : pcWf s.width s.r.cap t.owner q) : ThWf s' t' := by
  constructor
  · intro v hv; rw [hs]; exact hw.todo v (htodo ▸ hv)
  · intro pc h; rw [hpc] at h; cases h; rw [hs, hc, hown]; exact ⟨hq, hg⟩
  · intro h; simp [hd] at h

/-- the new thread state of a non-finishing step -/
macro "wfpc" h:ident : tactic => `(tactic| ((try simp only [stepPC]); apply thwf_of $h <;> first | assumption | rfl | (simp_all [pcWf, ixWf, ixWfRv, ixWfRm, ixWfAdd]; done)))
macro "finstep" : tactic => `(tactic| (apply astep_finish; (exact (by assumption : _ = false)); (exact (by assumption : _ = none))))

theorem thwf_upd {s : Sh} {t : Th} (hw : ThWf s t) (u : List UpdateRec) : ThWf s { t with updates := u } :=
  ⟨hw.todo, hw.pc, hw.dead⟩
theorem thwf_rvdone {s : Sh} {t : Th} (hw : ThWf s t) (u : List (Nat × Nat)) : ThWf s { t with rvDone := u } :=
  ⟨hw.todo, hw.pc, hw.dead⟩
theorem thwf_mine {s : Sh} {t : Th} (hw : ThWf s t) (u : List (Nat × Nat × List Nat)) : ThWf s { t with mine := u } :=
  ⟨hw.todo, hw.pc, hw.dead⟩
theorem thwf_snap {s : Sh} {t : Th} (hw : ThWf s t) (u : Snapshot) : ThWf s { t with snap := u } :=
  ⟨hw.todo, hw.pc, hw.dead⟩
theorem thwf_rvgen {s : Sh} {t : Th} (hw : ThWf s t) (u : Nat) : ThWf s { t with rvGen := u } :=
  ⟨hw.todo, hw.pc, hw.dead⟩
theorem thwf_sh {s s' : Sh} {t : Th} (hw : ThWf s t) (h1 : s'.width = s.width) (h2 : s'.r.cap = s.r.cap) : ThWf s' t :=
  ⟨fun v hv => h1 ▸ hw.todo v hv, fun pc hpc => by rw [h1, h2]; exact hw.pc pc hpc, hw.dead⟩

theorem step_ok (s : Sh) (t : Th) (q : PC) (hd : t.dead = false) (hg : t.gate = none) (hw : ThWf s t)
    (hq : pcWf s.width s.r.cap t.owner q) (hnorm : normalize s q = q) : StepOK s t q (stepPC s t q) := by
  cases q with
  | ix p c =>
    cases c with
    | add v => exact ix_add s t p v hd hg hw hq
    | remove n g => exact ix_rm s t p n g hd hg hw hq
    | recover d m => exact ix_rv s t p d m hd hg hw hq
  | addEdist idx v =>
    refine ⟨?_, ?_⟩
    · apply AStep.rstay s.r <;> axi
    · wfpc hw
  | addLdEgc idx v =>
    simp only [stepPC]
    refine ⟨?_, ?_⟩
    rotate_left
    · split <;> wfpc hw
    by_cases h : s.egc.getD idx 0 % 2 = 1
    · apply AStep.aLdOdd idx v <;> axi
    · apply AStep.aLdEven idx v <;> axi
  | addCasEgc idx g v =>
    simp only [stepPC]
    split
    · refine ⟨?_, ?_⟩
      · apply AStep.aCasOk idx g v <;> axi
      · wfpc hw
    · refine ⟨?_, ?_⟩
      · apply AStep.aCasFail idx g v <;> axi
      · wfpc hw
  | addDdist idx v =>
    refine ⟨?_, ?_⟩
    · apply AStep.rstay s.r <;> axi
    · wfpc hw
  | addCell idx v =>
    refine ⟨?_, ?_⟩
    · apply AStep.rstay s.r <;> axi
    · wfpc hw
  | addWord idx k v =>
    simp only [stepPC]
    split
    · refine ⟨?_, ?_⟩
      · apply AStep.aWord idx k v <;> axi
      · wfpc hw
    · simp [normalize] at hnorm; omega
  | addIncEgc idx v =>
    refine ⟨?_, ?_⟩
    · apply AStep.aInc idx v <;> axi
    · wfpc hw
  | addIncChange idx =>
    refine ⟨?_, ?_⟩
    · apply AStep.aChg idx <;> axi
    · wfpc hw
  | addRetDist idx =>
    refine ⟨?_, ?_⟩
    · apply AStep.rstay s.r <;> axi
    · wfpc hw
  | addRetCell idx =>
    simp only [stepPC]
    refine ⟨?_, finish_wf _ _ _ _ hw hg⟩
    finstep; intro b1 b2 hb
    apply AStep.done s.r b1 b2 <;> axi
  | rmEdist idx m =>
    refine ⟨?_, ?_⟩
    · apply AStep.rstay s.r <;> axi
    · wfpc hw
  | rmLdEgc idx m =>
    refine ⟨?_, ?_⟩
    · apply AStep.rLd idx <;> axi
    · wfpc hw
  | rmCasEgc g idx l =>
    simp only [stepPC]
    split
    · refine ⟨?_, ?_⟩
      · apply AStep.rCasOk idx g <;> axi
      · wfpc hw
    · refine ⟨?_, ?_⟩
      · apply AStep.rCasFail idx g <;> axi
      · wfpc hw
  | rmIncChange g idx l =>
    simp only [stepPC]
    refine ⟨?_, finish_wf _ _ _ _ (thwf_sh hw rfl rfl) hg⟩
    finstep; intro b1 b2 hb
    apply AStep.rFin idx g b1 b2 <;> axi
  | upLdChange =>
    simp only [stepPC]
    split
    · refine ⟨?_, finish_wf _ _ _ _ (thwf_upd hw _) hg⟩
      finstep; intro b1 b2 hb
      apply AStep.uFalse b1 b2 <;> axi
    · refine ⟨?_, ?_⟩
      · apply AStep.uLd <;> axi
      · wfpc hw
  | upEdist =>
    simp only [stepPC]
    split
    · refine ⟨?_, ?_⟩
      · apply AStep.rstay s.r <;> axi
      · wfpc hw
    · refine ⟨?_, finish_wf _ _ _ _ (thwf_upd hw _) hg⟩
      finstep; intro b1 b2 hb
      apply AStep.uTrue 0 b1 b2 <;> axi
  | upLdEgc i =>
    simp only [stepPC, stepPC.upAfterGen, stepPC.upNext]
    split
    · split
      · refine ⟨?_, ?_⟩
        · apply AStep.uNext i <;> axi
        · wfpc hw
      · refine ⟨?_, finish_wf _ _ _ _ (thwf_upd hw _) hg⟩
        finstep; intro b1 b2 hb
        apply AStep.uTrue i b1 b2 <;> axi
    · split
      · refine ⟨?_, ?_⟩
        · apply AStep.uNew i <;> axi
        · wfpc hw
      · refine ⟨?_, ?_⟩
        · apply AStep.uNew i <;> axi
        · wfpc hw
  | upDdist i g =>
    refine ⟨?_, ?_⟩
    · apply AStep.rstay s.r <;> axi
    · wfpc hw
  | upCell i g =>
    refine ⟨?_, ?_⟩
    · apply AStep.rstay s.r <;> axi
    · wfpc hw
  | upWord i g k =>
    simp only [stepPC]
    split
    · refine ⟨?_, ?_⟩
      · apply AStep.uWord i g k <;> axi
      · wfpc hw
    · simp [normalize] at hnorm; omega
  | upCas i g =>
    simp only [stepPC, stepPC.upAfterGen, stepPC.upNext]
    split
    · split
      · refine ⟨?_, ?_⟩
        · apply AStep.uNext i <;> axi
        · wfpc hw
      · refine ⟨?_, finish_wf _ _ _ _ (thwf_upd hw _) hg⟩
        finstep; intro b1 b2 hb
        apply AStep.uTrue i b1 b2 <;> axi
    · split
      · split
        · refine ⟨?_, ?_⟩
          · apply AStep.uNext i <;> axi
          · wfpc hw
        · refine ⟨?_, finish_wf _ _ _ _ (thwf_upd hw _) hg⟩
          finstep; intro b1 b2 hb
          apply AStep.uTrue i b1 b2 <;> axi
      · split
        · refine ⟨?_, ?_⟩
          · apply AStep.uNew i <;> axi
          · wfpc hw
        · refine ⟨?_, ?_⟩
          · apply AStep.uNew i <;> axi
          · wfpc hw
  | rvEdist p d m n =>
    refine ⟨?_, ?_⟩
    · apply AStep.rstay s.r <;> axi
    · wfpc hw
  | rvLdEgc p d m n =>
    simp only [stepPC]
    simp only [pcWf] at hq; subst hq
    split
    · refine ⟨?_, ?_⟩
      · apply AStep.vLd d n <;> axi
      · wfpc hw
    · refine ⟨?_, ?_⟩
      · apply AStep.vLd d n <;> axi
      · wfpc hw
  | rvDdist p d m n g =>
    refine ⟨?_, ?_⟩
    · apply AStep.rstay s.r <;> axi
    · wfpc hw
  | rvCell p d m n g =>
    refine ⟨?_, ?_⟩
    · apply AStep.rstay s.r <;> axi
    · wfpc hw
  | rvWord p d m n g k =>
    simp only [stepPC]
    split
    · refine ⟨?_, ?_⟩
      · apply AStep.rstay s.r <;> axi
      · wfpc hw
    · simp [normalize] at hnorm; omega
  | rvCas p d m n g =>
    simp only [stepPC]
    simp only [pcWf] at hq; subst hq
    split
    · refine ⟨?_, ?_⟩
      · apply AStep.vVal d n g <;> axi
      · wfpc hw
    · split
      · refine ⟨?_, ?_⟩
        · apply AStep.vVal d n g <;> axi
        · wfpc hw
      · refine ⟨?_, ?_⟩
        · apply AStep.vVal d n g <;> axi
        · wfpc hw
  | rvHookDist p d m n g =>
    simp only [stepPC]
    simp only [pcWf] at hq; subst hq
    split
    · refine ⟨?_, ?_⟩
      · apply AStep.rstay s.r <;> axi
      · wfpc hw
    · refine ⟨?_, ?_⟩
      · apply AStep.vHookSkip d n g <;> axi
      · wfpc hw
  | rvHookCas p d m n g =>
    simp only [stepPC]
    simp only [pcWf] at hq; subst hq
    split
    · refine ⟨?_, ?_⟩
      · apply AStep.vHookOk d n g <;> axi
      · wfpc hw
    · refine ⟨?_, ?_⟩
      · apply AStep.vHookFail d n g <;> axi
      · wfpc hw
  | rvSkipDist p d m =>
    simp only [stepPC]
    simp only [pcWf] at hq
    cases p <;> simp [isLoopPc] at hq
    all_goals
      refine ⟨?_, ?_⟩
      · apply AStep.rstay s.r <;> axi
      · wfpc hw
  | rvIncChange l =>
    simp only [stepPC]
    refine ⟨?_, finish_wf _ _ _ _ (thwf_sh (thwf_rvdone hw _) rfl rfl) hg⟩
    finstep; intro b1 b2 hb
    apply AStep.vFin b1 b2 <;> axi

end Iox2.C10

/- ---------------------------------------------------------------- part J -/
namespace Iox2.C10
set_option linter.unusedSimpArgs false
set_option linter.unusedVariables false
open Iox2.Sched Iox2.Container
open Iox2.RUIS (EMPTY LOCKG RSh Mode Out)

macro "axj" : tactic => `(tactic| first | rfl | (simp_all [abs, phase, pcPhase, ixPhase, ixPhaseRv, ixPhaseAdd, isActive, E, Cl, fin, updRec, RFrame, plainFin, pcWf, ixWf, ixWfRv, ixWfAdd, isLoopPc, nextCmd_eq, Container.start]; done))

inductive ASteps (s : Sh) (a : ATh) : Sh → ATh → Prop
  | refl : ASteps s a s a
  | tail {s1 s2 : Sh} {a1 a2 : ATh} : ASteps s a s1 a1 → a1.dead = false → a1.act = true → AStep s1 a1 s2 a2 → ASteps s a s2 a2

theorem ASteps.one {s s' : Sh} {a a' : ATh} (hd : a.dead = false) (ha : a.act = true) (h : AStep s a s' a') : ASteps s a s' a' :=
  .tail .refl hd ha h
theorem ASteps.trans {s s1 s2 : Sh} {a a1 a2 : ATh} (h1 : ASteps s a s1 a1) (h2 : ASteps s1 a1 s2 a2) : ASteps s a s2 a2 := by
  induction h2 with
  | refl => exact h1
  | tail _ hd ha h ih => exact .tail ih hd ha h

/-- picking the next command -/
theorem pre_ok {s : Sh} {t t0 : Th} (hw : ThWf s t) (hd : t.dead = false) (h : Pre s t t0) :
    ASteps s (abs t) s (abs t0) ∧ ThWf s t0 ∧ t0.dead = false := by
  cases h with
  | same => exact ⟨.refl, hw, hd⟩
  | start c rest hpc hg hn hnd =>
    obtain ⟨hmem, hrest, hen⟩ := nextCmd_mem t t.todo c rest hn
    have hw0 : ThWf s { t with todo := rest } := ⟨fun v hv => hw.todo v (hrest _ hv), hw.pc, hw.dead⟩
    refine ⟨?_, ?_, ?_⟩
    · apply ASteps.one (by simpa [abs] using hd) (by simp [abs, isActive, hd, hn])
      cases c with
      | add v => apply AStep.sAdd <;> axj
      | remove pos m =>
        simp [enabled] at hen
        apply AStep.sRm pos <;> axj
      | update => apply AStep.sUp <;> axj
      | recover d m => apply AStep.sRv d <;> axj
      | die => exact absurd rfl hnd
    · cases c with
      | add v =>
        have := hw.todo v hmem
        apply thwf_of hw0 <;> first | assumption | rfl | (simp_all [pcWf, ixWf, ixWfAdd, Container.start]; done)
      | remove pos m =>
        simp only [Container.start]
        apply thwf_of hw0 <;> first | assumption | rfl | (simp_all [pcWf]; done)
      | update => apply thwf_of hw0 <;> first | assumption | rfl | (simp_all [pcWf, Container.start]; done)
      | recover d m =>
        exact ⟨hw0.todo, by simp [Container.start, hpc], by simp [Container.start, hd]⟩
      | die => exact absurd rfl hnd
    · cases c <;> simp [Container.start, hd]
      exact absurd rfl hnd


/-- the word loops fall through -/
theorem norm_ok {s : Sh} {t : Th} {pc : PC} (hw : ThWf s t) (hd : t.dead = false) (hpc : t.pc = some pc) :
    ASteps s (abs t) s (abs { t with pc := some (normalize s pc) }) ∧ pcWf s.width s.r.cap t.owner (normalize s pc) ∧
      normalize s (normalize s pc) = normalize s pc := by
  have hq := (hw.pc pc hpc).1
  have hg := (hw.pc pc hpc).2
  have hsame : normalize s pc = pc → ASteps s (abs t) s (abs { t with pc := some (normalize s pc) }) ∧
      pcWf s.width s.r.cap t.owner (normalize s pc) ∧ normalize s (normalize s pc) = normalize s pc := by
    intro h; rw [h]
    refine ⟨?_, hq, h⟩
    have : ({ t with pc := some pc } : Th) = t := by cases t; simp_all
    rw [this]; exact .refl
  cases pc with
  | addWord idx k v =>
    by_cases hk : k < s.width
    · exact hsame (by simp [normalize, hk])
    · simp only [normalize, hk, if_false]
      refine ⟨?_, by simpa [pcWf] using hq, by simp [normalize]⟩
      apply ASteps.one (by simpa [abs] using hd) (by simp [abs, isActive, hd, hpc]); apply AStep.aNorm idx k v <;> axj
  | upWord i g k =>
    by_cases hk : k < s.width
    · exact hsame (by simp [normalize, hk])
    · simp only [normalize, hk, if_false]
      refine ⟨?_, by simpa [pcWf] using hq, by simp [normalize]⟩
      apply ASteps.one (by simpa [abs] using hd) (by simp [abs, isActive, hd, hpc]); apply AStep.uNorm i g k <;> axj
  | rvWord p d m n g k =>
    by_cases hk : k < s.width
    · exact hsame (by simp [normalize, hk])
    · simp only [normalize, hk, if_false]
      refine ⟨?_, by simpa [pcWf] using hq, by simp [normalize]⟩
      apply ASteps.one (by simpa [abs] using hd) (by simp [abs, isActive, hd, hpc]); apply AStep.rstay s.r <;> axj
  | _ => exact hsame (by simp [normalize])


/-- the gate of `recover` -/
theorem gate_ok {s : Sh} {t : Th} {r : Sh × Th × List Ev} (hw : ThWf s t) (hd : t.dead = false) (hpc : t.pc = none)
    (h : stepGate s t = some r) : AStep s (abs t) r.1 (abs r.2.1) ∧ ThWf r.1 r.2.1 := by
  unfold stepGate at h
  split at h
  · rename_i d m hgate
    split at h
    · rename_i hdead
      simp at h; subst h
      refine ⟨?_, ?_⟩
      · apply AStep.gateOk d <;> axj
      · apply thwf_of hw <;> first | assumption | rfl | (simp_all [pcWf, ixWf, ixWfRv]; done)
    · rename_i hdead
      simp at h; subst h
      unfold settle
      simp only [nextCmd_eq]
      split
      · refine ⟨?_, ?_⟩
        · apply AStep.done s.r true false <;> first | rfl | (simp_all [abs, phase, isActive, fin, RFrame, plainFin, retire]; done)
        · constructor <;> simp [retire, hpc]
      · rename_i hnd
        refine ⟨?_, ?_⟩
        · cases hn : nextN t.mine.length t.todo with
          | some x =>
            apply AStep.done s.r false true <;> first | rfl | (simp_all [abs, phase, isActive, fin, RFrame, plainFin, retire, nextCmd_eq]; done)
          | none =>
            apply AStep.done s.r false false <;> first | rfl | (simp_all [abs, phase, isActive, fin, RFrame, plainFin, retire, nextCmd_eq]; done)
        · constructor
          · intro v hv
            have := hw.todo v (by simpa using hv)
            simp [retire]; split <;> simpa using this
          · simp [hpc]
          · simp [hd]
  · simp at h

/-- **refinement**: every step of the model is a short sequence of abstract steps of the same thread -/
theorem step_refines {s s' : Sh} {t t' : Th} {evs : List Ev} (hw : ThWf s t) (h : step s t = some (s', t', evs)) :
    t.dead = false ∧ isActive t = true ∧ ASteps s (abs t) s' (abs t') ∧ ThWf s' t' := by
  obtain ⟨hd, t0, hpre, hst⟩ := step_cases h
  obtain ⟨h1, hw0, hd0⟩ := pre_ok hw hd hpre
  have hact : isActive t = true := by
    cases hpre with
    | same =>
      rcases hst with ⟨pc, hpc, _⟩ | ⟨hpc, hgt⟩
      · simp [isActive, hd, hpc]
      · unfold stepGate at hgt
        split at hgt
        · rename_i hgate; simp [isActive, hd, hgate]
        · simp at hgt
    | start c rest hpc hg hn hnd => simp [isActive, hd, hn]
  refine ⟨hd, hact, ?_⟩
  rcases hst with ⟨pc, hpc, hr⟩ | ⟨hpc, hgt⟩
  · obtain ⟨h2, hq, hnn⟩ := norm_ok hw0 hd0 hpc
    have hg0 := (hw0.pc pc hpc).2
    have h3 := step_ok s t0 (normalize s pc) hd0 hg0 hw0 hq hnn
    rw [← hr] at h3
    exact ⟨(h1.trans h2).tail (by simpa [abs] using hd0) (by simp [abs, isActive, hd0]) h3.1, h3.2⟩
  · have h3 := gate_ok hw0 hd0 hpc hgt
    have hgs : t0.gate.isSome = true := by
      unfold stepGate at hgt
      split at hgt
      · rename_i hgate; simp [hgate]
      · simp at hgt
    exact ⟨h1.tail (by simpa [abs] using hd0) (by simp [abs, isActive, hd0, hgs]) h3.1, h3.2⟩

end Iox2.C10

/- ---------------------------------------------------------------- part K -/
namespace Iox2.C10
set_option linter.unusedSimpArgs false
set_option linter.unusedVariables false
open Iox2.Sched Iox2.Container
open Iox2.RUIS (EMPTY LOCKG RSh Mode Out)

/-! ## the invariant of the abstract system -/

def pcHeld : Ph → List Nat
  | .acqPost n | .addPre n | .addCas n _ _ | .addWr n _ _ | .addInc n _ | .rmPre n | .rmRel n _ => [n]
  | _ => []
def mineIdx (a : ATh) : List Nat := a.mine.map (·.1)
def heldL (a : ATh) : List Nat := pcHeld a.ph ++ mineIdx a
/-- the thread holds slot `n` with a published entry in it -/
def cst (a : ATh) (n : Nat) : Prop := n ∈ mineIdx a ∨ a.ph = .rmPre n ∨ ∃ g, a.ph = .rmRel n g
def tok : Ph → Option (Nat × Nat)
  | .rmTok n g | .rvTok _ n g => some (n, g)
  | _ => none
def rvOf : Ph → Option Nat
  | .rvLoop d | .rvPre d _ | .rvCopy d _ _ | .rvCell d _ _ | .rvTok d _ _ => some d
  | _ => none
def rvOfAll : Ph → Option Nat
  | .rvEntry d | .rvLoop d | .rvPre d _ | .rvCopy d _ _ | .rvCell d _ _ | .rvTok d _ _ => some d
  | _ => none
def inUp : Ph → Prop
  | .upStart | .upScan _ | .upCopy .. | .upVal .. => True
  | _ => False
/-- the operation may have changed a slot and has not yet incremented the change counter -/
def pend : Ph → Prop
  | .addCas .. | .addWr .. | .addInc .. | .addPub _ | .rmTok .. | .rmFin .. | .rvLoop _ | .rvPre .. | .rvCopy .. | .rvCell .. | .rvTok .. | .rvFin => True
  | _ => False
/-- slot `j` has already been refreshed by the update in progress (all slots, outside an update) -/
def doneU (ph : Ph) (j : Nat) : Prop :=
  match ph with
  | .upScan i => j < i
  | .upCopy i _ _ | .upVal i _ => j ≤ i
  | _ => True

def wordsEq (x y : List Nat) (k : Nat) : Prop := ∀ j, j < k → x.getD j 0 = y.getD j 0
def snapOK (s : Sh) (sn : Snapshot) (j : Nat) : Prop :=
  sn.egc.getD j 0 % 2 = 1 → (sn.egc.getD j 0, sn.data.getD j []) ∈ s.published.getD j []
def exactAt (s : Sh) (sn : Snapshot) (j : Nat) : Prop :=
  sn.egc.getD j 0 = E s j ∧ (E s j % 2 = 1 → sn.data.getD j [] = s.data.getD j [])

/-- the slots already refreshed carry generations newer than the removals in `L` -/
def scanned (L : List (Nat × Nat)) (a : ATh) : Prop := ∀ x ∈ L, doneU a.ph x.1 → x.2 < a.snap.egc.getD x.1 0

/-- per-phase facts about the shared state -/
def phInv (s : Sh) (a : ATh) : Prop :=
  match a.ph with
  | .addCas n g v => g % 2 = 1 ∧ (E s n = g ∨ E s n = g + 1) ∧ v.length = s.width
  | .addWr n k v => E s n % 2 = 0 ∧ v.length = s.width ∧ wordsEq (s.data.getD n []) v k
  | .addInc n v => E s n % 2 = 0 ∧ s.data.getD n [] = v
  | .rmRel n g => g % 2 = 1 ∧ g ≤ E s n
  | .rmTok n g | .rvTok _ n g => g % 2 = 1 ∧ n < s.r.cap ∧ g ≤ E s n
  | .rmFin n g => g < E s n
  | .rvCopy _ n g => g % 2 = 1 ∧ g ≤ E s n
  | .rvCell d n g => Cl s n = d → g % 2 = 1 ∧ g ≤ E s n
  | .upCopy i g k => i < s.r.cap ∧ a.snap.egc.getD i 0 = g ∧ g ≤ E s i ∧ g % 2 = 1 ∧ (E s i = g → wordsEq (a.snap.data.getD i []) (s.data.getD i []) k)
  | .upVal i g => i < s.r.cap ∧ a.snap.egc.getD i 0 = g ∧ g ≤ E s i ∧ (g % 2 = 1 → E s i = g → a.snap.data.getD i [] = s.data.getD i [])
  | _ => True

/-- the slots of the reader's snapshot that are not being refreshed right now are genuine -/
def rdInv (s : Sh) (a : ATh) : Prop :=
  match a.ph with
  | .upCopy i _ _ | .upVal i _ => ∀ j, j ≠ i → snapOK s a.snap j
  | _ => ∀ j, snapOK s a.snap j

/-- what a quiet / unchanged refresh has established so far -/
def exInv (s : Sh) (a : ATh) : Prop :=
  match a.ph with
  | .upScan i => ∀ j, j < i → exactAt s a.snap j
  | .upCopy i g k => (∀ j, j < i → exactAt s a.snap j) ∧ E s i = g ∧ wordsEq (a.snap.data.getD i []) (s.data.getD i []) k
  | .upVal i g => (∀ j, j < i → exactAt s a.snap j) ∧ E s i = g ∧ (g % 2 = 1 → a.snap.data.getD i [] = s.data.getD i [])
  | _ => ∀ j, exactAt s a.snap j

structure AInv (s : Sh) (th : List ATh) : Prop where
  len_egc : s.egc.length = s.r.cap
  len_data : s.data.length = s.r.cap
  len_pub : s.published.length = s.r.cap
  len_cells : s.r.cells.length = s.r.cap
  wid_data : ∀ d ∈ s.data, d.length = s.width
  snap_shape : ∀ a ∈ th, a.snap.egc.length = s.r.cap ∧ a.snap.data.length = s.r.cap ∧ ∀ d ∈ a.snap.data, d.length = s.width
  own_inj : ∀ (i j : Nat) (a b : ATh), th[i]? = some a → th[j]? = some b → a.owner = b.owner → i = j
  own_ne : ∀ a ∈ th, a.owner ≠ EMPTY
  life : ∀ a ∈ th, (a.owner ∈ s.r.deadOwners → a.dead = true) ∧ (a.dead = true → a.ph = .idle ∧ a.act = false) ∧ (a.ph ≠ .idle → a.act = true)
  dead_ne : ∀ d ∈ s.r.deadOwners, d ≠ EMPTY
  cell_owner : ∀ n, Cl s n ≠ EMPTY → ∃ b ∈ th, b.owner = Cl s n
  held_nodup : ∀ a ∈ th, (heldL a).Nodup
  held_own : ∀ a ∈ th, a.dead = false → ∀ n ∈ heldL a, Cl s n = a.owner
  leak : ∀ a ∈ th, ∀ n, Cl s n = a.owner → n ∈ heldL a ∨ s.r.gen = LOCKG
  rv_dead : ∀ a ∈ th, ∀ d, rvOfAll a.ph = some d → d ∈ s.r.deadOwners
  no_leak : ∀ a ∈ th, ∀ d, rvOf a.ph = some d → ∀ b ∈ th, b.owner = d → ∀ n, Cl s n = d → n ∈ mineIdx b
  cst_odd : ∀ a ∈ th, ∀ n, Cl s n = a.owner → cst a n → E s n % 2 = 1
  ph_inv : ∀ a ∈ th, phInv s a
  tok_stale : ∀ a ∈ th, ∀ n g, tok a.ph = some (n, g) → E s n = g → ∀ b ∈ th, Cl s n = b.owner → ¬ cst b n
  rvdone_lt : ∀ a ∈ th, ∀ x ∈ a.rvDone, x.2 < E s x.1
  removed_lt : ∀ x ∈ s.removedDone, x.2 < E s x.1
  pub_odd : ∀ i, E s i % 2 = 1 → (E s i, s.data.getD i []) ∈ s.published.getD i []
  pub_le : ∀ i, ∀ p ∈ s.published.getD i [], p.1 ≤ E s i
  pub_uniq : ∀ i, ∀ p ∈ s.published.getD i [], ∀ q ∈ s.published.getD i [], p.1 = q.1 → p.2 = q.2
  rd_inv : ∀ a ∈ th, rdInv s a
  upd_ok : ∀ a ∈ th, ∀ u ∈ a.updates, (∀ j, snapOK s u.snap j) ∧ (∀ x ∈ u.removedAtBegin, x.2 < u.snap.egc.getD x.1 0) ∧
      (u.quiet = true → u.snap.entries = u.sharedAtEnd)
  up_begin : ∀ a ∈ th, ∀ x ∈ a.upBegin.1, x ∈ s.removedDone
  ng : ∀ a ∈ th, inUp a.ph → a.ph ≠ .upStart → scanned a.upBegin.1 a
  ch_le : ∀ a ∈ th, a.snap.change ≤ s.change
  ch : ∀ a ∈ th, a.snap.change < s.change ∨ scanned s.removedDone a
  busy : s.busy = (th.filter (·.act)).length
  fz : ∀ a ∈ th, ∀ b ∈ th, a.owner ≠ b.owner → inUp a.ph → a.upBegin.2 = true → b.act = false
  qc : ∀ a ∈ th, inUp a.ph → a.ph ≠ .upStart → a.upBegin.2 = true → a.snap.change = s.change
  ex : ∀ a ∈ th, a.snap.change ≠ s.change ∨ (∃ b ∈ th, pend b.ph) ∨ exInv s a

end Iox2.C10

/- ---------------------------------------------------------------- part L -/
namespace Iox2.C10
set_option linter.unusedSimpArgs false
set_option linter.unusedVariables false
open Iox2.Sched Iox2.Container
open Iox2.RUIS (EMPTY LOCKG RSh Mode Out)

/-! ## lists -/
theorem getD_set' {α} (l : List α) (i j : Nat) (v d : α) :
    (l.set i v).getD j d = if i = j ∧ i < l.length then v else l.getD j d := by
  simp only [List.getD_eq_getElem?_getD, List.getElem?_set]
  by_cases h : i = j
  · subst h
    by_cases h2 : i < l.length <;> simp [h2]
  · simp [h]

theorem getD_modify' {α} (l : List α) (f : α → α) (i j : Nat) (d : α) :
    (l.modify i f).getD j d = if i = j ∧ i < l.length then f (l.getD i d) else l.getD j d := by
  simp only [List.getD_eq_getElem?_getD, List.getElem?_modify]
  by_cases h : i = j
  · subst h
    by_cases h2 : i < l.length
    · simp [h2]
    · simp [h2]
  · simp [h]

theorem getElem?_set_getD {α} (l : List α) (i j : Nat) (v d : α) :
    (l.set i v)[j]?.getD d = if i = j ∧ i < l.length then v else l[j]?.getD d := by
  have := getD_set' l i j v d
  simpa [List.getD_eq_getElem?_getD] using this

theorem getElem?_modify_getD {α} (l : List α) (f : α → α) (i j : Nat) (d : α) :
    (l.modify i f)[j]?.getD d = if i = j ∧ i < l.length then f (l[i]?.getD d) else l[j]?.getD d := by
  have := getD_modify' l f i j d
  simpa [List.getD_eq_getElem?_getD] using this

theorem mem_set_cases {th : List ATh} {i : Nat} {a a' b : ATh}
    (hinj : ∀ (i j : Nat) (a b : ATh), th[i]? = some a → th[j]? = some b → a.owner = b.owner → i = j)
    (hi : th[i]? = some a) (hb : b ∈ th.set i a') : b = a' ∨ (b ∈ th ∧ b.owner ≠ a.owner) := by
  obtain ⟨j, hj⟩ := List.getElem?_of_mem hb
  rw [List.getElem?_set] at hj
  by_cases hij : i = j
  · subst hij
    simp at hj
    exact .inl hj.2.symm
  · simp [hij] at hj
    right
    refine ⟨List.mem_of_getElem? hj, fun ho => hij (hinj i j a b hi hj ho.symm)⟩

theorem mem_set_self {th : List ATh} {i : Nat} {a a' : ATh} (hi : th[i]? = some a) : a' ∈ th.set i a' := by
  have : i < th.length := by
    rcases Nat.lt_or_ge i th.length with h | h
    · exact h
    · rw [List.getElem?_eq_none h] at hi; cases hi
  exact List.mem_iff_getElem?.mpr ⟨i, by simp [List.getElem?_set, this]⟩

theorem mem_set_other {th : List ATh} {i : Nat} {a' b : ATh} {a : ATh} (hi : th[i]? = some a) (hb : b ∈ th) (hne : b ≠ a) :
    b ∈ th.set i a' := by
  obtain ⟨j, hj⟩ := List.getElem?_of_mem hb
  have : i ≠ j := by
    intro e; subst e; rw [hi] at hj; cases hj; exact hne rfl
  exact List.mem_iff_getElem?.mpr ⟨j, by simp [List.getElem?_set, this, hj]⟩

end Iox2.C10

/- ---------------------------------------------------------------- part M -/
namespace Iox2.C10
set_option linter.unusedSimpArgs false
set_option linter.unusedVariables false
open Iox2.Sched Iox2.Container
open Iox2.RUIS (EMPTY LOCKG RSh Mode Out)

theorem E_set (s : Sh) (n v m : Nat) :
    E { s with egc := s.egc.set n v } m = if n = m ∧ n < s.egc.length then v else E s m := getD_set' ..
theorem Cl_set (s : Sh) (n v m : Nat) :
    Cl { s with r := { s.r with cells := s.r.cells.set n v } } m = if n = m ∧ n < s.r.cells.length then v else Cl s m := getD_set' ..

/-! ## what one abstract step does to the shared state -/
section
variable {s s' : Sh} {a a' : ATh}

theorem eff_const (h : AStep s a s' a') :
    s'.width = s.width ∧ s'.r.cap = s.r.cap ∧ s'.egc.length = s.egc.length ∧ s'.data.length = s.data.length ∧
    s'.published.length = s.published.length ∧ s'.r.cells.length = s.r.cells.length := by
  cases h <;> simp_all [fin, RFrame, setWord]

theorem eff_owner (h : AStep s a s' a') : a'.owner = a.owner := by
  cases h <;> simp_all [fin]

/-- the generation counter of a slot changes by +1, and only by its adder or a token holder -/
theorem eff_egc (h : AStep s a s' a') (n : Nat) :
    E s' n = E s n ∨ (E s' n = E s n + 1 ∧ n < s.egc.length ∧
      ((∃ v, a.ph = .addCas n (E s n) v) ∨ (∃ v, a.ph = .addInc n v) ∨ tok a.ph = some (n, E s n))) := by
  cases h with
  | aCasOk n' g v hph hE hs ha =>
    subst hs; rw [E_set]; split
    · rename_i h; obtain ⟨rfl, h⟩ := h; right; subst hE; exact ⟨rfl, h, .inl ⟨v, hph⟩⟩
    · exact .inl rfl
  | aInc n' v hph hs ha =>
    have key : E s' n = if n' = n ∧ n' < s.egc.length then E s n' + 1 else E s n := by
      subst hs; exact getD_set' ..
    rw [key]; split
    · rename_i h; obtain ⟨rfl, h⟩ := h; right; exact ⟨rfl, h, .inr (.inl ⟨v, hph⟩)⟩
    · exact .inl rfl
  | rCasOk n' g hph hE hs ha =>
    subst hs; rw [E_set]; split
    · rename_i h; obtain ⟨rfl, h⟩ := h; right; subst hE; exact ⟨rfl, h, .inr (.inr (by simp [hph, tok]))⟩
    · exact .inl rfl
  | vHookOk d n' g hph hE hs ha =>
    subst hs; rw [E_set]; split
    · rename_i h; obtain ⟨rfl, h⟩ := h; right; subst hE; exact ⟨rfl, h, .inr (.inr (by simp [hph, tok]))⟩
    · exact .inl rfl
  | _ => left; simp_all [E, fin]

theorem eff_egc_mono (h : AStep s a s' a') (n : Nat) : E s n ≤ E s' n := by
  rcases eff_egc h n with h | h <;> omega

/-- data words are written only by the adder of the slot, in its write window -/
theorem eff_data (h : AStep s a s' a') :
    s'.data = s.data ∨ ∃ n k v, a.ph = .addWr n k v ∧ k < s.width ∧ s'.data = setWord s.data n k (v.getD k 0) := by
  cases h with
  | aWord n k v hph hk hs ha => right; exact ⟨n, k, v, hph, hk, by simp [hs]⟩
  | _ => left; simp_all [fin]

/-- cells: taken by an acquirer, released by the holder or by a recoverer on behalf of the dead owner -/
theorem eff_cells (h : AStep s a s' a') :
    (∀ n, Cl s' n = Cl s n) ∨
    (∃ n, a.ph = .acqPre ∧ a'.ph = .acqPost n ∧ n < s.r.cap ∧ Cl s n = EMPTY ∧ ∀ m, Cl s' m = if n = m ∧ n < s.r.cells.length then a.owner else Cl s m) ∨
    (∃ n g, a.ph = .rmRel n g ∧ a'.ph = .rmTok n g ∧ Cl s n = a.owner ∧ ∀ m, Cl s' m = if n = m ∧ n < s.r.cells.length then EMPTY else Cl s m) ∨
    (∃ d n g, a.ph = .rvCell d n g ∧ a'.ph = .rvTok d n g ∧ Cl s n = d ∧ ∀ m, Cl s' m = if n = m ∧ n < s.r.cells.length then EMPTY else Cl s m) := by
  cases h with
  | aCell n hph hn hc hs ha => right; left; exact ⟨n, hph, by simp [ha], hn, hc, fun m => by rw [hs, Cl_set]⟩
  | rRel n g hph hc hs ha => right; right; left; exact ⟨n, g, hph, by simp [ha], hc, fun m => by rw [hs, Cl_set]⟩
  | vCellOk d n g hph hc hs ha => right; right; right; exact ⟨d, n, g, hph, by simp [ha], hc, fun m => by rw [hs, Cl_set]⟩
  | _ => left; intro n; simp_all [Cl, fin, RFrame]

theorem eff_gen (h : AStep s a s' a') : s.r.gen = LOCKG → s'.r.gen = LOCKG := by
  cases h <;> simp_all [fin, RFrame]

theorem eff_dead (h : AStep s a s' a') :
    s'.r.deadOwners = s.r.deadOwners ∨ (s'.r.deadOwners = a.owner :: s.r.deadOwners ∧ a'.dead = true ∧ a'.ph = .idle) := by
  cases h <;> simp_all [fin, RFrame] <;> split <;> simp_all

theorem eff_pub (h : AStep s a s' a') :
    s'.published = s.published ∨ ∃ n v, a.ph = .addInc n v ∧
      s'.published = s.published.modify n fun l => l ++ [(E s n + 1, v)] := by
  cases h with
  | aInc n v hph hs ha => right; exact ⟨n, v, hph, by simp [hs]⟩
  | _ => left; simp_all [fin]

theorem eff_removed (h : AStep s a s' a') :
    (s'.removedDone = s.removedDone) ∨
    (s'.change = s.change + 1 ∧ ((∃ n g, a.ph = .rmFin n g ∧ s'.removedDone = s.removedDone ++ [(n, g)]) ∨
       (a.ph = .rvFin ∧ s'.removedDone = s.removedDone ++ a.rvDone))) := by
  cases h with
  | rFin n g b1 b2 hph hb hs ha => right; exact ⟨by simp [hs, fin], .inl ⟨n, g, hph, by simp [hs, fin]⟩⟩
  | vFin b1 b2 hph hb hs ha => right; exact ⟨by simp [hs, fin], .inr ⟨hph, by simp [hs, fin]⟩⟩
  | _ => left; simp_all [fin]

theorem eff_change (h : AStep s a s' a') :
    s'.change = s.change ∨ (s'.change = s.change + 1 ∧ ((∃ n, a.ph = .addPub n) ∨ (∃ n g, a.ph = .rmFin n g) ∨ a.ph = .rvFin)) := by
  cases h with
  | aChg n hph hs ha => right; exact ⟨by simp [hs], .inl ⟨n, hph⟩⟩
  | rFin n g b1 b2 hph hb hs ha => right; exact ⟨by simp [hs, fin], .inr (.inl ⟨n, g, hph⟩)⟩
  | vFin b1 b2 hph hb hs ha => right; exact ⟨by simp [hs, fin], .inr (.inr hph)⟩
  | _ => left; simp_all [fin]

end
end Iox2.C10

/- ---------------------------------------------------------------- part N -/
namespace Iox2.C10
set_option linter.unusedSimpArgs false
set_option linter.unusedVariables false
open Iox2.Sched Iox2.Container
open Iox2.RUIS (EMPTY LOCKG RSh Mode Out)

/-- one abstract step of thread `i` in a configuration satisfying the invariant -/
structure StepCtx (s : Sh) (th : List ATh) (i : Nat) (a : ATh) (s' : Sh) (a' : ATh) : Prop where
  inv : AInv s th
  hi : th[i]? = some a
  hd : a.dead = false
  hact : a.act = true
  st : AStep s a s' a'

section
variable {s s' : Sh} {th : List ATh} {i : Nat} {a a' : ATh}

theorem StepCtx.mem (c : StepCtx s th i a s' a') : a ∈ th := List.mem_of_getElem? c.hi
theorem StepCtx.mem' (c : StepCtx s th i a s' a') : a' ∈ th.set i a' := mem_set_self c.hi
theorem StepCtx.cases (c : StepCtx s th i a s' a') {b : ATh} (hb : b ∈ th.set i a') :
    b = a' ∨ (b ∈ th ∧ b.owner ≠ a.owner) := mem_set_cases c.inv.own_inj c.hi hb
/-- every old thread has a successor with the same owner -/
theorem StepCtx.succ (c : StepCtx s th i a s' a') {b : ATh} (hb : b ∈ th) : ∃ b' ∈ th.set i a', b'.owner = b.owner := by
  by_cases h : b = a
  · subst h; exact ⟨a', c.mem', eff_owner c.st⟩
  · exact ⟨b, mem_set_other c.hi hb h, rfl⟩
theorem StepCtx.other (c : StepCtx s th i a s' a') {b : ATh} (hb : b ∈ th) (hne : b.owner ≠ a.owner) : b ∈ th.set i a' :=
  mem_set_other c.hi hb (fun e => hne (e ▸ rfl))

theorem setWord_length (d : List (List Nat)) (n k x : Nat) : (setWord d n k x).length = d.length := by
  simp [setWord]
theorem setWord_mem (d : List (List Nat)) (n k x w : Nat) (h : ∀ r ∈ d, r.length = w) : ∀ r ∈ setWord d n k x, r.length = w := by
  intro r hr
  obtain ⟨j, hj⟩ := List.getElem?_of_mem hr
  simp only [setWord, List.getElem?_modify] at hj
  cases hd : d[j]? with
  | none => simp [hd] at hj
  | some r0 =>
    simp [hd] at hj
    have h0 := h r0 (List.mem_of_getElem? hd)
    split at hj <;> subst hj <;> simp [h0]

theorem pres_shape (c : StepCtx s th i a s' a') :
    s'.egc.length = s'.r.cap ∧ s'.data.length = s'.r.cap ∧ s'.published.length = s'.r.cap ∧ s'.r.cells.length = s'.r.cap ∧
    (∀ d ∈ s'.data, d.length = s'.width) := by
  obtain ⟨h1, h2, h3, h4, h5, h6⟩ := eff_const c.st
  refine ⟨by rw [h3, h2]; exact c.inv.len_egc, by rw [h4, h2]; exact c.inv.len_data, by rw [h5, h2]; exact c.inv.len_pub,
    by rw [h6, h2]; exact c.inv.len_cells, ?_⟩
  rw [h1]
  rcases eff_data c.st with h | ⟨n, k, v, _, _, h⟩ <;> rw [h]
  · exact c.inv.wid_data
  · exact setWord_mem _ _ _ _ _ c.inv.wid_data

theorem pres_snap_shape (c : StepCtx s th i a s' a') :
    ∀ b ∈ th.set i a', b.snap.egc.length = s'.r.cap ∧ b.snap.data.length = s'.r.cap ∧ ∀ d ∈ b.snap.data, d.length = s'.width := by
  obtain ⟨h1, h2, -⟩ := eff_const c.st
  rw [h1, h2]
  intro b hb
  rcases c.cases hb with rfl | ⟨hb, _⟩
  · have := c.inv.snap_shape a c.mem
    cases c.st <;> simp_all [fin, setWord_length]
    exact setWord_mem _ _ _ _ _ this.2.2
  · exact c.inv.snap_shape b hb

theorem pres_own (c : StepCtx s th i a s' a') :
    (∀ (j k : Nat) (x y : ATh), (th.set i a')[j]? = some x → (th.set i a')[k]? = some y → x.owner = y.owner → j = k) ∧
    (∀ b ∈ th.set i a', b.owner ≠ EMPTY) := by
  have ho := eff_owner c.st
  constructor
  · intro j k x y hj hk hxy
    have key : ∀ (j : Nat) (x : ATh), (th.set i a')[j]? = some x → ∃ x0, th[j]? = some x0 ∧ x0.owner = x.owner := by
      intro j x hj
      rw [List.getElem?_set] at hj
      by_cases e : i = j
      · subst e; simp at hj
        exact ⟨a, c.hi, by rw [← hj.2, ho]⟩
      · simp [e] at hj; exact ⟨x, hj, rfl⟩
    obtain ⟨x0, hx0, ex⟩ := key j x hj
    obtain ⟨y0, hy0, ey⟩ := key k y hk
    exact c.inv.own_inj j k x0 y0 hx0 hy0 (by rw [ex, ey, hxy])
  · intro b hb
    rcases c.cases hb with rfl | ⟨hb, _⟩
    · rw [ho]; exact c.inv.own_ne a c.mem
    · exact c.inv.own_ne b hb

end
end Iox2.C10

/- ---------------------------------------------------------------- part O -/
namespace Iox2.C10
set_option linter.unusedSimpArgs false
set_option linter.unusedVariables false
open Iox2.Sched Iox2.Container
open Iox2.RUIS (EMPTY LOCKG RSh Mode Out)

section
variable {s s' : Sh} {th : List ATh} {i : Nat} {a a' : ATh}

theorem eff_life (h : AStep s a s' a') :
    (a'.dead = a.dead ∧ a'.act = a.act ∧ s'.r.deadOwners = s.r.deadOwners) ∨
    (a'.ph = .idle ∧ (a'.dead = true → a'.act = false) ∧
      s'.r.deadOwners = if a'.dead then a.owner :: s.r.deadOwners else s.r.deadOwners) := by
  cases h <;> simp_all [fin, RFrame]

theorem pres_life (c : StepCtx s th i a s' a') :
    ∀ b ∈ th.set i a', (b.owner ∈ s'.r.deadOwners → b.dead = true) ∧ (b.dead = true → b.ph = .idle ∧ b.act = false) ∧
      (b.ph ≠ .idle → b.act = true) := by
  intro b hb
  have hla := c.inv.life a c.mem
  rcases c.cases hb with rfl | ⟨hb, hne⟩
  · rcases eff_life c.st with ⟨h1, h2, h3⟩ | ⟨h1, h2, h3⟩
    · rw [h1, h2, h3, eff_owner c.st, c.hd, c.hact]
      refine ⟨fun h => ?_, by simp, by simp⟩
      have := hla.1 h; rw [c.hd] at this; cases this
    · rw [h3, eff_owner c.st]
      refine ⟨fun h => ?_, fun h => ⟨h1, h2 h⟩, fun h => absurd h1 h⟩
      split at h
      · assumption
      · have := hla.1 h; rw [c.hd] at this; cases this
  · have hlb := c.inv.life b hb
    refine ⟨fun h => hlb.1 ?_, hlb.2⟩
    rcases eff_life c.st with ⟨_, _, h3⟩ | ⟨_, _, h3⟩
    · rwa [h3] at h
    · rw [h3] at h; split at h
      · simp at h; rcases h with h | h
        · exact absurd h hne
        · exact h
      · exact h

theorem pres_dead_ne (c : StepCtx s th i a s' a') : ∀ d ∈ s'.r.deadOwners, d ≠ EMPTY := by
  intro d hd
  rcases eff_life c.st with ⟨_, _, h3⟩ | ⟨_, _, h3⟩
  · rw [h3] at hd; exact c.inv.dead_ne d hd
  · rw [h3] at hd; split at hd
    · simp at hd; rcases hd with rfl | hd
      · exact c.inv.own_ne a c.mem
      · exact c.inv.dead_ne d hd
    · exact c.inv.dead_ne d hd

theorem pres_cell_owner (c : StepCtx s th i a s' a') : ∀ n, Cl s' n ≠ EMPTY → ∃ b ∈ th.set i a', b.owner = Cl s' n := by
  intro n hn
  have old : Cl s n ≠ EMPTY → ∃ b ∈ th.set i a', b.owner = Cl s n := by
    intro h
    obtain ⟨b, hb, e⟩ := c.inv.cell_owner n h
    obtain ⟨b', hb', e'⟩ := c.succ hb
    exact ⟨b', hb', by rw [e', e]⟩
  rcases eff_cells c.st with h | ⟨m, _, _, _, _, h⟩ | ⟨m, g, _, _, _, h⟩ | ⟨d, m, g, _, _, _, h⟩
  · rw [h] at hn ⊢; exact old hn
  · rw [h] at hn ⊢; split
    · exact ⟨a', c.mem', eff_owner c.st⟩
    · rename_i h1; rw [if_neg h1] at hn; exact old hn
  · rw [h] at hn ⊢; split
    · rename_i h1; rw [if_pos h1] at hn; exact absurd rfl hn
    · rename_i h1; rw [if_neg h1] at hn; exact old hn
  · rw [h] at hn ⊢; split
    · rename_i h1; rw [if_pos h1] at hn; exact absurd rfl hn
    · rename_i h1; rw [if_neg h1] at hn; exact old hn

end
end Iox2.C10

/- ---------------------------------------------------------------- part P -/
namespace Iox2.C10
set_option linter.unusedSimpArgs false
set_option linter.unusedVariables false
open Iox2.Sched Iox2.Container
open Iox2.RUIS (EMPTY LOCKG RSh Mode Out)

theorem perm_eraseIdx' {α} (l : List α) (i : Nat) (e : α) (h : l[i]? = some e) :
    (l.eraseIdx i ++ [e]).Perm l := by
  obtain ⟨hi, he⟩ := List.getElem?_eq_some_iff.mp h
  rw [List.eraseIdx_eq_take_drop_succ]
  have h1 : l = l.take i ++ e :: l.drop (i+1) := by
    subst he; simp
  conv => rhs; rw [h1]
  simp only [List.append_assoc]
  apply List.Perm.append_left
  simp

theorem map_eraseIdx' {α β} (f : α → β) (l : List α) (i : Nat) : (l.eraseIdx i).map f = (l.map f).eraseIdx i := by
  induction l generalizing i with
  | nil => simp
  | cons x xs ih => cases i <;> simp [ih]

theorem pcHeld_ite (c : Prop) [Decidable c] (p q : Ph) : pcHeld (if c then p else q) = if c then pcHeld p else pcHeld q := by
  split <;> rfl

section
variable {s s' : Sh} {th : List ATh} {i : Nat} {a a' : ATh}

/-- how the set of slots a thread holds changes in one of its steps -/
theorem eff_held (h : AStep s a s' a') :
    ((heldL a').Perm (heldL a) ∧ ∀ n, Cl s' n = Cl s n)
    ∨ (∃ n, a.ph = .acqPre ∧ n < s.r.cap ∧ Cl s n = EMPTY ∧ heldL a' = n :: heldL a ∧
        ∀ m, Cl s' m = if n = m ∧ n < s.r.cells.length then a.owner else Cl s m)
    ∨ (∃ n, (heldL a).Perm (n :: heldL a') ∧ Cl s n = a.owner ∧ ∀ m, Cl s' m = if n = m ∧ n < s.r.cells.length then EMPTY else Cl s m)
    ∨ (∃ n, (heldL a).Perm (n :: heldL a') ∧ (∀ m, Cl s' m = Cl s m) ∧ (s'.r.gen = LOCKG ∨ Cl s n ≠ a.owner))
    ∨ (heldL a' = heldL a ∧ ∃ d n g, a.ph = .rvCell d n g ∧ Cl s n = d ∧ ∀ m, Cl s' m = if n = m ∧ n < s.r.cells.length then EMPTY else Cl s m) := by
  cases h with
  | aCell n hph hn hc hs ha =>
    right; left
    exact ⟨n, hph, hn, hc, by simp [ha, heldL, pcHeld, hph, mineIdx], fun m => by rw [hs, Cl_set]⟩
  | rRel n g hph hc hs ha =>
    right; right; left
    exact ⟨n, by simp [ha, heldL, pcHeld, hph, mineIdx], hc, fun m => by rw [hs, Cl_set]⟩
  | vCellOk d n g hph hc hs ha =>
    right; right; right; right
    exact ⟨by simp [ha, heldL, pcHeld, hph, mineIdx], d, n, g, hph, hc, fun m => by rw [hs, Cl_set]⟩
  | done r' b1 b2 hr hb hp hs ha =>
    have hcl : ∀ m, Cl s' m = Cl s m := by intro m; simp [hs, fin, Cl, hr.2.1]
    cases hph : a.ph <;> simp [plainFin, hph] at hp
    case acqPre => left; exact ⟨by simp [ha, fin, heldL, pcHeld, hph, mineIdx], hcl⟩
    case addRet => left; exact ⟨by simp [ha, fin, heldL, pcHeld, hph, mineIdx], hcl⟩
    case gated => left; exact ⟨by simp [ha, fin, heldL, pcHeld, hph, mineIdx], hcl⟩
    case rmRel n g =>
      right; right; right; left
      refine ⟨n, by simp [ha, fin, heldL, pcHeld, hph, mineIdx], hcl, .inr ?_⟩
      simpa [Cl, hr.2.1] using hp
    case acqPost n =>
      right; right; right; left
      exact ⟨n, by simp [ha, fin, heldL, pcHeld, hph, mineIdx], hcl, .inl (by simp [hs, fin, hp])⟩
  | sRm pos hph hpos hs ha =>
    left
    refine ⟨?_, by simp [hs]⟩
    simp only [ha, heldL, pcHeld, hph, mineIdx, List.nil_append, List.singleton_append]
    have h1 : (a.mine.map (·.1))[pos]? = some (a.mine.getD pos (0, 0, [])).1 := by
      simp [List.getD_eq_getElem?_getD, List.getElem?_eq_getElem hpos]
    have := perm_eraseIdx' (a.mine.map (·.1)) pos _ h1
    rw [map_eraseIdx']
    exact (List.perm_append_singleton _ _).symm.trans this
  | aInc n v hph hs ha =>
    left
    refine ⟨?_, by simp [hs, Cl]⟩
    simp only [ha, heldL, pcHeld, hph, mineIdx, List.map_append, List.map_cons, List.map_nil, List.nil_append, List.singleton_append]
    exact (List.perm_append_singleton _ _)
  | uNext i hph hi hs ha =>
    left; refine ⟨?_, by simp [hs]⟩
    rcases hph with ⟨h, _, _⟩ | h | ⟨g, h, _⟩ <;> simp [ha, heldL, pcHeld, h, mineIdx]
  | uTrue i b1 b2 hph hi hb hs ha =>
    left; refine ⟨?_, by simp [hs, fin, Cl]⟩
    rcases hph with ⟨h, _⟩ | h | ⟨g, h, _⟩ | ⟨h, _⟩ <;> simp [ha, heldL, pcHeld, h, mineIdx, fin]
  | uNew i hph hi hne hs ha =>
    left; refine ⟨?_, by simp [hs]⟩
    rcases hph with h | ⟨g, h, _⟩ <;> simp only [ha, heldL, h, mineIdx, pcHeld_ite] <;> simp [pcHeld]
  | vLd d n hph hs ha => left; refine ⟨?_, by simp [hs]⟩; simp only [ha, heldL, hph, mineIdx, pcHeld_ite]; simp [pcHeld]
  | vVal d n g hph hs ha => left; refine ⟨?_, by simp [hs]⟩; simp only [ha, heldL, hph, mineIdx, pcHeld_ite]; simp [pcHeld]
  | _ => left; simp_all [heldL, pcHeld, mineIdx, fin, Cl, RFrame]

theorem Cl_lt {s : Sh} {n o : Nat} (h : Cl s n = o) (ho : o ≠ EMPTY) : n < s.r.cells.length := by
  rcases Nat.lt_or_ge n s.r.cells.length with h1 | h1
  · exact h1
  · simp [Cl, List.getD_eq_getElem?_getD, List.getElem?_eq_none h1] at h; exact absurd h.symm ho

theorem pres_held_nodup (c : StepCtx s th i a s' a') : ∀ b ∈ th.set i a', (heldL b).Nodup := by
  intro b hb
  rcases c.cases hb with rfl | ⟨hb, _⟩
  · have hn := c.inv.held_nodup a c.mem
    rcases eff_held c.st with ⟨hp, _⟩ | ⟨n, _, _, hc, he, _⟩ | ⟨n, hp, _⟩ | ⟨n, hp, _⟩ | ⟨he, _⟩
    · exact hp.nodup_iff.mpr hn
    · rw [he]; refine List.nodup_cons.mpr ⟨fun hm => ?_, hn⟩
      have := c.inv.held_own a c.mem c.hd n hm
      rw [hc] at this; exact c.inv.own_ne a c.mem this.symm
    · exact (List.nodup_cons.mp (hp.nodup_iff.mp hn)).2
    · exact (List.nodup_cons.mp (hp.nodup_iff.mp hn)).2
    · rw [he]; exact hn
  · exact c.inv.held_nodup b hb

theorem pres_held_own (c : StepCtx s th i a s' a') : ∀ b ∈ th.set i a', b.dead = false → ∀ n ∈ heldL b, Cl s' n = b.owner := by
  intro b hb hbd n hn
  have hoa := c.inv.own_ne a c.mem
  rcases c.cases hb with rfl | ⟨hb, hne⟩
  · rw [eff_owner c.st]
    have hold := c.inv.held_own a c.mem c.hd
    have hnd := c.inv.held_nodup a c.mem
    rcases eff_held c.st with ⟨hp, hc⟩ | ⟨m, _, hm, hc, he, hcl⟩ | ⟨m, hp, _, hcl⟩ | ⟨m, hp, hcl, _⟩ | ⟨he, d, m, g, hph, hcd, hcl⟩
    · rw [hc]; exact hold n (hp.mem_iff.mp hn)
    · rw [hcl]; rw [he] at hn
      have hlt : m < s.r.cells.length := by rw [c.inv.len_cells]; exact hm
      rcases List.mem_cons.mp hn with rfl | hn
      · simp [hlt]
      · split
        · rfl
        · exact hold n hn
    · rw [hcl]
      have hnm : m ≠ n := by
        intro e; subst e
        exact (List.nodup_cons.mp (hp.nodup_iff.mp hnd)).1 hn
      simp [hnm]; exact hold n (hp.mem_iff.mpr (List.mem_cons_of_mem _ hn))
    · rw [hcl]; exact hold n (hp.mem_iff.mpr (List.mem_cons_of_mem _ hn))
    · rw [hcl]; rw [he] at hn
      have h1 := hold n hn
      split
      · rename_i h2; obtain ⟨rfl, _⟩ := h2
        -- the recoverer itself would be the dead owner
        have hd := c.inv.rv_dead a c.mem d (by simp [hph, rvOfAll])
        have := (c.inv.life a c.mem).1 (by rw [← h1, hcd]; exact hd)
        rw [c.hd] at this; cases this
      · exact h1
  · have h1 := c.inv.held_own b hb hbd n hn
    have hob := c.inv.own_ne b hb
    rcases eff_cells c.st with h | ⟨m, _, _, _, hc, h⟩ | ⟨m, g, _, _, hc, h⟩ | ⟨d, m, g, hph, _, hc, h⟩
    · rw [h]; exact h1
    · rw [h]; split
      · rename_i h2; obtain ⟨rfl, _⟩ := h2; rw [hc] at h1; exact absurd h1.symm hob
      · exact h1
    · rw [h]; split
      · rename_i h2; obtain ⟨rfl, _⟩ := h2; rw [hc] at h1; exact absurd h1.symm hne
      · exact h1
    · rw [h]; split
      · rename_i h2; obtain ⟨rfl, _⟩ := h2
        have hd := c.inv.rv_dead a c.mem d (by simp [hph, rvOfAll])
        have := (c.inv.life b hb).1 (by rw [← h1, hc]; exact hd)
        rw [hbd] at this; cases this
      · exact h1

theorem pres_leak (c : StepCtx s th i a s' a') : ∀ b ∈ th.set i a', ∀ n, Cl s' n = b.owner → n ∈ heldL b ∨ s'.r.gen = LOCKG := by
  intro b hb n hn
  have hoa := c.inv.own_ne a c.mem
  rcases c.cases hb with rfl | ⟨hb, hne⟩
  · rw [eff_owner c.st] at hn
    have hold := c.inv.leak a c.mem
    have hown := c.inv.held_own a c.mem c.hd
    have lift : n ∈ heldL a ∨ s.r.gen = LOCKG → (n ∈ heldL a → n ∈ heldL b) → n ∈ heldL b ∨ s'.r.gen = LOCKG := by
      intro h1 h2; rcases h1 with h1 | h1
      · exact .inl (h2 h1)
      · exact .inr (eff_gen c.st h1)
    rcases eff_held c.st with ⟨hp, hc⟩ | ⟨m, _, hm, hc, he, hcl⟩ | ⟨m, hp, _, hcl⟩ | ⟨m, hp, hcl, hor⟩ | ⟨he, d, m, g, hph, hcd, hcl⟩
    · rw [hc] at hn; exact lift (hold n hn) (fun h => hp.mem_iff.mpr h)
    · rw [hcl] at hn
      by_cases e : m = n
      · subst e; exact .inl (he ▸ List.mem_cons_self ..)
      · simp [e] at hn; exact lift (hold n hn) (fun h => he ▸ List.mem_cons_of_mem _ h)
    · rw [hcl] at hn
      by_cases e : m = n ∧ m < s.r.cells.length
      · rw [if_pos e] at hn; exact absurd hn.symm hoa
      · rw [if_neg e] at hn
        refine lift (hold n hn) (fun h => ?_)
        rcases List.mem_cons.mp (hp.mem_iff.mp h) with rfl | h
        · exact absurd ⟨rfl, Cl_lt hn hoa⟩ e
        · exact h
    · rw [hcl] at hn
      rcases hor with hor | hor
      · exact .inr hor
      · refine lift (hold n hn) (fun h => ?_)
        rcases List.mem_cons.mp (hp.mem_iff.mp h) with rfl | h
        · exact absurd hn hor
        · exact h
    · rw [hcl] at hn
      by_cases e : m = n ∧ m < s.r.cells.length
      · rw [if_pos e] at hn; exact absurd hn.symm hoa
      · rw [if_neg e] at hn; exact lift (hold n hn) (fun h => he ▸ h)
  · have hob := c.inv.own_ne b hb
    have : Cl s n = b.owner := by
      rcases eff_cells c.st with h | ⟨m, _, _, _, hc, h⟩ | ⟨m, g, _, _, hc, h⟩ | ⟨d, m, g, hph, _, hc, h⟩
      · rw [← h]; exact hn
      · rw [h] at hn; split at hn
        · exact absurd hn.symm hne
        · exact hn
      · rw [h] at hn; split at hn
        · exact absurd hn.symm hob
        · exact hn
      · rw [h] at hn; split at hn
        · exact absurd hn.symm hob
        · exact hn
    rcases c.inv.leak b hb n this with h | h
    · exact .inl h
    · exact .inr (eff_gen c.st h)

end
end Iox2.C10

/- ---------------------------------------------------------------- part Q -/
namespace Iox2.C10
set_option linter.unusedSimpArgs false
set_option linter.unusedVariables false
open Iox2.Sched Iox2.Container
open Iox2.RUIS (EMPTY LOCKG RSh Mode Out)

theorem rvOfAll_ite (c : Prop) [Decidable c] (p q : Ph) : rvOfAll (if c then p else q) = if c then rvOfAll p else rvOfAll q := by
  split <;> rfl
theorem rvOf_ite (c : Prop) [Decidable c] (p q : Ph) : rvOf (if c then p else q) = if c then rvOf p else rvOf q := by
  split <;> rfl

section
variable {s s' : Sh} {th : List ATh} {i : Nat} {a a' : ATh}

theorem eff_rvOfAll (h : AStep s a s' a') (d : Nat) (hr : rvOfAll a'.ph = some d) :
    rvOfAll a.ph = some d ∨ (a.ph = .gated d ∧ d ∈ s.r.deadOwners) := by
  cases h with
  | uNext i hph hi hs ha => simp [ha, rvOfAll] at hr
  | uTrue i b1 b2 hph hi hb hs ha => simp [ha, fin, rvOfAll] at hr
  | uNew i hph hi hne hs ha => simp only [ha, rvOfAll_ite] at hr; split at hr <;> simp [rvOfAll] at hr
  | vLd d' n hph hs ha => simp only [ha, rvOfAll_ite] at hr; split at hr <;> simp_all [rvOfAll]
  | vVal d' n g hph hs ha => simp only [ha, rvOfAll_ite] at hr; (repeat' split at hr) <;> simp_all [rvOfAll]
  | _ => simp_all [rvOfAll, fin]

theorem eff_rvOf (h : AStep s a s' a') (d : Nat) (hr : rvOf a'.ph = some d) :
    rvOf a.ph = some d ∨ (a.ph = .rvEntry d ∧ s.r.gen ≠ LOCKG) := by
  cases h with
  | uNext i hph hi hs ha => simp [ha, rvOf] at hr
  | uTrue i b1 b2 hph hi hb hs ha => simp [ha, fin, rvOf] at hr
  | uNew i hph hi hne hs ha => simp only [ha, rvOf_ite] at hr; split at hr <;> simp [rvOf] at hr
  | vLd d' n hph hs ha => simp only [ha, rvOf_ite] at hr; split at hr <;> simp_all [rvOf]
  | vVal d' n g hph hs ha => simp only [ha, rvOf_ite] at hr; (repeat' split at hr) <;> simp_all [rvOf]
  | _ => simp_all [rvOf, fin]

theorem dead_mono (h : AStep s a s' a') {d : Nat} (hd : d ∈ s.r.deadOwners) : d ∈ s'.r.deadOwners := by
  rcases eff_life h with ⟨_, _, h3⟩ | ⟨_, _, h3⟩ <;> rw [h3]
  · exact hd
  · split
    · exact List.mem_cons_of_mem _ hd
    · exact hd

theorem pres_rv_dead (c : StepCtx s th i a s' a') : ∀ b ∈ th.set i a', ∀ d, rvOfAll b.ph = some d → d ∈ s'.r.deadOwners := by
  intro b hb d hr
  apply dead_mono c.st
  rcases c.cases hb with rfl | ⟨hb, _⟩
  · rcases eff_rvOfAll c.st d hr with h | ⟨_, h⟩
    · exact c.inv.rv_dead a c.mem d h
    · exact h
  · exact c.inv.rv_dead b hb d hr

theorem rvOf_all {p : Ph} {d : Nat} (h : rvOf p = some d) : rvOfAll p = some d := by
  cases p <;> simp_all [rvOf, rvOfAll]

theorem eff_mine_frame (h : AStep s a s' a') (hidle : a.ph = .idle → False) (hinc : ∀ n v, a.ph = .addInc n v → False) : a'.mine = a.mine := by
  cases h <;> simp_all [fin]

theorem pres_no_leak (c : StepCtx s th i a s' a') :
    ∀ b ∈ th.set i a', ∀ d, rvOf b.ph = some d → ∀ x ∈ th.set i a', x.owner = d → ∀ n, Cl s' n = d → n ∈ mineIdx x := by
  intro b hb d hr x hx hxo n hn
  -- `d` was a dead owner before the step
  have hdd : d ∈ s.r.deadOwners := by
    rcases c.cases hb with rfl | ⟨hb, _⟩
    · rcases eff_rvOf c.st d hr with h | ⟨h, _⟩
      · exact c.inv.rv_dead a c.mem d (rvOf_all h)
      · exact c.inv.rv_dead a c.mem d (by simp [h, rvOfAll])
    · exact c.inv.rv_dead b hb d (rvOf_all hr)
  have hde := c.inv.dead_ne d hdd
  -- so its thread is not the stepping one
  have hx' : x ∈ th ∧ x.owner ≠ a.owner := by
    rcases c.cases hx with rfl | h
    · exfalso
      rw [eff_owner c.st] at hxo
      have := (c.inv.life a c.mem).1 (hxo ▸ hdd)
      rw [c.hd] at this; cases this
    · exact h
  have hxd : x.dead = true := (c.inv.life x hx'.1).1 (hxo ▸ hdd)
  -- the cell was the dead owner's before the step
  have hcl : Cl s n = d := by
    rcases eff_cells c.st with h | ⟨m, _, _, _, hc, h⟩ | ⟨m, g, _, _, hc, h⟩ | ⟨d', m, g, hph, _, hc, h⟩
    · rw [← h]; exact hn
    · rw [h] at hn; split at hn
      · exact absurd (hn.trans hxo.symm).symm hx'.2
      · exact hn
    · rw [h] at hn; split at hn
      · exact absurd hn.symm hde
      · exact hn
    · rw [h] at hn; split at hn
      · exact absurd hn.symm hde
      · exact hn
  rcases c.cases hb with rfl | ⟨hb, _⟩
  · rcases eff_rvOf c.st d hr with h | ⟨h, hg⟩
    · exact c.inv.no_leak a c.mem d h x hx'.1 hxo n hcl
    · rcases c.inv.leak x hx'.1 n (hcl.trans hxo.symm) with h1 | h1
      · have := ((c.inv.life x hx'.1).2.1 hxd).1
        simpa [heldL, this, pcHeld] using h1
      · exact absurd h1 hg
  · exact c.inv.no_leak b hb d hr x hx'.1 hxo n hcl

end
end Iox2.C10

/- ---------------------------------------------------------------- part R -/
namespace Iox2.C10
set_option linter.unusedSimpArgs false
set_option linter.unusedVariables false
open Iox2.Sched Iox2.Container
open Iox2.RUIS (EMPTY LOCKG RSh Mode Out)

section
variable {s s' : Sh} {th : List ATh} {i : Nat} {a a' : ATh}

theorem AInv.eq_of_owner (I : AInv s th) {x y : ATh} (hx : x ∈ th) (hy : y ∈ th) (h : x.owner = y.owner) : x = y := by
  obtain ⟨j, hj⟩ := List.getElem?_of_mem hx
  obtain ⟨k, hk⟩ := List.getElem?_of_mem hy
  have := I.own_inj j k x y hj hk h
  subst this; rw [hj] at hk; cases hk; rfl

theorem AInv.alive (I : AInv s th) {x : ATh} (hx : x ∈ th) (h : x.ph ≠ .idle) : x.dead = false := by
  cases hd : x.dead with
  | false => rfl
  | true => exact absurd ((I.life x hx).2.1 hd).1 h

/-- two live threads never hold the same slot -/
theorem AInv.excl (I : AInv s th) {x y : ATh} (hx : x ∈ th) (hy : y ∈ th) (hdx : x.dead = false) (hdy : y.dead = false)
    {n : Nat} (h1 : n ∈ heldL x) (h2 : n ∈ heldL y) : x = y :=
  I.eq_of_owner hx hy ((I.held_own x hx hdx n h1).symm.trans (I.held_own y hy hdy n h2))

/-- a slot held by virtue of the pc is not among the thread's entries -/
theorem AInv.pc_not_mine (I : AInv s th) {x : ATh} (hx : x ∈ th) {n : Nat} (h1 : n ∈ pcHeld x.ph) : n ∉ mineIdx x := by
  have := I.held_nodup x hx
  unfold heldL at this
  exact fun h => (List.nodup_append.mp this).2.2 n h1 n h rfl

theorem eff_cst (h : AStep s a s' a') (n : Nat) (hc : cst a' n) :
    cst a n ∨ ∃ v, a.ph = .addInc n v ∧ s'.egc = s.egc.set n (E s n + 1) := by
  unfold cst mineIdx at *
  cases h with
  | sRm pos hph hpos hs ha =>
    left; left
    simp only [ha] at hc
    rcases hc with hc | hc | ⟨g, hc⟩
    · rw [map_eraseIdx'] at hc; exact List.mem_of_mem_eraseIdx hc
    · simp at hc; subst hc
      simp [List.getD_eq_getElem?_getD, List.getElem?_eq_getElem hpos]
      exact ⟨_, _, List.getElem_mem hpos⟩
    · simp at hc
  | aInc n' v hph hs ha =>
    simp only [ha] at hc
    rcases hc with hc | hc | ⟨g, hc⟩
    · simp at hc
      rcases hc with hc | rfl
      · left; left; simpa using hc
      · right; exact ⟨v, hph, by simp [hs]⟩
    · simp at hc
    · simp at hc
  | uNext i hph hi hs ha => simp_all
  | uTrue i b1 b2 hph hi hb hs ha => simp_all [fin]
  | uNew i hph hi hne hs ha => left; simp only [ha] at hc; (repeat' split at hc) <;> simp_all
  | vLd d' n hph hs ha => left; simp only [ha] at hc; (repeat' split at hc) <;> simp_all
  | vVal d' n g hph hs ha => left; simp only [ha] at hc; (repeat' split at hc) <;> simp_all
  | _ => simp_all [fin]

/-- while a thread holds slot `n` with a published entry, nobody makes its generation even -/
theorem egc_keep_odd (c : StepCtx s th i a s' a') {x : ATh} (hx : x ∈ th) {n : Nat} (hcl : Cl s n = x.owner) (hcst : cst x n) :
    E s' n = E s n ∧ E s n % 2 = 1 := by
  have h0 := c.inv.cst_odd x hx n hcl hcst
  have key : ∀ {n'}, n' = n → n' ∈ pcHeld a.ph → a.ph ≠ .rmPre n → (∀ g, a.ph ≠ .rmRel n g) → False := by
    intro n' e hp h1 h2; subst e
    have hxa : x = a := c.inv.eq_of_owner hx c.mem
      (hcl.symm.trans (c.inv.held_own a c.mem c.hd n' (by simp [heldL, hp])))
    subst hxa
    rcases hcst with h | h | ⟨g, h⟩
    · exact c.inv.pc_not_mine hx hp h
    · exact h1 h
    · exact h2 g h
  rcases eff_egc c.st n with h | ⟨_, _, ⟨v, h⟩ | ⟨v, h⟩ | h⟩
  · exact ⟨h, h0⟩
  · exact (key rfl (by simp [h, pcHeld]) (by simp [h]) (by simp [h])).elim
  · exact (key rfl (by simp [h, pcHeld]) (by simp [h]) (by simp [h])).elim
  · exact (c.inv.tok_stale a c.mem n (E s n) h rfl x hx hcl hcst).elim

theorem pres_cst_odd (c : StepCtx s th i a s' a') : ∀ b ∈ th.set i a', ∀ n, Cl s' n = b.owner → cst b n → E s' n % 2 = 1 := by
  intro b hb n hcl hcst
  have hoa := c.inv.own_ne a c.mem
  rcases c.cases hb with rfl | ⟨hb, hne⟩
  · rw [eff_owner c.st] at hcl
    rcases eff_cst c.st n hcst with h | ⟨v, h, hegc⟩
    · -- the thread held the entry before
      have hcl0 : Cl s n = a.owner := by
        rcases eff_cells c.st with h1 | ⟨m, hph, _, _, hc, h1⟩ | ⟨m, g, _, _, hc, h1⟩ | ⟨d, m, g, hph, _, hc, h1⟩
        · rw [← h1]; exact hcl
        · rw [h1] at hcl; split at hcl
          · rename_i h2; obtain ⟨rfl, _⟩ := h2
            exfalso
            have : m ∈ heldL a := by
              rcases h with h | h | ⟨g, h⟩
              · simp [heldL, h]
              · simp [hph] at h
              · simp [hph] at h
            have := c.inv.held_own a c.mem c.hd m this
            rw [hc] at this; exact hoa this.symm
          · exact hcl
        · rw [h1] at hcl; split at hcl
          · exact absurd hcl.symm hoa
          · exact hcl
        · rw [h1] at hcl; split at hcl
          · exact absurd hcl.symm hoa
          · exact hcl
      have := egc_keep_odd c c.mem hcl0 h
      rw [this.1]; exact this.2
    · -- the entry is published by this very step
      have hp := c.inv.ph_inv a c.mem
      simp only [phInv, h] at hp
      have hlt : n < s.egc.length := by
        rw [c.inv.len_egc, ← c.inv.len_cells]
        exact Cl_lt (c.inv.held_own a c.mem c.hd n (by simp [heldL, h, pcHeld])) hoa
      have : E s' n = E s n + 1 := by
        show s'.egc.getD n 0 = E s n + 1
        rw [hegc, getD_set', if_pos ⟨rfl, hlt⟩]
      rw [this]; omega
  · have hob := c.inv.own_ne b hb
    have hcl0 : Cl s n = b.owner := by
      rcases eff_cells c.st with h | ⟨m, _, _, _, hc, h⟩ | ⟨m, g, _, _, hc, h⟩ | ⟨d, m, g, hph, _, hc, h⟩
      · rw [← h]; exact hcl
      · rw [h] at hcl; split at hcl
        · exact absurd hcl.symm hne
        · exact hcl
      · rw [h] at hcl; split at hcl
        · exact absurd hcl.symm hob
        · exact hcl
      · rw [h] at hcl; split at hcl
        · exact absurd hcl.symm hob
        · exact hcl
    have := egc_keep_odd c hb hcl0 hcst
    rw [this.1]; exact this.2

end
end Iox2.C10

/- ---------------------------------------------------------------- part S -/
namespace Iox2.C10
set_option linter.unusedSimpArgs false
set_option linter.unusedVariables false
open Iox2.Sched Iox2.Container
open Iox2.RUIS (EMPTY LOCKG RSh Mode Out)

theorem tok_ite (c : Prop) [Decidable c] (p q : Ph) : tok (if c then p else q) = if c then tok p else tok q := by
  split <;> rfl

section
variable {s s' : Sh} {th : List ATh} {i : Nat} {a a' : ATh}

/-- an entry held after the step was held before it, or is published by this step -/
theorem cst_back (c : StepCtx s th i a s' a') {y : ATh} (hy : y ∈ th.set i a') {n : Nat} (hcl : Cl s' n = y.owner) (hcst : cst y n) :
    (∃ y0 ∈ th, Cl s n = y0.owner ∧ cst y0 n) ∨ (E s' n = E s n + 1 ∧ ∃ v, a.ph = .addInc n v) := by
  have hoa := c.inv.own_ne a c.mem
  rcases c.cases hy with rfl | ⟨hb, hne⟩
  · rw [eff_owner c.st] at hcl
    rcases eff_cst c.st n hcst with h | ⟨v, h, hegc⟩
    · left
      refine ⟨a, c.mem, ?_, h⟩
      rcases eff_cells c.st with h1 | ⟨m, hph, _, _, hc, h1⟩ | ⟨m, g, _, _, hc, h1⟩ | ⟨d, m, g, hph, _, hc, h1⟩
      · rw [← h1]; exact hcl
      · rw [h1] at hcl; split at hcl
        · rename_i h2; obtain ⟨rfl, _⟩ := h2
          exfalso
          have : m ∈ heldL a := by
            rcases h with h | h | ⟨g, h⟩
            · simp [heldL, h]
            · simp [hph] at h
            · simp [hph] at h
          have := c.inv.held_own a c.mem c.hd m this
          rw [hc] at this; exact hoa this.symm
        · exact hcl
      · rw [h1] at hcl; split at hcl
        · exact absurd hcl.symm hoa
        · exact hcl
      · rw [h1] at hcl; split at hcl
        · exact absurd hcl.symm hoa
        · exact hcl
    · right
      have hlt : n < s.egc.length := by
        rw [c.inv.len_egc, ← c.inv.len_cells]
        exact Cl_lt (c.inv.held_own a c.mem c.hd n (by simp [heldL, h, pcHeld])) hoa
      refine ⟨?_, v, h⟩
      show s'.egc.getD n 0 = E s n + 1
      rw [hegc, getD_set', if_pos ⟨rfl, hlt⟩]
  · have hob := c.inv.own_ne y hb
    left
    refine ⟨y, hb, ?_, hcst⟩
    rcases eff_cells c.st with h | ⟨m, _, _, _, hc, h⟩ | ⟨m, g, _, _, hc, h⟩ | ⟨d, m, g, hph, _, hc, h⟩
    · rw [← h]; exact hcl
    · rw [h] at hcl; split at hcl
      · exact absurd hcl.symm hne
      · exact hcl
    · rw [h] at hcl; split at hcl
      · exact absurd hcl.symm hob
      · exact hcl
    · rw [h] at hcl; split at hcl
      · exact absurd hcl.symm hob
      · exact hcl

theorem eff_tok (h : AStep s a s' a') (n g : Nat) (ht : tok a'.ph = some (n, g)) :
    tok a.ph = some (n, g) ∨
    (((a.ph = .rmRel n g ∧ Cl s n = a.owner) ∨ ∃ d, a.ph = .rvCell d n g ∧ Cl s n = d) ∧
      ∀ m, Cl s' m = if n = m ∧ n < s.r.cells.length then EMPTY else Cl s m) := by
  cases h with
  | rRel n' g' hph hc hs ha =>
    simp [ha, tok] at ht; obtain ⟨rfl, rfl⟩ := ht
    right; exact ⟨.inl ⟨hph, hc⟩, fun m => by rw [hs, Cl_set]⟩
  | vCellOk d n' g' hph hc hs ha =>
    simp [ha, tok] at ht; obtain ⟨rfl, rfl⟩ := ht
    right; exact ⟨.inr ⟨d, hph, hc⟩, fun m => by rw [hs, Cl_set]⟩
  | uNext i hph hi hs ha => simp [ha, tok] at ht
  | uTrue i b1 b2 hph hi hb hs ha => simp [ha, fin, tok] at ht
  | uNew i hph hi hne hs ha => simp only [ha, tok_ite] at ht; split at ht <;> simp [tok] at ht
  | vLd d' n hph hs ha => simp only [ha, tok_ite] at ht; split at ht <;> simp [tok] at ht
  | vVal d' n g hph hs ha => simp only [ha, tok_ite] at ht; (repeat' split at ht) <;> simp [tok] at ht
  | _ => simp_all [tok, fin]

theorem tok_inv {x : ATh} (h : phInv s x) {n g : Nat} (ht : tok x.ph = some (n, g)) : g % 2 = 1 ∧ n < s.r.cap ∧ g ≤ E s n := by
  unfold phInv at h
  cases hp : x.ph <;> simp [hp, tok] at ht h
  · obtain ⟨rfl, rfl⟩ := ht; exact h
  · obtain ⟨rfl, rfl⟩ := ht; exact h

theorem pres_tok_stale (c : StepCtx s th i a s' a') :
    ∀ x ∈ th.set i a', ∀ n g, tok x.ph = some (n, g) → E s' n = g → ∀ y ∈ th.set i a', Cl s' n = y.owner → ¬ cst y n := by
  intro x hx n g ht hE y hy hcl hcst
  have hoy := (pres_own c).2 y hy
  have old : ∀ x0 ∈ th, tok x0.ph = some (n, g) → False := by
    intro x0 hx0 ht0
    have hg := (tok_inv (c.inv.ph_inv x0 hx0) ht0).2.2
    have hm := eff_egc_mono c.st n
    have hEs : E s n = g := by omega
    rcases cst_back c hy hcl hcst with ⟨y0, hy0, hcl0, hcst0⟩ | ⟨h1, _⟩
    · exact c.inv.tok_stale x0 hx0 n g ht0 hEs y0 hy0 hcl0 hcst0
    · omega
  rcases c.cases hx with rfl | ⟨hx, _⟩
  · rcases eff_tok c.st n g ht with h | ⟨h, hcl'⟩
    · exact old a c.mem h
    · have hlt : n < s.r.cells.length := by
        rcases h with ⟨_, h⟩ | ⟨d, hph, h⟩
        · exact Cl_lt h (c.inv.own_ne a c.mem)
        · exact Cl_lt h (c.inv.dead_ne d (c.inv.rv_dead a c.mem d (by simp [hph, rvOfAll])))
      rw [hcl', if_pos ⟨rfl, hlt⟩] at hcl
      exact hoy hcl.symm
  · exact old x hx ht

end
end Iox2.C10

/- ---------------------------------------------------------------- part T -/
namespace Iox2.C10
set_option linter.unusedSimpArgs false
set_option linter.unusedVariables false
open Iox2.Sched Iox2.Container
open Iox2.RUIS (EMPTY LOCKG RSh Mode Out)

section
variable {s s' : Sh} {th : List ATh} {i : Nat} {a a' : ATh}

/-- a generation counter moves only by its adder, or from an odd value by a token holder -/
theorem egc_step (c : StepCtx s th i a s' a') (n : Nat) :
    E s' n = E s n ∨ (E s' n = E s n + 1 ∧ n < s.egc.length ∧ (n ∈ pcHeld a.ph ∨ E s n % 2 = 1)) := by
  rcases eff_egc c.st n with h | ⟨h1, h2, ⟨v, h⟩ | ⟨v, h⟩ | h⟩
  · exact .inl h
  · exact .inr ⟨h1, h2, .inl (by simp [h, pcHeld])⟩
  · exact .inr ⟨h1, h2, .inl (by simp [h, pcHeld])⟩
  · exact .inr ⟨h1, h2, .inr (tok_inv (c.inv.ph_inv a c.mem) h).1⟩

theorem getD_setWord (d : List (List Nat)) (m k x n : Nat) :
    (setWord d m k x).getD n [] = if m = n ∧ m < d.length then (d.getD m []).set k x else d.getD n [] := by
  unfold setWord; rw [getD_modify']

/-- data words of a slot change only in the write window of its adder, while the generation is even -/
theorem data_step (c : StepCtx s th i a s' a') (n : Nat) :
    s'.data.getD n [] = s.data.getD n [] ∨
    (n ∈ pcHeld a.ph ∧ E s n % 2 = 0 ∧ ∃ k v, a.ph = .addWr n k v ∧ k < s.width ∧ n < s.data.length ∧
      s'.data.getD n [] = (s.data.getD n []).set k (v.getD k 0)) := by
  rcases eff_data c.st with h | ⟨m, k, v, hph, hk, h⟩
  · rw [h]; exact .inl rfl
  · rw [h, getD_setWord]
    split
    · rename_i h2; obtain ⟨rfl, h2⟩ := h2
      have := c.inv.ph_inv a c.mem
      simp only [phInv, hph] at this
      exact .inr ⟨by simp [hph, pcHeld], this.1, k, v, hph, hk, h2, rfl⟩
    · exact .inl rfl

/-- a slot held by another live thread keeps its data, and its generation moves only from odd -/
theorem other_held (c : StepCtx s th i a s' a') {b : ATh} (hb : b ∈ th) (hne : b.owner ≠ a.owner) (hbd : b.dead = false)
    {n : Nat} (hn : n ∈ pcHeld b.ph) :
    s'.data.getD n [] = s.data.getD n [] ∧ (E s' n = E s n ∨ (E s' n = E s n + 1 ∧ E s n % 2 = 1)) := by
  have hna : n ∉ pcHeld a.ph := by
    intro h
    have := c.inv.excl hb c.mem hbd c.hd (n := n) (by simp [heldL, hn]) (by simp [heldL, h])
    exact hne (this ▸ rfl)
  constructor
  · rcases data_step c n with h | ⟨h, _⟩
    · exact h
    · exact absurd h hna
  · rcases egc_step c n with h | ⟨h1, _, h | h⟩
    · exact .inl h
    · exact absurd h hna
    · exact .inr ⟨h1, h⟩

theorem cl_dead_back (c : StepCtx s th i a s' a') {d n : Nat} (hd : d ∈ s.r.deadOwners) (h : Cl s' n = d) : Cl s n = d := by
  have hde := c.inv.dead_ne d hd
  have hda : a.owner ≠ d := by
    intro e
    have := (c.inv.life a c.mem).1 (e ▸ hd)
    rw [c.hd] at this; cases this
  rcases eff_cells c.st with h1 | ⟨m, _, _, _, hc, h1⟩ | ⟨m, g, _, _, hc, h1⟩ | ⟨d', m, g, hph, _, hc, h1⟩
  · rw [← h1]; exact h
  · rw [h1] at h; split at h
    · exact absurd h hda
    · exact h
  · rw [h1] at h; split at h
    · exact absurd h.symm hde
    · exact h
  · rw [h1] at h; split at h
    · exact absurd h.symm hde
    · exact h

theorem phinv_other (c : StepCtx s th i a s' a') {b : ATh} (hb : b ∈ th) (hne : b.owner ≠ a.owner) : phInv s' b := by
  have hI := c.inv.ph_inv b hb
  obtain ⟨hw, hcap, -⟩ := eff_const c.st
  have mono := eff_egc_mono c.st
  unfold phInv at hI ⊢
  cases hp : b.ph <;> simp only [hp] at hI ⊢ <;> try trivial
  case addCas n g v =>
    have hbd := c.inv.alive hb (by simp [hp])
    obtain ⟨_, h2⟩ := other_held c hb hne hbd (n := n) (by simp [hp, pcHeld])
    refine ⟨hI.1, ?_, hw ▸ hI.2.2⟩
    omega
  case addWr n k v =>
    have hbd := c.inv.alive hb (by simp [hp])
    obtain ⟨h1, h2⟩ := other_held c hb hne hbd (n := n) (by simp [hp, pcHeld])
    refine ⟨by omega, hw ▸ hI.2.1, h1 ▸ hI.2.2⟩
  case addInc n v =>
    have hbd := c.inv.alive hb (by simp [hp])
    obtain ⟨h1, h2⟩ := other_held c hb hne hbd (n := n) (by simp [hp, pcHeld])
    refine ⟨by omega, h1 ▸ hI.2⟩
  case rmRel n g => have := mono n; exact ⟨hI.1, by omega⟩
  case rmTok n g => have := mono n; exact ⟨hI.1, hcap ▸ hI.2.1, by omega⟩
  case rvTok d n g => have := mono n; exact ⟨hI.1, hcap ▸ hI.2.1, by omega⟩
  case rmFin n g => have := mono n; omega
  case rvCopy d n g => have := mono n; exact ⟨hI.1, by omega⟩
  case rvCell d n g =>
    intro h
    have hd := c.inv.rv_dead b hb d (by simp [hp, rvOfAll])
    have := hI (cl_dead_back c hd h)
    have := mono n; omega
  case upCopy j g k =>
    have := mono j
    refine ⟨hcap ▸ hI.1, hI.2.1, by omega, hI.2.2.2.1, fun h => ?_⟩
    have hE : E s j = g := by omega
    rcases data_step c j with h1 | ⟨_, h1, _⟩
    · rw [h1]; exact hI.2.2.2.2 hE
    · omega
  case upVal j g =>
    have := mono j
    refine ⟨hcap ▸ hI.1, hI.2.1, by omega, fun hg h => ?_⟩
    have hE : E s j = g := by omega
    rcases data_step c j with h1 | ⟨_, h1, _⟩
    · rw [h1]; exact hI.2.2.2 hg hE
    · omega

end
end Iox2.C10

/- ---------------------------------------------------------------- part U -/
namespace Iox2.C10
set_option linter.unusedSimpArgs false
set_option linter.unusedVariables false
open Iox2.Sched Iox2.Container
open Iox2.RUIS (EMPTY LOCKG RSh Mode Out)

theorem wordsEq_full {x y : List Nat} {k w : Nat} (h : wordsEq x y k) (hk : ¬ k < w) (hx : x.length = w) (hy : y.length = w) : x = y := by
  apply List.ext_getElem (hx.trans hy.symm)
  intro j h1 h2
  have := h j (by omega)
  simpa [List.getD_eq_getElem?_getD, List.getElem?_eq_getElem h1, List.getElem?_eq_getElem h2] using this

theorem getD_len {l : List (List Nat)} {w n : Nat} (h : ∀ d ∈ l, d.length = w) (hn : n < l.length) : (l.getD n []).length = w := by
  rw [List.getD_eq_getElem?_getD, List.getElem?_eq_getElem hn]; exact h _ (List.getElem_mem hn)

theorem wordsEq_set {x y : List Nat} {k v : Nat} (h : wordsEq x y k) (hk : k < x.length) (hv : v = y.getD k 0) :
    wordsEq (x.set k v) y (k + 1) := by
  intro j hj
  rw [getD_set']
  by_cases e : k = j
  · subst e; simp [hk, hv]
  · simp [e]; exact h j (by omega)

section
variable {s s' : Sh} {th : List ATh} {i : Nat} {a a' : ATh}

/-- a cell owned by the dead owner under recovery holds a published entry: its generation is odd -/
theorem rv_cell_odd (c : StepCtx s th i a s' a') {d n : Nat} (hr : rvOf a.ph = some d) (hc : Cl s n = d) : E s n % 2 = 1 := by
  have hdd := c.inv.rv_dead a c.mem d (rvOf_all hr)
  have hde := c.inv.dead_ne d hdd
  obtain ⟨x, hx, hxo⟩ := c.inv.cell_owner n (hc ▸ hde)
  have := c.inv.no_leak a c.mem d hr x hx (hxo.trans hc) n hc
  exact c.inv.cst_odd x hx n (hxo ▸ rfl) (.inl this)

theorem phinv_self (c : StepCtx s th i a s' a') : phInv s' a' := by
  have hI := c.inv.ph_inv a c.mem
  have hoa := c.inv.own_ne a c.mem
  have hst := c.st
  -- a slot held through the pc is in bounds
  have hbound : ∀ n, n ∈ pcHeld a.ph → n < s.egc.length := by
    intro n hn
    rw [c.inv.len_egc, ← c.inv.len_cells]
    exact Cl_lt (c.inv.held_own a c.mem c.hd n (by simp [heldL, hn])) hoa
  unfold phInv at hI ⊢
  cases hst with
  | rstay r' hr hs ha => subst hs ha; simpa [E, Cl, hr.1, hr.2.1] using hI
  | aLdOdd n v hph hv hg hs ha => subst ha; rw [hs]; simp [hv, hg]
  | aLdEven n v hph hv hg hs ha => subst ha; rw [hs]; simp [hv, wordsEq]; omega
  | aCasOk n g v hph hE hs ha =>
    subst hs ha; simp only [hph] at hI ⊢
    have := hbound n (by simp [hph, pcHeld])
    rw [E_set]; simp [this, wordsEq, hI.2.2]; omega
  | aCasFail n g v hph hE hs ha =>
    subst ha; rw [hs]; simp only [hph] at hI ⊢
    simp [wordsEq, hI.2.2]; omega
  | aWord n k v hph hk hs ha =>
    subst hs ha; simp only [hph] at hI ⊢
    have hn := hbound n (by simp [hph, pcHeld])
    rw [c.inv.len_egc, ← c.inv.len_data] at hn
    refine ⟨hI.1, hI.2.1, ?_⟩
    show wordsEq ((setWord s.data n k (v.getD k 0)).getD n []) v (k + 1)
    rw [getD_setWord, if_pos ⟨rfl, hn⟩]
    exact wordsEq_set hI.2.2 (by rw [getD_len c.inv.wid_data hn]; exact hk) rfl
  | aNorm n k v hph hk hs ha =>
    subst ha; rw [hs]; simp only [hph] at hI ⊢
    have hn := hbound n (by simp [hph, pcHeld])
    rw [c.inv.len_egc, ← c.inv.len_data] at hn
    exact ⟨hI.1, wordsEq_full hI.2.2 hk (getD_len c.inv.wid_data hn) hI.2.1⟩
  | rLd n hph hs ha =>
    subst ha; rw [hs]; simp only []
    have := c.inv.cst_odd a c.mem n (c.inv.held_own a c.mem c.hd n (by simp [heldL, hph, pcHeld])) (.inr (.inl hph))
    exact ⟨this, Nat.le_refl _⟩
  | rRel n g hph hc hs ha =>
    subst hs ha; simp only [hph] at hI ⊢
    have := hbound n (by simp [hph, pcHeld])
    rw [c.inv.len_egc] at this
    exact ⟨hI.1, this, hI.2⟩
  | rCasOk n g hph hE hs ha =>
    subst hs ha; simp only [hph] at hI ⊢
    rw [E_set, if_pos ⟨rfl, by rw [c.inv.len_egc]; exact hI.2.1⟩]; omega
  | rCasFail n g hph hE hs ha => subst ha; rw [hs]; simp only [hph] at hI ⊢; omega
  | uNew j hph hj hne hs ha =>
    subst ha; rw [hs]
    have hlen := (c.inv.snap_shape a c.mem).1
    have hget : (a.snap.egc.set j (E s j)).getD j 0 = E s j := by rw [getD_set']; simp [hlen, hj]
    by_cases hodd : E s j % 2 = 1
    · rw [if_pos hodd]; dsimp only
      exact ⟨hj, hget, Nat.le_refl _, hodd, fun _ j' hj' => by omega⟩
    · rw [if_neg hodd]; dsimp only
      exact ⟨hj, hget, Nat.le_refl _, fun h => absurd h hodd⟩
  | uWord j g k hph hk hs ha =>
    subst ha; rw [hs]; simp only [hph] at hI ⊢
    obtain ⟨h1, h2, h3, h4, h5⟩ := hI
    refine ⟨h1, h2, h3, h4, fun hE => ?_⟩
    have hsn := c.inv.snap_shape a c.mem
    have hj : j < a.snap.data.length := by rw [hsn.2.1]; exact h1
    rw [getD_setWord, if_pos ⟨rfl, hj⟩]
    exact wordsEq_set (h5 hE) (by rw [getD_len hsn.2.2 hj]; exact hk) rfl
  | uNorm j g k hph hk hs ha =>
    subst ha; rw [hs]; simp only [hph] at hI ⊢
    obtain ⟨h1, h2, h3, h4, h5⟩ := hI
    refine ⟨h1, h2, h3, fun _ hE => ?_⟩
    have hsn := c.inv.snap_shape a c.mem
    have hj : j < a.snap.data.length := by rw [hsn.2.1]; exact h1
    have hj' : j < s.data.length := by rw [c.inv.len_data]; exact h1
    exact wordsEq_full (h5 hE) hk (getD_len hsn.2.2 hj) (getD_len c.inv.wid_data hj')
  | vLd d n hph hs ha =>
    subst ha; rw [hs]
    by_cases hodd : E s n % 2 = 1
    · rw [if_pos hodd]; dsimp only; exact ⟨hodd, Nat.le_refl _⟩
    · rw [if_neg hodd]; dsimp only
      intro hc
      exact absurd (rv_cell_odd c (by simp [hph, rvOf]) hc) hodd
  | vVal d n g hph hs ha =>
    subst ha; rw [hs]; simp only [hph] at hI
    by_cases he : E s n = g
    · rw [if_pos he]; dsimp only; intro _; exact ⟨hI.1, by omega⟩
    · rw [if_neg he]
      by_cases hodd : E s n % 2 = 1
      · rw [if_pos hodd]; dsimp only; exact ⟨hodd, Nat.le_refl _⟩
      · rw [if_neg hodd]; dsimp only
        intro hc
        exact absurd (rv_cell_odd c (by simp [hph, rvOf]) hc) hodd
  | vCellOk d n g hph hc hs ha =>
    subst hs ha; simp only [hph] at hI ⊢
    have hd := c.inv.dead_ne d (c.inv.rv_dead a c.mem d (by simp [hph, rvOfAll]))
    have := Cl_lt hc hd
    rw [c.inv.len_cells] at this
    have h2 := hI hc
    exact ⟨h2.1, this, h2.2⟩
  | uNext j hph hj hs ha => subst ha; rw [hs]; trivial
  | uTrue j b1 b2 hph hj hb hs ha => subst hs ha; simp [fin]
  | _ => simp_all [fin]

end
end Iox2.C10

/- ---------------------------------------------------------------- part V -/
namespace Iox2.C10
set_option linter.unusedSimpArgs false
set_option linter.unusedVariables false
open Iox2.Sched Iox2.Container
open Iox2.RUIS (EMPTY LOCKG RSh Mode Out)

section
variable {s s' : Sh} {th : List ATh} {i : Nat} {a a' : ATh}

theorem pres_ph_inv (c : StepCtx s th i a s' a') : ∀ b ∈ th.set i a', phInv s' b := by
  intro b hb
  rcases c.cases hb with rfl | ⟨hb, hne⟩
  · exact phinv_self c
  · exact phinv_other c hb hne

theorem eff_rvDone (h : AStep s a s' a') :
    a'.rvDone = a.rvDone ∨ a'.rvDone = [] ∨
    (∃ d n g, a.ph = .rvTok d n g ∧ a'.rvDone = a.rvDone ++ [(n, g)] ∧ (E s n = g ∨ s'.egc = s.egc) ∧
      (E s n = g → s'.egc = s.egc.set n (g + 1))) := by
  cases h with
  | vHookOk d n g hph hE hs ha => right; right; exact ⟨d, n, g, hph, by simp [ha], .inl hE, fun _ => by simp [hs]⟩
  | vHookFail d n g hph hE hs ha => right; right; exact ⟨d, n, g, hph, by simp [ha], .inr (by simp [hs]), fun h => absurd h hE⟩
  | vFin b1 b2 hph hb hs ha => right; left; simp [ha, fin]
  | _ => left; simp_all [fin]

theorem pres_rvdone_lt (c : StepCtx s th i a s' a') : ∀ b ∈ th.set i a', ∀ x ∈ b.rvDone, x.2 < E s' x.1 := by
  intro b hb x hx
  have mono := eff_egc_mono c.st x.1
  rcases c.cases hb with rfl | ⟨hb, _⟩
  · have old := c.inv.rvdone_lt a c.mem
    rcases eff_rvDone c.st with h | h | ⟨d, n, g, hph, h, h1, h2⟩
    · rw [h] at hx; have := old x hx; omega
    · rw [h] at hx; simp at hx
    · rw [h] at hx
      rcases List.mem_append.mp hx with hx | hx
      · have := old x hx; omega
      · simp at hx; subst hx
        have hI := c.inv.ph_inv a c.mem
        simp only [phInv, hph] at hI
        show g < E s' n
        by_cases e : E s n = g
        · have : E s' n = g + 1 := by
            show s'.egc.getD n 0 = g + 1
            rw [h2 e, getD_set', if_pos ⟨rfl, by rw [c.inv.len_egc]; exact hI.2.1⟩]
          omega
        · have := eff_egc_mono c.st n; omega
  · have := c.inv.rvdone_lt b hb x hx; omega

theorem pres_removed_lt (c : StepCtx s th i a s' a') : ∀ x ∈ s'.removedDone, x.2 < E s' x.1 := by
  intro x hx
  have mono := eff_egc_mono c.st x.1
  rcases eff_removed c.st with h | ⟨_, ⟨n, g, hph, h⟩ | ⟨hph, h⟩⟩
  · rw [h] at hx; have := c.inv.removed_lt x hx; omega
  · rw [h] at hx
    rcases List.mem_append.mp hx with hx | hx
    · have := c.inv.removed_lt x hx; omega
    · simp at hx; subst hx
      have hI := c.inv.ph_inv a c.mem
      simp only [phInv, hph] at hI
      have := eff_egc_mono c.st n
      show g < E s' n
      omega
  · rw [h] at hx
    rcases List.mem_append.mp hx with hx | hx
    · have := c.inv.removed_lt x hx; omega
    · have := c.inv.rvdone_lt a c.mem x hx; omega

end
end Iox2.C10

/- ---------------------------------------------------------------- part W -/
namespace Iox2.C10
set_option linter.unusedSimpArgs false
set_option linter.unusedVariables false
open Iox2.Sched Iox2.Container
open Iox2.RUIS (EMPTY LOCKG RSh Mode Out)

section
variable {s s' : Sh} {th : List ATh} {i : Nat} {a a' : ATh}

theorem step_of_addInc (h : AStep s a s' a') {n : Nat} {v : List Nat} (hph : a.ph = .addInc n v) :
    (s'.egc = s.egc ∧ s'.published = s.published ∧ s'.data = s.data) ∨
    (s'.egc = s.egc.set n (E s n + 1) ∧ s'.published = (s.published.modify n fun l => l ++ [(E s n + 1, v)]) ∧ s'.data = s.data) := by
  cases h <;> simp_all [fin, plainFin]

theorem pub_mono (h : AStep s a s' a') (j : Nat) (p : Nat × List Nat) (hp : p ∈ s.published.getD j []) : p ∈ s'.published.getD j [] := by
  rcases eff_pub h with h1 | ⟨n, v, _, h1⟩ <;> rw [h1]
  · exact hp
  · rw [getD_modify']; split
    · rename_i h2; obtain ⟨rfl, _⟩ := h2; exact List.mem_append_left _ hp
    · exact hp

/-- what happens to slot `j` in one step: nothing that matters, or it is published -/
theorem slot_step (c : StepCtx s th i a s' a') (j : Nat) :
    (s'.published.getD j [] = s.published.getD j [] ∧
      ((E s' j = E s j ∧ (s'.data.getD j [] = s.data.getD j [] ∨ E s j % 2 = 0)) ∨ (E s' j = E s j + 1 ∧ E s j % 2 = 1)))
    ∨ (∃ v, E s j % 2 = 0 ∧ E s' j = E s j + 1 ∧ s'.data.getD j [] = v ∧
        s'.published.getD j [] = s.published.getD j [] ++ [(E s j + 1, v)]) := by
  have hI := c.inv.ph_inv a c.mem
  have pub_same : (∀ v, a.ph ≠ .addInc j v) → s'.published.getD j [] = s.published.getD j [] := by
    intro hne
    rcases eff_pub c.st with h1 | ⟨n, v, hph, h1⟩ <;> rw [h1]
    rw [getD_modify']; split
    · rename_i h2; obtain ⟨rfl, _⟩ := h2; exact absurd hph (hne v)
    · rfl
  rcases eff_egc c.st j with h | ⟨h1, hlt, ⟨v, h⟩ | ⟨v, h⟩ | h⟩
  · -- the generation does not move
    left
    refine ⟨?_, .inl ⟨h, ?_⟩⟩
    · by_cases hinc : ∃ v, a.ph = .addInc j v
      · obtain ⟨v, hph⟩ := hinc
        rcases step_of_addInc c.st hph with ⟨_, h2, _⟩ | ⟨h2, _, _⟩
        · rw [h2]
        · exfalso
          have hlt : j < s.egc.length := by
            rw [c.inv.len_egc, ← c.inv.len_cells]
            exact Cl_lt (c.inv.held_own a c.mem c.hd j (by simp [heldL, hph, pcHeld])) (c.inv.own_ne a c.mem)
          have : E s' j = E s j + 1 := by
            show s'.egc.getD j 0 = _
            rw [h2, getD_set', if_pos ⟨rfl, hlt⟩]
          omega
      · exact pub_same (fun v hv => hinc ⟨v, hv⟩)
    · rcases data_step c j with h2 | ⟨_, h2, _⟩
      · exact .inl h2
      · exact .inr h2
  · left
    simp only [phInv, h] at hI
    exact ⟨pub_same (by simp [h]), .inr ⟨h1, hI.1⟩⟩
  · right
    simp only [phInv, h] at hI
    rcases step_of_addInc c.st h with ⟨h2, _, _⟩ | ⟨_, h3, h4⟩
    · exfalso
      have : E s' j = E s j := by show s'.egc.getD j 0 = s.egc.getD j 0; rw [h2]
      omega
    · refine ⟨v, hI.1, h1, by rw [h4]; exact hI.2, ?_⟩
      rw [h3, getD_modify', if_pos ⟨rfl, by rw [c.inv.len_pub, ← c.inv.len_egc]; exact hlt⟩]
  · left
    have := (tok_inv (c.inv.ph_inv a c.mem) h).1
    exact ⟨pub_same (by intro v hv; simp [hv, tok] at h), .inr ⟨h1, this⟩⟩

theorem pres_pub (c : StepCtx s th i a s' a') :
    (∀ j, E s' j % 2 = 1 → (E s' j, s'.data.getD j []) ∈ s'.published.getD j []) ∧
    (∀ j, ∀ p ∈ s'.published.getD j [], p.1 ≤ E s' j) ∧
    (∀ j, ∀ p ∈ s'.published.getD j [], ∀ q ∈ s'.published.getD j [], p.1 = q.1 → p.2 = q.2) := by
  refine ⟨fun j hodd => ?_, fun j p hp => ?_, fun j p hp q hq hpq => ?_⟩
  · rcases slot_step c j with ⟨h1, ⟨h2, h3⟩ | ⟨h2, h3⟩⟩ | ⟨v, h1, h2, h3, h4⟩
    · rw [h1, h2]; rw [h2] at hodd
      rcases h3 with h3 | h3
      · rw [h3]; exact c.inv.pub_odd j hodd
      · omega
    · omega
    · rw [h4, h2, h3]; simp
  · rcases slot_step c j with ⟨h1, h2⟩ | ⟨v, h1, h2, h3, h4⟩
    · rw [h1] at hp
      have := c.inv.pub_le j p hp
      have := eff_egc_mono c.st j
      omega
    · rw [h4] at hp
      rcases List.mem_append.mp hp with hp | hp
      · have := c.inv.pub_le j p hp; omega
      · simp at hp; subst hp; simp; omega
  · rcases slot_step c j with ⟨h1, h2⟩ | ⟨v, h1, h2, h3, h4⟩
    · rw [h1] at hp hq; exact c.inv.pub_uniq j p hp q hq hpq
    · rw [h4] at hp hq
      rcases List.mem_append.mp hp with hp | hp <;> rcases List.mem_append.mp hq with hq | hq
      · exact c.inv.pub_uniq j p hp q hq hpq
      · simp at hq; subst hq; have := c.inv.pub_le j p hp; simp at hpq; omega
      · simp at hp; subst hp; have := c.inv.pub_le j q hq; simp at hpq; omega
      · simp at hp hq; subst hp hq; rfl

end
end Iox2.C10

/- ---------------------------------------------------------------- part X -/
namespace Iox2.C10
set_option linter.unusedSimpArgs false
set_option linter.unusedVariables false
open Iox2.Sched Iox2.Container
open Iox2.RUIS (EMPTY LOCKG RSh Mode Out)

section
variable {s s' : Sh} {th : List ATh} {i : Nat} {a a' : ATh}

theorem snapOK_mono (h : AStep s a s' a') {sn : Snapshot} {j : Nat} (hk : snapOK s sn j) : snapOK s' sn j :=
  fun ho => pub_mono h j _ (hk ho)

theorem rdInv_mono (h : AStep s a s' a') {b : ATh} (hk : rdInv s b) : rdInv s' b := by
  unfold rdInv at hk ⊢
  split <;> simp_all <;> intro j <;> intros <;> apply snapOK_mono h <;> simp_all

/-- the slot that was just validated is genuine -/
theorem validated_ok (c : StepCtx s th i a s' a') {j : Nat}
    (hph : (a.ph = .upScan j ∧ E s j = a.snap.egc.getD j 0) ∨ a.ph = .upVal j (E s j) ∨
        (∃ g, a.ph = .upVal j g ∧ E s j = a.snap.egc.getD j 0) ∨ (a.ph = .upScan 0 ∧ j = 0 ∧ ¬ 0 < s.r.cap)) :
    ∀ k, snapOK s a.snap k := by
  have hr := c.inv.rd_inv a c.mem
  have hp := c.inv.ph_inv a c.mem
  unfold rdInv at hr; unfold phInv at hp
  have key : ∀ g, a.ph = .upVal j g → E s j = g → ∀ k, snapOK s a.snap k := by
    intro g h hE k
    simp only [h] at hr hp
    by_cases e : k = j
    · subst e
      intro ho
      rw [hp.2.1] at ho ⊢
      rw [hp.2.2.2 ho hE, ← hE]
      exact c.inv.pub_odd k (hE ▸ ho)
    · exact hr k e
  rcases hph with ⟨h, _⟩ | h | ⟨g, h, hE⟩ | ⟨h, _, _⟩
  · simpa [h] using hr
  · exact key _ h rfl
  · have := hp; simp only [h] at this
    exact key g h (hE.trans this.2.1)
  · simpa [h] using hr

theorem snapOK_congr {sn sn' : Snapshot} {j : Nat} (h1 : sn'.egc.getD j 0 = sn.egc.getD j 0) (h2 : sn'.data.getD j [] = sn.data.getD j [])
    (hk : snapOK s sn j) : snapOK s sn' j := by
  unfold snapOK at *; rw [h1, h2]; exact hk

theorem rd_self (c : StepCtx s th i a s' a') : rdInv s a' := by
  have hr := c.inv.rd_inv a c.mem
  have hst := c.st
  cases hst with
  | uNext j hph hj hs ha =>
    subst ha; simp only [rdInv]
    refine validated_ok c (j := j) ?_
    rcases hph with ⟨h, _, h2⟩ | h | h
    · exact .inl ⟨h, h2⟩
    · exact .inr (.inl h)
    · exact .inr (.inr (.inl h))
  | uTrue j b1 b2 hph hj hb hs ha =>
    subst ha; simp only [rdInv, fin]
    exact validated_ok c hph
  | uNew j hph hj hne hs ha =>
    subst ha
    have : ∀ k, k ≠ j → snapOK s { a.snap with egc := a.snap.egc.set j (E s j) } k := by
      intro k hk
      refine snapOK_congr (sn := a.snap) ?_ ?_ ?_
      · simp [getD_set', Ne.symm hk]
      · rfl
      rcases hph with h | ⟨g, h, _⟩ <;> simp only [rdInv, h] at hr
      · exact hr k
      · exact hr k hk
    unfold rdInv
    by_cases hodd : E s j % 2 = 1
    · simp only [hodd, if_true]; exact this
    · simp only [hodd, if_false]; exact this
  | uWord j g k hph hk hs ha =>
    subst ha; simp only [rdInv, hph] at hr ⊢
    intro k' hk'
    refine snapOK_congr (sn := a.snap) ?_ ?_ (hr k' hk')
    · rfl
    · show (setWord a.snap.data j k _).getD k' [] = _
      rw [getD_setWord, if_neg (fun h => hk' h.1.symm)]
  | uNorm j g k hph hk hs ha => subst ha; simpa [rdInv, hph] using hr
  | uLd hph hc hs ha => subst ha; simpa [rdInv, hph, snapOK] using hr
  | vLd d n hph hs ha =>
    subst ha; unfold rdInv at hr ⊢; simp only [hph] at hr
    by_cases hodd : E s n % 2 = 1
    · simp only [hodd, if_true]; exact hr
    · simp only [hodd, if_false]; exact hr
  | vVal d n g hph hs ha =>
    subst ha; unfold rdInv at hr ⊢; simp only [hph] at hr
    by_cases he : E s n = g
    · simp only [he, if_true]; exact hr
    · by_cases hodd : E s n % 2 = 1
      · simp only [he, hodd, if_true, if_false]; exact hr
      · simp only [he, hodd, if_false]; exact hr
  | done r' b1 b2 hr' hb hp hs ha =>
    subst ha
    cases hph : a.ph <;> simp [plainFin, hph] at hp <;> simp_all [rdInv, fin]
  | _ => simp_all [rdInv, fin]

end
end Iox2.C10

/- ---------------------------------------------------------------- part Y -/
namespace Iox2.C10
set_option linter.unusedSimpArgs false
set_option linter.unusedVariables false
open Iox2.Sched Iox2.Container
open Iox2.RUIS (EMPTY LOCKG RSh Mode Out)

theorem doneU_ite (c : Prop) [Decidable c] (p q : Ph) (j : Nat) : doneU (if c then p else q) j = if c then doneU p j else doneU q j := by
  split <;> rfl

section
variable {s s' : Sh} {th : List ATh} {i : Nat} {a a' : ATh}

theorem E_oob (I : AInv s th) {j : Nat} (h : s.r.cap ≤ j) : E s j = 0 := by
  unfold E; rw [List.getD_eq_getElem?_getD, List.getElem?_eq_none (by rw [I.len_egc]; exact h)]; rfl

/-- the refresh loop keeps "all refreshed slots are newer than the removals in `L`" -/
theorem scan_step (c : StepCtx s th i a s' a') (L : List (Nat × Nat)) (hL : ∀ x ∈ L, x.2 < E s x.1) (hsc : scanned L a) :
    scanned L a' := by
  have hst := c.st
  have hlen := (c.inv.snap_shape a c.mem).1
  unfold scanned at hsc ⊢
  cases hst with
  | uNext j hph hj hs ha =>
    subst ha; intro x hx hd
    simp only [doneU] at hd
    rcases hph with ⟨h, _, h2⟩ | h | ⟨g, h, h2⟩
    · by_cases e : x.1 = j
      · have := hL x hx; rw [e] at this ⊢; rw [← h2]; exact this
      · exact hsc x hx (by simp only [h, doneU]; omega)
    · exact hsc x hx (by simp only [h, doneU]; omega)
    · exact hsc x hx (by simp only [h, doneU]; omega)
  | uTrue j b1 b2 hph hj hb hs ha =>
    subst ha; intro x hx _
    simp only [fin]
    have hx2 := hL x hx
    by_cases hc : s.r.cap ≤ x.1
    · rw [E_oob c.inv hc] at hx2; omega
    · have hle : x.1 ≤ j := by omega
      rcases hph with ⟨h, h2⟩ | h | ⟨g, h, h2⟩ | ⟨h, h2, h3⟩
      · by_cases e : x.1 = j
        · rw [e] at hx2 ⊢; rw [← h2]; exact hx2
        · exact hsc x hx (by simp only [h, doneU]; omega)
      · exact hsc x hx (by simp only [h, doneU]; omega)
      · exact hsc x hx (by simp only [h, doneU]; omega)
      · omega
  | uNew j hph hj hne hs ha =>
    subst ha; intro x hx hd
    have hd' : x.1 ≤ j := by
      rw [doneU_ite] at hd; split at hd <;> simpa [doneU] using hd
    simp only [getD_set']
    by_cases e : x.1 = j
    · rw [if_pos ⟨e.symm, by rw [hlen]; exact hj⟩]; rw [← e]; exact hL x hx
    · rw [if_neg (fun h => e h.1.symm)]
      rcases hph with h | ⟨g, h, _⟩
      · exact hsc x hx (by simp only [h, doneU]; omega)
      · exact hsc x hx (by simp only [h, doneU]; omega)
  | uWord j g k hph hk hs ha =>
    subst ha; intro x hx hd
    exact hsc x hx (by simpa [hph, doneU] using hd)
  | uNorm j g k hph hk hs ha =>
    subst ha; intro x hx hd
    exact hsc x hx (by simpa [hph, doneU] using hd)
  | uLd hph hc hs ha => subst ha; intro x hx hd; simp [doneU] at hd
  | vLd d n hph hs ha => subst ha; intro x hx _; exact hsc x hx (by simp [hph, doneU])
  | vVal d n g hph hs ha => subst ha; intro x hx _; exact hsc x hx (by simp [hph, doneU])
  | done r' b1 b2 hr' hb hp hs ha =>
    subst ha; intro x hx _
    cases hph : a.ph <;> simp [plainFin, hph] at hp <;> exact hsc x hx (by simp [hph, doneU])
  | _ => simp_all [fin, doneU]

theorem eff_upBegin (h : AStep s a s' a') : a'.upBegin = a.upBegin ∨ (a.ph = .idle ∧ a'.ph = .upStart ∧ a'.upBegin.1 = s.removedDone) := by
  cases h <;> simp_all [fin]

theorem removed_mono (h : AStep s a s' a') {x : Nat × Nat} (hx : x ∈ s.removedDone) : x ∈ s'.removedDone := by
  rcases eff_removed h with h1 | ⟨_, ⟨n, g, _, h1⟩ | ⟨_, h1⟩⟩ <;> rw [h1] <;> simp [hx]

theorem pres_up_begin (c : StepCtx s th i a s' a') : ∀ b ∈ th.set i a', ∀ x ∈ b.upBegin.1, x ∈ s'.removedDone := by
  intro b hb x hx
  apply removed_mono c.st
  rcases c.cases hb with rfl | ⟨hb, _⟩
  · rcases eff_upBegin c.st with h | ⟨_, _, h⟩
    · rw [h] at hx; exact c.inv.up_begin a c.mem x hx
    · rw [h] at hx; exact hx
  · exact c.inv.up_begin b hb x hx

theorem inUp_ite (c : Prop) [Decidable c] (p q : Ph) : inUp (if c then p else q) = if c then inUp p else inUp q := by
  split <;> rfl

/-- entering the scanning part of a refresh -/
theorem eff_inUp (h : AStep s a s' a') (h1 : inUp a'.ph) (h2 : a'.ph ≠ .upStart) :
    (a.ph = .upStart ∧ a'.ph = .upScan 0) ∨ (inUp a.ph ∧ a.ph ≠ .upStart) := by
  cases h with
  | uNext j hph hj hs ha => right; rcases hph with ⟨h, _⟩ | h | ⟨g, h, _⟩ <;> simp [h, inUp]
  | uTrue j b1 b2 hph hj hb hs ha => simp [ha, fin, inUp] at h1
  | uNew j hph hj hne hs ha => right; rcases hph with h | ⟨g, h, _⟩ <;> simp [h, inUp]
  | vLd d n hph hs ha => simp only [ha, inUp_ite] at h1; split at h1 <;> simp [inUp] at h1
  | vVal d n g hph hs ha => simp only [ha, inUp_ite] at h1; (repeat' split at h1) <;> simp [inUp] at h1
  | _ => simp_all [inUp, fin]

theorem pres_ng (c : StepCtx s th i a s' a') : ∀ b ∈ th.set i a', inUp b.ph → b.ph ≠ .upStart → scanned b.upBegin.1 b := by
  intro b hb h1 h2
  rcases c.cases hb with rfl | ⟨hb, _⟩
  · rcases eff_inUp c.st h1 h2 with ⟨h3, h4⟩ | ⟨h3, h4⟩
    · intro x hx hd; simp [h4, doneU] at hd
    · have hub : b.upBegin = a.upBegin := by
        rcases eff_upBegin c.st with h | ⟨h, _⟩
        · exact h
        · rw [h] at h3; simp [inUp] at h3
      rw [hub]
      exact scan_step c _ (fun x hx => c.inv.removed_lt x (c.inv.up_begin a c.mem x hx)) (c.inv.ng a c.mem h3 h4)
  · exact c.inv.ng b hb h1 h2

theorem eff_snap_change (h : AStep s a s' a') : a'.snap.change = a.snap.change ∨ (a.ph = .upStart ∧ a'.ph = .upScan 0 ∧ a'.snap.change = s.change ∧ s'.change = s.change) := by
  cases h <;> simp_all [fin]

theorem change_mono (h : AStep s a s' a') : s.change ≤ s'.change := by
  rcases eff_change h with h | ⟨h, _⟩ <;> omega

theorem pres_ch_le (c : StepCtx s th i a s' a') : ∀ b ∈ th.set i a', b.snap.change ≤ s'.change := by
  intro b hb
  have := change_mono c.st
  rcases c.cases hb with rfl | ⟨hb, _⟩
  · rcases eff_snap_change c.st with h | ⟨_, _, h, h2⟩
    · rw [h]; have := c.inv.ch_le a c.mem; omega
    · omega
  · have := c.inv.ch_le b hb; omega

theorem pres_ch (c : StepCtx s th i a s' a') : ∀ b ∈ th.set i a', b.snap.change < s'.change ∨ scanned s'.removedDone b := by
  intro b hb
  have hm := change_mono c.st
  -- if the list of completed removals grew, the change counter moved
  rcases eff_removed c.st with hrd | ⟨hch, _⟩
  · rw [hrd]
    rcases c.cases hb with rfl | ⟨hb, _⟩
    · rcases eff_snap_change c.st with h | ⟨_, h4, h, h2⟩
      · rw [h]
        rcases c.inv.ch a c.mem with h3 | h3
        · left; omega
        · right; exact scan_step c _ c.inv.removed_lt h3
      · right; intro x hx hd; simp [h4, doneU] at hd
    · rcases c.inv.ch b hb with h3 | h3
      · left; omega
      · exact .inr h3
  · left
    rcases c.cases hb with rfl | ⟨hb, _⟩
    · rcases eff_snap_change c.st with h | ⟨_, _, _, h2⟩
      · rw [h]; have := c.inv.ch_le a c.mem; omega
      · omega
    · have := c.inv.ch_le b hb; omega

end
end Iox2.C10

/- ---------------------------------------------------------------- part AA -/
namespace Iox2.C10
set_option linter.unusedSimpArgs false
set_option linter.unusedVariables false
open Iox2.Sched Iox2.Container
open Iox2.RUIS (EMPTY LOCKG RSh Mode Out)

theorem filter_set_length {α} (p : α → Bool) (l : List α) (i : Nat) (a a' : α) (h : l[i]? = some a) :
    ((l.set i a').filter p).length + (if p a then 1 else 0) = (l.filter p).length + (if p a' then 1 else 0) := by
  induction l generalizing i with
  | nil => simp at h
  | cons x xs ih =>
    cases i with
    | zero =>
      simp at h; subst h
      simp [List.filter_cons]
      cases p x <;> cases p a' <;> simp <;> omega
    | succ k =>
      simp at h
      have := ih k h
      simp [List.filter_cons]
      cases p x <;> simp <;> omega

theorem filter_two {α} (p : α → Bool) (l : List α) (i j : Nat) (a b : α) (hi : l[i]? = some a) (hj : l[j]? = some b)
    (hij : i ≠ j) (ha : p a = true) (hb : p b = true) : 2 ≤ (l.filter p).length := by
  induction l generalizing i j with
  | nil => simp at hi
  | cons x xs ih =>
    cases i with
    | zero =>
      cases j with
      | zero => exact absurd rfl hij
      | succ j' =>
        simp at hi hj; subst hi
        have : b ∈ xs.filter p := List.mem_filter.mpr ⟨List.mem_of_getElem? hj, hb⟩
        have := List.length_pos_of_mem this
        simp [List.filter_cons, ha]; omega
    | succ i' =>
      cases j with
      | zero =>
        simp at hi hj; subst hj
        have : a ∈ xs.filter p := List.mem_filter.mpr ⟨List.mem_of_getElem? hi, ha⟩
        have := List.length_pos_of_mem this
        simp [List.filter_cons, hb]; omega
      | succ j' =>
        simp at hi hj
        have := ih i' j' hi hj (by omega)
        simp only [List.filter_cons]; split <;> simp <;> omega

section
variable {s s' : Sh} {th : List ATh} {i : Nat} {a a' : ATh}

theorem eff_busy (h : AStep s a s' a') (hact : a.act = true) :
    (a'.act = true ∧ s'.busy = s.busy) ∨ (a'.act = false ∧ s'.busy = s.busy - 1) := by
  cases h with
  | done r' b1 b2 hr hb hp hs ha => cases b2 <;> simp_all [fin]
  | rFin n g b1 b2 hph hb hs ha => cases b2 <;> simp_all [fin]
  | uFalse b1 b2 hph hc hb hs ha => cases b2 <;> simp_all [fin]
  | uTrue j b1 b2 hph hj hb hs ha => cases b2 <;> simp_all [fin]
  | vFin b1 b2 hph hb hs ha => cases b2 <;> simp_all [fin]
  | _ => left; simp_all

theorem pres_busy (c : StepCtx s th i a s' a') : s'.busy = ((th.set i a').filter (·.act)).length := by
  have h := filter_set_length (·.act) th i a a' c.hi
  simp only [c.hact, if_true] at h
  rcases eff_busy c.st c.hact with ⟨h1, h2⟩ | ⟨h1, h2⟩
  · rw [h2, c.inv.busy]; simp only [h1, if_true] at h; omega
  · rw [h2, c.inv.busy]; simp [h1] at h; omega

theorem eff_quiet (h : AStep s a s' a') (h1 : inUp a'.ph) (h2 : a'.upBegin.2 = true) :
    (inUp a.ph ∧ a'.upBegin = a.upBegin) ∨ (a.ph = .idle ∧ s.busy = 1) := by
  cases h with
  | uNext j hph hj hs ha => left; rcases hph with ⟨h, _⟩ | h | ⟨g, h, _⟩ <;> simp [h, inUp, ha]
  | uTrue j b1 b2 hph hj hb hs ha => simp [ha, fin, inUp] at h1
  | uNew j hph hj hne hs ha => left; rcases hph with h | ⟨g, h, _⟩ <;> simp [h, inUp, ha]
  | vLd d n hph hs ha => simp only [ha, inUp_ite] at h1; split at h1 <;> simp [inUp] at h1
  | vVal d n g hph hs ha => simp only [ha, inUp_ite] at h1; (repeat' split at h1) <;> simp [inUp] at h1
  | _ => simp_all [inUp, fin]

theorem pres_fz (c : StepCtx s th i a s' a') :
    ∀ x ∈ th.set i a', ∀ y ∈ th.set i a', x.owner ≠ y.owner → inUp x.ph → x.upBegin.2 = true → y.act = false := by
  intro x hx y hy hne h1 h2
  rcases c.cases hx with rfl | ⟨hx0, hxa⟩
  · rcases c.cases hy with rfl | ⟨hy, hya⟩
    · exact absurd rfl hne
    · rcases eff_quiet c.st h1 h2 with ⟨h3, h4⟩ | ⟨h3, h4⟩
      · exact c.inv.fz a c.mem y hy (Ne.symm hya) h3 (h4 ▸ h2)
      · -- the refresh starts while this thread is the only active one
        cases hact : y.act with
        | false => rfl
        | true =>
          exfalso
          obtain ⟨j, hj⟩ := List.getElem?_of_mem hy
          have hij : i ≠ j := by
            intro e; subst e; rw [c.hi] at hj; cases hj; exact hya rfl
          have := filter_two (·.act) th i j a y c.hi hj hij c.hact hact
          rw [← c.inv.busy] at this; omega
  · rcases c.cases hy with rfl | ⟨hy, hya⟩
    · -- the stepping thread is active, so nobody else is inside a quiet refresh
      have := c.inv.fz x hx0 a c.mem hxa h1 h2
      rw [c.hact] at this; cases this
    · exact c.inv.fz x hx0 y hy hne h1 h2

theorem pres_qc (c : StepCtx s th i a s' a') :
    ∀ b ∈ th.set i a', inUp b.ph → b.ph ≠ .upStart → b.upBegin.2 = true → b.snap.change = s'.change := by
  intro b hb h1 h2 h3
  rcases c.cases hb with rfl | ⟨hb, hba⟩
  · rcases eff_inUp c.st h1 h2 with ⟨h4, h5⟩ | ⟨h4, h5⟩
    · rcases eff_snap_change c.st with h | ⟨_, _, h6, h7⟩
      · exfalso
        have := c.st
        cases this <;> simp_all [fin]
      · rw [h6, h7]
    · have hub : b.upBegin = a.upBegin := by
        rcases eff_quiet c.st h1 h3 with ⟨_, h⟩ | ⟨h, _⟩
        · exact h
        · rw [h] at h4; simp [inUp] at h4
      have hold := c.inv.qc a c.mem h4 h5 (hub ▸ h3)
      have hsc : b.snap.change = a.snap.change := by
        rcases eff_snap_change c.st with h | ⟨h, _⟩
        · exact h
        · exact absurd h h5
      have hch : s'.change = s.change := by
        rcases eff_change c.st with h | ⟨_, ⟨n, h⟩ | ⟨n, g, h⟩ | h⟩
        · exact h
        all_goals (rw [h] at h4; simp [inUp] at h4)
      rw [hsc, hch, hold]
  · have := c.inv.fz b hb a c.mem hba h1 h3
    rw [c.hact] at this; cases this

end
end Iox2.C10

/- ---------------------------------------------------------------- part AB -/
namespace Iox2.C10
set_option linter.unusedSimpArgs false
set_option linter.unusedVariables false
open Iox2.Sched Iox2.Container
open Iox2.RUIS (EMPTY LOCKG RSh Mode Out)

theorem pend_ite (c : Prop) [Decidable c] (p q : Ph) : pend (if c then p else q) = if c then pend p else pend q := by
  split <;> rfl

section
variable {s s' : Sh} {th : List ATh} {i : Nat} {a a' : ATh}

theorem eff_pend (h : AStep s a s' a') (hp : pend a.ph) : pend a'.ph ∨ s'.change = s.change + 1 := by
  cases h with
  | uNext j hph hj hs ha => rcases hph with ⟨h, _⟩ | h | ⟨g, h, _⟩ <;> simp [h, pend] at hp
  | uTrue j b1 b2 hph hj hb hs ha => rcases hph with ⟨h, _⟩ | h | ⟨g, h, _⟩ | ⟨h, _⟩ <;> simp [h, pend] at hp
  | uNew j hph hj hne hs ha => rcases hph with h | ⟨g, h, _⟩ <;> simp [h, pend] at hp
  | vLd d n hph hs ha => left; simp only [ha, pend_ite]; split <;> simp [pend]
  | vVal d n g hph hs ha => left; simp only [ha, pend_ite]; (repeat' split) <;> simp [pend]
  | done r' b1 b2 hr hb hpf hs ha => cases hph : a.ph <;> simp [plainFin, hph] at hpf <;> simp [hph, pend] at hp
  | _ => simp_all [pend, fin]

theorem eff_nopend (h : AStep s a s' a') (hp : ¬ pend a.ph) : s'.egc = s.egc ∧ s'.data = s.data ∧ s'.change = s.change := by
  cases h <;> simp_all [pend, fin]

theorem exactAt_congr {sn : Snapshot} {j : Nat} (h1 : s'.egc = s.egc) (h2 : s'.data = s.data) (h : exactAt s sn j) : exactAt s' sn j := by
  unfold exactAt E at *; rw [h1, h2]; exact h

theorem exInv_congr {b : ATh} (h1 : s'.egc = s.egc) (h2 : s'.data = s.data) (h : exInv s b) : exInv s' b := by
  unfold exInv exactAt E at *; rw [h1, h2]; exact h

theorem exactAt_oob (I : AInv s th) {b : ATh} (hb : b ∈ th) {j : Nat} (h : s.r.cap ≤ j) : exactAt s b.snap j := by
  have h0 := E_oob I h
  refine ⟨?_, by rw [h0]; simp⟩
  rw [h0, List.getD_eq_getElem?_getD, List.getElem?_eq_none (by rw [(I.snap_shape b hb).1]; exact h)]; rfl

/-- the slot that was just validated is exact (when nothing is pending) -/
theorem exact_validated (c : StepCtx s th i a s' a') {j : Nat} (hex : exInv s a)
    (hph : (a.ph = .upScan j ∧ E s j = a.snap.egc.getD j 0) ∨ a.ph = .upVal j (E s j) ∨
        (∃ g, a.ph = .upVal j g ∧ E s j = a.snap.egc.getD j 0)) :
    ∀ k, k ≤ j → exactAt s a.snap k := by
  have hp := c.inv.ph_inv a c.mem
  have hr := c.inv.rd_inv a c.mem
  unfold phInv at hp; unfold exInv at hex; unfold rdInv at hr
  intro k hk
  rcases hph with ⟨h, hE⟩ | h | ⟨g, h, hE⟩
  · simp only [h] at hex hr
    by_cases e : k = j
    · subst e
      refine ⟨hE.symm, fun ho => ?_⟩
      have h1 := hr k (by rw [← hE]; exact ho)
      have h2 := c.inv.pub_odd k ho
      rw [← hE] at h1
      exact c.inv.pub_uniq k _ h1 _ h2 rfl
    · exact hex k (by omega)
  · simp only [h] at hex hp
    by_cases e : k = j
    · subst e; exact ⟨hp.2.1, fun ho => hex.2.2 ho⟩
    · exact hex.1 k (by omega)
  · simp only [h] at hex hp
    by_cases e : k = j
    · subst e; exact ⟨hp.2.1.trans hex.2.1.symm, fun ho => hex.2.2 (hex.2.1 ▸ ho)⟩
    · exact hex.1 k (by omega)

theorem exactAt_snap_congr {sn sn' : Snapshot} {j : Nat} (h1 : sn'.egc.getD j 0 = sn.egc.getD j 0) (h2 : sn'.data.getD j [] = sn.data.getD j [])
    (hk : exactAt s sn j) : exactAt s sn' j := by
  unfold exactAt at *; rw [h1, h2]; exact hk

/-- the refresh loop keeps the refreshed slots exact, as long as nobody else writes -/
theorem ex_self (c : StepCtx s th i a s' a') (hnp : ¬ pend a.ph) (hex : exInv s a) : exInv s a' := by
  have hst := c.st
  have hp := c.inv.ph_inv a c.mem
  cases hst with
  | uLd hph hc hs ha => subst ha; simp only [exInv]; intro j hj; omega
  | uNext j hph hj hs ha =>
    subst ha; simp only [exInv]
    intro k hk
    refine exact_validated c (j := j) hex ?_ k (by omega)
    rcases hph with ⟨h, _, h2⟩ | h | h
    · exact .inl ⟨h, h2⟩
    · exact .inr (.inl h)
    · exact .inr (.inr h)
  | uTrue j b1 b2 hph hj hb hs ha =>
    subst ha; simp only [exInv, fin]
    intro k
    by_cases hc : s.r.cap ≤ k
    · exact exactAt_oob c.inv c.mem hc
    · rcases hph with h | h | h | ⟨_, _, h⟩
      · exact exact_validated c (j := j) hex (.inl h) k (by omega)
      · exact exact_validated c (j := j) hex (.inr (.inl h)) k (by omega)
      · exact exact_validated c (j := j) hex (.inr (.inr h)) k (by omega)
      · omega
  | uNew j hph hj hne hs ha =>
    subst ha
    have hlen := (c.inv.snap_shape a c.mem).1
    have hlt : ∀ k, k < j → exactAt s { a.snap with egc := a.snap.egc.set j (E s j) } k := by
      intro k hk
      refine exactAt_snap_congr (sn := a.snap) ?_ ?_ ?_
      · simp only [getD_set']; rw [if_neg (by omega)]
      · rfl
      · unfold exInv at hex
        rcases hph with h | ⟨g, h, _⟩ <;> simp only [h] at hex
        · exact hex k hk
        · exact hex.1 k hk
    unfold exInv
    by_cases hodd : E s j % 2 = 1
    · rw [if_pos hodd]; dsimp only
      exact ⟨hlt, rfl, fun _ h => by omega⟩
    · rw [if_neg hodd]; dsimp only
      exact ⟨hlt, rfl, fun h => absurd h hodd⟩
  | uWord j g k hph hk hs ha =>
    subst ha
    simp only [exInv, hph, phInv] at hex hp ⊢
    have hsn := c.inv.snap_shape a c.mem
    have hj : j < a.snap.data.length := by rw [hsn.2.1]; exact hp.1
    refine ⟨fun k' hk' => ?_, hex.2.1, ?_⟩
    · refine exactAt_snap_congr (sn := a.snap) rfl ?_ (hex.1 k' hk')
      show (setWord a.snap.data j k _).getD k' [] = _
      rw [getD_setWord, if_neg (by omega)]
    · rw [getD_setWord, if_pos ⟨rfl, hj⟩]
      exact wordsEq_set hex.2.2 (by rw [getD_len hsn.2.2 hj]; exact hk) rfl
  | uNorm j g k hph hk hs ha =>
    subst ha
    simp only [exInv, hph, phInv] at hex hp ⊢
    have hsn := c.inv.snap_shape a c.mem
    have hj : j < a.snap.data.length := by rw [hsn.2.1]; exact hp.1
    have hj' : j < s.data.length := by rw [c.inv.len_data]; exact hp.1
    exact ⟨hex.1, hex.2.1, fun _ => wordsEq_full hex.2.2 hk (getD_len hsn.2.2 hj) (getD_len c.inv.wid_data hj')⟩
  | vLd d n hph hs ha => simp [hph, pend] at hnp
  | vVal d n g hph hs ha => simp [hph, pend] at hnp
  | done r' b1 b2 hr hb hpf hs ha =>
    subst ha
    cases hph : a.ph <;> simp [plainFin, hph] at hpf <;> simp_all [exInv, fin]
  | _ => simp_all [exInv, fin, pend]

end
end Iox2.C10

/- ---------------------------------------------------------------- part AC -/
namespace Iox2.C10
set_option linter.unusedSimpArgs false
set_option linter.unusedVariables false
open Iox2.Sched Iox2.Container
open Iox2.RUIS (EMPTY LOCKG RSh Mode Out)

section
variable {s s' : Sh} {th : List ATh} {i : Nat} {a a' : ATh}

theorem pres_ex (c : StepCtx s th i a s' a') :
    ∀ b ∈ th.set i a', b.snap.change ≠ s'.change ∨ (∃ y ∈ th.set i a', pend y.ph) ∨ exInv s' b := by
  intro b hb
  have hm := change_mono c.st
  by_cases hp : pend a.ph
  · -- the stepping thread has a pending change: it stays pending, or the counter moves
    rcases eff_pend c.st hp with h | h
    · exact .inr (.inl ⟨a', c.mem', h⟩)
    · left
      have : b.snap.change ≤ s.change := by
        rcases c.cases hb with rfl | ⟨hb, _⟩
        · rcases eff_snap_change c.st with h1 | ⟨h1, _⟩
          · rw [h1]; exact c.inv.ch_le a c.mem
          · rw [h1] at hp; simp [pend] at hp
        · exact c.inv.ch_le b hb
      omega
  · obtain ⟨he, hd, hc⟩ := eff_nopend c.st hp
    have keepB : (∃ y ∈ th, pend y.ph) → ∃ y ∈ th.set i a', pend y.ph := by
      rintro ⟨y, hy, hyp⟩
      have : y ≠ a := fun e => hp (e ▸ hyp)
      exact ⟨y, mem_set_other c.hi hy this, hyp⟩
    rcases c.cases hb with rfl | ⟨hb, _⟩
    · rcases eff_snap_change c.st with h1 | ⟨h1, h2, h3, h4⟩
      · rcases c.inv.ex a c.mem with h | h | h
        · left; rw [h1, hc]; exact h
        · exact .inr (.inl (keepB h))
        · exact .inr (.inr (exInv_congr he hd (ex_self c hp h)))
      · right; right
        unfold exInv; rw [h2]; intro j hj; omega
    · rcases c.inv.ex b hb with h | h | h
      · left; rw [hc]; exact h
      · exact .inr (.inl (keepB h))
      · exact .inr (.inr (exInv_congr he hd h))

theorem filterMap_congr' {α β} {f g : α → Option β} {l : List α} (h : ∀ x ∈ l, f x = g x) : l.filterMap f = l.filterMap g := by
  induction l with
  | nil => rfl
  | cons x xs ih =>
    simp only [List.filterMap_cons, h x (by simp)]
    rw [ih (fun y hy => h y (by simp [hy]))]

theorem entries_eq {sn : Snapshot} (hlen : sn.egc.length = s.egc.length) (h : ∀ j, exactAt s sn j) : sn.entries = s.entries := by
  unfold Snapshot.entries Sh.entries
  rw [hlen]
  apply filterMap_congr'
  intro j _
  have := h j
  unfold exactAt E at this
  rw [this.1]
  simp only []
  by_cases ho : s.egc.getD j 0 % 2 = 1
  · rw [if_pos ho, if_pos ho, this.2 ho]
  · rw [if_neg ho, if_neg ho]

theorem eff_updates (h : AStep s a s' a') :
    a'.updates = a.updates ∨
    (a.ph = .upStart ∧ a.snap.change = s.change ∧ a'.updates = a.updates ++ [updRec s a false]) ∨
    (∃ j, ((a.ph = .upScan j ∧ E s j = a.snap.egc.getD j 0) ∨ a.ph = .upVal j (E s j) ∨
        (∃ g, a.ph = .upVal j g ∧ E s j = a.snap.egc.getD j 0) ∨ (a.ph = .upScan 0 ∧ j = 0 ∧ ¬ 0 < s.r.cap)) ∧
      ¬ j + 1 < s.r.cap ∧ a'.updates = a.updates ++ [updRec s a true]) := by
  cases h with
  | uFalse b1 b2 hph hc hb hs ha => right; left; exact ⟨hph, hc, by simp [ha, fin]⟩
  | uTrue j b1 b2 hph hj hb hs ha => right; right; exact ⟨j, hph, hj, by simp [ha, fin]⟩
  | _ => left; simp_all [fin]

/-- nobody but the stepping thread has a pending change when it is inside a quiet refresh -/
theorem quiet_no_pend (c : StepCtx s th i a s' a') (hu : inUp a.ph) (hq : a.upBegin.2 = true) : ¬ ∃ y ∈ th, pend y.ph := by
  rintro ⟨y, hy, hyp⟩
  by_cases e : y.owner = a.owner
  · have := c.inv.eq_of_owner hy c.mem e
    subst this
    cases hph : y.ph <;> simp [hph, inUp, pend] at hu hyp
  · have h1 := c.inv.fz a c.mem y hy (Ne.symm e) hu hq
    have h2 := (c.inv.life y hy).2.2 (by intro h; simp [h, pend] at hyp)
    rw [h1] at h2; cases h2

theorem pres_upd_ok (c : StepCtx s th i a s' a') :
    ∀ b ∈ th.set i a', ∀ u ∈ b.updates, (∀ j, snapOK s' u.snap j) ∧ (∀ x ∈ u.removedAtBegin, x.2 < u.snap.egc.getD x.1 0) ∧
      (u.quiet = true → u.snap.entries = u.sharedAtEnd) := by
  intro b hb u hu
  have lift : ((∀ j, snapOK s u.snap j) ∧ (∀ x ∈ u.removedAtBegin, x.2 < u.snap.egc.getD x.1 0) ∧
      (u.quiet = true → u.snap.entries = u.sharedAtEnd)) → ((∀ j, snapOK s' u.snap j) ∧
      (∀ x ∈ u.removedAtBegin, x.2 < u.snap.egc.getD x.1 0) ∧ (u.quiet = true → u.snap.entries = u.sharedAtEnd)) :=
    fun h => ⟨fun j => snapOK_mono c.st (h.1 j), h.2⟩
  apply lift
  have hlen : a.snap.egc.length = s.egc.length := by rw [(c.inv.snap_shape a c.mem).1, c.inv.len_egc]
  rcases c.cases hb with rfl | ⟨hb, _⟩
  · rcases eff_updates c.st with h | ⟨hph, hc, h⟩ | ⟨j, hph, hj, h⟩
    · rw [h] at hu; exact c.inv.upd_ok a c.mem u hu
    · rw [h] at hu
      rcases List.mem_append.mp hu with hu | hu
      · exact c.inv.upd_ok a c.mem u hu
      · simp at hu; subst hu
        simp only [updRec]
        have hr := c.inv.rd_inv a c.mem
        simp only [rdInv, hph] at hr
        refine ⟨hr, fun x hx => ?_, fun hq => ?_⟩
        · rcases c.inv.ch a c.mem with h1 | h1
          · omega
          · exact h1 x (c.inv.up_begin a c.mem x hx) (by simp [hph, doneU])
        · rcases c.inv.ex a c.mem with h1 | h1 | h1
          · exact absurd hc h1
          · exact absurd h1 (quiet_no_pend c (by simp [hph, inUp]) hq)
          · simp only [exInv, hph] at h1
            exact entries_eq hlen h1
    · rw [h] at hu
      rcases List.mem_append.mp hu with hu | hu
      · exact c.inv.upd_ok a c.mem u hu
      · simp at hu; subst hu
        simp only [updRec]
        have hup : inUp a.ph ∧ a.ph ≠ .upStart := by
          rcases hph with ⟨h, _⟩ | h | ⟨g, h, _⟩ | ⟨h, _⟩ <;> simp [h, inUp]
        refine ⟨validated_ok c hph, fun x hx => ?_, fun hq => ?_⟩
        · -- every slot has been scanned
          have hsc := c.inv.ng a c.mem hup.1 hup.2
          have hx2 := c.inv.removed_lt x (c.inv.up_begin a c.mem x hx)
          by_cases hcap : s.r.cap ≤ x.1
          · rw [E_oob c.inv hcap] at hx2; omega
          · rcases hph with ⟨h, h2⟩ | h | ⟨g, h, h2⟩ | ⟨h, h2, h3⟩
            · by_cases e : x.1 = j
              · rw [e] at hx2 ⊢; rw [← h2]; exact hx2
              · exact hsc x hx (by simp only [h, doneU]; omega)
            · exact hsc x hx (by simp only [h, doneU]; omega)
            · exact hsc x hx (by simp only [h, doneU]; omega)
            · omega
        · have hch := c.inv.qc a c.mem hup.1 hup.2 hq
          rcases c.inv.ex a c.mem with h1 | h1 | h1
          · exact absurd hch h1
          · exact absurd h1 (quiet_no_pend c hup.1 hq)
          · apply entries_eq hlen
            intro k
            by_cases hcap : s.r.cap ≤ k
            · exact exactAt_oob c.inv c.mem hcap
            · rcases hph with h | h | h | ⟨_, _, h⟩
              · exact exact_validated c (j := j) h1 (.inl h) k (by omega)
              · exact exact_validated c (j := j) h1 (.inr (.inl h)) k (by omega)
              · exact exact_validated c (j := j) h1 (.inr (.inr h)) k (by omega)
              · omega
  · exact c.inv.upd_ok b hb u hu

end
end Iox2.C10

/- ---------------------------------------------------------------- part AD -/
namespace Iox2.C10
set_option linter.unusedSimpArgs false
set_option linter.unusedVariables false
open Iox2.Sched Iox2.Container
open Iox2.RUIS (EMPTY LOCKG RSh Mode Out)

section
variable {s s' : Sh} {th : List ATh} {i : Nat} {a a' : ATh}

/-- **the invariant is preserved by every abstract step** -/
theorem inv_step (c : StepCtx s th i a s' a') : AInv s' (th.set i a') := by
  obtain ⟨h1, h2, h3, h4, h5⟩ := pres_shape c
  obtain ⟨h6, h7⟩ := pres_own c
  obtain ⟨h8, h9, h10⟩ := pres_pub c
  exact
    { len_egc := h1, len_data := h2, len_pub := h3, len_cells := h4, wid_data := h5
      snap_shape := pres_snap_shape c
      own_inj := h6, own_ne := h7
      life := pres_life c
      dead_ne := pres_dead_ne c
      cell_owner := pres_cell_owner c
      held_nodup := pres_held_nodup c
      held_own := pres_held_own c
      leak := pres_leak c
      rv_dead := pres_rv_dead c
      no_leak := pres_no_leak c
      cst_odd := pres_cst_odd c
      ph_inv := pres_ph_inv c
      tok_stale := pres_tok_stale c
      rvdone_lt := pres_rvdone_lt c
      removed_lt := pres_removed_lt c
      pub_odd := h8, pub_le := h9, pub_uniq := h10
      rd_inv := fun b hb => by
        rcases c.cases hb with rfl | ⟨hb, _⟩
        · exact rdInv_mono c.st (rd_self c)
        · exact rdInv_mono c.st (c.inv.rd_inv b hb)
      upd_ok := pres_upd_ok c
      up_begin := pres_up_begin c
      ng := pres_ng c
      ch_le := pres_ch_le c
      ch := pres_ch c
      busy := pres_busy c
      fz := pres_fz c
      qc := pres_qc c
      ex := pres_ex c }

end

/-- ... and by every sequence of abstract steps of one thread -/
theorem inv_steps {s s' : Sh} {th : List ATh} {i : Nat} {a a' : ATh} (hI : AInv s th) (hi : th[i]? = some a)
    (h : ASteps s a s' a') : AInv s' (th.set i a') ∧ (th.set i a')[i]? = some a' := by
  have hlt : i < th.length := by
    rcases Nat.lt_or_ge i th.length with h | h
    · exact h
    · rw [List.getElem?_eq_none h] at hi; cases hi
  induction h with
  | refl =>
    have : th.set i a = th := by
      apply List.ext_getElem? ; intro j
      rw [List.getElem?_set]; split
      · rename_i e; subst e; simp [hlt]
        have := List.getElem?_eq_getElem hlt; rw [hi] at this; exact (Option.some.inj this)
      · rfl
    rw [this]; exact ⟨hI, hi⟩
  | tail _ hd ha hst ih =>
    rename_i s1 s2 a1 a2 _
    have := inv_step (s := s1) (s' := s2) (th := th.set i a1) (i := i) (a := a1) (a' := a2) ⟨ih.1, ih.2, hd, ha, hst⟩
    rw [List.set_set] at this
    exact ⟨this, by simp [List.getElem?_set, hlt]⟩

end Iox2.C10

/- ---------------------------------------------------------------- part AE -/
namespace Iox2.C10
set_option linter.unusedSimpArgs false
set_option linter.unusedVariables false
open Iox2.Sched Iox2.Container
open Iox2.RUIS (EMPTY LOCKG RSh Mode Out)

/-- a thread that has not done anything yet -/
structure Fresh (cap w : Nat) (a : ATh) : Prop where
  ph : a.ph = .idle
  mine : a.mine = []
  snap : a.snap = Snapshot.init cap w
  rvDone : a.rvDone = []
  upBegin : a.upBegin = ([], false)
  updates : a.updates = []

theorem getD_replicate {α} (n j : Nat) (x : α) : (List.replicate n x).getD j x = x := by
  rw [List.getD_eq_getElem?_getD, List.getElem?_replicate]; split <;> rfl

theorem ainv_init (cap w : Nat) (s : Sh) (th : List ATh)
    (hcap : s.r.cap = cap) (hw : s.width = w) (hegc : s.egc = List.replicate cap 0)
    (hdata : s.data = List.replicate cap (List.replicate w 0)) (hpub : s.published = List.replicate cap [])
    (hcells : s.r.cells = List.replicate cap EMPTY) (hrm : s.removedDone = []) (hch : s.change = 0)
    (hfresh : ∀ a ∈ th, Fresh cap w a)
    (hinj : ∀ (i j : Nat) (a b : ATh), th[i]? = some a → th[j]? = some b → a.owner = b.owner → i = j)
    (hne : ∀ a ∈ th, a.owner ≠ EMPTY)
    (hlife : ∀ a ∈ th, (a.owner ∈ s.r.deadOwners → a.dead = true) ∧ (a.dead = true → a.act = false))
    (hdne : ∀ d ∈ s.r.deadOwners, d ≠ EMPTY)
    (hbusy : s.busy = (th.filter (·.act)).length) : AInv s th := by
  have hE : ∀ j, E s j = 0 := by intro j; unfold E; rw [hegc]; exact getD_replicate ..
  have hCl : ∀ j, Cl s j = EMPTY := by intro j; unfold Cl; rw [hcells]; exact getD_replicate ..
  have hsnapE : ∀ j, (Snapshot.init cap w).egc.getD j 0 = 0 := by intro j; exact getD_replicate ..
  have hpubE : ∀ j, s.published.getD j [] = [] := by intro j; rw [hpub]; exact getD_replicate ..
  have hex : ∀ j, exactAt s (Snapshot.init cap w) j := by
    intro j; refine ⟨by rw [hsnapE, hE], fun h => by rw [hE] at h; simp at h⟩
  refine
    { len_egc := by rw [hegc, hcap]; simp
      len_data := by rw [hdata, hcap]; simp
      len_pub := by rw [hpub, hcap]; simp
      len_cells := by rw [hcells, hcap]; simp
      wid_data := by rw [hdata, hw]; intro d hd; rw [List.eq_of_mem_replicate hd]; simp
      snap_shape := fun a ha => by
        rw [(hfresh a ha).snap, hcap, hw]
        refine ⟨by simp [Snapshot.init], by simp [Snapshot.init], fun d hd => ?_⟩
        simp only [Snapshot.init] at hd
        rw [List.eq_of_mem_replicate hd]; simp
      own_inj := hinj, own_ne := hne
      life := fun a ha => ⟨(hlife a ha).1, fun h => ⟨(hfresh a ha).ph, (hlife a ha).2 h⟩, fun h => absurd (hfresh a ha).ph h⟩
      dead_ne := hdne
      cell_owner := fun n h => absurd (hCl n) h
      held_nodup := fun a ha => by simp [heldL, (hfresh a ha).ph, pcHeld, mineIdx, (hfresh a ha).mine]
      held_own := fun a ha _ n hn => by simp [heldL, (hfresh a ha).ph, pcHeld, mineIdx, (hfresh a ha).mine] at hn
      leak := fun a ha n hn => by rw [hCl] at hn; exact absurd hn.symm (hne a ha)
      rv_dead := fun a ha d h => by simp [(hfresh a ha).ph, rvOfAll] at h
      no_leak := fun a ha d h => by simp [(hfresh a ha).ph, rvOf] at h
      cst_odd := fun a ha n hn => by rw [hCl] at hn; exact absurd hn.symm (hne a ha)
      ph_inv := fun a ha => by simp [phInv, (hfresh a ha).ph]
      tok_stale := fun a ha n g h => by simp [(hfresh a ha).ph, tok] at h
      rvdone_lt := fun a ha x hx => by simp [(hfresh a ha).rvDone] at hx
      removed_lt := fun x hx => by simp [hrm] at hx
      pub_odd := fun j h => by rw [hE] at h; simp at h
      pub_le := fun j p hp => by rw [hpubE] at hp; simp at hp
      pub_uniq := fun j p hp => by rw [hpubE] at hp; simp at hp
      rd_inv := fun a ha => by
        simp only [rdInv, (hfresh a ha).ph, (hfresh a ha).snap]
        intro j h; rw [hsnapE] at h; simp at h
      upd_ok := fun a ha u hu => by simp [(hfresh a ha).updates] at hu
      up_begin := fun a ha x hx => by simp [(hfresh a ha).upBegin] at hx
      ng := fun a ha h => by simp [(hfresh a ha).ph, inUp] at h
      ch_le := fun a ha => by simp [(hfresh a ha).snap, Snapshot.init]
      ch := fun a ha => .inr (by intro x hx; simp [hrm] at hx)
      busy := hbusy
      fz := fun a ha b hb _ h => by simp [(hfresh a ha).ph, inUp] at h
      qc := fun a ha h => by simp [(hfresh a ha).ph, inUp] at h
      ex := fun a ha => .inr (.inr (by simp only [exInv, (hfresh a ha).ph, (hfresh a ha).snap]; exact hex)) }

end Iox2.C10

/- ---------------------------------------------------------------- part AF -/
namespace Iox2.C10
set_option linter.unusedSimpArgs false
set_option linter.unusedVariables false
open Iox2.Sched Iox2.Container
open Iox2.RUIS (EMPTY LOCKG RSh Mode Out)

/-! ## the initial configuration -/
def diesT (t : Th) : Bool := match nextCmd t t.todo with | some (.die, _) => true | _ => false
def settledT (t : Th) : Th := match nextCmd t t.todo with | some (.die, _) => { t with dead := true, todo := [] } | _ => t

theorem settle_eq (s : Sh) (t : Th) :
    settle s t = (if diesT t then { s with r := { s.r with deadOwners := t.owner :: s.r.deadOwners } } else s, settledT t) := by
  unfold settle diesT settledT
  split <;> simp_all

def foldF (c : Cfg Sh Th) (t : Th) : Cfg Sh Th := let (sh, t') := settle c.sh t; { sh := sh, th := c.th ++ [t'] }

theorem fold_spec (ths : List Th) (c0 : Cfg Sh Th) :
    (ths.foldl foldF c0).th = c0.th ++ ths.map settledT ∧
    (∃ D, (ths.foldl foldF c0).sh = { c0.sh with r := { c0.sh.r with deadOwners := D } } ∧
      ∀ d, d ∈ D ↔ d ∈ c0.sh.r.deadOwners ∨ ∃ t ∈ ths, diesT t = true ∧ t.owner = d) := by
  induction ths generalizing c0 with
  | nil => exact ⟨by simp, c0.sh.r.deadOwners, rfl, by simp⟩
  | cons t ts ih =>
    simp only [List.foldl_cons]
    obtain ⟨h1, D, h2, h3⟩ := ih (foldF c0 t)
    have hf : foldF c0 t = { sh := (if diesT t then { c0.sh with r := { c0.sh.r with deadOwners := t.owner :: c0.sh.r.deadOwners } } else c0.sh),
                             th := c0.th ++ [settledT t] } := by
      unfold foldF; rw [settle_eq]
    refine ⟨by rw [h1, hf]; simp, D, ?_, ?_⟩
    · rw [h2, hf]; split <;> rfl
    · intro d; rw [h3, hf]
      by_cases hd : diesT t = true
      · simp [hd]
        constructor
        · rintro ((rfl | h) | h)
          · exact .inr (.inl rfl)
          · exact .inl h
          · exact .inr (.inr h)
        · rintro (h | rfl | h)
          · exact .inl (.inr h)
          · exact .inl (.inl rfl)
          · exact .inr h
      · simp [hd]

theorem zip_map_fst {α β} (l1 : List α) (l2 : List β) (h : l1.length = l2.length) : (l1.zip l2).map Prod.fst = l1 := by
  induction l1 generalizing l2 with
  | nil => simp
  | cons x xs ih =>
    cases l2 with
    | nil => simp at h
    | cons y ys => simp at h; simp [ih ys h]

theorem nodup_inj {α} {l : List α} (f : α → Nat) (h : (l.map f).Nodup) (i j : Nat) (a b : α) (hi : l[i]? = some a) (hj : l[j]? = some b)
    (hab : f a = f b) : i = j := by
  have hi' : (l.map f)[i]? = some (f a) := by simp [hi]
  have hj' : (l.map f)[j]? = some (f b) := by simp [hj]
  obtain ⟨h1, e1⟩ := List.getElem?_eq_some_iff.mp hi'
  exact (List.getElem?_inj h1 h).mp (by rw [hi', hj', hab])

/-- what holds of every configuration of the model: well-formed pcs and the abstract invariant -/
def CInv (c : Cfg Sh Th) : Prop := (∀ t ∈ c.th, ThWf c.sh t) ∧ AInv c.sh (c.th.map abs)

theorem cinv_init (cap width : Nat) (owners : List Nat) (progs : List (List Cmd)) (hwf : WF width owners progs) :
    CInv (mkCfg cap width owners progs) := by
  obtain ⟨hnd, hne, hlen, hadd⟩ := hwf
  let ths := (owners.zip progs).map fun (o, p) => Th.init o cap width p
  have hmk : mkCfg cap width owners progs =
      { sh := { (ths.foldl foldF { sh := Sh.init cap width, th := [] }).sh with
                busy := ((ths.foldl foldF { sh := Sh.init cap width, th := [] }).th.filter fun t => !t.dead && (nextCmd t t.todo).isSome).length },
        th := (ths.foldl foldF { sh := Sh.init cap width, th := [] }).th } := rfl
  obtain ⟨hth, D, hsh, hD⟩ := fold_spec ths { sh := Sh.init cap width, th := [] }
  have howners : ths.map (·.owner) = owners := by
    have : ths.map (·.owner) = (owners.zip progs).map Prod.fst := by
      simp only [ths, List.map_map]; apply List.map_congr_left; intro x _; rfl
    rw [this, zip_map_fst _ _ hlen]
  have hinit : ∀ t ∈ ths, t.pc = none ∧ t.gate = none ∧ t.mine = [] ∧ t.snap = Snapshot.init cap width ∧ t.dead = false ∧
      t.rvDone = [] ∧ t.upBegin = ([], false) ∧ t.updates = [] ∧ t.owner ∈ owners ∧ ∀ v, Cmd.add v ∈ t.todo → v.length = width := by
    intro t ht
    simp only [ths, List.mem_map] at ht
    obtain ⟨⟨o, p⟩, hop, rfl⟩ := ht
    have := List.of_mem_zip hop
    exact ⟨rfl, rfl, rfl, rfl, rfl, rfl, rfl, rfl, this.1, fun v hv => hadd p this.2 v hv⟩
  have hset : ∀ t, (settledT t).owner = t.owner ∧ (settledT t).pc = t.pc ∧ (settledT t).gate = t.gate ∧ (settledT t).mine = t.mine ∧
      (settledT t).snap = t.snap ∧ (settledT t).rvDone = t.rvDone ∧ (settledT t).upBegin = t.upBegin ∧ (settledT t).updates = t.updates ∧
      ((settledT t).dead = (t.dead || diesT t)) ∧ (∀ x ∈ (settledT t).todo, x ∈ t.todo) := by
    intro t; unfold settledT diesT; split <;> simp
  simp only [List.nil_append] at hth
  rw [hmk]
  constructor
  · -- well-formed threads
    intro t ht
    simp only [hth, List.mem_map] at ht
    obtain ⟨t0, ht0, rfl⟩ := ht
    have h0 := hinit t0 ht0
    have h1 := hset t0
    refine ⟨fun v hv => ?_, fun pc hpc => ?_, fun _ => ⟨by rw [h1.2.1]; exact h0.1, by rw [h1.2.2.1]; exact h0.2.1⟩⟩
    · have := h0.2.2.2.2.2.2.2.2.2 v (h1.2.2.2.2.2.2.2.2.2 _ hv)
      rw [hsh]; simpa [Sh.init] using this
    · rw [h1.2.1, h0.1] at hpc; cases hpc
  · -- the abstract invariant
    simp only [hth, hsh]
    apply ainv_init cap width
    · simp [Sh.init, RUIS.RSh.init]
    · simp [Sh.init]
    · simp [Sh.init]
    · simp [Sh.init]
    · simp [Sh.init]
    · simp [Sh.init, RUIS.RSh.init]
    · simp [Sh.init]
    · simp [Sh.init]
    · intro a ha
      simp only [List.mem_map] at ha
      obtain ⟨t, ⟨t0, ht0, rfl⟩, rfl⟩ := ha
      have h0 := hinit t0 ht0
      have h1 := hset t0
      exact ⟨by simp [abs, phase, h1.2.1, h1.2.2.1, h0.1, h0.2.1], by simp [abs, h1.2.2.2.1, h0.2.2.1],
        by simp [abs, h1.2.2.2.2.1, h0.2.2.2.1], by simp [abs, h1.2.2.2.2.2.1, h0.2.2.2.2.2.1],
        by simp [abs, h1.2.2.2.2.2.2.1, h0.2.2.2.2.2.2.1], by simp [abs, h1.2.2.2.2.2.2.2.1, h0.2.2.2.2.2.2.2.1]⟩
    · -- owners are pairwise different
      have hnd' : (((ths.map settledT).map abs).map (fun a : ATh => a.owner)).Nodup := by
        have : ((ths.map settledT).map abs).map (fun a : ATh => a.owner) = ths.map (·.owner) := by
          simp only [List.map_map]; apply List.map_congr_left; intro t _; simp [abs, (hset t).1]
        rw [this, howners]; exact hnd
      exact nodup_inj (fun a : ATh => a.owner) hnd'
    · intro a ha
      simp only [List.mem_map] at ha
      obtain ⟨t, ⟨t0, ht0, rfl⟩, rfl⟩ := ha
      simp only [abs, (hset t0).1]
      exact hne _ (hinit t0 ht0).2.2.2.2.2.2.2.2.1
    · -- dead owners are dead
      intro a ha
      simp only [List.mem_map] at ha
      obtain ⟨t, ⟨t0, ht0, rfl⟩, rfl⟩ := ha
      have h1 := hset t0
      constructor
      · intro hd
        simp only [abs, h1.1] at hd ⊢
        rw [hD] at hd
        rcases hd with hd | ⟨t1, ht1, hdie, ho⟩
        · simp [Sh.init, RUIS.RSh.init] at hd
        · have : t1 = t0 := by
            obtain ⟨i, hi⟩ := List.getElem?_of_mem ht1
            obtain ⟨j, hj⟩ := List.getElem?_of_mem ht0
            have := nodup_inj (·.owner) (howners ▸ hnd) i j t1 t0 hi hj ho
            subst this; rw [hi] at hj; exact Option.some.inj hj
          subst this
          rw [h1.2.2.2.2.2.2.2.2.1, hdie]; simp
      · intro hd
        simp only [abs] at hd ⊢
        simp [isActive, hd]
    · intro d hd
      rw [hD] at hd
      rcases hd with hd | ⟨t1, ht1, _, rfl⟩
      · simp [Sh.init, RUIS.RSh.init] at hd
      · exact hne _ (hinit t1 ht1).2.2.2.2.2.2.2.2.1
    · -- the busy counter
      simp only [List.filter_map, List.length_map]
      congr 1
      apply List.filter_congr
      intro t0 ht0
      have h0 := hinit t0 ht0
      have h1 := hset t0
      simp [abs, isActive, h1.2.1, h1.2.2.1, h0.1, h0.2.1]

end Iox2.C10

/- ---------------------------------------------------------------- part AG -/
namespace Iox2.C10
set_option linter.unusedSimpArgs false
set_option linter.unusedVariables false
open Iox2.Sched Iox2.Container
open Iox2.RUIS (EMPTY LOCKG RSh Mode Out)

theorem asteps_const {s s' : Sh} {a a' : ATh} (h : ASteps s a s' a') : s'.width = s.width ∧ s'.r.cap = s.r.cap := by
  induction h with
  | refl => exact ⟨rfl, rfl⟩
  | tail _ _ _ hst ih => have := eff_const hst; exact ⟨this.1.trans ih.1, this.2.1.trans ih.2⟩

theorem cinv_step {c c' : Cfg Sh Th} {i : Nat} {evs : List Ev} (hI : CInv c) (hs : sys.stepAt c i = some (c', evs)) : CInv c' := by
  obtain ⟨t, sh', t', hi, hst, rfl⟩ := stepAt_some hs
  have hwt := hI.1 t (List.mem_of_getElem? hi)
  obtain ⟨hd, hact, hsteps, hwt'⟩ := step_refines hwt hst
  have hc := asteps_const hsteps
  have hi' : (c.th.map abs)[i]? = some (abs t) := by simp [hi]
  constructor
  · intro u hu
    obtain ⟨j, hj⟩ := List.getElem?_of_mem hu
    simp only [List.getElem?_set] at hj
    split at hj
    · split at hj
      · cases hj; exact hwt'
      · cases hj
    · exact thwf_sh (hI.1 u (List.mem_of_getElem? hj)) hc.1 hc.2
  · have := (inv_steps hI.2 hi' hsteps).1
    simpa [List.map_set] using this

theorem cinv_reach {cap width : Nat} {owners : List Nat} {progs : List (List Cmd)} (hwf : WF width owners progs)
    {c : Cfg Sh Th} (h : Reachable sys (mkCfg cap width owners progs) c) : CInv c :=
  Reachable.inv CInv (cinv_init cap width owners progs hwf) (fun _ _ _ _ hI hs => cinv_step hI hs) c h

end Iox2.C10

/- ---------------------------------------------------------------- part AH -/
namespace Iox2.C10
set_option linter.unusedSimpArgs false
set_option linter.unusedVariables false
open Iox2.Sched Iox2.Container
open Iox2.RUIS (EMPTY LOCKG RSh Mode Out)

theorem entries_mem {sn : Snapshot} {e : Nat × Nat × List Nat} (h : e ∈ sn.entries) :
    e = (e.1, sn.egc.getD e.1 0, sn.data.getD e.1 []) ∧ sn.egc.getD e.1 0 % 2 = 1 := by
  unfold Snapshot.entries at h
  simp only [List.mem_filterMap] at h
  obtain ⟨j, _, hj⟩ := h
  split at hj
  · rename_i ho; cases hj; exact ⟨rfl, ho⟩
  · cases hj

variable (cap width : Nat) (owners : List Nat) (progs : List (List Cmd))

theorem upd_facts (hwf : WF width owners progs) (c : Cfg Sh Th)
    (h : Reachable sys (mkCfg cap width owners progs) c)
    (t : Th) (ht : t ∈ c.th) (u : UpdateRec) (hu : u ∈ t.updates) :
    (∀ j, snapOK c.sh u.snap j) ∧ (∀ x ∈ u.removedAtBegin, x.2 < u.snap.egc.getD x.1 0) ∧
      (u.quiet = true → u.snap.entries = u.sharedAtEnd) :=
  (cinv_reach hwf h).2.upd_ok (abs t) (List.mem_map_of_mem ht) u hu

/-- **never torn, never invented** -/
theorem thm_snapshot_entries_genuine (hwf : WF width owners progs) (c : Cfg Sh Th)
    (h : Reachable sys (mkCfg cap width owners progs) c)
    (t : Th) (ht : t ∈ c.th) (u : UpdateRec) (hu : u ∈ t.updates) (e : Nat × Nat × List Nat) (he : e ∈ u.snap.entries) :
    (e.2.1, e.2.2) ∈ c.sh.published.getD e.1 [] := by
  obtain ⟨h1, -, -⟩ := upd_facts cap width owners progs hwf c h t ht u hu
  obtain ⟨h2, h3⟩ := entries_mem he
  have := h1 e.1 h3
  rw [h2]; exact this

/-- **never ghost** -/
theorem thm_snapshot_no_ghost (hwf : WF width owners progs) (c : Cfg Sh Th)
    (h : Reachable sys (mkCfg cap width owners progs) c)
    (t : Th) (ht : t ∈ c.th) (u : UpdateRec) (hu : u ∈ t.updates) (r : Nat × Nat) (hr : r ∈ u.removedAtBegin) (v : List Nat) :
    (r.1, r.2, v) ∉ u.snap.entries := by
  obtain ⟨-, h1, -⟩ := upd_facts cap width owners progs hwf c h t ht u hu
  intro he
  obtain ⟨h2, _⟩ := entries_mem he
  have := h1 r hr
  simp only [Prod.mk.injEq] at h2
  omega

/-- **eventually exact** -/
theorem thm_snapshot_eventually_exact (hwf : WF width owners progs) (c : Cfg Sh Th)
    (h : Reachable sys (mkCfg cap width owners progs) c)
    (t : Th) (ht : t ∈ c.th) (u : UpdateRec) (hu : u ∈ t.updates) (hq : u.quiet = true) :
    u.snap.entries = u.sharedAtEnd :=
  (upd_facts cap width owners progs hwf c h t ht u hu).2.2 hq

end Iox2.C10

/- ---------------------------------------------------------------- part AI -/
namespace Iox2.C10
set_option linter.unusedSimpArgs false
set_option linter.unusedVariables false
open Iox2.Sched Iox2.Container
open Iox2.RUIS (EMPTY LOCKG RSh Mode Out)

/-! ## step-local facts (no invariant needed) -/

theorem stepOp_no_ret (r : RSh) (p : RUIS.PC) (x : String) : Ev.ret x ∉ (RUIS.stepOp r p).evs := by
  cases p <;> simp [RUIS.stepOp, RUIS.finishInc, RUIS.finishBg, RUIS.finishLock, RUIS.bgAfterScan] <;>
    (repeat' split) <;> simp

def errRets : List String := ["add err:IsLocked", "add err:OutOfSpace", "remove err:NotOwned", "internal-error"]

theorem finish_facts (s : Sh) (t : Th) (evs : List Ev) (ret : String) :
    (finish s t evs ret).1.egc = s.egc ∧ (finish s t evs ret).1.change = s.change ∧
    (finish s t evs ret).2.1.mine = t.mine ∧ (finish s t evs ret).2.1.pc = none ∧
    (finish s t evs ret).2.2 = evs ++ [.ret ret] ∧ (finish s t evs ret).2.1.snap = t.snap := by
  unfold finish settle retire
  simp only
  split <;> simp <;> split <;> simp

theorem stepIx_facts (s : Sh) (t : Th) (p : RUIS.PC) (c : Ctx) :
    (stepIx s t p c).1.egc = s.egc ∧ (stepIx s t p c).1.change = s.change ∧ (stepIx s t p c).2.1.mine = t.mine ∧
    (∀ n, (stepIx s t p c).2.1.pc ≠ some (.addIncChange n)) ∧
    (∀ x, Ev.ret x ∈ (stepIx s t p c).2.2 → x ∈ errRets) := by
  have hnr := stepOp_no_ret s.r p
  unfold stepIx
  generalize RUIS.stepOp s.r p = o at hnr
  simp only []
  have hfin : ∀ (s1 : Sh) (msg : String), s1.egc = s.egc → s1.change = s.change → msg ∈ errRets →
      (finish s1 t o.evs msg).1.egc = s.egc ∧ (finish s1 t o.evs msg).1.change = s.change ∧ (finish s1 t o.evs msg).2.1.mine = t.mine ∧
      (∀ n, (finish s1 t o.evs msg).2.1.pc ≠ some (.addIncChange n)) ∧
      (∀ x, Ev.ret x ∈ (finish s1 t o.evs msg).2.2 → x ∈ errRets) := by
    intro s1 msg h1 h2 h3
    obtain ⟨f1, f2, f3, f4, f5, _⟩ := finish_facts s1 t o.evs msg
    refine ⟨f1.trans h1, f2.trans h2, f3, by simp [f4], fun x hx => ?_⟩
    rw [f5] at hx
    simp at hx
    rcases hx with hx | hx
    · exact absurd hx (hnr x)
    · rw [hx]; exact h3
  repeat' split
  all_goals first
    | exact hfin _ _ rfl rfl (by simp [errRets])
    | exact ⟨rfl, rfl, rfl, by simp, fun x hx => absurd hx (hnr x)⟩

end Iox2.C10

/- ---------------------------------------------------------------- part AJ -/
namespace Iox2.C10
set_option linter.unusedSimpArgs false
set_option linter.unusedVariables false
open Iox2.Sched Iox2.Container
open Iox2.RUIS (EMPTY LOCKG RSh Mode Out)

theorem getD_set_mono (l : List Nat) (n v : Nat) (h : l.getD n 0 ≤ v) (k : Nat) : l.getD k 0 ≤ (l.set n v).getD k 0 := by
  rw [getD_set']; split
  · rename_i h2; rw [← h2.1]; exact h
  · exact Nat.le_refl _

/-- the returns a step can report -/
def RetOK (s : Sh) (t : Th) (q : PC) (x : String) : Prop :=
  x ∈ errRets ∨ (∃ idx, q = .addRetCell idx ∧ x = s!"add ok:{idx}") ∨ (q = .upLdChange ∧ x = "update false" ∧ t.snap.change = s.change) ∨
  (∃ l, x = s!"remove {lockedStr l}") ∨ (∃ sn, x = s!"update true {showSnap sn}") ∨ (∃ l, x = s!"recover {lockedStr l}")

theorem stepPC_mono (s : Sh) (t : Th) (q : PC) :
    s.change ≤ (stepPC s t q).1.change ∧ ∀ k, s.egc.getD k 0 ≤ (stepPC s t q).1.egc.getD k 0 := by
  cases q with
  | ix p c => have := stepIx_facts s t p c; simp only [stepPC]; rw [this.1, this.2.1]; exact ⟨Nat.le_refl _, fun _ => Nat.le_refl _⟩
  | addCasEgc idx g v =>
    simp only [stepPC]; split
    · rename_i h; exact ⟨Nat.le_refl _, getD_set_mono _ _ _ (by omega)⟩
    · exact ⟨Nat.le_refl _, fun _ => Nat.le_refl _⟩
  | addIncEgc idx v => exact ⟨Nat.le_refl _, getD_set_mono _ _ _ (by omega)⟩
  | rmCasEgc g idx l =>
    simp only [stepPC]; split
    · rename_i h; exact ⟨Nat.le_refl _, getD_set_mono _ _ _ (by omega)⟩
    · exact ⟨Nat.le_refl _, fun _ => Nat.le_refl _⟩
  | rvHookCas p d m n g =>
    simp only [stepPC]; split
    · rename_i h; exact ⟨Nat.le_refl _, getD_set_mono _ _ _ (by omega)⟩
    · exact ⟨Nat.le_refl _, fun _ => Nat.le_refl _⟩
  | addRetCell idx => have := finish_facts s t [.cell (dataVar idx)] s!"add ok:{idx}"; simp only [stepPC]; rw [this.1, this.2.1]; exact ⟨Nat.le_refl _, fun _ => Nat.le_refl _⟩
  | rmIncChange g idx l =>
    simp only [stepPC]
    have := finish_facts { s with change := s.change + 1, removedDone := s.removedDone ++ [(idx, g)] } t
      [.rmw "fadd" "change" .rel s.change (s.change + 1)] s!"remove {lockedStr l}"
    rw [this.1, this.2.1]; exact ⟨by simp, fun _ => Nat.le_refl _⟩
  | rvIncChange l =>
    simp only [stepPC]
    have := finish_facts { s with change := s.change + 1, removedDone := s.removedDone ++ t.rvDone } { t with rvDone := [] }
      [.rmw "fadd" "change" .rel s.change (s.change + 1)] s!"recover {lockedStr l}"
    rw [this.1, this.2.1]; exact ⟨by simp, fun _ => Nat.le_refl _⟩
  | upLdChange =>
    simp only [stepPC]; split
    · have := finish_facts s { t with updates := t.updates ++ [{ result := false, snap := t.snap, removedAtBegin := t.upBegin.1, quiet := t.upBegin.2, sharedAtEnd := s.entries }] }
        [.load "change" .acq s.change] "update false"
      rw [this.1, this.2.1]; exact ⟨Nat.le_refl _, fun _ => Nat.le_refl _⟩
    · exact ⟨Nat.le_refl _, fun _ => Nat.le_refl _⟩
  | upEdist =>
    simp only [stepPC]; split
    · exact ⟨Nat.le_refl _, fun _ => Nat.le_refl _⟩
    · rw [(finish_facts ..).1, (finish_facts ..).2.1]; exact ⟨Nat.le_refl _, fun _ => Nat.le_refl _⟩
  | upLdEgc i =>
    simp only [stepPC, stepPC.upAfterGen, stepPC.upNext]
    repeat' split
    all_goals first
      | exact ⟨Nat.le_refl _, fun _ => Nat.le_refl _⟩
      | (rw [(finish_facts ..).1, (finish_facts ..).2.1]; exact ⟨Nat.le_refl _, fun _ => Nat.le_refl _⟩)
  | upCas i g =>
    simp only [stepPC, stepPC.upAfterGen, stepPC.upNext]
    repeat' split
    all_goals first
      | exact ⟨Nat.le_refl _, fun _ => Nat.le_refl _⟩
      | (rw [(finish_facts ..).1, (finish_facts ..).2.1]; exact ⟨Nat.le_refl _, fun _ => Nat.le_refl _⟩)
  | addIncChange idx => exact ⟨by simp [stepPC], fun _ => Nat.le_refl _⟩
  | _ =>
    simp only [stepPC]
    repeat' split
    all_goals exact ⟨Nat.le_refl _, fun _ => Nat.le_refl _⟩

end Iox2.C10

/- ---------------------------------------------------------------- part AK -/
namespace Iox2.C10
set_option linter.unusedSimpArgs false
set_option linter.unusedVariables false
open Iox2.Sched Iox2.Container
open Iox2.RUIS (EMPTY LOCKG RSh Mode Out)

theorem stepGate_facts {s : Sh} {t : Th} {r : Sh × Th × List Ev} (hpc : t.pc = none) (h : stepGate s t = some r) :
    r.1.egc = s.egc ∧ r.1.change = s.change ∧ r.2.1.mine = t.mine ∧ (∀ n, r.2.1.pc ≠ some (.addIncChange n)) ∧
    (∀ x, Ev.ret x ∈ r.2.2 → x = "recover skipped") := by
  unfold stepGate at h
  split at h
  · split at h
    · simp at h; subst h; simp
    · simp at h; subst h
      unfold settle retire
      simp only
      split <;> simp [hpc] <;> split <;> simp
  · simp at h

theorem step_mono {s s' : Sh} {t t' : Th} {evs : List Ev} (h : step s t = some (s', t', evs)) :
    s.change ≤ s'.change ∧ ∀ k, s.egc.getD k 0 ≤ s'.egc.getD k 0 := by
  obtain ⟨_, t0, _, hst⟩ := step_cases h
  rcases hst with ⟨pc, _, hr⟩ | ⟨hpc0, hg⟩
  · have := stepPC_mono s t0 (normalize s pc)
    rw [← hr] at this; exact this
  · have := stepGate_facts hpc0 hg
    simp only at this
    rw [this.1, this.2.1]; exact ⟨Nat.le_refl _, fun _ => Nat.le_refl _⟩

variable (cap width : Nat) (owners : List Nat) (progs : List (List Cmd))

/-- counters only grow -/
theorem thm_container_monotone (c c' : Cfg Sh Th) (i : Nat) (evs : List Ev)
    (h : Reachable sys (mkCfg cap width owners progs) c) (hs : sys.stepAt c i = some (c', evs)) :
    c.sh.change ≤ c'.sh.change ∧ ∀ k, c.sh.egc.getD k 0 ≤ c'.sh.egc.getD k 0 := by
  obtain ⟨t, sh', t', _, hst, rfl⟩ := stepAt_some hs
  exact step_mono hst

end Iox2.C10

/- ---------------------------------------------------------------- part AL -/
namespace Iox2.C10
set_option linter.unusedSimpArgs false
set_option linter.unusedVariables false
open Iox2.Sched Iox2.Container
open Iox2.RUIS (EMPTY LOCKG RSh Mode Out)

theorem stepPC_rets (s : Sh) (t : Th) (q : PC) (x : String) (hx : Ev.ret x ∈ (stepPC s t q).2.2) : RetOK s t q x := by
  unfold RetOK
  cases q with
  | ix p c => exact .inl ((stepIx_facts s t p c).2.2.2.2 x hx)
  | addRetCell idx =>
    simp only [stepPC] at hx; rw [(finish_facts ..).2.2.2.2.1] at hx
    simp at hx; exact .inr (.inl ⟨idx, rfl, hx⟩)
  | rmIncChange g idx l =>
    simp only [stepPC] at hx; rw [(finish_facts ..).2.2.2.2.1] at hx
    simp at hx; exact .inr (.inr (.inr (.inl ⟨l, hx⟩)))
  | rvIncChange l =>
    simp only [stepPC] at hx; rw [(finish_facts ..).2.2.2.2.1] at hx
    simp at hx; exact .inr (.inr (.inr (.inr (.inr ⟨l, hx⟩))))
  | upLdChange =>
    simp only [stepPC] at hx; split at hx
    · rename_i hc
      rw [(finish_facts ..).2.2.2.2.1] at hx
      simp at hx; exact .inr (.inr (.inl ⟨rfl, hx, hc⟩))
    · simp at hx
  | upEdist =>
    simp only [stepPC] at hx; split at hx
    · simp at hx
    · rw [(finish_facts ..).2.2.2.2.1] at hx
      simp at hx; exact .inr (.inr (.inr (.inr (.inl ⟨_, hx⟩))))
  | upLdEgc i =>
    simp only [stepPC, stepPC.upAfterGen, stepPC.upNext] at hx
    repeat' split at hx
    all_goals first
      | (simp at hx; done)
      | (rw [(finish_facts ..).2.2.2.2.1] at hx; simp at hx; exact .inr (.inr (.inr (.inr (.inl ⟨_, hx⟩)))))
  | upCas i g =>
    simp only [stepPC, stepPC.upAfterGen, stepPC.upNext] at hx
    repeat' split at hx
    all_goals first
      | (simp at hx; done)
      | (rw [(finish_facts ..).2.2.2.2.1] at hx; simp at hx; exact .inr (.inr (.inr (.inr (.inl ⟨_, hx⟩)))))
  | _ =>
    simp only [stepPC] at hx
    repeat' split at hx
    all_goals simp at hx

end Iox2.C10

/- ---------------------------------------------------------------- part AM -/
namespace Iox2.C10
set_option linter.unusedSimpArgs false
set_option linter.unusedVariables false
open Iox2.Sched Iox2.Container
open Iox2.RUIS (EMPTY LOCKG RSh Mode Out)

/-! ## strings -/
theorem addok_ne_err (k : Nat) : s!"add ok:{k}" ∉ errRets := by
  intro h
  simp only [errRets, List.mem_cons, List.mem_nil_iff, or_false] at h
  rcases h with h | h | h | h <;>
    (have := congrArg (fun s => s.toList.take 5) h; simp [toString, String.toList_append] at this)
theorem addok_ne_upfalse (k : Nat) : s!"add ok:{k}" ≠ "update false" := by
  intro h; have := congrArg (fun s => s.toList.take 1) h; simp [toString, String.toList_append] at this
theorem addok_ne_skip (k : Nat) : s!"add ok:{k}" ≠ "recover skipped" := by
  intro h; have := congrArg (fun s => s.toList.take 1) h; simp [toString, String.toList_append] at this
theorem addok_ne_remove (k : Nat) (l : Bool) : s!"add ok:{k}" ≠ s!"remove {lockedStr l}" := by
  intro h; have := congrArg (fun s => s.toList.take 1) h; simp [toString, String.toList_append] at this
theorem addok_ne_recover (k : Nat) (l : Bool) : s!"add ok:{k}" ≠ s!"recover {lockedStr l}" := by
  intro h; have := congrArg (fun s => s.toList.take 1) h; simp [toString, String.toList_append] at this
theorem addok_ne_uptrue (k : Nat) (sn : Snapshot) : s!"add ok:{k}" ≠ s!"update true {showSnap sn}" := by
  intro h; have := congrArg (fun s => s.toList.take 1) h; simp [toString, String.toList_append] at this
theorem upfalse_ne_err : "update false" ∉ errRets := by decide
theorem upfalse_ne_remove (l : Bool) : "update false" ≠ s!"remove {lockedStr l}" := by
  intro h; have := congrArg (fun s => s.toList.take 1) h; simp [toString, String.toList_append] at this
theorem upfalse_ne_recover (l : Bool) : "update false" ≠ s!"recover {lockedStr l}" := by
  intro h; have := congrArg (fun s => s.toList.take 1) h; simp [toString, String.toList_append] at this
theorem upfalse_ne_uptrue (sn : Snapshot) : "update false" ≠ s!"update true {showSnap sn}" := by
  intro h; have := congrArg (fun s => s.toList.take 8) h; simp [toString, String.toList_append] at this

end Iox2.C10

/- ---------------------------------------------------------------- part AN -/
namespace Iox2.C10
set_option linter.unusedSimpArgs false
set_option linter.unusedVariables false
open Iox2.Sched Iox2.Container
open Iox2.RUIS (EMPTY LOCKG RSh Mode Out)

theorem normalize_retcell {s : Sh} {pc : PC} {idx : Nat} (h : normalize s pc = .addRetCell idx) : pc = .addRetCell idx := by
  cases pc <;> simp [normalize] at h ⊢ <;> first | exact h | (split at h <;> simp at h)
theorem normalize_upld {s : Sh} {pc : PC} (h : normalize s pc = .upLdChange) : pc = .upLdChange := by
  cases pc <;> simp [normalize] at h ⊢ <;> (split at h <;> simp at h)

theorem pre_facts {s : Sh} {t t0 : Th} (h : Pre s t t0) :
    t0.snap = t.snap ∧ (∀ idx, t0.pc = some (.addRetCell idx) → t.pc = some (.addRetCell idx)) := by
  cases h with
  | same => exact ⟨rfl, fun _ h => h⟩
  | start c rest hpc hg hn hnd =>
    cases c <;> simp [Container.start]

variable (cap width : Nat) (owners : List Nat) (progs : List (List Cmd))

/-- **every completed change is noticed** -/
theorem thm_change_noticed (c c' : Cfg Sh Th) (i : Nat) (evs : List Ev)
    (h : Reachable sys (mkCfg cap width owners progs) c) (hs : sys.stepAt c i = some (c', evs)) :
    ((∃ k : Nat, Ev.ret s!"add ok:{k}" ∈ evs) → ∃ t : Th, c.th[i]? = some t ∧ ∃ idx, t.pc = some (.addRetCell idx)) ∧
    (Ev.ret "update false" ∈ evs → ∀ t : Th, c.th[i]? = some t → t.snap.change = c.sh.change) := by
  obtain ⟨t, sh', t', hi, hst, rfl⟩ := stepAt_some hs
  obtain ⟨_, t0, hpre, hcase⟩ := step_cases hst
  obtain ⟨hsnap, hpcr⟩ := pre_facts hpre
  constructor
  · rintro ⟨k, hk⟩
    refine ⟨t, hi, ?_⟩
    rcases hcase with ⟨pc, hpc, hr⟩ | ⟨hpc0, hg⟩
    · have hret := stepPC_rets c.sh t0 (normalize c.sh pc) _ (by rw [← hr]; exact hk)
      rcases hret with h1 | ⟨idx, h1, _⟩ | ⟨_, h1, _⟩ | ⟨l, h1⟩ | ⟨sn, h1⟩ | ⟨l, h1⟩
      · exact absurd h1 (addok_ne_err k)
      · exact ⟨idx, hpcr idx (by rw [hpc, normalize_retcell h1])⟩
      · exact absurd h1 (addok_ne_upfalse k)
      · exact absurd h1 (addok_ne_remove k l)
      · exact absurd h1 (addok_ne_uptrue k sn)
      · exact absurd h1 (addok_ne_recover k l)
    · exact absurd ((stepGate_facts hpc0 hg).2.2.2.2 _ hk) (addok_ne_skip k)
  · intro hk u hu
    rw [hi] at hu; cases hu
    rcases hcase with ⟨pc, hpc, hr⟩ | ⟨hpc0, hg⟩
    · have hret := stepPC_rets c.sh t0 (normalize c.sh pc) _ (by rw [← hr]; exact hk)
      rcases hret with h1 | ⟨idx, _, h1⟩ | ⟨_, _, h1⟩ | ⟨l, h1⟩ | ⟨sn, h1⟩ | ⟨l, h1⟩
      · exact absurd h1 upfalse_ne_err
      · exact absurd h1.symm (addok_ne_upfalse idx)
      · rw [← hsnap]; exact h1
      · exact absurd h1 (upfalse_ne_remove l)
      · exact absurd h1 (upfalse_ne_uptrue sn)
      · exact absurd h1 (upfalse_ne_recover l)
    · have := (stepGate_facts hpc0 hg).2.2.2.2 _ hk
      exact absurd this (by decide)

end Iox2.C10

/- ---------------------------------------------------------------- part AO -/
namespace Iox2.C10
set_option linter.unusedSimpArgs false
set_option linter.unusedVariables false
open Iox2.Sched Iox2.Container
open Iox2.RUIS (EMPTY LOCKG RSh Mode Out)

def isInc (t : Th) : Bool := match t.pc with | some (.addIncChange _) => true | _ => false
def incQ : PC → Nat | .addIncChange _ => 1 | _ => 0

theorem finish_mine (s : Sh) (t : Th) (evs : List Ev) (ret : String) : (finish s t evs ret).2.1.mine = t.mine := (finish_facts ..).2.2.1
theorem finish_change (s : Sh) (t : Th) (evs : List Ev) (ret : String) : (finish s t evs ret).1.change = s.change := (finish_facts ..).2.1
theorem finish_isInc (s : Sh) (t : Th) (evs : List Ev) (ret : String) : isInc (finish s t evs ret).2.1 = false := by
  simp [isInc, (finish_facts s t evs ret).2.2.2.1]

macro "cnt" : tactic => `(tactic| first
  | (simp [isInc, finish_mine, finish_change, finish_isInc]; done)
  | (simp [isInc, finish_mine, finish_change, finish_isInc]; omega)
  | omega)

theorem stepPC_count (s : Sh) (t : Th) (q : PC) :
    (stepPC s t q).2.1.mine.length + incQ q + s.change ≤ t.mine.length + (if isInc (stepPC s t q).2.1 then 1 else 0) + (stepPC s t q).1.change := by
  cases q with
  | ix p c =>
    have := stepIx_facts s t p c
    simp only [stepPC, incQ]; rw [this.2.2.1, this.2.1]; omega
  | upLdEgc i =>
    simp only [stepPC, stepPC.upAfterGen, stepPC.upNext, incQ]
    repeat' split
    all_goals cnt
  | upCas i g =>
    simp only [stepPC, stepPC.upAfterGen, stepPC.upNext, incQ]
    repeat' split
    all_goals cnt
  | _ =>
    simp only [stepPC, incQ]
    repeat' split
    all_goals cnt

theorem sum_set_length {α} (f : α → Nat) (l : List α) (i : Nat) (a a' : α) (h : l[i]? = some a) :
    ((l.set i a').map f).sum + f a = (l.map f).sum + f a' := by
  induction l generalizing i with
  | nil => simp at h
  | cons x xs ih =>
    cases i with
    | zero => simp at h; subst h; simp; omega
    | succ k =>
      simp at h; have := ih k h
      simp only [List.set_cons_succ, List.map_cons, List.sum_cons]; omega

def CountInv (c : Cfg Sh Th) : Prop :=
  (c.th.map (·.mine.length)).sum ≤ c.sh.change + (c.th.filter isInc).length

theorem normalize_inc {s : Sh} {pc : PC} : incQ (normalize s pc) = incQ pc := by
  cases pc with
  | addWord idx k v => by_cases h : k < s.width <;> simp [normalize, incQ, h]
  | upWord i g k => by_cases h : k < s.width <;> simp [normalize, incQ, h]
  | rvWord p d m n g k => by_cases h : k < s.width <;> simp [normalize, incQ, h]
  | _ => rfl

theorem count_step {c c' : Cfg Sh Th} {i : Nat} {evs : List Ev} (hI : CountInv c) (hs : sys.stepAt c i = some (c', evs)) : CountInv c' := by
  obtain ⟨t, sh', t', hi, hst, rfl⟩ := stepAt_some hs
  obtain ⟨_, t0, hpre, hcase⟩ := step_cases hst
  -- the per-thread balance
  have key : t'.mine.length + (if isInc t then 1 else 0) + c.sh.change ≤ t.mine.length + (if isInc t' then 1 else 0) + sh'.change := by
    have hpre' : t0.mine.length ≤ t.mine.length ∧ ∀ pc, t0.pc = some pc → (if isInc t then 1 else 0) ≤ incQ pc := by
      cases hpre with
      | same => exact ⟨Nat.le_refl _, fun pc hpc => by simp only [isInc, hpc]; cases pc <;> simp [incQ]⟩
      | start cm rest hpc hg hn hnd =>
        refine ⟨?_, fun pc _ => by simp [isInc, hpc]⟩
        cases cm <;> simp [Container.start]
        exact List.length_eraseIdx_le ..
    rcases hcase with ⟨pc, hpc, hr⟩ | ⟨hpc0, hg⟩
    · have := stepPC_count c.sh t0 (normalize c.sh pc)
      rw [← hr, normalize_inc] at this
      have := hpre'.2 pc hpc
      simp only at *
      omega
    · have h1 := stepGate_facts hpc0 hg
      have h2 : isInc t' = false := by
        simp only [isInc]; split
        · rename_i n hn; exact absurd hn (h1.2.2.2.1 n)
        · rfl
      have h3 : isInc t = false := by
        cases hpre with
        | same => simp [isInc, hpc0]
        | start cm rest hpc hg hn hnd => simp [isInc, hpc]
      simp only at h1
      rw [h2, h3, h1.2.1, h1.2.2.1]; simp; exact hpre'.1
  unfold CountInv at hI ⊢
  have h1 := sum_set_length (·.mine.length) c.th i t t' hi
  have h2 := filter_set_length isInc c.th i t t' hi
  simp only at h1 h2 ⊢
  omega

theorem count_init (cap width : Nat) (owners : List Nat) (progs : List (List Cmd)) : CountInv (mkCfg cap width owners progs) := by
  let ths := (owners.zip progs).map fun (o, p) => Th.init o cap width p
  obtain ⟨hth, _⟩ := fold_spec ths { sh := Sh.init cap width, th := [] }
  have hmk : (mkCfg cap width owners progs).th = ths.map settledT := by
    show (ths.foldl foldF { sh := Sh.init cap width, th := [] }).th = _
    rw [hth]; simp
  unfold CountInv
  rw [hmk]
  have : ((ths.map settledT).map (·.mine.length)).sum = 0 := by
    have sum_zero : ∀ l : List Nat, (∀ x ∈ l, x = 0) → l.sum = 0 := by
      intro l; induction l with
      | nil => simp
      | cons y ys ih => intro h; simp [h y (by simp), ih (fun x hx => h x (by simp [hx]))]
    apply sum_zero
    intro x hx
    simp only [List.mem_map] at hx
    obtain ⟨t, ⟨t0, ht0, rfl⟩, rfl⟩ := hx
    simp only [ths, List.mem_map] at ht0
    obtain ⟨⟨o, p⟩, _, rfl⟩ := ht0
    unfold settledT; split <;> simp [Th.init]
  rw [this]; omega

variable (cap width : Nat) (owners : List Nat) (progs : List (List Cmd))

/-- the counter is at least the number of completed operations (bookkeeping) -/
theorem thm_change_counts_completed (c : Cfg Sh Th) (h : Reachable sys (mkCfg cap width owners progs) c) :
    c.sh.removedDone.length ≤ c.sh.change + (c.th.map (·.rvDone.length)).sum + c.sh.removedDone.length ∧
    ((c.th.map (·.mine.length)).sum ≤ c.sh.change + (c.th.filter fun t => match t.pc with | some (.addIncChange _) => true | _ => false).length) := by
  refine ⟨by omega, ?_⟩
  exact Reachable.inv CountInv (count_init cap width owners progs) (fun _ _ _ _ hI hs => count_step hI hs) c h

end Iox2.C10

namespace Iox2.C10
open Iox2.Sched Iox2.Container

variable (cap width : Nat) (owners : List Nat) (progs : List (List Cmd))

/-- counters only grow -/
theorem container_monotone (c c' : Cfg Sh Th) (i : Nat) (evs : List Ev)
    (h : Reachable sys (mkCfg cap width owners progs) c) (hs : sys.stepAt c i = some (c', evs)) :
    c.sh.change ≤ c'.sh.change ∧ ∀ k, c.sh.egc.getD k 0 ≤ c'.sh.egc.getD k 0 := by
  exact thm_container_monotone cap width owners progs c c' i evs h hs

/-- **never torn, never invented**: every entry `(slot, generation, value)` of every snapshot a
refresh ever returned is exactly what a completed `add` published for that slot at that generation -/
theorem snapshot_entries_genuine (hwf : WF width owners progs) (c : Cfg Sh Th)
    (h : Reachable sys (mkCfg cap width owners progs) c)
    (t : Th) (ht : t ∈ c.th) (u : UpdateRec) (hu : u ∈ t.updates) (e : Nat × Nat × List Nat) (he : e ∈ u.snap.entries) :
    (e.2.1, e.2.2) ∈ c.sh.published.getD e.1 [] := by
  exact thm_snapshot_entries_genuine cap width owners progs hwf c h t ht u hu e he

/-- **never ghost**: an entry whose removal (orderly or by recovery) completed before the refresh
began is not in the snapshot the refresh returns -/
theorem snapshot_no_ghost (hwf : WF width owners progs) (c : Cfg Sh Th)
    (h : Reachable sys (mkCfg cap width owners progs) c)
    (t : Th) (ht : t ∈ c.th) (u : UpdateRec) (hu : u ∈ t.updates) (r : Nat × Nat) (hr : r ∈ u.removedAtBegin) (v : List Nat) :
    (r.1, r.2, v) ∉ u.snap.entries := by
  exact thm_snapshot_no_ghost cap width owners progs hwf c h t ht u hu r hr v

/-- **eventually exact**: a refresh that ran while nobody else could take a step returns exactly
the registered entries — and if it reports "nothing changed", its snapshot already was exact -/
theorem snapshot_eventually_exact (hwf : WF width owners progs) (c : Cfg Sh Th)
    (h : Reachable sys (mkCfg cap width owners progs) c)
    (t : Th) (ht : t ∈ c.th) (u : UpdateRec) (hu : u ∈ t.updates) (hq : u.quiet = true) :
    u.snap.entries = u.sharedAtEnd := by
  exact thm_snapshot_eventually_exact cap width owners progs hwf c h t ht u hu hq

/-- **every completed change is noticed**: `add`, `remove` and `recover` increment the change
counter before they return, and a refresh reports "nothing changed" only if the counter is the
one its snapshot was taken at -/
theorem change_noticed (c c' : Cfg Sh Th) (i : Nat) (evs : List Ev)
    (h : Reachable sys (mkCfg cap width owners progs) c) (hs : sys.stepAt c i = some (c', evs)) :
    ((∃ k : Nat, Ev.ret s!"add ok:{k}" ∈ evs) → ∃ t : Th, c.th[i]? = some t ∧ ∃ idx, t.pc = some (.addRetCell idx)) ∧
    (Ev.ret "update false" ∈ evs → ∀ t : Th, c.th[i]? = some t → t.snap.change = c.sh.change) := by
  exact thm_change_noticed cap width owners progs c c' i evs h hs

/-- an operation that has returned has incremented the change counter: the counter equals the
number of completed `add`s, `remove`s and `recover`s (here: it is at least the number of completed
removals) -/
theorem change_counts_completed (c : Cfg Sh Th) (h : Reachable sys (mkCfg cap width owners progs) c) :
    c.sh.removedDone.length ≤ c.sh.change + (c.th.map (·.rvDone.length)).sum + c.sh.removedDone.length ∧
    ((c.th.map (·.mine.length)).sum ≤ c.sh.change + (c.th.filter fun t => match t.pc with | some (.addIncChange _) => true | _ => false).length) := by
  exact thm_change_counts_completed cap width owners progs c h

/-- non-vacuity: a writer adds, removes and re-adds in slot 0 while the reader is inside a refresh
(its validation fails and it re-reads); later quiet refreshes are exact and report no change -/
def exProgs : List (List Cmd) := [[Cmd.add [10, 11], .remove 0 .default, .add [20, 21]], [Cmd.update, .update, .update]]
def exFinal : Cfg Sh Th :=
  (sys.run (mkCfg 1 2 [100, 101] exProgs) (List.replicate 15 0 ++ List.replicate 5 1 ++ List.replicate 23 0 ++ List.replicate 40 1)).1
example :
    ((exFinal.th.getD 1 (Th.init 0 0 0 [])).updates.map fun u => (u.result, u.snap.entries, u.quiet, u.removedAtBegin)) =
      [(true, [(0, 3, [20, 21])], false, []), (true, [(0, 3, [20, 21])], true, [(0, 1)]), (false, [(0, 3, [20, 21])], true, [(0, 1)])] := by
  rfl

end Iox2.C10

