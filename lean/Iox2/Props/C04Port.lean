/-
C04 at port level — "Crash at any instant: survivor cleanup restores a clean, usable system", for a process A killed inside the
creation of a Publisher / Subscriber of a service that a living process H holds (model Iox2/Model/PortCrash.lean, one step per system
call, compared with strace of the real calls and with SIGKILL at every system call by checklib/pC04port.py).

Scenarios (`Scn`): `pub` — A creates a publisher, H has one subscriber; `sub` / `sub2` — A creates a subscriber, H has one / two publishers.
`scenario s fuseV fuseC`: A runs `create` (fuse = number of steps it completes before it dies), survivor 1 runs Node::list +
try_remove_stale_resources (own fuse: second crash), survivor 2 runs a complete clean-up.  `after` = what is left of A, including the
registry slot of its port (H observes it as number_of_publishers / _subscribers and as one creatable port less).

Steps of the victim (k = completed steps):
 pub   0 creat ptag · 1 fchmod ptag init · 2 write ptag · 3 fsync ptag · 4 fchmod ptag final · 5 creat data · 6 ftruncate data · 7 fstat data · 8 mmap data ·
       9 mem:init data · 10 fchmod data final · 11 open conn · 12 creat conn · 13 ftruncate conn · 14 fstat conn · 15 mmap conn · 16 mem:init conn ·
       17 fchmod conn final · 18 mem:reserve conn · 19 mem:register port                                                   (20 = returned)
 sub   0‥4 port tag · 5 open conn · 6 creat conn · 7 ftruncate conn · 8 fstat conn · 9 mmap conn · 10 mem:init conn · 11 fchmod conn final · 12 mem:reserve conn ·
       13 open data · 14 fstat data · 15 mmap data · 16 fstat data · 17 mem:register port                                 (18 = returned)
 sub2  as sub with the block 5‥16 twice (5‥16, 17‥28) · 29 mem:register port                                              (30 = returned)

FALSE at the crash points 1‥4 (port tag still carries its creation permission: finding D26, C04Fs.locked_tag_uncollectable) and at the
point between `fchmod conn final` and `mem:reserve conn` (pub 18; sub 12; sub2 12, 24: the connection is finalised but A's role bit is
not yet in its state byte — `remove_state` marks nothing, the connection object stays for ever); true at all others.
-/
import Iox2.Proof.PortCrash
namespace Iox2.C04Port
open Iox2.Sched Iox2.PortCrash

/-- number of steps of the victim's `create` -/
def len : Scn → Nat
  | .pub => 20 | .sub => 18 | .sub2 => 30

def crashPoint (s : Scn) : Option Nat → Option Nat
  | none => none
  | some k => if k ≤ len s then some k else none

/-- the crash point after the final chmod of connection i and before `reserve_port` -/
def unreserved (s : Scn) (k : Nat) : Bool :=
  match s with
  | .pub => k == 18
  | .sub => k == 12
  | .sub2 => k == 12 || k == 24

/-- the crash points at which the unchanged code restores a clean system -/
def cleanPoint (s : Scn) (k : Nat) : Bool := (k == 0 || 5 ≤ k) && !unreserved s k

/-- what is left for ever, by crash point -/
def afterOf (s : Scn) (k : Nat) : Left :=
  if 1 ≤ k ∧ k ≤ 4 then { Left.none with ptag := .init, node := true, dir := true }
  else if unreserved s k then (if k == 24 then { Left.none with conn1 := .final } else { Left.none with conn0 := .final })
  else Left.none

def cleanOf (k : Nat) : CRes := if 1 ≤ k ∧ k ≤ 4 then .internalError else .ok

def Restored (o : Outcome) : Prop := o.clean1 = some .ok ∧ o.after = Left.none
instance (o : Outcome) : Decidable (Restored o) := by unfold Restored; infer_instance

theorem port_kill_table_bounded : ∀ s : Scn, ∀ k, k ≤ len s →
    let o := scenario s (some k) none
    o.dead = true ∧ o.clean1 = some (cleanOf k) ∧ o.after = afterOf s k ∧ (o.done = true ↔ k = len s) ∧ (o.before.reg = true ↔ k = len s) := by
  intro s; cases s <;> decide +kernel

theorem port_no_crash_bounded : ∀ s : Scn, ∀ k, k ≤ fuel → len s < k →
    scenario s (some k) none = scenario s none none := by
  intro s; cases s <;> decide +kernel

/-- no crash (no fuse, or a fuse beyond the program): `create` returns, the clean-up does not touch the living node -/
theorem port_no_crash (s : Scn) (f : Option Nat) (h : crashPoint s f = none) :
    let o := scenario s f none
    o.done = true ∧ o.dead = false ∧ o.clean1 = some .notDead ∧ o.after = o.before ∧ o.after.reg = true := by
  have base : ∀ s : Scn, let o := scenario s none none
      o.done = true ∧ o.dead = false ∧ o.clean1 = some .notDead ∧ o.after = o.before ∧ o.after.reg = true := by
    intro s; cases s <;> decide +kernel
  cases f with
  | none => exact base s
  | some k =>
    have hk : ¬ k ≤ len s := by
      intro hle; simp [crashPoint, hle] at h
    have e : scenario s (some k) none = scenario s none none := by
      by_cases hf : k ≤ fuel
      · exact port_no_crash_bounded s k hf (by omega)
      · exact scenario_big_fuse s k none (by omega)
    rw [e]; exact base s

/-- THE TABLE for every fuse: if the victim died at crash point k, the first clean-up returns `cleanOf k` and exactly `afterOf s k` is left -/
theorem port_kill_table (s : Scn) (f : Option Nat) (k : Nat) (h : crashPoint s f = some k) :
    let o := scenario s f none
    o.dead = true ∧ o.clean1 = some (cleanOf k) ∧ o.after = afterOf s k := by
  cases f with
  | none => simp [crashPoint] at h
  | some j =>
    simp only [crashPoint] at h
    split at h
    · rename_i hj
      have hjk : j = k := Option.some.inj h
      rw [← hjk]
      have := port_kill_table_bounded s j hj
      exact ⟨this.1, this.2.1, this.2.2.1⟩
    · cases h

/-
FALSE as stated (C04 at full strength):
  theorem port_crash_anywhere_cleanup_restores (s : Scn) (f : Option Nat) : (scenario s f none).dead = true → Restored (scenario s f none)
-/

/-- refutation 1 = finding D26 at its origin: killed between `open(O_CREAT|O_EXCL, 0600)` and `fchmod(0400)` of the PORT TAG; the tag is invisible
to the listing, `rmdir` of the node directory fails, every clean-up returns InternalError; node, directory and tag stay for ever -/
theorem crash_in_port_tag_creation_not_restored :
    ∀ s : Scn, ∀ k, k ≤ 4 → 1 ≤ k →
      let o := scenario s (some k) none
      o.dead = true ∧ ¬ Restored o ∧ o.clean1 = some .internalError ∧ o.clean2 = some .internalError ∧
      o.after = { Left.none with ptag := .init, node := true, dir := true } := by
  intro s; cases s <;> decide

/-- refutation 2: killed after the connection was finalised (`fchmod 0600`) and before `reserve_port` set A's role bit: the clean-up opens the
connection, `remove_state(role)` finds state None, marks nothing and removes nothing; the clean-up reports success, the node is gone, the
connection object stays for ever (the peer never looks at it: A's port was never registered) -/
theorem crash_before_reserve_port_leaks_connection :
    (let o := scenario .pub (some 18) none; o.dead = true ∧ ¬ Restored o ∧ o.clean1 = some .ok ∧ o.after = { Left.none with conn0 := .final }) ∧
    (let o := scenario .sub (some 12) none; o.dead = true ∧ ¬ Restored o ∧ o.clean1 = some .ok ∧ o.after = { Left.none with conn0 := .final }) ∧
    (let o := scenario .sub2 (some 24) none; o.dead = true ∧ ¬ Restored o ∧ o.clean1 = some .ok ∧ o.after = { Left.none with conn1 := .final }) := by
  decide

/-- C04 for port creation, strongest true form: for EVERY fuse, if A died, the system is restored iff the crash point is a clean one -/
theorem port_crash_anywhere_cleanup_restores_partial (s : Scn) (f : Option Nat) :
    (scenario s f none).dead = true →
      (Restored (scenario s f none) ↔ ∃ k, crashPoint s f = some k ∧ cleanPoint s k = true) := by
  cases hf : crashPoint s f with
  | none => intro h; have := (port_no_crash s f hf).2.1; rw [this] at h; cases h
  | some k =>
    intro _
    have hk : k ≤ len s := by
      cases f with
      | none => simp [crashPoint] at hf
      | some j =>
        simp only [crashPoint] at hf
        split at hf
        · cases hf; assumption
        · cases hf
    obtain ⟨_, h1, h2⟩ := port_kill_table s f k hf
    have key : ∀ s : Scn, ∀ k, k ≤ len s → ((some (cleanOf k) = some CRes.ok ∧ afterOf s k = Left.none) ↔ cleanPoint s k = true) := by
      intro s; cases s <;> decide
    simp only [Restored, h1, h2]
    rw [key s k hk]
    simp

/-- in particular the registry slot of the dead port never survives an undisturbed clean-up, at any crash point (the port registers LAST and
the clean-up releases the slot after the resources): H sees the old number of ports and can create ports up to the limit again -/
theorem dead_port_slot_released (s : Scn) (f : Option Nat) :
    (scenario s f none).dead = true → (scenario s f none).after.reg = false ∧ (scenario s f none).after.nodeReg = false := by
  cases hf : crashPoint s f with
  | none => intro h; have := (port_no_crash s f hf).2.1; rw [this] at h; cases h
  | some k =>
    intro _
    have hk : k ≤ len s := by
      cases f with
      | none => simp [crashPoint] at hf
      | some j =>
        simp only [crashPoint] at hf
        split at hf
        · cases hf; assumption
        · cases hf
    obtain ⟨_, _, h2⟩ := port_kill_table s f k hf
    rw [h2]
    have : ∀ s : Scn, ∀ k, k ≤ len s → (afterOf s k).reg = false ∧ (afterOf s k).nodeReg = false := by
      intro s; cases s <;> decide
    exact this s k hk

/-! ### second crash: the first cleaner dies inside the clean-up -/

/-- the step of the cleaner after which the port tag of a REGISTERED port is removed and its slot is not yet released -/
def slotWindow : Scn → Nat
  | .pub => 20 | .sub => 18 | .sub2 => 25

/-
FALSE as stated:  ∀ s k j, (scenario s (some k) (some j)).after = (scenario s (some k) none).after
-/

/-- refutation: A died after `create` returned; the first cleaner removed the port tag (service/mod.rs:904) and died before the registry slot was
released; the next cleaner's `remove_port_tag` answers AlreadyRemoved ⇒ SkipPort: the clean-up succeeds, the node is gone, but the dead
port's slot stays occupied for ever -/
theorem second_crash_after_port_tag_removal_leaks_slot :
    ∀ s : Scn, let o := scenario s (some (len s)) (some (slotWindow s))
      o.clean2 = some .ok ∧ o.after = { Left.none with reg := true } := by
  intro s; cases s <;> decide +kernel

set_option maxHeartbeats 20000000 in
theorem second_crash_bounded : ∀ s : Scn, ∀ k, k ≤ len s → ∀ j, j ≤ fuel → ¬ (k = len s ∧ j = slotWindow s) →
    (scenario s (some k) (some j)).after = (scenario s (some k) none).after := by
  intro s; cases s <;> decide +kernel

/-- strongest true form: wherever else the first cleaner dies (any fuse), the next complete clean-up ends in the state of an undisturbed one -/
theorem second_crash_same_result_partial (s : Scn) (k : Nat) (hk : k ≤ len s) (fc : Option Nat)
    (h : ¬ (k = len s ∧ fc = some (slotWindow s))) :
    (scenario s (some k) fc).after = (scenario s (some k) none).after := by
  cases fc with
  | none => rfl
  | some j =>
    by_cases hj : j ≤ fuel
    · exact second_crash_bounded s k hk j hj (fun ⟨a, b⟩ => h ⟨a, by rw [b]⟩)
    · rw [scenario_big_cleaner_fuse s _ j (by omega)]

/-! ### non-vacuity -/

example : (scenario .pub (some 20) none).dead = true ∧ Restored (scenario .pub (some 20) none) ∧ (scenario .pub (some 20) none).before.reg = true := by decide
example : ∃ f, (scenario .sub (f) none).dead = true ∧ ¬ Restored (scenario .sub f none) := ⟨some 3, by decide⟩
example : cleanPoint .pub 13 = true ∧ cleanPoint .pub 18 = false ∧ cleanPoint .sub2 24 = false ∧ cleanPoint .sub 2 = false := by decide
example : traceSolo fuel Scn.pub.init Scn.pub.victim =
    ["creat ptag", "fchmod ptag init", "write ptag", "fsync ptag", "fchmod ptag final", "creat data", "ftruncate data", "fstat data", "mmap data",
     "mem:init data", "fchmod data final", "open conn", "creat conn", "ftruncate conn", "fstat conn", "mmap conn", "mem:init conn", "fchmod conn final",
     "mem:reserve conn", "mem:register port"] := by decide

end Iox2.C04Port
