/-
C01 — publish-subscribe delivery: ordered, at most once, byte-identical, loss only as documented.
Theorems about the L1 publish-subscribe model `Iox2.PubSub` for every reachable state.  The ghost
fields of the model (`Pub.seq`, `Pub.sent`, `Pub.chunkSeq`, `Conn.g*`, `Sub.ghostRecv`) number
the samples of a publisher by send order; they are written but never read by the transitions.

Proof: one inductive invariant in three layers (`Iox2/Proof/PubSubC01Inv.lean`, `…InvB.lean`):
`InvA` (identities, registries, attachment structure, per-connection ghost-log structure),
`InvB` (reference counting, non-reuse of chunks, payload of pending samples),
`InvC` (send numbering: monotone, history first, nothing lost);
`reach_inv : cfg.Sane → Reach cfg w → Inv cfg w` in `Iox2/Proof/PubSubC01Final.lean`.
-/
import Iox2.Model.PubSub
import Iox2.Proof.PubSubC01Final
namespace Iox2.PubSub.C01
open Iox2.PubSub

/-! ### vocabulary (definitions are part of the statements: do not change) -/

/-- send numbers waiting in the subscriber's buffer of this connection, oldest first -/
def pending (cn : Conn) : List Nat := cn.sub.map (·.2)

/-- `l` is an interleaving of `a` and `b` (both keep their order, every element of `l` comes from
exactly one of them) -/
inductive Interleave : List Nat → List Nat → List Nat → Prop
  | nil : Interleave [] [] []
  | left {x a b l} : Interleave a b l → Interleave (x :: a) b (x :: l)
  | right {x a b l} : Interleave a b l → Interleave a (x :: b) (x :: l)

/-! ### link to the vocabulary of the proof files -/

theorem pending_eq (cn : Conn) : pending cn = C01P.pend cn := rfl

theorem interleave_of_il {a b l : List Nat} (h : C01P.Il a b l) : Interleave a b l := by
  induction h with
  | nil => exact Interleave.nil
  | left _ ih => exact Interleave.left ih
  | right _ ih => exact Interleave.right ih

/-! ### theorems -/

/-- Order, at most once, FIFO: what was pushed into a connection is strictly increasing in send
order; it splits into a consumed prefix — an interleaving of what the subscriber received and what
overflow evicted — and the still pending suffix.  Hence the received samples are in send order,
none twice, none that was not sent to this connection, and what remains in the buffer is always
the newest part of what was delivered. -/
theorem connection_fifo (cfg : Cfg) (hc : cfg.Sane) (w : World) (h : Reach cfg w)
    (cn : Conn) (hcn : cn ∈ w.conns) :
    cn.gDelivered.Pairwise (· < ·) ∧
    ∃ consumed, Interleave cn.gReceived cn.gEvicted consumed ∧ cn.gDelivered = consumed ++ pending cn := by
  have hI := C01P.reach_inv hc h
  obtain ⟨h1, consumed, h2, h3⟩ := C01P.fifo_of_inv hI.a hI.c cn hcn
  exact ⟨h1, consumed, interleave_of_il h2, h3⟩

/-- Loss only as documented (1): eviction happens only with safe overflow, skipping only without;
the buffer never holds more than its capacity; and a subscriber that has not received yet finds
exactly the newest `min(delivered, buffer size)` samples in its buffer. -/
theorem loss_kinds (cfg : Cfg) (hc : cfg.Sane) (w : World) (h : Reach cfg w)
    (cn : Conn) (hcn : cn ∈ w.conns) :
    (cfg.overflow = false → cn.gEvicted = []) ∧ (cfg.overflow = true → cn.gSkipped = []) ∧
    (pending cn).length ≤ cn.cap ∧
    (cn.gReceived = [] →
      pending cn = cn.gDelivered.drop (cn.gDelivered.length - min cn.gDelivered.length cn.cap)) := by
  have hI := C01P.reach_inv hc h
  exact C01P.loss_of_inv hI.a cn hcn

/-- … one push: the oldest entry is evicted only from a full buffer under safe overflow and is
handed back to the sender; a push is refused (`full`) only without safe overflow on a full buffer,
and then the connection is unchanged apart from the ghost log. -/
theorem trySend_cases (cn : Conn) (ov : Bool) (ch q : Nat) :
    (∀ old, (cn.trySend ov ch q).2 = .ok (some old) →
        ov = true ∧ cn.cap ≤ cn.sub.length ∧ (cn.sub.head?.map (·.1)) = some old ∧
        pending (cn.trySend ov ch q).1 = (pending cn).tail ++ [q]) ∧
    ((cn.trySend ov ch q).2 = .ok none → pending (cn.trySend ov ch q).1 = pending cn ++ [q]) ∧
    ((cn.trySend ov ch q).2 = .full →
        ov = false ∧ cn.cap ≤ cn.sub.length ∧ (cn.trySend ov ch q).1 = { cn with gSkipped := cn.gSkipped ++ [q] }) := by
  exact C01P.trySend_cases' cn ov ch q

/-- Loss only as documented (2): while the publisher is connected to the subscriber, every sample
it sent since the connection was made is either delivered into the connection or was skipped
because the buffer was full (no safe overflow; the send call did not count this subscriber);
nothing else is lost.  `gFirst` is the publisher's send number when it connected. -/
theorem nothing_lost_silently (cfg : Cfg) (hc : cfg.Sane) (w : World) (h : Reach cfg w)
    (p : Nat) (P : Pub) (hp : getP w p = some P) (hex : P.ex = true)
    (slot s : Nat) (hs : P.conns[slot]? = some (some s)) (cn : Conn) (hcn : getC w p s = some cn) :
    ∀ q, cn.gFirst ≤ q → q < P.seq → q ∈ cn.gDelivered ∨ q ∈ cn.gSkipped := by
  have hI := C01P.reach_inv hc h
  exact C01P.nlost_of_inv hI.a hI.c p P hp hex slot s hs cn hcn

/-- History: on connecting, the newest `min(history request, buffer size)` samples of the
publisher's history are delivered first, oldest first. -/
theorem history_first (cfg : Cfg) (hc : cfg.Sane) (w : World) (h : Reach cfg w)
    (cn : Conn) (hcn : cn ∈ w.conns) (hs : cn.sAtt = true) :
    cn.gHist <+: cn.gDelivered ∧ (∀ q ∈ cn.gHist, q < cn.gFirst) ∧
    (∀ q ∈ cn.gDelivered, q < cn.gFirst → q ∈ cn.gHist) ∧ cn.gHist.length ≤ cn.cap := by
  have hI := C01P.reach_inv hc h
  exact C01P.hist_of_inv hI.a hI.c cn hcn hs

/-- Byte-identical: every sample waiting in the buffer of a live subscriber still carries the
payload that was written for that send number (nothing overwrote the chunk), so `receive`
returns exactly what was written. -/
theorem pending_payload_intact (cfg : Cfg) (hc : cfg.Sane) (w : World) (h : Reach cfg w)
    (s : Nat) (S : Sub) (hs : getS w s = some S) (hl : S.alive = true)
    (cn : Conn) (hcn : cn ∈ w.conns) (hsid : cn.sid = s) (ch q : Nat) (hq : (ch, q) ∈ cn.sub) :
    ∃ P, getP w cn.pid = some P ∧ P.payload.getD ch 0 = P.sent.getD q 0 ∧ q < P.seq := by
  have hI := C01P.reach_inv hc h
  exact C01P.payload_of_inv hI s S hs hl cn hcn hsid ch q hq

/-- What `receive` reports is the head of the connection's buffer with its payload:
the observable result of `recv` is `some:<publisher>:<payload written for that send number>`. -/
theorem recv_returns_written (cfg : Cfg) (hc : cfg.Sane) (w : World) (h : Reach cfg w)
    (hnp : w.panicked = false) (s : Nat) (S' : Sub) (hd : Held)
    (hs : getS (step w (.recv s)).1 s = some S') (S : Sub) (hs0 : getS w s = some S)
    (hnew : S'.held = S.held ++ [hd]) :
    ∃ P, getP w hd.pid = some P ∧ hd.tag = P.sent.getD hd.seq 0 ∧
      (step w (.recv s)).2 = s!"some:{hd.pid}:{hd.tag}" := by
  have hI := C01P.reach_inv hc h
  exact C01P.recv_of_inv hI hnp s S' hd hs S hs0 hnew

/-- The subscriber's own receive log, restricted to one publisher, is the connection's receive log
(so per publisher/subscriber pair the order theorems above speak about what the application saw). -/
theorem subscriber_log_is_connection_log (cfg : Cfg) (hc : cfg.Sane) (w : World) (h : Reach cfg w)
    (s : Nat) (S : Sub) (hs : getS w s = some S) (p : Nat) :
    (S.ghostRecv.filter (·.1 = p)).map (·.2) =
      (match (w.conns.find? fun c => c.pid = p ∧ c.sid = s) with
       | some cn => cn.gReceived
       | none => (S.ghostRecv.filter (·.1 = p)).map (·.2)) ∧
    ((S.ghostRecv.filter (·.1 = p)).map (·.2)).Pairwise (· < ·) := by
  have hI := C01P.reach_inv hc h
  exact C01P.sublog_of_inv hI.a hI.c s S hs p

/-! ### non-vacuity -/

/-- a run without panic before its last step ends in a reachable state -/
def noPanicRun (w : World) : List Op → Bool
  | [] => true
  | op :: r => !w.panicked && noPanicRun (step w op).1 r

theorem reach_run {cfg : Cfg} {w : World} (h : Reach cfg w) (ops : List Op) (hn : noPanicRun w ops = true) :
    Reach cfg (run w ops) := by
  induction ops generalizing w with
  | nil => exact h
  | cons op r ih =>
    simp only [noPanicRun, Bool.and_eq_true, Bool.not_eq_true'] at hn
    exact ih (Reach.step op h hn.1) hn.2

def exCfg : Cfg :=
  { maxPubs := 1, maxSubs := 1, bufMax := 2, hist := 0, borrowMax := 1, overflow := true, expired := 0 }

/-- one subscriber (buffer 2, safe overflow), one publisher; three samples sent, one received -/
def exOps : List Op :=
  [.csub 0 none none, .cpub 0 3, .loan 0 0, .send 0 0 11, .loan 0 0, .send 0 0 12, .loan 0 0, .send 0 0 13,
   .recv 0]

/-- non-vacuity: a reachable state with overflow evictions, received samples and pending samples
on one connection -/
example : ∃ (cfg : Cfg) (w : World) (cn : Conn), cfg.Sane ∧ Reach cfg w ∧ cn ∈ w.conns ∧
    cn.gEvicted ≠ [] ∧ cn.gReceived ≠ [] ∧ cn.sub ≠ [] := by
  have h1 : ((run (World.init exCfg) exOps).conns.head?.map fun c => (c.gEvicted, c.gReceived, c.sub)) =
      some ([0], [1], [(2, 2)]) := by decide
  cases hh : (run (World.init exCfg) exOps).conns.head? with
  | none => rw [hh] at h1; cases h1
  | some cn =>
    rw [hh] at h1
    simp only [Option.map_some, Option.some.injEq, Prod.mk.injEq] at h1
    obtain ⟨e1, e2, e3⟩ := h1
    refine ⟨exCfg, run (World.init exCfg) exOps, cn, by decide, reach_run Reach.init exOps (by decide),
      List.mem_of_mem_head? (by rw [hh]; rfl), ?_, ?_, ?_⟩
    · rw [e1]; simp
    · rw [e2]; simp
    · rw [e3]; simp

end Iox2.PubSub.C01

/-! ### axioms -/
