/-
C07 — liveness verdicts are sound and stale cleanup is exclusive.

System: `Iox2.Lifecycle.csys` (Iox2/Model/Lifecycle.lean) — the owner process (node creation, running, orderly
drop), any number of monitor processes (`Node::list` → `ProcessMonitor::state()`) and cleaner processes
(`Node::list` + `DeadNodeView::remove_stale_resources`), one step per system call, every process with an
arbitrary fuse (`Sys.withCrash`: it may die before any of its steps; death releases its record locks).
`Reachable csys c₀ c` = all interleavings and all crash points; `Init c₀` = well-formed start.

Statements that are FALSE as written in the property are kept as comments, refuted by a concrete
interleaving / crash point (replayed on the real code by checklib/pC07.py), and followed by the strongest
true variant (`…_partial` or a differently named positive theorem).
-/
import Iox2.Proof.LifecycleReach
import Iox2.Proof.LifecycleGhost
namespace Iox2.C07
open Iox2.Sched Iox2.Lifecycle

/-! ### vocabulary (part of the statements) -/

/-- `t` is the owner's process and it is running (not crashed) -/
def LiveOwner (t : CTh Th) : Prop := t.inner.role = .owner ∧ t.dead = false

/-- the cal-layer verdict a finished query of `t` produced -/
def ReportsDead (t : CTh Th) : Prop := ∃ v, t.inner.raw = some v ∧ calOf v = .dead

/-- the cleaner owns the clean-up: it is past the successful `F_SETLK` on the owner-lock file and has not closed it -/
def Holds (t : Th) : Prop := t.role = .cleaner ∧ ((25 ≤ t.pc ∧ t.pc ≤ 36) ∨ (40 ≤ t.pc ∧ t.pc ≤ 41))

/-- program counters of the owner at which its state file exists and carries its lock: from the commit of the creation
(final chmod of the context file, pc 17) up to and including the unlink of the state file in the orderly drop (pc 24) -/
def OwnerVisiblyAlive (pc : Nat) : Prop := 17 ≤ pc ∧ pc ≤ 24

/-- the ghost fields of the model (`opc`, `odead`, used to state the invariant) are never read by any step -/
theorem ghost_state_never_read (fs : FS) (t : Th) : (stepL (erase fs) t).map eraseR = (stepL fs t).map eraseR :=
  ghost_irrelevant fs t

/-! ### (a) a running process is never reported dead -/

/-
FALSE as stated:

theorem live_owner_never_reported_dead (h0 : Init c₀) (hr : Reachable csys c₀ c)
    (hm : c.th[i]? = some m) (hmd : m.dead = false) (hv : ReportsDead m)
    (ho : c.th[j]? = some o) (hro : o.inner.role = .owner) : o.dead = true
-/

/-- owner (drops its node orderly) and one monitor -/
def cfgOM : Cfg FS (CTh Th) := { sh := {}, th := [{ inner := mkOwner 0 true }, { inner := mkMonitor 1 }] }

theorem cfgOM_init : Init cfgOM := by
  refine ⟨rfl, ?_, ?_, ?_, ?_⟩
  · intro i ct h
    match i, h with
    | 0, h => simp [cfgOM] at h; subst h; rfl
    | 1, h => simp [cfgOM] at h; subst h; rfl
    | n + 2, h => simp [cfgOM] at h
  · intro i ct h
    match i, h with
    | 0, h => simp [cfgOM] at h; subst h; simp [mkOwner]
    | 1, h => simp [cfgOM] at h; subst h; simp [mkMonitor]
    | n + 2, h => simp [cfgOM] at h
  · intro i ct h
    match i, h with
    | 0, h => simp [cfgOM] at h; subst h; simp [mkOwner]
    | 1, h => simp [cfgOM] at h; subst h; simp [mkMonitor]
    | n + 2, h => simp [cfgOM] at h
  · intro i j ci cj hi hj he
    match i, j, hi, hj with
    | 0, 0, _, _ => rfl
    | 1, 1, _, _ => rfl
    | 0, 1, hi, hj => simp [cfgOM] at hi hj; subst hi; subst hj; simp [mkOwner, mkMonitor] at he
    | 1, 0, hi, hj => simp [cfgOM] at hi hj; subst hi; subst hj; simp [mkOwner, mkMonitor] at he
    | n + 2, _, hi, _ => simp [cfgOM] at hi
    | _, n + 2, _, hj => simp [cfgOM] at hj

instance : DecidablePred LiveOwner := fun t => by unfold LiveOwner; infer_instance

/-- witnesses from a computed configuration: the first two processes satisfy a decidable relation -/
theorem exists_first_two {l : List (CTh Th)} {P : CTh Th → CTh Th → Prop} [∀ a b, Decidable (P a b)]
    (h : (match l[0]?, l[1]? with | some a, some b => decide (P a b) | _, _ => false) = true) :
    ∃ a b, l[0]? = some a ∧ l[1]? = some b ∧ P a b := by
  cases h0 : l[0]? with
  | none => rw [h0] at h; simp at h
  | some a =>
    cases h1 : l[1]? with
    | none => rw [h0, h1] at h; simp at h
    | some b => rw [h0, h1] at h; exact ⟨a, b, rfl, rfl, of_decide_eq_true h⟩

/-- the interleaving of candidate D2: the monitor has opened the state file (10 steps: readdir, stat, details, open /
fstat / open / read of the context file, open + F_GETLK of the owner-lock file, open of the state file); the owner, whose
creation is complete (17 steps), drops its node (6 steps: readdir, unlink details, rmdir, fchmod, unlink state file,
close state file = lock released); the monitor's F_GETLK finds no lock -/
def schedToctou : List Nat := List.replicate 17 0 ++ List.replicate 10 1 ++ List.replicate 6 0 ++ [1]

/-- the interleaving of the `CleaningUp ↦ Dead` mapping: the monitor has listed the node (2 steps); the owner unlinks its
state file (5 steps) and still holds the lock on it; the monitor's query finds no state file: `CleaningUp`, mapped to `Dead` -/
def schedCleaningUp : List Nat := List.replicate 17 0 ++ List.replicate 2 1 ++ List.replicate 5 0 ++ List.replicate 8 1

/-- refutation, first witness: raw `ProcessState::Dead` for a process that is running and never dies -/
theorem live_owner_never_reported_dead_false :
    ∃ c₀ c, Init c₀ ∧ Reachable csys c₀ c ∧ ∃ o m, c.th[0]? = some o ∧ c.th[1]? = some m ∧
      LiveOwner o ∧ o.fuse = none ∧ m.dead = false ∧ m.inner.raw = some .dead ∧ m.inner.listed = some .dead :=
  ⟨cfgOM, (csys.run cfgOM schedToctou).1, cfgOM_init, Sys.run_reachable _ _ _ .init _, exists_first_two (by decide)⟩

/-- refutation, second witness: `Node::list` reports `Dead` while the owner still holds the state-file lock -/
theorem live_owner_never_reported_dead_false' :
    ∃ c₀ c, Init c₀ ∧ Reachable csys c₀ c ∧ ∃ o m, c.th[0]? = some o ∧ c.th[1]? = some m ∧
      LiveOwner o ∧ o.fuse = none ∧ c.sh.st.lock = some 0 ∧ m.dead = false ∧
      m.inner.raw = some .cleaningUp ∧ m.inner.listed = some .dead :=
  ⟨cfgOM, (csys.run cfgOM schedCleaningUp).1, cfgOM_init, Sys.run_reachable _ _ _ .init _, exists_first_two (by decide)⟩

variable {c₀ c : Cfg FS (CTh Th)}

/-- (a), strongest true variant: a running owner is reported dead ONLY after it has itself unlinked its state file in
its orderly drop (pc ≥ 25) — never while it is being created, never while it runs, never in the first part of its drop -/
theorem live_owner_never_reported_dead_partial (h0 : Init c₀) (hr : Reachable csys c₀ c)
    {i j : Nat} {m o : CTh Th} (hm : c.th[i]? = some m) (hmd : m.dead = false) (hmr : m.inner.role = .monitor)
    (hv : ReportsDead m) (ho : c.th[j]? = some o) (hlo : LiveOwner o) : 25 ≤ o.inner.pc := by
  have hI := Inv.reachable h0 hr
  have hL := hI.l i m hm hmd
  have hod : c.sh.odead = false := by
    cases h : c.sh.odead with
    | false => rfl
    | true => have := (hI.ownerDead j o ho hlo.1).2 h; rw [hlo.2] at this; cases this
  have hpc := hI.ownerPc j o ho hlo.1
  have hle := phaseOf_le o.inner.pc
  obtain ⟨v, hraw, hcal⟩ := hv
  rcases calOf_dead hcal with rfl | rfl
  · have := hL.rawDead hmr hraw hod; omega
  · have := hL.rawCleaning hmr hraw hod; omega

/-- corollary in the words of the property: at every step of its creation, while it runs, and in its orderly drop up to
the unlink of the state file, a running owner is not reported dead by any monitor, in any interleaving -/
theorem not_reported_dead_while_starting_or_running (h0 : Init c₀) (hr : Reachable csys c₀ c)
    {i j : Nat} {m o : CTh Th} (hm : c.th[i]? = some m) (hmd : m.dead = false) (hmr : m.inner.role = .monitor)
    (ho : c.th[j]? = some o) (hlo : LiveOwner o) (hpc : o.inner.pc ≤ 24) : ¬ ReportsDead m := by
  intro hv
  have := live_owner_never_reported_dead_partial h0 hr hm hmd hmr hv ho hlo
  omega

/-- a monitor that reports `Alive` has seen the owner's lock; it never answers with an error (`CorruptedState`, unreadable
context file) in any interleaving -/
theorem no_error_verdict (h0 : Init c₀) (hr : Reachable csys c₀ c)
    {i : Nat} {m : CTh Th} (hm : c.th[i]? = some m) (hmd : m.dead = false) :
    m.inner.raw ≠ some .corrupted ∧ m.inner.raw ≠ some .ctxUnreadable :=
  ((Inv.reachable h0 hr).l i m hm hmd).rawErr

/-- "so its resources are never reclaimed from under it": whatever the monitors said, no cleaner gets past the second
`open` of the state file inside `ProcessCleaner::new` (pc 23 …), let alone acquires the clean-up or removes anything,
while the owner's process is running -/
theorem no_reclaim_from_live_owner (h0 : Init c₀) (hr : Reachable csys c₀ c)
    {i j : Nat} {k o : CTh Th} (hk : c.th[i]? = some k) (hkd : k.dead = false) (hkr : k.inner.role = .cleaner)
    (hpc : 20 ≤ k.inner.pc ∧ k.inner.pc ≤ 43) (ho : c.th[j]? = some o) (hro : o.inner.role = .owner) : o.dead = true := by
  have hI := Inv.reachable h0 hr
  exact (hI.ownerDead j o ho hro).2 ((hI.l i k hk hkd).cOwnerDead hkr (Or.inr hpc))

/-- a clean-up that reports success was the clean-up of a dead owner -/
theorem successful_cleanup_only_of_dead_owner (h0 : Init c₀) (hr : Reachable csys c₀ c)
    {i j : Nat} {k o : CTh Th} (hk : c.th[i]? = some k) (hkd : k.dead = false)
    (hres : k.inner.res = some .ok) (ho : c.th[j]? = some o) (hro : o.inner.role = .owner) : o.dead = true := by
  have hI := Inv.reachable h0 hr
  exact (hI.ownerDead j o ho hro).2 ((hI.l i k hk hkd).cOk hres)

/-- the `fatal_panic` of `acquire_cleaner_lock` (`InstanceStillAlive`) is unreachable -/
theorem cleaner_never_panics (h0 : Init c₀) (hr : Reachable csys c₀ c)
    {i : Nat} {k : CTh Th} (hk : c.th[i]? = some k) (hkd : k.dead = false) : k.inner.res ≠ some .panicStillAlive :=
  ((Inv.reachable h0 hr).l i k hk hkd).cNoPanic

/-! ### (b) a dead process is not reported alive for ever -/

theorem querySolo_not_alive {fs : FS} (hG : G fs) (hd : fs.odead = true) {pid : Nat} (hp : pid ≠ 0) :
    ∀ (n q : Nat), q ≤ 8 → (2 ≤ q → 17 ≤ fs.opc) → (q = 7 → fs.ol.linked = false) → querySolo fs pid n q ≠ .alive := by
  intro n
  induction n with
  | zero => intro q _ _ _; simp [querySolo]
  | succ n ih =>
    intro q hq h2 h7
    have hs := qstep_sound hG hp hq h2 h7
    simp only [querySolo]
    cases hqs : qstep fs pid q with
    | next q' =>
      rw [hqs] at hs
      exact ih q' hs.1 hs.2.1 hs.2.2.1
    | done v =>
      rw [hqs] at hs
      intro hv
      have := (hs.2.2.2.2 hv).2
      have := (hG.stLockOwner this).1
      rw [hd] at this; cases this

/-- (b): once the owner's process has died — at ANY step of creation, life or drop, in any interleaving with monitors and
cleaners — a `state()` query that runs to completion answers `Dead`, `CleaningUp`, `Starting` or `DoesNotExist`, never `Alive`
(no timeout is involved: the record lock disappears with the process) -/
theorem dead_owner_never_reported_alive (h0 : Init c₀) (hr : Reachable csys c₀ c)
    {j : Nat} {o : CTh Th} (ho : c.th[j]? = some o) (hro : o.inner.role = .owner) (hod : o.dead = true)
    {pid : Nat} (hp : pid ≠ 0) : querySolo c.sh pid 20 0 ≠ .alive ∧ calOf (querySolo c.sh pid 20 0) ≠ .alive := by
  have hI := Inv.reachable h0 hr
  have hd := (hI.ownerDead j o ho hro).1 hod
  have h := querySolo_not_alive hI.g hd hp 20 0 (by omega) (by omega) (by omega)
  refine ⟨h, ?_⟩
  cases hq : querySolo c.sh pid 20 0 <;> simp [calOf] <;> exact absurd hq h

/-
FALSE as stated in the property ("… it ends up reported dead (and collectable) or absent"): a process killed between the
creation of its state file and the final chmod of the context file is reported `DoesNotExist` for ever (raw: `Starting`)
although all its files exist, and no clean-up ever takes them.

theorem dead_owner_collectable_or_gone (k : Nat) :
    let v := survey (runKill k {} (mkOwner 0 true));  (v.listed = some .dead ∧ v.clean = some .ok ∧ v.left = []) ∨ (runKill k …) is Clean
-/
theorem dead_owner_collectable_or_gone_false :
    let fs := runKill 13 {} (mkOwner 0 true)
    let v := survey fs
    v.listed = some .skipped ∧ v.raw = .starting ∧ v.clean = some .notDead ∧ v.left = ["ctx", "st", "ol", "det", "dir"] := by
  decide

/-! ### (c) concurrent cleaners -/

/-- (c), true part: mutual exclusion — in every reachable state at most one running cleaner owns the clean-up, for any
number of concurrent cleaners -/
theorem cleaners_mutually_exclusive (h0 : Init c₀) (hr : Reachable csys c₀ c)
    {i j : Nat} {a b : CTh Th} (ha : c.th[i]? = some a) (hb : c.th[j]? = some b) (had : a.dead = false) (hbd : b.dead = false)
    (hha : Holds a.inner) (hhb : Holds b.inner) : i = j := by
  have hI := Inv.reachable h0 hr
  have h1 := (hI.l i a ha had).cHolds hha.1 hha.2
  have h2 := (hI.l j b hb hbd).cHolds hhb.1 hhb.2
  rw [h1] at h2
  exact hI.pids i j a b ha hb (by simpa using h2)

/-- the lock that gives the exclusion is held by a process that is running: a cleaner that dies gives it back -/
theorem cleanup_lock_held_by_running_process (h0 : Init c₀) (hr : Reachable csys c₀ c) {p : Nat} (hl : c.sh.ol.lock = some p) :
    ∃ (i : Nat) (t : CTh Th), c.th[i]? = some t ∧ t.dead = false ∧ t.inner.pid = p :=
  (Inv.reachable h0 hr).holder p hl

/-- "the others are told so": a cleaner that finds the lock taken (`F_SETLK` = EAGAIN, then the link-count check of `try_lock`)
ends with `AnotherInstanceIsCleaningUpTheNode` or `ResourcesAlreadyCleanedUp`, and changes nothing -/
theorem contended_cleaner_is_told {fs fs1 fs2 fs2' : FS} {t t1 t2 : Th} {s1 s2 : String} (hpc : t.pc = 24)
    (hl : fs.ol.lockedByOther t.pid = true) (h1 : cleanerStep fs t = some (fs1, t1, s1)) (h2 : cleanerStep fs2 t1 = some (fs2', t2, s2)) :
    fs1 = fs ∧ fs2' = fs2 ∧ t2.pc = pcDone ∧ (t2.res = some .anotherInstance ∨ t2.res = some .alreadyCleanedUp) := by
  unfold cleanerStep at h1
  simp only [hpc, hl, if_true] at h1
  simp only [Option.some.injEq, Prod.mk.injEq] at h1
  obtain ⟨rfl, rfl, _⟩ := h1
  unfold cleanerStep at h2
  simp only [] at h2
  split at h2 <;> simp only [Option.some.injEq, Prod.mk.injEq] at h2 <;> obtain ⟨rfl, rfl, _⟩ := h2 <;> simp

/-
FALSE as stated ("exactly one performs the cleanup"): over a whole history two cleaners can both acquire the clean-up, one
after the other — the second has opened the three files before the first removed them and locks the unlinked inode
(`ProcessCleaner::new` checks the link count only when F_SETLK fails).  Benign: nothing is left for the second one.

theorem at_most_one_cleaner_ever_acquires : … a.inner.res = some .ok → b.inner.res = some .ok → i = j
-/
def cfgOCC : Cfg FS (CTh Th) :=
  { sh := {}, th := [{ inner := mkOwner 0 false, fuse := some 17 }, { inner := mkCleaner 1 }, { inner := mkCleaner 2 }] }

/-- owner: 17 steps, then it dies; cleaner 2: up to just before `F_SETLK` (23 steps); cleaner 1: everything (38 steps);
cleaner 2: the rest -/
def schedDouble : List Nat := List.replicate 18 0 ++ List.replicate 23 2 ++ List.replicate 38 1 ++ List.replicate 16 2

theorem at_most_one_cleaner_ever_acquires_false :
    let c := (csys.run cfgOCC schedDouble).1
    Reachable csys cfgOCC c ∧
    (c.th.map fun t => (t.inner.role, t.inner.res, t.dead)) =
      [(.owner, none, true), (.cleaner, some .ok, false), (.cleaner, some .ok, false)] ∧ leftover c.sh = [] :=
  ⟨Sys.run_reachable _ _ _ .init _, by decide, by decide⟩

/-! ### (d) a cleaner that dies -/

/-- (d), true part, all interleavings: while the state file of a dead, committed owner still exists, the whole token is
intact — context (initialised), owner-lock and state file exist, nobody holds the state-file lock — whatever cleaners have
done or wherever they died; the node is reported `Dead` and can be taken by the next cleaner as soon as no running cleaner
holds the lock (`cleanup_lock_held_by_running_process`).  The complete take-over is `C04Fs.survivor_cleanup_general`. -/
theorem token_intact_while_state_file_exists (h0 : Init c₀) (hr : Reachable csys c₀ c)
    {j : Nat} {o : CTh Th} (ho : c.th[j]? = some o) (hro : o.inner.role = .owner) (hod : o.dead = true)
    (hpc : OwnerVisiblyAlive (phaseOf o.inner.pc)) (hst : c.sh.st.linked = true) :
    c.sh.ctx.linked = true ∧ c.sh.ol.linked = true ∧ c.sh.ctx.perm = .final ∧ c.sh.st.lock = none ∧
    c.sh.ctxPid = some 0 ∧ c.sh.det.perm = .final := by
  have hI := Inv.reachable h0 hr
  have hd := (hI.ownerDead j o ho hro).1 hod
  have hopc := hI.ownerPc j o ho hro
  have h17 : 17 ≤ c.sh.opc := by rw [hopc]; exact hpc.1
  obtain ⟨h1, h2⟩ := hI.g.order h17 hst
  refine ⟨h2, h1, hI.g.ctxFinal' h17, ?_, hI.g.ctxPid (by omega), hI.g.detFinal (by omega)⟩
  rcases hI.g.stLock with h | h
  · exact h
  · have := (hI.g.stLockOwner h).1; rw [hd] at this; cases this

/-
FALSE as stated ("a cleaner that dies itself does not make the resources uncollectable"): a cleaner (or an owner in its
orderly drop) that dies after `unlink(state file)` leaves the owner-lock and context files; `Node::list` no longer shows the
node, `state()` answers `CleaningUp` for ever, every later `ProcessCleaner::new` is refused.  Machine-checked in
`C04Fs.cleaner_crash_after_state_unlink_not_clean`.
-/

/-! ### non-vacuity: the hypotheses of the positive theorems are met in reachable states -/

/-- a running owner (past the unlink of its state file, pc = 26 ≥ 25) together with a running monitor that reports it dead -/
example : ∃ c, Reachable csys cfgOM c ∧ ∃ o m, c.th[0]? = some o ∧ c.th[1]? = some m ∧
    (LiveOwner o ∧ m.dead = false ∧ m.inner.role = .monitor ∧ m.inner.raw = some .dead ∧ 25 ≤ o.inner.pc) :=
  ⟨(csys.run cfgOM schedToctou).1, Sys.run_reachable _ _ _ .init _, exists_first_two (by decide)⟩

/-- a dead owner, a running cleaner that holds the clean-up (pc 32) and a second running cleaner that does not -/
example : let c := (csys.run cfgOCC (List.replicate 18 0 ++ List.replicate 30 1 ++ List.replicate 10 2)).1
    Reachable csys cfgOCC c ∧
    (c.th.map fun t => (t.inner.role, t.inner.pc, t.dead)) = [(.owner, 17, true), (.cleaner, 32, false), (.cleaner, 12, false)] ∧
    c.sh.ol.lock = some 1 :=
  ⟨Sys.run_reachable _ _ _ .init _, by decide, by decide⟩

/-- the owner died right after the commit; the state file exists; nobody holds the clean-up lock -/
example : let c := (csys.run cfgOCC (List.replicate 18 0)).1
    Reachable csys cfgOCC c ∧ (c.th.map fun t => (t.inner.role, phaseOf t.inner.pc, t.dead)).head? = some (.owner, 17, true) ∧
    c.sh.st.linked = true ∧ c.sh.ol.lock = none ∧ c.sh.tagsInit = 0 :=
  ⟨Sys.run_reachable _ _ _ .init _, by decide, by decide, by decide, by decide⟩

end Iox2.C07
