/-
C19 — names are validated and domains are isolated: statements and proofs.
Helper lemmas (not part of the original statement list) are interleaved; the theorems of the original
statement list keep their names, statements and doc comments, and are listed under `#print axioms`
at the end of the file.
-/
import Iox2.Model.Names
import Iox2.Props.C16Str

namespace Iox2.C19
open Iox2 Iox2.Names

/-- well-formed semantic string value: capacity of its type, contents valid for its type -/
def Inv (x : SemStr) : Prop := x.s.cap = x.ty.cap ∧ x.ty.valid x.s.bytes = true

def isErr : Res → Bool
  | .errContent | .errLen | .panic => true
  | _ => false

/-! ## validation -/

theorem insertBytes_spec (x : SemStr) (i : Nat) (bs : List Nat) :
    x.insertBytes i bs =
      if x.s.bytes.length < i then (x, .panic)
      else if x.s.cap < x.s.bytes.length + bs.length then (x, .errLen)
      else if bs.all Iox2.Str.validByte = true then
        (if x.ty.invalid (x.s.bytes.take i ++ bs ++ x.s.bytes.drop i) = true then (x, .errContent)
         else ({ x with s := { x.s with bytes := x.s.bytes.take i ++ bs ++ x.s.bytes.drop i } }, .ok))
      else (x, .errContent) := by
  unfold SemStr.insertBytes Iox2.Str.insertBytes
  by_cases h1 : x.s.bytes.length < i
  · simp [h1]
  · by_cases h2 : x.s.cap < x.s.bytes.length + bs.length
    · simp [h1, h2]
    · by_cases h3 : bs.all Iox2.Str.validByte = true
      · simp only [h1, h2, h3, if_true, if_false]
      · simp [h1, h2, h3]

/-- an accepted file name cannot denote anything outside its directory -/
theorem fileName_safe (b : List Nat) (h : Ty.fileName.valid b = true) :
    SEP ∉ b ∧ 0 ∉ b ∧ b ≠ [] ∧ b ≠ [DOT] ∧ b ≠ [DOT, DOT] ∧ b.length ≤ 255 ∧ ∀ c ∈ b, 32 ≤ c ∧ c < 128 := by
  simp only [Ty.valid, Ty.invalid, Ty.cap, Bool.and_eq_true, Bool.not_eq_true', Bool.or_eq_false_iff,
    List.all_eq_true, decide_eq_true_eq, decide_eq_false_iff_not, List.any_eq_false] at h
  obtain ⟨⟨hl, hv⟩, ⟨⟨⟨hb, h1⟩, h2⟩, h3⟩⟩ := h
  refine ⟨?_, ?_, h1, h2, h3, of_decide_eq_true hl, ?_⟩
  · intro hm; have := hb _ hm; simp [fileBadByte] at this
  · intro hm; have := hb _ hm; simp [fileBadByte, pathBadByte] at this
  · intro c hc
    have := hb _ hc
    have := hv _ hc
    simp [fileBadByte, pathBadByte] at *
    omega

theorem valid_iff (t : Ty) (b : List Nat) :
    t.valid b = true ↔ b.length ≤ t.cap ∧ (∀ c ∈ b, Iox2.Str.validByte c = true) ∧ t.invalid b = false := by
  simp [Ty.valid, Iox2.Str.validByte, and_assoc]

theorem new_spec (t : Ty) (b : List Nat) :
    SemStr.new t b =
      if t.cap < b.length then (none, .errLen)
      else if b.all Iox2.Str.validByte = true then
        (if t.invalid b = true then (none, .errContent)
         else (some { ty := t, s := { cap := t.cap, bytes := b } }, .ok))
      else (none, .errContent) := by
  unfold SemStr.new
  rw [insertBytes_spec]
  simp only [Iox2.Str.init, List.length_nil, Nat.not_lt_zero, if_false, Nat.zero_add, List.take_nil,
    List.drop_nil, List.nil_append, List.append_nil]
  (repeat' split) <;> simp_all

/-- the constructor accepts exactly the valid byte strings, and stores them unchanged (round trip) -/
theorem new_ok_iff_valid (t : Ty) (b : List Nat) :
    (SemStr.new t b).2 = .ok ↔ t.valid b = true := by
  rw [new_spec, valid_iff]
  (repeat' split) <;> simp_all
  all_goals grind

theorem new_roundtrip (t : Ty) (b : List Nat) (x : SemStr) (h : (SemStr.new t b).1 = some x) :
    x.s.bytes = b ∧ x.ty = t ∧ Inv x := by
  rw [new_spec] at h
  unfold Inv
  rw [valid_iff]
  (repeat' split at h) <;> simp_all
  subst h
  simp_all

/-- an invalid byte string is rejected with the documented error: too long → `ExceedsMaximumLength`,
otherwise `InvalidContent` -/
theorem new_error_kind (t : Ty) (b : List Nat) (h : t.valid b = false) :
    (SemStr.new t b).1 = none ∧
    (SemStr.new t b).2 = (if t.cap < b.length then .errLen else .errContent) := by
  have hv : ¬ (b.length ≤ t.cap ∧ (∀ c ∈ b, Iox2.Str.validByte c = true) ∧ t.invalid b = false) := by
    rw [← valid_iff]; simp [h]
  rw [new_spec]
  by_cases h1 : t.cap < b.length
  · simp [h1]
  · by_cases h2 : b.all Iox2.Str.validByte = true
    · by_cases h3 : t.invalid b = true
      · simp [h1, h2, h3]
      · exfalso; apply hv
        refine ⟨by omega, by simpa using h2, by simpa using h3⟩
    · simp [h1, h2]

theorem strInv_of_inv {x : SemStr} (h : Inv x) : Iox2.C16.StrP.Inv x.s := by
  obtain ⟨hc, hv⟩ := h
  rw [valid_iff] at hv
  exact ⟨by omega, hv.2.1⟩

theorem insertBytes_inv (x : SemStr) (i : Nat) (bs : List Nat) (h : Inv x) :
    Inv (x.insertBytes i bs).1 ∧ (x.insertBytes i bs).1.ty = x.ty ∧
      (isErr (x.insertBytes i bs).2 = true → (x.insertBytes i bs).1 = x) := by
  rw [insertBytes_spec]
  have h0 := h
  obtain ⟨hc, hv⟩ := h
  rw [valid_iff] at hv
  obtain ⟨hl, hb, hi⟩ := hv
  (repeat' split) <;> simp_all [isErr]
  rename_i h1 h2 h3 h4
  refine ⟨rfl, ?_⟩
  rw [valid_iff]
  refine ⟨?_, ?_, ?_⟩
  · simp; omega
  · intro c hm
    simp only [List.mem_append] at hm
    rcases hm with hm | hm | hm
    · exact hb c (List.mem_of_mem_take hm)
    · exact h3 c hm
    · exact hb c (List.mem_of_mem_drop hm)
  · simpa using h4

theorem commit_inv (x : SemStr) (s' : Iox2.Str.St) (r : Res) (h : Inv x)
    (hs : Iox2.C16.StrP.Inv s') (hc : s'.cap = x.s.cap) (hr : isErr r = false) :
    Inv (x.commit s' r).1 ∧ (x.commit s' r).1.ty = x.ty ∧
      (isErr (x.commit s' r).2 = true → (x.commit s' r).1 = x) := by
  unfold SemStr.commit
  split
  · simp [h]
  · rename_i hi
    refine ⟨⟨?_, ?_⟩, rfl, ?_⟩
    · simp [hc, h.1]
    · rw [valid_iff]
      refine ⟨?_, hs.2, by simpa using hi⟩
      have := hs.1
      have := h.1
      simp; omega
    · simp [hr]

theorem optRes_noErr (o : Iox2.Str.Out) : isErr (optRes o) = false := by
  cases o <;> rfl

/-- every editing operation yields a valid value, and leaves the value untouched when it reports an error -/
theorem step_preserves_valid (x : SemStr) (op : Op) (h : Inv x) :
    Inv (x.step op).1 ∧ (x.step op).1.ty = x.ty ∧ (isErr (x.step op).2 = true → (x.step op).1 = x) := by
  have hs := strInv_of_inv h
  cases op with
  | push b => exact insertBytes_inv x _ _ h
  | pushBytes bs => exact insertBytes_inv x _ _ h
  | insert i b => exact insertBytes_inv x _ _ h
  | insertBytes i bs => exact insertBytes_inv x _ _ h
  | pop =>
    simp only [SemStr.step]
    split
    · simp [h, isErr]
    · have := Iox2.C16.StrP.step_inv x.s (.remove (x.s.bytes.length - 1)) hs
      exact commit_inv x _ _ h this.1 this.2 (optRes_noErr _)
  | remove i =>
    have := Iox2.C16.StrP.step_inv x.s (.remove i) hs
    exact commit_inv x _ _ h this.1 this.2 (optRes_noErr _)
  | removeRange i n =>
    have := Iox2.C16.StrP.step_inv x.s (.removeRange i n) hs
    exact commit_inv x _ _ h this.1 this.2 rfl
  | retain b =>
    have := Iox2.C16.StrP.step_inv x.s (.retain b) hs
    exact commit_inv x _ _ h this.1 this.2 rfl
  | stripPrefix bs =>
    have := Iox2.C16.StrP.step_inv x.s (.stripPrefix bs) hs
    simp only [SemStr.step]
    split
    · rename_i s' heq
      rw [heq] at this
      exact commit_inv x _ _ h this.1 this.2 rfl
    · simp [h, isErr]
  | stripSuffix bs =>
    have := Iox2.C16.StrP.step_inv x.s (.stripSuffix bs) hs
    simp only [SemStr.step]
    split
    · rename_i s' heq
      rw [heq] at this
      exact commit_inv x _ _ h this.1 this.2 rfl
    · simp [h, isErr]
  | truncate n =>
    have := Iox2.C16.StrP.step_inv x.s (.truncate n) hs
    exact commit_inv x _ _ h this.1 this.2 rfl
  | find bs => simp [SemStr.step, h, optRes_noErr]
  | rfind bs => simp [SemStr.step, h, optRes_noErr]
  | dump => simp [SemStr.step, h, isErr]

theorem addPathEntry_preserves_valid (x : SemStr) (e : List Nat) (h : Inv x) (hp : x.ty = .path) :
    Inv (addPathEntry x e).1 := by
  have _ := hp
  unfold addPathEntry
  have h1 := (step_preserves_valid x (.push SEP) h).1
  split
  · rename_i x1 r1 heq
    have hx1 : Inv x1 := by
      split at heq
      · rw [heq] at h1; exact h1
      · cases heq; exact h
    split
    · exact (step_preserves_valid x1 _ hx1).1
    · exact hx1

/-- service names: accepted iff non-empty, at most 255 bytes, ASCII 1..127, not starting with `iox2://` -/
theorem serviceName_ok_iff (b : List Nat) :
    serviceName b = .ok ↔
      (b ≠ [] ∧ b.length ≤ 255 ∧ (∀ c ∈ b, 0 < c ∧ c < 128) ∧ IOX2_PREFIX.isPrefixOf b = false) := by
  unfold serviceName
  (repeat' split) <;> simp_all [Iox2.Str.validByte] <;> grind

theorem nodeName_ok_iff (b : List Nat) :
    nodeName b = .ok ↔ (b.length ≤ 128 ∧ ∀ c ∈ b, 0 < c ∧ c < 128) := by
  unfold nodeName
  (repeat' split) <;> simp_all [Iox2.Str.validByte] <;> grind

/-! ## containment -/

theorem insertBytes_end_ok (x x' : SemStr) (bs : List Nat)
    (h : x.insertBytes x.s.bytes.length bs = (x', .ok)) : x'.s.bytes = x.s.bytes ++ bs := by
  rw [insertBytes_spec] at h
  (repeat' split at h) <;> simp_all
  rw [← h]

theorem pushBytes_ok (x x' : SemStr) (bs : List Nat)
    (h : x.step (.pushBytes bs) = (x', .ok)) : x'.s.bytes = x.s.bytes ++ bs :=
  insertBytes_end_ok x x' bs h

theorem push_ok (x x' : SemStr) (b : Nat)
    (h : x.step (.push b) = (x', .ok)) : x'.s.bytes = x.s.bytes ++ [b] :=
  insertBytes_end_ok x x' [b] h

theorem addPathEntry_ok (x x' : SemStr) (e : List Nat) (h : addPathEntry x e = (x', .ok)) :
    x'.s.bytes = x.s.bytes ++ (if x.s.bytes ≠ [] ∧ x.s.bytes.getLast? ≠ some SEP then [SEP] else []) ++ e := by
  unfold addPathEntry at h
  split at h
  rename_i x1 r1 heq
  split at h
  · have := pushBytes_ok _ _ _ h
    rw [this]
    split at heq
    · rename_i hc
      rw [if_pos hc, push_ok _ _ _ heq]
    · rename_i hc
      cases heq
      rw [if_neg hc]; simp
  · rename_i hne
    cases h
    exact absurd rfl hne

theorem pathFor_bytes (c : Cfg) (n fp : List Nat) (h : pathFor c n = some fp) :
    fp = c.hint ++ (if c.hint ≠ [] ∧ c.hint.getLast? ≠ some SEP then [SEP] else []) ++ c.pre ++ n ++ c.suf := by
  unfold pathFor at h
  simp only at h
  split at h
  · rename_i p1 h1
    split at h
    · rename_i p2 h2
      split at h
      · rename_i p3 h3
        cases h
        rw [pushBytes_ok _ _ _ h3, pushBytes_ok _ _ _ h2, addPathEntry_ok _ _ _ h1]
      · cases h
    · cases h
  · cases h

theorem findRev_some (p : Nat → Bool) (n i : Nat) (hi : i < n) (hp : p i = true)
    (hlast : ∀ j, i < j → j < n → p j = false) : (List.range n).reverse.find? p = some i := by
  induction n with
  | zero => omega
  | succ n ih =>
    rw [List.range_succ, List.reverse_append, List.reverse_singleton, List.singleton_append,
      List.find?_cons]
    by_cases hin : i = n
    · subst hin; simp [hp]
    · have : p n = false := hlast n (by omega) (by omega)
      rw [this]
      exact ih (by omega) (fun j h1 h2 => hlast j h1 (by omega))

theorem lastSep_append (a r : List Nat) (hr : SEP ∉ r) : lastSep (a ++ SEP :: r) = some a.length := by
  unfold lastSep
  apply findRev_some
  · simp
  · simp
  · intro j h1 h2
    simp only [List.length_append, List.length_cons] at h2
    obtain ⟨k, rfl⟩ : ∃ k, j = a.length + (k + 1) := ⟨j - a.length - 1, by omega⟩
    have hlt : k < r.length := by omega
    have : (a ++ SEP :: r).getD (a.length + (k + 1)) 0 = r[k] := by
      simp only [List.getD_eq_getElem?_getD]
      rw [List.getElem?_append_right (by omega)]
      have : a.length + (k + 1) - a.length = k + 1 := by omega
      rw [this, List.getElem?_cons_succ, List.getElem?_eq_getElem hlt, Option.getD_some]
    rw [this]
    have hm : r[k] ∈ r := List.getElem_mem hlt
    simp only [decide_eq_false_iff_not]
    intro he
    exact hr (he ▸ hm)

theorem fileNameOf_append (a r : List Nat) (hr : SEP ∉ r) : fileNameOf (a ++ SEP :: r) = r := by
  unfold fileNameOf
  rw [lastSep_append a r hr]
  simp

theorem parentOf_append (a r : List Nat) (hr : SEP ∉ r) :
    parentOf (a ++ SEP :: r) = if a = [] then [SEP] else a := by
  unfold parentOf
  rw [lastSep_append a r hr]
  simp

theorem sep_notin_name (p n s : List Nat)
    (hp : Ty.fileName.valid p = true) (hn : Ty.fileName.valid n = true) (hs : Ty.fileName.valid s = true) :
    SEP ∉ p ++ n ++ s := by
  have := (fileName_safe p hp).1
  have := (fileName_safe n hn).1
  have := (fileName_safe s hs).1
  simp_all

theorem pathFor_decomp (c : Cfg) (n fp : List Nat) (hh : c.hint ≠ [])
    (h : pathFor c n = some fp) :
    ∃ a, fp = a ++ SEP :: (c.pre ++ n ++ c.suf) ∧
      ((c.hint = a ∧ c.hint.getLast? ≠ some SEP) ∨ c.hint = a ++ [SEP]) := by
  have hb := pathFor_bytes c n fp h
  by_cases hl : c.hint.getLast? = some SEP
  · obtain ⟨a, ha⟩ : ∃ a, c.hint = a ++ [SEP] := by
      rw [List.getLast?_eq_some_iff] at hl
      exact hl
    refine ⟨a, ?_, Or.inr ha⟩
    rw [hb, if_neg (by simp [hl])]
    simp [ha]
  · refine ⟨c.hint, ?_, Or.inl ⟨rfl, hl⟩⟩
    rw [hb, if_pos ⟨hh, hl⟩]
    simp

/-- what `path_for` builds: the hint, one separator if needed, then prefix ++ name ++ suffix;
the last component is exactly prefix ++ name ++ suffix (no escape from the hint directory) -/
theorem pathFor_shape (c : Cfg) (n fp : List Nat)
    (hp : Ty.fileName.valid c.pre = true) (hn : Ty.fileName.valid n = true) (hs : Ty.fileName.valid c.suf = true)
    (h : pathFor c n = some fp) :
    fp = c.hint ++ (if c.hint ≠ [] ∧ c.hint.getLast? ≠ some SEP then [SEP] else []) ++ c.pre ++ n ++ c.suf ∧
    (c.hint ≠ [] → fileNameOf fp = c.pre ++ n ++ c.suf) := by
  refine ⟨pathFor_bytes c n fp h, ?_⟩
  intro hh
  obtain ⟨a, ha, -⟩ := pathFor_decomp c n fp hh h
  rw [ha]
  exact fileNameOf_append a _ (sep_notin_name _ _ _ hp hn hs)

theorem stripPrefix_spec (x : SemStr) (bs : List Nat) :
    x.step (.stripPrefix bs) =
      if bs.isPrefixOf x.s.bytes = true then
        (if x.ty.invalid (x.s.bytes.drop bs.length) = true then (x, .errContent)
         else ({ x with s := { x.s with bytes := x.s.bytes.drop bs.length } }, .tt))
      else (x, .ff) := by
  simp only [SemStr.step, Iox2.Str.step, Iox2.Str.isPrefixAt, SemStr.commit]
  by_cases h1 : bs.isPrefixOf x.s.bytes = true
  · simp only [h1, if_true]
  · simp [h1]

theorem stripSuffix_spec (x : SemStr) (bs : List Nat) :
    x.step (.stripSuffix bs) =
      if isSuffix bs x.s.bytes = true then
        (if x.ty.invalid (x.s.bytes.take (x.s.bytes.length - bs.length)) = true then (x, .errContent)
         else ({ x with s := { x.s with bytes := x.s.bytes.take (x.s.bytes.length - bs.length) } }, .tt))
      else (x, .ff) := by
  simp only [SemStr.step, Iox2.Str.step, isSuffix, SemStr.commit, Bool.and_eq_true, decide_eq_true_eq]
  by_cases h1 : x.s.bytes.length < bs.length
  · have : ¬ (bs.length ≤ x.s.bytes.length) := by omega
    simp [h1, this]
  · have h1' : bs.length ≤ x.s.bytes.length := by omega
    by_cases h2 : x.s.bytes.drop (x.s.bytes.length - bs.length) = bs
    · simp only [h1, h2, h1', if_true, if_false, and_self]
    · simp [h1, h2]

theorem extractName_spec (c : Cfg) (file : List Nat) :
    extractName c file =
      if c.pre.isPrefixOf file = true then
        (if Ty.fileName.invalid (file.drop c.pre.length) = true then .panic
         else if isSuffix c.suf (file.drop c.pre.length) = true then
           (if Ty.fileName.invalid ((file.drop c.pre.length).take ((file.drop c.pre.length).length - c.suf.length)) = true
            then .panic
            else .name ((file.drop c.pre.length).take ((file.drop c.pre.length).length - c.suf.length)))
         else .none)
      else .none := by
  unfold extractName
  simp only [stripPrefix_spec]
  by_cases h1 : c.pre.isPrefixOf file = true
  · simp only [h1, if_true]
    by_cases h2 : Ty.fileName.invalid (file.drop c.pre.length) = true
    · simp only [h2, if_true]
    · simp only [h2, if_false, Bool.false_eq_true, stripSuffix_spec]
      by_cases h3 : isSuffix c.suf (file.drop c.pre.length) = true
      · simp only [h3, if_true]
        by_cases h4 : Ty.fileName.invalid ((file.drop c.pre.length).take ((file.drop c.pre.length).length - c.suf.length)) = true
        · simp only [h4, if_true]
        · simp only [h4, if_false, Bool.false_eq_true]
      · simp only [h3, if_false, Bool.false_eq_true]
  · simp only [h1, if_false, Bool.false_eq_true]

theorem fileName_invalid_false_iff (b : List Nat) :
    Ty.fileName.invalid b = false ↔
      (∀ c ∈ b, fileBadByte c = false) ∧ b ≠ [] ∧ b ≠ [DOT] ∧ b ≠ [DOT, DOT] := by
  simp [Ty.invalid, and_assoc]

theorem invalid_append_false (n s : List Nat)
    (hn : Ty.fileName.invalid n = false) (hs : Ty.fileName.invalid s = false) :
    Ty.fileName.invalid (n ++ s) = false := by
  rw [fileName_invalid_false_iff] at *
  obtain ⟨n1, n2, n3, n4⟩ := hn
  obtain ⟨s1, s2, s3, s4⟩ := hs
  refine ⟨?_, ?_, ?_, ?_⟩
  · intro c hc
    rcases List.mem_append.mp hc with h | h
    · exact n1 c h
    · exact s1 c h
  · simp [n2]
  · intro h
    have := congrArg List.length h
    cases n <;> cases s <;> simp_all
  · intro h
    match n, s with
    | [], _ => exact n2 rfl
    | _, [] => exact s2 rfl
    | [a], [b] => simp_all
    | a :: a' :: n', b :: s' =>
      have := congrArg List.length h
      simp at this
    | [a], b :: b' :: s' =>
      have := congrArg List.length h
      simp at this

theorem extractName_roundtrip_core (c : Cfg) (n : List Nat)
    (hn : Ty.fileName.valid n = true) (hs : Ty.fileName.valid c.suf = true) :
    extractName c (c.pre ++ n ++ c.suf) = .name n := by
  have hni := ((valid_iff _ _).mp hn).2.2
  have hsi := ((valid_iff _ _).mp hs).2.2
  rw [extractName_spec]
  have e1 : c.pre.isPrefixOf (c.pre ++ n ++ c.suf) = true := by
    rw [List.isPrefixOf_iff_prefix, List.append_assoc]; exact List.prefix_append _ _
  have e2 : (c.pre ++ n ++ c.suf).drop c.pre.length = n ++ c.suf := by
    rw [List.append_assoc]; exact List.drop_left
  have e3 : isSuffix c.suf (n ++ c.suf) = true := by
    simp [isSuffix]
  have e4 : (n ++ c.suf).take ((n ++ c.suf).length - c.suf.length) = n := by
    simp
  rw [if_pos e1, e2, if_neg (by simp [invalid_append_false n c.suf hni hsi]), if_pos e3, e4,
    if_neg (by simp [hni])]

/-- stripping prefix and suffix inverts the file-name construction -/
theorem extractName_roundtrip (c : Cfg) (n : List Nat)
    (hp : Ty.fileName.valid c.pre = true) (hn : Ty.fileName.valid n = true) (hs : Ty.fileName.valid c.suf = true)
    (hl : (c.pre ++ n ++ c.suf).length ≤ 255) :
    extractName c (c.pre ++ n ++ c.suf) = .name n := by
  have _ := hl
  have _ := hp
  exact extractName_roundtrip_core c n hn hs

/-! ## isolation -/

/-- a file whose name does not start with the domain's prefix is never attributed to the domain -/
theorem extract_requires_prefix (c : Cfg) (file : List Nat) (h : c.pre.isPrefixOf file = false) :
    extractName c file = .none := by
  rw [extractName_spec, if_neg (by simp [h])]

/-- **isolation by prefix**: if neither prefix is a prefix of the other, no file of domain 2 is
ever seen (listed, opened, cleaned up) by domain 1 -/
theorem isolation_prefix (c1 c2 : Cfg) (n : List Nat)
    (h12 : c1.pre.isPrefixOf c2.pre = false) (h21 : c2.pre.isPrefixOf c1.pre = false) :
    extractName c1 (c2.pre ++ n ++ c2.suf) = .none := by
  apply extract_requires_prefix
  rw [Bool.eq_false_iff]
  intro h
  rw [List.isPrefixOf_iff_prefix] at h
  have h2 : c2.pre <+: c2.pre ++ n ++ c2.suf := by
    rw [List.append_assoc]; exact List.prefix_append _ _
  rcases List.prefix_or_prefix_of_prefix h h2 with h' | h'
  · rw [← List.isPrefixOf_iff_prefix] at h'; simp [h12] at h'
  · rw [← List.isPrefixOf_iff_prefix] at h'; simp [h21] at h'

/-- **the unrestricted isolation statement is false** (finding D5): when one prefix extends the
other, the shorter-prefix domain attributes the other domain's files to itself -/
theorem isolation_fails_for_prefix_extension :
    ∃ c1 c2 : Cfg, ∃ n m : List Nat, c1.pre ≠ c2.pre ∧ Ty.fileName.valid n = true ∧
      extractName c1 (c2.pre ++ n ++ c2.suf) = .name m := by
  -- "dom_" vs "dom_1", same suffix ".node": file "dom_1" ++ "23" ++ ".node" is seen as name "123"
  refine ⟨⟨[], [100, 111, 109, 95], [46, 110, 111, 100, 101]⟩,
    ⟨[], [100, 111, 109, 95, 49], [46, 110, 111, 100, 101]⟩, [50, 51], [49, 50, 51], ?_, ?_, ?_⟩
  · decide
  · decide
  · decide

/-- **isolation by suffix** (different concept kinds share a directory): a file that does not
end with the suffix is not attributed -/
theorem extract_requires_suffix (c : Cfg) (file : List Nat)
    (h : isSuffix c.suf (file.drop c.pre.length) = false) :
    extractName c file = .none ∨ extractName c file = .panic := by
  rw [extractName_spec]
  (repeat' split) <;> simp_all

theorem splitSep_ne_nil (l : List Nat) : splitSep l ≠ [] := by
  cases l with
  | nil => simp [splitSep]
  | cons c cs =>
    simp only [splitSep]
    split
    · simp
    · split <;> simp

theorem splitSep_append_sep (a : List Nat) : splitSep (a ++ [SEP]) = splitSep a ++ [[]] := by
  induction a with
  | nil => simp [splitSep]
  | cons c cs ih =>
    simp only [List.cons_append, splitSep, ih]
    have := splitSep_ne_nil cs
    cases hsp : splitSep cs with
    | nil => exact absurd hsp this
    | cons w ws =>
      simp only [List.cons_append]
      split <;> simp

theorem normalizePath_append_sep (a : List Nat) (ha : a ≠ []) :
    normalizePath (a ++ [SEP]) = normalizePath a := by
  unfold normalizePath
  rw [splitSep_append_sep]
  have : (a ++ [SEP]).head? = a.head? := by
    cases a with
    | nil => exact absurd rfl ha
    | cons c cs => rfl
  simp [this]

theorem normalize_parent (c : Cfg) (n fp : List Nat)
    (hp : Ty.fileName.valid c.pre = true) (hn : Ty.fileName.valid n = true) (hs : Ty.fileName.valid c.suf = true)
    (hh : c.hint ≠ []) (h : pathFor c n = some fp) :
    normalizePath (parentOf fp) = normalizePath c.hint := by
  obtain ⟨a, ha, hcase⟩ := pathFor_decomp c n fp hh h
  rw [ha, parentOf_append a _ (sep_notin_name _ _ _ hp hn hs)]
  rcases hcase with ⟨h1, _⟩ | h1
  · rw [if_neg (by rw [← h1]; exact hh), h1]
  · by_cases hane : a = []
    · rw [if_pos hane, h1, hane]; rfl
    · rw [if_neg hane, h1, normalizePath_append_sep a hane]

/-- **isolation by root path** (attempt last; needs lemmas about `splitSep`/`joinSep`/`lastSep`):
a path built by domain 2 under a different (normalised) root is not attributed to domain 1 -/
theorem isolation_root (c1 c2 : Cfg) (n fp : List Nat)
    (hp : Ty.fileName.valid c2.pre = true) (hn : Ty.fileName.valid n = true) (hs : Ty.fileName.valid c2.suf = true)
    (hh : c2.hint ≠ [])
    (hroot : normalizePath c1.hint ≠ normalizePath c2.hint)
    (h : pathFor c2 n = some fp) :
    extractFromPath c1 fp = .none := by
  unfold extractFromPath
  rw [normalize_parent c2 n fp hp hn hs hh h, if_pos hroot]

/-- … and within its own root the domain finds its own names again -/
theorem extractFromPath_roundtrip (c : Cfg) (n fp : List Nat)
    (hp : Ty.fileName.valid c.pre = true) (hn : Ty.fileName.valid n = true) (hs : Ty.fileName.valid c.suf = true)
    (hh : c.hint ≠ [])
    (h : pathFor c n = some fp) :
    extractFromPath c fp = .name n := by
  unfold extractFromPath
  rw [normalize_parent c n fp hp hn hs hh h, if_neg (by simp),
    (pathFor_shape c n fp hp hn hs h).2 hh]
  exact extractName_roundtrip_core c n hn hs

end Iox2.C19

