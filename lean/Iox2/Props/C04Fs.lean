/-
C04 (file-system level) — a process killed at ANY system call while creating or dropping a node, or while cleaning up a
dead node: what survivors see (`Node::list`, raw `ProcessState`), what a survivor's complete clean-up attempt returns, and
what is left afterwards.  Model: Iox2/Model/Lifecycle.lean (`runKill k` = the victim runs k steps = k system calls, then is
killed; `survey` = one surviving monitor, then one surviving cleaner, each running alone to its end).

`owner_kill_table` / `cleaner_kill_table` are the complete kill-point tables; checklib/pC07.py produces the same tables from the
real binaries (SIGKILL injected on entering the system call of step k) and compares them line by line.  The property's
statement ("… removing its stale resources from another process succeeds; afterwards no file owned solely by the dead node
remains") is FALSE at the kill points listed in the `…_not_clean` theorems and true at all others (`…_clean`).
-/
import Iox2.Proof.LifecycleReach
import Iox2.Proof.LifecycleSolo
namespace Iox2.C04Fs
open Iox2.Sched Iox2.Lifecycle

/-! ### kill points of node creation and orderly node drop -/

/-- steps of the owner, numbered from 0: 0 mkdir dir · 1 creat det · 2 fchmod det · 3 write det · 4 fsync det ·
5 fchmod det (final) · 6 creat ctx · 7 fchmod ctx · 8 creat st · 9 fchmod st · 10 creat ol · 11 fchmod ol · 12 write ctx ·
13 setlk st · 14 fchmod ol (final) · 15 fchmod st (final) · 16 fchmod ctx (final = commit) · 17 readdir dir · 18 unlink det ·
19 rmdir dir · 20 fchmod st · 21 unlink st · 22 close st · 23 fchmod ol · 24 unlink ol · 25 close ol · 26 fchmod ctx ·
27 unlink ctx · 28 close ctx · 29 close det.  `k` = number of completed steps when the process is killed. -/
def ownerKillExpected (k : Nat) : Survey :=
  if k = 0 then ⟨some .notListed, .doesNotExist, some .notDead, []⟩
  else if k = 1 then ⟨some .notListed, .doesNotExist, some .notDead, ["dir"]⟩
  else if k ≤ 6 then ⟨some .notListed, .doesNotExist, some .notDead, ["det", "dir"]⟩
  else if k ≤ 8 then ⟨some .notListed, .starting, some .notDead, ["ctx", "det", "dir"]⟩
  else if k ≤ 10 then ⟨some .skipped, .starting, some .notDead, ["ctx", "st", "det", "dir"]⟩
  else if k ≤ 16 then ⟨some .skipped, .starting, some .notDead, ["ctx", "st", "ol", "det", "dir"]⟩
  else if k ≤ 21 then ⟨some .dead, .dead, some .ok, []⟩
  else if k ≤ 24 then ⟨some .notListed, .cleaningUp, some .notDead, ["ctx", "ol"]⟩
  else if k ≤ 27 then ⟨some .notListed, .cleaningUp, some .notDead, ["ctx"]⟩
  else ⟨some .notListed, .doesNotExist, some .notDead, []⟩

/-- the state after the owner was killed with `k` steps done -/
def ownerKilled (k : Nat) : FS := runKill k {} (mkOwner 0 true)

/-- the complete kill-point table of node creation + orderly drop -/
theorem owner_kill_table : ∀ k, k ≤ 30 → survey (ownerKilled k) = ownerKillExpected k := by decide

/-
FALSE as stated:  theorem crash_anywhere_survivor_cleanup_clean : ∀ k ≤ 30, (survey (ownerKilled k)).left = []
-/

/-- (e), true part: killed before anything exists, or between the commit of the creation (final chmod of the context file)
and the unlink of the state file in the orderly drop: the node is reported dead, the survivor's clean-up succeeds and
nothing is left; killed after the last unlink: nothing is left either -/
theorem crash_anywhere_survivor_cleanup_clean_partial :
    ∀ k, k ≤ 30 → (k = 0 ∨ (17 ≤ k ∧ k ≤ 21) ∨ 28 ≤ k) → (survey (ownerKilled k)).left = [] := by decide

theorem crash_between_commit_and_state_unlink_collected :
    ∀ k, k ≤ 21 → 17 ≤ k →
      let v := survey (ownerKilled k); v.listed = some .dead ∧ v.raw = .dead ∧ v.clean = some .ok ∧ v.left = [] := by decide

/-- candidate D4: details (and directory) are created before the monitoring token; killed in between, nothing shows the node
and nothing removes its directory and details file -/
theorem crash_in_creation_before_state_file_not_clean :
    ∀ k, k ≤ 8 → 1 ≤ k →
      let v := survey (ownerKilled k); v.listed = some .notListed ∧ v.clean = some .notDead ∧ v.left ≠ [] ∧ "dir" ∈ v.left := by decide

/-- killed between the creation of the state file and the final chmod of the context file: listed, but `Starting` = cal
`DoesNotExist`: skipped by `Node::list`, refused by `ProcessCleaner::new`; context, state, owner-lock (from step 11), details
and directory stay for ever -/
theorem crash_in_token_creation_not_clean :
    ∀ k, k ≤ 16 → 9 ≤ k →
      let v := survey (ownerKilled k)
      v.listed = some .skipped ∧ v.raw = .starting ∧ v.clean = some .notDead ∧
      (∀ x ∈ ["ctx", "st", "det", "dir"], x ∈ v.left) := by decide

/-- killed in the orderly drop after `unlink(state file)`: owner-lock and / or context file stay, invisible (`Node::list` looks for
state files only) and unreachable (`state()` = `CleaningUp` for ever) -/
theorem crash_in_drop_after_state_unlink_not_clean :
    ∀ k, k ≤ 27 → 22 ≤ k →
      let v := survey (ownerKilled k)
      v.listed = some .notListed ∧ v.raw = .cleaningUp ∧ v.clean = some .notDead ∧ "ctx" ∈ v.left := by decide

/-! ### kill points of the dead-node clean-up (second crash during cleanup) -/

/-- a node whose owner died while running, with one tag (port) in its directory -/
def deadNodeTag : FS := { runKill 100 {} (mkOwner 0 false) with tags := 1 }

/-- steps of the cleaner: 0 readdir nodes · 1 stat st · 2 open det · 3‥10 state() · 11‥18 state() · 19 open ctx · 20 open ol ·
21 open st · 22 getlk st · 23 setlk ol · 24 readdir · 25 readdir · 26 unlink tag · 27 readdir · 28 unlink det · 29 rmdir ·
30 fchmod st · 31 unlink st · 32 close st · 33 fchmod ol · 34 unlink ol · 35 close ol · 36 fchmod ctx · 37 unlink ctx · 38 close ctx -/
def cleanerKillExpected (j : Nat) : Survey :=
  if j ≤ 31 then ⟨some .dead, .dead, some .ok, []⟩
  else if j ≤ 34 then ⟨some .notListed, .cleaningUp, some .notDead, ["ctx", "ol"]⟩
  else if j ≤ 37 then ⟨some .notListed, .cleaningUp, some .notDead, ["ctx"]⟩
  else ⟨some .notListed, .doesNotExist, some .notDead, []⟩

def cleanerKilled (j : Nat) : FS := runKill j deadNodeTag (mkCleaner 3)

/-- the complete kill-point table of the clean-up: the first cleaner is killed with `j` steps done, then survivors -/
theorem cleaner_kill_table : ∀ j, j ≤ 39 → survey (cleanerKilled j) = cleanerKillExpected j := by decide

/-- (d), true part: a cleaner killed anywhere before it unlinks the state file (its lock is released by its death) leaves
a node that is reported dead again, and the next cleaner removes everything -/
theorem cleaner_crash_before_state_unlink_recollected :
    ∀ j, j ≤ 31 → let v := survey (cleanerKilled j); v.listed = some .dead ∧ v.clean = some .ok ∧ v.left = [] := by decide

/-- (d) is FALSE after that point: a cleaner killed after `unlink(state file)` leaves owner-lock / context files for ever -/
theorem cleaner_crash_after_state_unlink_not_clean :
    ∀ j, j ≤ 37 → 32 ≤ j →
      let v := survey (cleanerKilled j); v.listed = some .notListed ∧ v.raw = .cleaningUp ∧ v.clean = some .notDead ∧ "ctx" ∈ v.left := by decide

/-- a tag still carrying its creation permission (its creator was killed between `open(O_CREAT)` and the final chmod) is not
listed by the cleaner; `rmdir` fails, the cleaner abandons, and the same happens to every later cleaner: the node stays `Dead`
and is never collected -/
theorem locked_tag_uncollectable :
    let fs := { runKill 100 {} (mkOwner 0 false) with tagsInit := 1 }
    let v := survey fs
    let fs' := (runSolo fuel fs (mkCleaner 2)).1
    let v' := survey fs'
    v.listed = some .dead ∧ v.clean = some .internalError ∧ v'.listed = some .dead ∧ v'.clean = some .internalError ∧
    v'.left = ["ctx", "st", "ol", "dir", "tag"] := by decide

/-
FALSE as stated ("removing its stale resources from another process succeeds … afterwards no file owned solely by the dead node
remains"), also without any crash of the cleaner: when removing the dead node from one of its services fails (other iceoryx2
version, permissions, internal error), `remove_stale_resources_impl` returns through `cleanup_failure?` and the `Cleaner`, still a
live local, is dropped: the token is removed, tags / details / directory stay, and no `Node::list` shows the node any more.
-/
theorem failed_service_removal_drops_token :
    let r := runSolo fuel deadNodeTag { mkCleaner 3 with svcFails := true }
    let v := survey r.1
    r.2.res = some .internalError ∧ leftover r.1 = ["det", "dir", "tag"] ∧
    v.listed = some .notListed ∧ v.raw = .doesNotExist ∧ v.clean = some .notDead ∧ v.left = ["det", "dir", "tag"] := by decide

/-! ### the survivor's clean-up in general: any intact token, any number of tags, any reachable state -/

/-- the token of a dead, committed owner is intact and free: the three files exist, the context file is initialised and
carries the owner's id, no record lock is held on the state file or on the owner-lock file; no tag or details file is
still locked (creation permission) -/
structure Collectable (fs : FS) : Prop where
  ctx : fs.ctx.linked = true
  st : fs.st.linked = true
  ol : fs.ol.linked = true
  ctxFinal : fs.ctx.perm = .final
  stFree : fs.st.lock = none
  olFree : fs.ol.lock = none
  ctxPid : fs.ctxPid = some 0
  noLockedTag : fs.tagsInit = 0
  detFinal : fs.det.linked = true → fs.det.perm = .final

/-- a survivor (any process but the owner) that runs `Node::list` + `remove_stale_resources` alone from a collectable state
reports success and leaves nothing of the node — for every number of tags, with or without details file / directory -/
theorem solo_clean_complete (fs : FS) (pid : Nat) (hp : pid ≠ 0) (h : Collectable fs) (n : Nat) :
    let r := runSolo (38 + fs.tags + n) fs (mkCleaner pid)
    Clean r.1 ∧ r.2.res = some .ok ∧ r.2.pc = pcDone := by
  have e : 38 + fs.tags + n = 24 + ((2 + fs.tags) + (12 + n)) := by omega
  simp only [e]
  rw [runSolo_add, solo_phase1 fs pid hp h.ctx h.st h.ol h.ctxFinal h.stFree h.olFree h.ctxPid]
  simp only []
  rw [runSolo_add]
  have h2 := solo_phase2 { fs with ol := { fs.ol with lock := some pid } }
    { mkCleaner pid with pc := 25, hasDet := fs.det.linked && fs.det.perm == .final, raw := some .dead, listed := some .dead } rfl rfl rfl
  simp only [] at h2
  rw [h2]
  simp only []
  exact solo_phase3 { fs with ol := { fs.ol with lock := some pid }, tags := 0 }
    { mkCleaner pid with pc := 28, hasDet := fs.det.linked && fs.det.perm == .final, raw := some .dead, listed := some .dead, todo := 0 }
    rfl rfl rfl h.noLockedTag h.detFinal rfl rfl n

/-- (e) / (d) in general, over ALL interleavings and crash points of the owner and of any number of monitors and cleaners:
if the owner died after the commit of its creation, the state file still exists (no cleaner has got as far as unlinking it —
wherever earlier cleaners died) and no running cleaner holds the clean-up lock, then the next survivor's clean-up, run to
its end, removes everything the node owned.  (Locked tags excluded: `locked_tag_uncollectable`.) -/
theorem survivor_cleanup_general {c₀ c : Cfg FS (CTh Th)} (h0 : Init c₀) (hr : Reachable csys c₀ c)
    {j : Nat} {o : CTh Th} (ho : c.th[j]? = some o) (hro : o.inner.role = .owner) (hod : o.dead = true)
    (hpc : 17 ≤ phaseOf o.inner.pc) (hst : c.sh.st.linked = true) (hfree : c.sh.ol.lock = none)
    (htag : c.sh.tagsInit = 0) (pid : Nat) (hp : pid ≠ 0) (n : Nat) :
    let r := runSolo (38 + c.sh.tags + n) c.sh (mkCleaner pid)
    Clean r.1 ∧ r.2.res = some .ok := by
  have hI := Inv.reachable h0 hr
  have hd := (hI.ownerDead j o ho hro).1 hod
  have hopc := hI.ownerPc j o ho hro
  have h17 : 17 ≤ c.sh.opc := by rw [hopc]; exact hpc
  obtain ⟨h1, h2⟩ := hI.g.order h17 hst
  have hsl : c.sh.st.lock = none := by
    rcases hI.g.stLock with h | h
    · exact h
    · have := (hI.g.stLockOwner h).1; rw [hd] at this; cases this
  have hc : Collectable c.sh :=
    ⟨h2, hst, h1, hI.g.ctxFinal' h17, hsl, hfree, hI.g.ctxPid (by omega), htag, fun _ => hI.g.detFinal (by omega)⟩
  have := solo_clean_complete c.sh pid hp hc n
  exact ⟨this.1, this.2.1⟩

end Iox2.C04Fs
