/-
C16 / Queue — property theorems (proofs machine-checked; helper lemmas above each theorem).
-/
import Iox2.Model.Queue
import Iox2.Proof.ListLemmas

namespace Iox2.C16.QueueP
open Iox2 Iox2.Queue
open Iox2.Vec (Elem)

/-- representation invariant of the ring -/
def Inv (s : St) : Prop :=
  s.data.length = s.cap ∧ s.len ≤ s.cap ∧ s.len ≤ s.start ∧ ∀ i, i < s.len → (slotAt s i).isSome = true

/-- the reference: an unbounded FIFO list, plus the documented capacity behaviour -/
def ref (cap : Nat) (l : List Elem) : Op → List Elem × Out × List Nat
  | .push e => if l.length = cap then (l, .ff, [e.id]) else (l ++ [e], .tt, [])
  | .pushOverflow e =>
      if cap = 0 then (l, .some e, [])
      else if l.length = cap then
        (l.tail ++ [e], (match l.head? with | some o => .some o | none => .none), [])
      else (l ++ [e], .none, [])
  | .pop => (l.tail, (match l.head? with | some o => .some o | none => .none), [])
  | .peek => (l, (match l.head? with | some o => .some o | none => .none), [])
  | .clear => ([], .tt, l.map (·.id))
  | .get i => if l.length ≤ i then (l, .panic, []) else (l, (match l[i]? with | some o => .some o | none => .none), [])
  | .dump => (l, .contents l cap, [])
  | .dropAll => ([], .tt, l.map (·.id))


/-! ### helper lemmas -/

theorem filterMap_map_some {α β} (f : α → Option β) (l : List α)
    (h : ∀ x ∈ l, (f x).isSome = true) : (l.filterMap f).map some = l.map f := by
  induction l with
  | nil => rfl
  | cons a l ih =>
    have ha := h a (by simp)
    obtain ⟨b, hb⟩ := Option.isSome_iff_exists.mp ha
    have := ih (fun x hx => h x (by simp [hx]))
    simp [hb, this]

theorem mod_ne_of_lt {a b c : Nat} (hab : a < b) (hc : b - a < c) : a % c ≠ b % c := by
  intro h
  have h1 := Nat.sub_mod_eq_zero_of_mod_eq h.symm
  rw [Nat.mod_eq_of_lt hc] at h1
  omega

theorem contents_map_some (s : St) (h : Inv s) :
    (contents s).map some = (List.range s.len).map (slotAt s) := by
  unfold contents
  apply filterMap_map_some
  intro x hx
  exact h.2.2.2 x (by simpa using hx)

theorem contents_length' (s : St) (h : Inv s) : (contents s).length = s.len := by
  have := congrArg List.length (contents_map_some s h)
  simpa using this

theorem contents_getElem? (s : St) (h : Inv s) (i : Nat) (hi : i < s.len) :
    (contents s)[i]? = slotAt s i := by
  have := congrArg (fun l => l[i]?) (contents_map_some s h)
  simp only [List.getElem?_map] at this
  have hl := contents_length' s h
  rw [List.getElem?_eq_getElem (by omega)] at this ⊢
  rw [List.getElem?_eq_getElem (by simpa using hi)] at this
  simp at this
  exact this.symm ▸ rfl

theorem contents_eq_of (s : St) (h : Inv s) (l : List Elem) (hl : l.length = s.len)
    (hs : ∀ i, i < s.len → slotAt s i = l[i]?) : contents s = l := by
  apply List.ext_getElem?
  intro i
  by_cases hi : i < s.len
  · rw [contents_getElem? s h i hi, hs i hi]
  · have := contents_length' s h
    rw [List.getElem?_eq_none (by omega), List.getElem?_eq_none (by omega)]


theorem slotAt_push (s : St) (e : Elem) (h : Inv s) (hlt : s.len < s.cap) (i : Nat)
    (hi : i ≤ s.len) :
    slotAt (uncheckedPush s e) i = if i = s.len then some e else slotAt s i := by
  obtain ⟨hd, hlc, hls, _⟩ := h
  simp only [slotAt, uncheckedPush]
  have e1 : s.start + 1 - (s.len + 1) + i = s.start - s.len + i := by omega
  rw [e1, List.getD_eq_getElem?_getD, List.getElem?_set]
  by_cases hil : i = s.len
  · subst hil
    have e2 : s.start - s.len + s.len = s.start := by omega
    have : s.start % s.cap < s.data.length := by rw [hd]; exact Nat.mod_lt _ (by omega)
    simp [e2, this]
  · have hne : (s.start - s.len + i) % s.cap ≠ s.start % s.cap :=
      mod_ne_of_lt (by omega) (by omega)
    simp [hil, Ne.symm hne, List.getD_eq_getElem?_getD]

theorem push_inv (s : St) (e : Elem) (h : Inv s) (hlt : s.len < s.cap) :
    Inv (uncheckedPush s e) := by
  refine ⟨?_, ?_, ?_, ?_⟩
  · simpa [uncheckedPush] using h.1
  · simp [uncheckedPush]; omega
  · have := h.2.2.1; simp [uncheckedPush]; omega
  · intro i hi
    have hi' : i ≤ s.len := by simp [uncheckedPush] at hi; omega
    rw [slotAt_push s e h hlt i hi']
    split
    · rfl
    · exact h.2.2.2 i (by omega)

theorem push_contents (s : St) (e : Elem) (h : Inv s) (hlt : s.len < s.cap) :
    contents (uncheckedPush s e) = contents s ++ [e] := by
  have hl := contents_length' s h
  apply contents_eq_of _ (push_inv s e h hlt)
  · simp [uncheckedPush, hl]
  · intro i hi
    have hi' : i ≤ s.len := by simp [uncheckedPush] at hi; omega
    rw [slotAt_push s e h hlt i hi']
    split
    · next heq => subst heq; rw [← hl]; simp
    · rw [List.getElem?_append_left (by omega)]
      exact (contents_getElem? s h i (by omega)).symm

theorem slotAt_pop (s : St) (h : Inv s) (hne : s.len ≠ 0) (i : Nat) (hi : i + 1 < s.len) :
    slotAt (popImpl s).1 i = slotAt s (i + 1) := by
  obtain ⟨hd, hlc, hls, _⟩ := h
  simp only [popImpl, hne, if_false, slotAt]
  have e1 : s.start - (s.len - 1) + i = s.start - s.len + (i + 1) := by omega
  rw [e1, List.getD_eq_getElem?_getD, List.getElem?_set]
  have hne : (s.start - s.len) % s.cap ≠ (s.start - s.len + (i + 1)) % s.cap :=
    mod_ne_of_lt (by omega) (by omega)
  simp [hne, List.getD_eq_getElem?_getD]

theorem pop_snd (s : St) (hne : s.len ≠ 0) : (popImpl s).2 = slotAt s 0 := by
  simp [popImpl, hne, slotAt]

theorem pop_zero (s : St) (h0 : s.len = 0) : popImpl s = (s, none) := by
  simp [popImpl, h0]

theorem pop_inv (s : St) (h : Inv s) : Inv (popImpl s).1 ∧ (popImpl s).1.cap = s.cap := by
  by_cases hne : s.len = 0
  · rw [pop_zero s hne]; exact ⟨h, rfl⟩
  · refine ⟨⟨?_, ?_, ?_, ?_⟩, ?_⟩
    · simpa [popImpl, hne] using h.1
    · have := h.2.1; simp [popImpl, hne]; omega
    · have := h.2.2.1; simp [popImpl, hne]; omega
    · intro i hi
      have hi' : i + 1 < s.len := by simp [popImpl, hne] at hi; omega
      rw [slotAt_pop s h hne i hi']
      exact h.2.2.2 _ hi'
    · simp [popImpl, hne]

theorem pop_len (s : St) (hne : s.len ≠ 0) : (popImpl s).1.len = s.len - 1 := by
  simp [popImpl, hne]

theorem pop_contents (s : St) (h : Inv s) (hne : s.len ≠ 0) :
    contents (popImpl s).1 = (contents s).tail := by
  have hl := contents_length' s h
  apply contents_eq_of _ (pop_inv s h).1
  · simp [pop_len s hne, hl]
  · intro i hi
    rw [pop_len s hne] at hi
    rw [slotAt_pop s h hne i (by omega), List.getElem?_tail]
    exact (contents_getElem? s h (i + 1) (by omega)).symm

theorem head_contents (s : St) (h : Inv s) (hne : s.len ≠ 0) :
    (contents s).head? = slotAt s 0 := by
  rw [List.head?_eq_getElem?]
  exact contents_getElem? s h 0 (by omega)

theorem contents_len_zero (s : St) (h0 : s.len = 0) : contents s = [] := by
  simp [contents, h0]


theorem clearLoop_succ_some (n : Nat) (s s' : St) (acc : List Nat) (e : Elem)
    (hp : popImpl s = (s', some e)) :
    clearLoop (n + 1) s acc = clearLoop n s' (acc ++ [e.id]) := by
  simp [clearLoop, hp]

theorem clearLoop_succ_none (n : Nat) (s s' : St) (acc : List Nat)
    (hp : popImpl s = (s', none)) : clearLoop (n + 1) s acc = (s', acc) := by
  simp [clearLoop, hp]

theorem clearLoop_spec : ∀ (fuel : Nat) (s : St) (acc : List Nat), Inv s → s.len ≤ fuel →
    Inv (clearLoop fuel s acc).1 ∧ (clearLoop fuel s acc).1.cap = s.cap ∧
    (clearLoop fuel s acc).1.len = 0 ∧
    (clearLoop fuel s acc).2 = acc ++ (contents s).map (·.id) := by
  intro fuel
  induction fuel with
  | zero =>
    intro s acc h hl
    have h0 : s.len = 0 := by omega
    simp [clearLoop, contents_len_zero s h0, h, h0]
  | succ n ih =>
    intro s acc h hl
    by_cases h0 : s.len = 0
    · rw [clearLoop_succ_none n s s acc (pop_zero s h0)]
      simp [contents_len_zero s h0, h, h0]
    · have hsome := h.2.2.2 0 (by omega)
      obtain ⟨e, he⟩ := Option.isSome_iff_exists.mp hsome
      have hp : popImpl s = ((popImpl s).1, some e) := by
        rw [← he, ← pop_snd s h0]
      have hI := pop_inv s h
      have hc := pop_contents s h h0
      have hh := head_contents s h h0
      have hcons : contents s = e :: contents (popImpl s).1 := by
        rw [hc]; rw [he] at hh
        cases hcs : contents s with
        | nil => simp [hcs] at hh
        | cons a t => simp [hcs] at hh; simp [hh]
      rw [clearLoop_succ_some n s _ acc e hp]
      have := ih (popImpl s).1 (acc ++ [e.id]) hI.1 (by rw [pop_len s h0]; omega)
      refine ⟨this.1, this.2.1.trans hI.2, this.2.2.1, ?_⟩
      rw [this.2.2.2, hcons]; simp

def optOut : Option Elem → Out
  | some o => .some o
  | none => .none

theorem step_pop (s : St) : step s .pop = ((popImpl s).1, optOut (popImpl s).2, []) := by
  simp only [step]
  split <;> next hp => simp [hp, optOut]

theorem step_peek (s : St) :
    step s .peek = (s, if s.len = 0 then Out.none else optOut (slotAt s 0), []) := by
  simp only [step]
  split
  · rfl
  · split <;> next hp => simp [hp, optOut]

theorem step_get (s : St) (i : Nat) :
    step s (.get i) = (s, if s.len ≤ i then Out.panic else optOut (slotAt s i), []) := by
  simp only [step]
  split
  · rfl
  · split <;> next hp => simp [hp, optOut]

theorem step_clear (s : St) :
    step s .clear = ((clearLoop (s.len + 1) s []).1, .tt, (clearLoop (s.len + 1) s []).2) := by
  simp [step]

theorem step_dropAll (s : St) :
    step s .dropAll = ((clearLoop (s.len + 1) s []).1, .tt, (clearLoop (s.len + 1) s []).2) := by
  simp [step]

theorem step_pushOverflow_full (s : St) (e : Elem) (hc : s.cap ≠ 0) (hf : s.len = s.cap) :
    step s (.pushOverflow e) = (uncheckedPush (popImpl s).1 e, optOut (popImpl s).2, []) := by
  simp only [step, hc, hf, if_false, if_true]
  rcases popImpl s with ⟨s', _ | o⟩ <;> rfl

theorem inv_init (cap : Nat) : Inv (init cap) := by
  refine ⟨by simp [init], by simp [init], by simp [init], ?_⟩
  intro i hi
  simp [init] at hi

theorem contents_init (cap : Nat) : contents (init cap) = [] := by
  simp [contents, init]

theorem contents_length (s : St) (h : Inv s) : (contents s).length = s.len :=
  contents_length' s h

/-- every operation preserves the representation invariant and the capacity -/
theorem step_inv (s : St) (op : Op) (h : Inv s) : Inv (step s op).1 ∧ (step s op).1.cap = s.cap := by
  have hlc := h.2.1
  cases op with
  | push e =>
    simp only [step]
    split
    · exact ⟨h, rfl⟩
    · exact ⟨push_inv s e h (by omega), rfl⟩
  | pushOverflow e =>
    by_cases hc : s.cap = 0
    · have hs : step s (.pushOverflow e) = (s, .some e, []) := by simp [step, hc]
      rw [hs]; exact ⟨h, rfl⟩
    · by_cases hf : s.len = s.cap
      · rw [step_pushOverflow_full s e hc hf]
        have hI := pop_inv s h
        have hl := pop_len s (by omega)
        exact ⟨push_inv _ e hI.1 (by rw [hl, hI.2]; omega), hI.2⟩
      · simp only [step, hc, hf, if_false]
        exact ⟨push_inv s e h (by omega), rfl⟩
  | pop => rw [step_pop]; exact pop_inv s h
  | peek => rw [step_peek]; exact ⟨h, rfl⟩
  | clear =>
    rw [step_clear]
    have := clearLoop_spec (s.len + 1) s [] h (by omega)
    exact ⟨this.1, this.2.1⟩
  | get i => rw [step_get]; exact ⟨h, rfl⟩
  | dump => exact ⟨h, rfl⟩
  | dropAll =>
    rw [step_dropAll]
    have := clearLoop_spec (s.len + 1) s [] h (by omega)
    exact ⟨this.1, this.2.1⟩

theorem optOut_eq (o : Option Elem) :
    (match o with | some o => Out.some o | none => Out.none) = optOut o := by
  cases o <;> rfl

/-- **refinement**: on the abstraction `contents`, every operation of the ring implementation
returns exactly what the unbounded FIFO would (with the documented behaviour at the capacity
bound), leaves exactly the FIFO's contents, and drops exactly the elements the reference drops,
in the same order -/
theorem queue_refines_fifo (s : St) (op : Op) (h : Inv s) :
    (contents (step s op).1, (step s op).2.1, (step s op).2.2) = ref s.cap (contents s) op := by
  have hlc := h.2.1
  have hl := contents_length' s h
  cases op with
  | push e =>
    simp only [step, ref, hl]
    split
    · rfl
    · simp [push_contents s e h (by omega)]
  | pushOverflow e =>
    by_cases hc : s.cap = 0
    · simp only [step, ref, hc, if_true]
    · by_cases hf : s.len = s.cap
      · rw [step_pushOverflow_full s e hc hf]
        have hI := pop_inv s h
        have h0 : s.len ≠ 0 := by omega
        have hpl := pop_len s h0
        simp only [ref, hc, hl, hf, if_false, if_true, optOut_eq]
        rw [push_contents _ e hI.1 (by rw [hpl, hI.2]; omega), pop_contents s h h0,
          pop_snd s h0, head_contents s h h0]
      · simp only [step, ref, hc, hf, hl, if_false]
        simp [push_contents s e h (by omega)]
  | pop =>
    rw [step_pop]
    simp only [ref, optOut_eq]
    by_cases h0 : s.len = 0
    · simp [pop_zero s h0, contents_len_zero s h0]
    · rw [pop_contents s h h0, pop_snd s h0, head_contents s h h0]
  | peek =>
    rw [step_peek]
    simp only [ref, optOut_eq]
    by_cases h0 : s.len = 0
    · simp [h0, contents_len_zero s h0, optOut]
    · simp only [h0, if_false]; rw [head_contents s h h0]
  | clear =>
    rw [step_clear]
    have := clearLoop_spec (s.len + 1) s [] h (by omega)
    simp only [ref]
    rw [contents_len_zero _ this.2.2.1, this.2.2.2]; simp
  | get i =>
    rw [step_get]
    simp only [ref, optOut_eq, hl]
    split
    · rfl
    · rw [contents_getElem? s h i (by omega)]
  | dump => rfl
  | dropAll =>
    rw [step_dropAll]
    have := clearLoop_spec (s.len + 1) s [] h (by omega)
    simp only [ref]
    rw [contents_len_zero _ this.2.2.1, this.2.2.2]; simp

/-- whole histories -/
def run (s : St) : List Op → St
  | [] => s
  | op :: ops => run (step s op).1 ops

def refRun (cap : Nat) (l : List Elem) : List Op → List Elem
  | [] => l
  | op :: ops => refRun cap (ref cap l op).1 ops

theorem run_spec (ops : List Op) : ∀ (s : St), Inv s →
    Inv (run s ops) ∧ (run s ops).cap = s.cap ∧ contents (run s ops) = refRun s.cap (contents s) ops := by
  induction ops with
  | nil => intro s h; exact ⟨h, rfl, rfl⟩
  | cons op ops ih =>
    intro s h
    have hI := step_inv s op h
    have hr := queue_refines_fifo s op h
    have hr1 : contents (step s op).1 = (ref s.cap (contents s) op).1 := congrArg Prod.fst hr
    have := ih (step s op).1 hI.1
    simp only [run, refRun]
    refine ⟨this.1, this.2.1.trans hI.2, ?_⟩
    rw [this.2.2, hI.2, hr1]

theorem queue_history_refines (cap : Nat) (ops : List Op) :
    contents (run (init cap) ops) = refRun cap [] ops ∧ (contents (run (init cap) ops)).length ≤ cap := by
  have := run_spec ops (init cap) (inv_init cap)
  rw [contents_init] at this
  refine ⟨this.2.2, ?_⟩
  rw [contents_length' _ this.1]
  have h2 := this.1.2.1
  rw [this.2.1] at h2
  exact h2

/-- failing push changes nothing -/
theorem queue_full_push_changes_nothing (s : St) (e : Elem) (h : (step s (.push e)).2.1 = .ff) :
    (step s (.push e)).1 = s := by
  simp only [step] at h ⊢
  split
  · rfl
  · next hne => simp [hne] at h


end Iox2.C16.QueueP
